#!/usr/bin/env python3
"""usage: tools_try.py Cnn CASEFILE — runs the case lines of CASEFILE (harness case format) through the real implementation
(Rust harness) and the extracted Coq model, and applies property Cnn's python oracle and known-finding classifier to the
implementation's output. Read-only with respect to /verif's evidence and replays; /repo is used as it is."""
import sys, os
sys.path.insert(0, os.path.dirname(os.path.abspath(__file__)))
from lib import core, sexp, props
from lib.runner import compare_case

def main():
    pid, path = sys.argv[1], sys.argv[2]
    prop = props.get(pid)
    ok_d, _ = core.build_driver()
    ok_h, log, _ = core.build_harness(prop.harness)
    if not (ok_d and ok_h):
        print('build failed', log[-800:]); return 2
    cases = [l for l in open(path).read().split('\n') if l.strip() and not l.startswith(';')]
    impl, model, info = core.run_both(prop.id, cases, prop.impl_argv, prop.model_argv, tag='try', supervise=getattr(prop, 'supervise', None))
    for c, il, ml in zip(cases, impl, model):
        print('CASE  ' + c)
        print('IMPL  ' + str(il))
        if il != ml:
            print('MODEL ' + str(ml))
            fails, _, _ = compare_case(prop, c, il, ml)
            for f in fails[:3]:
                print('  DIFF ' + str(f.get('kind')) + ' ' + str(f.get('detail'))[:300])
        else:
            print('MODEL (same)')
        if il and not il.startswith('(DIVERGED') and not il.startswith('(CRASHED'):
            ct, it = sexp.parse(c), sexp.parse(il)
            for path_, desc in prop.oracle(ct, it):
                f = {'kind': 'oracle', 'case': c, 'detail': {'path': path_, 'what': desc}}
                print('  ORACLE %s%s' % ('[known: %s] ' % prop.classify(ct, f) if prop.classify(ct, f) else '', desc[:400]))
        print()
    return 0

if __name__ == '__main__':
    sys.exit(main())
