(** C06 + C07 closed up: a purely syntactic class of grammars ([wfr]: everything [PegRep.peg2]
    covers, bounds in order, repetition items syntactically non-nullable ([nn])) on which
      - the specification is total ([peg2_total]),
      - every repetition item makes progress, so the interpreter terminates with fuel above
        depth + bytes left + 3 (RunTerm.run_terminates),
    and therefore the interpreter's answer IS the specification's answer ([rep_exact]): same
    verdict, same value, exactly the remaining tokens deliverable, filter / recover state / store
    as at entry. No semantic hypothesis is left. *)
From Tephra Require Import MetricsSpec MetricsFacts CLexer LexerFacts LexerFin Run Peg PegRep RunCore RunErrors RunMove RunCanon RunSafe RunTerm RunPeg.

(** * Length bookkeeping on specification functions *)

Definition le_p (p : list entry -> option pres) : Prop := forall s v s', p s = Some (POk v s') -> length s' <= length s.
Definition lt_p (p : list entry -> option pres) : Prop := forall s v s', p s = Some (POk v s') -> length s' < length s.
Definition tot_p (p : list entry -> option pres) : Prop := forall s, exists r, p s = Some r.

Lemma lt_le p : lt_p p -> le_p p.
Proof. intros H s v s' E. pose proof (H s v s' E). lia. Qed.

Lemma le_ret c : le_p (fun s => Some (POk c s)).
Proof. intros s v s' H. injection H as _ <-. lia. Qed.

Lemma le_pbind p k : le_p p -> (forall v, le_p (k v)) -> le_p (fun s => pbind (p s) k).
Proof.
  intros Hp Hk s v s' H. destruct (p s) as [[v1 s1|]|] eqn:E; cbn [pbind] in H; try discriminate H.
  pose proof (Hp s v1 s1 E). pose proof (Hk v1 s1 v s' H). lia.
Qed.

Lemma lt_pbind_l p k : lt_p p -> (forall v, le_p (k v)) -> lt_p (fun s => pbind (p s) k).
Proof.
  intros Hp Hk s v s' H. destruct (p s) as [[v1 s1|]|] eqn:E; cbn [pbind] in H; try discriminate H.
  pose proof (Hp s v1 s1 E). pose proof (Hk v1 s1 v s' H). lia.
Qed.

Lemma lt_pbind_r p k : le_p p -> (forall v, lt_p (k v)) -> lt_p (fun s => pbind (p s) k).
Proof.
  intros Hp Hk s v s' H. destruct (p s) as [[v1 s1|]|] eqn:E; cbn [pbind] in H; try discriminate H.
  pose proof (Hp s v1 s1 E). pose proof (Hk v1 s1 v s' H). lia.
Qed.

Lemma le_pmap f p : le_p p -> le_p (fun s => pmap f (p s)).
Proof. intros Hp. unfold pmap. apply le_pbind; [exact Hp|]. intros v. apply le_ret. Qed.

Lemma lt_pmap f p : lt_p p -> lt_p (fun s => pmap f (p s)).
Proof. intros Hp. unfold pmap. apply lt_pbind_l; [exact Hp|]. intros v. apply le_ret. Qed.

Lemma le_pmaybe p : le_p p -> le_p (fun s => pmaybe (p s) s).
Proof.
  intros Hp s v s' H. destruct (p s) as [[v1 s1|]|] eqn:E; cbn [pmaybe] in H; try discriminate H; injection H as _ <-; [exact (Hp s v1 s1 E)|lia].
Qed.

Lemma lt_ptok q : lt_p (fun s => Some (p_tok q s)).
Proof. intros s v s' H. destruct s as [|x r]; cbn [p_tok] in H; [discriminate H|]. destruct (q (e_tok x)); [|discriminate H]. injection H as _ <-. cbn. lia. Qed.

Lemma le_pseq : forall ks acc, le_p (fun s => Some (pseq ks acc s)).
Proof.
  induction ks as [|k r IH]; intros acc s v s' H; cbn [pseq] in H.
  - injection H as _ <-. lia.
  - destruct s as [|x s0]; [discriminate H|]. destruct (tok_eqb (e_tok x) (tk0 k)); [|discriminate H].
    pose proof (IH _ s0 v s' H). cbn. lia.
Qed.

Lemma lt_pseq k ks acc : lt_p (fun s => Some (pseq (k :: ks) acc s)).
Proof.
  intros s v s' H. cbn [pseq] in H. destruct s as [|x s0]; [discriminate H|]. destruct (tok_eqb (e_tok x) (tk0 k)); [|discriminate H].
  pose proof (le_pseq ks _ s0 v s' H). cbn. lia.
Qed.

Lemma le_pseqc cl : forall ks cnt, le_p (fun s => Some (pseqc cl ks cnt s)).
Proof.
  induction ks as [|k r IH]; intros cnt s v s' H; cbn [pseqc] in H.
  - injection H as _ <-. lia.
  - destruct s as [|x s0].
    + destruct cl; [injection H as _ <-; lia|discriminate H].
    + destruct (tok_eqb (e_tok x) (tk0 k)).
      * pose proof (IH _ s0 v s' H). cbn. lia.
      * injection H as _ <-. lia.
Qed.

Lemma le_prep unitp stopp : le_p unitp -> forall n lo hi vals, le_p (prep unitp stopp n lo hi vals).
Proof.
  intros Hu. induction n as [|n IH]; intros lo hi vals s v s' H; cbn [prep] in H; [discriminate H|].
  destruct (length vals <? lo).
  - destruct (stop_hit stopp s) as [[|]|]; try discriminate H; [injection H as _ <-; lia|].
    destruct (unitp s) as [[v1 s1|]|] eqn:E; try discriminate H.
    pose proof (Hu s v1 s1 E). pose proof (IH _ _ _ s1 v s' H). lia.
  - destruct (lt_opt (length vals) hi); [|injection H as _ <-; lia].
    destruct (stop_hit stopp s) as [[|]|]; try discriminate H; [injection H as _ <-; lia|].
    destruct (unitp s) as [[v1 s1|]|] eqn:E; try discriminate H.
    + pose proof (Hu s v1 s1 E). destruct (ge_opt (length (vals ++ [v1])) hi).
      * injection H as _ <-. lia.
      * pose proof (IH _ _ _ s1 v s' H). lia.
    + injection H as _ <-. lia.
Qed.

Lemma le_prep_top unitp stopp item lo hi : le_p unitp -> le_p item -> le_p (prep_top unitp stopp item lo hi).
Proof.
  intros Hu Hi s v s' H. unfold prep_top in H.
  assert (Hb : match stop_hit stopp s with
               | None => None
               | Some true => Some (POk (VList []) s)
               | Some false =>
                 match item s with
                 | Some (POk v0 s1) => prep unitp stopp (rep_fuel lo hi s1) lo hi [v0] s1
                 | Some PFail => if lo =? 0 then Some (POk (VList []) s) else Some PFail
                 | None => None
                 end
               end = Some (POk v s') -> length s' <= length s).
  { intros Hb. destruct (stop_hit stopp s) as [[|]|]; try discriminate Hb; [injection Hb as _ <-; lia|].
    destruct (item s) as [[v1 s1|]|] eqn:E; try discriminate Hb.
    - pose proof (Hi s v1 s1 E). pose proof (le_prep unitp stopp Hu _ _ _ _ s1 v s' Hb). lia.
    - destruct (lo =? 0); [injection Hb as _ <-; lia|discriminate Hb]. }
  destruct hi as [h|]; [|exact (Hb H)]. destruct (h <? lo); [discriminate H|].
  destruct (h =? 0); [injection H as _ <-; lia|exact (Hb H)].
Qed.

(** with a lower bound of at least one and no stop parser, a repetition consumes whenever its item does *)
Lemma lt_prep_top unitp item lo hi : 1 <= lo -> le_p unitp -> lt_p item -> lt_p (prep_top unitp None item lo hi).
Proof.
  intros Hlo Hu Hi s v s' H. unfold prep_top in H. cbn [stop_hit] in H.
  assert (Hb : match item s with
               | Some (POk v0 s1) => prep unitp None (rep_fuel lo hi s1) lo hi [v0] s1
               | Some PFail => if lo =? 0 then Some (POk (VList []) s) else Some PFail
               | None => None
               end = Some (POk v s') -> length s' < length s).
  { intros Hb. destruct (item s) as [[v1 s1|]|] eqn:E; try discriminate Hb.
    - pose proof (Hi s v1 s1 E). pose proof (le_prep unitp None Hu _ _ _ _ s1 v s' Hb). lia.
    - destruct (Nat.eqb_spec lo 0); [lia|discriminate Hb]. }
  destruct hi as [h|]; [|exact (Hb H)]. destruct (Nat.ltb_spec h lo); [discriminate H|].
  destruct (Nat.eqb_spec h 0); [lia|exact (Hb H)].
Qed.

Lemma le_pcount p : le_p p -> le_p (fun s => pcount (p s)).
Proof. intros H. unfold pcount. apply le_pmap. exact H. Qed.
Lemma lt_pcount p : lt_p p -> lt_p (fun s => pcount (p s)).
Proof. intros H. unfold pcount. apply lt_pmap. exact H. Qed.

Lemma le_pright a b : le_p a -> le_p b -> le_p (pright a b).
Proof. intros Ha Hb. unfold pright. apply le_pbind; [exact Ha|]. intros _. exact Hb. Qed.

Lemma le_either a b : le_p a -> le_p b -> le_p (fun s => match a s with Some PFail => b s | r => r end).
Proof. intros Ha Hb s v s' H. destruct (a s) as [[v1 s1|]|] eqn:E; [injection H as _ <-; exact (Ha s v1 s1 E)|exact (Hb s v s' H)|discriminate H]. Qed.
Lemma lt_either a b : lt_p a -> lt_p b -> lt_p (fun s => match a s with Some PFail => b s | r => r end).
Proof. intros Ha Hb s v s' H. destruct (a s) as [[v1 s1|]|] eqn:E; [injection H as _ <-; exact (Ha s v1 s1 E)|exact (Hb s v s' H)|discriminate H]. Qed.

(** every specification result is a shorter-or-equal stream *)
Lemma peg2_le cl g : le_p (peg2 cl g).
Proof.
  induction g; intros s0 v0 s0' H; cbn [peg2] in H; try discriminate H;
    try (destruct ks as [|k0 ks]; [discriminate H|]); try (destruct b).
  all: try (exact (le_ret _ s0 v0 s0' H)).
  all: try (exact (lt_le _ (lt_ptok _) s0 v0 s0' H)).
  - exact (le_pseq ks [] s0 v0 s0' H).
  - exact (le_pseqc cl ks 0 s0 v0 s0' H).
  - destruct s0; [destruct cl; [injection H as _ <-; lia|discriminate H]|discriminate H].
  - exact (le_pbind _ _ IHg1 (fun l => le_pmap _ _ IHg2) s0 v0 s0' H).
  - exact (le_pbind _ _ IHg1 (fun _ => IHg2) s0 v0 s0' H).
  - exact (le_pbind _ _ IHg1 (fun l => le_pmap _ _ IHg2) s0 v0 s0' H).
  - exact (le_pbind _ _ IHg1 (fun _ => le_pbind _ _ IHg2 (fun v => le_pmap _ _ IHg3)) s0 v0 s0' H).
  - exact (le_pmap _ _ IHg s0 v0 s0' H).
  - exact (le_pmap _ _ IHg s0 v0 s0' H).
  - exact (IHg s0 v0 s0' H).
  - exact (le_either _ _ IHg1 IHg2 s0 v0 s0' H).
  - exact (le_pmaybe _ IHg s0 v0 s0' H).
  - exact (le_pmap _ _ IHg s0 v0 s0' H).
  - exact (le_pmaybe _ IHg s0 v0 s0' H).
  - exact (le_pmap _ _ IHg s0 v0 s0' H).
  - refine (le_pbind _ _ (le_pmaybe _ IHg1) _ s0 v0 s0' H). intros a; destruct a; try apply le_ret. exact (le_pmap _ _ IHg2).
  - refine (le_pbind _ _ (le_pmaybe _ IHg1) _ s0 v0 s0' H). intros a; destruct a; try apply le_ret. exact (le_pmap _ _ IHg2).
  - refine (le_pbind _ _ (le_pmaybe _ IHg1) _ s0 v0 s0' H). intros a; destruct a; try apply le_ret. exact (le_pmap _ _ IHg2).
  - refine (le_pbind _ _ (le_pmaybe _ IHg1) _ s0 v0 s0' H). intros a; destruct a; try apply le_ret.
    destruct (vpeval p a); [exact (le_pmap _ _ IHg2)|apply le_ret].
  - exact (IHg s0 v0 s0' H).
  - exact (IHg s0 v0 s0' H).
  - exact (le_prep_top _ _ _ lo hi IHg IHg s0 v0 s0' H).
  - exact (le_pcount _ (le_prep_top _ _ _ lo hi IHg IHg) s0 v0 s0' H).
  - exact (le_prep_top _ _ _ lo hi IHg2 IHg2 s0 v0 s0' H).
  - exact (le_pcount _ (le_prep_top _ _ _ lo hi IHg2 IHg2) s0 v0 s0' H).
  - exact (le_prep_top _ _ _ lo hi (le_pright _ _ IHg2 IHg1) IHg1 s0 v0 s0' H).
  - exact (le_pcount _ (le_prep_top _ _ _ lo hi (le_pright _ _ IHg2 IHg1) IHg1) s0 v0 s0' H).
  - exact (le_prep_top _ _ _ lo hi (le_pright _ _ IHg3 IHg2) IHg2 s0 v0 s0' H).
  - exact (le_pcount _ (le_prep_top _ _ _ lo hi (le_pright _ _ IHg3 IHg2) IHg2) s0 v0 s0' H).
  - exact (le_prep_top _ _ _ lo hi (le_pright _ _ (lt_le _ (lt_ptok _)) IHg) IHg s0 v0 s0' H).
  - exact (IHg s0 v0 s0' H).
  - exact (le_pmap _ _ IHg s0 v0 s0' H).
Qed.

(** * Syntactically non-nullable grammars *)

Fixpoint nn (g : G) : bool :=
  match g with
  | GOne _ | GPred _ | GAny _ | GAnyIndex _ | GUserFail => true
  | GSeq ks => match ks with [] => false | _ => true end
  | GBoth a b | GLeft a b | GRight a b => nn a || nn b
  | GCenter a b d => nn a || nn b || nn d
  | GEither a b => nn a && nn b
  | GMap _ a | GDiscard a | GSomeOf a | GSub a | GRaw a | GUnrec a | GCtxPush _ a => nn a
  | GRequireIf b a | GCond b a => b && nn a
  | GRepeat lo _ a | GRepeatCount lo _ a | GIntersperseDef lo _ a _
  | GIntersperse lo _ a _ | GIntersperseCount lo _ a _ => (1 <=? lo) && nn a
  | _ => false
  end.

Lemma peg2_lt cl g : nn g = true -> lt_p (peg2 cl g).
Proof.
  induction g; cbn [nn]; intros Hn s0 v0 s0' H; try discriminate Hn; cbn [peg2] in H; try discriminate H;
    try (destruct ks as [|k0 ks]; [discriminate|]); try (destruct b; [cbn [andb] in Hn|discriminate Hn]).
  all: try (exact (lt_ptok _ s0 v0 s0' H)).
  - exact (lt_pseq k0 ks [] s0 v0 s0' H).
  - apply orb_prop in Hn. destruct Hn as [Hn|Hn].
    + exact (lt_pbind_l _ _ (IHg1 Hn) (fun l => le_pmap _ _ (peg2_le cl g2)) s0 v0 s0' H).
    + exact (lt_pbind_r _ _ (peg2_le cl g1) (fun l => lt_pmap _ _ (IHg2 Hn)) s0 v0 s0' H).
  - apply orb_prop in Hn. destruct Hn as [Hn|Hn].
    + exact (lt_pbind_l _ _ (IHg1 Hn) (fun _ => peg2_le cl g2) s0 v0 s0' H).
    + exact (lt_pbind_r _ _ (peg2_le cl g1) (fun _ => IHg2 Hn) s0 v0 s0' H).
  - apply orb_prop in Hn. destruct Hn as [Hn|Hn].
    + exact (lt_pbind_l _ _ (IHg1 Hn) (fun l => le_pmap _ _ (peg2_le cl g2)) s0 v0 s0' H).
    + exact (lt_pbind_r _ _ (peg2_le cl g1) (fun l => lt_pmap _ _ (IHg2 Hn)) s0 v0 s0' H).
  - apply orb_prop in Hn. destruct Hn as [Hn|Hn]; [apply orb_prop in Hn; destruct Hn as [Hn|Hn]|].
    + exact (lt_pbind_l _ _ (IHg1 Hn) (fun _ => le_pbind _ _ (peg2_le cl g2) (fun v => le_pmap _ _ (peg2_le cl g3))) s0 v0 s0' H).
    + exact (lt_pbind_r _ _ (peg2_le cl g1) (fun _ => lt_pbind_l _ _ (IHg2 Hn) (fun v => le_pmap _ _ (peg2_le cl g3))) s0 v0 s0' H).
    + exact (lt_pbind_r _ _ (peg2_le cl g1) (fun _ => lt_pbind_r _ _ (peg2_le cl g2) (fun v => lt_pmap _ _ (IHg3 Hn))) s0 v0 s0' H).
  - exact (lt_pmap _ _ (IHg Hn) s0 v0 s0' H).
  - exact (lt_pmap _ _ (IHg Hn) s0 v0 s0' H).
  - exact (IHg Hn s0 v0 s0' H).
  - apply andb_prop in Hn. destruct Hn as [H1 H2]. exact (lt_either _ _ (IHg1 H1) (IHg2 H2) s0 v0 s0' H).
  - exact (lt_pmap _ _ (IHg Hn) s0 v0 s0' H).
  - exact (lt_pmap _ _ (IHg Hn) s0 v0 s0' H).
  - exact (IHg Hn s0 v0 s0' H).
  - exact (IHg Hn s0 v0 s0' H).
  - apply andb_prop in Hn. destruct Hn as [H1 H2]. apply Nat.leb_le in H1.
    exact (lt_prep_top _ _ lo hi H1 (peg2_le cl g) (IHg H2) s0 v0 s0' H).
  - apply andb_prop in Hn. destruct Hn as [H1 H2]. apply Nat.leb_le in H1.
    exact (lt_pcount _ (lt_prep_top _ _ lo hi H1 (peg2_le cl g) (IHg H2)) s0 v0 s0' H).
  - apply andb_prop in Hn. destruct Hn as [H1 H2]. apply Nat.leb_le in H1.
    exact (lt_prep_top _ _ lo hi H1 (le_pright _ _ (peg2_le cl g2) (peg2_le cl g1)) (IHg1 H2) s0 v0 s0' H).
  - apply andb_prop in Hn. destruct Hn as [H1 H2]. apply Nat.leb_le in H1.
    exact (lt_pcount _ (lt_prep_top _ _ lo hi H1 (le_pright _ _ (peg2_le cl g2) (peg2_le cl g1)) (IHg1 H2)) s0 v0 s0' H).
  - apply andb_prop in Hn. destruct Hn as [H1 H2]. apply Nat.leb_le in H1.
    exact (lt_prep_top _ _ lo hi H1 (le_pright _ _ (lt_le _ (lt_ptok _)) (peg2_le cl g)) (IHg H2) s0 v0 s0' H).
  - exact (IHg Hn s0 v0 s0' H).
  - exact (lt_pmap _ _ (IHg Hn) s0 v0 s0' H).
Qed.

(** * Totality of the specification on well-formed grammars *)

Fixpoint wfr (g : G) : bool :=
  match g with
  | GEmpty | GOne _ | GPred _ | GSeq _ | GSeqCount _ | GEot | GUserFail => true
  | GAny ks | GAnyIndex ks => match ks with [] => false | _ => true end
  | GBoth a b | GLeft a b | GRight a b | GEither a b
  | GImplies a b | GAntecedent a b | GConsequent a b | GCondImplies a _ b => wfr a && wfr b
  | GCenter a b d => wfr a && wfr b && wfr d
  | GMap _ a | GDiscard a | GSomeOf a | GSub a | GRaw a | GUnrec a | GCtxPush _ a
  | GMaybe a | GCond _ a | GRequireIf _ a => wfr a
  | GRepeat lo hi a | GRepeatCount lo hi a | GIntersperseDef lo hi a _ => hi_ok lo hi && wfr a && nn a
  | GRepeatUntil lo hi st a | GRepeatCountUntil lo hi st a => hi_ok lo hi && wfr st && wfr a && nn a
  | GIntersperse lo hi a s | GIntersperseCount lo hi a s => hi_ok lo hi && wfr a && wfr s && nn a
  | GIntersperseUntil lo hi st a s | GIntersperseCountUntil lo hi st a s => hi_ok lo hi && wfr st && wfr a && wfr s && nn a
  | _ => false
  end.

Lemma tot_ret c : tot_p (fun s => Some (POk c s)).
Proof. intros s. eexists. reflexivity. Qed.

Lemma tot_pbind p k : tot_p p -> (forall v, tot_p (k v)) -> tot_p (fun s => pbind (p s) k).
Proof. intros Hp Hk s. destruct (Hp s) as [[v s1|] E]; rewrite E; cbn [pbind]; [apply Hk|eexists; reflexivity]. Qed.

Lemma tot_pmap f p : tot_p p -> tot_p (fun s => pmap f (p s)).
Proof. intros Hp. unfold pmap. apply tot_pbind; [exact Hp|]. intros v. apply tot_ret. Qed.

Lemma tot_pmaybe p : tot_p p -> tot_p (fun s => pmaybe (p s) s).
Proof. intros Hp s. destruct (Hp s) as [[v s1|] E]; rewrite E; eexists; reflexivity. Qed.

Lemma tot_either a b : tot_p a -> tot_p b -> tot_p (fun s => match a s with Some PFail => b s | r => r end).
Proof. intros Ha Hb s. destruct (Ha s) as [[v s1|] E]; rewrite E; [eexists; reflexivity|apply Hb]. Qed.

Lemma tot_pright a b : tot_p a -> tot_p b -> tot_p (pright a b).
Proof. intros Ha Hb. unfold pright. apply tot_pbind; [exact Ha|]. intros _. exact Hb. Qed.

Lemma lt_pright a b : le_p a -> lt_p b -> lt_p (pright a b).
Proof. intros Ha Hb. unfold pright. apply lt_pbind_r; [exact Ha|]. intros _. exact Hb. Qed.

Definition stop_tot (stopp : option (list entry -> option pres)) : Prop :=
  match stopp with None => True | Some sp => tot_p sp end.

Lemma stop_hit_tot stopp s : stop_tot stopp -> exists b, stop_hit stopp s = Some b.
Proof.
  unfold stop_hit. destruct stopp as [sp|]; [|intros _; eexists; reflexivity].
  intros H. destruct (H s) as [[v s1|] E]; rewrite E; eexists; reflexivity.
Qed.

(** a repetition over a total, strictly consuming unit is defined whenever the fuel exceeds the tokens left *)
Lemma prep_total unitp stopp : tot_p unitp -> lt_p unitp -> stop_tot stopp ->
  forall n lo hi vals s, length s < n -> exists r, prep unitp stopp n lo hi vals s = Some r.
Proof.
  intros Ht Hl Hs. induction n as [|n IH]; intros lo hi vals s Hn; [lia|]. cbn [prep].
  destruct (stop_hit_tot stopp s Hs) as [sh Esh]. rewrite Esh.
  destruct (length vals <? lo).
  - destruct sh; [eexists; reflexivity|]. destruct (Ht s) as [[v s1|] E]; rewrite E; [|eexists; reflexivity].
    apply IH. pose proof (Hl s v s1 E). lia.
  - destruct (lt_opt (length vals) hi); [|eexists; reflexivity].
    destruct sh; [eexists; reflexivity|]. destruct (Ht s) as [[v s1|] E]; rewrite E; [|eexists; reflexivity].
    destruct (ge_opt (length (vals ++ [v])) hi); [eexists; reflexivity|].
    apply IH. pose proof (Hl s v s1 E). lia.
Qed.

Lemma prep_top_total unitp stopp item lo hi : hi_ok lo hi = true -> tot_p unitp -> lt_p unitp -> stop_tot stopp ->
  tot_p item -> tot_p (prep_top unitp stopp item lo hi).
Proof.
  intros Hh Ht Hl Hs Hi s. unfold prep_top.
  assert (Hb : exists r, match stop_hit stopp s with
               | None => None
               | Some true => Some (POk (VList []) s)
               | Some false =>
                 match item s with
                 | Some (POk v0 s1) => prep unitp stopp (rep_fuel lo hi s1) lo hi [v0] s1
                 | Some PFail => if lo =? 0 then Some (POk (VList []) s) else Some PFail
                 | None => None
                 end
               end = Some r).
  { destruct (stop_hit_tot stopp s Hs) as [sh Esh]. rewrite Esh. destruct sh; [eexists; reflexivity|].
    destruct (Hi s) as [[v s1|] E]; rewrite E.
    - apply (prep_total unitp stopp Ht Hl Hs). unfold rep_fuel. lia.
    - destruct (lo =? 0); eexists; reflexivity. }
  destruct hi as [h|]; [|exact Hb]. cbn [hi_ok] in Hh. apply Nat.leb_le in Hh.
  destruct (Nat.ltb_spec h lo); [lia|]. destruct (h =? 0); [eexists; reflexivity|exact Hb].
Qed.

Lemma tot_pcount p : tot_p p -> tot_p (fun s => pcount (p s)).
Proof. intros H. unfold pcount. apply tot_pmap. exact H. Qed.

Ltac split_andb :=
  repeat match goal with H : _ && _ = true |- _ => apply andb_prop in H; destruct H end.

Theorem peg2_total cl g : wfr g = true -> tot_p (peg2 cl g).
Proof.
  induction g; cbn [wfr]; intros Hw s0; try discriminate Hw; cbn [peg2]; split_andb;
    try (destruct ks as [|k0 ks]; [discriminate|]); try (destruct b);
    repeat match goal with IH : wfr ?a = true -> _, H : wfr ?a = true |- _ => specialize (IH H) end.
  all: try (eexists; reflexivity).
  - exact (tot_pbind _ _ IHg1 (fun l => tot_pmap _ _ IHg2) s0).
  - exact (tot_pbind _ _ IHg1 (fun _ => IHg2) s0).
  - exact (tot_pbind _ _ IHg1 (fun l => tot_pmap _ _ IHg2) s0).
  - exact (tot_pbind _ _ IHg1 (fun _ => tot_pbind _ _ IHg2 (fun v => tot_pmap _ _ IHg3)) s0).
  - exact (tot_pmap _ _ IHg s0).
  - exact (tot_pmap _ _ IHg s0).
  - exact (IHg s0).
  - exact (tot_either _ _ IHg1 IHg2 s0).
  - exact (tot_pmaybe _ IHg s0).
  - exact (tot_pmap _ _ IHg s0).
  - exact (tot_pmaybe _ IHg s0).
  - exact (tot_pmap _ _ IHg s0).
  - refine (tot_pbind _ _ (tot_pmaybe _ IHg1) _ s0). intros a; destruct a; try apply tot_ret. exact (tot_pmap _ _ IHg2).
  - refine (tot_pbind _ _ (tot_pmaybe _ IHg1) _ s0). intros a; destruct a; try apply tot_ret. exact (tot_pmap _ _ IHg2).
  - refine (tot_pbind _ _ (tot_pmaybe _ IHg1) _ s0). intros a; destruct a; try apply tot_ret. exact (tot_pmap _ _ IHg2).
  - refine (tot_pbind _ _ (tot_pmaybe _ IHg1) _ s0). intros a; destruct a; try apply tot_ret.
    destruct (vpeval p a); [exact (tot_pmap _ _ IHg2)|apply tot_ret].
  - exact (IHg s0).
  - exact (IHg s0).
  - exact (prep_top_total _ None _ lo hi ltac:(assumption) IHg (peg2_lt cl g ltac:(assumption)) I IHg s0).
  - exact (tot_pcount _ (prep_top_total _ None _ lo hi ltac:(assumption) IHg (peg2_lt cl g ltac:(assumption)) I IHg) s0).
  - exact (prep_top_total _ (Some _) _ lo hi ltac:(assumption) IHg2 (peg2_lt cl g2 ltac:(assumption)) IHg1 IHg2 s0).
  - exact (tot_pcount _ (prep_top_total _ (Some _) _ lo hi ltac:(assumption) IHg2 (peg2_lt cl g2 ltac:(assumption)) IHg1 IHg2) s0).
  - exact (prep_top_total _ None _ lo hi ltac:(assumption) (tot_pright _ _ IHg2 IHg1)
             (lt_pright _ _ (peg2_le cl g2) (peg2_lt cl g1 ltac:(assumption))) I IHg1 s0).
  - exact (tot_pcount _ (prep_top_total _ None _ lo hi ltac:(assumption) (tot_pright _ _ IHg2 IHg1)
             (lt_pright _ _ (peg2_le cl g2) (peg2_lt cl g1 ltac:(assumption))) I IHg1) s0).
  - exact (prep_top_total _ (Some _) _ lo hi ltac:(assumption) (tot_pright _ _ IHg3 IHg2)
             (lt_pright _ _ (peg2_le cl g3) (peg2_lt cl g2 ltac:(assumption))) IHg1 IHg2 s0).
  - exact (tot_pcount _ (prep_top_total _ (Some _) _ lo hi ltac:(assumption) (tot_pright _ _ IHg3 IHg2)
             (lt_pright _ _ (peg2_le cl g3) (peg2_lt cl g2 ltac:(assumption))) IHg1 IHg2) s0).
  - refine (prep_top_total _ None _ lo hi ltac:(assumption) (tot_pright _ _ _ IHg)
             (lt_pright _ _ (lt_le _ (lt_ptok _)) (peg2_lt cl g ltac:(assumption))) I IHg s0).
    intros s1. eexists. reflexivity.
  - exact (IHg s0).
  - exact (tot_pmap _ _ IHg s0).
Qed.

(** * What the specification says about bounds (pure list reasoning, no lexer) *)

Lemma prep_bounds unitp : forall n lo hi vals s v s',
  (forall h, hi = Some h -> lo <= h) -> (forall h, hi = Some h -> length vals <= h) ->
  prep unitp None n lo hi vals s = Some (POk v s') ->
  exists l, v = VList l /\ lo <= length l /\ (forall h, hi = Some h -> length l <= h) /\ length vals <= length l.
Proof.
  induction n as [|n IH]; intros lo hi vals s v s' Hh Hv H; cbn [prep] in H; [discriminate H|].
  cbn [stop_hit] in H. destruct (Nat.ltb_spec (length vals) lo) as [Hlt|Hge].
  - destruct (unitp s) as [[v1 s1|]|]; try discriminate H.
    destruct (IH lo hi (vals ++ [v1]) s1 v s' Hh) as (l & -> & A & B & C); [|exact H|].
    + intros h Eh. rewrite app_length. cbn. pose proof (Hh h Eh). lia.
    + exists l. rewrite app_length in C. cbn in C. repeat split; try assumption. lia.
  - destruct (lt_opt (length vals) hi) eqn:Elt.
    2:{ injection H as <- _. exists vals. repeat split; [exact Hge|exact Hv|lia]. }
    destruct (unitp s) as [[v1 s1|]|]; try discriminate H.
    + assert (Hv' : forall h, hi = Some h -> length (vals ++ [v1]) <= h).
      { intros h ->. cbn [lt_opt] in Elt. apply Nat.ltb_lt in Elt. rewrite app_length. cbn. lia. }
      destruct (ge_opt (length (vals ++ [v1])) hi).
      * injection H as <- _. exists (vals ++ [v1]). rewrite app_length. cbn. repeat split; try lia.
        intros h Eh. pose proof (Hv' h Eh) as Hx. rewrite app_length in Hx. cbn in Hx. exact Hx.
      * destruct (IH lo hi (vals ++ [v1]) s1 v s' Hh Hv' H) as (l & -> & A & B & C).
        exists l. rewrite app_length in C. cbn in C. repeat split; try assumption. lia.
    + injection H as <- _. exists vals. repeat split; [exact Hge|exact Hv|lia].
Qed.

(** a repetition without stop parser that succeeds returns between [lo] and [hi] items *)
Theorem prep_top_bounds unitp item lo hi s v s' : hi_ok lo hi = true ->
  prep_top unitp None item lo hi s = Some (POk v s') ->
  exists l, v = VList l /\ lo <= length l /\ (forall h, hi = Some h -> length l <= h).
Proof.
  intros Hh H. unfold prep_top in H. cbn [stop_hit] in H.
  assert (Hh' : forall h, hi = Some h -> lo <= h) by (intros h ->; cbn [hi_ok] in Hh; apply Nat.leb_le in Hh; exact Hh).
  assert (Hb : match item s with
               | Some (POk v0 s1) => prep unitp None (rep_fuel lo hi s1) lo hi [v0] s1
               | Some PFail => if lo =? 0 then Some (POk (VList []) s) else Some PFail
               | None => None
               end = Some (POk v s') -> (forall h, hi = Some h -> 1 <= h) ->
               exists l, v = VList l /\ lo <= length l /\ (forall h, hi = Some h -> length l <= h)).
  { intros Hb H1. destruct (item s) as [[v1 s1|]|]; try discriminate Hb.
    - destruct (prep_bounds unitp _ lo hi [v1] s1 v s' Hh' H1 Hb) as (l & -> & A & B & _). exists l. repeat split; assumption.
    - destruct (Nat.eqb_spec lo 0) as [->|]; [|discriminate Hb]. injection Hb as <- _. exists []. repeat split; cbn; [lia|].
      intros h Eh. lia. }
  destruct hi as [h|]; [|apply (Hb H); intros h Eh; discriminate Eh].
  destruct (Nat.ltb_spec h lo); [discriminate H|]. destruct (Nat.eqb_spec h 0) as [->|Hne].
  - injection H as <- _. exists []. repeat split; cbn; [lia|]. intros h0 Eh. lia.
  - apply (Hb H). intros h0 Eh. injection Eh as <-. lia.
Qed.

(** greedy: a repetition without stop parser ends only because the upper bound is reached or because
    one more unit does not match what follows *)
Lemma prep_maximal unitp : forall n lo hi vals s v s',
  prep unitp None n lo hi vals s = Some (POk v s') ->
  exists l, v = VList l /\ (lt_opt (length l) hi = false \/ unitp s' = Some PFail).
Proof.
  induction n as [|n IH]; intros lo hi vals s v s' H; cbn [prep] in H; [discriminate H|].
  cbn [stop_hit] in H. destruct (length vals <? lo).
  - destruct (unitp s) as [[v1 s1|]|]; try discriminate H. exact (IH _ _ _ _ _ _ H).
  - destruct (lt_opt (length vals) hi) eqn:Elt.
    2:{ injection H as <- <-. exists vals. split; [reflexivity|left; exact Elt]. }
    destruct (unitp s) as [[v1 s1|]|] eqn:Eu; try discriminate H.
    + destruct (ge_opt (length (vals ++ [v1])) hi) eqn:Ege.
      * injection H as <- <-. exists (vals ++ [v1]). split; [reflexivity|left].
        unfold lt_opt, ge_opt in *. destruct hi as [h|]; [|discriminate Ege].
        apply Nat.leb_le in Ege. apply Nat.ltb_ge. exact Ege.
      * exact (IH _ _ _ _ _ _ H).
    + injection H as <- <-. exists vals. split; [reflexivity|right; exact Eu].
Qed.

(** the until-variants: as soon as the stop parser succeeds at an item boundary the repetition ends there,
    without failing and whatever the count so far (unless the upper bound had ended it already) *)
Lemma prep_stops unitp stopp n lo hi vals s : stop_hit stopp s = Some true ->
  (length vals <? lo) || lt_opt (length vals) hi = true ->
  prep unitp stopp (S n) lo hi vals s = Some (POk (VList vals) s).
Proof.
  intros Hs Hc. cbn [prep]. rewrite Hs. destruct (length vals <? lo); [reflexivity|].
  cbn [orb] in Hc. rewrite Hc. reflexivity.
Qed.

(** * Progress, termination, and the exact answer *)

Section Exact.
  Variable m : metrics.
  Hypothesis Htab : 1 <= tabw m.
  Variable t : text.
  Hypothesis Ht : wf_text t.
  Local Notation Inv := (Inv m t).
  Local Notation clean := (clean t).

  Lemma kept_app f a b : kept f (a ++ b) = kept f a ++ kept f b.
  Proof. unfold kept. apply filter_app. Qed.

  Lemma last_dflt {A} (l : list A) y d d' : last (y :: l) d = last (y :: l) d'.
  Proof. revert y; induction l as [|z r IH]; intros y; [reflexivity|]. exact (IH z). Qed.

  Lemma fin_of_last p x pre : fin_of p (x :: pre) = e_end (last (x :: pre) x).
  Proof.
    unfold fin_of. revert x p; induction pre as [|y r IH]; intros x p; [reflexivity|].
    change (last (map e_end (x :: y :: r)) p) with (last (map e_end (y :: r)) p).
    change (last (x :: y :: r) x) with (last (y :: r) x).
    rewrite (IH y p). f_equal. apply last_dflt.
  Qed.

  (** fewer tokens deliverable means the cursor moved *)
  Lemma reach_strict lx ys lx' ys' f : Inv lx ys -> reach lx ys lx' ys' ->
    length (kept f ys') < length (kept f ys) -> cur lx < cur lx'.
  Proof using Htab Ht.
    intros HI (pre & -> & Ec) Hlen. destruct pre as [|x pre]; [cbn [app] in Hlen; lia|].
    unfold cur. rewrite Ec, fin_of_last.
    pose proof HI as [_ Hb Hs _ _ _].
    assert (Hin : In (last (x :: pre) x) ((x :: pre) ++ ys')) by (apply in_or_app; left; apply RunCanon.last_In).
    pose proof (stream_start_ge m Htab t Ht _ _ _ Hb Hs _ Hin) as H1.
    pose proof (RunMove.stream_progress_in m Htab t Ht _ _ _ Hb Hs _ Hin) as H2. lia.
  Qed.

  (** a syntactically non-nullable grammar makes progress whenever it succeeds *)
  Theorem nn_progress g : wfr g = true -> nn g = true -> progress m t g.
  Proof using Htab Ht.
    intros Hw Hn f l ys c st v l' st' HI E.
    destruct (peg2_total (clean l ys) g Hw (kept (c_filter l) ys)) as [r Hr].
    destruct (run_peg2 m Htab t Ht f g c (clean l ys) l ys st r HI eq_refl Hr) as [H|H].
    - rewrite E in H. discriminate H.
    - destruct r as [v0 s'|].
      + destruct H as (lx' & ys' & E' & HI' & Hf & _ & Hk & Hre). rewrite E in E'. injection E' as -> -> _.
        apply (reach_strict l ys lx' ys' (c_filter l) HI Hre). rewrite Hk.
        exact (peg2_lt (clean l ys) g Hn _ _ _ Hr).
      + destruct H as (e & E'). rewrite E in E'. discriminate E'.
  Qed.

  Lemma wfr_rep_ok g : wfr g = true -> rep_ok m t g.
  Proof using Htab Ht.
    induction g; cbn [wfr rep_ok]; intros Hw; try discriminate Hw; split_andb;
      repeat match goal with IH : wfr ?a = true -> _, H : wfr ?a = true |- _ => specialize (IH H) end;
      repeat split; try assumption; try exact I; apply nn_progress; assumption.
  Qed.

  Lemma wfr_pre_ok g : wfr g = true -> pre_ok g = true.
  Proof.
    induction g; cbn [wfr pre_ok]; intros Hw; try discriminate Hw; split_andb;
      repeat match goal with IH : wfr ?a = true -> _, H : wfr ?a = true |- _ => rewrite (IH H) end;
      repeat match goal with H : hi_ok _ _ = true |- _ => rewrite H end;
      try reflexivity; try assumption.
  Qed.

  (** C06 + C07: the interpreter's answer is the specification's answer *)
  Theorem rep_exact g : wfr g = true ->
    forall F lx ys c st, Inv lx ys -> tdepth g + rem t lx + 3 <= F ->
    exists r, peg2 (clean lx ys) g (kept (c_filter lx) ys) = Some r /\ ag2 m t r lx ys (run F g lx c st) st.
  Proof using Htab Ht.
    intros Hw F lx ys c st HI HF.
    destruct (peg2_total (clean lx ys) g Hw (kept (c_filter lx) ys)) as [r Hr]. exists r. split; [exact Hr|].
    destruct (run_peg2 m Htab t Ht F g c (clean lx ys) lx ys st r HI eq_refl Hr) as [H|H]; [|exact H].
    exfalso. pose proof (run_terminates m Htab t Ht F g (wfr_pre_ok g Hw) (wfr_rep_ok g Hw) lx ys c st HI HF) as Ht'.
    destruct (run F g lx c st) as [[? ?|?| |] ?]; cbn in H; try discriminate H. exact Ht'.
  Qed.

  (** the fuel does not matter once it is enough *)
  Corollary rep_fuel_irrelevant g : wfr g = true ->
    forall F F' lx ys c st, Inv lx ys -> tdepth g + rem t lx + 3 <= F -> tdepth g + rem t lx + 3 <= F' ->
    match run F g lx c st, run F' g lx c st with
    | (ROk v l1, s1), (ROk v' l2, s2) => v = v' /\ s1 = st /\ s2 = st /\
        exists y1 y2, Inv l1 y1 /\ Inv l2 y2 /\ kept (c_filter lx) y1 = kept (c_filter lx) y2
    | (RErr _, s1), (RErr _, s2) => s1 = st /\ s2 = st
    | _, _ => False
    end.
  Proof using Htab Ht.
    intros Hw F F' lx ys c st HI HF HF'.
    destruct (rep_exact g Hw F lx ys c st HI HF) as (r & Hr & H1).
    destruct (rep_exact g Hw F' lx ys c st HI HF') as (r' & Hr' & H2).
    rewrite Hr in Hr'. injection Hr' as <-. destruct r as [v s'|].
    - destruct H1 as (l1 & y1 & E1 & I1 & _ & _ & K1 & _). destruct H2 as (l2 & y2 & E2 & I2 & _ & _ & K2 & _).
      rewrite E1, E2. repeat (split; [reflexivity|]). exists y1, y2. split; [exact I1|]. split; [exact I2|congruence].
    - destruct H1 as (e1 & E1). destruct H2 as (e2 & E2). rewrite E1, E2. split; reflexivity.
  Qed.
End Exact.
