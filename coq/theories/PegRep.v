(** The specification of C06 and C07 together: the PEG reading of every grammar built from the
    primitives (including seq_count and end_of_text), the sequencing / choice / option /
    implication combinators, AND the repetition and interspersal combinators with their bounds,
    stop parsers and counting variants - nested arbitrarily - over the list of deliverable tokens.

    Like [Peg.peg] it mentions no lexer, no look-ahead, no context, no store. It has one extra
    input: [cl], whether the scan of the text stops at the end of the text (true) or at a character
    the scanner rejects (false) - the only thing end_of_text and seq_count can tell beyond the
    tokens. [None] means "outside the specification": combinators not covered, an upper bound
    below the lower bound (the code asserts), or a repetition whose body keeps succeeding without
    consuming (the code does not terminate). *)
From Tephra Require Import LexerFacts Grammar Peg.
From Tephra Require Import Run.   (* only for the bound tests [lt_opt] and [ge_opt] *)

(** seq_count: the length of the longest matching prefix; fails only when the tokens run out at a
    rejected character *)
Fixpoint pseqc (cl : bool) (ks : list kind) (cnt : nat) (s : list entry) : pres :=
  match ks with
  | [] => POk (VNat cnt) s
  | k :: r =>
    match s with
    | x :: s' => if tok_eqb (e_tok x) (tk0 k) then pseqc cl r (S cnt) s' else POk (VNat cnt) s
    | [] => if cl then POk (VNat cnt) [] else PFail
    end
  end.

Section Rep.
  (** one more item: separator then item, as one unit *)
  Variable unit : list entry -> option pres.
  (** the stop parser of the until-variants *)
  Variable stop : option (list entry -> option pres).

  Definition stop_hit (s : list entry) : option bool :=
    match stop with
    | None => Some false
    | Some sp => match sp s with Some (POk _ _) => Some true | Some PFail => Some false | None => None end
    end.

  (** at an item boundary with [vals] taken so far: below [lo] another item is required, from [lo]
      to [hi] another item is taken if there is one; the stop parser ends the repetition without
      failing, whatever the count *)
  Fixpoint prep (n : nat) (lo : nat) (hi : option nat) (vals : list val) (s : list entry) : option pres :=
    match n with
    | 0 => None
    | S n' =>
      if length vals <? lo then
        match stop_hit s with
        | None => None
        | Some true => Some (POk (VList vals) s)
        | Some false =>
          match unit s with
          | Some (POk v s') => prep n' lo hi (vals ++ [v]) s'
          | Some PFail => Some PFail
          | None => None
          end
        end
      else if lt_opt (length vals) hi then
        match stop_hit s with
        | None => None
        | Some true => Some (POk (VList vals) s)
        | Some false =>
          match unit s with
          | Some (POk v s') =>
            if ge_opt (length (vals ++ [v])) hi then Some (POk (VList (vals ++ [v])) s')
            else prep n' lo hi (vals ++ [v]) s'
          | Some PFail => Some (POk (VList vals) s)
          | None => None
          end
        end
      else Some (POk (VList vals) s)
    end.

  Definition rep_fuel (lo : nat) (hi : option nat) (s : list entry) : nat :=
    S (lo + length s + match hi with Some h => h | None => 0 end).

  Definition prep_top (item : list entry -> option pres) (lo : nat) (hi : option nat) (s : list entry) : option pres :=
    let body :=
      match stop_hit s with
      | None => None
      | Some true => Some (POk (VList []) s)
      | Some false =>
        match item s with
        | Some (POk v s1) => prep (rep_fuel lo hi s1) lo hi [v] s1
        | Some PFail => if lo =? 0 then Some (POk (VList []) s) else Some PFail
        | None => None
        end
      end in
    match hi with
    | Some h => if h <? lo then None else if h =? 0 then Some (POk (VList []) s) else body
    | None => body
    end.
End Rep.

Definition pcount (r : option pres) : option pres :=
  pmap (fun v => match v with VList l => VNat (length l) | _ => v end) r.

Definition pright (a b : list entry -> option pres) (s : list entry) : option pres :=
  pbind (a s) (fun _ s1 => b s1).

Fixpoint peg2 (cl : bool) (g : G) (s : list entry) : option pres :=
  match g with
  | GEmpty => Some (POk VUnit s)
  | GOne k => Some (p_tok (fun t => if tok_eqb t (tk0 k) then Some (VTok t) else None) s)
  | GAny (k :: ks) => Some (p_tok (any_of (k :: ks) (fun i => VTok (tk0 (nth i (k :: ks) KA)))) s)
  | GAnyIndex (k :: ks) => Some (p_tok (any_of (k :: ks) VNat) s)
  | GPred p => Some (p_tok (fun t => if peval p t then Some (VTok t) else None) s)
  | GSeq ks => Some (pseq ks [] s)
  | GSeqCount ks => Some (pseqc cl ks 0 s)
  | GEot => Some (match s with [] => if cl then POk VUnit [] else PFail | _ :: _ => PFail end)
  | GUserFail => Some PFail
  | GBoth a b => pbind (peg2 cl a s) (fun l s1 => pmap (fun r => VPair l r) (peg2 cl b s1))
  | GLeft a b => pbind (peg2 cl a s) (fun l s1 => pmap (fun _ => l) (peg2 cl b s1))
  | GRight a b => pbind (peg2 cl a s) (fun _ s1 => peg2 cl b s1)
  | GCenter a b d => pbind (peg2 cl a s) (fun _ s1 => pbind (peg2 cl b s1) (fun v s2 => pmap (fun _ => v) (peg2 cl d s2)))
  | GMap tag a => pmap (VTag tag) (peg2 cl a s)
  | GDiscard a => pmap (fun _ => VUnit) (peg2 cl a s)
  | GSomeOf a => pmap VSome (peg2 cl a s)
  | GSub a | GRaw a | GUnrec a | GCtxPush _ a => peg2 cl a s
  | GEither a b =>
    match peg2 cl a s with
    | Some PFail => peg2 cl b s
    | r => r
    end
  | GMaybe a => pmaybe (peg2 cl a s) s
  | GRequireIf true a => pmap VSome (peg2 cl a s)
  | GRequireIf false a => pmaybe (peg2 cl a s) s
  | GCond true a => pmap VSome (peg2 cl a s)
  | GCond false a => Some (POk VNone s)
  | GImplies a b =>
    pbind (pmaybe (peg2 cl a s) s) (fun ante s1 =>
    match ante with
    | VSome l => pmap (fun r => VSome (VPair l r)) (peg2 cl b s1)
    | _ => Some (POk VNone s1)
    end)
  | GAntecedent a b =>
    pbind (pmaybe (peg2 cl a s) s) (fun ante s1 =>
    match ante with
    | VSome l => pmap (fun _ => VSome l) (peg2 cl b s1)
    | _ => Some (POk VNone s1)
    end)
  | GConsequent a b =>
    pbind (pmaybe (peg2 cl a s) s) (fun ante s1 =>
    match ante with
    | VSome _ => pmap VSome (peg2 cl b s1)
    | _ => Some (POk VNone s1)
    end)
  | GCondImplies a p b =>
    pbind (pmaybe (peg2 cl a s) s) (fun ante s1 =>
    match ante with
    | VSome l =>
      if vpeval p l then pmap (fun r => VSome (VPair l (VSome r))) (peg2 cl b s1)
      else Some (POk (VSome (VPair l VNone)) s1)
    | _ => Some (POk VNone s1)
    end)
  (* repetition: [repeat] is [intersperse] with the empty separator *)
  | GRepeat lo hi a => prep_top (peg2 cl a) None (peg2 cl a) lo hi s
  | GRepeatCount lo hi a => pcount (prep_top (peg2 cl a) None (peg2 cl a) lo hi s)
  | GRepeatUntil lo hi st a => prep_top (peg2 cl a) (Some (peg2 cl st)) (peg2 cl a) lo hi s
  | GRepeatCountUntil lo hi st a => pcount (prep_top (peg2 cl a) (Some (peg2 cl st)) (peg2 cl a) lo hi s)
  | GIntersperse lo hi a sp => prep_top (pright (peg2 cl sp) (peg2 cl a)) None (peg2 cl a) lo hi s
  | GIntersperseCount lo hi a sp => pcount (prep_top (pright (peg2 cl sp) (peg2 cl a)) None (peg2 cl a) lo hi s)
  | GIntersperseUntil lo hi st a sp => prep_top (pright (peg2 cl sp) (peg2 cl a)) (Some (peg2 cl st)) (peg2 cl a) lo hi s
  | GIntersperseCountUntil lo hi st a sp =>
    pcount (prep_top (pright (peg2 cl sp) (peg2 cl a)) (Some (peg2 cl st)) (peg2 cl a) lo hi s)
  | GIntersperseDef lo hi a k =>
    prep_top (pright (fun s0 => Some (p_tok (fun t => if tok_eqb t (tk0 k) then Some (VTok t) else None) s0)) (peg2 cl a))
             None (peg2 cl a) lo hi s
  | _ => None
  end.

(** on the fragment of [Peg.peg] the two specifications coincide (whatever [cl]) *)
Fixpoint in_peg (g : G) : bool :=
  match g with
  | GEmpty | GOne _ | GPred _ | GSeq _ | GUserFail => true
  | GAny ks | GAnyIndex ks => match ks with [] => false | _ => true end
  | GBoth a b | GLeft a b | GRight a b | GEither a b
  | GImplies a b | GAntecedent a b | GConsequent a b | GCondImplies a _ b => in_peg a && in_peg b
  | GCenter a b d => in_peg a && in_peg b && in_peg d
  | GMap _ a | GDiscard a | GSomeOf a | GSub a | GRaw a | GUnrec a | GCtxPush _ a
  | GMaybe a | GCond _ a | GRequireIf _ a => in_peg a
  | _ => false
  end.

Lemma peg2_peg cl g : in_peg g = true -> forall s, peg2 cl g s = peg g s.
Proof.
  induction g; cbn [in_peg]; intros Hc s0; try discriminate Hc; cbn [peg peg2];
    repeat match goal with Hc : _ && _ = true |- _ => apply andb_prop in Hc; destruct Hc end;
    try (destruct ks; [discriminate Hc|]); try (destruct b);
    repeat first
      [ reflexivity
      | match goal with
        | IH : in_peg ?a = true -> forall s, peg2 cl ?a s = peg ?a s, Hc : in_peg ?a = true |- context [peg2 cl ?a ?s1] =>
          rewrite (IH Hc s1)
        end
      | match goal with
        | |- context [peg ?a ?s1] => is_var a; destruct (peg a s1) as [[? ?|]|]; cbn [pbind pmap pmaybe]
        end
      | match goal with |- context [if vpeval ?p ?v then _ else _] => destruct (vpeval p v) end ].
Qed.
