(** C14: what the span- and text-capturing combinators return, for an ARBITRARY wrapped parser:
    the capture starts at the start of the first deliverable token (filtered tokens before it are
    excluded), ends where the wrapped parser's parse span ends, and is clamped to the empty span
    at that end when the parser stopped before that token. For wrapped parsers of the C06 core
    fragment that consume nothing the capture is empty. (That the end is the end of the LAST
    consumed token is not proved here: it is decided by the correspondence run and the oracle.) *)
From Tephra Require Import MetricsSpec MetricsFacts CLexer LexerFacts Run Peg RunCore RunErrors.

Section Capture.
  Variable m : metrics.
  Hypothesis Htab : 1 <= tabw m.
  Variable t : text.
  Hypothesis Ht : wf_text t.
  Local Notation Inv := (Inv m t).

  Lemma peek_token_span_of lx x : c_buf lx = Some (buf_of x) -> byte (e_start x) < byte (e_end x) ->
    c_peek_token_span lx = Some (mkspan (e_start x) (e_end x)).
  Proof.
    intros Hb Hp. unfold c_peek_token_span. rewrite Hb. cbn [buf_of pk_start pk_cursor].
    destruct (pos_eqb_spec (e_start x) (e_end x)) as [E|_]; [rewrite E in Hp; lia|].
    unfold enclosing. destruct (Nat.ltb_spec (byte (e_end x)) (byte (e_start x))); [lia|reflexivity].
  Qed.

  (** the clamp of misc.rs spanned *)
  Definition clamp_span (start e : pos) : span :=
    if byte e <? byte start then mkspan e e else mkspan start e.

  Lemma clamp_enclosing start e :
    enclosing (if byte e <? byte start then e else start) e = clamp_span start e.
  Proof.
    unfold clamp_span, enclosing. destruct (Nat.ltb_spec (byte e) (byte start)) as [H|H].
    - destruct (Nat.ltb_spec (byte e) (byte e)); [lia|reflexivity].
    - destruct (Nat.ltb_spec (byte e) (byte start)); [lia|reflexivity].
  Qed.

  Theorem spanned_shape f a lx ys c st x s r st' : Inv lx ys -> kept (c_filter lx) ys = x :: s ->
    run (S f) (GSpanned a) lx c st = (r, st') ->
    exists lx1 ys1, Inv lx1 ys1 /\ kept (c_filter lx) ys1 = x :: s /\ c_filter lx1 = c_filter lx
      /\ match run f a lx1 c st with
         | (ROk v lx', st1) => r = ROk (VSpanned (clamp_span (e_start x) (send (c_parse_span lx'))) v) lx' /\ st' = st1
         | (o, st1) => r = o /\ st' = st1
         end.
  Proof using Htab Ht.
    intros HI Hk Hrun.
    destruct (peek_cons_buf m Htab t Ht lx ys x s HI Hk) as (lx1 & ys1 & E & HI1 & Hb & Hf & Hk1).
    pose proof Hk1 as Hk1'. rewrite <- Hf in Hk1'.
    destruct (next_cons m Htab t Ht lx1 ys1 x s HI1 Hk1') as (_ & _ & _ & _ & _ & _ & _ & _ & _ & _ & _ & Hp).
    exists lx1, ys1. split; [exact HI1|]. split; [exact Hk1|]. split; [exact Hf|].
    cbn [run] in Hrun. rewrite E in Hrun. cbn [lift] in Hrun. rewrite (peek_token_span_of lx1 x Hb Hp) in Hrun.
    cbn [sstart] in Hrun.
    destruct (run f a lx1 c st) as [[v lx'|e| |] st1]; cbn [on_ok] in Hrun; injection Hrun as <- <-;
      try (split; reflexivity).
    rewrite clamp_enclosing. split; reflexivity.
  Qed.

  Theorem text_shape f a lx ys c st x s r st' : Inv lx ys -> kept (c_filter lx) ys = x :: s ->
    run (S f) (GText a) lx c st = (r, st') ->
    exists lx1 ys1, Inv lx1 ys1 /\ kept (c_filter lx) ys1 = x :: s /\ c_filter lx1 = c_filter lx
      /\ match run f a lx1 c st with
         | (ROk v lx', st1) =>
           let e := byte (send (c_parse_span lx')) in
           st' = st1 /\
           (if e <=? blen (c_text lx') then r = ROk (VText (Nat.min (byte (e_start x)) e) e) lx' else r = RPanic)
         | (o, st1) => r = o /\ st' = st1
         end.
  Proof using Htab Ht.
    intros HI Hk Hrun.
    destruct (peek_cons_buf m Htab t Ht lx ys x s HI Hk) as (lx1 & ys1 & E & HI1 & Hb & Hf & Hk1).
    pose proof Hk1 as Hk1'. rewrite <- Hf in Hk1'.
    destruct (next_cons m Htab t Ht lx1 ys1 x s HI1 Hk1') as (_ & _ & _ & _ & _ & _ & _ & _ & _ & _ & _ & Hp).
    exists lx1, ys1. split; [exact HI1|]. split; [exact Hk1|]. split; [exact Hf|].
    cbn [run] in Hrun. rewrite E in Hrun. cbn [lift] in Hrun. rewrite (peek_token_span_of lx1 x Hb Hp) in Hrun.
    cbn [sstart] in Hrun.
    destruct (run f a lx1 c st) as [[v lx'|e| |] st1]; cbn [on_ok] in Hrun; try (injection Hrun as <- <-; split; reflexivity).
    cbn zeta in Hrun |- *.
    assert (Hmin : (Nat.min (byte (e_start x)) (byte (send (c_parse_span lx'))) <=? byte (send (c_parse_span lx'))) = true)
      by (apply Nat.leb_le; lia).
    rewrite Hmin in Hrun. cbn [andb] in Hrun.
    destruct (byte (send (c_parse_span lx')) <=? blen (c_text lx')); injection Hrun as <- <-; split; reflexivity.
  Qed.

  (** the end of the parse span is the cursor *)
  Lemma parse_span_end lx ys : Inv lx ys -> send (c_parse_span lx) = c_cur lx.
  Proof.
    intros [_ _ _ _ [Ho1 Ho2] _]. unfold c_parse_span, enclosing.
    destruct (Nat.ltb_spec (byte (c_cur lx)) (byte (c_ps lx))); [lia|reflexivity].
  Qed.

  (** a wrapped parser of the core fragment that consumes nothing: the captured span is empty *)
  Theorem spanned_empty f a lx ys c st x s v : Inv lx ys -> kept (c_filter lx) ys = x :: s ->
    gdepth a < f -> peg a (x :: s) = Some (POk v (x :: s)) ->
    exists sp lx', run (S f) (GSpanned a) lx c st = (ROk (VSpanned sp v) lx', st)
      /\ byte (sstart sp) = byte (send sp).
  Proof using Htab Ht.
    intros HI Hk Hd Hp.
    destruct (run (S f) (GSpanned a) lx c st) as [r st'] eqn:Hrun.
    destruct (spanned_shape f a lx ys c st x s r st' HI Hk Hrun) as (lx1 & ys1 & HI1 & Hk1 & Hf & Hm).
    rewrite <- Hf in Hk1.
    destruct (run_core m Htab t Ht f a Hd _ _ Hp lx1 ys1 c st HI1 Hk1) as (lx' & ys' & E & HI' & Hf' & _ & Hk').
    rewrite E in Hm. destruct Hm as [-> ->]. eexists. exists lx'. split; [reflexivity|].
    rewrite (parse_span_end lx' ys' HI').
    assert (Hle : byte (c_cur lx') <= byte (e_start x)).
    { pose proof HI' as [_ Hb Hs _ _ _].
      apply (stream_start_ge m Htab t Ht _ _ _ Hb Hs). apply (kept_In (c_filter lx1)). rewrite Hk'. left. reflexivity. }
    unfold clamp_span. destruct (Nat.ltb_spec (byte (c_cur lx')) (byte (e_start x))); cbn [sstart send]; lia.
  Qed.

  Theorem text_empty f a lx ys c st x s v : Inv lx ys -> kept (c_filter lx) ys = x :: s ->
    gdepth a < f -> peg a (x :: s) = Some (POk v (x :: s)) ->
    exists b lx', run (S f) (GText a) lx c st = (ROk (VText b b) lx', st).
  Proof using Htab Ht.
    intros HI Hk Hd Hp.
    destruct (run (S f) (GText a) lx c st) as [r st'] eqn:Hrun.
    destruct (text_shape f a lx ys c st x s r st' HI Hk Hrun) as (lx1 & ys1 & HI1 & Hk1 & Hf & Hm).
    rewrite <- Hf in Hk1.
    destruct (run_core m Htab t Ht f a Hd _ _ Hp lx1 ys1 c st HI1 Hk1) as (lx' & ys' & E & HI' & Hf' & _ & Hk').
    rewrite E in Hm. cbn zeta in Hm. destruct Hm as [-> Hm].
    rewrite (parse_span_end lx' ys' HI') in Hm.
    assert (Hle : byte (c_cur lx') <= byte (e_start x)).
    { pose proof HI' as [_ Hb Hs _ _ _].
      apply (stream_start_ge m Htab t Ht _ _ _ Hb Hs). apply (kept_In (c_filter lx1)). rewrite Hk'. left. reflexivity. }
    (* the cursor is inside the text *)
    assert (Hin : byte (c_cur lx') <= blen (c_text lx')).
    { pose proof HI' as [[Et _] (pre & suf & [Esplit Hb]) _ _ _ _]. rewrite Et, Esplit, blen_app, Hb. lia. }
    apply Nat.leb_le in Hin. rewrite Hin in Hm. subst r.
    rewrite (Nat.min_r _ _ Hle). exists (byte (c_cur lx')), lx'. reflexivity.
  Qed.
End Capture.
