(** Where the error of a failing item lies (C11, last clause): for an item of the sub-free core whose
    leaves accept no boundary token (separator or abort token), run on a lexer whose deliverable
    stream is [pre ++ b :: rest] with [b] the first boundary token, every span carried by the item's
    error - and by the boundary error of [up_to] around it - lies between the parse start of the
    lexer the item was given and the END of [b], inclusive. The item never consumes [b], so every
    lexer it reaches still has [b] ahead of it, and every token a failing leaf can name is [b] or
    a token in front of it. *)
From Tephra Require Import MetricsSpec MetricsFacts CLexer LexerFacts Run Peg RunCore LexerOps RunErrors RunRecover RunErrors2 RunCapture RunMove.

Section ErrLoc.
  Variable m : metrics.
  Hypothesis Htab : 1 <= tabw m.
  Variable t : text.
  Hypothesis Ht : wf_text t.
  Local Notation Inv := (Inv m t).
  Variable B : list kind.

  Definition isB (x : entry) : Prop := in_kinds B (e_tok x) = true.
  Definition noB (l : list entry) : Prop := Forall (fun x => in_kinds B (e_tok x) = false) l.

  Definition sp_in (lo hi : nat) (s : span) : Prop := lo <= byte (sstart s) /\ byte (send s) <= hi.
  Fixpoint ewithin (lo hi : nat) (e : err) : Prop :=
    match e with
    | EUnexpected es ts _ _ => sp_in lo hi es /\ sp_in lo hi ts
    | EUnrecognized es => sp_in lo hi es
    | EBoundary es p => sp_in lo hi es /\ byte p <= hi
    | EBracket _ s1 s2 => sp_in lo hi s1 /\ match s2 with Some s => sp_in lo hi s | None => True end
    | ECount es _ _ _ => sp_in lo hi es
    | ETagged _ e' => ewithin lo hi e'
    | _ => True
    end.

  (** the leaves of [g] accept no boundary token *)
  Definition kfree (k : kind) : bool := negb (in_kinds B (tk0 k)).
  Fixpoint nob (g : G) : bool :=
    match g with
    | GOne k => kfree k
    | GAny ks | GAnyIndex ks | GSeq ks => forallb kfree ks
    | GPred p => forallb (fun k => negb (peval p (tk0 k))) B
    | GBoth a b | GLeft a b | GRight a b | GEither a b
    | GImplies a b | GAntecedent a b | GConsequent a b | GCondImplies a _ b => nob a && nob b
    | GCenter a b d => nob a && nob b && nob d
    | GMap _ a | GDiscard a | GSomeOf a | GRaw a | GUnrec a | GCtxPush _ a
    | GMaybe a | GCond _ a | GRequireIf _ a => nob a
    | _ => true
    end.

  Lemma in_kinds_tk0 x : in_kinds B (e_tok x) = true -> exists k, In k B /\ e_tok x = tk0 k.
  Proof.
    unfold in_kinds. intros H. apply existsb_exists in H. destruct H as (k & Hk & E).
    exists k. split; [exact Hk|]. destruct (tok_eqb_spec (tk0 k) (e_tok x)); [congruence|discriminate].
  Qed.

  Lemma one_free k x : kfree k = true -> tok_eqb (e_tok x) (tk0 k) = true -> in_kinds B (e_tok x) = false.
  Proof.
    unfold kfree. intros Hk E. destruct (tok_eqb_spec (e_tok x) (tk0 k)) as [->|]; [|discriminate].
    destruct (in_kinds B (tk0 k)); [discriminate|reflexivity].
  Qed.

  Lemma position_some {A} (p : A -> bool) l i : position p l = Some i -> exists a, In a l /\ p a = true.
  Proof.
    revert i. induction l as [|a l IH]; intros i; cbn [position]; [discriminate|].
    destruct (p a) eqn:E; [intros _; exists a; split; [left; reflexivity|exact E]|].
    destruct (position p l) as [j|]; [|discriminate]. intros _. destruct (IH j eq_refl) as (a0 & Hin & Hp).
    exists a0. split; [right; exact Hin|exact Hp].
  Qed.

  Lemma any_free ks x i : forallb kfree ks = true -> position (fun k => tok_eqb (e_tok x) (tk0 k)) ks = Some i ->
    in_kinds B (e_tok x) = false.
  Proof.
    intros Hf Hp. destruct (position_some _ _ _ Hp) as (k & Hin & E).
    apply (one_free k); [|exact E]. rewrite forallb_forall in Hf. exact (Hf k Hin).
  Qed.

  Lemma pred_free p x : forallb (fun k => negb (peval p (tk0 k))) B = true -> peval p (e_tok x) = true ->
    in_kinds B (e_tok x) = false.
  Proof.
    intros Hf Hp. destruct (in_kinds B (e_tok x)) eqn:E; [|reflexivity].
    destruct (in_kinds_tk0 x E) as (k & Hk & Ex). rewrite forallb_forall in Hf. specialize (Hf k Hk).
    rewrite <- Ex, Hp in Hf. discriminate.
  Qed.

  (** list facts: the first boundary token of a stream is still ahead after boundary-free tokens were consumed *)
  Lemma first_B_ahead c1 : forall s1 pre b rest, c1 ++ s1 = pre ++ b :: rest -> noB c1 -> noB pre -> isB b ->
    exists pre1, s1 = pre1 ++ b :: rest /\ pre = c1 ++ pre1.
  Proof.
    induction c1 as [|x c1 IH]; intros s1 pre b rest E Hc Hp Hb; [exists pre; split; [exact E|reflexivity]|].
    inversion Hc as [|? ? Hx Hc']; subst.
    destruct pre as [|y pre]; cbn [app] in E; injection E as -> E.
    - unfold isB in Hb. congruence.
    - inversion Hp as [|? ? _ Hp']; subst. destruct (IH s1 pre b rest E Hc' Hp' Hb) as (pre1 & E1 & E2).
      exists pre1. split; [exact E1|]. cbn [app]. rewrite E2. reflexivity.
  Qed.

  Lemma noB_app a b : noB a -> noB b -> noB (a ++ b).
  Proof. intros Ha Hb. apply Forall_app. split; assumption. Qed.

  Lemma sp_in_mono lo hi lo' hi' s : lo' <= lo -> hi <= hi' -> sp_in lo hi s -> sp_in lo' hi' s.
  Proof. unfold sp_in. intros; lia. Qed.

  Lemma ewithin_mono lo hi lo' hi' e : lo' <= lo -> hi <= hi' -> ewithin lo hi e -> ewithin lo' hi' e.
  Proof.
    intros Hl Hh. induction e; cbn [ewithin]; try (intros; exact I); try exact IHe.
    - intros [A C]. split; eapply sp_in_mono; eassumption.
    - eapply sp_in_mono; eassumption.
    - intros [A C]. split; [eapply sp_in_mono; eassumption|lia].
    - intros [A C]. split; [eapply sp_in_mono; eassumption|]. destruct s2; [eapply sp_in_mono; eassumption|exact I].
    - eapply sp_in_mono; eassumption.
  Qed.

  Lemma ewithin_trail lo hi tr : forall e, ewithin lo hi e -> ewithin lo hi (apply_trail tr e).
  Proof. unfold apply_trail. induction tr as [|x tr IH]; intros e H; cbn [fold_left]; [exact H|]. apply IH. exact H. Qed.

  (** positions along the scan *)
  Lemma cur_le_start lx ys x : Inv lx ys -> In x (kept (c_filter lx) ys) -> byte (c_cur lx) <= byte (e_start x).
  Proof using Htab Ht.
    intros HI Hx. pose proof HI as [_ Hb Hs _ _ _].
    exact (stream_start_ge m Htab t Ht _ _ _ Hb Hs x (kept_In _ _ _ Hx)).
  Qed.

  Lemma entry_lt lx ys x : Inv lx ys -> In x (kept (c_filter lx) ys) -> byte (e_start x) < byte (e_end x).
  Proof using Htab Ht.
    intros HI Hx. pose proof HI as [_ Hb Hs _ _ _].
    exact (stream_progress_in m Htab t Ht _ _ _ Hb Hs x (kept_In _ _ _ Hx)).
  Qed.

  (** the head of a stream that has [b] ahead ends no later than [b] *)
  Lemma head_le_B lx ys x s pre b rest : Inv lx ys -> kept (c_filter lx) ys = x :: s -> x :: s = pre ++ b :: rest ->
    byte (e_end x) <= byte (e_end b).
  Proof using Htab Ht.
    intros HI Hk E. pose proof HI as [_ Hb Hs _ _ _].
    destruct pre as [|y pre]; cbn [app] in E; injection E as -> E; [lia|].
    assert (Hin : In b s) by (rewrite E; apply in_or_app; right; left; reflexivity).
    pose proof (kept_sorted m Htab t Ht _ _ _ _ _ _ Hb Hs Hk b Hin) as H1.
    assert (Hin' : In b (kept (c_filter lx) ys)) by (rewrite Hk; right; exact Hin).
    pose proof (entry_lt lx ys b HI Hin'). lia.
  Qed.

  Lemma ps_le_cur lx ys : Inv lx ys -> byte (c_ps lx) <= byte (c_cur lx).
  Proof. intros [_ _ _ _ [A C] _]. lia. Qed.

  Lemma parse_span_is lx ys : Inv lx ys -> c_parse_span lx = mkspan (c_ps lx) (c_cur lx).
  Proof.
    intros HI. pose proof (ps_le_cur lx ys HI). unfold c_parse_span, enclosing.
    destruct (Nat.ltb_spec (byte (c_cur lx)) (byte (c_ps lx))); [lia|reflexivity].
  Qed.

  (** the parse start never moves backwards *)
  Lemma moved_ps lx ys lx1 ys1 c1 : Inv lx ys -> Inv lx1 ys1 -> kept (c_filter lx) ys = c1 ++ kept (c_filter lx) ys1 ->
    moved lx lx1 c1 -> byte (c_ps lx) <= byte (c_ps lx1).
  Proof using Htab Ht.
    intros HI HI1 Hk Hm. pose proof (ps_le_cur lx ys HI) as H0. destruct c1 as [|x r]; cbn [moved] in Hm.
    - destruct Hm as [A C]. destruct (pos_eqb_spec (c_ps lx) (c_cur lx)) as [E|NE].
      + destruct (A E) as [E1 L]. rewrite E1. lia.
      + destruct (C NE) as [_ P]. rewrite P. lia.
    - destruct Hm as (_ & _ & P). rewrite P. destruct (pos_eqb (c_ps lx) (c_cur lx)); [|lia].
      assert (Hin : In x (kept (c_filter lx) ys)) by (rewrite Hk; left; reflexivity).
      pose proof (cur_le_start lx ys x HI Hin). lia.
  Qed.

  (** what a run did: a success consumed boundary-free tokens; an error lies in front of the end of the
      first boundary token ahead *)
  Definition eb (lx : clexer) (ys : list entry) (r : R) : Prop :=
    match r with
    | (ROk _ lx', _) =>
      exists ys' consumed, Inv lx' ys' /\ c_filter lx' = c_filter lx
        /\ kept (c_filter lx) ys = consumed ++ kept (c_filter lx) ys' /\ moved lx lx' consumed /\ noB consumed
    | (RErr e, _) =>
      forall pre b rest, kept (c_filter lx) ys = pre ++ b :: rest -> noB pre -> isB b ->
        ewithin (byte (c_ps lx)) (byte (e_end b)) e
    | _ => True
    end.

  Lemma eb_from lx ys lx1 ys1 c1 r : Inv lx ys -> Inv lx1 ys1 -> c_filter lx1 = c_filter lx ->
    kept (c_filter lx) ys = c1 ++ kept (c_filter lx) ys1 -> moved lx lx1 c1 -> noB c1 ->
    eb lx1 ys1 r -> eb lx ys r.
  Proof using Htab Ht.
    intros HI HI1 Hf Hk Hm Hn. destruct r as [[v lx'|e| |] st]; cbn [eb]; try (intros; exact I).
    - intros (ys' & c2 & HI' & Hf' & Hk' & Hm' & Hn'). exists ys', (c1 ++ c2). split; [exact HI'|]. split; [congruence|].
      split; [rewrite Hk; rewrite Hf in Hk'; rewrite Hk', app_assoc; reflexivity|].
      split; [exact (moved_trans m Htab _ _ _ _ _ Hm Hm')|exact (noB_app _ _ Hn Hn')].
    - intros H pre b rest E Hp Hb. rewrite Hk in E.
      destruct (first_B_ahead c1 _ pre b rest E Hn Hp Hb) as (pre1 & E1 & E2).
      assert (Hp1 : noB pre1) by (rewrite E2 in Hp; apply Forall_app in Hp; tauto).
      rewrite <- Hf in E1. specialize (H pre1 b rest E1 Hp1 Hb).
      eapply ewithin_mono; [|apply Nat.le_refl|exact H]. exact (moved_ps lx ys lx1 ys1 c1 HI HI1 Hk Hm).
  Qed.

  Lemma eb_map f lx ys r : eb lx ys r -> eb lx ys (map_val f r).
  Proof. destruct r as [[v lx'|e| |] st]; cbn [eb map_val]; intros H; exact H. Qed.

  Lemma eb_self lx ys v st : Inv lx ys -> eb lx ys (ROk v lx, st).
  Proof.
    intros HI. exists ys, []. split; [exact HI|]. split; [reflexivity|]. split; [reflexivity|].
    split; [apply (moved_refl m Htab)|constructor].
  Qed.

  Lemma eb_on_ok lx ys r k : Inv lx ys -> eb lx ys r ->
    (forall v lx1 st1 ys1, Inv lx1 ys1 -> eb lx1 ys1 (k v lx1 st1)) ->
    eb lx ys (on_ok r k).
  Proof using Htab Ht.
    intros HI. destruct r as [[v lx1|e| |] st1]; cbn [on_ok]; intros H Hk; try exact H.
    destruct H as (ys1 & c1 & HI1 & Hf1 & Hk1 & Hm1 & Hn1).
    exact (eb_from lx ys lx1 ys1 c1 _ HI HI1 Hf1 Hk1 Hm1 Hn1 (Hk v lx1 st1 ys1 HI1)).
  Qed.

  (** a leaf error naming the head of the stream *)
  Lemma leaf_error_in lx ys x s ex fnd : Inv lx ys -> kept (c_filter lx) ys = x :: s ->
    forall pre b rest, x :: s = pre ++ b :: rest ->
    ewithin (byte (c_ps lx)) (byte (e_end b)) (EUnexpected (c_parse_span lx) (mkspan (e_start x) (e_end x)) ex fnd).
  Proof using Htab Ht.
    intros HI Hk pre b rest E.
    assert (Hin : In x (kept (c_filter lx) ys)) by (rewrite Hk; left; reflexivity).
    pose proof (cur_le_start lx ys x HI Hin) as H1. pose proof (entry_lt lx ys x HI Hin) as H2.
    pose proof (head_le_B lx ys x s pre b rest HI Hk E) as H3. pose proof (ps_le_cur lx ys HI) as H4.
    cbn [ewithin]. rewrite (parse_span_is lx ys HI). unfold sp_in. cbn [sstart send]. lia.
  Qed.

  Theorem core0_eb : forall fuel g, core0 g = true -> nob g = true -> forall lx ys c st, Inv lx ys ->
    eb lx ys (run fuel g lx c st).
  Proof using Htab Ht.
    induction fuel as [|f IH]; intros g Hg Hn lx ys c st HI; [exact I|].
    assert (Hmaybe : forall a lx0 ys0 c0 st0, core0 a = true -> nob a = true -> Inv lx0 ys0 -> eb lx0 ys0 (run f (GMaybe a) lx0 c0 st0)).
    { intros a lx0 ys0 c0 st0 Ha Hna HI0. apply IH; assumption. }
    assert (Hante : forall a (kr : val -> clexer -> store -> R), core0 a = true -> nob a = true ->
              (forall v lx1 st1 ys1, Inv lx1 ys1 -> eb lx1 ys1 (kr v lx1 st1)) ->
              eb lx ys (on_ok (run f (GMaybe a) lx c st) kr)).
    { intros a kr Ha Hna Hkr. apply eb_on_ok; [exact HI|apply Hmaybe; assumption|exact Hkr]. }
    (* one token delivered by next and accepted *)
    assert (Hone : forall x s lx' ys' v st', kept (c_filter lx) ys = x :: s -> Inv lx' ys' -> c_filter lx' = c_filter lx ->
              kept (c_filter lx) ys' = s -> moved lx lx' [x] -> in_kinds B (e_tok x) = false -> eb lx ys (ROk v lx', st')).
    { intros x s lx' ys' v st' Hk HI' Hf Hk' Hm Hx. exists ys', [x]. split; [exact HI'|]. split; [exact Hf|].
      split; [rewrite Hk, Hk'; reflexivity|]. split; [exact Hm|]. constructor; [exact Hx|constructor]. }
    destruct g; cbn [core0] in Hg; try discriminate Hg; cbn [nob] in Hn; cbn [run];
      repeat match goal with H : _ && _ = true |- _ => apply andb_prop in H; destruct H end.
    - (* empty *) apply eb_self. exact HI.
    - (* one *)
      destruct (kept (c_filter lx) ys) as [|x s] eqn:Hk.
      + destruct (next_nil m Htab t Ht lx ys HI Hk) as (lx' & E & _). rewrite E. cbn [lift eb].
        intros pre b rest E'. rewrite Hk in E'. destruct pre; discriminate E'.
      + destruct (next_cons m Htab t Ht lx ys x s HI Hk) as (lx' & ys' & E & HI' & Hf & _ & Hk' & A & C & _ & _ & D).
        rewrite E. cbn [lift]. destruct (tok_eqb (e_tok x) (tk0 k)) eqn:Eq.
        * apply (Hone x s lx' ys' _ _ eq_refl HI' Hf Hk' (next_moved m Htab t Ht lx ys x s HI Hk lx' E)). exact (one_free k x Hn Eq).
        * cbn [eb]. intros pre b rest E' _ _. rewrite Hk in E'. rewrite (token_span_of m Htab lx' x A C D).
          exact (leaf_error_in lx ys x s _ _ HI Hk pre b rest E').
    - (* any *) destruct ks as [|k0 ks]; [discriminate Hg|].
      destruct (kept (c_filter lx) ys) as [|x s] eqn:Hk.
      + destruct (peek_nil m Htab t Ht lx ys HI Hk) as (lx1 & ys1 & E & _). rewrite E. cbn [lift eb].
        intros pre b rest E'. rewrite Hk in E'. destruct pre; discriminate E'.
      + destruct (position (fun k => tok_eqb (e_tok x) (tk0 k)) (k0 :: ks)) as [i|] eqn:Ep.
        * destruct (peek_cons m Htab t Ht lx ys x s HI Hk) as (lx1 & ys1 & E & HI1 & Hf1 & _ & Hk1). rewrite E. cbn [lift]. rewrite Ep.
          pose proof (peek_moved m Htab t Ht lx ys _ lx1 HI E) as Hm1.
          pose proof Hk1 as Hk1'. rewrite <- Hf1 in Hk1'.
          destruct (next_cons m Htab t Ht lx1 ys1 x s HI1 Hk1') as (lx2 & ys2 & E2 & HI2 & Hf2 & _ & Hk2 & _). rewrite E2. cbn [lift].
          pose proof (next_moved m Htab t Ht lx1 ys1 x s HI1 Hk1' lx2 E2) as Hm2.
          exists ys2, [x]. split; [exact HI2|]. split; [congruence|]. split; [rewrite Hk; rewrite <- Hf1; rewrite Hk2; reflexivity|].
          split; [exact (moved_trans m Htab _ _ _ [] [x] Hm1 Hm2)|]. constructor; [exact (any_free _ x i Hn Ep)|constructor].
        * destruct (any_error m Htab t Ht f k0 ks lx ys c st x s HI Hk Ep) as (E1 & _ & _). cbn [run] in E1. rewrite E1.
          cbn [eb]. intros pre b rest E' _ _. rewrite Hk in E'. exact (leaf_error_in lx ys x s _ _ HI Hk pre b rest E').
    - (* any_index *) destruct ks as [|k0 ks]; [discriminate Hg|].
      destruct (kept (c_filter lx) ys) as [|x s] eqn:Hk.
      + destruct (peek_nil m Htab t Ht lx ys HI Hk) as (lx1 & ys1 & E & _). rewrite E. cbn [lift eb].
        intros pre b rest E'. rewrite Hk in E'. destruct pre; discriminate E'.
      + destruct (position (fun k => tok_eqb (e_tok x) (tk0 k)) (k0 :: ks)) as [i|] eqn:Ep.
        * destruct (peek_cons m Htab t Ht lx ys x s HI Hk) as (lx1 & ys1 & E & HI1 & Hf1 & _ & Hk1). rewrite E. cbn [lift]. rewrite Ep.
          pose proof (peek_moved m Htab t Ht lx ys _ lx1 HI E) as Hm1.
          pose proof Hk1 as Hk1'. rewrite <- Hf1 in Hk1'.
          destruct (next_cons m Htab t Ht lx1 ys1 x s HI1 Hk1') as (lx2 & ys2 & E2 & HI2 & Hf2 & _ & Hk2 & _). rewrite E2. cbn [lift].
          pose proof (next_moved m Htab t Ht lx1 ys1 x s HI1 Hk1' lx2 E2) as Hm2.
          exists ys2, [x]. split; [exact HI2|]. split; [congruence|]. split; [rewrite Hk; rewrite <- Hf1; rewrite Hk2; reflexivity|].
          split; [exact (moved_trans m Htab _ _ _ [] [x] Hm1 Hm2)|]. constructor; [exact (any_free _ x i Hn Ep)|constructor].
        * destruct (any_error m Htab t Ht f k0 ks lx ys c st x s HI Hk Ep) as (_ & E1 & _). cbn [run] in E1. rewrite E1.
          cbn [eb]. intros pre b rest E' _ _. rewrite Hk in E'. exact (leaf_error_in lx ys x s _ _ HI Hk pre b rest E').
    - (* seq *)
      assert (Hseq : forall ks0 acc l yl c1, forallb kfree ks0 = true -> Inv l yl -> c_filter l = c_filter lx ->
                kept (c_filter lx) ys = c1 ++ kept (c_filter lx) yl -> moved lx l c1 -> noB c1 ->
                eb lx ys
                  ((fix go (ks : list kind) (acc : list val) (l : clexer) : R :=
                      match ks with
                      | [] => (ROk (VList acc) l, st)
                      | k :: r =>
                        lift (c_next l) st (fun '(o, l') =>
                        match o with
                        | Some t0 => if tok_eqb t0 (tk0 k) then go r (acc ++ [VTok t0]) l'
                                     else (RErr (EUnexpected (c_parse_span lx) (c_token_span l') (ExTok (tk0 k)) (Some t0)), st)
                        | None => (RErr (EUnexpected (c_parse_span lx) (c_token_span l') (ExTok (tk0 k)) None), st)
                        end)
                      end) ks0 acc l)).
      { induction ks0 as [|k r IHk]; intros acc l yl c1 Hks HIl Hfl Hkl Hml Hnl.
        - exists yl, c1. split; [exact HIl|]. split; [exact Hfl|]. split; [exact Hkl|]. split; [exact Hml|exact Hnl].
        - cbn [forallb] in Hks. apply andb_prop in Hks. destruct Hks as [Hk0 Hks].
          destruct (kept (c_filter l) yl) as [|x s] eqn:Hk.
          + destruct (next_nil m Htab t Ht l yl HIl Hk) as (l' & E & _). rewrite E. cbn [lift eb].
            intros pre b rest E' Hp Hb. rewrite Hkl in E'. rewrite <- Hfl in E'. rewrite Hk, app_nil_r in E'.
            exfalso. rewrite E' in Hnl. apply Forall_app in Hnl. destruct Hnl as [_ Hnl]. inversion Hnl as [|? ? Hx _]; subst.
            unfold isB in Hb. congruence.
          + destruct (next_cons m Htab t Ht l yl x s HIl Hk) as (l' & yl' & E & HI' & Hf & _ & Hk' & A & C & _ & _ & D). rewrite E. cbn [lift].
            destruct (tok_eqb (e_tok x) (tk0 k)) eqn:Eq.
            * apply (IHk _ l' yl' (c1 ++ [x])); [exact Hks|exact HI'|congruence| | |].
              -- rewrite Hkl. rewrite <- Hfl. rewrite Hk, Hk', <- app_assoc. reflexivity.
              -- exact (moved_trans m Htab _ _ _ _ _ Hml (next_moved m Htab t Ht l yl x s HIl Hk l' E)).
              -- apply noB_app; [exact Hnl|]. constructor; [exact (one_free k x Hk0 Eq)|constructor].
            * cbn [eb]. intros pre b rest E' Hp Hb. rewrite (token_span_of m Htab l' x A C D).
              rewrite Hkl in E'. destruct (first_B_ahead c1 _ pre b rest E' Hnl Hp Hb) as (pre1 & E1 & E2).
              rewrite <- Hfl in E1. rewrite Hk in E1.
              assert (Hin : In x (kept (c_filter l) yl)) by (rewrite Hk; left; reflexivity).
              pose proof (cur_le_start l yl x HIl Hin) as H1. pose proof (entry_lt l yl x HIl Hin) as H2.
              pose proof (head_le_B l yl x s pre1 b rest HIl Hk E1) as H3.
              pose proof (ps_le_cur lx ys HI) as H4. pose proof (ps_le_cur l yl HIl) as H5.
              assert (H6 : byte (c_ps lx) <= byte (c_ps l)).
              { apply (moved_ps lx ys l yl c1 HI HIl); [|exact Hml]. exact Hkl. }
              cbn [ewithin]. rewrite (parse_span_is lx ys HI). unfold sp_in. cbn [sstart send].
              assert (H7 : byte (c_cur lx) <= byte (e_start x)).
              { apply (cur_le_start lx ys x HI). rewrite Hkl. apply in_or_app. right. rewrite <- Hfl. exact Hin. }
              lia. }
      apply (Hseq ks [] lx ys []); [exact Hn|exact HI|reflexivity|reflexivity|apply (moved_refl m Htab)|constructor].
    - (* pred *)
      destruct (kept (c_filter lx) ys) as [|x s] eqn:Hk.
      + destruct (next_nil m Htab t Ht lx ys HI Hk) as (lx' & E & _). rewrite E. cbn [lift eb].
        intros pre b rest E'. rewrite Hk in E'. destruct pre; discriminate E'.
      + destruct (next_cons m Htab t Ht lx ys x s HI Hk) as (lx' & ys' & E & HI' & Hf & _ & Hk' & A & C & _ & _ & D).
        rewrite E. cbn [lift]. destruct (peval p (e_tok x)) eqn:Eq.
        * apply (Hone x s lx' ys' _ _ eq_refl HI' Hf Hk' (next_moved m Htab t Ht lx ys x s HI Hk lx' E)). exact (pred_free p x Hn Eq).
        * cbn [eb]. intros pre b rest E' _ _. rewrite Hk in E'. rewrite (token_span_of m Htab lx' x A C D).
          exact (leaf_error_in lx ys x s _ _ HI Hk pre b rest E').
    - (* left *) apply eb_on_ok; [exact HI|apply IH; assumption|]. intros v l s0 yl HIl. apply eb_map. apply IH; assumption.
    - (* right *) apply eb_on_ok; [exact HI|apply IH; assumption|]. intros v l s0 yl HIl. apply IH; assumption.
    - (* both *) apply eb_on_ok; [exact HI|apply IH; assumption|]. intros v l s0 yl HIl. apply eb_map. apply IH; assumption.
    - (* center *) apply eb_on_ok; [exact HI|apply IH; assumption|]. intros v l s0 yl HIl.
      apply eb_on_ok; [exact HIl|apply IH; assumption|]. intros v2 l2 s2 yl2 HIl2. apply eb_map. apply IH; assumption.
    - (* map *) apply eb_map. apply IH; assumption.
    - (* discard *) apply eb_map. apply IH; assumption.
    - (* either *) pose proof (IH g1 ltac:(assumption) ltac:(assumption) lx ys c st HI) as H3.
      destruct (run f g1 lx c st) as [[v l|e| |] s1]; try exact H3; try exact I. apply IH; assumption.
    - (* maybe *) pose proof (IH g Hg Hn lx ys (ctx_unrec c) st HI) as H1.
      destruct (run f g lx (ctx_unrec c) st) as [[v l|e| |] s1]; try exact I; [exact H1|]. apply eb_self. exact HI.
    - (* require_if *) destruct b; [apply eb_map; apply IH; assumption|]. apply Hmaybe; assumption.
    - (* cond *) destruct b; [apply eb_map; apply IH; assumption|apply eb_self; exact HI].
    - (* implies *) apply Hante; [assumption|assumption|]. intros v l s0 yl HIl.
      destruct v; try (apply eb_self; exact HIl). apply eb_map. apply IH; assumption.
    - (* antecedent *) apply Hante; [assumption|assumption|]. intros v l s0 yl HIl.
      destruct v; try (apply eb_self; exact HIl). apply eb_map. apply IH; assumption.
    - (* consequent *) apply Hante; [assumption|assumption|]. intros v l s0 yl HIl.
      destruct v; try (apply eb_self; exact HIl). apply eb_map. apply IH; assumption.
    - (* cond_implies *) apply Hante; [assumption|assumption|]. intros v l s0 yl HIl.
      destruct v; try (apply eb_self; exact HIl). destruct (vpeval p v); [|apply eb_self; exact HIl]. apply eb_map. apply IH; assumption.
    - (* raw *) apply IH; assumption.
    - (* unrecoverable *) apply IH; assumption.
    - (* context push *) pose proof (IH g Hg Hn lx ys (ctx_pushed c tag) st HI) as H1.
      destruct (run f g lx (ctx_pushed c tag) st) as [[v l|e| |] s1]; try exact I; [exact H1|].
      cbn [eb] in *. intros pre b rest E Hp Hb. unfold apply_context. apply ewithin_trail. exact (H1 pre b rest E Hp Hb).
    - (* user failure *) destruct (c_peek lx) as [[o l]| |]; cbn [lift eb ewithin]; try exact I. intros; exact I.
    - (* some_of *) apply eb_map. apply IH; assumption.
  Qed.

  Lemma split_first_is_B pre b rest : noB pre -> isB b ->
    split_first (in_kinds B) (pre ++ b :: rest) = Some (pre, b, rest).
  Proof.
    intros Hp Hb. induction pre as [|y pre IH]; cbn [app split_first].
    - unfold isB in Hb. rewrite Hb. reflexivity.
    - inversion Hp as [|? ? Hy Hp']; subst. rewrite Hy, (IH Hp'). reflexivity.
  Qed.

  (** [up_to] around such an item: the item's own error, or the boundary error when the item stops in
      front of a token that is not a boundary token - it quotes the parse span so far and the END of [b] *)
  Theorem upto_error_within f a lx ys c st e st' :
    core0 a = true -> nob a = true -> Inv lx ys ->
    run (S f) (GUpTo a B) lx c st = (RErr e, st') ->
    forall pre b rest, kept (c_filter lx) ys = pre ++ b :: rest -> noB pre -> isB b ->
    ewithin (byte (c_ps lx)) (byte (e_end b)) e.
  Proof using Htab Ht.
    intros Ha Hn HI Hrun pre b rest Hk Hp Hb. cbn [run] in Hrun.
    pose proof (core0_eb f a Ha Hn lx ys c st HI) as H.
    destruct (run f a lx c st) as [[v lx1|e0| |] st1]; cbn [on_ok] in Hrun; try discriminate Hrun.
    - destruct H as (ys1 & c1 & HI1 & Hf1 & Hk1 & Hm1 & Hn1). rewrite Hk in Hk1. symmetry in Hk1.
      destruct (first_B_ahead c1 _ pre b rest Hk1 Hn1 Hp Hb) as (pre1 & E1 & E2).
      rewrite <- Hf1 in E1.
      pose proof (moved_ps lx ys lx1 ys1 c1 HI HI1 ltac:(rewrite Hk, <- Hf1, E1, E2, <- app_assoc; reflexivity) Hm1) as L1.
      destruct pre1 as [|y p1]; cbn [app] in E1.
      + destruct (peek_cons m Htab t Ht lx1 ys1 b rest HI1 E1) as (lx2 & ys2 & E & _). rewrite E in Hrun. cbn [lift] in Hrun.
        unfold isB in Hb. rewrite Hb in Hrun. discriminate Hrun.
      + assert (Hp1 : noB (y :: p1)) by (rewrite E2 in Hp; apply Forall_app in Hp; tauto).
        inversion Hp1 as [|? ? Hy Hp1']; subst.
        destruct (peek_cons m Htab t Ht lx1 ys1 y (p1 ++ b :: rest) HI1 E1) as (lx2 & ys2 & E & HI2 & Hf2 & _ & Hk2).
        rewrite E in Hrun. cbn [lift] in Hrun. rewrite Hy in Hrun.
        pose proof Hk2 as Hk2'. rewrite <- Hf2 in Hk2'.
        pose proof (advance_to_cursor m Htab t Ht (in_kinds B) _ (fuel_of lx2) lx2 ys2 HI2 Hk2'
                      ltac:(rewrite <- Hk2'; exact (kept_length_fuel m Htab t Ht lx2 ys2 HI2))) as Hadv.
        change (y :: p1 ++ b :: rest) with ((y :: p1) ++ b :: rest) in Hadv.
        rewrite (split_first_is_B (y :: p1) b rest Hp1 Hb) in Hadv.
        destruct Hadv as (lx3 & ys3 & E3 & _ & Hc3 & _). rewrite E3 in Hrun. cbn [lift] in Hrun.
        injection Hrun as <- _. cbn [ewithin]. unfold c_cursor_pos. rewrite Hc3. split; [|lia].
        rewrite (parse_span_is lx2 ys2 HI2). unfold sp_in. cbn [sstart send].
        pose proof (peek_moved m Htab t Ht lx1 ys1 _ lx2 HI1 E) as Hm2.
        pose proof (moved_ps lx1 ys1 lx2 ys2 [] HI1 HI2 ltac:(cbn [app]; rewrite E1, Hk2; reflexivity) Hm2) as L2.
        assert (Hin : In y (kept (c_filter lx2) ys2)) by (rewrite Hk2'; left; reflexivity).
        pose proof (cur_le_start lx2 ys2 y HI2 Hin) as L3. pose proof (entry_lt lx2 ys2 y HI2 Hin) as L4.
        pose proof (head_le_B lx2 ys2 y (p1 ++ b :: rest) (y :: p1) b rest HI2 Hk2' eq_refl) as L5.
        lia.
    - injection Hrun as <- _. exact (H pre b rest Hk Hp Hb).
  Qed.
End ErrLoc.
