(** The combinator interpreter: one clause per public combinator of tephra-combinator,
    transcribed from its Rust body (file and function cited), over the concrete lexer model,
    the value model of contexts and the store. Every unwrap/assert/unreachable/slice is an
    explicit [RPanic]; every loop runs on fuel and reports [RFuel] when it is exhausted. *)
From Tephra Require Export Grammar.

Definition R : Type := out * store.

Definition lift {A} (r : res A) (st : store) (k : A -> R) : R :=
  match r with Ok a => k a | Panic => (RPanic, st) | Fuel => (RFuel, st) end.

Definition on_ok (r : R) (k : val -> clexer -> store -> R) : R :=
  match r with
  | (ROk v lx, st) => k v lx st
  | (o, st) => (o, st)
  end.

Definition map_val (f : val -> val) (r : R) : R :=
  match r with (ROk v lx, st) => (ROk (f v) lx, st) | _ => r end.

(** tephra-error/src/recover.rs: one call of the Recover closure *)
Definition rec_call (st : store) (r : rref) (t : tok) : store * bool :=
  match snd r with
  | RBefore ks => (st, in_kinds ks t)
  | RAfter ks =>
    if is_found st (fst r) then (clear_found st (fst r), true)
    else ((if in_kinds ks t then set_found st (fst r) else st), false)
  end.

(** lexer.rs advance_to_recover: the loop. Result: (found?, lexer after) *)
Fixpoint recover_loop (fuel : nat) (r : rref) (lx : clexer) (st : store) : res (bool * clexer) * store :=
  match fuel with
  | 0 => (Fuel, st)
  | S f =>
    match c_peek lx with
    | Ok (None, lx') => (Ok (false, lx'), st)
    | Ok (Some t, lx') =>
      let (st', b) := rec_call st r t in
      if b then (Ok (true, lx'), st')
      else match c_next lx' with
           | Ok (_, lx'') => recover_loop f r lx'' st'
           | Panic => (Panic, st')
           | Fuel => (Fuel, st')
           end
    | Panic => (Panic, st)
    | Fuel => (Fuel, st)
    end
  end.

(** no recover state: Ok without moving *)
Definition advance_to_recover (lx : clexer) (st : store) : res (bool * clexer) * store :=
  match c_rec lx with
  | None => (Ok (true, lx), st)
  | Some r => recover_loop (fuel_of lx) r lx st
  end.

(** primitive.rs only_filtered_tokens_remain: [rest.next().is_none() && rest.is_empty()] on a clone *)
Definition only_filtered_remain (lx : clexer) : res bool :=
  do r <- c_next lx;
  Ok (match fst r with None => c_at_end (snd r) | Some _ => false end).

(** [lexer.peek_token_span().unwrap_or_else(|| lexer.token_span())]: span of a looked-at token *)
Definition peeked_span (lx : clexer) : span :=
  match c_peek_token_span lx with Some sp => sp | None => c_token_span lx end.

Definition lt_opt (n : nat) (hi : option nat) : bool :=   (* hi.map_or(true, |h| n < h) *)
  match hi with None => true | Some h => n <? h end.
Definition ge_opt (n : nat) (hi : option nat) : bool :=   (* hi.map_or(false, |h| n >= h) *)
  match hi with None => false | Some h => h <=? n end.

Fixpoint disjoint_kinds (a b : list kind) : bool :=
  match a with [] => true | k :: r => negb (kind_in k b) && disjoint_kinds r b end.

(** bracket.rs match_nested_brackets: result *)
Inductive bmatch :=
| BM (open close : clexer) (idx : nat)
| BErr (e : err)
| BPanic | BFuel.

Definition pts (lx : clexer) : option span := c_peek_token_span lx.

(** [stack] is [opened], top first; [ol] is [open_lexer]; [sps] is [open_spans], top first *)
Fixpoint bracket_loop (fuel : nat) (os cs ab : list kind) (start : span)
         (lx : clexer) (ol : option clexer) (stack : list (nat * nat)) (sps : list span) : bmatch :=
  match fuel with
  | 0 => BFuel
  | S f =>
    match c_peek lx with
    | Panic => BPanic | Fuel => BFuel
    | Ok (None, _) =>
      match ol with
      | None => BErr (EBracket BNone start None)
      | Some o => match pts o with
                  | Some sp => BErr (EBracket BUnclosed sp None)
                  | None => BPanic
                  end
      end
    | Ok (Some tk, lx1) =>
      let continue ol' stack' sps' :=
        match c_next lx1 with
        | Ok (_, lx2) => bracket_loop f os cs ab start lx2 ol' stack' sps'
        | Panic => BPanic | Fuel => BFuel
        end in
      match position (fun k => tok_eqb (tk0 k) tk) cs with
      | Some idx =>
        match stack with
        | [] => match pts lx1 with Some sp => BErr (EBracket BUnopened sp None) | None => BPanic end
        | (t, n) :: rest =>
          if negb (t =? idx) then
            match sps, pts lx1 with
            | s1 :: _, Some s2 => BErr (EBracket BMismatch s1 (Some s2))
            | _, _ => BPanic
            end
          else if 1 <? n then continue ol ((t, n - 1) :: rest) (tl sps)
          else match rest with
               | [] => match ol with Some o => BM o lx1 idx | None => BPanic end
               | _ => continue ol rest (tl sps)           (* an inner pair of another kind closed *)
               end
        end
      | None =>
        match position (fun k => tok_eqb (tk0 k) tk) os with
        | Some idx =>
          let ol' := match ol with None => Some lx1 | Some _ => ol end in
          match pts lx1 with
          | None => BPanic                                (* peek_token_span().unwrap() *)
          | Some osp =>
            match stack with
            | [] => continue ol' [(idx, 1)] (osp :: sps)
            | (t, n) :: rest =>
              if negb (t =? idx) then continue ol' ((idx, 1) :: (t, n) :: rest) (osp :: sps)
              else continue ol' ((t, n + 1) :: rest) (osp :: sps)
            end
          end
        | None =>
          if in_kinds ab tk && (match ol with None => true | Some _ => false end) then
            match pts lx1 with Some sp => BErr (EBracket BNone sp None) | None => BPanic end
          else continue ol stack sps
        end
      end
    end
  end.

Definition match_nested_brackets (lx : clexer) (os cs ab : list kind) : bmatch :=
  bracket_loop (fuel_of lx) os cs ab (span_at (c_cursor_pos lx)) lx None [] [].

Section WithRun.
  (** the interpreter at the next lower fuel *)
  Variable runf : G -> clexer -> ctx -> store -> R.

  (** repeat.rs: [while vals.len() < low { (stop?) ; right(inter, parser)? }] then continue with [k] *)
  Fixpoint mand_loop (n : nat) (lo : nat) (stop : option (clexer -> store -> R))
           (step : clexer -> store -> R) (vals : list val) (cur : clexer) (st : store)
           (k : list val -> clexer -> store -> R) : R :=
    match n with
    | 0 => (RFuel, st)
    | S n' =>
      if length vals <? lo then
        let go st :=
          match step cur st with
          | (ROk v lx', st') => mand_loop n' lo stop step (vals ++ [v]) lx' st' k
          | r => r
          end in
        match stop with
        | None => go st
        | Some sp =>
          match sp cur st with
          | (ROk _ _, st') => (ROk (VList vals) cur, st')
          | (RErr _, st') => go st'
          | r => r
          end
        end
      else k vals cur st
    end.

  (** repeat.rs: the optional phase, items tried on clones *)
  Fixpoint opt_loop (n : nat) (hi : option nat) (stop : option (clexer -> store -> R))
           (step : clexer -> store -> R) (vals : list val) (cur : clexer) (st : store) : R :=
    match n with
    | 0 => (RFuel, st)
    | S n' =>
      if lt_opt (length vals) hi then
        let go st :=
          match step cur st with
          | (ROk v lx', st') =>
            let vals' := vals ++ [v] in
            if ge_opt (length vals') hi then (ROk (VList vals') lx', st')
            else opt_loop n' hi stop step vals' lx' st'
          | (RErr _, st') => (ROk (VList vals) cur, st')
          | r => r
          end in
        match stop with
        | None => go st
        | Some sp =>
          match sp cur st with
          | (ROk _ _, st') => (ROk (VList vals) cur, st')
          | (RErr _, st') => go st'
          | r => r
          end
        end
      else (ROk (VList vals) cur, st)
    end.

  (** join.rs right(inter, parser) *)
  Definition right_of (s a : G) (c : ctx) (lx : clexer) (st : store) : R :=
    on_ok (runf s lx c st) (fun _ lx' st' => runf a lx' c st').

  Definition hi_check (lo : nat) (hi : option nat) (lx : clexer) (st : store) : option R :=
    match hi with
    | Some h => if h <? lo then Some (RPanic, st)              (* assert!(h >= low) *)
                else if h =? 0 then Some (ROk (VList []) lx, st) else None
    | None => None
    end.

  (** repeat.rs intersperse / intersperse_default *)
  Definition run_intersperse (n lo : nat) (hi : option nat) (a s : G)
             (lx : clexer) (c : ctx) (st : store) : R :=
    match hi_check lo hi lx st with
    | Some r => r
    | None =>
      match runf a lx c st with
      | (ROk v lx1, st1) =>
        mand_loop n lo None (right_of s a c) [v] lx1 st1
          (fun vals cur st2 => opt_loop n hi None (right_of s a c) vals cur st2)
      | (RErr e, st1) => if lo =? 0 then (ROk (VList []) lx, st1) else (RErr e, st1)
      | r => r
      end
    end.

  (** repeat.rs intersperse_until *)
  Definition run_intersperse_until (n lo : nat) (hi : option nat) (stop a s : G)
             (lx : clexer) (c : ctx) (st : store) : R :=
    match hi_check lo hi lx st with
    | Some r => r
    | None =>
      let stopf := fun l st => runf stop l c st in
      match stopf lx st with
      | (ROk _ _, st0) => (ROk (VList []) lx, st0)
      | (RErr _, st0) =>
        match runf a lx c st0 with
        | (ROk v lx1, st1) =>
          mand_loop n lo (Some stopf) (right_of s a c) [v] lx1 st1
            (fun vals cur st2 => opt_loop n hi (Some stopf) (right_of s a c) vals cur st2)
        | (RErr e, st1) => if lo =? 0 then (ROk (VList []) lx, st1) else (RErr e, st1)
        | r => r
        end
      | r => r
      end
    end.

  Definition count_of (r : R) : R :=
    map_val (fun v => match v with VList l => VNat (length l) | _ => v end) r.

  (** control.rs stabilize: the retry loop. [lx] is stabilize's own lexer, [res] the last
      result, [attempt] the loop counter. It gives up (returning the parser's error) when the
      lexer has no recover state or when an attempt after the first ends where it started. *)
  Fixpoint stab_loop (n : nat) (attempt : nat) (a : G) (c : ctx) (lx : clexer) (res : R) : R :=
    match n with
    | 0 => (RFuel, snd res)
    | S n' =>
      match res with
      | (ROk v lx', st) => (ROk v (set_rec lx' None), st)
      | (RErr e, st) =>
        match c_rec lx with
        | None => (RErr e, st)
        | Some _ =>
          match advance_to_recover lx st with
          | (Ok (true, lx1), st1) =>
            if (0 <? attempt) && pos_eqb (c_cursor_pos lx1) (c_cursor_pos lx) then (RErr e, st1)
            else stab_loop n' (S attempt) a c lx1 (runf a lx1 (ctx_unrec c) st1)
          | (Ok (false, _), st1) => (RErr ERecover, st1)
          | (Panic, st1) => (RPanic, st1)
          | (Fuel, st1) => (RFuel, st1)
          end
        end
      | r => r
      end
    end.

  (** list.rs list_bounded_default: the [for idx in 0i32..] loop.
      [item] = stabilize(recover_default(up_to(parser, sep_or_abort), recover_pat)),
      [probe] = stabilize(maybe(up_to(parser, sep_or_abort))),
      [sepp] = recover_default(discard(one(sep)), recover_pat) *)
  Fixpoint list_loop (n : nat) (hi : option nat) (ab : list kind) (dflt : val) (item probe sepp : G)
           (c : ctx) (vals : list val) (lx : clexer) (st : store)
           (k : list val -> clexer -> store -> R) : R :=
    match n with
    | 0 => (RFuel, st)
    | S n' =>
      lift (c_peek lx) st (fun '(o, lx0) =>
      let items st0 :=
        match runf item lx0 c st0 with
        | (ROk v lx1, st1) =>
          let vals' := vals ++ [v] in
          if ge_opt (length vals') hi then k vals' lx1 st1
          else
            lift (c_peek lx1) st1 (fun '(o2, lx2) =>
            match o2 with
            | None => k vals' lx2 st1
            | Some t2 =>
              if in_kinds ab t2 then k vals' lx2 st1
              else if c_at_end lx2 then k vals' lx2 st1
              else
                match runf sepp lx2 c st1 with
                | (ROk _ lx3, st3) =>
                  lift (c_start_sublex lx3) st3 (fun lx4 =>
                  list_loop n' hi ab dflt item probe sepp c vals' lx4 st3 k)
                | r => r
                end
            end)
        (* the item's error was reported but no separator or abort token follows: the malformed
           item is the last one; consume to the end of the text *)
        | (RErr ERecover, st1) =>
          lift (c_advance_to (fuel_of lx0) lx0 (fun _ => false)) st1 (fun '(_, lx1) =>
          k (vals ++ [dflt]) lx1 st1)
        | r => r
        end in
      match o with
      | None => k vals lx0 st
      | Some t =>
        if in_kinds ab t then
          match vals with
          | [] => k vals lx0 st
          | _ =>
            match runf probe lx0 c st with
            | (ROk (VSome v) _, st1) => k (vals ++ [v]) lx0 st1
            | (ROk _ _, st1) => k vals lx0 st1
            | r => r
            end
          end
        else items st
      end)
    end.
End WithRun.

Definition some_of (r : R) : R := map_val VSome r.

(** identity of the stateless Recover object a list combinator builds for itself *)
Definition list_rref (sep : kind) (ab : list kind) : rref := (0, RBefore (sep :: ab)).

Fixpoint run (fuel : nat) (g : G) (lx : clexer) (c : ctx) (st : store) {struct fuel} : R :=
  match fuel with
  | 0 => (RFuel, st)
  | S f =>
    let rec := run f in
    (* control.rs recover_default, with the placeholder [dflt] *)
    let recover_with (dflt : val) (r : rref) (body : clexer -> ctx -> store -> R) : R :=
      let base := set_rec lx (Some r) in
      match body lx c st with
      | (RErr e, st1) =>
        match send_error c e (log st1) with
        | (_, Some e') => (RErr e', st1)
        | (l, None) =>
          let st2 := st_log st1 l in
          match advance_to_recover base st2 with
          | (Ok (true, lx'), st3) => (ROk dflt lx', st3)
          | (Ok (false, _), st3) => (RErr ERecover, st3)
          | (Panic, st3) => (RPanic, st3)
          | (Fuel, st3) => (RFuel, st3)
          end
        end
      | r => r
      end in
    (* bracket.rs bracket_default_index, with value wrappers *)
    let bracket_with (os : list kind) (a : G) (cs ab : list kind)
                     (okv : val -> nat -> val) (dfl : nat -> val) : R :=
      if (match os with [] => true | _ => false end) || (match cs with [] => true | _ => false end)
         || negb (length os =? length cs) || negb (disjoint_kinds os cs)
      then (RPanic, st)
      else
        match match_nested_brackets lx os cs ab with
        | BPanic => (RPanic, st) | BFuel => (RFuel, st)
        | BErr e => (RErr e, st)
        | BM o cl idx =>
          lift (c_next o) st (fun '(_, o1) =>
          lift (c_start_sublex o1) st (fun inner =>
          lift (c_next cl) st (fun '(_, cl1) =>
          match rec a inner c st with
          | (ROk v _, st1) => (ROk (okv v idx) cl1, st1)
          | (RErr e, st1) =>
            match send_error c e (log st1) with
            | (_, Some e') => (RErr e', st1)
            | (l, None) => (ROk (dfl idx) cl1, st_log st1 l)
            end
          | r => r
          end)))
        end in
    (* list.rs list_bounded_default; [wrap] adapts the item parser (Some for list/list_bounded),
       [dflt] is the placeholder *)
    let list_with (lo : nat) (hi : option nat) (item0 : G) (dflt : val) (sep : kind) (ab : list kind) : R :=
      match hi with
      | Some 0 => (ROk (VList []) lx, st)
      | _ =>
        if (match hi with Some h => h <? lo | None => false end) then (RPanic, st)
        else
          let soa := sep :: ab in
          let rr := list_rref sep ab in
          let item := GStabilize (GRecoverWith dflt rr (GUpTo item0 soa)) in
          let probe := GStabilize (GMaybe (GUpTo item0 soa)) in
          let sepp := GRecoverWith VUnit rr (GDiscard (GOne sep)) in
          list_loop rec f hi ab dflt item probe sepp c [] lx st
            (fun vals lx' st' =>
               match (match c_rec lx with Some _ => None | None => c_rec lx' end) with
               | Some _ => (RPanic, st')      (* debug_assert!(had_recover_state || recover_state().is_none()) *)
               | None =>
                 if length vals <? lo then
                   match send_error c (ECount (c_parse_span lx') (length vals) lo hi) (log st') with
                   | (_, Some e') => (RErr e', st')
                   | (l, None) => (ROk (VList vals) lx', st_log st' l)
                   end
                 else (ROk (VList vals) lx', st')
               end)
      end in
    match g with
    (* primitive.rs *)
    | GEmpty => (ROk VUnit lx, st)
    | GOne k =>
      let es := c_parse_span lx in
      lift (c_next lx) st (fun '(o, lx') =>
      match o with
      | Some t => if tok_eqb t (tk0 k) then (ROk (VTok t) lx', st)
                  else (RErr (EUnexpected es (c_token_span lx') (ExTok (tk0 k)) (Some t)), st)
      | None => (RErr (EUnexpected es (c_token_span lx') (ExTok (tk0 k)) None), st)
      end)
    | GAny ks =>
      match ks with
      | [] => (RPanic, st)                               (* assert!(!tokens.is_empty()) *)
      | _ =>
        let es := c_parse_span lx in
        lift (c_peek lx) st (fun '(o, lx') =>
        match o with
        | Some t =>
          match position (fun k => tok_eqb t (tk0 k)) ks with
          | Some i => lift (c_next lx') st (fun '(_, lx'') => (ROk (VTok (tk0 (nth i ks KA))) lx'', st))
          | None => (RErr (EUnexpected es (peeked_span lx') (ExAny (map tk0 ks)) (Some t)), st)
          end
        | None => (RErr (EUnexpected es (c_token_span lx') (ExAny (map tk0 ks)) None), st)
        end)
      end
    | GAnyIndex ks =>
      match ks with
      | [] => (RPanic, st)
      | _ =>
        let es := c_parse_span lx in
        lift (c_peek lx) st (fun '(o, lx') =>
        match o with
        | Some t =>
          match position (fun k => tok_eqb t (tk0 k)) ks with
          | Some i => lift (c_next lx') st (fun '(_, lx'') => (ROk (VNat i) lx'', st))
          | None => (RErr (EUnexpected es (peeked_span lx') (ExAny (map tk0 ks)) (Some t)), st)
          end
        | None => (RErr (EUnexpected es (c_token_span lx') (ExAny (map tk0 ks)) None), st)
        end)
      end
    | GSeq ks =>
      let es := c_parse_span lx in
      (fix go (ks : list kind) (acc : list val) (l : clexer) : R :=
         match ks with
         | [] => (ROk (VList acc) l, st)
         | k :: r =>
           lift (c_next l) st (fun '(o, l') =>
           match o with
           | Some t => if tok_eqb t (tk0 k) then go r (acc ++ [VTok t]) l'
                       else (RErr (EUnexpected es (c_token_span l') (ExTok (tk0 k)) (Some t)), st)
           | None => (RErr (EUnexpected es (c_token_span l') (ExTok (tk0 k)) None), st)
           end)
         end) ks [] lx
    | GSeqCount ks =>
      let es := c_parse_span lx in
      (fix go (ks : list kind) (cnt : nat) (l : clexer) : R :=
         match ks with
         | [] => (ROk (VNat cnt) l, st)
         | k :: r =>
           if c_at_end l then (ROk (VNat cnt) l, st)
           else
             lift (c_peek l) st (fun '(o, l') =>
             match o with
             | Some t => if tok_eqb t (tk0 k)
                         then lift (c_next l') st (fun '(_, l'') => go r (S cnt) l'')
                         else (ROk (VNat cnt) l', st)
             | None =>
               lift (only_filtered_remain l') st (fun b =>
               if b then (ROk (VNat cnt) l', st) else (RErr (EUnrecognized es), st))
             end)
         end) ks 0 lx
    | GPred p =>
      let es := c_parse_span lx in
      lift (c_next lx) st (fun '(o, lx') =>
      match o with
      | None => (RErr (EUnexpected es (c_token_span lx') ExOther None), st)
      | Some t => if peval p t then (ROk (VTok t) lx', st)
                  else (RErr (EUnexpected es (c_token_span lx') ExOther (Some t)), st)
      end)
    | GEot =>
      let es := c_parse_span lx in
      lift (if c_at_end lx then Ok true else only_filtered_remain lx) st (fun b =>
      if b then (ROk VUnit lx, st)
      else
        lift (c_peek lx) st (fun '(o, lx') =>
        match o with
        | Some t => (RErr (EUnexpected es (peeked_span lx') ExEot (Some t)), st)
        | None => (RErr (EUnrecognized es), st)
        end))
    (* join.rs *)
    | GBoth a b =>
      on_ok (rec a lx c st) (fun l lx' st' => map_val (fun r => VPair l r) (rec b lx' c st'))
    | GLeft a b =>
      on_ok (rec a lx c st) (fun l lx' st' => map_val (fun _ => l) (rec b lx' c st'))
    | GRight a b =>
      on_ok (rec a lx c st) (fun _ lx' st' => rec b lx' c st')
    | GCenter a b d =>
      on_ok (rec a lx c st) (fun _ lx1 st1 =>
      on_ok (rec b lx1 c st1) (fun v lx2 st2 => map_val (fun _ => v) (rec d lx2 c st2)))
    (* misc.rs *)
    | GMap tag a => map_val (VTag tag) (rec a lx c st)
    | GDiscard a => map_val (fun _ => VUnit) (rec a lx c st)
    | GSomeOf a => some_of (rec a lx c st)
    | GText a =>
      lift (c_peek lx) st (fun '(_, lx1) =>
      let start := match c_peek_token_span lx1 with
                   | Some sp => byte (sstart sp)
                   | None => byte (send (c_token_span lx1))
                   end in
      on_ok (rec a lx1 c st) (fun _ lx' st' =>
        let e := byte (send (c_parse_span lx')) in
        let start := Nat.min start e in
        if (start <=? e) && (e <=? blen (c_text lx')) then (ROk (VText start e) lx', st')
        else (RPanic, st')))                             (* &text[start..end] *)
    | GSpanned a =>
      lift (c_peek lx) st (fun '(_, lx1) =>
      let start := match c_peek_token_span lx1 with
                   | Some sp => sstart sp
                   | None => send (c_token_span lx1)
                   end in
      on_ok (rec a lx1 c st) (fun v lx' st' =>
        let e := send (c_parse_span lx') in
        let start := if byte e <? byte start then e else start in
        (ROk (VSpanned (enclosing start e) v) lx', st')))
    | GSub a => lift (c_start_sublex lx) st (fun lx' => rec a lx' c st)
    (* alt.rs *)
    | GEither a b =>
      match rec a lx c st with
      | (RErr _, st') => rec b lx c st'
      | r => r
      end
    | GMaybe a =>
      match rec a lx (ctx_unrec c) st with
      | (ROk v lx', st') => (ROk (VSome v) lx', st')
      | (RErr _, st') => (ROk VNone lx, st')
      | r => r
      end
    | GRequireIf b a =>
      if b then some_of (rec a lx c st) else rec (GMaybe a) lx c st
    | GCond b a =>
      if b then some_of (rec a lx c st) else (ROk VNone lx, st)
    | GImplies a b =>
      on_ok (rec (GMaybe a) lx c st) (fun ante lx' st' =>
      match ante with
      | VSome l => map_val (fun r => VSome (VPair l r)) (rec b lx' c st')
      | _ => (ROk VNone lx', st')
      end)
    | GAntecedent a b =>
      on_ok (rec (GMaybe a) lx c st) (fun ante lx' st' =>
      match ante with
      | VSome l => map_val (fun _ => VSome l) (rec b lx' c st')
      | _ => (ROk VNone lx', st')
      end)
    | GConsequent a b =>
      on_ok (rec (GMaybe a) lx c st) (fun ante lx' st' =>
      match ante with
      | VSome _ => map_val VSome (rec b lx' c st')
      | _ => (ROk VNone lx', st')
      end)
    | GCondImplies a p b =>
      on_ok (rec (GMaybe a) lx c st) (fun ante lx' st' =>
      match ante with
      | VSome l =>
        if vpeval p l then map_val (fun r => VSome (VPair l (VSome r))) (rec b lx' c st')
        else (ROk (VSome (VPair l VNone)) lx', st')
      | _ => (ROk VNone lx', st')
      end)
    (* control.rs *)
    | GFilterWith fs a =>
      lift (c_set_filter lx (Some fs)) st (fun '(old, lx1) =>
      on_ok (rec a lx1 c st) (fun v lx' st' =>
        lift (c_set_filter lx' old) st' (fun '(_, lx'') => (ROk v lx'', st'))))
    | GUnfiltered a =>
      lift (c_set_filter lx None) st (fun '(old, lx1) =>
      on_ok (rec a lx1 c st) (fun v lx' st' =>
        lift (c_set_filter lx' old) st' (fun '(_, lx'') => (ROk v lx'', st'))))
    | GRaw a => rec a lx (ctx_raw c) st
    | GUnrec a => rec a lx (ctx_unrec c) st
    | GRecoverWith dflt r a => recover_with dflt r (fun l c' s => rec a l c' s)
    | GRecover r a | GRecoverDelayed r a => recover_with VNone r (fun l c' s => some_of (rec a l c' s))
    | GRecoverDef r a | GRecoverDefDelayed r a => recover_with VDflt r (fun l c' s => rec a l c' s)
    | GStabilize a => stab_loop rec f 0 a c lx (rec a lx c st)
    (* repeat.rs *)
    | GRepeat lo hi a => run_intersperse rec f lo hi a GEmpty lx c st
    | GRepeatCount lo hi a => count_of (run_intersperse rec f lo hi a GEmpty lx c st)
    | GRepeatUntil lo hi stop a => run_intersperse_until rec f lo hi stop a GEmpty lx c st
    | GRepeatCountUntil lo hi stop a => count_of (run_intersperse_until rec f lo hi stop a GEmpty lx c st)
    | GIntersperse lo hi a s => run_intersperse rec f lo hi a s lx c st
    | GIntersperseCount lo hi a s => count_of (run_intersperse rec f lo hi a s lx c st)
    | GIntersperseUntil lo hi stop a s => run_intersperse_until rec f lo hi stop a s lx c st
    | GIntersperseCountUntil lo hi stop a s => count_of (run_intersperse_until rec f lo hi stop a s lx c st)
    | GIntersperseDef lo hi a k => run_intersperse rec f lo hi a (GOne k) lx c st
    (* bracket.rs *)
    | GBracket os a cs ab => bracket_with os a cs ab (fun v _ => VSome v) (fun _ => VNone)
    | GBracketDef os a cs ab => bracket_with os a cs ab (fun v _ => v) (fun _ => VDflt)
    | GBracketIdx os a cs ab =>
      bracket_with os a cs ab (fun v i => VPair (VSome v) (VNat i)) (fun i => VPair VNone (VNat i))
    | GBracketDefIdx os a cs ab =>
      bracket_with os a cs ab (fun v i => VPair v (VNat i)) (fun i => VPair VDflt (VNat i))
    (* list.rs *)
    | GUpTo a ab =>
      on_ok (rec a lx c st) (fun v lx1 st1 =>
      lift (c_peek lx1) st1 (fun '(o, lx2) =>
      match o with
      | None => (ROk v lx2, st1)
      | Some t =>
        if in_kinds ab t then (ROk v lx2, st1)
        else
          let es := c_parse_span lx2 in
          lift (c_advance_to (fuel_of lx2) lx2 (in_kinds ab)) st1 (fun '(_, lx3) =>
          (RErr (EBoundary es (c_cursor_pos lx3)), st1))
      end))
    | GList a sep ab => list_with 0 None (GSomeOf a) VNone sep ab
    | GListB lo hi a sep ab => list_with lo hi (GSomeOf a) VNone sep ab
    | GListDef a sep ab => list_with 0 None a VDflt sep ab
    | GListBDef lo hi a sep ab => list_with lo hi a VDflt sep ab
    (* user idioms of the harness *)
    | GCtxPush tag a =>
      let c' := ctx_pushed c tag in
      match rec a lx c' st with
      | (RErr e, st') => (RErr (apply_context c' e), st')
      | r => r
      end
    | GUserFail => lift (c_peek lx) st (fun _ => (RErr EUser, st))
    | GProbe n =>
      match send_error c (EProbe n) (log st) with
      | (_, Some _) => (ROk VUnit lx, st_log st (log st ++ [EProbeRet n]))
      | (l, None) => (ROk VUnit lx, st_log st l)
      end
    end
  end.
