(** C11 (bounds and count accounting of the list combinators), for ARBITRARY item parsers:
    every way out of the list loop either hands its continuation a value list that extends the
    one it was given and respects the upper bound, or is not a success at all. *)
From Tephra Require Import CLexer Run.

Definition not_ok (r : R) : Prop := forall v l, fst r <> ROk v l.

Lemma lift_not_ok {A} (x : res A) st (k : A -> R) (P : R -> Prop) :
  (forall r, not_ok r -> P r) -> (forall a, x = Ok a -> P (k a)) -> P (lift x st k).
Proof.
  intros Hn Hk. destruct x as [a| |]; cbn [lift]; [apply Hk; reflexivity| |]; apply Hn; intros v l; cbn; discriminate.
Qed.

Section ListLoop.
  Variable runf : G -> clexer -> ctx -> store -> R.

  (** what the loop's exits look like *)
  Definition exits (hi : option nat) (vals : list val) (k : list val -> clexer -> store -> R) (r : R) : Prop :=
    (exists vals' lx' st', r = k vals' lx' st' /\ (exists more, vals' = vals ++ more)
       /\ (forall h, hi = Some h -> length vals < h -> length vals' <= h))
    \/ not_ok r.

  Lemma exits_k hi vals k vals' lx' st' :
    (exists more, vals' = vals ++ more) -> (forall h, hi = Some h -> length vals < h -> length vals' <= h) ->
    exits hi vals k (k vals' lx' st').
  Proof. intros A B. left. exists vals', lx', st'. split; [reflexivity|]. split; assumption. Qed.

  Lemma exits_snoc hi vals v k r : ge_opt (length (vals ++ [v])) hi = false ->
    exits hi (vals ++ [v]) k r -> exits hi vals k r.
  Proof.
    intros Hge [(vals' & lx' & st' & -> & (more & ->) & Hb)|Hn]; [|right; exact Hn].
    left. exists ((vals ++ [v]) ++ more), lx', st'. split; [reflexivity|]. split; [exists (v :: more); rewrite <- app_assoc; reflexivity|].
    intros h -> Hlt. apply (Hb h eq_refl). cbn [ge_opt] in Hge. apply Nat.leb_gt in Hge. exact Hge.
  Qed.

  Lemma list_loop_exits : forall n hi ab dflt item probe sepp c vals lx st k,
    exits hi vals k (list_loop runf n hi ab dflt item probe sepp c vals lx st k).
  Proof.
    induction n as [|n IH]; intros hi ab dflt item probe sepp c vals lx st k; cbn [list_loop].
    - right. intros v l. cbn. discriminate.
    - apply lift_not_ok; [intros r Hr; right; exact Hr|]. intros [o lx0] _.
      assert (Hsame : forall l s, exits hi vals k (k vals l s)).
      { intros l s. apply exits_k; [exists []; rewrite app_nil_r; reflexivity|intros; lia]. }
      assert (Hone : forall v l s, exits hi vals k (k (vals ++ [v]) l s)).
      { intros v l s. apply exits_k; [exists [v]; reflexivity|]. intros h _ Hlt. rewrite app_length. cbn. lia. }
      assert (Hitems : forall st0,
        exits hi vals k
          match runf item lx0 c st0 with
          | (ROk v lx1, st1) =>
            let vals' := vals ++ [v] in
            if ge_opt (length vals') hi then k vals' lx1 st1
            else
              lift (c_peek lx1) st1 (fun '(o2, lx2) =>
              match o2 with
              | None => k vals' lx2 st1
              | Some t2 =>
                if in_kinds ab t2 then k vals' lx2 st1
                else if c_at_end lx2 then k vals' lx2 st1
                else
                  match runf sepp lx2 c st1 with
                  | (ROk _ lx3, st3) =>
                    lift (c_start_sublex lx3) st3 (fun lx4 =>
                    list_loop runf n hi ab dflt item probe sepp c vals' lx4 st3 k)
                  | r => r
                  end
              end)
          | (RErr ERecover, st1) =>
            lift (c_advance_to (fuel_of lx0) lx0 (fun _ => false)) st1 (fun '(_, lx1) =>
            k (vals ++ [dflt]) lx1 st1)
          | r => r
          end).
      { intros st0. destruct (runf item lx0 c st0) as [[v lx1|e| |] st1].
        - cbn zeta. destruct (ge_opt (length (vals ++ [v])) hi) eqn:Ege; [apply Hone|].
          apply lift_not_ok; [intros r Hr; right; exact Hr|]. intros [o2 lx2] _.
          destruct o2 as [t2|]; [|apply Hone].
          destruct (in_kinds ab t2); [apply Hone|]. destruct (c_at_end lx2); [apply Hone|].
          destruct (runf sepp lx2 c st1) as [[v3 lx3|e3| |] st3]; try (right; intros ? ?; cbn; discriminate).
          apply lift_not_ok; [intros r Hr; right; exact Hr|]. intros lx4 _.
          apply (exits_snoc hi vals v k _ Ege). apply IH.
        - destruct e; try (right; intros ? ?; cbn; discriminate).
          apply lift_not_ok; [intros r Hr; right; exact Hr|]. intros [b lx1] _. apply Hone.
        - right; intros ? ?; cbn; discriminate.
        - right; intros ? ?; cbn; discriminate. }
      destruct o as [t|]; [|apply Hsame].
      destruct (in_kinds ab t); [|apply Hitems].
      destruct vals as [|v0 vr]; [apply Hsame|].
      destruct (runf probe lx0 c st) as [[pv pl|pe| |] st1]; try (right; intros ? ?; cbn; discriminate).
      destruct pv; first [apply Hone|apply Hsame].
  Qed.
End ListLoop.

(** the four public list combinators, through [list_with] *)
Section ListWith.
  Definition count_err (c : ctx) (lx' : clexer) (n lo : nat) (hi : option nat) : err :=
    apply_trail (trail c) (ECount (c_parse_span lx') n lo hi).

  (** the shape shared by list / list_bounded / list_default / list_bounded_default *)
  Definition list_result (lo : nat) (hi : option nat) (c : ctx) (r : R) : Prop :=
    match r with
    | (ROk v lx', st') =>
      exists l, v = VList l /\ (forall h, hi = Some h -> length l <= h)
        /\ (length l < lo -> has_sink c = true /\
              exists st0, st' = st_log st0 (log st0 ++ [count_err c lx' (length l) lo hi]))
    | (RErr e, st') => True
    | _ => True
    end.

  Lemma list_with_result f lo hi item0 dflt sep ab lx c st :
    let item := GStabilize (GRecoverWith dflt (list_rref sep ab) (GUpTo item0 (sep :: ab))) in
    let probe := GStabilize (GMaybe (GUpTo item0 (sep :: ab))) in
    let sepp := GRecoverWith VUnit (list_rref sep ab) (GDiscard (GOne sep)) in
    let k := fun vals lx' st' =>
      match (match c_rec lx with Some _ => None | None => c_rec lx' end) with
      | Some _ => (RPanic, st')
      | None =>
        if length vals <? lo then
          match send_error c (ECount (c_parse_span lx') (length vals) lo hi) (log st') with
          | (_, Some e') => (RErr e', st')
          | (l, None) => (ROk (VList vals) lx', st_log st' l)
          end
        else (ROk (VList vals) lx', st')
      end in
    (forall h, hi = Some h -> 0 < h) ->
    list_result lo hi c (list_loop (run f) f hi ab dflt item probe sepp c [] lx st k).
  Proof.
    intros item probe sepp k Hpos.
    destruct (list_loop_exits (run f) f hi ab dflt item probe sepp c [] lx st k)
      as [(vals' & lx' & st' & -> & _ & Hb)|Hn].
    - unfold k. destruct (match c_rec lx with Some _ => None | None => c_rec lx' end); [exact I|].
      destruct (Nat.ltb_spec (length vals') lo) as [Hlt|Hge].
      + unfold send_error. destruct (has_sink c) eqn:Hs; [|exact I].
        cbn [list_result]. exists vals'. split; [reflexivity|]. split.
        * intros h Eh. apply (Hb h Eh). cbn [length]. exact (Hpos h Eh).
        * intros _. split; [exact Hs|]. exists st'. reflexivity.
      + cbn [list_result]. exists vals'. split; [reflexivity|]. split.
        * intros h Eh. apply (Hb h Eh). cbn [length]. exact (Hpos h Eh).
        * intros Hlt. lia.
    - destruct (list_loop _ _ _ _ _ _ _ _ _ _ _ _ _) as [[v l|e| |] st']; cbn [list_result]; try exact I.
      exfalso. exact (Hn v l eq_refl).
  Qed.

  (** a successful bounded list never exceeds its upper bound, and returns fewer than [lo] entries
      only with a sink, after reporting the count error as its last diagnostic *)
  Theorem list_bounded_result f lo hi a sep ab lx c st : (forall h, hi = Some h -> lo <= h) ->
    list_result lo hi c (run (S f) (GListB lo hi a sep ab) lx c st)
    /\ list_result lo hi c (run (S f) (GListBDef lo hi a sep ab) lx c st).
  Proof.
    intros Hpre. split; cbn [run].
    - destruct hi as [[|h]|].
      + cbn [list_result]. exists []. split; [reflexivity|]. split; [intros h E; cbn; lia|]. cbn [length]. intros Hlt.
        (* high = 0: the empty list; lo <= high = 0 is the precondition *)
        specialize (Hpre 0 eq_refl). lia.
      + destruct (S h <? lo); [exact I|]. apply list_with_result. intros h' E. injection E as <-. lia.
      + apply list_with_result. intros h' E. discriminate.
    - destruct hi as [[|h]|].
      + cbn [list_result]. exists []. split; [reflexivity|]. split; [intros h E; cbn; lia|]. cbn [length]. intros Hlt.
        specialize (Hpre 0 eq_refl). lia.
      + destruct (S h <? lo); [exact I|]. apply list_with_result. intros h' E. injection E as <-. lia.
      + apply list_with_result. intros h' E. discriminate.
  Qed.
End ListWith.
