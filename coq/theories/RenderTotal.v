(** C01 for the rendering model: displaying any canonical span of any source (a root text or a window
    onto one) with any highlights never fails - widening to lines, collecting the line pieces, clipping
    each of them and laying out the rows all succeed. *)
From Tephra Require Import MetricsSpec MetricsFacts Source SourceFacts Render.

Section RenderTotal.
  Variable m : metrics.
  Hypothesis Htab : 1 <= tabw m.
  Variable us : list unit.
  Hypothesis Hwf : wf_units m us.
  Variable off : pos.
  Variable name : option nat.
  Local Notation s := (mksource (ctext m us) name m off).
  Local Notation n := (length us).
  Local Notation G := (gpos m us off).

  Lemma line_end_k_le' k : k <= n -> line_end_k us k <= n.
  Proof.
    intros Hk. unfold line_end_k.
    assert (Hr : forall l : list unit, run_len l <= length l) by (induction l as [|[|c] l IH]; cbn; lia).
    pose proof (Hr (skipn k us)) as H. rewrite skipn_length in H. lia.
  Qed.

  (** laying out rows over pieces that are canonical sub-spans never fails *)
  Lemma line_rows_total hls gw : forall ps sts, Forall (fun xy => fst xy <= snd xy /\ snd xy <= n) ps ->
    exists cells, line_rows s (map (span_of m us off) ps) hls sts gw = Ok cells.
  Proof using Htab Hwf.
    induction ps as [|[x y] ps IH]; intros sts Hps; [eexists; reflexivity|].
    inversion Hps as [|? ? [Hxy Hy] Hrest]; subst. cbn [fst snd] in Hxy, Hy. cbn [map line_rows]. unfold span_of at 1 2 3. cbn [fst snd sstart].
    destruct (risers hls sts (line (G x)) None 0) as [rc sts1].
    rewrite (clipped_G m Htab us Hwf off name x y Hxy Hy). cbn [bind].
    destruct (message_rows hls hls sts1 (line (G x)) gw (existsb is_multiline hls) 0) as [mr sts2].
    destruct (IH sts2 Hrest) as [more E]. rewrite E. cbn [bind]. eexists. reflexivity.
  Qed.

  Lemma pieces_bounds : forall f a j, a <= j -> j <= n -> Forall (fun xy => fst xy <= snd xy /\ snd xy <= n) (pieces f us a j).
  Proof.
    intros f a j Ha Hj. apply Forall_forall. intros [x y] Hin.
    destruct (pieces_within_line us f a j x y Ha Hj Hin) as (A & B & C & _). cbn [fst snd]. lia.
  Qed.

  Theorem render_total i j named hls : i <= j -> j <= n ->
    exists sd, sd_new s (mkspan (G i) (G j)) named hls = Ok sd /\ exists cells, sd_render s sd = Ok cells.
  Proof using Htab Hwf.
    intros Hij Hj. unfold sd_new. rewrite (widen_G m Htab us Hwf off name i j Hij Hj). cbn [bind]. eexists. split; [reflexivity|].
    set (a := line_start_k us i). set (b := line_end_k us j).
    assert (Ha : a <= i) by apply line_start_k_le.
    assert (Hb1 : j <= b) by apply (line_end_ge m Htab us Hwf off name).
    assert (Hb2 : b <= n) by (apply line_end_k_le'; exact Hj).
    unfold sd_render. cbn [sd_span sd_hls sd_gw sd_named]. unfold split_lines_of. cbn [sstart send stext].
    pose proof (units_length_le m us) as Hlen.
    rewrite (sl_collect_G m Htab us Hwf off name (S (length (ctext m us))) a b ltac:(lia) Hb2 ltac:(lia)). cbn [bind].
    destruct (line_rows_total hls (gutter_width (line (G j))) (pieces (S (length (ctext m us))) us a b)
                (map (fun h => if is_multiline h then RWaiting else RUnused) hls) (pieces_bounds _ a b ltac:(lia) Hb2)) as [cells E].
    rewrite E. cbn [bind]. eexists. reflexivity.
  Qed.

  (** a whole report: every span display built by [sd_new] from a canonical span renders *)
  Theorem cd_render_total msg ty code sds :
    Forall (fun sd => exists i j named hls, i <= j /\ j <= n /\ sd_new s (mkspan (G i) (G j)) named hls = Ok sd) sds ->
    exists cells, cd_render s (mkcd msg ty code sds) = Ok cells.
  Proof using Htab Hwf.
    intros H. unfold cd_render. cbn [cd_sds cd_ty cd_code cd_msg].
    assert (Hs : exists body, sds_render s sds = Ok body).
    { induction H as [|sd r (i & j & named & hls & Hij & Hj & E) _ IH]; [eexists; reflexivity|].
      destruct (render_total i j named hls Hij Hj) as (sd' & E' & cells & Er). rewrite E in E'. injection E' as <-.
      cbn [sds_render]. rewrite Er. cbn [bind]. destruct IH as [b Eb]. rewrite Eb. cbn [bind]. eexists. reflexivity. }
    destruct Hs as [body Eb]. rewrite Eb. cbn [bind]. eexists. reflexivity.
  Qed.
End RenderTotal.
