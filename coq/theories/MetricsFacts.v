(** Facts about the metrics model: on canonical bases every navigation function returns
    the canonical position the specification names (C19; basis of C03, C18, C20). *)
From Tephra Require Import MetricsSpec.

(** * Line-break text *)

Lemma lb_text_blen m : blen (lb_text m) = lb_len m.
Proof. unfold lb_text, lb_len. destruct (le m); reflexivity. Qed.

Lemma lb_len_pos m : 1 <= lb_len m.
Proof. unfold lb_len. destruct (le m); lia. Qed.

Lemma lb_text_length m : length (lb_text m) = lb_len m.
Proof. unfold lb_text, lb_len. destruct (le m); reflexivity. Qed.

Lemma starts_lb_lb_text m r : starts_lb m (lb_text m ++ r) = true.
Proof. unfold starts_lb, lb_text. destruct (le m); reflexivity. Qed.

Lemma skipn_lb_text m r : skipn (lb_len m) (lb_text m ++ r) = r.
Proof. unfold lb_text, lb_len. destruct (le m); reflexivity. Qed.

Lemma firstn_lb_text m r : firstn (lb_len m) (lb_text m ++ r) = lb_text m.
Proof. unfold lb_text, lb_len. destruct (le m); reflexivity. Qed.

Lemma starts_lb_app m x y : starts_lb m x = true -> starts_lb m (x ++ y) = true.
Proof.
  unfold starts_lb. destruct (le m), x as [|[] [|[] x]]; cbn; congruence.
Qed.

Lemma starts_lb_false_prefix m x y : starts_lb m (x ++ y) = false -> starts_lb m x = false.
Proof.
  intros H. destruct (starts_lb m x) eqn:E; [|reflexivity].
  rewrite (starts_lb_app m x y E) in H. discriminate.
Qed.

Lemma starts_lb_nil m : starts_lb m [] = false.
Proof. unfold starts_lb. destruct (le m); reflexivity. Qed.

Lemma blen_rev l : blen (rev l) = blen l.
Proof. induction l as [|c l IH]; [reflexivity|]. cbn [rev]. rewrite blen_app, IH. cbn [blen]. lia. Qed.

Lemma wf_lb_text m : wf_text (lb_text m).
Proof. unfold lb_text. destruct (le m); repeat constructor. Qed.

(** * Unit lists *)

Lemma ctext_app m a b : ctext m (a ++ b) = ctext m a ++ ctext m b.
Proof. apply flat_map_app. Qed.

Lemma ubytes_app m a b : ubytes m (a ++ b) = ubytes m a + ubytes m b.
Proof. unfold ubytes. rewrite ctext_app, blen_app. reflexivity. Qed.

Lemma ctext_cons m u r : ctext m (u :: r) = utext m u ++ ctext m r.
Proof. reflexivity. Qed.

Lemma wf_units_app_r m a b : wf_units m (a ++ b) -> wf_units m b.
Proof.
  induction a as [|[|c] a IH]; cbn [app wf_units]; intros H; [exact H|apply IH, H|apply IH, H].
Qed.

Lemma wf_units_app_l m a b : wf_units m (a ++ b) -> wf_units m a.
Proof.
  induction a as [|[|c] a IH]; cbn [app wf_units]; intros H; [exact I|apply IH, H|].
  destruct H as (Hc & Hs & Hr). repeat split; [exact Hc| |apply IH, Hr].
  rewrite ctext_app in Hs. change (c :: ctext m a ++ ctext m b) with ((c :: ctext m a) ++ ctext m b) in Hs.
  apply (starts_lb_false_prefix _ _ _ Hs).
Qed.

Lemma wf_units_firstn m k us : wf_units m us -> wf_units m (firstn k us).
Proof. intros H. rewrite <- (firstn_skipn k us) in H. apply (wf_units_app_l _ _ _ H). Qed.

Lemma wf_units_skipn m k us : wf_units m us -> wf_units m (skipn k us).
Proof. intros H. rewrite <- (firstn_skipn k us) in H. apply (wf_units_app_r _ _ _ H). Qed.

Lemma wf_units_wf_text m us : wf_units m us -> wf_text (ctext m us).
Proof.
  induction us as [|[|c] us IH]; cbn [wf_units]; intros H.
  - constructor.
  - rewrite ctext_cons. apply wf_text_app. split; [apply wf_lb_text|apply IH, H].
  - destruct H as (Hc & _ & Hr). rewrite ctext_cons. cbn [utext app]. constructor; [exact Hc|apply IH, Hr].
Qed.

Lemma ulen_pos m u : wf_units m [u] -> 1 <= blen (utext m u).
Proof.
  destruct u as [|c]; cbn [wf_units utext].
  - intros _. rewrite lb_text_blen. apply lb_len_pos.
  - intros (Hc & _). cbn [blen]. unfold wf_chr in Hc. lia.
Qed.

(** Greedy reading inverts concatenation. *)
Lemma units_ctext m us : wf_units m us -> units m (ctext m us) = us.
Proof.
  induction us as [|[|c] us IH]; cbn [wf_units]; intros H; [reflexivity| |].
  - rewrite ctext_cons. cbn [utext]. specialize (IH H).
    unfold lb_text, starts_lb. destruct (le m) eqn:E; cbn [app units]; unfold starts_lb; rewrite E;
      rewrite IH; reflexivity.
  - destruct H as (_ & Hs & Hr). rewrite ctext_cons. cbn [utext app units].
    rewrite Hs, (IH Hr). reflexivity.
Qed.

Lemma ctext_units m t : ctext m (units m t) = t.
Proof.
  remember (length t) as n eqn:Hn. revert t Hn.
  induction n as [n IH] using lt_wf_ind. intros t Hn.
  destruct t as [|c r]; [reflexivity|].
  cbn [units]. destruct (starts_lb m (c :: r)) eqn:E.
  - unfold starts_lb in E. unfold lb_text.
    destruct (le m) eqn:L, c; try discriminate.
    + rewrite ctext_cons. cbn [utext]. unfold lb_text. rewrite L. cbn [app]. f_equal.
      apply (IH (length r)); [subst n; cbn; lia|reflexivity].
    + rewrite ctext_cons. cbn [utext]. unfold lb_text. rewrite L. cbn [app]. f_equal.
      apply (IH (length r)); [subst n; cbn; lia|reflexivity].
    + destruct r as [|[] r']; try discriminate.
      rewrite ctext_cons. cbn [utext]. unfold lb_text. rewrite L. cbn [app]. do 2 f_equal.
      apply (IH (length r')); [subst n; cbn; lia|reflexivity].
  - rewrite ctext_cons. cbn [utext app]. f_equal.
    apply (IH (length r)); [subst n; cbn; lia|reflexivity].
Qed.

Lemma wf_units_units m t : wf_text t -> wf_units m (units m t).
Proof.
  remember (length t) as n eqn:Hn. revert t Hn.
  induction n as [n IH] using lt_wf_ind. intros t Hn Hwf.
  destruct t as [|c r]; [exact I|].
  inversion Hwf as [|? ? Hc Hr]; subst.
  cbn [units]. destruct (starts_lb m (c :: r)) eqn:E.
  - cbn [wf_units]. destruct (le m) eqn:L; try (apply (IH (length r)); [cbn; lia|reflexivity|exact Hr]).
    destruct r as [|c' r']; [apply (IH 0); [cbn; lia|reflexivity|constructor]|].
    inversion Hr; subst. apply (IH (length r')); [cbn; lia|reflexivity|assumption].
  - cbn [wf_units]. repeat split; [exact Hc| |apply (IH (length r)); [cbn; lia|reflexivity|exact Hr]].
    rewrite ctext_units. exact E.
Qed.

Lemma pos_eta p : mkpos (byte p) (line p) (col p) = p.
Proof. destruct p; reflexivity. Qed.

(** * The canonical position advances unit by unit *)

Definition adv (m : metrics) (p : pos) (u : unit) : pos :=
  match u with ULb => nl_pos m p | UCh c => step_pure m p c end.

Lemma breaks_app a b : breaks (a ++ b) = breaks a + breaks b.
Proof. unfold breaks. rewrite filter_app, app_length. reflexivity. Qed.

Lemma last_line_snoc us u :
  last_line (us ++ [u]) = match u with ULb => [] | UCh c => last_line us ++ [c] end.
Proof. unfold last_line. rewrite fold_left_app. reflexivity. Qed.

Lemma width_from_snoc tw c0 l c : width_from tw c0 (l ++ [c]) = width_step tw (width_from tw c0 l) c.
Proof. unfold width_from. rewrite fold_left_app. reflexivity. Qed.

Lemma canon_snoc m p0 us u : canon_from m p0 (us ++ [u]) = adv m (canon_from m p0 us) u.
Proof.
  unfold canon_from. rewrite ubytes_app, breaks_app, last_line_snoc.
  destruct u as [|c]; cbn [adv].
  - unfold nl_pos; cbn [byte line col]. unfold ubytes at 2; cbn [ctext flat_map utext].
    rewrite app_nil_r, lb_text_blen. cbn [breaks filter is_lb length].
    replace (breaks us + 1 =? 0) with false by (symmetry; apply Nat.eqb_neq; lia).
    f_equal; lia.
  - rewrite width_from_snoc. unfold ubytes at 2; cbn [ctext flat_map utext app blen breaks filter is_lb length].
    rewrite !Nat.add_0_r.
    unfold step_pure, width_step; cbn [byte line col]. destruct c; cbn [clen cwidth]; f_equal; lia.
Qed.

Lemma canon_from_fold m p0 pre x :
  fold_left (adv m) x (canon_from m p0 pre) = canon_from m p0 (pre ++ x).
Proof.
  revert pre; induction x as [|u r IH]; intros pre; cbn [fold_left]; [rewrite app_nil_r; reflexivity|].
  rewrite <- canon_snoc, IH, <- app_assoc. reflexivity.
Qed.

Lemma canon_from_zero m us : canon_from m pos_zero us = canon_u m us.
Proof.
  unfold canon_from, canon_u, width. cbn [pos_zero byte line col Nat.add].
  destruct (breaks us =? 0); reflexivity.
Qed.

Lemma Pf_zero m us k : Pf m pos_zero us k = P m us k.
Proof. apply canon_from_zero. Qed.

Lemma Pf_0 m p0 us : Pf m p0 us 0 = p0.
Proof.
  unfold Pf, canon_from. cbn [firstn ubytes ctext flat_map blen breaks filter length last_line fold_left Nat.eqb width_from].
  rewrite !Nat.add_0_r. apply pos_eta.
Qed.

Lemma Pf_S m p0 us k u : nth_error us k = Some u -> Pf m p0 us (S k) = adv m (Pf m p0 us k) u.
Proof. intros H. unfold Pf. rewrite (firstn_snoc_nth k us u H). apply canon_snoc. Qed.

Lemma Pf_byte m p0 us k : byte (Pf m p0 us k) = byte p0 + ubytes m (firstn k us).
Proof. reflexivity. Qed.

Lemma Pf_line m p0 us k : line (Pf m p0 us k) = line p0 + breaks (firstn k us).
Proof. reflexivity. Qed.

Lemma Pf_byte_mono m p0 us j k : wf_units m us -> j < k -> k <= length us ->
  byte (Pf m p0 us j) < byte (Pf m p0 us k).
Proof.
  intros Hwf Hjk Hk. rewrite !Pf_byte.
  replace (firstn k us) with (firstn j us ++ firstn (k - j) (skipn j us)).
  2:{ rewrite <- (firstn_skipn j (firstn k us)). rewrite firstn_firstn, Nat.min_l by lia.
      f_equal. rewrite firstn_skipn_comm. replace (j + (k - j)) with k by lia. reflexivity. }
  rewrite ubytes_app.
  assert (Hs := wf_units_skipn m j us Hwf).
  destruct (skipn j us) as [|u r] eqn:E.
  - assert (length (skipn j us) = 0) by (rewrite E; reflexivity). rewrite skipn_length in H. lia.
  - destruct (k - j) as [|d] eqn:D; [lia|]. cbn [firstn].
    change (u :: firstn d r) with ([u] ++ firstn d r). rewrite ubytes_app.
    assert (1 <= ubytes m [u]).
    { unfold ubytes. cbn [ctext flat_map]. rewrite app_nil_r. apply ulen_pos.
      change [u] with (firstn 1 (u :: r)). apply wf_units_firstn, Hs. }
    lia.
Qed.

Lemma P_byte_mono m us j k : wf_units m us -> j < k -> k <= length us ->
  byte (P m us j) < byte (P m us k).
Proof. rewrite <- !Pf_zero. apply Pf_byte_mono. Qed.

(** * Line structure of unit lists *)

  Lemma lsk_le us : lsk us <= length us.
  Proof. unfold lsk. lia. Qed.

  Lemma lsk_snoc_lb us : lsk (us ++ [ULb]) = length us + 1.
  Proof. unfold lsk. rewrite rev_app_distr, app_length. cbn. lia. Qed.

  Lemma lsk_snoc_ch us c : lsk (us ++ [UCh c]) = lsk us.
  Proof. unfold lsk. rewrite rev_app_distr, app_length. cbn [rev app run_len length]. lia. Qed.

  Lemma lsk_facts pre :
    breaks (firstn (lsk pre) pre) = breaks pre /\ last_line (firstn (lsk pre) pre) = [].
  Proof.
    induction pre as [|u pre IH] using rev_ind; [split; reflexivity|].
    destruct u as [|c].
    - rewrite lsk_snoc_lb, firstn_all2 by (rewrite app_length; cbn; lia).
      split; [reflexivity|apply last_line_snoc].
    - rewrite lsk_snoc_ch, firstn_app.
      replace (lsk pre - length pre) with 0 by (pose proof (lsk_le pre); lia).
      cbn [firstn]. rewrite app_nil_r, breaks_app. cbn [breaks filter is_lb length].
      destruct IH as [IH1 IH2]. split; [unfold breaks in *; lia|exact IH2].
  Qed.

  Lemma firstn_firstn_le {A} (j k : nat) (l : list A) : j <= k -> firstn j (firstn k l) = firstn j l.
  Proof. intros H. rewrite firstn_firstn, Nat.min_l by lia. reflexivity. Qed.


Lemma line_start_k_le us k : line_start_k us k <= k.
Proof. unfold line_start_k. pose proof (lsk_le (firstn k us)). rewrite firstn_length in H. lia. Qed.

Lemma units_length_le m us : length us <= length (ctext m us).
Proof.
  induction us as [|u r IH]; [cbn; lia|].
  rewrite ctext_cons, app_length. cbn [length].
  assert (1 <= length (utext m u)).
  { destruct u; cbn [utext]; [rewrite lb_text_length; apply lb_len_pos|cbn; lia]. }
  lia.
Qed.

(** * The implementation on a well-formed unit list *)

Set Default Proof Using "All".

Section Impl.
  Variable m : metrics.
  Hypothesis Htab : 1 <= tabw m.

  Lemma step_ok p c : step m p c = Ok (step_pure m p c).
  Proof. unfold step. destruct c; try reflexivity. destruct (Nat.eqb_spec (tabw m) 0); [lia|reflexivity]. Qed.

  Lemma next_suf_units suf p : wf_units m suf ->
    next_suf m (ctext m suf) p =
    Ok (match suf with [] => None | u :: r => Some (adv m p u, ctext m r) end).
  Proof.
    destruct suf as [|[|c] r]; cbn [wf_units]; intros H.
    - unfold next_suf. cbn [ctext flat_map]. rewrite starts_lb_nil. reflexivity.
    - unfold next_suf. rewrite ctext_cons. cbn [utext].
      rewrite starts_lb_lb_text, skipn_lb_text. reflexivity.
    - destruct H as (_ & Hs & _). unfold next_suf. rewrite ctext_cons. cbn [utext app].
      rewrite Hs, step_ok. reflexivity.
  Qed.

  Lemma unit_of_units u r : wf_units m (u :: r) -> unit_of m (ctext m (u :: r)) = utext m u.
  Proof.
    destruct u as [|c]; cbn [wf_units]; intros H; unfold unit_of; rewrite ctext_cons; cbn [utext].
    - rewrite starts_lb_lb_text, firstn_lb_text. reflexivity.
    - destruct H as (_ & Hs & _). cbn [app]. rewrite Hs. reflexivity.
  Qed.

  Lemma le_scan_lb s p : starts_lb m s = true -> le_scan m s p = Ok p.
  Proof. destruct s as [|c r]; intros H; [reflexivity|]. cbn [le_scan]. rewrite H. reflexivity. Qed.

  Lemma le_scan_units suf p : wf_units m suf ->
    le_scan m (ctext m suf) p = Ok (fold_left (adv m) (firstn (run_len suf) suf) p).
  Proof.
    revert p; induction suf as [|[|c] r IH]; intros p; cbn [wf_units]; intros H.
    - reflexivity.
    - rewrite ctext_cons. cbn [utext]. rewrite le_scan_lb by apply starts_lb_lb_text. reflexivity.
    - destruct H as (_ & Hs & Hr). rewrite ctext_cons. cbn [utext app le_scan].
      rewrite Hs, step_ok. cbn [bind]. rewrite (IH _ Hr). reflexivity.
  Qed.

  Lemma end_scan_units suf p : wf_units m suf ->
    end_scan m (ctext m suf) p = Ok (fold_left (adv m) suf p).
  Proof.
    revert p; induction suf as [|[|c] r IH]; intros p; cbn [wf_units]; intros H.
    - reflexivity.
    - rewrite ctext_cons. cbn [utext fold_left adv].
      assert (E : end_scan m (lb_text m ++ ctext m r) p = end_scan m (ctext m r) (nl_pos m p)).
      { unfold lb_text. destruct (le m) eqn:L; cbn [app end_scan]; unfold starts_lb; rewrite L; reflexivity. }
      rewrite E. apply (IH _ H).
    - destruct H as (_ & Hs & Hr). rewrite ctext_cons. cbn [utext app end_scan].
      rewrite Hs, step_ok. cbn [bind]. apply (IH _ Hr).
  Qed.
End Impl.

Section ImplBack.
  Variable m : metrics.

  (** The backwards scan finds the unit boundary after the last line ending. *)
  Lemma ls_scan_units pre suf : wf_units m (pre ++ suf) ->
    ls_scan m (rev (ctext m pre)) (ctext m suf) = ubytes m (firstn (lsk pre) pre).
  Proof.
    revert suf; induction pre as [|u pre IH] using rev_ind; intros suf H.
    - reflexivity.
    - rewrite <- app_assoc in H. cbn [app] in H.
      assert (Hu : wf_units m (u :: suf)) by apply (wf_units_app_r _ _ _ H).
      rewrite ctext_app, rev_app_distr. unfold ctext at 1. cbn [flat_map]. rewrite app_nil_r.
      destruct u as [|c].
      + rewrite lsk_snoc_lb. rewrite firstn_all2 by (rewrite app_length; cbn; lia).
        rewrite ubytes_app. unfold ubytes at 2. cbn [ctext flat_map utext]. rewrite app_nil_r, lb_text_blen.
        unfold ubytes. rewrite <- (blen_rev (ctext m pre)).
        unfold lb_text, lb_len. destruct (le m) eqn:L; cbn [rev app ls_scan]; unfold starts_lb, lb_len;
          rewrite L; cbn [ls_scan]; unfold starts_lb, lb_len; rewrite ?L; reflexivity.
      + rewrite lsk_snoc_ch. rewrite firstn_app.
        replace (lsk pre - length pre) with 0 by (pose proof (lsk_le pre); lia).
        cbn [firstn utext rev app ls_scan]. rewrite app_nil_r.
        cbn [wf_units] in Hu. destruct Hu as (_ & Hs & _). rewrite Hs.
        apply (IH (UCh c :: suf) H).
  Qed.

  (** Does the prefix end with a line ending? *)
  Lemma ends_lb_units pre u suf : wf_units m (pre ++ u :: suf) ->
    ends_lb m (rev (ctext m (pre ++ [u]))) = is_lb u.
  Proof.
    intros H. rewrite ctext_app, rev_app_distr. unfold ctext at 1. cbn [flat_map]. rewrite app_nil_r.
    assert (Hu : wf_units m (u :: suf)) by apply (wf_units_app_r _ _ _ H).
    destruct u as [|c]; cbn [is_lb utext].
    - unfold ends_lb, lb_text. destruct (le m); reflexivity.
    - cbn [rev app]. cbn [wf_units] in Hu. destruct Hu as (_ & Hs & _).
      unfold ends_lb. unfold starts_lb in Hs.
      destruct (le m) eqn:L.
      + destruct c; try reflexivity. discriminate.
      + destruct c; try reflexivity. discriminate.
      + destruct c; try reflexivity.
        (* c = Lf under CRLF: the previous character cannot be a CR *)
        destruct pre as [|u' pre'] using rev_ind; [reflexivity|].
        rewrite ctext_app, rev_app_distr. unfold ctext at 1. cbn [flat_map]. rewrite app_nil_r.
        rewrite <- app_assoc in H. cbn [app] in H.
        assert (Hu' : wf_units m (u' :: UCh Lf :: suf)) by apply (wf_units_app_r _ _ _ H).
        destruct u' as [|c']; cbn [utext].
        * unfold lb_text. rewrite L. reflexivity.
        * cbn [rev app]. destruct c'; try reflexivity.
          cbn [wf_units] in Hu'. destruct Hu' as (_ & Hs' & _).
          rewrite ctext_cons in Hs'. cbn [utext app] in Hs'. unfold starts_lb in Hs'. rewrite L in Hs'.
          discriminate.
  Qed.
End ImplBack.

(** * Navigation from the k-th canonical position *)

Lemma firstn_add {A} (k j : nat) (l : list A) : firstn k l ++ firstn j (skipn k l) = firstn (k + j) l.
Proof.
  revert l; induction k as [|k IH]; intros l; [reflexivity|].
  destruct l as [|x l]; [rewrite firstn_nil; cbn; rewrite firstn_nil; reflexivity|].
  cbn [firstn skipn app Nat.add]. f_equal. apply IH.
Qed.

Fixpoint class_run (m : metrics) (f : chr -> bool) (suf : list unit) : nat :=
  match suf with
  | u :: r => if forallb f (utext m u) then S (class_run m f r) else 0
  | [] => 0
  end.

Section Nav.
  Variable m : metrics.
  Hypothesis Htab : 1 <= tabw m.
  Variable us : list unit.
  Hypothesis Hwf : wf_units m us.
  (** measurement starts at [p0]: byte 0 of the text, any line and column *)
  Variable p0 : pos.
  Hypothesis Hp0 : byte p0 = 0.
  Local Notation t := (ctext m us).
  Local Notation n := (length us).
  Local Notation Q := (Pf m p0 us).

  Lemma Q_byte k : byte (Q k) = ubytes m (firstn k us).
  Proof. rewrite Pf_byte, Hp0. reflexivity. Qed.

  Lemma Q_n_byte : byte (Q n) = blen t.
  Proof. rewrite Q_byte, firstn_all. reflexivity. Qed.

  Lemma split_P k : k <= n ->
    split_at t (byte (Q k)) = Some (ctext m (firstn k us), ctext m (skipn k us)).
  Proof.
    intros _. rewrite Q_byte. rewrite <- (firstn_skipn k us) at 1. rewrite ctext_app.
    apply split_at_app. apply wf_units_wf_text, wf_units_firstn, Hwf.
  Qed.

  Lemma split_before_P k : k <= n ->
    split_before t (byte (Q k)) = (ctext m (firstn k us), ctext m (skipn k us)).
  Proof.
    intros _. rewrite Q_byte. rewrite <- (firstn_skipn k us) at 1. rewrite ctext_app.
    apply split_before_app. apply wf_units_wf_text, wf_units_firstn, Hwf.
  Qed.

  Lemma skipn_nth k : k < n -> exists u, nth_error us k = Some u /\ skipn k us = u :: skipn (S k) us.
  Proof.
    intros Hk. destruct (nth_error us k) as [u|] eqn:E.
    - exists u. split; [reflexivity|apply skipn_cons_nth, E].
    - apply nth_error_None in E. lia.
  Qed.

  Theorem next_position_P k : k <= n ->
    next_position m t (Q k) = Ok (if k <? n then Some (Q (S k)) else None).
  Proof.
    intros Hk. unfold next_position. rewrite (split_P k Hk).
    rewrite (next_suf_units m Htab _ _ (wf_units_skipn m k us Hwf)).
    destruct (Nat.ltb_spec k n) as [Hlt|Hge].
    - destruct (skipn_nth k Hlt) as (u & Hn & Hs). rewrite Hs. cbn [bind option_map fst].
      rewrite (Pf_S m p0 us k u Hn). reflexivity.
    - rewrite skipn_all2 by lia. reflexivity.
  Qed.

  Theorem is_line_break_P k : k <= n ->
    is_line_break m t (byte (Q k)) =
    Ok (match nth_error us k with Some u => is_lb u | None => false end).
  Proof.
    intros Hk. unfold is_line_break. rewrite (split_P k Hk). f_equal.
    destruct (Nat.ltb_spec k n) as [Hlt|Hge].
    - destruct (skipn_nth k Hlt) as (u & Hn & Hs). rewrite Hs, Hn.
      assert (Hu := wf_units_skipn m k us Hwf). rewrite Hs in Hu.
      destruct u as [|c]; rewrite ctext_cons; cbn [utext is_lb].
      + apply starts_lb_lb_text.
      + cbn [wf_units] in Hu. destruct Hu as (_ & E & _). exact E.
    - rewrite skipn_all2 by lia. cbn. rewrite starts_lb_nil.
      destruct (nth_error us k) eqn:E; [|reflexivity].
      assert (k < length us) by (apply nth_error_Some; congruence). lia.
  Qed.

  Lemma Q_fold k x : fold_left (adv m) x (Q k) = canon_from m p0 (firstn k us ++ x).
  Proof. apply canon_from_fold. Qed.

  Theorem line_end_position_P k : k <= n ->
    line_end_position m t (Q k) = Ok (Q (line_end_k us k)).
  Proof.
    intros Hk. unfold line_end_position, line_end_k.
    destruct (Nat.leb_spec (blen t) (byte (Q k))) as [Hle|Hlt].
    - assert (k = n).
      { destruct (Nat.eq_dec k n) as [|Hne]; [assumption|].
        pose proof (Pf_byte_mono m p0 us k n Hwf ltac:(lia) ltac:(lia)). rewrite Q_n_byte in H. lia. }
      subst k. rewrite skipn_all2 by lia. cbn [run_len]. rewrite Nat.add_0_r. reflexivity.
    - rewrite (split_P k Hk).
      rewrite (le_scan_units m Htab _ _ (wf_units_skipn m k us Hwf)), Q_fold, firstn_add. reflexivity.
  Qed.

  (** line_start_position reads only the byte and the line of its argument; its column is
      0, which is the canonical column unless the line is the first line of a text that
      starts at a non-zero column. *)
  Lemma line_start_position_gen k q : k <= n -> byte q = byte (Q k) -> line q = line (Q k) ->
    line_start_position m t q = Ok (mkpos (byte (Q (line_start_k us k))) (line (Q k)) 0).
  Proof.
    intros Hk Hb Hl. unfold line_start_position. rewrite Hb, (split_before_P k Hk).
    rewrite (ls_scan_units m (firstn k us) (skipn k us)) by (rewrite firstn_skipn; exact Hwf).
    rewrite Hl, Q_byte. unfold line_start_k.
    pose proof (line_start_k_le us k) as Hle. unfold line_start_k in Hle.
    rewrite (firstn_firstn_le (lsk (firstn k us)) k us Hle). reflexivity.
  Qed.

  Definition first_line_ok (k : nat) : Prop := col p0 = 0 \/ 0 < line_start_k us k.

  Lemma line_start_canon k : k <= n -> first_line_ok k ->
    mkpos (byte (Q (line_start_k us k))) (line (Q k)) 0 = Q (line_start_k us k).
  Proof.
    intros Hk Hok.
    pose proof (line_start_k_le us k) as Hle.
    assert (EF : firstn (line_start_k us k) us = firstn (lsk (firstn k us)) (firstn k us)).
    { unfold line_start_k in *. symmetry. apply firstn_firstn_le. exact Hle. }
    destruct (lsk_facts (firstn k us)) as [E1 E2]. rewrite <- EF in E1, E2.
    unfold Pf, canon_from. cbn [byte line col]. rewrite E1, E2. cbn [width_from fold_left].
    f_equal.
    destruct (Nat.eqb_spec (breaks (firstn k us)) 0) as [Ez|]; [|reflexivity].
    destruct Hok as [H0|Hpos]; [symmetry; exact H0|].
    (* a line start after position 0 follows a line break *)
    exfalso. unfold line_start_k, lsk in Hpos.
    assert (G : forall l : list unit, breaks l = 0 -> run_len (rev l) = length l).
    { induction l as [|u l IH] using rev_ind; [reflexivity|].
      rewrite breaks_app, rev_app_distr, app_length. cbn [rev app length].
      destruct u as [|c]; cbn [breaks filter is_lb length run_len]; [lia|].
      intros Hb. rewrite IH by (unfold breaks in *; lia). lia. }
    rewrite (G _ Ez) in Hpos. lia.
  Qed.

  Theorem line_start_position_P k : k <= n -> first_line_ok k ->
    line_start_position m t (Q k) = Ok (Q (line_start_k us k)).
  Proof.
    intros Hk Hok. rewrite (line_start_position_gen k _ Hk eq_refl eq_refl).
    rewrite (line_start_canon k Hk Hok). reflexivity.
  Qed.

  Lemma walk_to_P fuel i k : i <= k -> k <= n -> k - i < fuel ->
    walk_to fuel m t (Q i) (byte (Q k)) = Ok (Q k).
  Proof.
    revert i; induction fuel as [|f IH]; intros i Hik Hk Hf; [lia|].
    cbn [walk_to]. destruct (Nat.leb_spec (byte (Q k)) (byte (Q i))) as [Hle|Hlt].
    - destruct (Nat.eq_dec i k) as [->|Hne]; [reflexivity|].
      pose proof (Pf_byte_mono m p0 us i k Hwf ltac:(lia) Hk). lia.
    - assert (i < k). { destruct (Nat.eq_dec i k) as [->|]; lia. }
      rewrite (next_position_P i ltac:(lia)). destruct (Nat.ltb_spec i n); [|lia].
      cbn [bind]. apply IH; lia.
  Qed.

  Lemma position_in_line_P k q : k <= n -> first_line_ok k ->
    byte q = byte (Q k) -> line q = line (Q k) ->
    position_in_line m t q = Ok (Q k).
  Proof.
    intros Hk Hok Hb Hl. unfold position_in_line. rewrite (line_start_position_gen k q Hk Hb Hl).
    cbn [bind]. rewrite (line_start_canon k Hk Hok), Hb.
    apply walk_to_P; [apply (line_start_k_le us k)|exact Hk|].
    pose proof (units_length_le m us). lia.
  Qed.

  Theorem end_position_P k : k <= n -> end_position m t (Q k) = Ok (Q n).
  Proof.
    intros Hk. unfold end_position.
    destruct (Nat.leb_spec (blen t) (byte (Q k))) as [Hle|Hlt].
    - destruct (Nat.eq_dec k n) as [->|Hne]; [reflexivity|].
      pose proof (Pf_byte_mono m p0 us k n Hwf ltac:(lia) ltac:(lia)).
      rewrite Q_n_byte in H. lia.
    - rewrite (split_P k Hk).
      rewrite (end_scan_units m Htab _ _ (wf_units_skipn m k us Hwf)), Q_fold, firstn_skipn.
      unfold Pf. rewrite firstn_all. reflexivity.
  Qed.

  Lemma line_end_k_le k : k <= n -> line_end_k us k <= n.
  Proof.
    intros Hk. unfold line_end_k.
    assert (forall l : list unit, run_len l <= length l) as Hr.
    { induction l as [|[|c] l IH]; cbn; lia. }
    specialize (Hr (skipn k us)). rewrite skipn_length in Hr. lia.
  Qed.

  Theorem next_line_start_position_P k : k <= n ->
    next_line_start_position m t (Q k) =
    Ok (if line_end_k us k <? n then Some (Q (S (line_end_k us k))) else None).
  Proof.
    intros Hk. unfold next_line_start_position.
    rewrite (line_end_position_P k Hk). cbn [bind].
    apply next_position_P. apply line_end_k_le, Hk.
  Qed.

  Lemma pacm_scan_units fuel f suf p : wf_units m suf -> length suf < fuel ->
    pacm_scan fuel m (ctext m suf) f p
    = Ok (fold_left (adv m) (firstn (class_run m f suf) suf) p).
  Proof.
    revert suf p; induction fuel as [|fu IH]; intros suf p Hs Hf; [lia|].
    cbn [pacm_scan]. rewrite (next_suf_units m Htab _ _ Hs).
    destruct suf as [|u r]; cbn [bind]; [reflexivity|].
    rewrite (unit_of_units m Htab u r Hs). cbn [class_run].
    destruct (forallb f (utext m u)); [|reflexivity].
    rewrite IH; [reflexivity| |cbn [length] in Hf; lia].
    change (u :: r) with ([u] ++ r) in Hs. apply (wf_units_app_r _ _ _ Hs).
  Qed.

  Lemma class_run_le f suf : class_run m f suf <= length suf.
  Proof. induction suf as [|u r IH]; cbn; [lia|]. destruct (forallb f (utext m u)); lia. Qed.

  Theorem position_after_chars_matching_P k f : k <= n ->
    position_after_chars_matching m t (Q k) f =
    Ok (match class_run m f (skipn k us) with 0 => None | j => Some (Q (k + j)) end).
  Proof.
    intros Hk. unfold position_after_chars_matching. rewrite (split_P k Hk).
    rewrite pacm_scan_units.
    2: apply wf_units_skipn, Hwf.
    2:{ pose proof (units_length_le m (skipn k us)). lia. }
    cbn [bind]. rewrite Q_fold, firstn_add. fold (Pf m p0 us (k + class_run m f (skipn k us))).
    pose proof (class_run_le f (skipn k us)) as Hle. rewrite skipn_length in Hle.
    destruct (class_run m f (skipn k us)) as [|j] eqn:E.
    - rewrite Nat.add_0_r. destruct (pos_eqb_spec (Q k) (Q k)); congruence.
    - destruct (pos_eqb_spec (Q (k + S j)) (Q k)) as [Eq|_]; [|reflexivity].
      pose proof (Pf_byte_mono m p0 us k (k + S j) Hwf ltac:(lia) ltac:(lia)).
      rewrite Eq in H. lia.
  Qed.

  Theorem next_position_after_chars_matching_P k f : k <= n ->
    next_position_after_chars_matching m t (Q k) f =
    Ok (match skipn k us with
        | u :: _ => if forallb f (utext m u) then Some (Q (S k)) else None
        | [] => None
        end).
  Proof.
    intros Hk. unfold next_position_after_chars_matching. rewrite (split_P k Hk).
    rewrite (next_suf_units m Htab _ _ (wf_units_skipn m k us Hwf)).
    destruct (skipn k us) as [|u r] eqn:E; cbn [bind]; [reflexivity|].
    assert (Hs := wf_units_skipn m k us Hwf). rewrite E in Hs.
    rewrite (unit_of_units m Htab u r Hs).
    assert (nth_error us k = Some u).
    { rewrite <- (Nat.add_0_r k), <- nth_error_skipn, E. reflexivity. }
    rewrite (Pf_S m p0 us k u H). reflexivity.
  Qed.

  (** position_after_str: the result is the canonical position after the pattern exactly when
      the pattern is the text of whole units starting at the base. *)
  Lemma pas_scan_units fuel suf pat p : wf_units m suf -> wf_text pat -> 0 < blen pat ->
    length suf < fuel ->
    exists r, pas_scan fuel m (ctext m suf) pat p = Ok r /\
      (forall q, r = Some q -> exists j, j <= length suf /\ ctext m (firstn j suf) = pat
                                          /\ q = fold_left (adv m) (firstn j suf) p) /\
      (forall j, j <= length suf -> ctext m (firstn j suf) = pat ->
                 r = Some (fold_left (adv m) (firstn j suf) p)).
  Proof.
    revert suf pat p; induction fuel as [|fu IH]; intros suf pat p Hs Hp Hb Hf; [lia|].
    cbn [pas_scan]. rewrite (next_suf_units m Htab _ _ Hs).
    destruct suf as [|u r]; cbn [bind].
    - exists None. repeat split; [discriminate|].
      intros j Hj E. rewrite firstn_nil in E. apply (f_equal blen) in E; cbn in E; lia.
    - rewrite (unit_of_units m Htab u r Hs).
      assert (Hr : wf_units m r) by (change (u :: r) with ([u] ++ r) in Hs; apply (wf_units_app_r _ _ _ Hs)).
      assert (Hu1 : wf_units m [u]) by (change [u] with (firstn 1 (u :: r)); apply wf_units_firstn, Hs).
      assert (Hwu : wf_text (utext m u)).
      { pose proof (wf_units_wf_text m [u] Hu1) as W. cbn [ctext flat_map] in W. rewrite app_nil_r in W. exact W. }
      assert (Hup : 1 <= blen (utext m u)) by apply (ulen_pos m u Hu1).
      destruct (split_at pat (blen (utext m u))) as [[pu pat']|] eqn:Es.
      + destruct (split_at_some _ _ _ _ Es) as [Epat Epu].
        destruct (text_eqb_spec pu (utext m u)) as [Eu|Ne].
        * subst pu. assert (Hp' : wf_text pat') by (rewrite Epat in Hp; apply wf_text_app in Hp; tauto).
          destruct (Nat.eqb_spec (blen pat') 0) as [Ez|Enz].
          -- assert (pat' = []).
             { destruct pat' as [|c p']; [reflexivity|]. inversion Hp'; subst. unfold wf_chr in *. cbn in Ez. lia. }
             subst pat'. rewrite app_nil_r in Epat.
             exists (Some (adv m p u)). split; [reflexivity|]. split.
             ++ intros q Hq. inversion Hq; subst q. exists 1. cbn [firstn length ctext flat_map fold_left].
                rewrite app_nil_r. repeat split; [lia|congruence].
             ++ intros j Hj E. destruct j as [|j]; [apply (f_equal blen) in E; cbn in E; lia|].
                cbn [firstn] in E. rewrite ctext_cons, Epat in E.
                assert (ctext m (firstn j r) = []).
                { apply (f_equal blen) in E. rewrite blen_app in E.
                  destruct (ctext m (firstn j r)) as [|c x] eqn:Ec; [reflexivity|].
                  cbn [blen] in E.
                  pose proof (wf_units_wf_text m (firstn j r) (wf_units_firstn m j r Hr)) as W.
                  rewrite Ec in W. inversion W; subst. unfold wf_chr in *. lia. }
                assert (firstn j r = []).
                { destruct (firstn j r) as [|u' r'] eqn:Ef; [reflexivity|].
                  rewrite ctext_cons in H.
                  assert (1 <= blen (utext m u')).
                  { apply ulen_pos. change [u'] with (firstn 1 (u' :: r')). apply wf_units_firstn.
                    rewrite <- Ef. apply wf_units_firstn, Hr. }
                  apply (f_equal blen) in H. rewrite blen_app in H. cbn in H. lia. }
                cbn [firstn]. rewrite H0. reflexivity.
          -- destruct (IH r pat' (adv m p u) Hr Hp' ltac:(lia) ltac:(cbn [length] in Hf; lia))
               as (res & Eres & Hsound & Hcompl).
             exists res. split; [exact Eres|]. split.
             ++ intros q Hq. destruct (Hsound q Hq) as (j & Hj & Ej & Eq).
                exists (S j). cbn [firstn length fold_left]. rewrite ctext_cons, Ej.
                repeat split; [lia|congruence|exact Eq].
             ++ intros j Hj E. destruct j as [|j]; [apply (f_equal blen) in E; cbn in E; lia|].
                cbn [firstn length fold_left] in *. rewrite ctext_cons, Epat in E.
                apply app_inv_head in E. apply (Hcompl j ltac:(lia) E).
        * exists None. repeat split; [discriminate|].
          intros j Hj E. destruct j as [|j]; [apply (f_equal blen) in E; cbn in E; lia|].
          cbn [firstn] in E. rewrite ctext_cons in E. exfalso. apply Ne.
          rewrite <- E in Es. rewrite (split_at_app _ _ Hwu) in Es. inversion Es. reflexivity.
      + exists None. repeat split; [discriminate|].
        intros j Hj E. destruct j as [|j]; [apply (f_equal blen) in E; cbn in E; lia|].
        cbn [firstn] in E. rewrite ctext_cons in E.
        rewrite <- E in Es. rewrite (split_at_app _ _ Hwu) in Es. discriminate.
  Qed.

  Theorem position_after_str_P k pat : k <= n -> wf_text pat ->
    exists r, position_after_str m t (Q k) pat = Ok r /\
      (forall q, r = Some q -> exists j, k + j <= n /\ ctext m (firstn j (skipn k us)) = pat
                                          /\ q = Q (k + j)) /\
      (forall j, k + j <= n -> ctext m (firstn j (skipn k us)) = pat -> r = Some (Q (k + j))).
  Proof.
    intros Hk Hp. unfold position_after_str.
    destruct (Nat.eqb_spec (blen pat) 0) as [Ez|Enz].
    - assert (pat = []).
      { destruct pat as [|c p']; [reflexivity|]. inversion Hp; subst. unfold wf_chr in *. cbn in Ez. lia. }
      subst pat. exists (Some (Q k)). split; [reflexivity|]. split.
      + intros q Hq. inversion Hq; subst. exists 0. rewrite Nat.add_0_r. repeat split; lia.
      + intros j Hj E.
        assert (firstn j (skipn k us) = []).
        { destruct (firstn j (skipn k us)) as [|u' r'] eqn:Ef; [reflexivity|].
          rewrite ctext_cons in E.
          assert (1 <= blen (utext m u')).
          { apply ulen_pos. change [u'] with (firstn 1 (u' :: r')). apply wf_units_firstn.
            rewrite <- Ef. apply wf_units_firstn, wf_units_skipn, Hwf. }
          apply (f_equal blen) in E. rewrite blen_app in E. cbn in E. lia. }
        assert (j = 0 \/ skipn k us = []) as [->|E0].
        { destruct j; [left; reflexivity|]. destruct (skipn k us); [right; reflexivity|discriminate]. }
        * rewrite Nat.add_0_r. reflexivity.
        * assert (length (skipn k us) = 0) by (rewrite E0; reflexivity).
          rewrite skipn_length in H0. replace (k + j) with k by lia. reflexivity.
    - rewrite (split_P k Hk).
      destruct (pas_scan_units (S (length (ctext m (skipn k us)))) (skipn k us) pat (Q k)
                  (wf_units_skipn m k us Hwf) Hp ltac:(lia)
                  ltac:(pose proof (units_length_le m (skipn k us)); lia))
        as (res & Eres & Hsound & Hcompl).
      exists res. split; [exact Eres|]. split.
      + intros q Hq. destruct (Hsound q Hq) as (j & Hj & Ej & Eq). exists j.
        rewrite skipn_length in Hj. rewrite Q_fold, firstn_add in Eq. repeat split; [lia|exact Ej|exact Eq].
      + intros j Hj E. rewrite (Hcompl j); [rewrite Q_fold, firstn_add; reflexivity| |exact E].
        rewrite skipn_length. lia.
  Qed.
End Nav.

(** Stepping back. Over an ordinary character the base's column is reduced by the width;
    over a tab or a line break the column is re-measured from the line start, i.e. as if the
    text started at column 0: the result is canonical w.r.t. [pz] = [p0] with column 0. *)
Definition zero_col (p : pos) : pos := mkpos (byte p) (line p) 0.

Lemma Pf_zero_col_byte m p0 us k : byte (Pf m (zero_col p0) us k) = byte (Pf m p0 us k).
Proof. reflexivity. Qed.
Lemma Pf_zero_col_line m p0 us k : line (Pf m (zero_col p0) us k) = line (Pf m p0 us k).
Proof. reflexivity. Qed.
Lemma Pf_zero_col_eq m p0 us k : col p0 = 0 \/ 0 < breaks (firstn k us) ->
  Pf m (zero_col p0) us k = Pf m p0 us k.
Proof.
  intros H. unfold Pf, canon_from, zero_col. cbn [byte line col].
  destruct (Nat.eqb_spec (breaks (firstn k us)) 0) as [E|E]; [|reflexivity].
  destruct H as [->|H]; [reflexivity|lia].
Qed.

Definition remeasured (u : unit) : bool :=
  match u with ULb | UCh Tab => true | _ => false end.

Section NavBack.
  Variable m : metrics.
  Hypothesis Htab : 1 <= tabw m.
  Variable us : list unit.
  Hypothesis Hwf : wf_units m us.
  Variable p0 : pos.
  Hypothesis Hp0 : byte p0 = 0.
  Local Notation t := (ctext m us).
  Local Notation n := (length us).
  Local Notation Q := (Pf m p0 us).
  Local Notation Z := (Pf m (zero_col p0) us).

  Theorem previous_position_gen k : k <= n ->
    previous_position m t (Q k) =
    Ok (match k with
        | 0 => None
        | S k' => Some (match nth_error us k' with
                        | Some u => if remeasured u then Z k' else Q k'
                        | None => Q k'
                        end)
        end).
  Proof.
    intros Hk. unfold previous_position. rewrite (split_P m Htab us Hwf p0 Hp0 k Hk).
    destruct k as [|k'].
    - cbn [firstn ctext flat_map rev]. unfold ends_lb. destruct (le m); reflexivity.
    - destruct (skipn_nth m Htab us Hwf p0 Hp0 k' ltac:(lia)) as (u & Hn & Hs).
      rewrite (firstn_snoc_nth k' us u Hn), Hn.
      assert (Hw : wf_units m (firstn k' us ++ u :: skipn (S k') us)).
      { rewrite <- Hs, firstn_skipn. exact Hwf. }
      rewrite (ends_lb_units m _ _ _ Hw).
      pose proof (Pf_S m p0 us k' u Hn) as HP.
      assert (Hz : byte (zero_col p0) = 0) by exact Hp0.
      destruct u as [|c]; cbn [is_lb remeasured].
      + cbn [adv] in HP. unfold nl_pos in HP.
        assert (Hl : line (Q (S k')) = line (Q k') + 1) by (rewrite HP; reflexivity).
        assert (Hb : byte (Q (S k')) = byte (Q k') + lb_len m) by (rewrite HP; reflexivity).
        rewrite Hl, sub_chk_ok by lia. cbn [bind].
        rewrite (position_in_line_P m Htab us Hwf (zero_col p0) Hz k');
          [reflexivity|lia|left; reflexivity
          |cbn [byte]; rewrite Pf_zero_col_byte; lia|cbn [line]; rewrite Pf_zero_col_line; lia].
      + rewrite ctext_app, rev_app_distr. unfold ctext at 1. cbn [flat_map utext rev app].
        cbn [adv] in HP.
        destruct c as [| | |l w i]; cbn [remeasured].
        * unfold step_pure in HP.
          assert (Hl : line (Q (S k')) = line (Q k')) by (rewrite HP; reflexivity).
          assert (Hb : byte (Q (S k')) = byte (Q k') + 1) by (rewrite HP; reflexivity).
          rewrite (position_in_line_P m Htab us Hwf (zero_col p0) Hz k');
            [reflexivity|lia|left; reflexivity
            |cbn [byte]; rewrite Pf_zero_col_byte; lia|cbn [line]; rewrite Pf_zero_col_line; lia].
        * rewrite HP. unfold step_pure. cbn [col line byte clen cwidth].
          rewrite sub_chk_ok by lia. cbn [bind]. do 2 f_equal.
          rewrite <- (pos_eta (Q k')) at 4. f_equal; lia.
        * rewrite HP. unfold step_pure. cbn [col line byte clen cwidth].
          rewrite sub_chk_ok by lia. cbn [bind]. do 2 f_equal.
          rewrite <- (pos_eta (Q k')) at 4. f_equal; lia.
        * rewrite HP. unfold step_pure. cbn [col line byte clen cwidth].
          rewrite sub_chk_ok by lia. cbn [bind]. do 2 f_equal.
          rewrite <- (pos_eta (Q k')) at 4. f_equal; lia.
  Qed.
End NavBack.

(** Backward measurement to the start, and the previous line's end, when measurement starts
    at column 0 (a whole document). *)
Section NavZeroCol.
  Variable m : metrics.
  Hypothesis Htab : 1 <= tabw m.
  Variable us : list unit.
  Hypothesis Hwf : wf_units m us.
  Variable p0 : pos.
  Hypothesis Hp0 : byte p0 = 0.
  Hypothesis Hc0 : col p0 = 0.
  Local Notation t := (ctext m us).
  Local Notation n := (length us).
  Local Notation Q := (Pf m p0 us).

  Lemma prev_P k : k <= n ->
    previous_position m t (Q k) = Ok (match k with 0 => None | S k' => Some (Q k') end).
  Proof.
    intros Hk. rewrite (previous_position_gen m Htab us Hwf p0 Hp0 k Hk).
    destruct k as [|k']; [reflexivity|]. do 2 f_equal.
    rewrite (Pf_zero_col_eq m p0 us k' (or_introl Hc0)).
    destruct (nth_error us k') as [u|]; [destruct (remeasured u)|]; reflexivity.
  Qed.

  Lemma start_loop_P fuel k : k <= n -> k < fuel -> start_loop fuel m t (Q k) = Ok (Q 0).
  Proof.
    revert k; induction fuel as [|f IH]; intros k Hk Hf; [lia|].
    cbn [start_loop]. destruct k as [|k'].
    - rewrite Pf_0, Hp0. reflexivity.
    - pose proof (Pf_byte_mono m p0 us 0 (S k') Hwf ltac:(lia) Hk) as Hm.
      destruct (Nat.eqb_spec (byte (Q (S k'))) 0) as [E|_]; [lia|].
      rewrite (prev_P (S k') Hk). cbn [bind]. apply IH; lia.
  Qed.

  Theorem start_position_P k : k <= n -> start_position m t (Q k) = Ok (Q 0).
  Proof.
    intros Hk. unfold start_position. apply start_loop_P; [exact Hk|].
    pose proof (units_length_le m us). lia.
  Qed.

  Theorem previous_line_end_position_P k : k <= n ->
    previous_line_end_position m t (Q k) =
    Ok (match line_start_k us k with 0 => None | S j => Some (Q j) end).
  Proof.
    intros Hk. unfold previous_line_end_position.
    rewrite (line_start_position_P m Htab us Hwf p0 Hp0 k Hk (or_introl Hc0)). cbn [bind].
    apply prev_P. pose proof (line_start_k_le us k). lia.
  Qed.
End NavZeroCol.

(** * Text-level statements (what properties/C19.v cites) *)

Definition nunits (m : metrics) (t : text) : nat := length (units m t).
(** the k-th canonical position of a text *)
Definition cpos (m : metrics) (t : text) (k : nat) : pos := Pf m pos_zero (units m t) k.

(** ... which is the declarative triple of MetricsSpec: bytes, line endings, display width. *)
Lemma cpos_decl m t k : cpos m t k = canon_u m (firstn k (units m t)).
Proof. apply canon_from_zero. Qed.

Section TextLevel.
  Variable m : metrics.
  Variable t : text.
  Hypothesis Htab : 1 <= tabw m.
  Hypothesis Ht : wf_text t.
  Let us := units m t.
  Let Hwf : wf_units m us := wf_units_units m t Ht.
  Let Et : ctext m us = t := ctext_units m t.

  Let Hz : byte pos_zero = 0 := eq_refl.
  Let Hc : col pos_zero = 0 := eq_refl.

  Ltac via L := let H := fresh in pose proof L as H; rewrite Et in H; exact H.

  Lemma canon_chain : forall p q, Canon m t p -> Canon m t q -> byte p = byte q -> p = q.
  Proof.
    intros p q (j & Hj & ->) (k & Hk & ->) E. rewrite <- !Pf_zero in *.
    destruct (Nat.lt_trichotomy j k) as [H|[->|H]]; [|reflexivity|].
    - pose proof (Pf_byte_mono m pos_zero (units m t) j k Hwf H Hk). lia.
    - pose proof (Pf_byte_mono m pos_zero (units m t) k j Hwf H Hj). lia.
  Qed.

  Lemma t_next k : k <= nunits m t ->
    next_position m t (cpos m t k) = Ok (if k <? nunits m t then Some (cpos m t (S k)) else None).
  Proof. intros Hk. via (next_position_P m Htab us Hwf pos_zero Hz k Hk). Qed.

  Lemma t_prev k : k <= nunits m t ->
    previous_position m t (cpos m t k) = Ok (match k with 0 => None | S j => Some (cpos m t j) end).
  Proof. intros Hk. via (prev_P m Htab us Hwf pos_zero Hz Hc k Hk). Qed.

  Lemma t_next_prev k : k < nunits m t ->
    next_position m t (cpos m t k) = Ok (Some (cpos m t (S k))) /\
    previous_position m t (cpos m t (S k)) = Ok (Some (cpos m t k)).
  Proof.
    intros Hk. split.
    - rewrite t_next by lia. destruct (Nat.ltb_spec k (nunits m t)); [reflexivity|lia].
    - rewrite t_prev by lia. reflexivity.
  Qed.

  Lemma t_prev_next k : 0 < k -> k <= nunits m t ->
    previous_position m t (cpos m t k) = Ok (Some (cpos m t (k - 1))) /\
    next_position m t (cpos m t (k - 1)) = Ok (Some (cpos m t k)).
  Proof.
    intros H0 Hk. destruct k as [|j]; [lia|]. replace (S j - 1) with j by lia. split.
    - rewrite t_prev by lia. reflexivity.
    - rewrite t_next by lia. destruct (Nat.ltb_spec j (nunits m t)); [reflexivity|lia].
  Qed.

  Lemma t_line_bounds k : k <= nunits m t ->
    line_start_position m t (cpos m t k) = Ok (cpos m t (line_start_k us k)) /\
    line_end_position m t (cpos m t k) = Ok (cpos m t (line_end_k us k)) /\
    next_line_start_position m t (cpos m t k) =
      Ok (if line_end_k us k <? nunits m t then Some (cpos m t (S (line_end_k us k))) else None) /\
    previous_line_end_position m t (cpos m t k) =
      Ok (match line_start_k us k with 0 => None | S j => Some (cpos m t j) end) /\
    is_line_break m t (byte (cpos m t k)) =
      Ok (match nth_error us k with Some u => is_lb u | None => false end).
  Proof.
    intros Hk. repeat split.
    - via (line_start_position_P m Htab us Hwf pos_zero Hz k Hk (or_introl Hc)).
    - via (line_end_position_P m Htab us Hwf pos_zero Hz k Hk).
    - via (next_line_start_position_P m Htab us Hwf pos_zero Hz k Hk).
    - via (previous_line_end_position_P m Htab us Hwf pos_zero Hz Hc k Hk).
    - via (is_line_break_P m Htab us Hwf pos_zero Hz k Hk).
  Qed.

  Lemma t_start_end k : k <= nunits m t ->
    start_position m t (cpos m t k) = Ok (cpos m t 0) /\
    end_position m t (cpos m t k) = Ok (cpos m t (nunits m t)).
  Proof.
    intros Hk. split.
    - via (start_position_P m Htab us Hwf pos_zero Hz Hc k Hk).
    - via (end_position_P m Htab us Hwf pos_zero Hz k Hk).
  Qed.

  Lemma t_after_str k pat : k <= nunits m t -> wf_text pat ->
    exists r, position_after_str m t (cpos m t k) pat = Ok r /\
      (forall q, r = Some q -> exists j, k + j <= nunits m t /\ ctext m (firstn j (skipn k us)) = pat
                                          /\ q = cpos m t (k + j)) /\
      (forall j, k + j <= nunits m t -> ctext m (firstn j (skipn k us)) = pat ->
                 r = Some (cpos m t (k + j))).
  Proof. intros Hk Hp. via (position_after_str_P m Htab us Hwf pos_zero Hz k pat Hk Hp). Qed.

  Lemma t_chars_matching k f : k <= nunits m t ->
    position_after_chars_matching m t (cpos m t k) f =
      Ok (match class_run m f (skipn k us) with 0 => None | j => Some (cpos m t (k + j)) end) /\
    next_position_after_chars_matching m t (cpos m t k) f =
      Ok (match skipn k us with
          | u :: _ => if forallb f (utext m u) then Some (cpos m t (S k)) else None
          | [] => None
          end).
  Proof.
    intros Hk. split.
    - via (position_after_chars_matching_P m Htab us Hwf pos_zero Hz k f Hk).
    - via (next_position_after_chars_matching_P m Htab us Hwf pos_zero Hz k f Hk).
  Qed.
End TextLevel.

(** The declarative reading of the line functions' indices. *)
Lemma line_end_k_spec us k : k <= length us ->
  let e := line_end_k us k in
  k <= e <= length us /\ (forall i, k <= i < e -> exists c, nth_error us i = Some (UCh c))
  /\ (e < length us -> nth_error us e = Some ULb).
Proof.
  intros Hk. unfold line_end_k.
  assert (G : forall l : list unit, run_len l <= length l
              /\ (forall i, i < run_len l -> exists c, nth_error l i = Some (UCh c))
              /\ (run_len l < length l -> nth_error l (run_len l) = Some ULb)).
  { induction l as [|[|c] l IH]; cbn [run_len length].
    - split; [lia|split; intros; lia].
    - split; [lia|split; [intros; lia|reflexivity]].
    - destruct IH as (I1 & I2 & I3). split; [lia|split].
      + intros [|i] Hi; [exists c; reflexivity|]. cbn [nth_error]. apply I2. lia.
      + intros Hlt. cbn [nth_error]. apply I3. lia. }
  destruct (G (skipn k us)) as (G1 & G2 & G3). rewrite skipn_length in *. cbn zeta.
  split; [lia|split].
  - intros i Hi. destruct (G2 (i - k) ltac:(lia)) as (c & Hc). exists c.
    rewrite nth_error_skipn in Hc. replace (k + (i - k)) with i in Hc by lia. exact Hc.
  - intros Hlt. rewrite <- (nth_error_skipn k). apply G3. lia.
Qed.
