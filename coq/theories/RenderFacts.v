(** C16: facts about the plain rendering model.
    - gutter: every line number up to the display's end line prints within the gutter width, so
      the separator stands in one column on every row;
    - source rows: the rows of a display show exactly the line pieces of its (widened) span, once
      each, in order, verbatim, labelled with their line numbers;
    - single-line marks: start column, display width, at least one mark;
    - risers: over any sequence of rows the riser column of a multi-line highlight is a block of
      non-bars, then a contiguous block of bars, then blanks - and bars are printed exactly while
      the highlight is between its start mark and its end mark. *)
From Tephra Require Import Render.

(** * Gutter *)

Lemma digits_aux_ge f k n : k <= digits_aux f k n.
Proof. revert k; induction f as [|f IH]; intros k; cbn [digits_aux]; [lia|]. destruct (n <? pow10 k); [lia|]. specialize (IH (S k)). lia. Qed.

Lemma digits_aux_mono f k n n' : n <= n' -> digits_aux f k n <= digits_aux f k n'.
Proof.
  revert k; induction f as [|f IH]; intros k Hle; cbn [digits_aux]; [lia|].
  destruct (Nat.ltb_spec n (pow10 k)), (Nat.ltb_spec n' (pow10 k)); try lia.
  - pose proof (digits_aux_ge f (S k) n'). lia.
  - apply IH. exact Hle.
Qed.

Lemma digits_mono n n' : n <= n' -> digits n <= digits n'.
Proof.
  intros Hle. unfold digits. destruct (Nat.eqb_spec n 0) as [->|Hn], (Nat.eqb_spec n' 0) as [->|Hn']; try lia.
  - pose proof (digits_aux_ge 20 1 n'). lia.
  - apply digits_aux_mono. exact Hle.
Qed.

(** printed width of the two gutter forms: [{:>w$}] pads to [w] but never truncates *)
Definition gutter_cell_width (c : ocell) : nat :=
  match c with
  | ONatR w n => Nat.max w (digits n)
  | ORep _ w => w
  | OS _ => 3            (* " | " *)
  | _ => 0
  end.
Definition cells_width (cs : list ocell) : nat := fold_right (fun c a => gutter_cell_width c + a) 0 cs.

Theorem gutter_aligned end_line l : l <= end_line ->
  cells_width (gutter_num (gutter_width end_line) l) = cells_width (gutter_empty (gutter_width end_line))
  /\ cells_width (gutter_empty (gutter_width end_line)) = gutter_width end_line + 3.
Proof.
  intros Hle. unfold gutter_num, gutter_empty, cells_width, gutter_width. cbn [fold_right gutter_cell_width].
  pose proof (digits_mono l end_line Hle). lia.
Qed.

(** * Source rows *)

Definition is_src (c : ocell) : bool := match c with OSrc _ | ONatR _ _ => true | _ => false end.

Lemma filter_app_nil {A} (p : A -> bool) a b : filter p a = [] -> filter p b = [] -> filter p (a ++ b) = [].
Proof. intros Ha Hb. rewrite filter_app, Ha, Hb. reflexivity. Qed.

Lemma riser_no_src h l st a : filter is_src (fst (riser h l st a)) = [].
Proof.
  unfold riser. destruct st; cbn [fst]; try reflexivity.
  destruct (l <? line (sstart (h_span h))); [reflexivity|].
  destruct (negb a && (col (sstart (h_span h)) =? 0)); reflexivity.
Qed.

Lemma risers_no_src : forall hls sts l act idx, filter is_src (fst (risers hls sts l act idx)) = [].
Proof.
  induction hls as [|h hr IH]; intros sts l act idx; cbn [risers]; [reflexivity|].
  destruct sts as [|s sr]; [reflexivity|].
  pose proof (riser_no_src h l s (match act with Some a => a =? idx | None => false end)) as H1.
  destruct (riser h l s _) as [c s']. specialize (IH sr l act (S idx)). destruct (risers hr sr l act (S idx)) as [cr sr'].
  cbn [fst] in *. apply filter_app_nil; assumption.
Qed.

Lemma message_row_no_src h l extra : filter is_src (message_row h l extra) = [].
Proof.
  unfold message_row.
  destruct ((line (sstart (h_span h)) =? l) && (line (send (h_span h)) =? l)).
  - destruct extra, (byte (sstart (h_span h)) =? byte (send (h_span h))); reflexivity.
  - destruct (line (sstart (h_span h)) =? l); [destruct extra; reflexivity|].
    destruct (line (send (h_span h)) =? l); [|reflexivity].
    destruct extra, (0 <? col (send (h_span h))); reflexivity.
Qed.

Lemma message_rows_no_src : forall hls all sts l gw extra idx,
  filter is_src (fst (message_rows hls all sts l gw extra idx)) = [].
Proof.
  induction hls as [|h hr IH]; intros all sts l gw extra idx; cbn [message_rows]; [reflexivity|].
  destruct (has_message_for_line h l); [|apply IH].
  pose proof (risers_no_src all sts l (Some idx) 0) as H1. destruct (risers all sts l (Some idx) 0) as [rc sts'].
  specialize (IH all sts' l gw extra (S idx)). destruct (message_rows hr all sts' l gw extra (S idx)) as [rest sts''].
  cbn [fst] in *. unfold gutter_empty. cbn [app filter is_src].
  apply filter_app_nil; [exact H1|]. apply filter_app_nil; [apply message_row_no_src|exact IH].
Qed.

(** the labelled source cells of a display body: for each line piece, in order, its line number
    right-aligned in the gutter and its text - nothing else is a source or label cell *)
Theorem line_rows_sources src : forall pieces hls sts gw cells,
  line_rows src pieces hls sts gw = Ok cells ->
  exists texts, Forall2 (fun sp w => clipped src sp = Ok w) pieces texts
    /\ filter is_src cells = flat_map (fun pw => [ONatR gw (line (sstart (fst pw))); OSrc (stext (snd pw))]) (combine pieces texts).
Proof.
  induction pieces as [|sp rest IH]; intros hls sts gw cells H; cbn [line_rows] in H.
  - injection H as <-. exists []. split; [constructor|reflexivity].
  - pose proof (risers_no_src hls sts (line (sstart sp)) None 0) as H1.
    destruct (risers hls sts (line (sstart sp)) None 0) as [rc sts1].
    destruct (clipped src sp) as [w| |] eqn:Ec; cbn [bind] in H; try discriminate.
    pose proof (message_rows_no_src hls hls sts1 (line (sstart sp)) gw (existsb is_multiline hls) 0) as H2.
    destruct (message_rows hls hls sts1 (line (sstart sp)) gw (existsb is_multiline hls) 0) as [mr sts2].
    destruct (line_rows src rest hls sts2 gw) as [more| |] eqn:Em; cbn [bind] in H; try discriminate.
    injection H as <-. destruct (IH hls sts2 gw more Em) as (texts & HF & Hfl).
    exists (w :: texts). split; [constructor; assumption|].
    cbn [combine flat_map fst snd app]. unfold gutter_num. cbn [app filter is_src]. f_equal.
    cbn [fst] in H1, H2. rewrite !filter_app, H1.
    destruct (existsb is_multiline hls); cbn [filter is_src app]; rewrite filter_app, H2; cbn [app]; f_equal; exact Hfl.
Qed.

(** * Marks of a single-line highlight *)

Theorem single_line_mark h l extra :
  line (sstart (h_span h)) = l -> line (send (h_span h)) = l ->
  byte (sstart (h_span h)) <> byte (send (h_span h)) ->
  message_row h l extra =
    (if extra then [OS " "] else [])
    ++ [ORep " " (col (sstart (h_span h)));
        ORep (underline_of (h_ty h)) (Nat.max (col (send (h_span h)) - col (sstart (h_span h))) 1);
        OS " "; OHl (h_msg h); ONl]
  /\ 1 <= Nat.max (col (send (h_span h)) - col (sstart (h_span h))) 1.
Proof.
  intros Ha Hb Hne. split; [|lia]. unfold message_row. rewrite Ha, Hb, Nat.eqb_refl. cbn [andb].
  destruct (Nat.eqb_spec (byte (sstart (h_span h))) (byte (send (h_span h)))); [contradiction|].
  destruct extra; reflexivity.
Qed.

Theorem empty_highlight_mark h l extra :
  line (sstart (h_span h)) = l -> line (send (h_span h)) = l ->
  byte (sstart (h_span h)) = byte (send (h_span h)) ->
  message_row h l extra =
    (if extra then [OS " "] else []) ++ [ORep " " (col (sstart (h_span h))); OS "\"; OS " "; OHl (h_msg h); ONl].
Proof.
  intros Ha Hb He. unfold message_row. rewrite Ha, Hb, Nat.eqb_refl, He, Nat.eqb_refl. cbn [andb].
  destruct extra; reflexivity.
Qed.

(** the start and end marks of a multi-line highlight: underscores up to the mark column *)
Theorem multi_line_marks h extra :
  line (sstart (h_span h)) <> line (send (h_span h)) ->
  message_row h (line (sstart (h_span h))) extra
    = (if extra then [OS "_"] else []) ++ [ORep "_" (col (sstart (h_span h))); OS "^"; ONl]
  /\ message_row h (line (send (h_span h))) extra
    = (if extra then [OS "_"] else [])
      ++ (if 0 <? col (send (h_span h)) then [ORep "_" (col (send (h_span h)) - 1)] else [])
      ++ [OS "^"; OS " "; OHl (h_msg h); ONl].
Proof.
  intros Hne. unfold message_row. split.
  - rewrite Nat.eqb_refl. destruct (Nat.eqb_spec (line (send (h_span h))) (line (sstart (h_span h)))); [congruence|].
    cbn [andb]. destruct extra; reflexivity.
  - destruct (Nat.eqb_spec (line (sstart (h_span h))) (line (send (h_span h)))); [contradiction|].
    rewrite Nat.eqb_refl. cbn [andb]. destruct extra, (0 <? col (send (h_span h))); reflexivity.
Qed.

(** * Risers *)

Definition bar (c : list ocell) : Prop := c = [OS "|"].
Definition blank (c : list ocell) : Prop := c = [OS " "].

(** the riser column of one highlight over a sequence of rows (line number, is-this-the-active-highlight) *)
Fixpoint riser_run (h : highlight) (rows : list (nat * bool)) (st : rstate) : list (list ocell) :=
  match rows with
  | [] => []
  | (l, a) :: r => let (c, st') := riser h l st a in c :: riser_run h r st'
  end.

(** bars are contiguous: non-bars, then bars, then blanks; a highlight that has started shows no
    non-bar before its bars, one that has ended shows only blanks *)
Theorem riser_contiguous h : forall rows st, st <> RUnused ->
  exists pre mid post, riser_run h rows st = pre ++ mid ++ post
    /\ Forall (fun c => ~ bar c) pre /\ Forall bar mid /\ Forall blank post
    /\ (st = RStarted -> pre = []) /\ (st = REnded -> pre = [] /\ mid = []).
Proof.
  induction rows as [|[l a] r IH]; intros st Hst.
  - exists [], [], []. repeat split; constructor.
  - cbn [riser_run]. destruct st; [contradiction| | |].
    + (* waiting: a non-bar, then whatever follows *)
      unfold riser.
      assert (Hnb : forall s, s = " " \/ s = "/" -> ~ bar [OS s]) by (intros s [->| ->] Hb; discriminate Hb).
      destruct (l <? line (sstart (h_span h))).
      * destruct (IH RWaiting ltac:(discriminate)) as (pre & mid & post & E & Hp & Hm & Hq & _ & _).
        exists ([OS " "] :: pre), mid, post. rewrite E. split; [reflexivity|].
        split; [constructor; [apply Hnb; left; reflexivity|exact Hp]|]. repeat split; try assumption; discriminate.
      * destruct (negb a && (col (sstart (h_span h)) =? 0)).
        -- destruct (IH RStarted ltac:(discriminate)) as (pre & mid & post & E & Hp & Hm & Hq & Hs & _).
           exists ([OS "/"] :: pre), mid, post. rewrite E. split; [reflexivity|].
           split; [constructor; [apply Hnb; right; reflexivity|exact Hp]|]. repeat split; try assumption; discriminate.
        -- destruct (IH (if a then RStarted else RWaiting) ltac:(destruct a; discriminate)) as (pre & mid & post & E & Hp & Hm & Hq & _ & _).
           exists ([OS " "] :: pre), mid, post. rewrite E. split; [reflexivity|].
           split; [constructor; [apply Hnb; left; reflexivity|exact Hp]|]. repeat split; try assumption; discriminate.
    + (* started: a bar *)
      unfold riser.
      destruct (a && (line (send (h_span h)) <=? l)).
      * destruct (IH REnded ltac:(discriminate)) as (pre & mid & post & E & Hp & Hm & Hq & _ & He).
        destruct (He eq_refl) as [-> ->]. exists [], [[OS "|"]], post. rewrite E. split; [reflexivity|].
        split; [constructor|]. split; [constructor; [reflexivity|constructor]|]. split; [exact Hq|]. split; [reflexivity|discriminate].
      * destruct (IH RStarted ltac:(discriminate)) as (pre & mid & post & E & Hp & Hm & Hq & Hs & _).
        rewrite (Hs eq_refl) in E. exists [], ([OS "|"] :: mid), post. rewrite E. split; [reflexivity|].
        split; [constructor|]. split; [constructor; [reflexivity|exact Hm]|]. split; [exact Hq|]. split; [reflexivity|discriminate].
    + (* ended: blanks only *)
      unfold riser. destruct (IH REnded ltac:(discriminate)) as (pre & mid & post & E & Hp & Hm & Hq & _ & He).
      destruct (He eq_refl) as [-> ->]. exists [], [], ([OS " "] :: post). rewrite E. split; [reflexivity|].
      split; [constructor|]. split; [constructor|]. split; [constructor; [reflexivity|exact Hq]|]. split; [reflexivity|]. intros _. split; reflexivity.
Qed.

(** when the bars start and end: a riser starts on the row that carries the highlight's start
    mark (the active row at or after its start line, or, for a start at column 0, the source row
    of the start line itself, shown as "/"), and ends with the row that carries its end mark *)
Theorem riser_transitions h l a :
  let ls := line (sstart (h_span h)) in let le_ := line (send (h_span h)) in
  (snd (riser h l RWaiting a) = RStarted <-> ls <= l /\ (a = true \/ col (sstart (h_span h)) = 0))
  /\ (snd (riser h l RStarted a) = REnded <-> a = true /\ le_ <= l)
  /\ fst (riser h l RStarted a) = [OS "|"]
  /\ fst (riser h l REnded a) = [OS " "] /\ snd (riser h l REnded a) = REnded
  /\ riser h l RUnused a = ([], RUnused).
Proof.
  cbv zeta. unfold riser. repeat split; try reflexivity.
  - destruct (Nat.ltb_spec l (line (sstart (h_span h)))) as [Hlt|Hge]; cbn [snd] in H; [discriminate|exact Hge].
  - destruct (Nat.ltb_spec l (line (sstart (h_span h)))) as [Hlt|Hge]; cbn [snd] in H; [discriminate|].
    destruct a; cbn [negb andb snd] in H; [left; reflexivity|].
    destruct (Nat.eqb_spec (col (sstart (h_span h))) 0); cbn [snd] in H; [right; assumption|discriminate].
  - intros [Hl [->|Hc]]; destruct (Nat.ltb_spec l (line (sstart (h_span h)))) as [Hlt|Hge]; try lia; cbn [negb andb snd]; try reflexivity.
    destruct a; cbn [negb andb snd]; [reflexivity|]. rewrite Hc. reflexivity.
  - cbn [snd] in H. destruct a; [reflexivity|discriminate].
  - cbn [snd] in H. destruct a; cbn [andb] in H; [|discriminate].
    destruct (Nat.leb_spec (line (send (h_span h))) l) as [Hle|Hgt]; [assumption|discriminate].
  - intros [-> Hl]. cbn [andb snd]. destruct (Nat.leb_spec (line (send (h_span h))) l) as [Hle|Hgt]; [reflexivity|lia].
Qed.
