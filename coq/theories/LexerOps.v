(** C05, derived lexer operations: next_if / next_if_eq, advance_to, advance_up_to on the
    deliverable stream. *)
From Tephra Require Import MetricsSpec MetricsFacts CLexer LexerFacts Run Peg RunCore.

(** the first deliverable token satisfying [p]: what precedes it, it, what follows *)
Fixpoint split_first (p : tok -> bool) (s : list entry) : option (list entry * entry * list entry) :=
  match s with
  | [] => None
  | x :: r =>
    if p (e_tok x) then Some ([], x, r)
    else match split_first p r with
         | Some (pre, y, q) => Some (x :: pre, y, q)
         | None => None
         end
  end.

Lemma split_first_spec p s : match split_first p s with
  | Some (pre, x, q) => s = pre ++ x :: q /\ Forall (fun y => p (e_tok y) = false) pre /\ p (e_tok x) = true
  | None => Forall (fun y => p (e_tok y) = false) s
  end.
Proof.
  induction s as [|x r IH]; cbn [split_first]; [constructor|].
  destruct (p (e_tok x)) eqn:E.
  - split; [reflexivity|]. split; [constructor|exact E].
  - destruct (split_first p r) as [[[pre y] q]|].
    + destruct IH as (-> & Hp & Hy). split; [reflexivity|]. split; [constructor; assumption|exact Hy].
    + constructor; assumption.
Qed.

Section Ops.
  Variable m : metrics.
  Hypothesis Htab : 1 <= tabw m.
  Variable t : text.
  Hypothesis Ht : wf_text t.
  Local Notation Inv := (Inv m t).

  (** next_if (hence next_if_eq): delivers the head iff the predicate accepts it; otherwise what
      remains deliverable is unchanged *)
  Theorem c_next_if_spec lx ys p : Inv lx ys ->
    match kept (c_filter lx) ys with
    | x :: s =>
      if p (e_tok x)
      then exists lx' ys', c_next_if lx p = Ok (Some (e_tok x), lx') /\ Inv lx' ys'
             /\ c_filter lx' = c_filter lx /\ kept (c_filter lx) ys' = s
      else exists lx' ys', c_next_if lx p = Ok (None, lx') /\ Inv lx' ys'
             /\ c_filter lx' = c_filter lx /\ kept (c_filter lx) ys' = x :: s
    | [] => exists lx' ys', c_next_if lx p = Ok (None, lx') /\ Inv lx' ys'
              /\ c_filter lx' = c_filter lx /\ kept (c_filter lx) ys' = []
    end.
  Proof using Htab Ht.
    intros HI. unfold c_next_if. destruct (kept (c_filter lx) ys) as [|x s] eqn:Hk.
    - destruct (peek_nil m Htab t Ht lx ys HI Hk) as (lx' & ys' & E & HI' & Hf & _ & Hk'). rewrite E. cbn [bind].
      exists lx', ys'. repeat (split; [first [reflexivity|assumption]|]). assumption.
    - destruct (peek_cons m Htab t Ht lx ys x s HI Hk) as (lx1 & ys1 & E & HI1 & Hf1 & _ & Hk1). rewrite E. cbn [bind].
      destruct (p (e_tok x)).
      + pose proof Hk1 as Hk1'. rewrite <- Hf1 in Hk1'.
        destruct (next_cons m Htab t Ht lx1 ys1 x s HI1 Hk1') as (lx2 & ys2 & E2 & HI2 & Hf2 & _ & Hk2 & _).
        exists lx2, ys2. split; [exact E2|]. split; [exact HI2|]. split; [congruence|]. rewrite <- Hf1. exact Hk2.
      + exists lx1, ys1. repeat (split; [first [reflexivity|assumption]|]). assumption.
  Qed.

  Theorem c_next_if_eq_is_next_if lx e : c_next_if_eq lx e = c_next_if lx (tok_eqb e).
  Proof. reflexivity. Qed.

  (** advance_to: consumes up to AND INCLUDING the first token satisfying [p] *)
  Theorem c_advance_to_spec p : forall s fuel lx ys, Inv lx ys -> kept (c_filter lx) ys = s -> length s < fuel ->
    match split_first p s with
    | Some (_, x, rest) =>
      exists lx' ys', c_advance_to fuel lx p = Ok (true, lx') /\ Inv lx' ys'
        /\ c_filter lx' = c_filter lx /\ kept (c_filter lx) ys' = rest
    | None => exists lx' ys', c_advance_to fuel lx p = Ok (false, lx') /\ Inv lx' ys'
        /\ c_filter lx' = c_filter lx /\ kept (c_filter lx) ys' = []
    end.
  Proof using Htab Ht.
    induction s as [|x r IH]; intros fuel lx ys HI Hk Hf; (destruct fuel as [|f]; [cbn in Hf; lia|]); cbn [c_advance_to split_first].
    - destruct (next_nil m Htab t Ht lx ys HI Hk) as (lx' & E & HI' & Hf' & _). rewrite E. cbn [bind].
      exists lx', []. repeat (split; [first [reflexivity|assumption]|]). reflexivity.
    - destruct (next_cons m Htab t Ht lx ys x r HI Hk) as (lx1 & ys1 & E & HI1 & Hf1 & _ & Hk1 & _). rewrite E. cbn [bind].
      destruct (p (e_tok x)).
      + exists lx1, ys1. repeat (split; [first [reflexivity|assumption]|]). assumption.
      + cbn [length] in Hf. assert (Hk1' : kept (c_filter lx1) ys1 = r) by (rewrite Hf1; exact Hk1).
        specialize (IH f lx1 ys1 HI1 Hk1' ltac:(lia)).
        destruct (split_first p r) as [[[pre y] q]|].
        * destruct IH as (lx' & ys' & E' & HI' & Hf' & Hk'). exists lx', ys'. split; [exact E'|]. split; [exact HI'|].
          split; [congruence|]. rewrite <- Hf1. exact Hk'.
        * destruct IH as (lx' & ys' & E' & HI' & Hf' & Hk'). exists lx', ys'. split; [exact E'|]. split; [exact HI'|].
          split; [congruence|]. rewrite <- Hf1. exact Hk'.
  Qed.

  (** advance_up_to: stops IN FRONT of the first token satisfying [p] *)
  Theorem c_advance_up_to_spec p : forall s fuel lx ys, Inv lx ys -> kept (c_filter lx) ys = s -> length s < fuel ->
    match split_first p s with
    | Some (_, x, rest) =>
      exists lx' ys', c_advance_up_to fuel lx p = Ok (true, lx') /\ Inv lx' ys'
        /\ c_filter lx' = c_filter lx /\ kept (c_filter lx) ys' = x :: rest
    | None => exists lx' ys', c_advance_up_to fuel lx p = Ok (false, lx') /\ Inv lx' ys'
        /\ c_filter lx' = c_filter lx /\ kept (c_filter lx) ys' = []
    end.
  Proof using Htab Ht.
    induction s as [|x r IH]; intros fuel lx ys HI Hk Hf; (destruct fuel as [|f]; [cbn in Hf; lia|]); cbn [c_advance_up_to split_first].
    - destruct (peek_nil m Htab t Ht lx ys HI Hk) as (lx' & ys' & E & HI' & Hf' & _ & Hk'). rewrite E. cbn [bind].
      exists lx', ys'. repeat (split; [first [reflexivity|assumption]|]). assumption.
    - destruct (peek_cons m Htab t Ht lx ys x r HI Hk) as (lx1 & ys1 & E & HI1 & Hf1 & _ & Hk1). rewrite E. cbn [bind].
      destruct (p (e_tok x)).
      + exists lx1, ys1. repeat (split; [first [reflexivity|assumption]|]). assumption.
      + pose proof Hk1 as Hk1'. rewrite <- Hf1 in Hk1'.
        destruct (next_cons m Htab t Ht lx1 ys1 x r HI1 Hk1') as (lx2 & ys2 & E2 & HI2 & Hf2 & _ & Hk2 & _). rewrite E2. cbn [bind snd].
        cbn [length] in Hf. assert (Hk2' : kept (c_filter lx2) ys2 = r) by (rewrite Hf2; exact Hk2).
        specialize (IH f lx2 ys2 HI2 Hk2' ltac:(lia)).
        destruct (split_first p r) as [[[pre y] q]|].
        * destruct IH as (lx' & ys' & E' & HI' & Hf' & Hk'). exists lx', ys'. split; [exact E'|]. split; [exact HI'|].
          split; [congruence|]. rewrite <- Hf1, <- Hf2. exact Hk'.
        * destruct IH as (lx' & ys' & E' & HI' & Hf' & Hk'). exists lx', ys'. split; [exact E'|]. split; [exact HI'|].
          split; [congruence|]. rewrite <- Hf1, <- Hf2. exact Hk'.
  Qed.
End Ops.

(** * The remaining observers: peek_parse_span, peek_cursor_pos, is_empty_with_filter *)
Section Observers.
  Variable m : metrics.
  Hypothesis Htab : 1 <= tabw m.
  Variable t : text.
  Hypothesis Ht : wf_text t.
  Local Notation Inv := (Inv m t).

  (** with a look-ahead buffered (it is the first deliverable token [x]): the cursor after it, and the
      parse span as it will be after consuming it when it starts at the cursor - otherwise the
      present parse span *)
  Theorem peek_observers lx ys b : Inv lx ys -> c_buf lx = Some b ->
    exists x s, kept (c_filter lx) ys = x :: s /\ b = buf_of x
      /\ c_peek_cursor_pos lx = Some (e_end x)
      /\ c_peek_parse_span lx = Some (if pos_eqb (e_start x) (c_cur lx) then enclosing (c_ps lx) (e_end x) else c_parse_span lx).
  Proof.
    intros HI Eb. pose proof (inv_buf _ _ _ _ HI) as Hb. rewrite Eb in Hb. destruct Hb as (sk & x & rest & Hfk & ->).
    exists x, (kept (c_filter lx) rest). split; [exact (kept_first _ _ _ _ Hfk)|]. split; [reflexivity|].
    unfold c_peek_cursor_pos, c_peek_parse_span. rewrite Eb. cbn [option_map buf_of pk_cursor pk_start]. split; reflexivity.
  Qed.

  Theorem no_buffer_no_peek_observers lx : c_buf lx = None -> c_peek_cursor_pos lx = None /\ c_peek_parse_span lx = None.
  Proof. intros E. unfold c_peek_cursor_pos, c_peek_parse_span. rewrite E. split; reflexivity. Qed.

  (** is_empty_with_filter: look ahead, then compare the cursor with the end of the text; what is
      deliverable does not change, and "empty" is only ever answered when nothing is deliverable *)
  Theorem is_empty_with_filter_spec lx ys : Inv lx ys ->
    exists b lx' ys', c_is_empty_with_filter lx = Ok (b, lx') /\ Inv lx' ys'
      /\ kept (c_filter lx') ys' = kept (c_filter lx) ys /\ c_filter lx' = c_filter lx /\ c_rec lx' = c_rec lx
      /\ (b = true -> kept (c_filter lx) ys = []).
  Proof using Htab Ht.
    intros HI. destruct (c_buffer_next_spec m Htab t Ht lx ys HI) as (lx' & ys' & E & HI' & Hk & Hf & Hr & _).
    exists (c_at_end lx'), lx', ys'. unfold c_is_empty_with_filter. rewrite E. cbn [bind].
    split; [reflexivity|]. split; [exact HI'|]. split; [exact Hk|]. split; [exact Hf|]. split; [exact Hr|].
    intros Hend. rewrite <- Hk. rewrite (at_end_stream m Htab t Ht lx' ys' HI' Hend). reflexivity.
  Qed.
End Observers.

(** A sub-lex mark set while a look-ahead token is buffered moves nothing but the marks: the cursor, the scanner, the
    filter and the look-ahead stay, so the filtered tokens between the cursor and the look-ahead are NOT passed (a later,
    wider filter still delivers them - what an advance-only lexer does). Without a look-ahead the mark looks ahead itself and,
    standing at a parse start, skips them eagerly (the recorded C05 finding starts there). *)
Lemma sublex_with_lookahead lx b : c_buf lx = Some b ->
  c_start_sublex lx = Ok (mklex (c_text lx) (c_met lx) (c_sc lx) (c_filter lx) (c_rec lx) (Some b) (c_cur lx) (c_cur lx) (c_cur lx)).
Proof. intros H. unfold c_start_sublex, c_buffer_next. cbn [c_buf]. rewrite H. reflexivity. Qed.
