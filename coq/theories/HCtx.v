(** context.rs as it is: a [Context] is two reference-counted cells - the SHARED cell holding the
    error sink and the LOCAL cell holding one transform and a pointer to the parent's local cell -
    plus a lock flag. Cloning a context copies the two pointers. This file models that heap and the
    WHOLE public API, including the operations that mutate a cell every clone can see
    (take_error_sink, replace_error_sink, take_local_context, replace_local_context), as a register
    machine that the harness runs against the real [Context] (hctx-case).

    The combinator model (Ctx.v) treats contexts as VALUES {has_sink; trail; locked}. The theorem
    at the end justifies that: on every history that does not use the four mutating operations, the
    heap machine and the value machine produce the same events - no operation of the remaining API
    can be observed through another context. *)
From Tephra Require Import Base Ctx.

(** a local cell: its transform (a tag) and its parent cell *)
Record lcell := mklcell { l_tr : option nat; l_par : option nat }.
Definition lcell_empty : lcell := mklcell None None.

Record heap := mkheap { h_sh : list (option nat); h_lo : list lcell }.   (* shared cells: the sink's identity *)
Record hctx := mkhctx { hs : nat; hl : nat; hk : bool }.

Definition set_nth {A} (l : list A) (i : nat) (x : A) : list A :=
  firstn i l ++ match skipn i l with [] => [] | _ :: r => x :: r end.

Definition upd {A} (f : nat -> A) (i : nat) (x : A) : nat -> A := fun j => if j =? i then x else f j.

(** machine state: context registers, sink slots, local-context slots (the harness uses four, two and two) *)
Record hstate := mkhstate { st_heap : heap; st_regs : nat -> hctx; st_ks : nat -> option nat; st_ls : nat -> lcell }.

Definition alloc_sh (h : heap) (s : option nat) : heap * nat := (mkheap (h_sh h ++ [s]) (h_lo h), length (h_sh h)).
Definition alloc_lo (h : heap) (c : lcell) : heap * nat := (mkheap (h_sh h) (h_lo h ++ [c]), length (h_lo h)).

Definition reg (s : hstate) (i : nat) : hctx := st_regs s i.
Definition set_reg (s : hstate) (i : nat) (c : hctx) (h : heap) : hstate :=
  mkhstate h (upd (st_regs s) i c) (st_ks s) (st_ls s).

(** apply_error_transform_recursive: own transform first, then the parent's, to the root *)
Fixpoint h_apply (fuel : nat) (h : heap) (l : nat) (e : err) : err :=
  match fuel with
  | 0 => e
  | S f =>
    let c := nth l (h_lo h) lcell_empty in
    let e1 := match l_tr c with Some t => ETagged t e | None => e end in
    match l_par c with Some p => h_apply f h p e1 | None => e1 end
  end.

Definition h_apply_ctx (h : heap) (c : hctx) (e : err) : err := h_apply (S (length (h_lo h))) h (hl c) e.

Inductive hop :=
| HNew (i : nat) (sink : option nat)            (* Context::new(Some(sink)) / Context::empty() *)
| HClone (i j : nat)
| HPushed (i j tag : nat)
| HPush (i tag : nat)
| HLocked (i : nat) (b : bool)
| HNoSink (i j : nat)                            (* without_error_sink *)
| HNoLocal (i j : nat)                           (* without_local_context *)
| HTakeSink (i k : nat)
| HReplSink (i k : nat)
| HTakeLocal (i l : nat)
| HReplLocal (i l : nat)
| HSend (i n : nat)
| HApply (i n : nat).

Inductive hevent :=
| HvSink (n sink : nat) (e : err)
| HvRet (n : nat) (e : err)
| HvApply (n : nat) (e : err).

Definition hstep (s : hstate) (o : hop) : hstate * list hevent :=
  let h := st_heap s in
  match o with
  | HNew i sk =>
    let (h1, a) := alloc_sh h sk in let (h2, b) := alloc_lo h1 lcell_empty in
    (set_reg s i (mkhctx a b false) h2, [])
  | HClone i j => (set_reg s j (reg s i) h, [])
  | HPushed i j tag =>
    let c := reg s i in
    if hk c then (set_reg s j c h, [])
    else let (h1, b) := alloc_lo h (mklcell (Some tag) (Some (hl c))) in (set_reg s j (mkhctx (hs c) b false) h1, [])
  | HPush i tag =>
    let c := reg s i in
    if hk c then (s, [])
    else let (h1, b) := alloc_lo h (mklcell (Some tag) (Some (hl c))) in (set_reg s i (mkhctx (hs c) b (hk c)) h1, [])
  | HLocked i b => let c := reg s i in (set_reg s i (mkhctx (hs c) (hl c) b) h, [])
  | HNoSink i j =>
    let c := reg s i in let (h1, a) := alloc_sh h None in (set_reg s j (mkhctx a (hl c) (hk c)) h1, [])
  | HNoLocal i j =>
    let c := reg s i in let (h1, b) := alloc_lo h lcell_empty in (set_reg s j (mkhctx (hs c) b true) h1, [])
  | HTakeSink i k =>
    let c := reg s i in
    let old := nth (hs c) (h_sh h) None in
    (mkhstate (mkheap (set_nth (h_sh h) (hs c) None) (h_lo h)) (st_regs s) (upd (st_ks s) k old) (st_ls s), [])
  | HReplSink i k =>
    match st_ks s k with
    | None => (s, [])
    | Some sk =>
      let c := reg s i in
      let old := nth (hs c) (h_sh h) None in
      (mkhstate (mkheap (set_nth (h_sh h) (hs c) (Some sk)) (h_lo h)) (st_regs s) (upd (st_ks s) k old) (st_ls s), [])
    end
  | HTakeLocal i l =>
    let c := reg s i in
    let old := nth (hl c) (h_lo h) lcell_empty in
    (mkhstate (mkheap (h_sh h) (set_nth (h_lo h) (hl c) lcell_empty)) (st_regs s) (st_ks s) (upd (st_ls s) l old), [])
  | HReplLocal i l =>
    let c := reg s i in
    let old := nth (hl c) (h_lo h) lcell_empty in
    let new := st_ls s l in
    (mkhstate (mkheap (h_sh h) (set_nth (h_lo h) (hl c) new)) (st_regs s) (st_ks s) (upd (st_ls s) l old), [])
  | HSend i n =>
    let c := reg s i in
    match nth (hs c) (h_sh h) None with
    | Some sk => (s, [HvSink n sk (h_apply_ctx h c (EProbe n))])
    | None => (s, [HvRet n (EProbe n)])
    end
  | HApply i n => (s, [HvApply n (h_apply_ctx h (reg s i) (EProbe n))])
  end.

Fixpoint hrun (s : hstate) (ops : list hop) : list hevent :=
  match ops with
  | [] => []
  | o :: r => let (s', ev) := hstep s o in ev ++ hrun s' r
  end.

(** four registers holding four distinct empty contexts *)
Definition hinit : hstate :=
  mkhstate (mkheap [None; None; None; None] [lcell_empty; lcell_empty; lcell_empty; lcell_empty])
           (fun i => mkhctx (Nat.min i 3) (Nat.min i 3) false) (fun _ => None) (fun _ => lcell_empty).

(** * Contexts as values *)

Record vctx := mkvctx { v_sink : option nat; v_trail : list nat; v_locked : bool }.

(** the four operations that mutate a cell other contexts can see *)
Definition pure_op (o : hop) : bool :=
  match o with HTakeSink _ _ | HReplSink _ _ | HTakeLocal _ _ | HReplLocal _ _ => false | _ => true end.

Definition vstep (r : nat -> vctx) (o : hop) : (nat -> vctx) * list hevent :=
  match o with
  | HNew i sk => (upd r i (mkvctx sk [] false), [])
  | HClone i j => (upd r j (r i), [])
  | HPushed i j tag =>
    let c := r i in if v_locked c then (upd r j c, []) else (upd r j (mkvctx (v_sink c) (tag :: v_trail c) false), [])
  | HPush i tag =>
    let c := r i in if v_locked c then (r, []) else (upd r i (mkvctx (v_sink c) (tag :: v_trail c) (v_locked c)), [])
  | HLocked i b => let c := r i in (upd r i (mkvctx (v_sink c) (v_trail c) b), [])
  | HNoSink i j => let c := r i in (upd r j (mkvctx None (v_trail c) (v_locked c)), [])
  | HNoLocal i j => let c := r i in (upd r j (mkvctx (v_sink c) [] true), [])
  | HSend i n =>
    let c := r i in
    match v_sink c with
    | Some sk => (r, [HvSink n sk (apply_trail (v_trail c) (EProbe n))])
    | None => (r, [HvRet n (EProbe n)])
    end
  | HApply i n => (r, [HvApply n (apply_trail (v_trail (r i)) (EProbe n))])
  | _ => (r, [])
  end.

Fixpoint vrun (r : nat -> vctx) (ops : list hop) : list hevent :=
  match ops with
  | [] => []
  | o :: rest => let (r', ev) := vstep r o in ev ++ vrun r' rest
  end.

Definition vinit : nat -> vctx := fun _ => mkvctx None [] false.

(** the value a heap context stands for *)
Fixpoint h_trail (fuel : nat) (h : heap) (l : nat) : list nat :=
  match fuel with
  | 0 => []
  | S f =>
    let c := nth l (h_lo h) lcell_empty in
    (match l_tr c with Some t => [t] | None => [] end)
    ++ match l_par c with Some p => h_trail f h p | None => [] end
  end.

Definition abs (h : heap) (c : hctx) : vctx :=
  mkvctx (nth (hs c) (h_sh h) None) (h_trail (S (hl c)) h (hl c)) (hk c).

Lemma apply_trail_app a b e : apply_trail (a ++ b) e = apply_trail b (apply_trail a e).
Proof. unfold apply_trail. apply fold_left_app. Qed.

Lemma h_apply_trail : forall fuel h l e, h_apply fuel h l e = apply_trail (h_trail fuel h l) e.
Proof.
  induction fuel as [|f IH]; intros h l e; [reflexivity|]. cbn [h_apply h_trail].
  rewrite apply_trail_app. destruct (l_tr (nth l (h_lo h) lcell_empty)) as [t|]; destruct (l_par (nth l (h_lo h) lcell_empty)) as [p|];
    cbn [apply_trail fold_left]; try rewrite IH; reflexivity.
Qed.

(** parent pointers point to older cells *)
Definition WF (h : heap) : Prop :=
  forall l, l < length (h_lo h) -> match l_par (nth l (h_lo h) lcell_empty) with Some p => p < l | None => True end.

Lemma h_trail_fuel h : WF h -> forall l, l < length (h_lo h) -> forall f, l < f -> h_trail f h l = h_trail (S l) h l.
Proof.
  intros Hwf l. induction l as [l IH] using lt_wf_ind. intros Hl f Hf. destruct f as [|f]; [lia|]. cbn [h_trail].
  pose proof (Hwf l Hl) as Hp. destruct (l_par (nth l (h_lo h) lcell_empty)) as [p|]; [|reflexivity].
  f_equal. rewrite (IH p Hp ltac:(lia) f ltac:(lia)), (IH p Hp ltac:(lia) l Hp). reflexivity.
Qed.

(** allocation does not disturb the cells that exist *)
Lemma h_trail_alloc h c : WF h -> forall f l, l < length (h_lo h) ->
  h_trail f (mkheap (h_sh h) (h_lo h ++ [c])) l = h_trail f h l.
Proof.
  intros Hwf. induction f as [|f IH]; intros l Hl; [reflexivity|]. cbn [h_trail h_lo].
  rewrite (app_nth1 _ _ _ Hl). pose proof (Hwf l Hl) as Hp.
  destruct (l_par (nth l (h_lo h) lcell_empty)) as [p|]; [|reflexivity]. rewrite (IH p ltac:(lia)). reflexivity.
Qed.

Lemma WF_alloc h c : WF h -> (match l_par c with Some p => p < length (h_lo h) | None => True end) ->
  WF (mkheap (h_sh h) (h_lo h ++ [c])).
Proof.
  intros Hwf Hc l Hl. cbn [h_lo] in *. rewrite app_length in Hl. cbn in Hl.
  destruct (Nat.lt_ge_cases l (length (h_lo h))) as [H|H].
  - rewrite (app_nth1 _ _ _ H). apply Hwf. exact H.
  - assert (l = length (h_lo h)) by lia. subst l. rewrite app_nth2, Nat.sub_diag by lia. cbn [nth]. exact Hc.
Qed.

Lemma WF_alloc_sh h s : WF h -> WF (mkheap (h_sh h ++ [s]) (h_lo h)).
Proof. intros H. exact H. Qed.

(** the simulation: every register stands for its value, and points into the heap *)
Definition Rel (s : hstate) (r : nat -> vctx) : Prop :=
  WF (st_heap s) /\
  forall i, hs (reg s i) < length (h_sh (st_heap s)) /\ hl (reg s i) < length (h_lo (st_heap s))
            /\ abs (st_heap s) (reg s i) = r i.

Lemma abs_alloc_lo h c x : WF h -> hs x < length (h_sh h) -> hl x < length (h_lo h) ->
  abs (mkheap (h_sh h) (h_lo h ++ [c])) x = abs h x.
Proof. intros Hwf _ Hl. unfold abs. cbn [h_sh]. rewrite (h_trail_alloc h c Hwf _ _ Hl). reflexivity. Qed.

Lemma h_trail_sh sh sh' lo : forall f l, h_trail f (mkheap sh lo) l = h_trail f (mkheap sh' lo) l.
Proof. induction f as [|f IH]; intros l; [reflexivity|]. cbn [h_trail h_lo]. destruct (l_par (nth l lo lcell_empty)); [rewrite IH|]; reflexivity. Qed.

Lemma abs_alloc_sh h sk x : hs x < length (h_sh h) -> abs (mkheap (h_sh h ++ [sk]) (h_lo h)) x = abs h x.
Proof.
  intros Hs. unfold abs. cbn [h_sh]. rewrite (app_nth1 _ _ _ Hs). f_equal.
  destruct h as [sh lo]. cbn [h_sh h_lo]. apply h_trail_sh.
Qed.

Lemma step_sim s r o : pure_op o = true -> Rel s r ->
  let (s', ev) := hstep s o in let (r', ev') := vstep r o in ev = ev' /\ Rel s' r'.
Proof.
  intros Hp [Hwf Hr]. destruct o; try discriminate Hp; cbn [hstep vstep].
  - (* new *)
    cbn [alloc_sh alloc_lo]. split; [reflexivity|]. split.
    + apply (WF_alloc (mkheap (h_sh (st_heap s) ++ [sink]) (h_lo (st_heap s)))); [exact Hwf|exact I].
    + intros j. unfold reg, set_reg, upd. cbn [st_regs st_heap h_sh h_lo]. rewrite !app_length. cbn [length].
      destruct (j =? i) eqn:E.
      * cbn [hs hl]. split; [lia|]. split; [lia|]. unfold abs. cbn [hs hl hk h_sh h_lo h_trail].
        rewrite app_nth2, Nat.sub_diag by lia. rewrite app_nth2, Nat.sub_diag by lia. reflexivity.
      * destruct (Hr j) as (A & B & C). unfold reg in *. split; [lia|]. split; [lia|]. rewrite <- C.
        rewrite (abs_alloc_lo (mkheap (h_sh (st_heap s) ++ [sink]) (h_lo (st_heap s))) lcell_empty _ Hwf); cbn [h_sh h_lo]; try (rewrite ?app_length; cbn; lia).
        apply abs_alloc_sh. exact A.
  - (* clone *)
    split; [reflexivity|]. split; [exact Hwf|]. intros k. unfold reg, set_reg, upd. cbn [st_regs st_heap].
    destruct (k =? j); [exact (Hr i)|exact (Hr k)].
  - (* pushed *)
    destruct (Hr i) as (A & B & C).
    assert (Hlk : v_locked (r i) = hk (reg s i)) by (rewrite <- C; reflexivity).
    assert (Hsk : v_sink (r i) = nth (hs (reg s i)) (h_sh (st_heap s)) None) by (rewrite <- C; reflexivity).
    assert (Htr : v_trail (r i) = h_trail (S (hl (reg s i))) (st_heap s) (hl (reg s i))) by (rewrite <- C; reflexivity).
    rewrite Hlk. destruct (hk (reg s i)) eqn:Ek.
    + split; [reflexivity|]. split; [exact Hwf|]. intros k. unfold reg, set_reg, upd. cbn [st_regs st_heap].
      destruct (k =? j); [exact (Hr i)|exact (Hr k)].
    + cbn [alloc_lo]. split; [reflexivity|]. split; [apply WF_alloc; [exact Hwf|exact B]|].
      intros k. unfold reg, set_reg, upd. cbn [st_regs st_heap h_sh h_lo]. rewrite app_length. cbn [length].
      destruct (k =? j).
      * cbn [hs hl]. split; [exact A|]. split; [lia|]. unfold abs. cbn [hs hl hk h_sh h_lo]. rewrite Hsk, Htr. f_equal.
        cbn [h_trail h_lo]. rewrite app_nth2, Nat.sub_diag by lia. cbn [nth l_tr l_par app]. f_equal.
        unfold reg. rewrite (h_trail_alloc _ _ Hwf _ _ B). apply (h_trail_fuel _ Hwf _ B). lia.
      * destruct (Hr k) as (A' & B' & C'). unfold reg in *. split; [exact A'|]. split; [lia|]. rewrite <- C'.
        apply abs_alloc_lo; assumption.
  - (* push *)
    destruct (Hr i) as (A & B & C).
    assert (Hlk : v_locked (r i) = hk (reg s i)) by (rewrite <- C; reflexivity).
    assert (Hsk : v_sink (r i) = nth (hs (reg s i)) (h_sh (st_heap s)) None) by (rewrite <- C; reflexivity).
    assert (Htr : v_trail (r i) = h_trail (S (hl (reg s i))) (st_heap s) (hl (reg s i))) by (rewrite <- C; reflexivity).
    rewrite Hlk. destruct (hk (reg s i)) eqn:Ek.
    + split; [reflexivity|]. split; [exact Hwf|exact Hr].
    + cbn [alloc_lo]. split; [reflexivity|]. split; [apply WF_alloc; [exact Hwf|exact B]|].
      intros k. unfold reg, set_reg, upd. cbn [st_regs st_heap h_sh h_lo]. rewrite app_length. cbn [length].
      destruct (k =? i).
      * cbn [hs hl]. split; [exact A|]. split; [lia|]. unfold abs. cbn [hs hl hk h_sh h_lo]. rewrite Hsk, Htr. unfold reg in Ek. rewrite ?Ek. f_equal.
        cbn [h_trail h_lo]. rewrite app_nth2, Nat.sub_diag by lia. cbn [nth l_tr l_par app]. f_equal.
        unfold reg. rewrite (h_trail_alloc _ _ Hwf _ _ B). apply (h_trail_fuel _ Hwf _ B). lia.
      * destruct (Hr k) as (A' & B' & C'). unfold reg in *. split; [exact A'|]. split; [lia|]. rewrite <- C'.
        apply abs_alloc_lo; assumption.
  - (* locked *)
    split; [reflexivity|]. split; [exact Hwf|]. intros k. unfold reg, set_reg, upd. cbn [st_regs st_heap].
    destruct (k =? i); [|exact (Hr k)]. destruct (Hr i) as (A & B & C). cbn [hs hl]. split; [exact A|]. split; [exact B|].
    rewrite <- C. reflexivity.
  - (* without_error_sink *)
    cbn [alloc_sh]. split; [reflexivity|]. split; [exact Hwf|].
    intros k. unfold reg, set_reg, upd. cbn [st_regs st_heap h_sh h_lo]. rewrite app_length. cbn [length].
    destruct (k =? j).
    + destruct (Hr i) as (A & B & C). cbn [hs hl]. split; [lia|]. split; [exact B|]. rewrite <- C.
      unfold abs. cbn [hs hl hk h_sh h_lo v_trail v_locked]. rewrite app_nth2, Nat.sub_diag by lia. cbn [nth]. f_equal.
      unfold reg. destruct (st_heap s) as [sh lo]. cbn [h_sh h_lo]. apply h_trail_sh.
    + destruct (Hr k) as (A' & B' & C'). unfold reg in *. split; [lia|]. split; [exact B'|]. rewrite <- C'. apply abs_alloc_sh. exact A'.
  - (* without_local_context *)
    cbn [alloc_lo]. split; [reflexivity|]. split; [apply WF_alloc; [exact Hwf|exact I]|].
    intros k. unfold reg, set_reg, upd. cbn [st_regs st_heap h_sh h_lo]. rewrite app_length. cbn [length].
    destruct (k =? j).
    + destruct (Hr i) as (A & B & C). cbn [hs hl]. split; [exact A|]. split; [lia|]. rewrite <- C.
      unfold abs. cbn [hs hl hk h_sh h_lo v_sink h_trail]. rewrite app_nth2, Nat.sub_diag by lia. reflexivity.
    + destruct (Hr k) as (A' & B' & C'). unfold reg in *. split; [exact A'|]. split; [lia|]. rewrite <- C'. apply abs_alloc_lo; assumption.
  - (* send *)
    destruct (Hr i) as (A & B & C).
    assert (Hsk : v_sink (r i) = nth (hs (reg s i)) (h_sh (st_heap s)) None) by (rewrite <- C; reflexivity).
    assert (Htr : v_trail (r i) = h_trail (S (hl (reg s i))) (st_heap s) (hl (reg s i))) by (rewrite <- C; reflexivity).
    rewrite Hsk, Htr.
    destruct (nth (hs (reg s i)) (h_sh (st_heap s)) None) as [sk|]; (split; [|split; [exact Hwf|exact Hr]]); [|reflexivity].
    unfold h_apply_ctx. rewrite h_apply_trail. rewrite (h_trail_fuel _ Hwf _ B) by lia. reflexivity.
  - (* apply *)
    destruct (Hr i) as (A & B & C).
    assert (Htr : v_trail (r i) = h_trail (S (hl (reg s i))) (st_heap s) (hl (reg s i))) by (rewrite <- C; reflexivity).
    rewrite Htr. split; [|split; [exact Hwf|exact Hr]].
    unfold h_apply_ctx. rewrite h_apply_trail. rewrite (h_trail_fuel _ Hwf _ B) by lia. reflexivity.
Qed.

Lemma run_sim : forall ops s r, Forall (fun o => pure_op o = true) ops -> Rel s r -> hrun s ops = vrun r ops.
Proof.
  induction ops as [|o rest IH]; intros s r Hp HR; [reflexivity|]. cbn [hrun vrun].
  inversion Hp as [|? ? Ho Hrest]; subst. pose proof (step_sim s r o Ho HR) as H.
  destruct (hstep s o) as [s' ev]. destruct (vstep r o) as [r' ev']. destruct H as [-> HR']. f_equal. exact (IH s' r' Hrest HR').
Qed.

Lemma Rel_init : Rel hinit vinit.
Proof.
  split.
  - intros l Hl. cbn in Hl. do 4 (destruct l as [|l]; [exact I|]). lia.
  - intros i. unfold reg, hinit. cbn [st_regs st_heap h_sh h_lo hs hl length].
    assert (Hm : Nat.min i 3 < 4) by lia. split; [exact Hm|]. split; [exact Hm|].
    unfold abs, vinit. cbn [hs hl hk h_sh h_lo].
    destruct (Nat.min i 3) as [|[|[|[|n]]]]; try reflexivity. lia.
Qed.

(** contexts behave as values unless one of the four cell-mutating operations is used *)
Theorem contexts_are_values ops : Forall (fun o => pure_op o = true) ops -> hrun hinit ops = vrun vinit ops.
Proof. intros H. exact (run_sim ops hinit vinit H Rel_init). Qed.

(** what the mutating operations do that a value could not: taking the sink through ONE context
    removes it for every context sharing the cell *)
Theorem take_sink_is_shared s i k j : hs (reg s j) = hs (reg s i) -> hs (reg s i) < length (h_sh (st_heap s)) ->
  let s' := fst (hstep s (HTakeSink i k)) in
  v_sink (abs (st_heap s') (reg s' j)) = None /\ st_ks s' k = nth (hs (reg s i)) (h_sh (st_heap s)) None.
Proof.
  intros E Hlt. cbn [hstep fst st_heap st_ks]. unfold reg. cbn [st_regs]. unfold reg in E, Hlt. split.
  - unfold abs. cbn [v_sink h_sh]. rewrite E. unfold set_nth.
    rewrite app_nth2; rewrite firstn_length_le by lia; [|lia]. rewrite Nat.sub_diag.
    destruct (skipn (hs (st_regs s i)) (h_sh (st_heap s))) eqn:Esk; [|reflexivity].
    exfalso. assert (Hlen : length (skipn (hs (st_regs s i)) (h_sh (st_heap s))) = 0) by (rewrite Esk; reflexivity).
    rewrite skipn_length in Hlen. lia.
  - unfold upd. rewrite Nat.eqb_refl. reflexivity.
Qed.
