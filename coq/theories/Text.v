(** Text: what the span layer inspects of a UTF-8 string — per character its byte
    length, display width and identity, and the three characters the code names. *)
From Tephra Require Export Base.

Inductive chr : Type :=
| Tab | Cr | Lf
| Ch (len w id : nat).     (* any other char: len_utf8, unicode-width (None ↦ 0), code point *)

Definition clen (c : chr) : nat := match c with Ch l _ _ => l | _ => 1 end.
(** [UnicodeWidthChar::width(c).unwrap_or(0)]: control characters have width [None]. *)
Definition cwidth (c : chr) : nat := match c with Ch _ w _ => w | _ => 0 end.

Definition chr_eqb (a b : chr) : bool :=
  match a, b with
  | Tab, Tab | Cr, Cr | Lf, Lf => true
  | Ch l w i, Ch l' w' i' => (l =? l') && (w =? w') && (i =? i')
  | _, _ => false
  end.

Lemma chr_eqb_spec a b : reflect (a = b) (chr_eqb a b).
Proof.
  destruct a as [| | |l w i], b as [| | |l' w' i']; cbn; try (constructor; congruence).
  destruct (Nat.eqb_spec l l'), (Nat.eqb_spec w w'), (Nat.eqb_spec i i'); cbn;
    constructor; congruence.
Qed.

Definition text := list chr.

Fixpoint text_eqb (a b : text) : bool :=
  match a, b with
  | [], [] => true
  | x :: a', y :: b' => chr_eqb x y && text_eqb a' b'
  | _, _ => false
  end.

Lemma text_eqb_spec a b : reflect (a = b) (text_eqb a b).
Proof.
  revert b; induction a as [|x a IH]; intros [|y b]; cbn; try (constructor; congruence).
  destruct (chr_eqb_spec x y); cbn; [|constructor; congruence].
  destruct (IH b); constructor; congruence.
Qed.

Fixpoint blen (t : text) : nat :=
  match t with [] => 0 | c :: r => clen c + blen r end.

Lemma blen_app a b : blen (a ++ b) = blen a + blen b.
Proof. induction a as [|c a IH]; cbn; [reflexivity|]. rewrite IH. lia. Qed.

(** Every real character occupies 1..4 bytes. *)
Definition wf_chr (c : chr) : Prop := 1 <= clen c.
Definition wf_text (t : text) : Prop := Forall wf_chr t.

Lemma wf_text_app a b : wf_text (a ++ b) <-> wf_text a /\ wf_text b.
Proof. apply Forall_app. Qed.

(** [split_at t n = None] exactly when Rust's [&t[n..]] / [&t[..n]] panics
    (n beyond the end or not on a character boundary). *)
Fixpoint split_at (t : text) (n : nat) : option (text * text) :=
  match n with
  | 0 => Some ([], t)
  | _ =>
    match t with
    | [] => None
    | c :: r =>
      if clen c <=? n then
        match split_at r (n - clen c) with
        | Some (p, s) => Some (c :: p, s)
        | None => None
        end
      else None
    end
  end.

Lemma split_at_app pre suf : wf_text pre -> split_at (pre ++ suf) (blen pre) = Some (pre, suf).
Proof.
  induction pre as [|c pre IH]; intros Hwf; cbn [blen app].
  - destruct suf; reflexivity.
  - inversion Hwf as [|? ? Hc Hpre]; subst. unfold wf_chr in Hc.
    cbn [split_at]. destruct (clen c + blen pre) eqn:E; [lia|]. rewrite <- E.
    destruct (Nat.leb_spec (clen c) (clen c + blen pre)); [|lia].
    replace (clen c + blen pre - clen c) with (blen pre) by lia.
    rewrite (IH Hpre). reflexivity.
Qed.

Lemma split_at_some t n pre suf : split_at t n = Some (pre, suf) -> t = pre ++ suf /\ blen pre = n.
Proof.
  revert n pre suf; induction t as [|c r IH]; intros n pre suf H.
  - destruct n; cbn in H; [|discriminate]. inversion H; subst. split; reflexivity.
  - destruct n as [|n]; cbn [split_at] in H.
    + inversion H; subst. split; reflexivity.
    + destruct (Nat.leb_spec (clen c) (S n)) as [Hle|Hlt]; [|discriminate].
      destruct (split_at r (S n - clen c)) as [[p s]|] eqn:E; [|discriminate].
      inversion H; subst. destruct (IH _ _ _ E) as [-> Hb]. split; [reflexivity|].
      cbn [blen]. lia.
Qed.

(** The characters that start strictly before byte [n], and the rest: total. This is what
    the byte-wise backwards scan of [line_start_position] sees, for any [n]. *)
Fixpoint split_before (t : text) (n : nat) : text * text :=
  match n with
  | 0 => ([], t)
  | _ =>
    match t with
    | [] => ([], [])
    | c :: r => let (p, s) := split_before r (n - clen c) in (c :: p, s)
    end
  end.

Lemma split_before_app pre suf : wf_text pre -> split_before (pre ++ suf) (blen pre) = (pre, suf).
Proof.
  induction pre as [|c pre IH]; intros Hwf; cbn [blen app].
  - destruct suf; reflexivity.
  - inversion Hwf as [|? ? Hc Hpre]; subst. unfold wf_chr in Hc.
    cbn [split_before]. destruct (clen c + blen pre) eqn:E; [lia|]. rewrite <- E.
    replace (clen c + blen pre - clen c) with (blen pre) by lia.
    rewrite (IH Hpre). reflexivity.
Qed.
