(** C11 on ARBITRARY input (malformed segments included), with an error sink: the list loop walks the
    deliverable tokens segment by segment. At an item position the item parser (C06 core fragment)
    is tried on what follows:
      - it accepts a prefix that ends at a separator, an abort token or the end: its value is the
        entry ("good");
      - it fails, or stops in front of some other token ("bad"): ONE error is reported, the entry is
        the placeholder, and the list resumes at the first separator or abort token at or after the
        start of the segment - or, when there is none, swallows the rest of the text.
    After an entry: the upper bound stops the list where it stands; the end or an abort token ends
    it; a separator is consumed and the next item position follows.
    [seg_list] is that reading (a relation on token lists: no lexer, no store); the theorem says the
    loop hands its continuation exactly the entries of [seg_list], a lexer delivering exactly the
    tokens [seg_list] leaves, without recover state, and a store whose sink log grew by exactly one
    error per bad segment and is otherwise unchanged. *)
From Tephra Require Import MetricsSpec MetricsFacts CLexer LexerFacts Run Peg RunCore RunErrors RunRecover RunScope RunSink
     RunLoopsPeg LexerOps RunFuel RunListOk.

Section SegSpec.
  Variable a : G.
  Variable sep : kind.
  Variable ab : list kind.
  Variable dflt : val.
  Variable hi : option nat.
  Local Notation soa := (sep :: ab).

  Definition boundary (s1 : list entry) : Prop :=
    match s1 with [] => True | y :: _ => in_kinds soa (e_tok y) = true end.

  (** the item parser does not accept the segment: it fails, or stops in front of a token that is
      neither separator nor abort token *)
  Definition bad (s : list entry) : Prop :=
    peg a s = Some PFail \/ exists v y r, peg a s = Some (POk v (y :: r)) /\ in_kinds soa (e_tok y) = false.

  (** [seg_list cnt s vs n s2]: at an item position with [cnt] entries so far and [s] deliverable,
      the list adds the entries [vs], reports [n] errors and leaves [s2] *)
  Inductive seg_list : nat -> list entry -> list val -> nat -> list entry -> Prop :=
  | sl_nil cnt : seg_list cnt [] [] 0 []
  | sl_abort cnt x r : in_kinds ab (e_tok x) = true -> seg_list cnt (x :: r) [] 0 (x :: r)
  | sl_good cnt x r v s1 vs n s2 :
      in_kinds ab (e_tok x) = false -> peg a (x :: r) = Some (POk v s1) -> boundary s1 ->
      seg_next (S cnt) s1 vs n s2 -> seg_list cnt (x :: r) (v :: vs) n s2
  | sl_bad cnt x r pre y rest vs n s2 :
      in_kinds ab (e_tok x) = false -> bad (x :: r) -> find_first soa (x :: r) = Some (pre, y, rest) ->
      seg_next (S cnt) (y :: rest) vs n s2 -> seg_list cnt (x :: r) (dflt :: vs) (S n) s2
  | sl_bad_last cnt x r :
      in_kinds ab (e_tok x) = false -> bad (x :: r) -> find_first soa (x :: r) = None ->
      seg_list cnt (x :: r) [dflt] 1 []
  (** after an entry ([cnt] counts it) *)
  with seg_next : nat -> list entry -> list val -> nat -> list entry -> Prop :=
  | sn_full cnt s : ge_opt cnt hi = true -> seg_next cnt s [] 0 s
  | sn_nil cnt : ge_opt cnt hi = false -> seg_next cnt [] [] 0 []
  | sn_abort cnt x r : ge_opt cnt hi = false -> in_kinds ab (e_tok x) = true -> seg_next cnt (x :: r) [] 0 (x :: r)
  | sn_sep cnt x r vs n s2 :
      ge_opt cnt hi = false -> in_kinds ab (e_tok x) = false -> tok_eqb (tk0 sep) (e_tok x) = true ->
      seg_list cnt r vs n s2 -> seg_next cnt (x :: r) vs n s2.

  Scheme seg_list_ind2 := Induction for seg_list Sort Prop
    with seg_next_ind2 := Induction for seg_next Sort Prop.
End SegSpec.

Section ListSeg.
  Variable m : metrics.
  Hypothesis Htab : 1 <= tabw m.
  Variable t : text.
  Hypothesis Ht : wf_text t.
  Local Notation Inv := (Inv m t).

  Variable a : G.
  Variable sep : kind.
  Variable ab : list kind.
  Hypothesis Ha : in_core a = true.
  (** items do not start with an abort token (the property's precondition: items contain no
      separator or abort tokens) *)
  Hypothesis Hstart : forall x r, in_kinds ab (e_tok x) = true -> peg a (x :: r) = Some PFail.
  Variable f0 : nat.
  Hypothesis Hd : gdepth a < f0.
  Variable c : ctx.
  Hypothesis Hsink : has_sink c = true.
  Variable dflt : val.
  Variable hi : option nat.

  Local Notation soa := (sep :: ab).
  Local Notation rr := (list_rref sep ab).
  Local Notation inner := (GRecoverWith dflt rr (GUpTo a soa)).
  Local Notation item := (GStabilize inner).
  Local Notation probe := (GStabilize (GMaybe (GUpTo a soa))).
  Local Notation sepp := (GRecoverWith VUnit rr (GDiscard (GOne sep))).
  Local Notation f := (S (S (S f0))).

  (** the store after [errs] were reported *)
  Definition logged (st : store) (errs : list err) : store := st_log st (log st ++ errs).

  Lemma logged_nil st : logged st [] = st.
  Proof. unfold logged, st_log. rewrite app_nil_r. destruct st; reflexivity. Qed.

  Lemma logged_app st e1 e2 : logged (logged st e1) e2 = logged st (e1 ++ e2).
  Proof. unfold logged, st_log. cbn [log found]. rewrite app_assoc. reflexivity. Qed.

  (** up_to on a bad segment is an error, the store untouched *)
  Lemma upto_bad lx ys st : Inv lx ys -> bad a sep ab (kept (c_filter lx) ys) ->
    exists e, run (S f0) (GUpTo a soa) lx c st = (RErr e, st).
  Proof using Htab Ht Ha Hd.
    intros HI [Hp|(v & y & r & Hp & Hny)].
    - destruct (run_core m Htab t Ht f0 a Hd _ _ Hp lx ys c st HI eq_refl) as (e & E).
      exists e. cbn [run]. rewrite E. reflexivity.
    - destruct (run_core m Htab t Ht f0 a Hd _ _ Hp lx ys c st HI eq_refl) as (lx1 & ys1 & E1 & HI1 & Hf1 & Hr1 & Hk1).
      rewrite <- Hf1 in Hk1.
      destruct (peek_cons m Htab t Ht lx1 ys1 y r HI1 Hk1) as (lx2 & ys2 & E2 & HI2 & Hf2 & Hr2 & Hk2).
      assert (Hk2' : kept (c_filter lx2) ys2 = y :: r) by (rewrite Hf2; exact Hk2).
      pose proof (c_advance_to_spec m Htab t Ht (in_kinds soa) (y :: r) (fuel_of lx2) lx2 ys2 HI2 Hk2'
                    (eq_ind _ (fun s => length s < fuel_of lx2) (kept_length_fuel m Htab t Ht lx2 ys2 HI2) _ Hk2')) as Hadv.
      cbn [run]. rewrite E1. cbn [on_ok]. rewrite E2. cbn [lift]. rewrite Hny.
      destruct (split_first (in_kinds soa) (y :: r)) as [[[p0 x0] q0]|].
      + destruct Hadv as (lx3 & ys3 & E3 & _). rewrite E3. cbn [lift]. eexists. reflexivity.
      + destruct Hadv as (lx3 & ys3 & E3 & _). rewrite E3. cbn [lift]. eexists. reflexivity.
  Qed.

  (** recover_default with the list's own strategy around a failing body: one error, then the
      first separator / abort token at or after the start *)
  Lemma recover_with_before fb body lx ys st e st1 : Inv lx ys ->
    run fb body lx c st = (RErr e, st1) ->
    let st2 := st_log st1 (log st1 ++ [apply_trail (trail c) e]) in
    match find_first soa (kept (c_filter lx) ys) with
    | Some (_, x, rest) =>
      exists lx' ys', run (S fb) (GRecoverWith dflt rr body) lx c st = (ROk dflt lx', st2)
        /\ Inv lx' ys' /\ c_filter lx' = c_filter lx /\ c_rec lx' = Some rr
        /\ kept (c_filter lx) ys' = x :: rest
    | None => run (S fb) (GRecoverWith dflt rr body) lx c st = (RErr ERecover, st2)
    end.
  Proof using Htab Ht Hsink.
    intros HI Hb st2. cbn [run]. rewrite Hb. unfold send_error. rewrite Hsink.
    unfold advance_to_recover, list_rref. cbn [set_rec c_rec].
    pose proof (Inv_set_rec m t lx ys (Some (0, RBefore soa)) HI) as HI0.
    pose proof (recover_before_spec m Htab t Ht 0 soa (kept (c_filter lx) ys) (fuel_of (set_rec lx (Some (0, RBefore soa))))
                  (set_rec lx (Some (0, RBefore soa))) ys st2 HI0 eq_refl (kept_length_fuel m Htab t Ht lx ys HI)) as H.
    fold st2. unfold rref in *. cbn [set_rec c_filter c_rec] in H.
    destruct (find_first soa (kept (c_filter lx) ys)) as [[[p x] rest]|].
    - destruct H as (lx' & ys' & E & HI' & Hf & Hr & Hk). rewrite E. exists lx', ys'.
      split; [reflexivity|]. split; [exact HI'|]. split; [exact Hf|]. split; [exact Hr|exact Hk].
    - destruct H as (lx' & E). rewrite E. reflexivity.
  Qed.

  (** the item wrapper on a bad segment *)
  Lemma item_bad lx ys st : Inv lx ys -> c_rec lx = None -> bad a sep ab (kept (c_filter lx) ys) ->
    exists e,
    match find_first soa (kept (c_filter lx) ys) with
    | Some (_, x, rest) =>
      exists lx' ys', run f item lx c st = (ROk dflt lx', logged st [e]) /\ Inv lx' ys'
        /\ c_filter lx' = c_filter lx /\ c_rec lx' = None /\ kept (c_filter lx) ys' = x :: rest
    | None => run f item lx c st = (RErr ERecover, logged st [e])
    end.
  Proof using Htab Ht Ha Hd Hsink.
    intros HI Hl Hbad. destruct (upto_bad lx ys st HI Hbad) as (e & Eu).
    exists (apply_trail (trail c) e).
    pose proof (recover_with_before (S f0) (GUpTo a soa) lx ys st e st HI Eu) as H. cbn zeta in H.
    change (run f item lx c st) with (stab_loop (run (S (S f0))) (S (S f0)) 0 inner c lx (run (S (S f0)) inner lx c st)).
    destruct (find_first soa (kept (c_filter lx) ys)) as [[[p x] rest]|].
    - destruct H as (lx' & ys' & E & HI' & Hf & Hr & Hk). rewrite E. exists (set_rec lx' None), ys'.
      split; [reflexivity|]. split; [apply (Inv_set_rec m t); exact HI'|]. split; [exact Hf|]. split; [reflexivity|exact Hk].
    - rewrite H. cbn [stab_loop]. rewrite Hl. reflexivity.
  Qed.

  Lemma in_soa_sep x : tok_eqb (tk0 sep) (e_tok x) = true -> in_kinds soa (e_tok x) = true.
  Proof. intros H. unfold in_kinds. cbn [existsb]. rewrite H. reflexivity. Qed.

  Lemma in_soa_ab x : in_kinds ab (e_tok x) = true -> in_kinds soa (e_tok x) = true.
  Proof. intros H. unfold in_kinds in *. cbn [existsb]. rewrite H. apply orb_true_r. Qed.

  Lemma in_soa_split x : in_kinds soa (e_tok x) = true -> in_kinds ab (e_tok x) = false -> tok_eqb (tk0 sep) (e_tok x) = true.
  Proof. unfold in_kinds. cbn [existsb]. intros H Hn. rewrite Hn, orb_false_r in H. exact H. Qed.

  (** the loop, segment by segment *)
  Lemma list_loop_seg (k : list val -> clexer -> store -> R) :
    forall cnt s vs nerr s2, seg_list a sep ab dflt hi cnt s vs nerr s2 ->
    forall n lx ys st vals, Inv lx ys -> c_rec lx = None -> kept (c_filter lx) ys = s -> length vals = cnt ->
    2 * length s + 2 < n ->
    exists lx' ys' errs, Inv lx' ys' /\ c_filter lx' = c_filter lx /\ c_rec lx' = None /\ kept (c_filter lx) ys' = s2
      /\ length errs = nerr
      /\ list_loop (run f) n hi ab dflt item probe sepp c vals lx st k = k (vals ++ vs) lx' (logged st errs).
  Proof using Htab Ht Ha Hd Hsink Hstart.
    intros cnt s vs nerr s2 Hseg.
    induction Hseg as [cnt|cnt x r Hab|cnt x r v s1 vs nerr s2 Hnab Hp Hbd Hnext IHnext
                       |cnt x r pre y rest vs nerr s2 Hnab Hbad Hff Hnext IHnext|cnt x r Hnab Hbad Hff
                       |cnt s Hge|cnt Hge|cnt x r Hge Hab|cnt x r vs nerr s2 Hge Hnab Hsep Hlist IHlist]
      using seg_list_ind2
      with (P0 := fun cnt s1 vs nerr s2 _ =>
        forall n lx1 ys1 st vals', Inv lx1 ys1 -> c_rec lx1 = None -> kept (c_filter lx1) ys1 = s1 -> length vals' = cnt ->
        boundary sep ab s1 -> 2 * length s1 + 1 < n ->
        exists lx' ys' errs, Inv lx' ys' /\ c_filter lx' = c_filter lx1 /\ c_rec lx' = None /\ kept (c_filter lx1) ys' = s2
          /\ length errs = nerr
          /\ (if ge_opt (length vals') hi then k vals' lx1 st
              else
                lift (c_peek lx1) st (fun '(o2, lx2) =>
                match o2 with
                | None => k vals' lx2 st
                | Some t2 =>
                  if in_kinds ab t2 then k vals' lx2 st
                  else if c_at_end lx2 then k vals' lx2 st
                  else
                    match run f sepp lx2 c st with
                    | (ROk _ lx3, st3) =>
                      lift (c_start_sublex lx3) st3 (fun lx4 =>
                      list_loop (run f) n hi ab dflt item probe sepp c vals' lx4 st3 k)
                    | r0 => r0
                    end
                end)) = k (vals' ++ vs) lx' (logged st errs)).
    - (* nothing left *)
      intros n lx ys st vals HI Hl Hk Hc Hn. destruct n as [|n]; [lia|]. cbn [list_loop].
      destruct (peek_nil m Htab t Ht lx ys HI Hk) as (lx0 & ys0 & E & HI0 & Hf0 & Hr0 & Hk0). rewrite E. cbn [lift].
      exists lx0, ys0, []. rewrite app_nil_r, logged_nil. repeat (split; [first [assumption|congruence|reflexivity]|]). reflexivity.
    - (* an abort token *)
      intros n lx ys st vals HI Hl Hk Hc Hn. destruct n as [|n]; [lia|]. cbn [list_loop].
      destruct (peek_cons m Htab t Ht lx ys x r HI Hk) as (lx0 & ys0 & E & HI0 & Hf0 & Hr0 & Hk0). rewrite E. cbn [lift]. rewrite Hab.
      destruct vals as [|v0 vr].
      + exists lx0, ys0, []. rewrite logged_nil. repeat (split; [first [assumption|congruence|reflexivity]|]). reflexivity.
      + assert (Hpf : peg a (kept (c_filter lx0) ys0) = Some PFail) by (rewrite Hf0, Hk0; exact (Hstart x r Hab)).
        destruct (probe_none m Htab t Ht a sep ab Ha f0 Hd c lx0 ys0 st HI0 ltac:(congruence) Hpf) as (lp & Ep). rewrite Ep.
        exists lx0, ys0, []. rewrite app_nil_r, logged_nil. repeat (split; [first [assumption|congruence|reflexivity]|]). reflexivity.
    - (* a good item *)
      intros n lx ys st vals HI Hl Hk Hc Hn. destruct n as [|n]; [lia|]. cbn [list_loop].
      destruct (peek_cons m Htab t Ht lx ys x r HI Hk) as (lx0 & ys0 & E & HI0 & Hf0 & Hr0 & Hk0). rewrite E. cbn [lift]. rewrite Hnab.
      assert (Hp0 : peg a (kept (c_filter lx0) ys0) = Some (POk v s1)) by (rewrite Hf0, Hk0; exact Hp).
      destruct (item_ok m Htab t Ht a sep ab Ha f0 Hd c dflt lx0 ys0 st v s1 HI0 ltac:(congruence) Hp0 Hbd)
        as (lx1 & ys1 & E1 & HI1 & Hf1 & Hr1 & Hk1).
      rewrite E1. cbn zeta.
      assert (Hlen : length s1 <= length (x :: r)) by exact (RunFuel.peg_len a (x :: r) v s1 Hp).
      destruct (IHnext n lx1 ys1 st (vals ++ [v]) HI1 Hr1) as (lx' & ys' & errs & HI' & Hf' & Hr' & Hk' & Hle & Eq).
      + rewrite Hf1. exact Hk1.
      + rewrite app_length. cbn. lia.
      + exact Hbd.
      + cbn [length] in *. lia.
      + exists lx', ys', errs. split; [exact HI'|]. split; [congruence|]. split; [exact Hr'|].
        split; [rewrite <- Hf0, <- Hf1; exact Hk'|]. split; [exact Hle|].
        rewrite <- app_assoc in Eq. exact Eq.
    - (* a bad item, the list resumes at a separator / abort token *)
      intros n lx ys st vals HI Hl Hk Hc Hn. destruct n as [|n]; [lia|]. cbn [list_loop].
      destruct (peek_cons m Htab t Ht lx ys x r HI Hk) as (lx0 & ys0 & E & HI0 & Hf0 & Hr0 & Hk0). rewrite E. cbn [lift]. rewrite Hnab.
      assert (Hbad0 : bad a sep ab (kept (c_filter lx0) ys0)) by (rewrite Hf0, Hk0; exact Hbad).
      destruct (item_bad lx0 ys0 st HI0 ltac:(congruence) Hbad0) as (e & Hit).
      rewrite Hf0, Hk0, Hff in Hit. destruct Hit as (lx1 & ys1 & E1 & HI1 & Hf1 & Hr1 & Hk1).
      rewrite E1. cbn zeta.
      assert (Hby : boundary sep ab (y :: rest)).
      { cbn [boundary]. pose proof (find_first_spec soa (x :: r)) as Hs. rewrite Hff in Hs. destruct Hs as (_ & _ & Hs). exact Hs. }
      assert (Hlen : length (y :: rest) <= length (x :: r)).
      { pose proof (find_first_spec soa (x :: r)) as Hs. rewrite Hff in Hs. destruct Hs as (Es & _). rewrite Es, app_length. lia. }
      destruct (IHnext n lx1 ys1 (logged st [e]) (vals ++ [dflt]) HI1 Hr1) as (lx' & ys' & errs & HI' & Hf' & Hr' & Hk' & Hle & Eq).
      + rewrite Hf1. exact Hk1.
      + rewrite app_length. cbn. lia.
      + exact Hby.
      + cbn [length] in *. lia.
      + exists lx', ys', (e :: errs). split; [exact HI'|]. split; [congruence|]. split; [exact Hr'|].
        split; [rewrite <- Hf1; exact Hk'|]. split; [cbn; lia|].
        rewrite <- app_assoc, logged_app in Eq. exact Eq.
    - (* a bad item with no separator or abort token left: the rest of the text is swallowed *)
      intros n lx ys st vals HI Hl Hk Hc Hn. destruct n as [|n]; [lia|]. cbn [list_loop].
      destruct (peek_cons m Htab t Ht lx ys x r HI Hk) as (lx0 & ys0 & E & HI0 & Hf0 & Hr0 & Hk0). rewrite E. cbn [lift]. rewrite Hnab.
      assert (Hbad0 : bad a sep ab (kept (c_filter lx0) ys0)) by (rewrite Hf0, Hk0; exact Hbad).
      destruct (item_bad lx0 ys0 st HI0 ltac:(congruence) Hbad0) as (e & Hit).
      rewrite Hf0, Hk0, Hff in Hit. rewrite Hit.
      assert (Hk0' : kept (c_filter lx0) ys0 = x :: r) by (rewrite Hf0; exact Hk0).
      pose proof (c_advance_to_spec m Htab t Ht (fun _ => false) (x :: r) (fuel_of lx0) lx0 ys0 HI0 Hk0'
                    (eq_ind _ (fun s => length s < fuel_of lx0) (kept_length_fuel m Htab t Ht lx0 ys0 HI0) _ Hk0')) as Hadv.
      assert (Hsf : split_first (fun _ : tok => false) (x :: r) = None).
      { clear. generalize (x :: r). induction l as [|z l IH]; [reflexivity|]. cbn [split_first]. rewrite IH. reflexivity. }
      rewrite Hsf in Hadv. destruct Hadv as (lx1 & ys1 & E1 & HI1 & Hf1 & Hk1). rewrite E1. cbn [lift].
      exists lx1, ys1, [e]. split; [exact HI1|]. split; [congruence|].
      split; [rewrite (c_advance_to_rec _ _ _ _ _ E1); congruence|]. split; [rewrite <- Hf0; exact Hk1|]. split; reflexivity.
    - (* after an entry: the upper bound is reached *)
      intros n lx1 ys1 st vals' HI1 Hl1 Hk1 Hc Hb Hn. rewrite Hc, Hge.
      exists lx1, ys1, []. rewrite app_nil_r, logged_nil. repeat (split; [first [assumption|reflexivity]|]). reflexivity.
    - (* after an entry: nothing left *)
      intros n lx1 ys1 st vals' HI1 Hl1 Hk1 Hc Hb Hn. rewrite Hc, Hge.
      destruct (peek_nil m Htab t Ht lx1 ys1 HI1 Hk1) as (lx2 & ys2 & E & HI2 & Hf2 & Hr2 & Hk2). rewrite E. cbn [lift].
      exists lx2, ys2, []. rewrite app_nil_r, logged_nil. repeat (split; [first [assumption|congruence|reflexivity]|]). reflexivity.
    - (* after an entry: an abort token *)
      intros n lx1 ys1 st vals' HI1 Hl1 Hk1 Hc Hb Hn. rewrite Hc, Hge.
      destruct (peek_cons m Htab t Ht lx1 ys1 x r HI1 Hk1) as (lx2 & ys2 & E & HI2 & Hf2 & Hr2 & Hk2). rewrite E. cbn [lift]. rewrite Hab.
      exists lx2, ys2, []. rewrite app_nil_r, logged_nil. repeat (split; [first [assumption|congruence|reflexivity]|]). reflexivity.
    - (* after an entry: a separator, then the next item position *)
      intros n lx1 ys1 st vals' HI1 Hl1 Hk1 Hc Hb Hn. rewrite Hc, Hge.
      destruct (peek_cons m Htab t Ht lx1 ys1 x r HI1 Hk1) as (lx2 & ys2 & E & HI2 & Hf2 & Hr2 & Hk2). rewrite E. cbn [lift]. rewrite Hnab.
      pose proof Hk2 as Hk2'. rewrite <- Hf2 in Hk2'.
      rewrite (not_at_end m Htab t Ht lx2 ys2 x r HI2 Hk2').
      destruct (sepp_ok m Htab t Ht sep ab f0 c lx2 ys2 st x r HI2 Hk2' Hsep) as (lx3 & ys3 & E3 & HI3 & Hf3 & Hr3 & Hk3). rewrite E3.
      destruct (c_start_sublex_spec m Htab t Ht lx3 ys3 HI3) as (lx4 & ys4 & E4 & HI4 & Hk4 & Hf4 & Hr4). rewrite E4. cbn [lift].
      assert (Hk4' : kept (c_filter lx4) ys4 = r) by (rewrite Hk4, Hf3; exact Hk3).
      destruct (IHlist n lx4 ys4 st vals' HI4 ltac:(congruence) Hk4' Hc) as (lx' & ys' & errs & HI' & Hf' & Hr' & Hk' & Hle & Eq).
      + cbn [length] in Hn. lia.
      + exists lx', ys', errs. split; [exact HI'|]. split; [congruence|]. split; [exact Hr'|].
        split; [rewrite <- Hf2, <- Hf3, <- Hf4; exact Hk'|]. split; [exact Hle|exact Eq].
  Qed.
End ListSeg.

(** * The public list combinators, with a sink *)

Section ListSegTop.
  Variable m : metrics.
  Hypothesis Htab : 1 <= tabw m.
  Variable t : text.
  Hypothesis Ht : wf_text t.
  Local Notation Inv := (Inv m t).

  (** what the list returns: the entries, and - when there are fewer than [lo] - one count error
      after the errors of the bad segments *)
  Definition list_store (c : ctx) (lo : nat) (hi : option nat) (st : store) (errs : list err) (vs : list val) (lx' : clexer) : store :=
    if length vs <? lo
    then logged st (errs ++ [apply_trail (trail c) (ECount (c_parse_span lx') (length vs) lo hi)])
    else logged st errs.

  Lemma list_with_seg a sep ab dflt lo hi f0 c lx ys st vs n s2 :
    in_core a = true -> (forall x r, in_kinds ab (e_tok x) = true -> peg a (x :: r) = Some PFail) ->
    gdepth a < f0 -> has_sink c = true -> Inv lx ys -> c_rec lx = None ->
    seg_list a sep ab dflt hi 0 (kept (c_filter lx) ys) vs n s2 -> 2 * length (kept (c_filter lx) ys) + 2 < S (S (S f0)) ->
    exists lx' ys' errs, Inv lx' ys' /\ c_filter lx' = c_filter lx /\ kept (c_filter lx) ys' = s2 /\ length errs = n
      /\ list_loop (run (S (S (S f0)))) (S (S (S f0))) hi ab dflt
           (GStabilize (GRecoverWith dflt (list_rref sep ab) (GUpTo a (sep :: ab))))
           (GStabilize (GMaybe (GUpTo a (sep :: ab))))
           (GRecoverWith VUnit (list_rref sep ab) (GDiscard (GOne sep))) c [] lx st
           (fun vals lx' st' =>
              match (match c_rec lx with Some _ => None | None => c_rec lx' end) with
              | Some _ => (RPanic, st')
              | None =>
                if length vals <? lo then
                  match send_error c (ECount (c_parse_span lx') (length vals) lo hi) (log st') with
                  | (_, Some e') => (RErr e', st')
                  | (l, None) => (ROk (VList vals) lx', st_log st' l)
                  end
                else (ROk (VList vals) lx', st')
              end)
         = (ROk (VList vs) lx', list_store c lo hi st errs vs lx').
  Proof using Htab Ht.
    intros Ha Hstart Hd Hsink HI Hl Hseg Hn.
    match goal with |- context [list_loop _ _ _ _ _ _ _ _ _ _ _ _ ?kk] =>
      destruct (list_loop_seg m Htab t Ht a sep ab Ha Hstart f0 Hd c Hsink dflt hi kk 0 _ vs n s2 Hseg
                  (S (S (S f0))) lx ys st [] HI Hl eq_refl eq_refl Hn) as (lx' & ys' & errs & HI' & Hf' & Hr' & Hk' & Hle & Eq)
    end.
    exists lx', ys', errs. split; [exact HI'|]. split; [exact Hf'|]. split; [exact Hk'|]. split; [exact Hle|].
    rewrite Eq, Hl, Hr'. cbn [app]. unfold list_store, send_error. rewrite Hsink.
    destruct (length vs <? lo); [|reflexivity].
    unfold logged, st_log. cbn [log found]. rewrite <- app_assoc. reflexivity.
  Qed.
End ListSegTop.

(** list_bounded_default (list_default is the instance lo = 0, hi = None): the fuel is named so that
    no step asks the kernel to unfold the interpreter *)
Theorem list_bounded_default_seg m (Htab : 1 <= tabw m) t (Ht : wf_text t) a sep ab lo hi f0 F c lx ys st vs n s2 :
  F = S (S (S f0)) -> hi <> Some 0 -> (forall h, hi = Some h -> lo <= h) ->
  in_core a = true -> (forall x r, in_kinds ab (e_tok x) = true -> peg a (x :: r) = Some PFail) ->
  gdepth a < f0 -> has_sink c = true -> Inv m t lx ys -> c_rec lx = None ->
  seg_list a sep ab VDflt hi 0 (kept (c_filter lx) ys) vs n s2 -> 2 * length (kept (c_filter lx) ys) + 2 < F ->
  exists lx' ys' errs, Inv m t lx' ys' /\ c_filter lx' = c_filter lx /\ kept (c_filter lx) ys' = s2 /\ length errs = n
    /\ run (S F) (GListBDef lo hi a sep ab) lx c st = (ROk (VList vs) lx', list_store c lo hi st errs vs lx').
Proof.
  intros HF Hh0 Hhi Ha Hstart Hd Hsink HI Hl Hseg Hn. rewrite HF in Hn.
  destruct (list_with_seg m Htab t Ht a sep ab VDflt lo hi f0 c lx ys st vs n s2 Ha Hstart Hd Hsink HI Hl Hseg Hn)
    as (lx' & ys' & errs & HI' & Hf' & Hk' & Hle & E).
  exists lx', ys', errs. split; [exact HI'|]. split; [exact Hf'|]. split; [exact Hk'|]. split; [exact Hle|].
  rewrite <- HF in E. cbn [run].
  destruct hi as [[|h]|]; [contradiction Hh0; reflexivity| |].
  - pose proof (Hhi (S h) eq_refl). destruct (Nat.ltb_spec (S h) lo); [lia|]. exact E.
  - exact E.
Qed.

(** list_bounded (list is the instance lo = 0, hi = None): entries are options, the placeholder is None *)
Theorem list_bounded_seg m (Htab : 1 <= tabw m) t (Ht : wf_text t) a sep ab lo hi f0 F c lx ys st vs n s2 :
  F = S (S (S f0)) -> hi <> Some 0 -> (forall h, hi = Some h -> lo <= h) ->
  in_core a = true -> (forall x r, in_kinds ab (e_tok x) = true -> peg a (x :: r) = Some PFail) ->
  S (gdepth a) < f0 -> has_sink c = true -> Inv m t lx ys -> c_rec lx = None ->
  seg_list (GSomeOf a) sep ab VNone hi 0 (kept (c_filter lx) ys) vs n s2 -> 2 * length (kept (c_filter lx) ys) + 2 < F ->
  exists lx' ys' errs, Inv m t lx' ys' /\ c_filter lx' = c_filter lx /\ kept (c_filter lx) ys' = s2 /\ length errs = n
    /\ run (S F) (GListB lo hi a sep ab) lx c st = (ROk (VList vs) lx', list_store c lo hi st errs vs lx').
Proof.
  intros HF Hh0 Hhi Ha Hstart Hd Hsink HI Hl Hseg Hn. rewrite HF in Hn.
  assert (Hstart' : forall x r, in_kinds ab (e_tok x) = true -> peg (GSomeOf a) (x :: r) = Some PFail).
  { intros x r Hx. cbn [peg]. rewrite (Hstart x r Hx). reflexivity. }
  destruct (list_with_seg m Htab t Ht (GSomeOf a) sep ab VNone lo hi f0 c lx ys st vs n s2 Ha Hstart' Hd Hsink HI Hl Hseg Hn)
    as (lx' & ys' & errs & HI' & Hf' & Hk' & Hle & E).
  exists lx', ys', errs. split; [exact HI'|]. split; [exact Hf'|]. split; [exact Hk'|]. split; [exact Hle|].
  rewrite <- HF in E. cbn [run].
  destruct hi as [[|h]|]; [contradiction Hh0; reflexivity| |].
  - pose proof (Hhi (S h) eq_refl). destruct (Nat.ltb_spec (S h) lo); [lia|]. exact E.
  - exact E.
Qed.

(** * What the segment reading says (pure list reasoning) *)

Scheme seg_list_min := Minimality for seg_list Sort Prop
  with seg_next_min := Minimality for seg_next Sort Prop.
Combined Scheme seg_mutual from seg_list_min, seg_next_min.

(** never more errors than entries (one per bad segment), and never more entries than the upper bound *)
Lemma seg_list_facts a sep ab dflt hi :
  (forall cnt s vs n s2, seg_list a sep ab dflt hi cnt s vs n s2 ->
     n <= length vs /\ (forall h, hi = Some h -> cnt < h -> cnt + length vs <= h)) /\
  (forall cnt s vs n s2, seg_next a sep ab dflt hi cnt s vs n s2 ->
     n <= length vs /\ (forall h, hi = Some h -> cnt <= h -> cnt + length vs <= h)).
Proof.
  apply seg_mutual.
  - intros cnt. cbn. split; [lia|intros; lia].
  - intros cnt x r _. cbn. split; [lia|intros; lia].
  - intros cnt x r v s1 vs n s2 _ _ _ _ [A B]. cbn [length]. split; [lia|]. intros h Eh Hc. pose proof (B h Eh ltac:(lia)). lia.
  - intros cnt x r pre y rest vs n s2 _ _ _ _ [A B]. cbn [length]. split; [lia|]. intros h Eh Hc. pose proof (B h Eh ltac:(lia)). lia.
  - intros cnt x r _ _ _. cbn. split; [lia|intros; lia].
  - intros cnt s _. cbn. split; [lia|intros; lia].
  - intros cnt _. cbn. split; [lia|intros; lia].
  - intros cnt x r _ _. cbn. split; [lia|intros; lia].
  - intros cnt x r vs n s2 Hge _ _ _ [A B]. split; [exact A|]. intros h Eh Hc. apply (B h Eh). subst hi. cbn [ge_opt] in Hge.
    apply Nat.leb_gt in Hge. exact Hge.
Qed.

(** every token list has a segment reading (for item parsers of the core fragment): the theorems
    above are not vacuous on any input *)
Lemma seg_reading_exists a sep ab dflt hi : in_core a = true ->
  forall n,
  (forall s, length s <= n -> boundary sep ab s -> forall cnt, exists vs k s2, seg_next a sep ab dflt hi cnt s vs k s2) /\
  (forall s, length s <= n -> forall cnt, exists vs k s2, seg_list a sep ab dflt hi cnt s vs k s2).
Proof.
  intros Ha. induction n as [|n [IHn IHl]].
  - split; intros s Hs; (destruct s as [|x r]; [|cbn in Hs; lia]).
    + intros _ cnt. destruct (ge_opt cnt hi) eqn:E; do 3 eexists; [apply sn_full; exact E|apply sn_nil; exact E].
    + intros cnt. do 3 eexists. apply sl_nil.
  - assert (Hnext : forall s, length s <= S n -> boundary sep ab s -> forall cnt, exists vs k s2, seg_next a sep ab dflt hi cnt s vs k s2).
    { intros s Hs Hb cnt. destruct (ge_opt cnt hi) eqn:E; [do 3 eexists; apply sn_full; exact E|].
      destruct s as [|x r]; [do 3 eexists; apply sn_nil; exact E|].
      destruct (in_kinds ab (e_tok x)) eqn:Eab; [do 3 eexists; apply sn_abort; assumption|].
      cbn [length] in Hs. destruct (IHl r ltac:(lia) cnt) as (vs & k & s2 & H).
      exists vs, k, s2. apply sn_sep; try assumption.
      cbn [boundary] in Hb. unfold in_kinds in Hb, Eab. cbn [existsb] in Hb. rewrite Eab, orb_false_r in Hb. exact Hb. }
    split; [exact Hnext|].
    intros s Hs cnt. destruct s as [|x r]; [do 3 eexists; apply sl_nil|].
    destruct (in_kinds ab (e_tok x)) eqn:Eab; [do 3 eexists; apply sl_abort; exact Eab|].
    destruct (peg_total a Ha (x :: r)) as [[v s1|] Hp].
    + assert (Hdec : boundary sep ab s1 \/ bad a sep ab (x :: r)).
      { destruct s1 as [|y q]; [left; exact I|]. destruct (in_kinds (sep :: ab) (e_tok y)) eqn:Ey; [left; exact Ey|].
        right. right. exists v, y, q. split; [exact Hp|exact Ey]. }
      destruct Hdec as [Hb|Hbad].
      * pose proof (RunFuel.peg_len a (x :: r) v s1 Hp) as Hl.
        destruct (Hnext s1 ltac:(lia) Hb (S cnt)) as (vs & k & s2 & H).
        do 3 eexists. eapply sl_good; eassumption.
      * destruct (find_first (sep :: ab) (x :: r)) as [[[pre y] rest]|] eqn:Eff.
        -- pose proof (find_first_spec (sep :: ab) (x :: r)) as Hsp. rewrite Eff in Hsp. destruct Hsp as (Es & _ & Hy).
           assert (Hl : length (y :: rest) <= S n) by (rewrite Es, app_length in Hs; lia).
           destruct (Hnext (y :: rest) Hl Hy (S cnt)) as (vs & k & s2 & H).
           do 3 eexists. eapply sl_bad; eassumption.
        -- do 3 eexists. eapply sl_bad_last; eassumption.
    + assert (Hbad : bad a sep ab (x :: r)) by (left; exact Hp).
      destruct (find_first (sep :: ab) (x :: r)) as [[[pre y] rest]|] eqn:Eff.
      * pose proof (find_first_spec (sep :: ab) (x :: r)) as Hsp. rewrite Eff in Hsp. destruct Hsp as (Es & _ & Hy).
        assert (Hl : length (y :: rest) <= S n) by (rewrite Es, app_length in Hs; lia).
        destruct (Hnext (y :: rest) Hl Hy (S cnt)) as (vs & k & s2 & H).
        do 3 eexists. eapply sl_bad; eassumption.
      * do 3 eexists. eapply sl_bad_last; eassumption.
Qed.

(** * Without a sink: the first bad segment's error is returned *)

Lemma in_core_noprobe a : in_core a = true -> noprobe a = true.
Proof.
  induction a; cbn [in_core noprobe]; intros H; try discriminate H; try reflexivity;
    repeat match goal with Hc : _ && _ = true |- _ => apply andb_prop in Hc; destruct Hc end;
    repeat (apply andb_true_intro; split); auto.
Qed.

Section ListSegNoSink.
  Variable m : metrics.
  Hypothesis Htab : 1 <= tabw m.
  Variable t : text.
  Hypothesis Ht : wf_text t.
  Local Notation Inv := (Inv m t).

  Variable a : G.
  Variable sep : kind.
  Variable ab : list kind.
  Hypothesis Ha : in_core a = true.
  Variable f0 : nat.
  Hypothesis Hd : gdepth a < f0.
  Variable c : ctx.
  Hypothesis Hnosink : has_sink c = false.
  Variable dflt : val.
  Variable hi : option nat.

  Local Notation soa := (sep :: ab).
  Local Notation rr := (list_rref sep ab).
  Local Notation inner := (GRecoverWith dflt rr (GUpTo a soa)).
  Local Notation item := (GStabilize inner).
  Local Notation probe := (GStabilize (GMaybe (GUpTo a soa))).
  Local Notation sepp := (GRecoverWith VUnit rr (GDiscard (GOne sep))).
  Local Notation f := (S (S (S f0))).

  (** good segments up to the first bad one; the upper bound is not reached before it *)
  Inductive first_bad : nat -> list entry -> Prop :=
  | fb_here cnt x r : in_kinds ab (e_tok x) = false -> bad a sep ab (x :: r) -> first_bad cnt (x :: r)
  | fb_later cnt x r v y s1 :
      in_kinds ab (e_tok x) = false -> peg a (x :: r) = Some (POk v (y :: s1)) ->
      ge_opt (S cnt) hi = false -> in_kinds ab (e_tok y) = false -> tok_eqb (tk0 sep) (e_tok y) = true ->
      first_bad (S cnt) s1 -> first_bad cnt (x :: r).

  (** the item wrapper on a bad segment, no sink: the error comes back, nothing else happens *)
  Lemma item_bad_nosink lx ys st : Inv lx ys -> c_rec lx = None -> bad a sep ab (kept (c_filter lx) ys) ->
    exists e, run f item lx c st = (RErr e, st) /\ run (S f0) (GUpTo a soa) lx c st = (RErr e, st).
  Proof using Htab Ht Ha Hd Hnosink.
    intros HI Hl Hbad. destruct (upto_bad m Htab t Ht a sep ab Ha f0 Hd c lx ys st HI Hbad) as (e & Eu).
    exists e. split; [|exact Eu].
    change (run f item lx c st) with (stab_loop (run (S (S f0))) (S (S f0)) 0 inner c lx (run (S (S f0)) inner lx c st)).
    assert (Ei : run (S (S f0)) inner lx c st = (RErr e, st)).
    { cbn [run]. cbn [run] in Eu. rewrite Eu. unfold send_error. rewrite Hnosink. reflexivity. }
    rewrite Ei. cbn [stab_loop]. rewrite Hl. reflexivity.
  Qed.

  Lemma list_loop_first_bad (k : list val -> clexer -> store -> R) :
    forall cnt s, first_bad cnt s ->
    forall n lx ys st vals, Inv lx ys -> c_rec lx = None -> kept (c_filter lx) ys = s -> length vals = cnt ->
    2 * length s + 2 < n ->
    exists e, list_loop (run f) n hi ab dflt item probe sepp c vals lx st k = (RErr e, st).
  Proof using Htab Ht Ha Hd Hnosink.
    intros cnt s Hfb. induction Hfb as [cnt x r Hnab Hbad|cnt x r v y s1 Hnab Hp Hge Hyab Hysep Hfb IH];
      intros n lx ys st vals HI Hl Hk Hc Hn; (destruct n as [|n]; [lia|]); cbn [list_loop].
    - destruct (peek_cons m Htab t Ht lx ys x r HI Hk) as (lx0 & ys0 & E & HI0 & Hf0 & Hr0 & Hk0). rewrite E. cbn [lift]. rewrite Hnab.
      assert (Hbad0 : bad a sep ab (kept (c_filter lx0) ys0)) by (rewrite Hf0, Hk0; exact Hbad).
      destruct (item_bad_nosink lx0 ys0 st HI0 ltac:(congruence) Hbad0) as (e & Ei & _). rewrite Ei.
      (* the sink-less run never returns the recovery error *)
      pose proof (no_sink_good f item (in_core_noprobe a Ha) lx0 c st Hnosink ltac:(congruence)) as Hg.
      rewrite Ei in Hg. destruct Hg as [Hne _]. exists e. destruct e; try reflexivity. contradiction Hne. reflexivity.
    - destruct (peek_cons m Htab t Ht lx ys x r HI Hk) as (lx0 & ys0 & E & HI0 & Hf0 & Hr0 & Hk0). rewrite E. cbn [lift]. rewrite Hnab.
      assert (Hp0 : peg a (kept (c_filter lx0) ys0) = Some (POk v (y :: s1))) by (rewrite Hf0, Hk0; exact Hp).
      destruct (item_ok m Htab t Ht a sep ab Ha f0 Hd c dflt lx0 ys0 st v (y :: s1) HI0 ltac:(congruence) Hp0 (in_soa_sep sep ab y Hysep))
        as (lx1 & ys1 & E1 & HI1 & Hf1 & Hr1 & Hk1).
      rewrite E1. cbn zeta. rewrite app_length. cbn [length]. rewrite Hc. replace (cnt + 1) with (S cnt) by lia. rewrite Hge.
      assert (Hk1' : kept (c_filter lx1) ys1 = y :: s1) by (rewrite Hf1; exact Hk1).
      destruct (peek_cons m Htab t Ht lx1 ys1 y s1 HI1 Hk1') as (lx2 & ys2 & E2 & HI2 & Hf2 & Hr2 & Hk2). rewrite E2. cbn [lift]. rewrite Hyab.
      pose proof Hk2 as Hk2'. rewrite <- Hf2 in Hk2'.
      rewrite (not_at_end m Htab t Ht lx2 ys2 y s1 HI2 Hk2').
      destruct (sepp_ok m Htab t Ht sep ab f0 c lx2 ys2 st y s1 HI2 Hk2' Hysep) as (lx3 & ys3 & E3 & HI3 & Hf3 & Hr3 & Hk3). rewrite E3.
      destruct (c_start_sublex_spec m Htab t Ht lx3 ys3 HI3) as (lx4 & ys4 & E4 & HI4 & Hk4 & Hf4 & Hr4). rewrite E4. cbn [lift].
      assert (Hk4' : kept (c_filter lx4) ys4 = s1) by (rewrite Hk4, Hf3; exact Hk3).
      apply (IH n lx4 ys4 st (vals ++ [v]) HI4 ltac:(congruence) Hk4').
      + rewrite app_length. cbn. lia.
      + pose proof (RunFuel.peg_len a (x :: r) v (y :: s1) Hp) as Hlen. cbn [length] in *. lia.
  Qed.
End ListSegNoSink.

Theorem list_bounded_default_first_bad m (Htab : 1 <= tabw m) t (Ht : wf_text t) a sep ab lo hi f0 F c lx ys st :
  F = S (S (S f0)) -> hi <> Some 0 -> (forall h, hi = Some h -> lo <= h) ->
  in_core a = true -> gdepth a < f0 -> has_sink c = false -> Inv m t lx ys -> c_rec lx = None ->
  first_bad a sep ab hi 0 (kept (c_filter lx) ys) -> 2 * length (kept (c_filter lx) ys) + 2 < F ->
  exists e, run (S F) (GListBDef lo hi a sep ab) lx c st = (RErr e, st).
Proof.
  intros HF Hh0 Hhi Ha Hd Hns HI Hl Hfb Hn. rewrite HF in Hn.
  assert (Hloop : forall k, exists e, list_loop (run (S (S (S f0)))) (S (S (S f0))) hi ab VDflt
             (GStabilize (GRecoverWith VDflt (list_rref sep ab) (GUpTo a (sep :: ab))))
             (GStabilize (GMaybe (GUpTo a (sep :: ab))))
             (GRecoverWith VUnit (list_rref sep ab) (GDiscard (GOne sep))) c [] lx st k = (RErr e, st)).
  { intros k. exact (list_loop_first_bad m Htab t Ht a sep ab Ha f0 Hd c Hns VDflt hi k 0 _ Hfb (S (S (S f0))) lx ys st [] HI Hl eq_refl eq_refl Hn). }
  rewrite <- HF in Hloop. cbn [run].
  destruct hi as [[|h]|]; [contradiction Hh0; reflexivity| |].
  - pose proof (Hhi (S h) eq_refl). destruct (Nat.ltb_spec (S h) lo); [lia|]. apply Hloop.
  - apply Hloop.
Qed.

Theorem list_bounded_first_bad m (Htab : 1 <= tabw m) t (Ht : wf_text t) a sep ab lo hi f0 F c lx ys st :
  F = S (S (S f0)) -> hi <> Some 0 -> (forall h, hi = Some h -> lo <= h) ->
  in_core a = true -> S (gdepth a) < f0 -> has_sink c = false -> Inv m t lx ys -> c_rec lx = None ->
  first_bad (GSomeOf a) sep ab hi 0 (kept (c_filter lx) ys) -> 2 * length (kept (c_filter lx) ys) + 2 < F ->
  exists e, run (S F) (GListB lo hi a sep ab) lx c st = (RErr e, st).
Proof.
  intros HF Hh0 Hhi Ha Hd Hns HI Hl Hfb Hn. rewrite HF in Hn.
  assert (Hloop : forall k, exists e, list_loop (run (S (S (S f0)))) (S (S (S f0))) hi ab VNone
             (GStabilize (GRecoverWith VNone (list_rref sep ab) (GUpTo (GSomeOf a) (sep :: ab))))
             (GStabilize (GMaybe (GUpTo (GSomeOf a) (sep :: ab))))
             (GRecoverWith VUnit (list_rref sep ab) (GDiscard (GOne sep))) c [] lx st k = (RErr e, st)).
  { intros k. exact (list_loop_first_bad m Htab t Ht (GSomeOf a) sep ab Ha f0 Hd c Hns VNone hi k 0 _ Hfb (S (S (S f0))) lx ys st [] HI Hl eq_refl eq_refl Hn). }
  rewrite <- HF in Hloop. cbn [run].
  destruct hi as [[|h]|]; [contradiction Hh0; reflexivity| |].
  - pose proof (Hhi (S h) eq_refl). destruct (Nat.ltb_spec (S h) lo); [lia|]. apply Hloop.
  - apply Hloop.
Qed.
