(** C06 + C07, whole fragment: on every grammar [PegRep.peg2] covers - primitives incl. seq_count and
    end_of_text, sequencing, ordered choice, option, conditionals, implications, sub, the context
    wrappers, and ALL repetition / interspersal combinators (bounds, until-variants, counting
    variants), nested arbitrarily - the interpreter, started on a lexer standing anywhere in the
    sequential scan, either runs out of fuel or returns exactly what the specification says: the
    same verdict, the same value, a lexer whose deliverable tokens are exactly the remaining ones,
    with the filter and recover state it started with, and an untouched store.

    (RunTerm.run_terminates bounds the fuel that is enough, so "runs out of fuel" is excluded
    for the fuel the checks use.) *)
From Tephra Require Import MetricsSpec MetricsFacts CLexer LexerFacts LexerFin Run Peg PegRep RunCore.

Section RunPeg.
  Variable m : metrics.
  Hypothesis Htab : 1 <= tabw m.
  Variable t : text.
  Hypothesis Ht : wf_text t.
  Local Notation Inv := (Inv m t).
  Local Notation clean := (clean t).

  (** * The lexer interface, with "stands further along the same scan" *)

  Lemma next_cons2 lx ys x s : Inv lx ys -> kept (c_filter lx) ys = x :: s ->
    exists lx' ys', c_next lx = Ok (Some (e_tok x), lx') /\ Inv lx' ys'
      /\ c_filter lx' = c_filter lx /\ c_rec lx' = c_rec lx /\ kept (c_filter lx) ys' = s /\ reach lx ys lx' ys'.
  Proof using Htab Ht.
    intros HI Hk. destruct (next_cons m Htab t Ht lx ys x s HI Hk) as (lx' & ys' & E & HI' & Hf & Hr & Hk' & _).
    exists lx', ys'. repeat (split; [assumption|]). exact (next_reach m Htab t Ht lx ys _ lx' ys' HI E HI').
  Qed.

  Lemma next_nil2 lx ys : Inv lx ys -> kept (c_filter lx) ys = [] ->
    exists lx', c_next lx = Ok (None, lx') /\ Inv lx' [] /\ c_filter lx' = c_filter lx /\ c_rec lx' = c_rec lx
      /\ reach lx ys lx' [] /\ c_at_end lx' = clean lx ys.
  Proof using Htab Ht.
    intros HI Hk. destruct (next_nil m Htab t Ht lx ys HI Hk) as (lx' & E & HI' & Hf & Hr).
    exists lx'. repeat (split; [assumption|]). split; [exact (next_reach m Htab t Ht lx ys _ lx' [] HI E HI')|].
    exact (next_none_at_end m Htab t Ht lx ys lx' HI E HI').
  Qed.

  Lemma peek_cons2 lx ys x s : Inv lx ys -> kept (c_filter lx) ys = x :: s ->
    exists lx' ys', c_peek lx = Ok (Some (e_tok x), lx') /\ Inv lx' ys'
      /\ c_filter lx' = c_filter lx /\ c_rec lx' = c_rec lx /\ kept (c_filter lx) ys' = x :: s /\ reach lx ys lx' ys'.
  Proof using Htab Ht.
    intros HI Hk. destruct (peek_cons m Htab t Ht lx ys x s HI Hk) as (lx' & ys' & E & HI' & Hf & Hr & Hk').
    exists lx', ys'. repeat (split; [assumption|]). exact (peek_reach m Htab t Ht lx ys _ lx' ys' HI E HI').
  Qed.

  Lemma peek_nil2 lx ys : Inv lx ys -> kept (c_filter lx) ys = [] ->
    exists lx' ys', c_peek lx = Ok (None, lx') /\ Inv lx' ys'
      /\ c_filter lx' = c_filter lx /\ c_rec lx' = c_rec lx /\ kept (c_filter lx) ys' = [] /\ reach lx ys lx' ys'.
  Proof using Htab Ht.
    intros HI Hk. destruct (peek_nil m Htab t Ht lx ys HI Hk) as (lx' & ys' & E & HI' & Hf & Hr & Hk').
    exists lx', ys'. repeat (split; [assumption|]). exact (peek_reach m Htab t Ht lx ys _ lx' ys' HI E HI').
  Qed.

  (** * Agreement with a specification result *)

  Definition ag2 (r : pres) (lx : clexer) (ys : list entry) (o : R) (st : store) : Prop :=
    match r with
    | POk v s' => exists lx' ys', o = (ROk v lx', st) /\ Inv lx' ys'
                    /\ c_filter lx' = c_filter lx /\ c_rec lx' = c_rec lx /\ kept (c_filter lx) ys' = s'
                    /\ reach lx ys lx' ys'
    | PFail => exists e, o = (RErr e, st)
    end.

  Definition ag (r : pres) (lx : clexer) (ys : list entry) (o : R) (st : store) : Prop :=
    fst o = RFuel \/ ag2 r lx ys o st.

  (** a parser function meets a specification function (for scans that end cleanly or not: [cl]) *)
  Definition meets (cl : bool) (p : list entry -> option pres) (P : clexer -> store -> R) : Prop :=
    forall lx ys st r, Inv lx ys -> clean lx ys = cl -> p (kept (c_filter lx) ys) = Some r -> ag r lx ys (P lx st) st.

  Lemma ag_ok v lx ys lx' ys' st : Inv lx' ys' -> c_filter lx' = c_filter lx -> c_rec lx' = c_rec lx ->
    reach lx ys lx' ys' -> ag (POk v (kept (c_filter lx) ys')) lx ys (ROk v lx', st) st.
  Proof. intros HI Hf Hr Hre. right. exists lx', ys'. repeat (split; [first [reflexivity|assumption]|]). assumption. Qed.

  Lemma ag_here v lx ys st : Inv lx ys -> ag (POk v (kept (c_filter lx) ys)) lx ys (ROk v lx, st) st.
  Proof. intros HI. apply ag_ok; [exact HI|reflexivity|reflexivity|apply reach_refl]. Qed.

  Lemma ag_err lx ys e st : ag PFail lx ys (RErr e, st) st.
  Proof. right. exists e. reflexivity. Qed.

  Lemma ag_fuel r lx ys st st' : ag r lx ys (RFuel, st') st.
  Proof. left. reflexivity. Qed.

  (** agreement from a lexer further along, with the same filter / recover state *)
  Lemma ag_from r lx ys lx1 ys1 o st : reach lx ys lx1 ys1 -> c_filter lx1 = c_filter lx -> c_rec lx1 = c_rec lx ->
    ag r lx1 ys1 o st -> ag r lx ys o st.
  Proof.
    intros Hre Hf Hr [H|H]; [left; exact H|]. right. destruct r as [v s'|]; [|exact H].
    destruct H as (lx' & ys' & E & HI & A & B & C & D). exists lx', ys'.
    split; [exact E|]. split; [exact HI|]. split; [congruence|]. split; [congruence|].
    split; [rewrite <- Hf; exact C|]. exact (reach_trans _ _ _ _ _ _ Hre D).
  Qed.

  Lemma ag_map f r lx ys o st : ag r lx ys o st ->
    ag (match r with POk v s => POk (f v) s | PFail => PFail end) lx ys (map_val f o) st.
  Proof.
    intros [H|H].
    - left. destruct o as [[v l|e| |] s']; cbn in H |- *; try discriminate H; reflexivity.
    - right. destruct r as [v s'|].
      + destruct H as (lx' & ys' & -> & H). exists lx', ys'. split; [reflexivity|exact H].
      + destruct H as (e & ->). exists e. reflexivity.
  Qed.

  Lemma pmap_some f ra r : pmap f ra = Some r ->
    exists r0, ra = Some r0 /\ r = match r0 with POk v s => POk (f v) s | PFail => PFail end.
  Proof. destruct ra as [[v s|]|]; cbn [pmap pbind]; intros H; inversion H; eexists; split; reflexivity. Qed.

  (** sequencing: the continuation runs from wherever the first part left the lexer *)
  Lemma ag_on_ok ra r lx ys R1 k st : ag ra lx ys R1 st ->
    match ra with
    | POk v s1 => forall lx1 ys1, Inv lx1 ys1 -> c_filter lx1 = c_filter lx -> c_rec lx1 = c_rec lx ->
                    kept (c_filter lx) ys1 = s1 -> reach lx ys lx1 ys1 -> ag r lx ys (k v lx1 st) st
    | PFail => r = PFail
    end -> ag r lx ys (on_ok R1 k) st.
  Proof.
    intros [H|H] Hk.
    - left. destruct R1 as [[v l|e| |] s']; cbn in H |- *; try discriminate H; reflexivity.
    - destruct ra as [v s1|].
      + destruct H as (lx1 & ys1 & -> & HI & A & B & C & D). cbn [on_ok]. exact (Hk lx1 ys1 HI A B C D).
      + destruct H as (e & ->). subst r. cbn [on_ok]. apply ag_err.
  Qed.

  (** a specification met at entry is met from every lexer further along the scan *)
  Lemma meets_later cl p P : meets cl p P -> forall lx ys lx1 ys1 st r, clean lx ys = cl ->
    Inv lx1 ys1 -> c_filter lx1 = c_filter lx -> c_rec lx1 = c_rec lx -> reach lx ys lx1 ys1 ->
    p (kept (c_filter lx) ys1) = Some r -> ag r lx ys (P lx1 st) st.
  Proof.
    intros Hm lx ys lx1 ys1 st r Hc HI Hf Hr Hre Hp. apply (ag_from r lx ys lx1 ys1 _ st Hre Hf Hr).
    apply Hm; [exact HI|rewrite (reach_clean t _ _ _ _ Hre); exact Hc|rewrite Hf; exact Hp].
  Qed.

  (** * Repetition *)

  Section LoopSound.
    Variable cl : bool.
    Variable unitp : list entry -> option pres.
    Variable stopp : option (list entry -> option pres).
    Variable step : clexer -> store -> R.
    Variable stop : option (clexer -> store -> R).
    Hypothesis Hstep : meets cl unitp step.
    Hypothesis Hstop : match stopp, stop with
                       | None, None => True
                       | Some p, Some P => meets cl p P
                       | _, _ => False
                       end.

    Lemma stop_case vals cur ys st (go : store -> R) r sh : Inv cur ys -> clean cur ys = cl ->
      stop_hit stopp (kept (c_filter cur) ys) = Some sh ->
      (sh = true -> r = POk (VList vals) (kept (c_filter cur) ys)) ->
      (sh = false -> ag r cur ys (go st) st) ->
      ag r cur ys
         (match stop with
          | None => go st
          | Some sp =>
            match sp cur st with
            | (ROk _ _, st') => (ROk (VList vals) cur, st')
            | (RErr _, st') => go st'
            | r0 => r0
            end
          end) st.
    Proof.
      intros HI Hc Hsh Ht' Hf'. unfold stop_hit in Hsh. destruct stopp as [p|], stop as [P|]; try contradiction.
      - destruct (p (kept (c_filter cur) ys)) as [[v s'|]|] eqn:Ep; try discriminate Hsh; injection Hsh as <-.
        + destruct (Hstop cur ys st _ HI Hc Ep) as [H|(lx' & ys' & E & _)].
          * destruct (P cur st) as [[? ?|?| |] ?]; cbn in H; try discriminate H. apply ag_fuel.
          * rewrite E. rewrite (Ht' eq_refl). apply ag_here. exact HI.
        + destruct (Hstop cur ys st _ HI Hc Ep) as [H|(e & E)].
          * destruct (P cur st) as [[? ?|?| |] ?]; cbn in H; try discriminate H. apply ag_fuel.
          * rewrite E. exact (Hf' eq_refl).
      - injection Hsh as <-. exact (Hf' eq_refl).
    Qed.

    Lemma opt_sound : forall n ns lo hi vals cur ys st r, Inv cur ys -> clean cur ys = cl -> lo <= length vals ->
      prep unitp stopp ns lo hi vals (kept (c_filter cur) ys) = Some r ->
      ag r cur ys (opt_loop n hi stop step vals cur st) st.
    Proof.
      induction n as [|n IH]; intros ns lo hi vals cur ys st r HI Hc Hlo Hp; [apply ag_fuel|].
      destruct ns as [|ns]; [discriminate Hp|]. cbn [prep] in Hp. cbn [opt_loop].
      destruct (Nat.ltb_spec (length vals) lo) as [Hlt|_]; [lia|].
      destruct (lt_opt (length vals) hi).
      2:{ injection Hp as <-. apply ag_here. exact HI. }
      destruct (stop_hit stopp (kept (c_filter cur) ys)) as [sh|] eqn:Esh; [|discriminate Hp].
      match goal with
      | |- ag _ _ _ (match stop with None => ?g | Some _ => _ end) _ =>
        let gf := eval pattern st in g in
        match gf with ?F _ => apply (stop_case vals cur ys st F r sh HI Hc Esh) end
      end.
      - intros ->. injection Hp as <-. reflexivity.
      - intros ->. destruct (unitp (kept (c_filter cur) ys)) as [[v s'|]|] eqn:Eu; [| |discriminate Hp].
        + destruct (Hstep cur ys st _ HI Hc Eu) as [H|(lx' & ys' & E & HI' & Hf & Hr & Hk & Hre)].
          * destruct (step cur st) as [[? ?|?| |] ?]; cbn in H; try discriminate H. apply ag_fuel.
          * rewrite E. cbn zeta. destruct (ge_opt (length (vals ++ [v])) hi).
            -- injection Hp as <-. rewrite <- Hk. apply ag_ok; assumption.
            -- apply (ag_from r cur ys lx' ys' _ st Hre Hf Hr).
               apply (IH ns lo hi (vals ++ [v]) lx' ys' st r HI').
               ++ rewrite (reach_clean t _ _ _ _ Hre). exact Hc.
               ++ rewrite app_length. cbn. lia.
               ++ rewrite Hf, Hk. exact Hp.
        + destruct (Hstep cur ys st _ HI Hc Eu) as [H|(e & E)].
          * destruct (step cur st) as [[? ?|?| |] ?]; cbn in H; try discriminate H. apply ag_fuel.
          * rewrite E. injection Hp as <-. apply ag_here. exact HI.
    Qed.

    Lemma mand_sound N : forall n ns lo hi vals cur ys st r, Inv cur ys -> clean cur ys = cl ->
      prep unitp stopp ns lo hi vals (kept (c_filter cur) ys) = Some r ->
      ag r cur ys (mand_loop n lo stop step vals cur st (fun vals0 cur0 st2 => opt_loop N hi stop step vals0 cur0 st2)) st.
    Proof.
      induction n as [|n IH]; intros ns lo hi vals cur ys st r HI Hc Hp; [apply ag_fuel|].
      destruct ns as [|ns]; [discriminate Hp|]. pose proof Hp as Hp0. cbn [prep] in Hp. cbn [mand_loop].
      destruct (Nat.ltb_spec (length vals) lo) as [Hlt|Hge].
      2:{ exact (opt_sound N (S ns) lo hi vals cur ys st r HI Hc Hge Hp0). }
      destruct (stop_hit stopp (kept (c_filter cur) ys)) as [sh|] eqn:Esh; [|discriminate Hp].
      match goal with
      | |- ag _ _ _ (match stop with None => ?g | Some _ => _ end) _ =>
        let gf := eval pattern st in g in
        match gf with ?F _ => apply (stop_case vals cur ys st F r sh HI Hc Esh) end
      end.
      - intros ->. injection Hp as <-. reflexivity.
      - intros ->. destruct (unitp (kept (c_filter cur) ys)) as [[v s'|]|] eqn:Eu; [| |discriminate Hp].
        + destruct (Hstep cur ys st _ HI Hc Eu) as [H|(lx' & ys' & E & HI' & Hf & Hr & Hk & Hre)].
          * destruct (step cur st) as [[? ?|?| |] ?]; cbn in H; try discriminate H. apply ag_fuel.
          * rewrite E. apply (ag_from r cur ys lx' ys' _ st Hre Hf Hr).
            apply (IH ns lo hi (vals ++ [v]) lx' ys' st r HI').
            -- rewrite (reach_clean t _ _ _ _ Hre). exact Hc.
            -- rewrite Hf, Hk. exact Hp.
        + destruct (Hstep cur ys st _ HI Hc Eu) as [H|(e & E)].
          * destruct (step cur st) as [[? ?|?| |] ?]; cbn in H; try discriminate H. apply ag_fuel.
          * rewrite E. injection Hp as <-. apply ag_err.
    Qed.
  End LoopSound.

  (** "separator then item", as one unit *)
  Lemma right_meets cl f (s a : G) c :
    meets cl (peg2 cl s) (fun lx st => run f s lx c st) -> meets cl (peg2 cl a) (fun lx st => run f a lx c st) ->
    meets cl (pright (peg2 cl s) (peg2 cl a)) (right_of (run f) s a c).
  Proof.
    intros Hs Ha lx ys st r HI Hc Hp. unfold pright in Hp. unfold right_of.
    destruct (peg2 cl s (kept (c_filter lx) ys)) as [[v s1|]|] eqn:Es; cbn [pbind] in Hp; [| |discriminate Hp].
    - apply (ag_on_ok _ r lx ys _ _ st (Hs lx ys st _ HI Hc Es)).
      intros lx1 ys1 HI1 Hf Hr Hk Hre. rewrite <- Hk in Hp.
      exact (meets_later cl _ _ Ha lx ys lx1 ys1 st r Hc HI1 Hf Hr Hre Hp).
    - injection Hp as <-. apply (ag_on_ok _ PFail lx ys _ _ st (Hs lx ys st _ HI Hc Es)). reflexivity.
  Qed.

  Lemma intersperse_sound cl f lo hi (a s : G) c :
    meets cl (peg2 cl s) (fun lx st => run f s lx c st) -> meets cl (peg2 cl a) (fun lx st => run f a lx c st) ->
    meets cl (prep_top (pright (peg2 cl s) (peg2 cl a)) None (peg2 cl a) lo hi)
          (fun lx st => run_intersperse (run f) f lo hi a s lx c st).
  Proof.
    intros Hs Ha lx ys st r HI Hc Hp. pose proof (right_meets cl f s a c Hs Ha) as Hu.
    unfold prep_top in Hp. unfold run_intersperse, hi_check.
    assert (Hbody : match stop_hit None (kept (c_filter lx) ys) with
                    | None => None
                    | Some true => Some (POk (VList []) (kept (c_filter lx) ys))
                    | Some false =>
                      match peg2 cl a (kept (c_filter lx) ys) with
                      | Some (POk v s1) => prep (pright (peg2 cl s) (peg2 cl a)) None (rep_fuel lo hi s1) lo hi [v] s1
                      | Some PFail => if lo =? 0 then Some (POk (VList []) (kept (c_filter lx) ys)) else Some PFail
                      | None => None
                      end
                    end = Some r ->
              ag r lx ys
                 (match run f a lx c st with
                  | (ROk v lx1, st1) =>
                    mand_loop f lo None (right_of (run f) s a c) [v] lx1 st1
                      (fun vals cur st2 => opt_loop f hi None (right_of (run f) s a c) vals cur st2)
                  | (RErr e, st1) => if lo =? 0 then (ROk (VList []) lx, st1) else (RErr e, st1)
                  | r0 => r0
                  end) st).
    { cbn [stop_hit]. intros Hb.
      destruct (peg2 cl a (kept (c_filter lx) ys)) as [[v s1|]|] eqn:Ea; [| |discriminate Hb].
      - destruct (Ha lx ys st _ HI Hc Ea) as [H|(lx1 & ys1 & E & HI1 & Hf & Hr & Hk & Hre)].
        + destruct (run f a lx c st) as [[? ?|?| |] ?]; cbn in H; try discriminate H. apply ag_fuel.
        + rewrite E. apply (ag_from r lx ys lx1 ys1 _ st Hre Hf Hr).
          apply (mand_sound cl _ None _ None Hu I f f (rep_fuel lo hi s1) lo hi [v] lx1 ys1 st r HI1).
          * rewrite (reach_clean t _ _ _ _ Hre). exact Hc.
          * rewrite Hf, Hk. exact Hb.
      - destruct (Ha lx ys st _ HI Hc Ea) as [H|(e & E)].
        + destruct (run f a lx c st) as [[? ?|?| |] ?]; cbn in H; try discriminate H. apply ag_fuel.
        + rewrite E. destruct (lo =? 0); injection Hb as <-; [apply ag_here; exact HI|apply ag_err]. }
    destruct hi as [h|]; [|exact (Hbody Hp)].
    destruct (h <? lo); [discriminate Hp|]. destruct (h =? 0); [|exact (Hbody Hp)].
    injection Hp as <-. apply ag_here. exact HI.
  Qed.

  Lemma intersperse_until_sound cl f lo hi (sp a s : G) c :
    meets cl (peg2 cl sp) (fun lx st => run f sp lx c st) ->
    meets cl (peg2 cl s) (fun lx st => run f s lx c st) -> meets cl (peg2 cl a) (fun lx st => run f a lx c st) ->
    meets cl (prep_top (pright (peg2 cl s) (peg2 cl a)) (Some (peg2 cl sp)) (peg2 cl a) lo hi)
          (fun lx st => run_intersperse_until (run f) f lo hi sp a s lx c st).
  Proof.
    intros Hsp Hs Ha lx ys st r HI Hc Hp. pose proof (right_meets cl f s a c Hs Ha) as Hu.
    unfold prep_top in Hp. unfold run_intersperse_until, hi_check.
    set (stopf := fun (l : clexer) (st0 : store) => run f sp l c st0).
    assert (Hbody : match stop_hit (Some (peg2 cl sp)) (kept (c_filter lx) ys) with
                    | None => None
                    | Some true => Some (POk (VList []) (kept (c_filter lx) ys))
                    | Some false =>
                      match peg2 cl a (kept (c_filter lx) ys) with
                      | Some (POk v s1) => prep (pright (peg2 cl s) (peg2 cl a)) (Some (peg2 cl sp)) (rep_fuel lo hi s1) lo hi [v] s1
                      | Some PFail => if lo =? 0 then Some (POk (VList []) (kept (c_filter lx) ys)) else Some PFail
                      | None => None
                      end
                    end = Some r ->
              ag r lx ys
                 (match stopf lx st with
                  | (ROk _ _, st0) => (ROk (VList []) lx, st0)
                  | (RErr _, st0) =>
                    match run f a lx c st0 with
                    | (ROk v lx1, st1) =>
                      mand_loop f lo (Some stopf) (right_of (run f) s a c) [v] lx1 st1
                        (fun vals cur st2 => opt_loop f hi (Some stopf) (right_of (run f) s a c) vals cur st2)
                    | (RErr e, st1) => if lo =? 0 then (ROk (VList []) lx, st1) else (RErr e, st1)
                    | r0 => r0
                    end
                  | r0 => r0
                  end) st).
    { intros Hb. destruct (stop_hit (Some (peg2 cl sp)) (kept (c_filter lx) ys)) as [sh|] eqn:Esh; [|discriminate Hb].
      apply (stop_case cl (Some (peg2 cl sp)) (Some stopf) Hsp [] lx ys st
               (fun st0 => match run f a lx c st0 with
                           | (ROk v lx1, st1) =>
                             mand_loop f lo (Some stopf) (right_of (run f) s a c) [v] lx1 st1
                               (fun vals cur st2 => opt_loop f hi (Some stopf) (right_of (run f) s a c) vals cur st2)
                           | (RErr e, st1) => if lo =? 0 then (ROk (VList []) lx, st1) else (RErr e, st1)
                           | r0 => r0
                           end) r sh HI Hc Esh).
      - intros ->. injection Hb as <-. reflexivity.
      - intros ->.
        destruct (peg2 cl a (kept (c_filter lx) ys)) as [[v s1|]|] eqn:Ea; [| |discriminate Hb].
        + destruct (Ha lx ys st _ HI Hc Ea) as [H|(lx1 & ys1 & E & HI1 & Hf & Hr & Hk & Hre)].
          * destruct (run f a lx c st) as [[? ?|?| |] ?]; cbn in H; try discriminate H. apply ag_fuel.
          * rewrite E. apply (ag_from r lx ys lx1 ys1 _ st Hre Hf Hr).
            apply (mand_sound cl _ (Some (peg2 cl sp)) _ (Some stopf) Hu Hsp f f (rep_fuel lo hi s1) lo hi [v] lx1 ys1 st r HI1).
            -- rewrite (reach_clean t _ _ _ _ Hre). exact Hc.
            -- rewrite Hf, Hk. exact Hb.
        + destruct (Ha lx ys st _ HI Hc Ea) as [H|(e & E)].
          * destruct (run f a lx c st) as [[? ?|?| |] ?]; cbn in H; try discriminate H. apply ag_fuel.
          * rewrite E. destruct (lo =? 0); injection Hb as <-; [apply ag_here; exact HI|apply ag_err]. }
    destruct hi as [h|]; [|exact (Hbody Hp)].
    destruct (h <? lo); [discriminate Hp|]. destruct (h =? 0); [|exact (Hbody Hp)].
    injection Hp as <-. apply ag_here. exact HI.
  Qed.

  Lemma count_meets cl p P : meets cl p P -> meets cl (fun s => pcount (p s)) (fun lx st => count_of (P lx st)).
  Proof.
    intros H lx ys st r HI Hc Hp. unfold pcount in Hp. destruct (pmap_some _ _ _ Hp) as (r0 & E & ->).
    unfold count_of. apply ag_map. exact (H lx ys st r0 HI Hc E).
  Qed.
End RunPeg.
