(** C06 + C07, whole fragment: on every grammar [PegRep.peg2] covers - primitives incl. seq_count and
    end_of_text, sequencing, ordered choice, option, conditionals, implications, sub, the context
    wrappers, and ALL repetition / interspersal combinators (bounds, until-variants, counting
    variants), nested arbitrarily - the interpreter, started on a lexer standing anywhere in the
    sequential scan, either runs out of fuel or returns exactly what the specification says: the
    same verdict, the same value, a lexer whose deliverable tokens are exactly the remaining ones,
    with the filter and recover state it started with, and an untouched store.

    (RunTerm.run_terminates bounds the fuel that is enough, so "runs out of fuel" is excluded
    for the fuel the checks use.) *)
From Tephra Require Import MetricsSpec MetricsFacts CLexer LexerFacts LexerFin Run Peg PegRep RunCore.

Section RunPeg.
  Variable m : metrics.
  Hypothesis Htab : 1 <= tabw m.
  Variable t : text.
  Hypothesis Ht : wf_text t.
  Local Notation Inv := (Inv m t).
  Local Notation clean := (clean t).

  (** * The lexer interface, with "stands further along the same scan" *)

  Lemma next_cons2 lx ys x s : Inv lx ys -> kept (c_filter lx) ys = x :: s ->
    exists lx' ys', c_next lx = Ok (Some (e_tok x), lx') /\ Inv lx' ys'
      /\ c_filter lx' = c_filter lx /\ c_rec lx' = c_rec lx /\ kept (c_filter lx) ys' = s /\ reach lx ys lx' ys'.
  Proof using Htab Ht.
    intros HI Hk. destruct (next_cons m Htab t Ht lx ys x s HI Hk) as (lx' & ys' & E & HI' & Hf & Hr & Hk' & _).
    exists lx', ys'. repeat (split; [assumption|]). exact (next_reach m Htab t Ht lx ys _ lx' ys' HI E HI').
  Qed.

  Lemma next_nil2 lx ys : Inv lx ys -> kept (c_filter lx) ys = [] ->
    exists lx', c_next lx = Ok (None, lx') /\ Inv lx' [] /\ c_filter lx' = c_filter lx /\ c_rec lx' = c_rec lx
      /\ reach lx ys lx' [] /\ c_at_end lx' = clean lx ys.
  Proof using Htab Ht.
    intros HI Hk. destruct (next_nil m Htab t Ht lx ys HI Hk) as (lx' & E & HI' & Hf & Hr).
    exists lx'. repeat (split; [assumption|]). split; [exact (next_reach m Htab t Ht lx ys _ lx' [] HI E HI')|].
    exact (next_none_at_end m Htab t Ht lx ys lx' HI E HI').
  Qed.

  Lemma peek_cons2 lx ys x s : Inv lx ys -> kept (c_filter lx) ys = x :: s ->
    exists lx' ys', c_peek lx = Ok (Some (e_tok x), lx') /\ Inv lx' ys'
      /\ c_filter lx' = c_filter lx /\ c_rec lx' = c_rec lx /\ kept (c_filter lx) ys' = x :: s /\ reach lx ys lx' ys'.
  Proof using Htab Ht.
    intros HI Hk. destruct (peek_cons m Htab t Ht lx ys x s HI Hk) as (lx' & ys' & E & HI' & Hf & Hr & Hk').
    exists lx', ys'. repeat (split; [assumption|]). exact (peek_reach m Htab t Ht lx ys _ lx' ys' HI E HI').
  Qed.

  Lemma peek_nil2 lx ys : Inv lx ys -> kept (c_filter lx) ys = [] ->
    exists lx' ys', c_peek lx = Ok (None, lx') /\ Inv lx' ys'
      /\ c_filter lx' = c_filter lx /\ c_rec lx' = c_rec lx /\ kept (c_filter lx) ys' = [] /\ reach lx ys lx' ys'.
  Proof using Htab Ht.
    intros HI Hk. destruct (peek_nil m Htab t Ht lx ys HI Hk) as (lx' & ys' & E & HI' & Hf & Hr & Hk').
    exists lx', ys'. repeat (split; [assumption|]). exact (peek_reach m Htab t Ht lx ys _ lx' ys' HI E HI').
  Qed.

  (** * Agreement with a specification result *)

  Definition ag2 (r : pres) (lx : clexer) (ys : list entry) (o : R) (st : store) : Prop :=
    match r with
    | POk v s' => exists lx' ys', o = (ROk v lx', st) /\ Inv lx' ys'
                    /\ c_filter lx' = c_filter lx /\ c_rec lx' = c_rec lx /\ kept (c_filter lx) ys' = s'
                    /\ reach lx ys lx' ys'
    | PFail => exists e, o = (RErr e, st)
    end.

  Definition ag (r : pres) (lx : clexer) (ys : list entry) (o : R) (st : store) : Prop :=
    fst o = RFuel \/ ag2 r lx ys o st.

  (** a parser function meets a specification function (for scans that end cleanly or not: [cl]) *)
  Definition meets (cl : bool) (p : list entry -> option pres) (P : clexer -> store -> R) : Prop :=
    forall lx ys st r, Inv lx ys -> clean lx ys = cl -> p (kept (c_filter lx) ys) = Some r -> ag r lx ys (P lx st) st.

  Lemma ag_ok v lx ys lx' ys' st : Inv lx' ys' -> c_filter lx' = c_filter lx -> c_rec lx' = c_rec lx ->
    reach lx ys lx' ys' -> ag (POk v (kept (c_filter lx) ys')) lx ys (ROk v lx', st) st.
  Proof. intros HI Hf Hr Hre. right. exists lx', ys'. repeat (split; [first [reflexivity|assumption]|]). assumption. Qed.

  Lemma ag_here v lx ys st : Inv lx ys -> ag (POk v (kept (c_filter lx) ys)) lx ys (ROk v lx, st) st.
  Proof. intros HI. apply ag_ok; [exact HI|reflexivity|reflexivity|apply reach_refl]. Qed.

  Lemma ag_err lx ys e st : ag PFail lx ys (RErr e, st) st.
  Proof. right. exists e. reflexivity. Qed.

  Lemma ag_fuel r lx ys st st' : ag r lx ys (RFuel, st') st.
  Proof. left. reflexivity. Qed.

  (** agreement from a lexer further along, with the same filter / recover state *)
  Lemma ag_from r lx ys lx1 ys1 o st : reach lx ys lx1 ys1 -> c_filter lx1 = c_filter lx -> c_rec lx1 = c_rec lx ->
    ag r lx1 ys1 o st -> ag r lx ys o st.
  Proof.
    intros Hre Hf Hr [H|H]; [left; exact H|]. right. destruct r as [v s'|]; [|exact H].
    destruct H as (lx' & ys' & E & HI & A & B & C & D). exists lx', ys'.
    split; [exact E|]. split; [exact HI|]. split; [congruence|]. split; [congruence|].
    split; [rewrite <- Hf; exact C|]. exact (reach_trans _ _ _ _ _ _ Hre D).
  Qed.

  Lemma ag_map f r lx ys o st : ag r lx ys o st ->
    ag (match r with POk v s => POk (f v) s | PFail => PFail end) lx ys (map_val f o) st.
  Proof.
    intros [H|H].
    - left. destruct o as [[v l|e| |] s']; cbn in H |- *; try discriminate H; reflexivity.
    - right. destruct r as [v s'|].
      + destruct H as (lx' & ys' & -> & H). exists lx', ys'. split; [reflexivity|exact H].
      + destruct H as (e & ->). exists e. reflexivity.
  Qed.

  Lemma pmap_some f ra r : pmap f ra = Some r ->
    exists r0, ra = Some r0 /\ r = match r0 with POk v s => POk (f v) s | PFail => PFail end.
  Proof. destruct ra as [[v s|]|]; cbn [pmap pbind]; intros H; inversion H; eexists; split; reflexivity. Qed.

  (** sequencing: the continuation runs from wherever the first part left the lexer *)
  Lemma ag_on_ok ra r lx ys R1 k st : ag ra lx ys R1 st ->
    match ra with
    | POk v s1 => forall lx1 ys1, Inv lx1 ys1 -> c_filter lx1 = c_filter lx -> c_rec lx1 = c_rec lx ->
                    kept (c_filter lx) ys1 = s1 -> reach lx ys lx1 ys1 -> ag r lx ys (k v lx1 st) st
    | PFail => r = PFail
    end -> ag r lx ys (on_ok R1 k) st.
  Proof.
    intros [H|H] Hk.
    - left. destruct R1 as [[v l|e| |] s']; cbn in H |- *; try discriminate H; reflexivity.
    - destruct ra as [v s1|].
      + destruct H as (lx1 & ys1 & -> & HI & A & B & C & D). cbn [on_ok]. exact (Hk lx1 ys1 HI A B C D).
      + destruct H as (e & ->). subst r. cbn [on_ok]. apply ag_err.
  Qed.

  (** a specification met at entry is met from every lexer further along the scan *)
  Lemma meets_later cl p P : meets cl p P -> forall lx ys lx1 ys1 st r, clean lx ys = cl ->
    Inv lx1 ys1 -> c_filter lx1 = c_filter lx -> c_rec lx1 = c_rec lx -> reach lx ys lx1 ys1 ->
    p (kept (c_filter lx) ys1) = Some r -> ag r lx ys (P lx1 st) st.
  Proof.
    intros Hm lx ys lx1 ys1 st r Hc HI Hf Hr Hre Hp. apply (ag_from r lx ys lx1 ys1 _ st Hre Hf Hr).
    apply Hm; [exact HI|rewrite (reach_clean t _ _ _ _ Hre); exact Hc|rewrite Hf; exact Hp].
  Qed.

  (** * Repetition *)

  Section LoopSound.
    Variable cl : bool.
    Variable unitp : list entry -> option pres.
    Variable stopp : option (list entry -> option pres).
    Variable step : clexer -> store -> R.
    Variable stop : option (clexer -> store -> R).
    Hypothesis Hstep : meets cl unitp step.
    Hypothesis Hstop : match stopp, stop with
                       | None, None => True
                       | Some p, Some P => meets cl p P
                       | _, _ => False
                       end.

    Lemma stop_case vals cur ys st (go : store -> R) r sh : Inv cur ys -> clean cur ys = cl ->
      stop_hit stopp (kept (c_filter cur) ys) = Some sh ->
      (sh = true -> r = POk (VList vals) (kept (c_filter cur) ys)) ->
      (sh = false -> ag r cur ys (go st) st) ->
      ag r cur ys
         (match stop with
          | None => go st
          | Some sp =>
            match sp cur st with
            | (ROk _ _, st') => (ROk (VList vals) cur, st')
            | (RErr _, st') => go st'
            | r0 => r0
            end
          end) st.
    Proof.
      intros HI Hc Hsh Ht' Hf'. unfold stop_hit in Hsh. destruct stopp as [p|], stop as [P|]; try contradiction.
      - destruct (p (kept (c_filter cur) ys)) as [[v s'|]|] eqn:Ep; try discriminate Hsh; injection Hsh as <-.
        + destruct (Hstop cur ys st _ HI Hc Ep) as [H|(lx' & ys' & E & _)].
          * destruct (P cur st) as [[? ?|?| |] ?]; cbn in H; try discriminate H. apply ag_fuel.
          * rewrite E. rewrite (Ht' eq_refl). apply ag_here. exact HI.
        + destruct (Hstop cur ys st _ HI Hc Ep) as [H|(e & E)].
          * destruct (P cur st) as [[? ?|?| |] ?]; cbn in H; try discriminate H. apply ag_fuel.
          * rewrite E. exact (Hf' eq_refl).
      - injection Hsh as <-. exact (Hf' eq_refl).
    Qed.

    Lemma opt_sound : forall n ns lo hi vals cur ys st r, Inv cur ys -> clean cur ys = cl -> lo <= length vals ->
      prep unitp stopp ns lo hi vals (kept (c_filter cur) ys) = Some r ->
      ag r cur ys (opt_loop n hi stop step vals cur st) st.
    Proof.
      induction n as [|n IH]; intros ns lo hi vals cur ys st r HI Hc Hlo Hp; [apply ag_fuel|].
      destruct ns as [|ns]; [discriminate Hp|]. cbn [prep] in Hp. cbn [opt_loop].
      destruct (Nat.ltb_spec (length vals) lo) as [Hlt|_]; [lia|].
      destruct (lt_opt (length vals) hi).
      2:{ injection Hp as <-. apply ag_here. exact HI. }
      destruct (stop_hit stopp (kept (c_filter cur) ys)) as [sh|] eqn:Esh; [|discriminate Hp].
      match goal with
      | |- ag _ _ _ (match stop with None => ?g | Some _ => _ end) _ =>
        let gf := eval pattern st in g in
        match gf with ?F _ => apply (stop_case vals cur ys st F r sh HI Hc Esh) end
      end.
      - intros ->. injection Hp as <-. reflexivity.
      - intros ->. destruct (unitp (kept (c_filter cur) ys)) as [[v s'|]|] eqn:Eu; [| |discriminate Hp].
        + destruct (Hstep cur ys st _ HI Hc Eu) as [H|(lx' & ys' & E & HI' & Hf & Hr & Hk & Hre)].
          * destruct (step cur st) as [[? ?|?| |] ?]; cbn in H; try discriminate H. apply ag_fuel.
          * rewrite E. cbn zeta. destruct (ge_opt (length (vals ++ [v])) hi).
            -- injection Hp as <-. rewrite <- Hk. apply ag_ok; assumption.
            -- apply (ag_from r cur ys lx' ys' _ st Hre Hf Hr).
               apply (IH ns lo hi (vals ++ [v]) lx' ys' st r HI').
               ++ rewrite (reach_clean t _ _ _ _ Hre). exact Hc.
               ++ rewrite app_length. cbn. lia.
               ++ rewrite Hf, Hk. exact Hp.
        + destruct (Hstep cur ys st _ HI Hc Eu) as [H|(e & E)].
          * destruct (step cur st) as [[? ?|?| |] ?]; cbn in H; try discriminate H. apply ag_fuel.
          * rewrite E. injection Hp as <-. apply ag_here. exact HI.
    Qed.

    Lemma mand_sound N : forall n ns lo hi vals cur ys st r, Inv cur ys -> clean cur ys = cl ->
      prep unitp stopp ns lo hi vals (kept (c_filter cur) ys) = Some r ->
      ag r cur ys (mand_loop n lo stop step vals cur st (fun vals0 cur0 st2 => opt_loop N hi stop step vals0 cur0 st2)) st.
    Proof.
      induction n as [|n IH]; intros ns lo hi vals cur ys st r HI Hc Hp; [apply ag_fuel|].
      destruct ns as [|ns]; [discriminate Hp|]. pose proof Hp as Hp0. cbn [prep] in Hp. cbn [mand_loop].
      destruct (Nat.ltb_spec (length vals) lo) as [Hlt|Hge].
      2:{ exact (opt_sound N (S ns) lo hi vals cur ys st r HI Hc Hge Hp0). }
      destruct (stop_hit stopp (kept (c_filter cur) ys)) as [sh|] eqn:Esh; [|discriminate Hp].
      match goal with
      | |- ag _ _ _ (match stop with None => ?g | Some _ => _ end) _ =>
        let gf := eval pattern st in g in
        match gf with ?F _ => apply (stop_case vals cur ys st F r sh HI Hc Esh) end
      end.
      - intros ->. injection Hp as <-. reflexivity.
      - intros ->. destruct (unitp (kept (c_filter cur) ys)) as [[v s'|]|] eqn:Eu; [| |discriminate Hp].
        + destruct (Hstep cur ys st _ HI Hc Eu) as [H|(lx' & ys' & E & HI' & Hf & Hr & Hk & Hre)].
          * destruct (step cur st) as [[? ?|?| |] ?]; cbn in H; try discriminate H. apply ag_fuel.
          * rewrite E. apply (ag_from r cur ys lx' ys' _ st Hre Hf Hr).
            apply (IH ns lo hi (vals ++ [v]) lx' ys' st r HI').
            -- rewrite (reach_clean t _ _ _ _ Hre). exact Hc.
            -- rewrite Hf, Hk. exact Hp.
        + destruct (Hstep cur ys st _ HI Hc Eu) as [H|(e & E)].
          * destruct (step cur st) as [[? ?|?| |] ?]; cbn in H; try discriminate H. apply ag_fuel.
          * rewrite E. injection Hp as <-. apply ag_err.
    Qed.
  End LoopSound.

  (** "separator then item", as one unit *)
  Lemma right_meets cl f (s a : G) c :
    meets cl (peg2 cl s) (fun lx st => run f s lx c st) -> meets cl (peg2 cl a) (fun lx st => run f a lx c st) ->
    meets cl (pright (peg2 cl s) (peg2 cl a)) (right_of (run f) s a c).
  Proof.
    intros Hs Ha lx ys st r HI Hc Hp. unfold pright in Hp. unfold right_of.
    destruct (peg2 cl s (kept (c_filter lx) ys)) as [[v s1|]|] eqn:Es; cbn [pbind] in Hp; [| |discriminate Hp].
    - apply (ag_on_ok _ r lx ys _ _ st (Hs lx ys st _ HI Hc Es)).
      intros lx1 ys1 HI1 Hf Hr Hk Hre. rewrite <- Hk in Hp.
      exact (meets_later cl _ _ Ha lx ys lx1 ys1 st r Hc HI1 Hf Hr Hre Hp).
    - injection Hp as <-. apply (ag_on_ok _ PFail lx ys _ _ st (Hs lx ys st _ HI Hc Es)). reflexivity.
  Qed.

  Lemma intersperse_sound cl f lo hi (a s : G) c :
    meets cl (peg2 cl s) (fun lx st => run f s lx c st) -> meets cl (peg2 cl a) (fun lx st => run f a lx c st) ->
    meets cl (prep_top (pright (peg2 cl s) (peg2 cl a)) None (peg2 cl a) lo hi)
          (fun lx st => run_intersperse (run f) f lo hi a s lx c st).
  Proof.
    intros Hs Ha lx ys st r HI Hc Hp. pose proof (right_meets cl f s a c Hs Ha) as Hu.
    unfold prep_top in Hp. unfold run_intersperse, hi_check.
    assert (Hbody : match stop_hit None (kept (c_filter lx) ys) with
                    | None => None
                    | Some true => Some (POk (VList []) (kept (c_filter lx) ys))
                    | Some false =>
                      match peg2 cl a (kept (c_filter lx) ys) with
                      | Some (POk v s1) => prep (pright (peg2 cl s) (peg2 cl a)) None (rep_fuel lo hi s1) lo hi [v] s1
                      | Some PFail => if lo =? 0 then Some (POk (VList []) (kept (c_filter lx) ys)) else Some PFail
                      | None => None
                      end
                    end = Some r ->
              ag r lx ys
                 (match run f a lx c st with
                  | (ROk v lx1, st1) =>
                    mand_loop f lo None (right_of (run f) s a c) [v] lx1 st1
                      (fun vals cur st2 => opt_loop f hi None (right_of (run f) s a c) vals cur st2)
                  | (RErr e, st1) => if lo =? 0 then (ROk (VList []) lx, st1) else (RErr e, st1)
                  | r0 => r0
                  end) st).
    { cbn [stop_hit]. intros Hb.
      destruct (peg2 cl a (kept (c_filter lx) ys)) as [[v s1|]|] eqn:Ea; [| |discriminate Hb].
      - destruct (Ha lx ys st _ HI Hc Ea) as [H|(lx1 & ys1 & E & HI1 & Hf & Hr & Hk & Hre)].
        + destruct (run f a lx c st) as [[? ?|?| |] ?]; cbn in H; try discriminate H. apply ag_fuel.
        + rewrite E. apply (ag_from r lx ys lx1 ys1 _ st Hre Hf Hr).
          apply (mand_sound cl _ None _ None Hu I f f (rep_fuel lo hi s1) lo hi [v] lx1 ys1 st r HI1).
          * rewrite (reach_clean t _ _ _ _ Hre). exact Hc.
          * rewrite Hf, Hk. exact Hb.
      - destruct (Ha lx ys st _ HI Hc Ea) as [H|(e & E)].
        + destruct (run f a lx c st) as [[? ?|?| |] ?]; cbn in H; try discriminate H. apply ag_fuel.
        + rewrite E. destruct (lo =? 0); injection Hb as <-; [apply ag_here; exact HI|apply ag_err]. }
    destruct hi as [h|]; [|exact (Hbody Hp)].
    destruct (h <? lo); [discriminate Hp|]. destruct (h =? 0); [|exact (Hbody Hp)].
    injection Hp as <-. apply ag_here. exact HI.
  Qed.

  Lemma intersperse_until_sound cl f lo hi (sp a s : G) c :
    meets cl (peg2 cl sp) (fun lx st => run f sp lx c st) ->
    meets cl (peg2 cl s) (fun lx st => run f s lx c st) -> meets cl (peg2 cl a) (fun lx st => run f a lx c st) ->
    meets cl (prep_top (pright (peg2 cl s) (peg2 cl a)) (Some (peg2 cl sp)) (peg2 cl a) lo hi)
          (fun lx st => run_intersperse_until (run f) f lo hi sp a s lx c st).
  Proof.
    intros Hsp Hs Ha lx ys st r HI Hc Hp. pose proof (right_meets cl f s a c Hs Ha) as Hu.
    unfold prep_top in Hp. unfold run_intersperse_until, hi_check.
    set (stopf := fun (l : clexer) (st0 : store) => run f sp l c st0).
    assert (Hbody : match stop_hit (Some (peg2 cl sp)) (kept (c_filter lx) ys) with
                    | None => None
                    | Some true => Some (POk (VList []) (kept (c_filter lx) ys))
                    | Some false =>
                      match peg2 cl a (kept (c_filter lx) ys) with
                      | Some (POk v s1) => prep (pright (peg2 cl s) (peg2 cl a)) (Some (peg2 cl sp)) (rep_fuel lo hi s1) lo hi [v] s1
                      | Some PFail => if lo =? 0 then Some (POk (VList []) (kept (c_filter lx) ys)) else Some PFail
                      | None => None
                      end
                    end = Some r ->
              ag r lx ys
                 (match stopf lx st with
                  | (ROk _ _, st0) => (ROk (VList []) lx, st0)
                  | (RErr _, st0) =>
                    match run f a lx c st0 with
                    | (ROk v lx1, st1) =>
                      mand_loop f lo (Some stopf) (right_of (run f) s a c) [v] lx1 st1
                        (fun vals cur st2 => opt_loop f hi (Some stopf) (right_of (run f) s a c) vals cur st2)
                    | (RErr e, st1) => if lo =? 0 then (ROk (VList []) lx, st1) else (RErr e, st1)
                    | r0 => r0
                    end
                  | r0 => r0
                  end) st).
    { intros Hb. destruct (stop_hit (Some (peg2 cl sp)) (kept (c_filter lx) ys)) as [sh|] eqn:Esh; [|discriminate Hb].
      apply (stop_case cl (Some (peg2 cl sp)) (Some stopf) Hsp [] lx ys st
               (fun st0 => match run f a lx c st0 with
                           | (ROk v lx1, st1) =>
                             mand_loop f lo (Some stopf) (right_of (run f) s a c) [v] lx1 st1
                               (fun vals cur st2 => opt_loop f hi (Some stopf) (right_of (run f) s a c) vals cur st2)
                           | (RErr e, st1) => if lo =? 0 then (ROk (VList []) lx, st1) else (RErr e, st1)
                           | r0 => r0
                           end) r sh HI Hc Esh).
      - intros ->. injection Hb as <-. reflexivity.
      - intros ->.
        destruct (peg2 cl a (kept (c_filter lx) ys)) as [[v s1|]|] eqn:Ea; [| |discriminate Hb].
        + destruct (Ha lx ys st _ HI Hc Ea) as [H|(lx1 & ys1 & E & HI1 & Hf & Hr & Hk & Hre)].
          * destruct (run f a lx c st) as [[? ?|?| |] ?]; cbn in H; try discriminate H. apply ag_fuel.
          * rewrite E. apply (ag_from r lx ys lx1 ys1 _ st Hre Hf Hr).
            apply (mand_sound cl _ (Some (peg2 cl sp)) _ (Some stopf) Hu Hsp f f (rep_fuel lo hi s1) lo hi [v] lx1 ys1 st r HI1).
            -- rewrite (reach_clean t _ _ _ _ Hre). exact Hc.
            -- rewrite Hf, Hk. exact Hb.
        + destruct (Ha lx ys st _ HI Hc Ea) as [H|(e & E)].
          * destruct (run f a lx c st) as [[? ?|?| |] ?]; cbn in H; try discriminate H. apply ag_fuel.
          * rewrite E. destruct (lo =? 0); injection Hb as <-; [apply ag_here; exact HI|apply ag_err]. }
    destruct hi as [h|]; [|exact (Hbody Hp)].
    destruct (h <? lo); [discriminate Hp|]. destruct (h =? 0); [|exact (Hbody Hp)].
    injection Hp as <-. apply ag_here. exact HI.
  Qed.

  Lemma count_meets cl p P : meets cl p P -> meets cl (fun s => pcount (p s)) (fun lx st => count_of (P lx st)).
  Proof.
    intros H lx ys st r HI Hc Hp. unfold pcount in Hp. destruct (pmap_some _ _ _ Hp) as (r0 & E & ->).
    unfold count_of. apply ag_map. exact (H lx ys st r0 HI Hc E).
  Qed.

  (** * Leaves *)

  Lemma seq_leaf es st : forall ks acc lx ys, Inv lx ys ->
    ag (pseq ks acc (kept (c_filter lx) ys)) lx ys
      ((fix go (ks : list kind) (acc : list val) (l : clexer) : R :=
         match ks with
         | [] => (ROk (VList acc) l, st)
         | k :: r =>
           lift (c_next l) st (fun '(o, l') =>
           match o with
           | Some t => if tok_eqb t (tk0 k) then go r (acc ++ [VTok t]) l'
                       else (RErr (EUnexpected es (c_token_span l') (ExTok (tk0 k)) (Some t)), st)
           | None => (RErr (EUnexpected es (c_token_span l') (ExTok (tk0 k)) None), st)
           end)
         end) ks acc lx) st.
  Proof using Htab Ht.
    induction ks as [|k r IH]; intros acc lx ys HI; cbn [pseq].
    - apply ag_here. exact HI.
    - destruct (kept (c_filter lx) ys) as [|x s] eqn:Ek.
      + destruct (next_nil2 lx ys HI Ek) as (lx' & E & _). rewrite E. cbn [lift]. apply ag_err.
      + destruct (next_cons2 lx ys x s HI Ek) as (lx' & ys' & E & HI' & Hf & Hr & Hk & Hre). rewrite E. cbn [lift].
        destruct (tok_eqb (e_tok x) (tk0 k)); [|apply ag_err].
        apply (ag_from _ lx ys lx' ys' _ st Hre Hf Hr). rewrite <- Hk, <- Hf. apply (IH _ lx' ys' HI').
  Qed.

  Lemma at_end_nothing lx ys : Inv lx ys -> c_at_end lx = true -> ys = [] /\ clean lx ys = true.
  Proof using Htab Ht.
    intros HI He. pose proof (at_end_stream m Htab t Ht lx ys HI He) as ->. split; [reflexivity|].
    rewrite <- (at_end_clean m t lx HI). exact He.
  Qed.

  Lemma not_at_end2 lx ys x s : Inv lx ys -> kept (c_filter lx) ys = x :: s -> c_at_end lx = false.
  Proof using Htab Ht.
    intros HI Hk. destruct (c_at_end lx) eqn:E; [|reflexivity].
    destruct (at_end_nothing lx ys HI E) as [-> _]. discriminate Hk.
  Qed.

  (** whether only filtered tokens remain: nothing is deliverable and the scan ends cleanly *)
  Lemma only_filtered_spec lx ys : Inv lx ys ->
    only_filtered_remain lx = Ok (match kept (c_filter lx) ys with [] => clean lx ys | _ :: _ => false end).
  Proof using Htab Ht.
    intros HI. unfold only_filtered_remain. destruct (kept (c_filter lx) ys) as [|x s] eqn:Ek.
    - destruct (next_nil2 lx ys HI Ek) as (lx' & E & _ & _ & _ & _ & Hend). rewrite E. cbn [bind fst snd]. rewrite Hend. reflexivity.
    - destruct (next_cons2 lx ys x s HI Ek) as (lx' & ys' & E & _). rewrite E. reflexivity.
  Qed.

  Lemma seqc_leaf cl es st : forall ks cnt lx ys, Inv lx ys -> clean lx ys = cl ->
    ag (pseqc cl ks cnt (kept (c_filter lx) ys)) lx ys
      ((fix go (ks : list kind) (cnt : nat) (l : clexer) : R :=
         match ks with
         | [] => (ROk (VNat cnt) l, st)
         | k :: r =>
           if c_at_end l then (ROk (VNat cnt) l, st)
           else
             lift (c_peek l) st (fun '(o, l') =>
             match o with
             | Some t => if tok_eqb t (tk0 k)
                         then lift (c_next l') st (fun '(_, l'') => go r (S cnt) l'')
                         else (ROk (VNat cnt) l', st)
             | None =>
               lift (only_filtered_remain l') st (fun b =>
               if b then (ROk (VNat cnt) l', st) else (RErr (EUnrecognized es), st))
             end)
         end) ks cnt lx) st.
  Proof using Htab Ht.
    induction ks as [|k r IH]; intros cnt lx ys HI Hc; cbn [pseqc].
    - apply ag_here. exact HI.
    - destruct (kept (c_filter lx) ys) as [|x s] eqn:Ek.
      + destruct (c_at_end lx) eqn:Eend.
        * destruct (at_end_nothing lx ys HI Eend) as [-> Hcl]. rewrite Hcl in Hc. subst cl.
          rewrite <- Ek. apply ag_here. exact HI.
        * destruct (peek_nil2 lx ys HI Ek) as (l1 & ys1 & E & HI1 & Hf & Hr & Hk & Hre). rewrite E. cbn [lift].
          rewrite (only_filtered_spec l1 ys1 HI1), Hf, Hk, (reach_clean t _ _ _ _ Hre), Hc. cbn [lift].
          destruct cl; [|apply ag_err]. rewrite <- Hk. apply ag_ok; assumption.
      + rewrite (not_at_end2 lx ys x s HI Ek).
        destruct (peek_cons2 lx ys x s HI Ek) as (l1 & ys1 & E & HI1 & Hf & Hr & Hk & Hre). rewrite E. cbn [lift].
        destruct (tok_eqb (e_tok x) (tk0 k)).
        * assert (Hk1 : kept (c_filter l1) ys1 = x :: s) by (rewrite Hf; exact Hk).
          destruct (next_cons2 l1 ys1 x s HI1 Hk1) as (l2 & ys2 & E2 & HI2 & Hf2 & Hr2 & Hk2 & Hre2). rewrite E2. cbn [lift].
          apply (ag_from _ lx ys l2 ys2 _ st (reach_trans _ _ _ _ _ _ Hre Hre2)); [congruence|congruence|].
          rewrite <- Hk2, <- Hf2. apply (IH _ l2 ys2 HI2).
          rewrite (reach_clean t _ _ _ _ Hre2), (reach_clean t _ _ _ _ Hre). exact Hc.
        * rewrite <- Hk. apply ag_ok; assumption.
  Qed.

  (** consume one token if [p] accepts it (one, pred) *)
  Lemma tok_leaf (p : tok -> option val) (K : option tok * clexer -> R) lx ys st :
    Inv lx ys ->
    (forall tk l', K (Some tk, l') = match p tk with Some v => (ROk v l', st) | None => (fst (K (Some tk, l')), st) end
                   /\ (p tk = None -> exists e, K (Some tk, l') = (RErr e, st))) ->
    (forall l', exists e, K (None, l') = (RErr e, st)) ->
    ag (p_tok p (kept (c_filter lx) ys)) lx ys (lift (c_next lx) st K) st.
  Proof using Htab Ht.
    intros HI Hs Hn. destruct (kept (c_filter lx) ys) as [|x s] eqn:Ek; cbn [p_tok].
    - destruct (next_nil2 lx ys HI Ek) as (lx' & E & _). rewrite E. cbn [lift]. destruct (Hn lx') as [e ->]. apply ag_err.
    - destruct (next_cons2 lx ys x s HI Ek) as (lx' & ys' & E & HI' & Hf & Hr & Hk & Hre). rewrite E. cbn [lift].
      destruct (Hs (e_tok x) lx') as [H1 H2]. destruct (p (e_tok x)) as [v|].
      + rewrite H1, <- Hk. apply ag_ok; assumption.
      + destruct (H2 eq_refl) as [e ->]. apply ag_err.
  Qed.

  (** peek, decide, then consume (any, any_index) *)
  Lemma any_leaf (p : tok -> option val) mkerr1 mkerr2 lx ys st : Inv lx ys ->
    ag (p_tok p (kept (c_filter lx) ys)) lx ys
      (lift (c_peek lx) st (fun '(o, lx') =>
         match o with
         | Some tk => match p tk with
                      | Some v => lift (c_next lx') st (fun '(_, lx'') => (ROk v lx'', st))
                      | None => (RErr (mkerr1 lx' tk), st)
                      end
         | None => (RErr (mkerr2 lx'), st)
         end)) st.
  Proof using Htab Ht.
    intros HI. destruct (kept (c_filter lx) ys) as [|x s] eqn:Ek; cbn [p_tok].
    - destruct (peek_nil2 lx ys HI Ek) as (l1 & ys1 & E & _). rewrite E. cbn [lift]. apply ag_err.
    - destruct (peek_cons2 lx ys x s HI Ek) as (l1 & ys1 & E & HI1 & Hf & Hr & Hk & Hre). rewrite E. cbn [lift].
      destruct (p (e_tok x)) as [v|]; [|apply ag_err].
      assert (Hk1 : kept (c_filter l1) ys1 = x :: s) by (rewrite Hf; exact Hk).
      destruct (next_cons2 l1 ys1 x s HI1 Hk1) as (l2 & ys2 & E2 & HI2 & Hf2 & Hr2 & Hk2 & Hre2). rewrite E2. cbn [lift].
      apply (ag_from _ lx ys l1 ys1 _ st Hre Hf Hr). rewrite <- Hk2. apply ag_ok; assumption.
  Qed.

  (** * The interpreter meets the specification *)

  Ltac fuel_or H R :=
    destruct H as [H|H]; [destruct R as [[? ?|?| |] ?]; cbn in H; try discriminate H; apply ag_fuel|].

  Lemma maybe_meets cl f a c : meets cl (peg2 cl a) (fun lx st => run f a lx (ctx_unrec c) st) ->
    meets cl (fun s => pmaybe (peg2 cl a s) s) (fun lx st => run (S f) (GMaybe a) lx c st).
  Proof.
    intros Ha lx ys st r HI Hc Hp. cbn [run].
    destruct (peg2 cl a (kept (c_filter lx) ys)) as [[v s1|]|] eqn:Ea; cbn [pmaybe] in Hp; [| |discriminate Hp];
      injection Hp as <-; pose proof (Ha lx ys st _ HI Hc Ea) as H; fuel_or H (run f a lx (ctx_unrec c) st).
    - destruct H as (lx' & ys' & E & HI' & Hf & Hr & Hk & Hre). rewrite E. rewrite <- Hk. apply ag_ok; assumption.
    - destruct H as (e & E). rewrite E. apply ag_here. exact HI.
  Qed.

  (** the shape shared by implies / antecedent / consequent / cond_implies *)
  Lemma ante_meets cl f a c (kp : val -> list entry -> option pres) (kr : val -> clexer -> store -> R) :
    meets cl (fun s => pmaybe (peg2 cl a s) s) (fun lx st => run f (GMaybe a) lx c st) ->
    (forall l lx ys lx1 ys1 st r, Inv lx ys -> clean lx ys = cl -> Inv lx1 ys1 -> c_filter lx1 = c_filter lx ->
       c_rec lx1 = c_rec lx -> reach lx ys lx1 ys1 -> kp l (kept (c_filter lx) ys1) = Some r -> ag r lx ys (kr l lx1 st) st) ->
    meets cl (fun s => pbind (pmaybe (peg2 cl a s) s) kp) (fun lx st => on_ok (run f (GMaybe a) lx c st) kr).
  Proof.
    intros Hm Hk lx ys st r HI Hc Hp.
    destruct (pmaybe (peg2 cl a (kept (c_filter lx) ys)) (kept (c_filter lx) ys)) as [[v s1|]|] eqn:Em; cbn [pbind] in Hp; [| |discriminate Hp].
    - apply (ag_on_ok _ r lx ys _ _ st (Hm lx ys st _ HI Hc Em)).
      intros lx1 ys1 HI1 Hf Hr Hk1 Hre. rewrite <- Hk1 in Hp. exact (Hk v lx ys lx1 ys1 st r HI Hc HI1 Hf Hr Hre Hp).
    - injection Hp as <-. apply (ag_on_ok _ PFail lx ys _ _ st (Hm lx ys st _ HI Hc Em)). reflexivity.
  Qed.

  Lemma here_later v lx ys lx1 ys1 st : Inv lx1 ys1 -> c_filter lx1 = c_filter lx -> c_rec lx1 = c_rec lx ->
    reach lx ys lx1 ys1 -> ag (POk v (kept (c_filter lx) ys1)) lx ys (ROk v lx1, st) st.
  Proof. intros. apply ag_ok; assumption. Qed.

  Theorem run_peg2 : forall fuel g c cl, meets cl (peg2 cl g) (fun lx st => run fuel g lx c st).
  Proof using Htab Ht.
    induction fuel as [|f IH]; intros g c cl lx ys st r HI Hc Hp; [apply ag_fuel|].
    assert (IHm : forall a c0, meets cl (fun s => pmaybe (peg2 cl a s) s) (fun lx st => run f (GMaybe a) lx c0 st)).
    { intros a c0. exact (IH (GMaybe a) c0 cl). }
    destruct g; cbn [peg2] in Hp; try discriminate Hp.
    - (* empty *) injection Hp as <-. cbn [run]. apply ag_here. exact HI.
    - (* one *) injection Hp as <-. cbn [run].
      apply (tok_leaf (fun t0 => if tok_eqb t0 (tk0 k) then Some (VTok t0) else None) _ lx ys st HI).
      + intros tk l'. destruct (tok_eqb tk (tk0 k)); split; try reflexivity; intros; try discriminate; eexists; reflexivity.
      + intros l'. eexists. reflexivity.
    - (* any *) destruct ks as [|k0 ks]; [discriminate Hp|]. injection Hp as <-. cbn [run].
      pose proof (any_leaf (any_of (k0 :: ks) (fun i => VTok (tk0 (nth i (k0 :: ks) KA))))
                    (fun l tk => EUnexpected (c_parse_span lx) (peeked_span l) (ExAny (map tk0 (k0 :: ks))) (Some tk))
                    (fun l => EUnexpected (c_parse_span lx) (c_token_span l) (ExAny (map tk0 (k0 :: ks))) None)
                    lx ys st HI) as H.
      match goal with |- ag ?r _ _ ?o _ => match type of H with ag ?r' _ _ ?o' _ => replace o with o'; [exact H|] end end.
      destruct (c_peek lx) as [[[tk|] l']| |]; cbn [lift]; try reflexivity. unfold any_of.
      destruct (position (fun k => tok_eqb tk (tk0 k)) (k0 :: ks)); reflexivity.
    - (* any_index *) destruct ks as [|k0 ks]; [discriminate Hp|]. injection Hp as <-. cbn [run].
      pose proof (any_leaf (any_of (k0 :: ks) VNat)
                    (fun l tk => EUnexpected (c_parse_span lx) (peeked_span l) (ExAny (map tk0 (k0 :: ks))) (Some tk))
                    (fun l => EUnexpected (c_parse_span lx) (c_token_span l) (ExAny (map tk0 (k0 :: ks))) None)
                    lx ys st HI) as H.
      match goal with |- ag ?r _ _ ?o _ => match type of H with ag ?r' _ _ ?o' _ => replace o with o'; [exact H|] end end.
      destruct (c_peek lx) as [[[tk|] l']| |]; cbn [lift]; try reflexivity. unfold any_of.
      destruct (position (fun k => tok_eqb tk (tk0 k)) (k0 :: ks)); reflexivity.
    - (* seq *) injection Hp as <-. cbn [run]. apply (seq_leaf (c_parse_span lx) st ks [] lx ys HI).
    - (* seq_count *) injection Hp as <-. cbn [run]. apply (seqc_leaf cl (c_parse_span lx) st ks 0 lx ys HI Hc).
    - (* pred *) injection Hp as <-. cbn [run].
      apply (tok_leaf (fun t0 => if peval p t0 then Some (VTok t0) else None) _ lx ys st HI).
      + intros tk l'. destruct (peval p tk); split; try reflexivity; intros; try discriminate; eexists; reflexivity.
      + intros l'. eexists. reflexivity.
    - (* end_of_text *) injection Hp as <-. cbn [run].
      destruct (kept (c_filter lx) ys) as [|x s] eqn:Ek.
      + destruct (c_at_end lx) eqn:Eend.
        * destruct (at_end_nothing lx ys HI Eend) as [-> Hcl]. rewrite Hcl in Hc. subst cl. cbn [lift].
          rewrite <- Ek. apply ag_here. exact HI.
        * rewrite (only_filtered_spec lx ys HI), Ek, Hc. cbn [lift]. destruct cl.
          -- rewrite <- Ek. apply ag_here. exact HI.
          -- destruct (peek_nil2 lx ys HI Ek) as (l1 & ys1 & E & _). rewrite E. cbn [lift]. apply ag_err.
      + rewrite (not_at_end2 lx ys x s HI Ek), (only_filtered_spec lx ys HI), Ek. cbn [lift].
        destruct (peek_cons2 lx ys x s HI Ek) as (l1 & ys1 & E & _). rewrite E. cbn [lift]. apply ag_err.
    - (* left *) cbn [run].
      destruct (peg2 cl g1 (kept (c_filter lx) ys)) as [[l s1|]|] eqn:Ea; cbn [pbind] in Hp; [| |discriminate Hp].
      + apply (ag_on_ok _ r lx ys _ _ st (IH g1 c cl lx ys st _ HI Hc Ea)).
        intros lx1 ys1 HI1 Hf Hr Hk Hre. destruct (pmap_some _ _ _ Hp) as (rb & Eb & ->). apply ag_map.
        rewrite <- Hk in Eb. exact (meets_later cl _ _ (IH g2 c cl) lx ys lx1 ys1 st rb Hc HI1 Hf Hr Hre Eb).
      + injection Hp as <-. apply (ag_on_ok _ PFail lx ys _ _ st (IH g1 c cl lx ys st _ HI Hc Ea)). reflexivity.
    - (* right *) cbn [run].
      destruct (peg2 cl g1 (kept (c_filter lx) ys)) as [[l s1|]|] eqn:Ea; cbn [pbind] in Hp; [| |discriminate Hp].
      + apply (ag_on_ok _ r lx ys _ _ st (IH g1 c cl lx ys st _ HI Hc Ea)).
        intros lx1 ys1 HI1 Hf Hr Hk Hre. rewrite <- Hk in Hp.
        exact (meets_later cl _ _ (IH g2 c cl) lx ys lx1 ys1 st r Hc HI1 Hf Hr Hre Hp).
      + injection Hp as <-. apply (ag_on_ok _ PFail lx ys _ _ st (IH g1 c cl lx ys st _ HI Hc Ea)). reflexivity.
    - (* both *) cbn [run].
      destruct (peg2 cl g1 (kept (c_filter lx) ys)) as [[l s1|]|] eqn:Ea; cbn [pbind] in Hp; [| |discriminate Hp].
      + apply (ag_on_ok _ r lx ys _ _ st (IH g1 c cl lx ys st _ HI Hc Ea)).
        intros lx1 ys1 HI1 Hf Hr Hk Hre. destruct (pmap_some _ _ _ Hp) as (rb & Eb & ->). apply ag_map.
        rewrite <- Hk in Eb. exact (meets_later cl _ _ (IH g2 c cl) lx ys lx1 ys1 st rb Hc HI1 Hf Hr Hre Eb).
      + injection Hp as <-. apply (ag_on_ok _ PFail lx ys _ _ st (IH g1 c cl lx ys st _ HI Hc Ea)). reflexivity.
    - (* center *) cbn [run].
      destruct (peg2 cl g1 (kept (c_filter lx) ys)) as [[l s1|]|] eqn:Ea; cbn [pbind] in Hp; [| |discriminate Hp].
      + apply (ag_on_ok _ r lx ys _ _ st (IH g1 c cl lx ys st _ HI Hc Ea)).
        intros lx1 ys1 HI1 Hf Hr Hk Hre. rewrite <- Hk in Hp.
        destruct (peg2 cl g2 (kept (c_filter lx) ys1)) as [[v s2|]|] eqn:Eb; cbn [pbind] in Hp; [| |discriminate Hp].
        * apply (ag_on_ok _ r lx ys _ _ st (meets_later cl _ _ (IH g2 c cl) lx ys lx1 ys1 st _ Hc HI1 Hf Hr Hre Eb)).
          intros lx2 ys2 HI2 Hf2 Hr2 Hk2 Hre2. destruct (pmap_some _ _ _ Hp) as (rc & Ec & ->). apply ag_map.
          rewrite <- Hk2 in Ec. exact (meets_later cl _ _ (IH g3 c cl) lx ys lx2 ys2 st rc Hc HI2 Hf2 Hr2 Hre2 Ec).
        * injection Hp as <-.
          apply (ag_on_ok _ PFail lx ys _ _ st (meets_later cl _ _ (IH g2 c cl) lx ys lx1 ys1 st _ Hc HI1 Hf Hr Hre Eb)). reflexivity.
      + injection Hp as <-. apply (ag_on_ok _ PFail lx ys _ _ st (IH g1 c cl lx ys st _ HI Hc Ea)). reflexivity.
    - (* map *) cbn [run]. destruct (pmap_some _ _ _ Hp) as (ra & Ea & ->). apply ag_map. exact (IH g c cl lx ys st ra HI Hc Ea).
    - (* discard *) cbn [run]. destruct (pmap_some _ _ _ Hp) as (ra & Ea & ->). apply ag_map. exact (IH g c cl lx ys st ra HI Hc Ea).
    - (* sub *) cbn [run].
      destruct (c_start_sublex_spec m Htab t Ht lx ys HI) as (lx1 & ys1 & E & HI1 & Hk1 & Hf & Hr). rewrite E. cbn [lift].
      pose proof (sublex_reach m Htab t Ht lx ys lx1 ys1 HI E HI1) as Hre.
      apply (meets_later cl _ _ (IH g c cl) lx ys lx1 ys1 st r Hc HI1 Hf Hr Hre). rewrite <- Hf, Hk1. exact Hp.
    - (* either *) cbn [run].
      destruct (peg2 cl g1 (kept (c_filter lx) ys)) as [[v s1|]|] eqn:Ea; [| |discriminate Hp].
      + injection Hp as <-. pose proof (IH g1 c cl lx ys st _ HI Hc Ea) as H. fuel_or H (run f g1 lx c st).
        destruct H as (lx' & ys' & E & HI' & Hf & Hr & Hk & Hre). rewrite E. rewrite <- Hk. apply ag_ok; assumption.
      + pose proof (IH g1 c cl lx ys st _ HI Hc Ea) as H. fuel_or H (run f g1 lx c st).
        destruct H as (e & E). rewrite E. exact (IH g2 c cl lx ys st r HI Hc Hp).
    - (* maybe *) exact (maybe_meets cl f g c (IH g (ctx_unrec c) cl) lx ys st r HI Hc Hp).
    - (* require_if *) cbn [run]. destruct b.
      + unfold some_of. destruct (pmap_some _ _ _ Hp) as (ra & Ea & ->). apply ag_map. exact (IH g c cl lx ys st ra HI Hc Ea).
      + exact (IHm g c lx ys st r HI Hc Hp).
    - (* cond *) cbn [run]. destruct b.
      + unfold some_of. destruct (pmap_some _ _ _ Hp) as (ra & Ea & ->). apply ag_map. exact (IH g c cl lx ys st ra HI Hc Ea).
      + injection Hp as <-. apply ag_here. exact HI.
    - (* implies *) cbn [run]. refine (ante_meets cl f g1 c _ _ (IHm g1 c) _ lx ys st r HI Hc Hp).
      intros l lx0 ys0 lx1 ys1 st1 r1 HI0 Hc0 HI1 Hf Hr Hre Hr1.
      destruct l; try (injection Hr1 as <-; apply here_later; assumption).
      destruct (pmap_some _ _ _ Hr1) as (rb & Eb & ->). apply ag_map.
      exact (meets_later cl _ _ (IH g2 c cl) lx0 ys0 lx1 ys1 st1 rb Hc0 HI1 Hf Hr Hre Eb).
    - (* antecedent *) cbn [run]. refine (ante_meets cl f g1 c _ _ (IHm g1 c) _ lx ys st r HI Hc Hp).
      intros l lx0 ys0 lx1 ys1 st1 r1 HI0 Hc0 HI1 Hf Hr Hre Hr1.
      destruct l; try (injection Hr1 as <-; apply here_later; assumption).
      destruct (pmap_some _ _ _ Hr1) as (rb & Eb & ->). apply ag_map.
      exact (meets_later cl _ _ (IH g2 c cl) lx0 ys0 lx1 ys1 st1 rb Hc0 HI1 Hf Hr Hre Eb).
    - (* consequent *) cbn [run]. refine (ante_meets cl f g1 c _ _ (IHm g1 c) _ lx ys st r HI Hc Hp).
      intros l lx0 ys0 lx1 ys1 st1 r1 HI0 Hc0 HI1 Hf Hr Hre Hr1.
      destruct l; try (injection Hr1 as <-; apply here_later; assumption).
      destruct (pmap_some _ _ _ Hr1) as (rb & Eb & ->). apply ag_map.
      exact (meets_later cl _ _ (IH g2 c cl) lx0 ys0 lx1 ys1 st1 rb Hc0 HI1 Hf Hr Hre Eb).
    - (* cond_implies *) cbn [run]. refine (ante_meets cl f g1 c _ _ (IHm g1 c) _ lx ys st r HI Hc Hp).
      intros l lx0 ys0 lx1 ys1 st1 r1 HI0 Hc0 HI1 Hf Hr Hre Hr1.
      destruct l; try (injection Hr1 as <-; apply here_later; assumption).
      destruct (vpeval p l).
      + destruct (pmap_some _ _ _ Hr1) as (rb & Eb & ->). apply ag_map.
        exact (meets_later cl _ _ (IH g2 c cl) lx0 ys0 lx1 ys1 st1 rb Hc0 HI1 Hf Hr Hre Eb).
      + injection Hr1 as <-. apply here_later; assumption.
    - (* raw *) cbn [run]. exact (IH g (ctx_raw c) cl lx ys st r HI Hc Hp).
    - (* unrecoverable *) cbn [run]. exact (IH g (ctx_unrec c) cl lx ys st r HI Hc Hp).
    - (* repeat *) cbn [run].
      exact (intersperse_sound cl f lo hi g GEmpty c (IH GEmpty c cl) (IH g c cl) lx ys st r HI Hc Hp).
    - (* repeat_count *) cbn [run].
      exact (count_meets cl _ _ (intersperse_sound cl f lo hi g GEmpty c (IH GEmpty c cl) (IH g c cl)) lx ys st r HI Hc Hp).
    - (* repeat_until *) cbn [run].
      exact (intersperse_until_sound cl f lo hi g1 g2 GEmpty c (IH g1 c cl) (IH GEmpty c cl) (IH g2 c cl) lx ys st r HI Hc Hp).
    - (* repeat_count_until *) cbn [run].
      exact (count_meets cl _ _ (intersperse_until_sound cl f lo hi g1 g2 GEmpty c (IH g1 c cl) (IH GEmpty c cl) (IH g2 c cl)) lx ys st r HI Hc Hp).
    - (* intersperse *) cbn [run].
      exact (intersperse_sound cl f lo hi g1 g2 c (IH g2 c cl) (IH g1 c cl) lx ys st r HI Hc Hp).
    - (* intersperse_count *) cbn [run].
      exact (count_meets cl _ _ (intersperse_sound cl f lo hi g1 g2 c (IH g2 c cl) (IH g1 c cl)) lx ys st r HI Hc Hp).
    - (* intersperse_until *) cbn [run].
      exact (intersperse_until_sound cl f lo hi g1 g2 g3 c (IH g1 c cl) (IH g3 c cl) (IH g2 c cl) lx ys st r HI Hc Hp).
    - (* intersperse_count_until *) cbn [run].
      exact (count_meets cl _ _ (intersperse_until_sound cl f lo hi g1 g2 g3 c (IH g1 c cl) (IH g3 c cl) (IH g2 c cl)) lx ys st r HI Hc Hp).
    - (* intersperse_default *) cbn [run].
      exact (intersperse_sound cl f lo hi g (GOne k) c (IH (GOne k) c cl) (IH g c cl) lx ys st r HI Hc Hp).
    - (* context push: only the error changes *) cbn [run].
      pose proof (IH g (ctx_pushed c tag) cl lx ys st r HI Hc Hp) as H. fuel_or H (run f g lx (ctx_pushed c tag) st).
      destruct r as [v s'|].
      + destruct H as (lx' & ys' & E & H). rewrite E. right. exists lx', ys'. split; [reflexivity|exact H].
      + destruct H as (e & E). rewrite E. apply ag_err.
    - (* user failure *) injection Hp as <-. cbn [run].
      destruct (c_peek_spec m Htab t Ht lx ys HI) as (lx' & ys' & E & _). rewrite E. cbn [lift]. apply ag_err.
    - (* some_of *) cbn [run]. unfold some_of. destruct (pmap_some _ _ _ Hp) as (ra & Ea & ->). apply ag_map.
      exact (IH g c cl lx ys st ra HI Hc Ea).
  Qed.
End RunPeg.
