(** C11, where the error of a bad segment lies: with an error sink, the one error reported for a bad
    segment (item from the sub-free core, no leaf accepting a separator or abort token) carries only
    spans between the parse start of the lexer the segment started with and the END of the separator
    or abort token that ends the segment, inclusive; the list resumes at that token. *)
From Tephra Require Import MetricsSpec MetricsFacts CLexer LexerFacts Run Peg RunCore RunErrors RunRecover RunScope RunSink
     RunLoopsPeg LexerOps RunFuel RunListOk RunListSeg RunMove RunErrLoc.

Section ListLoc.
  Variable m : metrics.
  Hypothesis Htab : 1 <= tabw m.
  Variable t : text.
  Hypothesis Ht : wf_text t.
  Local Notation Inv := (Inv m t).

  Variable a : G.
  Variable sep : kind.
  Variable ab : list kind.
  Local Notation soa := (sep :: ab).
  Hypothesis Ha : in_core a = true.
  Hypothesis Hc0 : core0 a = true.
  Hypothesis Hnb : nob soa a = true.
  Variable f0 : nat.
  Hypothesis Hd : gdepth a < f0.
  Variable c : ctx.
  Hypothesis Hsink : has_sink c = true.
  Variable dflt : val.

  Local Notation rr := (list_rref sep ab).
  Local Notation inner := (GRecoverWith dflt rr (GUpTo a soa)).
  Local Notation item := (GStabilize inner).
  Local Notation f := (S (S (S f0))).

  Lemma find_first_is_B pre b rest : noB soa pre -> isB soa b ->
    find_first soa (pre ++ b :: rest) = Some (pre, b, rest).
  Proof.
    intros Hp Hb. induction pre as [|y pre IH]; cbn [app find_first].
    - unfold isB in Hb. rewrite Hb. reflexivity.
    - inversion Hp as [|? ? Hy Hp']; subst. rewrite Hy, (IH Hp'). reflexivity.
  Qed.

  Theorem bad_segment_error_within lx ys st pre b rest :
    Inv lx ys -> c_rec lx = None -> bad a sep ab (kept (c_filter lx) ys) ->
    kept (c_filter lx) ys = pre ++ b :: rest -> noB soa pre -> isB soa b ->
    exists e lx' ys', run f item lx c st = (ROk dflt lx', logged st [e]) /\ Inv lx' ys'
      /\ c_filter lx' = c_filter lx /\ c_rec lx' = None /\ kept (c_filter lx) ys' = b :: rest
      /\ ewithin (byte (c_ps lx)) (byte (e_end b)) e.
  Proof using Htab Ht Ha Hc0 Hnb Hd Hsink.
    intros HI Hl Hbad Hk Hp Hb.
    destruct (upto_bad m Htab t Ht a sep ab Ha f0 Hd c lx ys st HI Hbad) as (e0 & Eu).
    pose proof (upto_error_within m Htab t Ht soa f0 a lx ys c st e0 st Hc0 Hnb HI Eu pre b rest Hk Hp Hb) as W.
    pose proof (recover_with_before m Htab t Ht sep ab c Hsink dflt (S f0) (GUpTo a soa) lx ys st e0 st HI Eu) as H. cbn zeta in H.
    rewrite Hk, (find_first_is_B pre b rest Hp Hb) in H.
    destruct H as (lx' & ys' & E & HI' & Hf & Hr & Hk').
    exists (apply_trail (trail c) e0), (set_rec lx' None), ys'.
    change (run f item lx c st) with (stab_loop (run (S (S f0))) (S (S f0)) 0 inner c lx (run (S (S f0)) inner lx c st)).
    rewrite E. split; [reflexivity|]. split; [apply (Inv_set_rec m t); exact HI'|]. split; [exact Hf|]. split; [reflexivity|].
    split; [exact Hk'|]. apply ewithin_trail. exact W.
  Qed.
End ListLoc.
