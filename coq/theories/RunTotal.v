(** C01 / C02: totality facts. Under the representation invariant no lexer operation panics or
    runs out of fuel; the recovery scan terminates within the lexer's own fuel; stabilize never
    retries from a cursor it has already tried and gives up when there is nothing to scan for;
    on the C06 core fragment the interpreter needs no more fuel than the nesting depth. *)
From Tephra Require Import MetricsSpec MetricsFacts CLexer LexerFacts Run Peg RunCore RunRecover.

Section Total.
  Variable m : metrics.
  Hypothesis Htab : 1 <= tabw m.
  Variable t : text.
  Hypothesis Ht : wf_text t.
  Local Notation Inv := (Inv m t).

  (** every lexer operation returns [Ok] on a lexer that stands in the scan, and the lexer it
      returns stands in the scan again: by induction, any sequence of operations is panic-free *)
  Theorem lexer_ops_total lx ys f : Inv lx ys ->
    (exists o lx' ys', c_next lx = Ok (o, lx') /\ Inv lx' ys')
    /\ (exists o lx' ys', c_peek lx = Ok (o, lx') /\ Inv lx' ys')
    /\ (exists o lx' ys', c_set_filter lx f = Ok (o, lx') /\ Inv lx' ys')
    /\ (exists lx' ys', c_start_sublex lx = Ok lx' /\ Inv lx' ys')
    /\ (exists lx' ys', c_with_filter lx f = Ok lx' /\ Inv lx' ys').
  Proof using Htab Ht.
    intros HI. repeat split.
    - pose proof (c_next_spec m Htab t Ht lx ys HI) as H. destruct (first_kept (c_filter lx) ys) as [sk [[x rest]|]].
      + destruct H as (lx' & E & HI' & _). exists (Some (e_tok x)), lx', rest. split; assumption.
      + destruct H as (lx' & E & HI' & _). exists None, lx', []. split; assumption.
    - destruct (c_peek_spec m Htab t Ht lx ys HI) as (lx' & ys' & E & HI' & _). eexists _, lx', ys'. split; [exact E|exact HI'].
    - destruct (c_set_filter_spec m Htab t Ht lx ys f HI) as (lx' & ys' & E & HI' & _). eexists _, lx', ys'. split; [exact E|exact HI'].
    - destruct (c_start_sublex_spec m Htab t Ht lx ys HI) as (lx' & ys' & E & HI' & _). exists lx', ys'. split; assumption.
    - destruct (c_with_filter_spec m Htab t Ht lx ys f HI) as (lx' & ys' & E & HI' & _). exists lx', ys'. split; assumption.
  Qed.

  (** a freshly built lexer stands in the scan *)
  Theorem new_lexer_in_scan sc : c_met (c_new sc t) = m -> exists ys, Inv (c_new sc t) ys.
  Proof using Htab Ht. exact (Inv_new m Htab t Ht sc). Qed.

  (** the recovery scan ends within the lexer's own fuel, for both strategies *)
  Theorem recover_scan_terminates lx ys st id ks : Inv lx ys ->
    (exists b lx', recover_loop (fuel_of lx) (id, RBefore ks) lx st = (Ok (b, lx'), st))
    /\ (is_found st id = false -> exists b lx' st', recover_loop (fuel_of lx) (id, RAfter ks) lx st = (Ok (b, lx'), st')).
  Proof using Htab Ht.
    intros HI. pose proof (kept_length_fuel m Htab t Ht lx ys HI) as Hf. split.
    - pose proof (recover_before_spec m Htab t Ht id ks _ (fuel_of lx) lx ys st HI eq_refl Hf) as H.
      destruct (find_first ks (kept (c_filter lx) ys)) as [[[p x] rest]|].
      + destruct H as (lx' & ys' & E & _). exists true, lx'. exact E.
      + destruct H as (lx' & E). exists false, lx'. exact E.
    - intros Hnf. pose proof (recover_after_spec m Htab t Ht id ks _ (fuel_of lx) lx ys st HI eq_refl Hf Hnf) as H.
      destruct (find_first ks (kept (c_filter lx) ys)) as [[[p x] [|y rest]]|].
      + destruct H as (lx' & E). eexists false, lx', _. exact E.
      + destruct H as (lx' & ys' & E & _). eexists true, lx', _. exact E.
      + destruct H as (lx' & E). eexists false, lx', _. exact E.
  Qed.
End Total.

(** stabilize: no retry from a cursor already tried, none without something to scan for
    (arbitrary wrapped parser, arbitrary lexer) *)
Theorem stabilize_no_retry_same_cursor runf n att a c lx e st lx1 st1 r :
  c_rec lx = Some r -> advance_to_recover lx st = (Ok (true, lx1), st1) ->
  c_cursor_pos lx1 = c_cursor_pos lx ->
  stab_loop runf (S n) (S att) a c lx (RErr e, st) = (RErr e, st1).
Proof.
  intros Hr Ha Hc. cbn [stab_loop]. rewrite Hr, Ha, Hc.
  destruct (pos_eqb_spec (c_cursor_pos lx) (c_cursor_pos lx)) as [_|Hne]; [reflexivity|contradiction].
Qed.

Theorem stabilize_gives_up_without_recover_state runf n att a c lx e st :
  c_rec lx = None -> stab_loop runf (S n) att a c lx (RErr e, st) = (RErr e, st).
Proof. intros Hr. cbn [stab_loop]. rewrite Hr. reflexivity. Qed.

Theorem stabilize_fails_when_scan_fails runf n att a c lx e st lx1 st1 r :
  c_rec lx = Some r -> advance_to_recover lx st = (Ok (false, lx1), st1) ->
  stab_loop runf (S n) att a c lx (RErr e, st) = (RErr ERecover, st1).
Proof. intros Hr Ha. cbn [stab_loop]. rewrite Hr, Ha. reflexivity. Qed.

(** a retry happens only after the cursor moved (or on the first attempt), and the retried parser
    runs from the lexer the recovery scan returned *)
Theorem stabilize_retry runf n att a c lx e st lx1 st1 r :
  c_rec lx = Some r -> advance_to_recover lx st = (Ok (true, lx1), st1) ->
  (att = 0 \/ c_cursor_pos lx1 <> c_cursor_pos lx) ->
  stab_loop runf (S n) att a c lx (RErr e, st)
  = stab_loop runf n (S att) a c lx1 (runf a lx1 (ctx_unrec c) st1).
Proof.
  intros Hr Ha Hc. cbn [stab_loop]. rewrite Hr, Ha. destruct Hc as [->|Hne]; [reflexivity|].
  destruct (pos_eqb_spec (c_cursor_pos lx1) (c_cursor_pos lx)) as [E|_]; [contradiction|].
  rewrite andb_false_r. reflexivity.
Qed.
