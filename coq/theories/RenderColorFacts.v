(** The plain rendering is the coloured rendering with the styles removed: both models, transcribed
    from the two branches of every [if color_enabled], denote the same characters. *)
From Coq Require Import Ascii.
From Tephra Require Import MetricsSpec MetricsFacts Source SourceFacts Render RenderTotal RenderColor.

Lemma dens_app a b : dens (a ++ b) = dens a ++ dens b.
Proof. unfold dens. apply flat_map_app. Qed.

Lemma strip_app a b : strip (a ++ b) = strip a ++ strip b.
Proof. unfold strip. apply map_app. Qed.

Lemma strip_map_CP l : strip (map CP l) = l.
Proof. unfold strip. rewrite map_map. cbn [strip1]. apply map_id. Qed.

Lemma rep_chars1 n a : rep n [AC a] = repeat (AC a) n.
Proof. induction n as [|n IH]; cbn [rep repeat app]; [reflexivity|]. rewrite IH. reflexivity. Qed.

(** [n] separately styled copies of a one-cell string denote what one [ORep] denotes *)
Lemma dens_crep n sty s : dens (strip (crep n (CS sty (OS s)))) = den (ORep s n).
Proof.
  induction n as [|n IH]; [reflexivity|].
  cbn [crep strip map strip1]. change (dens (OS s :: ?l)) with (chars s ++ dens l).
  fold (strip (crep n (CS sty (OS s)))). rewrite IH. reflexivity.
Qed.

Lemma gutter_num_eq w n : dens (strip (gutter_num_c w n)) = dens (gutter_num w n).
Proof. cbn. rewrite ?app_nil_r. reflexivity. Qed.

Lemma gutter_empty_eq w : dens (strip (gutter_empty_c w)) = dens (gutter_empty w).
Proof. cbn. rewrite ?app_nil_r. reflexivity. Qed.

Lemma riser_eq h l st act :
  snd (riser_c h l st act) = snd (riser h l st act)
  /\ dens (strip (fst (riser_c h l st act))) = dens (fst (riser h l st act)).
Proof.
  unfold riser_c, riser. destruct st; cbn [fst snd]; try (split; reflexivity).
  destruct (l <? line (sstart (h_span h))); [split; reflexivity|].
  destruct (negb act && (col (sstart (h_span h)) =? 0)); split; reflexivity.
Qed.

Lemma risers_eq hls : forall sts l act idx,
  snd (risers_c hls sts l act idx) = snd (risers hls sts l act idx)
  /\ dens (strip (fst (risers_c hls sts l act idx))) = dens (fst (risers hls sts l act idx)).
Proof.
  induction hls as [|h hr IH]; intros sts l act idx; cbn [risers_c risers]; [split; reflexivity|].
  destruct sts as [|s sr]; [split; reflexivity|].
  pose proof (riser_eq h l s (match act with Some a => a =? idx | None => false end)) as [Hs Hc].
  destruct (riser_c h l s _) as [c s'] eqn:E1. destruct (riser h l s _) as [c0 s0] eqn:E0.
  cbn [fst snd] in Hs, Hc. subst s0.
  specialize (IH sr l act (S idx)) as [Hs2 Hc2].
  destruct (risers_c hr sr l act (S idx)) as [cr sr'] eqn:E3. destruct (risers hr sr l act (S idx)) as [cr0 sr0] eqn:E4.
  cbn [fst snd] in *. subst sr0. split; [reflexivity|].
  rewrite strip_app, !dens_app, Hc, Hc2. reflexivity.
Qed.

Lemma app_eq2 {A} (a a' b b' : list A) : a = a' -> b = b' -> a ++ b = a' ++ b'.
Proof. intros -> ->. reflexivity. Qed.

Lemma message_row_eq h l extra : dens (strip (message_row_c h l extra)) = dens (message_row h l extra).
Proof.
  unfold message_row_c, message_row.
  destruct ((line (sstart (h_span h)) =? l) && (line (send (h_span h)) =? l)).
  - rewrite !strip_app, !dens_app. apply app_eq2; [destruct extra; reflexivity|]. apply app_eq2; [reflexivity|].
    apply app_eq2; [|reflexivity].
    destruct (byte (sstart (h_span h)) =? byte (send (h_span h))); [reflexivity|].
    rewrite dens_crep. cbn. rewrite app_nil_r. reflexivity.
  - destruct (line (sstart (h_span h)) =? l).
    + rewrite !strip_app, !dens_app. apply app_eq2; [destruct extra; reflexivity|]. apply app_eq2; [|reflexivity].
      rewrite dens_crep. cbn. rewrite app_nil_r. reflexivity.
    + destruct (line (send (h_span h)) =? l); [|reflexivity].
      rewrite !strip_app, !dens_app. apply app_eq2; [destruct extra; reflexivity|]. apply app_eq2; [|reflexivity].
      destruct (0 <? col (send (h_span h))); [|reflexivity].
      rewrite dens_crep. cbn. rewrite app_nil_r. reflexivity.
Qed.

Lemma message_rows_eq all gw extra l hls : forall sts idx,
  snd (message_rows_c hls all sts l gw extra idx) = snd (message_rows hls all sts l gw extra idx)
  /\ dens (strip (fst (message_rows_c hls all sts l gw extra idx))) = dens (fst (message_rows hls all sts l gw extra idx)).
Proof.
  induction hls as [|h hr IH]; intros sts idx; cbn [message_rows_c message_rows]; [split; reflexivity|].
  destruct (has_message_for_line h l); [|apply IH].
  pose proof (risers_eq all sts l (Some idx) 0) as [Hs Hc].
  destruct (risers_c all sts l (Some idx) 0) as [rc sts'] eqn:E1. destruct (risers all sts l (Some idx) 0) as [rc0 sts0] eqn:E0.
  cbn [fst snd] in Hs, Hc. subst sts0.
  specialize (IH sts' (S idx)) as [Hs2 Hc2].
  destruct (message_rows_c hr all sts' l gw extra (S idx)) as [rest s2] eqn:E3.
  destruct (message_rows hr all sts' l gw extra (S idx)) as [rest0 s20] eqn:E4.
  cbn [fst snd] in *. subst s20. split; [reflexivity|].
  rewrite !strip_app, !dens_app, gutter_empty_eq, Hc, message_row_eq, Hc2. reflexivity.
Qed.

Lemma line_rows_eq src hls gw : forall pieces sts,
  rmap (fun l => dens (strip l)) (line_rows_c src pieces hls sts gw) = rmap dens (line_rows src pieces hls sts gw).
Proof.
  induction pieces as [|sp rest IH]; intros sts; cbn [line_rows_c line_rows]; [reflexivity|].
  pose proof (risers_eq hls sts (line (sstart sp)) None 0) as [Hs Hc].
  destruct (risers_c hls sts (line (sstart sp)) None 0) as [rc sts1] eqn:E1.
  destruct (risers hls sts (line (sstart sp)) None 0) as [rc0 sts10] eqn:E0.
  cbn [fst snd] in Hs, Hc. subst sts10.
  destruct (clipped src sp) as [w| |]; cbn [bind rmap]; try reflexivity.
  pose proof (message_rows_eq hls gw (existsb is_multiline hls) (line (sstart sp)) hls sts1 0) as [Hs2 Hc2].
  destruct (message_rows_c hls hls sts1 (line (sstart sp)) gw (existsb is_multiline hls) 0) as [mr sts2] eqn:E3.
  destruct (message_rows hls hls sts1 (line (sstart sp)) gw (existsb is_multiline hls) 0) as [mr0 sts20] eqn:E4.
  cbn [fst snd] in Hs2, Hc2. subst sts20.
  specialize (IH sts2).
  destruct (line_rows_c src rest hls sts2 gw) as [more| |]; destruct (line_rows src rest hls sts2 gw) as [more0| |];
    cbn [bind rmap] in *; try discriminate; try reflexivity.
  injection IH as IH. f_equal.
  rewrite !strip_app, !dens_app, gutter_num_eq, Hc, Hc2, IH.
  apply app_eq2; [reflexivity|]. apply app_eq2; [reflexivity|].
  apply app_eq2; [destruct (existsb is_multiline hls); reflexivity|]. reflexivity.
Qed.

Lemma sd_render_eq src sd :
  rmap (fun l => dens (strip l)) (sd_render_c src sd) = rmap dens (sd_render src sd).
Proof.
  unfold sd_render_c, sd_render.
  destruct (sl_collect _ _) as [pieces| |]; cbn [bind rmap]; try reflexivity.
  pose proof (line_rows_eq src (sd_hls sd) (sd_gw sd) pieces
                (map (fun h => if is_multiline h then RWaiting else RUnused) (sd_hls sd))) as H.
  destruct (line_rows_c src pieces _ _ _) as [body| |]; destruct (line_rows src pieces _ _ _) as [body0| |];
    cbn [bind rmap] in *; try discriminate; try reflexivity.
  injection H as H. f_equal.
  rewrite !strip_app, !dens_app, strip_map_CP, gutter_empty_eq, H.
  cbn [strip map strip1 dens flat_map den app chars].
  apply app_eq2; [reflexivity|]. apply app_eq2; [destruct (sd_named sd); reflexivity|]. reflexivity.
Qed.

Lemma sds_render_eq src : forall sds,
  rmap (fun l => dens (strip l)) (sds_render_c src sds) = rmap dens (sds_render src sds).
Proof.
  induction sds as [|sd r IH]; cbn [sds_render_c sds_render]; [reflexivity|].
  pose proof (sd_render_eq src sd) as H.
  destruct (sd_render_c src sd) as [a| |]; destruct (sd_render src sd) as [a0| |]; cbn [bind rmap] in *; try discriminate; try reflexivity.
  injection H as H.
  destruct (sds_render_c src r) as [b| |]; destruct (sds_render src r) as [b0| |]; cbn [bind rmap] in *; try discriminate; try reflexivity.
  injection IH as IH. f_equal. rewrite strip_app, !dens_app, H, IH. reflexivity.
Qed.

Lemma mtype_cells_eq t : dens (strip (mtype_cells_c t)) = dens [OS (mtype_name t)].
Proof. destruct t; reflexivity. Qed.

(** C16: the plain rendering equals the coloured rendering with the styles (escape codes) removed;
    in particular one fails exactly when the other does *)
Theorem colour_strip_plain src cd :
  rmap (fun l => dens (strip l)) (cd_render_c src cd) = rmap dens (cd_render src cd).
Proof.
  unfold cd_render_c, cd_render.
  pose proof (sds_render_eq src (cd_sds cd)) as H.
  destruct (sds_render_c src (cd_sds cd)) as [b| |]; destruct (sds_render src (cd_sds cd)) as [b0| |];
    cbn [bind rmap] in *; try discriminate; try reflexivity.
  injection H as H. f_equal.
  rewrite !strip_app, !dens_app, mtype_cells_eq, H.
  apply app_eq2; [reflexivity|]. apply app_eq2; [destruct (cd_code cd); reflexivity|]. reflexivity.
Qed.

(** styles never touch the source text: every styled cell of a coloured rendering is a literal,
    a number or a message, never source characters or a line break *)
Definition style_free (c : ccell) : Prop :=
  match c with CS _ (OSrc _) | CS _ ONl => False | _ => True end.

Lemma sf_crep n sty s : Forall style_free (crep n (CS sty (OS s))).
Proof. induction n; cbn [crep]; constructor; [exact I|assumption]. Qed.

Ltac sf := repeat first [ apply Forall_app; split | apply Forall_cons; [exact I|] | apply Forall_nil | apply sf_crep ].

Lemma sf_risers hls : forall sts l act idx, Forall style_free (fst (risers_c hls sts l act idx)).
Proof.
  induction hls as [|h hr IH]; intros sts l act idx; cbn [risers_c]; [constructor|].
  destruct sts as [|s sr]; [constructor|].
  destruct (riser_c h l s _) as [c s'] eqn:E. specialize (IH sr l act (S idx)).
  destruct (risers_c hr sr l act (S idx)) as [cr sr']. cbn [fst] in *. apply Forall_app. split; [|exact IH].
  unfold riser_c in E. destruct s; try (injection E as <- _; sf).
  destruct (l <? line (sstart (h_span h))); [injection E as <- _; sf|].
  destruct (negb _ && _); injection E as <- _; sf.
Qed.

Lemma sf_message_row h l extra : Forall style_free (message_row_c h l extra).
Proof.
  unfold message_row_c.
  destruct (_ && _); [destruct extra, (byte _ =? byte _); sf|].
  destruct (line (sstart (h_span h)) =? l); [destruct extra; sf|].
  destruct (line (send (h_span h)) =? l); [|constructor].
  destruct extra, (0 <? col (send (h_span h))); sf.
Qed.

Lemma sf_message_rows all gw extra l hls : forall sts idx, Forall style_free (fst (message_rows_c hls all sts l gw extra idx)).
Proof.
  induction hls as [|h hr IH]; intros sts idx; cbn [message_rows_c]; [constructor|].
  destruct (has_message_for_line h l); [|apply IH].
  pose proof (sf_risers all sts l (Some idx) 0) as Hr.
  destruct (risers_c all sts l (Some idx) 0) as [rc sts']. specialize (IH sts' (S idx)).
  destruct (message_rows_c hr all sts' l gw extra (S idx)) as [rest s2]. cbn [fst] in *.
  unfold gutter_empty_c. sf; try assumption. apply sf_message_row.
Qed.

Lemma sf_line_rows src hls gw : forall pieces sts cells,
  line_rows_c src pieces hls sts gw = Ok cells -> Forall style_free cells.
Proof.
  induction pieces as [|sp rest IH]; intros sts cells H; cbn [line_rows_c] in H; [injection H as <-; constructor|].
  pose proof (sf_risers hls sts (line (sstart sp)) None 0) as Hr.
  destruct (risers_c hls sts (line (sstart sp)) None 0) as [rc sts1].
  destruct (clipped src sp) as [w| |]; cbn [bind] in H; try discriminate.
  pose proof (sf_message_rows hls gw (existsb is_multiline hls) (line (sstart sp)) hls sts1 0) as Hm.
  destruct (message_rows_c hls hls sts1 (line (sstart sp)) gw (existsb is_multiline hls) 0) as [mr sts2].
  destruct (line_rows_c src rest hls sts2 gw) as [more| |] eqn:E; cbn [bind] in H; try discriminate.
  injection H as <-. specialize (IH sts2 more E). cbn [fst] in *. unfold gutter_num_c.
  destruct (existsb is_multiline hls); sf; assumption.
Qed.

Lemma sf_map_CP l : Forall style_free (map CP l).
Proof. induction l; cbn [map]; constructor; [exact I|assumption]. Qed.

Lemma sf_sds src : forall sds cells, sds_render_c src sds = Ok cells -> Forall style_free cells.
Proof.
  induction sds as [|sd r IH]; intros cells H; cbn [sds_render_c] in H; [injection H as <-; constructor|].
  destruct (sd_render_c src sd) as [a| |] eqn:Ea; cbn [bind] in H; try discriminate.
  destruct (sds_render_c src r) as [b| |] eqn:Eb; cbn [bind] in H; try discriminate.
  injection H as <-. apply Forall_app. split; [|apply IH; reflexivity].
  unfold sd_render_c in Ea.
  destruct (sl_collect _ _) as [pieces| |]; cbn [bind] in Ea; try discriminate.
  destruct (line_rows_c src pieces _ _ _) as [body| |] eqn:El; cbn [bind] in Ea; try discriminate.
  injection Ea as <-. pose proof (sf_line_rows _ _ _ _ _ _ El) as Hb. unfold gutter_empty_c.
  destruct (sd_named sd); sf; try assumption; apply sf_map_CP.
Qed.

(** the source lines (and the line breaks) of a coloured rendering are never inside a style:
    "verbatim" holds for the coloured rendering too *)
Theorem colour_never_styles_source src cd cells :
  cd_render_c src cd = Ok cells -> Forall style_free cells.
Proof.
  unfold cd_render_c. intros H.
  destruct (sds_render_c src (cd_sds cd)) as [b| |] eqn:E; cbn [bind] in H; try discriminate.
  injection H as <-. pose proof (sf_sds _ _ _ E) as Hb.
  destruct (cd_ty cd), (cd_code cd); cbn [mtype_cells_c]; sf; assumption.
Qed.

(** hence the coloured rendering never fails where the plain one does not: C01 for the colour path *)
Theorem cd_render_c_total (m : metrics) (Htab : 1 <= tabw m) us (Hwf : wf_units m us) off name msg ty code sds :
  Forall (fun sd => exists i j named hls, i <= j /\ j <= length us /\
            sd_new (mksource (ctext m us) name m off) (mkspan (gpos m us off i) (gpos m us off j)) named hls = Ok sd) sds ->
  exists cells, cd_render_c (mksource (ctext m us) name m off) (mkcd msg ty code sds) = Ok cells.
Proof.
  intros H. destruct (cd_render_total m Htab us Hwf off name msg ty code sds H) as [p Ep].
  pose proof (colour_strip_plain (mksource (ctext m us) name m off) (mkcd msg ty code sds)) as E.
  rewrite Ep in E. destruct (cd_render_c _ _) as [c| |]; cbn [rmap] in E; try discriminate. eexists. reflexivity.
Qed.
