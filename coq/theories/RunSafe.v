(** C01 for the whole combinator model: within the documented argument preconditions ([pre_ok]:
    non-empty token slices for any/any_index, high >= low, non-empty disjoint open/close sets of
    equal length) no combinator panics, on any lexer that stands in the sequential scan - any text,
    scanner state, filter, look-ahead, recover state, context (sink or none) and store - and the
    lexer a successful parse returns stands in the scan again. In the model every unwrap, assert,
    slice and unreachable of the transcribed code is an explicit RPanic; running out of fuel (RFuel)
    is not a panic. *)
From Tephra Require Import MetricsSpec MetricsFacts CLexer LexerFacts LexerOps Run Peg RunCore RunErrors RunCapture
     RunRecover RunScope RunSink RunBracket RunTotal.

Definition hi_ok (lo : nat) (hi : option nat) : bool := match hi with Some h => lo <=? h | None => true end.

Fixpoint pre_ok (g : G) : bool :=
  match g with
  | GEmpty | GOne _ | GSeq _ | GSeqCount _ | GPred _ | GEot | GUserFail | GProbe _ => true
  | GAny ks | GAnyIndex ks => match ks with [] => false | _ => true end
  | GLeft a b | GRight a b | GBoth a b | GEither a b
  | GImplies a b | GAntecedent a b | GConsequent a b | GCondImplies a _ b => pre_ok a && pre_ok b
  | GCenter a b d => pre_ok a && pre_ok b && pre_ok d
  | GMap _ a | GDiscard a | GText a | GSpanned a | GSub a | GMaybe a | GRequireIf _ a | GCond _ a
  | GFilterWith _ a | GUnfiltered a | GRaw a | GUnrec a | GStabilize a | GCtxPush _ a | GSomeOf a | GUpTo a _
  | GRecover _ a | GRecoverDef _ a | GRecoverDelayed _ a | GRecoverDefDelayed _ a | GRecoverWith _ _ a
  | GList a _ _ | GListDef a _ _ => pre_ok a
  | GRepeat lo hi a | GRepeatCount lo hi a | GIntersperseDef lo hi a _ | GListB lo hi a _ _ | GListBDef lo hi a _ _ =>
    hi_ok lo hi && pre_ok a
  | GRepeatUntil lo hi a b | GRepeatCountUntil lo hi a b | GIntersperse lo hi a b | GIntersperseCount lo hi a b =>
    hi_ok lo hi && pre_ok a && pre_ok b
  | GIntersperseUntil lo hi a b d | GIntersperseCountUntil lo hi a b d => hi_ok lo hi && pre_ok a && pre_ok b && pre_ok d
  | GBracket os a cs _ | GBracketDef os a cs _ | GBracketIdx os a cs _ | GBracketDefIdx os a cs _ => bracket_pre os cs && pre_ok a
  end.

Section Safe.
  Variable m : metrics.
  Hypothesis Htab : 1 <= tabw m.
  Variable t : text.
  Hypothesis Ht : wf_text t.
  Local Notation Inv := (Inv m t).

  (** not a panic; a returned lexer stands in the scan *)
  Definition safe (r : R) : Prop :=
    match r with
    | (ROk _ lx', _) => exists ys', Inv lx' ys'
    | (RPanic, _) => False
    | _ => True
    end.

  Lemma safe_ok v l ys st : Inv l ys -> safe (ROk v l, st).
  Proof. intros H. exists ys. exact H. Qed.

  Lemma safe_on_ok r k : safe r -> (forall v l st' ys, Inv l ys -> safe (k v l st')) -> safe (on_ok r k).
  Proof. destruct r as [[v l|e| |] st']; cbn [safe on_ok]; intros H Hk; try exact H. destruct H as [ys H]. exact (Hk v l st' ys H). Qed.

  Lemma safe_map_val f r : safe r -> safe (map_val f r).
  Proof. destruct r as [[v l|e| |] st']; cbn [safe map_val]; intros H; exact H. Qed.

  (** the lexer operations, as lifted steps *)
  Lemma safe_next lx ys st (k : option tok * clexer -> R) : Inv lx ys ->
    (forall o l yl, Inv l yl -> c_rec l = c_rec lx -> safe (k (o, l))) -> safe (lift (c_next lx) st k).
  Proof using Htab Ht.
    intros HI Hk. destruct (lexer_ops_total m Htab t Ht lx ys None HI) as ((o & l & yl & E & HI') & _).
    rewrite E. cbn [lift]. exact (Hk o l yl HI' (c_next_rec _ _ _ E)).
  Qed.

  Lemma safe_peek lx ys st (k : option tok * clexer -> R) : Inv lx ys ->
    (forall l yl, Inv l yl -> c_rec l = c_rec lx -> c_filter l = c_filter lx ->
        match kept (c_filter lx) ys with
        | [] => kept (c_filter lx) yl = [] -> safe (k (None, l))
        | x :: s => kept (c_filter lx) yl = x :: s -> safe (k (Some (e_tok x), l))
        end) -> safe (lift (c_peek lx) st k).
  Proof using Htab Ht.
    intros HI Hk. destruct (kept (c_filter lx) ys) as [|x s] eqn:Ek.
    - destruct (peek_nil m Htab t Ht lx ys HI Ek) as (l & yl & E & HI' & Hf & Hr & Hk'). rewrite E. cbn [lift].
      exact (Hk l yl HI' Hr Hf Hk').
    - destruct (peek_cons m Htab t Ht lx ys x s HI Ek) as (l & yl & E & HI' & Hf & Hr & Hk'). rewrite E. cbn [lift].
      exact (Hk l yl HI' Hr Hf Hk').
  Qed.

  Lemma safe_peek' lx ys st (k : option tok * clexer -> R) : Inv lx ys ->
    (forall o l yl, Inv l yl -> c_rec l = c_rec lx -> safe (k (o, l))) -> safe (lift (c_peek lx) st k).
  Proof using Htab Ht.
    intros HI Hk. apply (safe_peek lx ys st k HI). intros l yl HI' Hr Hf.
    destruct (kept (c_filter lx) ys); intros _; apply (Hk _ l yl HI' Hr).
  Qed.

  Lemma safe_set_filter lx ys fl st (k : option fspec * clexer -> R) : Inv lx ys ->
    (forall o l yl, Inv l yl -> c_rec l = c_rec lx -> safe (k (o, l))) -> safe (lift (c_set_filter lx fl) st k).
  Proof using Htab Ht.
    intros HI Hk. destruct (lexer_ops_total m Htab t Ht lx ys fl HI) as (_ & _ & (o & l & yl & E & HI') & _).
    rewrite E. cbn [lift]. exact (Hk o l yl HI' (c_set_filter_rec _ _ _ _ E)).
  Qed.

  Lemma safe_sublex lx ys st (k : clexer -> R) : Inv lx ys ->
    (forall l yl, Inv l yl -> c_rec l = c_rec lx -> safe (k l)) -> safe (lift (c_start_sublex lx) st k).
  Proof using Htab Ht.
    intros HI Hk. destruct (lexer_ops_total m Htab t Ht lx ys None HI) as (_ & _ & _ & (l & yl & E & HI') & _).
    rewrite E. cbn [lift]. exact (Hk l yl HI' (c_start_sublex_rec _ _ E)).
  Qed.

  Lemma safe_advance_to lx ys p st (k : bool * clexer -> R) : Inv lx ys ->
    (forall b l yl, Inv l yl -> c_rec l = c_rec lx -> safe (k (b, l))) -> safe (lift (c_advance_to (fuel_of lx) lx p) st k).
  Proof using Htab Ht.
    intros HI Hk. pose proof (c_advance_to_spec m Htab t Ht p _ (fuel_of lx) lx ys HI eq_refl (kept_length_fuel m Htab t Ht lx ys HI)) as H.
    destruct (split_first p (kept (c_filter lx) ys)) as [[[pre x] q]|]; destruct H as (l & yl & E & HI' & _); rewrite E; cbn [lift];
      exact (Hk _ l yl HI' (c_advance_to_rec _ _ _ _ _ E)).
  Qed.

  (** the recovery scan, for any strategy *)
  Lemma recover_loop_safe r : forall fuel lx ys st, Inv lx ys ->
    match recover_loop fuel r lx st with
    | (Ok (_, lx'), _) => exists ys', Inv lx' ys' /\ c_rec lx' = c_rec lx
    | (Panic, _) => False
    | (Fuel, _) => True
    end.
  Proof using Htab Ht.
    induction fuel as [|fu IH]; intros lx ys st HI; cbn [recover_loop]; [exact I|].
    destruct (lexer_ops_total m Htab t Ht lx ys None HI) as (_ & (o & l1 & y1 & E1 & HI1) & _). rewrite E1.
    pose proof (c_peek_rec _ _ _ E1) as R1.
    destruct o as [tk|]; [|exists y1; split; assumption].
    destruct (rec_call st r tk) as [st' b]. destruct b; [exists y1; split; assumption|].
    destruct (lexer_ops_total m Htab t Ht l1 y1 None HI1) as ((o2 & l2 & y2 & E2 & HI2) & _). rewrite E2.
    pose proof (c_next_rec _ _ _ E2) as R2.
    specialize (IH l2 y2 st' HI2). destruct (recover_loop fu r l2 st') as [[[b' l3]| |] st3]; try exact IH.
    destruct IH as (y3 & HI3 & R3). exists y3. split; [exact HI3|congruence].
  Qed.

  Lemma advance_to_recover_safe lx ys st : Inv lx ys ->
    match advance_to_recover lx st with
    | (Ok (_, lx'), _) => exists ys', Inv lx' ys' /\ c_rec lx' = c_rec lx
    | (Panic, _) => False
    | (Fuel, _) => True
    end.
  Proof using Htab Ht.
    intros HI. unfold advance_to_recover. destruct (c_rec lx) as [r|] eqn:Er.
    - pose proof (recover_loop_safe r (fuel_of lx) lx ys st HI) as H. rewrite Er in H. exact H.
    - exists ys. split; [exact HI|exact Er].
  Qed.

  (** the repetition loops *)
  Lemma safe_mand : forall n lo stop step vals cur ys st k, Inv cur ys ->
    (forall l yl s, Inv l yl -> safe (step l s)) ->
    (forall sp, stop = Some sp -> forall l yl s, Inv l yl -> safe (sp l s)) ->
    (forall vs l yl s, Inv l yl -> safe (k vs l s)) ->
    safe (mand_loop n lo stop step vals cur st k).
  Proof.
    induction n as [|n IH]; intros lo stop step vals cur ys st k HI Hstep Hstop Hk; cbn [mand_loop]; [exact I|].
    destruct (length vals <? lo); [|exact (Hk vals cur ys st HI)].
    assert (Hgo : forall s0, safe match step cur s0 with
                                  | (ROk v lx', st') => mand_loop n lo stop step (vals ++ [v]) lx' st' k
                                  | r => r
                                  end).
    { intros s0. pose proof (Hstep cur ys s0 HI) as Hs. destruct (step cur s0) as [[v l|e| |] st']; cbn [safe] in Hs; try exact Hs.
      destruct Hs as [yl Hl]. exact (IH lo stop step _ l yl st' k Hl Hstep Hstop Hk). }
    destruct stop as [sp|]; [|apply Hgo].
    pose proof (Hstop sp eq_refl cur ys st HI) as Hs. destruct (sp cur st) as [[v l|e| |] st']; cbn [safe] in Hs; try exact Hs.
    - exact (safe_ok _ _ _ _ HI).
    - apply Hgo.
  Qed.

  Lemma safe_opt : forall n hi stop step vals cur ys st, Inv cur ys ->
    (forall l yl s, Inv l yl -> safe (step l s)) ->
    (forall sp, stop = Some sp -> forall l yl s, Inv l yl -> safe (sp l s)) ->
    safe (opt_loop n hi stop step vals cur st).
  Proof.
    induction n as [|n IH]; intros hi stop step vals cur ys st HI Hstep Hstop; cbn [opt_loop]; [exact I|].
    destruct (lt_opt (length vals) hi); [|exact (safe_ok _ _ _ _ HI)].
    assert (Hgo : forall s0, safe match step cur s0 with
                                  | (ROk v lx', st') =>
                                    let vals' := vals ++ [v] in
                                    if ge_opt (length vals') hi then (ROk (VList vals') lx', st')
                                    else opt_loop n hi stop step vals' lx' st'
                                  | (RErr _, st') => (ROk (VList vals) cur, st')
                                  | r => r
                                  end).
    { intros s0. pose proof (Hstep cur ys s0 HI) as Hs. destruct (step cur s0) as [[v l|e| |] st']; cbn [safe] in Hs; try exact Hs.
      - destruct Hs as [yl Hl]. cbn zeta. destruct (ge_opt _ hi); [exact (safe_ok _ _ _ _ Hl)|]. exact (IH hi stop step _ l yl st' Hl Hstep Hstop).
      - exact (safe_ok _ _ _ _ HI). }
    destruct stop as [sp|]; [|apply Hgo].
    pose proof (Hstop sp eq_refl cur ys st HI) as Hs. destruct (sp cur st) as [[v l|e| |] st']; cbn [safe] in Hs; try exact Hs.
    - exact (safe_ok _ _ _ _ HI).
    - apply Hgo.
  Qed.

  Lemma hi_check_safe lo hi lx ys st r : hi_ok lo hi = true -> Inv lx ys -> hi_check lo hi lx st = Some r -> safe r.
  Proof.
    intros Hh HI. unfold hi_check, hi_ok in *. destruct hi as [h|]; [|discriminate].
    destruct (Nat.ltb_spec h lo) as [Hlt|Hge]; [apply Nat.leb_le in Hh; lia|].
    destruct (h =? 0); [intros H; injection H as <-; exact (safe_ok _ _ _ _ HI)|discriminate].
  Qed.

  Lemma safe_intersperse runf n lo hi a s lx ys c st : hi_ok lo hi = true -> Inv lx ys ->
    (forall l yl s0, Inv l yl -> safe (runf a l c s0)) ->
    (forall l yl s0, Inv l yl -> safe (runf s l c s0)) ->
    safe (run_intersperse runf n lo hi a s lx c st).
  Proof.
    intros Hh HI Ha Hs. unfold run_intersperse.
    destruct (hi_check lo hi lx st) as [r|] eqn:Eh; [exact (hi_check_safe _ _ _ _ _ _ Hh HI Eh)|].
    assert (Hstep : forall l yl s0, Inv l yl -> safe (right_of runf s a c l s0)).
    { intros l yl s0 Hl. unfold right_of. apply safe_on_ok; [exact (Hs l yl s0 Hl)|]. intros _ l' s' yl' Hl'. exact (Ha l' yl' s' Hl'). }
    pose proof (Ha lx ys st HI) as H0. destruct (runf a lx c st) as [[v l|e| |] st']; cbn [safe] in H0; try exact H0.
    - destruct H0 as [yl Hl]. apply (safe_mand n lo None _ [v] l yl st'); [exact Hl|exact Hstep|discriminate|].
      intros vs l' yl' s' Hl'. apply (safe_opt n hi None _ vs l' yl' s'); [exact Hl'|exact Hstep|discriminate].
    - destruct (lo =? 0); [exact (safe_ok _ _ _ _ HI)|exact I].
  Qed.

  Lemma safe_intersperse_until runf n lo hi sg a s lx ys c st : hi_ok lo hi = true -> Inv lx ys ->
    (forall l yl s0, Inv l yl -> safe (runf sg l c s0)) ->
    (forall l yl s0, Inv l yl -> safe (runf a l c s0)) ->
    (forall l yl s0, Inv l yl -> safe (runf s l c s0)) ->
    safe (run_intersperse_until runf n lo hi sg a s lx c st).
  Proof.
    intros Hh HI Hg Ha Hs. unfold run_intersperse_until.
    destruct (hi_check lo hi lx st) as [r|] eqn:Eh; [exact (hi_check_safe _ _ _ _ _ _ Hh HI Eh)|].
    assert (Hstep : forall l yl s0, Inv l yl -> safe (right_of runf s a c l s0)).
    { intros l yl s0 Hl. unfold right_of. apply safe_on_ok; [exact (Hs l yl s0 Hl)|]. intros _ l' s' yl' Hl'. exact (Ha l' yl' s' Hl'). }
    assert (Hstop : forall sp, Some (fun l st0 => runf sg l c st0) = Some sp -> forall l yl s0, Inv l yl -> safe (sp l s0)).
    { intros sp E l yl s0 Hl. injection E as <-. exact (Hg l yl s0 Hl). }
    pose proof (Hg lx ys st HI) as Hg0. destruct (runf sg lx c st) as [[v0 l0|e0| |] st0]; cbn [safe] in Hg0; try exact Hg0.
    - exact (safe_ok _ _ _ _ HI).
    - pose proof (Ha lx ys st0 HI) as H0. destruct (runf a lx c st0) as [[v l|e| |] st']; cbn [safe] in H0; try exact H0.
      + destruct H0 as [yl Hl]. apply (safe_mand n lo _ _ [v] l yl st'); [exact Hl|exact Hstep|exact Hstop|].
        intros vs l' yl' s' Hl'. apply (safe_opt n hi _ _ vs l' yl' s'); [exact Hl'|exact Hstep|exact Hstop].
      + destruct (lo =? 0); [exact (safe_ok _ _ _ _ HI)|exact I].
  Qed.

  Lemma safe_count_of r : safe r -> safe (count_of r).
  Proof. unfold count_of. apply safe_map_val. Qed.

  (** stabilize: every attempt is safe, every retry starts from a lexer in the scan *)
  Lemma safe_stab runf a c : (forall l yl c' s, Inv l yl -> safe (runf a l c' s)) ->
    forall n att lx ys res, Inv lx ys -> safe res -> safe (stab_loop runf n att a c lx res).
  Proof using Htab Ht.
    intros Ha. induction n as [|n IH]; intros att lx ys res HI Hr; cbn [stab_loop]; [exact I|].
    destruct res as [[v l|e| |] st]; cbn [safe] in Hr; try exact Hr.
    - destruct Hr as [yl Hl]. exists yl. exact (Inv_set_rec m t l yl None Hl).
    - destruct (c_rec lx) as [r|] eqn:Er; [|exact I].
      pose proof (advance_to_recover_safe lx ys st HI) as H.
      destruct (advance_to_recover lx st) as [[[b lx1]| |] st1]; try exact H.
      destruct H as (y1 & HI1 & _). destruct b; [|exact I].
      destruct (_ && _); [exact I|]. apply (IH _ lx1 y1); [exact HI1|]. exact (Ha lx1 y1 _ st1 HI1).
  Qed.

  (** the two token-sequence leaves *)
  Lemma safe_seq_fix es st : forall ks acc l yl, Inv l yl ->
    safe
      ((fix go (ks : list kind) (acc : list val) (l : clexer) : R :=
          match ks with
          | [] => (ROk (VList acc) l, st)
          | k :: r =>
            lift (c_next l) st (fun '(o, l') =>
            match o with
            | Some t0 => if tok_eqb t0 (tk0 k) then go r (acc ++ [VTok t0]) l'
                         else (RErr (EUnexpected es (c_token_span l') (ExTok (tk0 k)) (Some t0)), st)
            | None => (RErr (EUnexpected es (c_token_span l') (ExTok (tk0 k)) None), st)
            end)
          end) ks acc l).
  Proof using Htab Ht.
    induction ks as [|k r IHk]; intros acc l yl Hl.
    - exact (safe_ok _ _ _ _ Hl).
    - apply (safe_next l yl); [exact Hl|]. intros o l' yl' Hl' _.
      destruct o as [t0|]; [destruct (tok_eqb t0 (tk0 k)); [exact (IHk _ l' yl' Hl')|exact I]|exact I].
  Qed.

  Lemma safe_seqcount_fix es st : forall ks cnt l yl, Inv l yl ->
    safe
      ((fix go (ks : list kind) (cnt : nat) (l : clexer) : R :=
          match ks with
          | [] => (ROk (VNat cnt) l, st)
          | k :: r =>
            if c_at_end l then (ROk (VNat cnt) l, st)
            else
              lift (c_peek l) st (fun '(o, l') =>
              match o with
              | Some t0 => if tok_eqb t0 (tk0 k)
                           then lift (c_next l') st (fun '(_, l'') => go r (S cnt) l'')
                           else (ROk (VNat cnt) l', st)
              | None =>
                lift (only_filtered_remain l') st (fun b =>
                if b then (ROk (VNat cnt) l', st) else (RErr (EUnrecognized es), st))
              end)
          end) ks cnt l).
  Proof using Htab Ht.
    induction ks as [|k r IHk]; intros cnt l yl Hl.
    - exact (safe_ok _ _ _ _ Hl).
    - destruct (c_at_end l); [exact (safe_ok _ _ _ _ Hl)|].
      apply (safe_peek' l yl); [exact Hl|]. intros o l' yl' Hl' _.
      destruct o as [t0|].
      + destruct (tok_eqb t0 (tk0 k)); [|exact (safe_ok _ _ _ _ Hl')].
        apply (safe_next l' yl'); [exact Hl'|]. intros o2 l2 y2 Hl2 _. exact (IHk _ l2 y2 Hl2).
      + unfold only_filtered_remain.
        destruct (lexer_ops_total m Htab t Ht l' yl' None Hl') as ((o2 & l2 & y2 & E2 & _) & _). rewrite E2. cbn [bind lift].
        destruct (match fst (o2, l2) with None => c_at_end (snd (o2, l2)) | Some _ => false end); [exact (safe_ok _ _ _ _ Hl')|exact I].
  Qed.

  (** * The list combinators *)

  (** what the next deliverable token of a lexer is *)
  Definition next_in (ks : list kind) (l : clexer) (yl : list entry) : Prop :=
    match kept (c_filter l) yl with
    | [] => True
    | x :: _ => in_kinds ks (e_tok x) = true
    end.

  (** safe, and on success the next deliverable token (if any) is in [ks] *)
  Definition post (ks : list kind) (need_norec : bool) (r : R) : Prop :=
    match r with
    | (ROk _ l1, _) => exists y1, Inv l1 y1 /\ (need_norec = true -> c_rec l1 = None) /\ next_in ks l1 y1
    | (RPanic, _) => False
    | _ => True
    end.

  Lemma post_of_safe_err ks b r : safe r -> (forall v l st, r <> (ROk v l, st)) -> post ks b r.
  Proof. destruct r as [[v l|e| |] st]; cbn [post safe]; intros H Hn; try exact H. exfalso. exact (Hn v l st eq_refl). Qed.

  Lemma post_safe ks b r : post ks b r -> safe r.
  Proof. destruct r as [[v l|e| |] st]; cbn [post safe]; intros H; try exact H. destruct H as (y & H & _). exists y. exact H. Qed.

  Section Items.
    Variable f3 : nat.
    Variable a : G.
    (** the item parser is safe at the fuel the wrappers leave for it *)
    Hypothesis Ha : forall l yl c' s, Inv l yl -> safe (run f3 a l c' s).
    Variable sep : kind.
    Variable ab : list kind.
    Variable dflt : val.
    Local Notation soa := (sep :: ab).
    Local Notation rr := (list_rref sep ab).

    Lemma upto_post l yl c' s0 : Inv l yl -> post soa false (run (S f3) (GUpTo a soa) l c' s0).
    Proof using Htab Ht Ha.
      intros HI. cbn [run]. pose proof (Ha l yl c' s0 HI) as H0.
      destruct (run f3 a l c' s0) as [[v l1|e| |] st1]; cbn [safe] in H0; cbn [on_ok post]; try exact H0.
      destruct H0 as [y1 HI1]. destruct (kept (c_filter l1) y1) as [|x s] eqn:Ek.
      - destruct (peek_nil m Htab t Ht l1 y1 HI1 Ek) as (l2 & y2 & E & HI2 & Hf2 & _ & Hk2). rewrite E. cbn [lift post].
        exists y2. split; [exact HI2|]. split; [discriminate|]. unfold next_in. rewrite Hf2, Hk2. exact I.
      - destruct (peek_cons m Htab t Ht l1 y1 x s HI1 Ek) as (l2 & y2 & E & HI2 & Hf2 & _ & Hk2). rewrite E. cbn [lift].
        destruct (in_kinds soa (e_tok x)) eqn:Ein.
        + cbn [post]. exists y2. split; [exact HI2|]. split; [discriminate|]. unfold next_in. rewrite Hf2, Hk2. exact Ein.
        + apply post_of_safe_err.
          * apply (safe_advance_to l2 y2); [exact HI2|]. intros b l3 y3 _ _. exact I.
          * intros v0 l0 st0. destruct (c_advance_to (fuel_of l2) l2 (in_kinds soa)) as [[b l3]| |]; cbn [lift]; discriminate.
    Qed.

    (** recover_default with the list's own strategy: after a recovery the next token is a separator or an abort token *)
    Lemma rw_term_post dflt0 l yl c' b : Inv l yl -> post soa false b ->
      post soa false
        match b with
        | (RErr e, st1) =>
          match send_error c' e (log st1) with
          | (_, Some e') => (RErr e', st1)
          | (lg, None) =>
            match advance_to_recover (set_rec l (Some rr)) (st_log st1 lg) with
            | (Ok (true, lx'), st3) => (ROk dflt0 lx', st3)
            | (Ok (false, _), st3) => (RErr ERecover, st3)
            | (Panic, st3) => (RPanic, st3)
            | (Fuel, st3) => (RFuel, st3)
            end
          end
        | (ROk v l1, st1) => (ROk v l1, st1)
        | (RPanic, st1) => (RPanic, st1)
        | (RFuel, st1) => (RFuel, st1)
        end.
    Proof using Htab Ht.
      intros HI Hb. destruct b as [[v l1|e| |] st1]; cbn [post] in Hb |- *; try exact Hb.
      unfold send_error. destruct (has_sink c'); [|exact I].
      unfold advance_to_recover. cbn [set_rec c_rec].
      pose proof (Inv_set_rec m t l yl (Some rr) HI) as HI0.
      pose proof (recover_before_spec m Htab t Ht 0 soa _ (fuel_of (set_rec l (Some rr))) (set_rec l (Some rr)) yl
                    (st_log st1 (log st1 ++ [apply_trail (trail c') e])) HI0 eq_refl (kept_length_fuel m Htab t Ht l yl HI)) as H.
      unfold list_rref in *. unfold rref in *. cbn [set_rec c_filter c_rec] in H.
      pose proof (find_first_spec soa (kept (c_filter l) yl)) as Hff.
      destruct (find_first soa (kept (c_filter l) yl)) as [[[pre x] rest]|].
      - destruct H as (lx' & ys' & E & HI' & Hf' & _ & Hk'). rewrite E. cbn [post].
        exists ys'. split; [exact HI'|]. split; [discriminate|]. unfold next_in. rewrite Hf', Hk'. tauto.
      - destruct H as (lx' & E). rewrite E. exact I.
    Qed.

    Lemma rw_post f2 l yl c' s0 : f2 = S f3 -> Inv l yl ->
      post soa false (run (S f2) (GRecoverWith dflt rr (GUpTo a soa)) l c' s0).
    Proof using Htab Ht Ha.
      intros -> HI. pose proof (upto_post l yl c' s0 HI) as Hu.
      pose proof (rw_term_post dflt l yl c' _ HI Hu) as H.
      cbn [run]. cbn [run] in H. destruct (run f3 a l c' s0) as [[v l1|e| |] st1]; exact H.
    Qed.

    Lemma stab_post runf rw0 c : (forall l yl c' s, Inv l yl -> post soa false (runf rw0 l c' s)) ->
      forall n att lx ys res, Inv lx ys -> post soa false res -> post soa true (stab_loop runf n att rw0 c lx res).
    Proof using Htab Ht.
      intros Hr. induction n as [|n IH]; intros att lx ys res HI Hres; cbn [stab_loop]; [exact I|].
      destruct res as [[v l|e| |] st]; cbn [post] in Hres |- *; try exact Hres.
      - destruct Hres as (yl & Hl & _ & Hn). exists yl. split; [exact (Inv_set_rec m t l yl None Hl)|]. split; [reflexivity|exact Hn].
      - destruct (c_rec lx) as [r|] eqn:Er; [|exact I].
        pose proof (advance_to_recover_safe lx ys st HI) as H.
        destruct (advance_to_recover lx st) as [[[b lx1]| |] st1]; try exact H.
        destruct H as (y1 & HI1 & _). destruct b; [|exact I].
        destruct (_ && _); [exact I|]. apply (IH _ lx1 y1); [exact HI1|]. exact (Hr lx1 y1 _ st1 HI1).
    Qed.
  End Items.

  (** the item wrapper of the list combinators at any fuel, given the item parser is safe below it *)
  Lemma item_post f a sep ab dflt c :
    (forall f', f' < f -> forall l yl c' s, Inv l yl -> safe (run f' a l c' s)) ->
    forall l yl s, Inv l yl ->
    post (sep :: ab) true (run f (GStabilize (GRecoverWith dflt (list_rref sep ab) (GUpTo a (sep :: ab)))) l c s).
  Proof using Htab Ht.
    intros Hall l yl s HI. destruct f as [|[|[|f3]]].
    - exact I.
    - cbn [run stab_loop snd]. exact I.
    - cbn [run stab_loop]. exact I.
    - assert (Ha : forall l0 yl0 c' s0, Inv l0 yl0 -> safe (run f3 a l0 c' s0)) by (intros l0 yl0 c' s0 H0; apply (Hall f3 ltac:(lia) l0 yl0 c' s0 H0)).
      change (run (S (S (S f3))) (GStabilize (GRecoverWith dflt (list_rref sep ab) (GUpTo a (sep :: ab)))) l c s)
        with (stab_loop (run (S (S f3))) (S (S f3)) 0 (GRecoverWith dflt (list_rref sep ab) (GUpTo a (sep :: ab))) c l
                (run (S (S f3)) (GRecoverWith dflt (list_rref sep ab) (GUpTo a (sep :: ab))) l c s)).
      apply (stab_post sep ab (run (S (S f3))) _ c) with (ys := yl); [|exact HI|].
      + intros l0 yl0 c' s0 HI0. exact (rw_post f3 a Ha sep ab dflt (S f3) l0 yl0 c' s0 eq_refl HI0).
      + exact (rw_post f3 a Ha sep ab dflt (S f3) l yl c s eq_refl HI).
  Qed.

  (** the separator wrapper on a separator token *)
  Lemma sepp_run f sep ab c lx ys st x s : Inv lx ys -> kept (c_filter lx) ys = x :: s ->
    tok_eqb (tk0 sep) (e_tok x) = true ->
    match run f (GRecoverWith VUnit (list_rref sep ab) (GDiscard (GOne sep))) lx c st with
    | (ROk _ lx3, _) => exists y3, Inv lx3 y3 /\ c_rec lx3 = c_rec lx
    | (RFuel, _) => True
    | _ => False
    end.
  Proof using Htab Ht.
    intros HI Hk Hs. destruct f as [|[|[|f3]]]; try (cbn [run map_val]; exact I).
    destruct (next_cons m Htab t Ht lx ys x s HI Hk) as (lx1 & ys1 & E1 & HI1 & _ & Hr1 & _).
    cbn [run]. rewrite E1. cbn [lift]. destruct (tok_eqb_spec (tk0 sep) (e_tok x)) as [Eq|]; [|discriminate Hs].
    rewrite <- Eq. destruct (tok_eqb_spec (tk0 sep) (tk0 sep)) as [_|N]; [|contradiction]. cbn [map_val].
    exists ys1. split; [exact HI1|exact Hr1].
  Qed.

  Lemma list_loop_safe f a sep ab dflt c (N : Prop) :
    (forall l yl s, Inv l yl -> post (sep :: ab) true (run f (GStabilize (GRecoverWith dflt (list_rref sep ab) (GUpTo a (sep :: ab)))) l c s)) ->
    (forall l yl s, Inv l yl -> safe (run f (GStabilize (GMaybe (GUpTo a (sep :: ab)))) l c s)) ->
    forall n hi vals lx ys st k, Inv lx ys -> (N -> c_rec lx = None) ->
    (forall vs l yl s, Inv l yl -> (N -> c_rec l = None) -> safe (k vs l s)) ->
    safe (list_loop (run f) n hi ab dflt (GStabilize (GRecoverWith dflt (list_rref sep ab) (GUpTo a (sep :: ab))))
            (GStabilize (GMaybe (GUpTo a (sep :: ab)))) (GRecoverWith VUnit (list_rref sep ab) (GDiscard (GOne sep))) c vals lx st k).
  Proof using Htab Ht.
    intros Hitem Hprobe. induction n as [|n IHn]; intros hi vals lx ys st k HI HN Hk; cbn [list_loop]; [exact I|].
    apply (safe_peek lx ys); [exact HI|]. intros l0 y0 HI0 Hr0 Hf0.
    assert (HN0 : N -> c_rec l0 = None) by (intros HNn; rewrite Hr0; exact (HN HNn)).
    destruct (kept (c_filter lx) ys) as [|x s] eqn:Ek; intros Hk0; [exact (Hk _ l0 y0 st HI0 HN0)|].
    destruct (in_kinds ab (e_tok x)) eqn:Eab.
    - destruct vals as [|v0 vr]; [exact (Hk _ l0 y0 st HI0 HN0)|].
      pose proof (Hprobe l0 y0 st HI0) as Hp.
      destruct (run f (GStabilize (GMaybe (GUpTo a (sep :: ab)))) l0 c st) as [[pv pl|pe| |] st1]; cbn [safe] in Hp; try exact Hp.
      destruct pv; exact (Hk _ l0 y0 st1 HI0 HN0).
    - pose proof (Hitem l0 y0 st HI0) as Hi.
      destruct (run f (GStabilize (GRecoverWith dflt (list_rref sep ab) (GUpTo a (sep :: ab)))) l0 c st) as [[v l1|e| |] st1];
        cbn [post] in Hi; try exact Hi.
      + destruct Hi as (y1 & HI1 & Hc1 & Hn1). specialize (Hc1 eq_refl). cbn zeta.
        destruct (ge_opt _ hi); [exact (Hk _ l1 y1 st1 HI1 (fun _ => Hc1))|].
        apply (safe_peek l1 y1); [exact HI1|]. intros l2 y2 HI2 Hr2 Hf2.
        assert (Hc2 : c_rec l2 = None) by congruence.
        unfold next_in in Hn1. destruct (kept (c_filter l1) y1) as [|x2 s2] eqn:Ek1; intros Hk2; [exact (Hk _ l2 y2 st1 HI2 (fun _ => Hc2))|].
        destruct (in_kinds ab (e_tok x2)) eqn:Eab2; [exact (Hk _ l2 y2 st1 HI2 (fun _ => Hc2))|].
        destruct (c_at_end l2); [exact (Hk _ l2 y2 st1 HI2 (fun _ => Hc2))|].
        assert (Hsep : tok_eqb (tk0 sep) (e_tok x2) = true).
        { unfold in_kinds in Hn1, Eab2. cbn [existsb] in Hn1. rewrite Eab2, orb_false_r in Hn1. exact Hn1. }
        rewrite <- Hf2 in Hk2.
        pose proof (sepp_run f sep ab c l2 y2 st1 x2 s2 HI2 Hk2 Hsep) as Hs.
        destruct (run f (GRecoverWith VUnit (list_rref sep ab) (GDiscard (GOne sep))) l2 c st1) as [[v3 l3|e3| |] st3]; try exact I; try contradiction.
        destruct Hs as (y3 & HI3 & Hr3). apply (safe_sublex l3 y3); [exact HI3|]. intros l4 y4 HI4 Hr4.
        apply (IHn hi _ l4 y4 st3 k HI4); [intros _; congruence|exact Hk].
      + destruct e; try exact I.
        apply (safe_advance_to l0 y0); [exact HI0|]. intros b l1 y1 HI1 Hr1.
        apply (Hk _ l1 y1 st1 HI1). intros HNn. rewrite Hr1. exact (HN0 HNn).
  Qed.

  (** * Every combinator *)

  Theorem run_safe : forall fuel g, pre_ok g = true -> forall lx ys c st, Inv lx ys -> safe (run fuel g lx c st).
  Proof using Htab Ht.
    induction fuel as [fuel IHall] using lt_wf_ind. intros g Hg lx ys c st HI.
    destruct fuel as [|f]; [exact I|].
    assert (IH : forall g0, pre_ok g0 = true -> forall l yl c0 s0, Inv l yl -> safe (run f g0 l c0 s0)).
    { intros g0 Hg0 l yl c0 s0 Hl. apply (IHall f ltac:(lia) g0 Hg0 l yl c0 s0 Hl). }
    (* recover_with around a safe body *)
    assert (Hrw : forall dflt r (body : clexer -> ctx -> store -> R), safe (body lx c st) ->
              safe match body lx c st with
                   | (RErr e, st1) =>
                     match send_error c e (log st1) with
                     | (_, Some e') => (RErr e', st1)
                     | (lg, None) =>
                       match advance_to_recover (set_rec lx (Some r)) (st_log st1 lg) with
                       | (Ok (true, lx'), st3) => (ROk dflt lx', st3)
                       | (Ok (false, _), st3) => (RErr ERecover, st3)
                       | (Panic, st3) => (RPanic, st3)
                       | (Fuel, st3) => (RFuel, st3)
                       end
                     end
                   | r0 => r0
                   end).
    { intros dflt r body Hb. destruct (body lx c st) as [[v l|e| |] st1]; cbn [safe] in Hb |- *; try exact Hb.
      destruct (send_error c e (log st1)) as [lg [e'|]]; [exact I|].
      pose proof (advance_to_recover_safe (set_rec lx (Some r)) ys (st_log st1 lg) (Inv_set_rec m t lx ys (Some r) HI)) as H.
      destruct (advance_to_recover (set_rec lx (Some r)) (st_log st1 lg)) as [[[b lx']| |] st3]; try exact H.
      destruct H as (y' & HI' & _). destruct b; [exists y'; exact HI'|exact I]. }
    (* the bracket combinators *)
    assert (Hbw : forall os a cs ab okv dfl, bracket_pre os cs = true -> pre_ok a = true ->
              safe
                (if (match os with [] => true | _ => false end) || (match cs with [] => true | _ => false end)
                    || negb (length os =? length cs) || negb (disjoint_kinds os cs)
                 then (RPanic, st)
                 else
                   match match_nested_brackets lx os cs ab with
                   | BPanic => (RPanic, st) | BFuel => (RFuel, st)
                   | BErr e => (RErr e, st)
                   | BM o cl idx =>
                     lift (c_next o) st (fun '(_, o1) =>
                     lift (c_start_sublex o1) st (fun inner =>
                     lift (c_next cl) st (fun '(_, cl1) =>
                     match run f a inner c st with
                     | (ROk v _, st1) => (ROk (okv v idx) cl1, st1)
                     | (RErr e, st1) =>
                       match send_error c e (log st1) with
                       | (_, Some e') => (RErr e', st1)
                       | (l, None) => (ROk (dfl idx) cl1, st_log st1 l)
                       end
                     | r => r
                     end)))
                   end)).
    { intros os a cs ab okv dfl Hpre Ha. unfold bracket_pre in Hpre. apply negb_true_iff in Hpre. rewrite Hpre.
      pose proof (match_nested_brackets_spec m Htab t Ht os cs ab lx ys HI) as H.
      destruct (ref_match os cs ab (span_at (c_cursor_pos lx)) (kept (c_filter lx) ys) None []) as [o ao x r ci|e].
      - destruct H as (lo & lc & E & Hlo & Hlc). rewrite E.
        destruct (looks_at_next m Htab t Ht _ _ _ _ Hlo) as (o1 & yo1 & E1 & HI1 & _). rewrite E1. cbn [lift].
        apply (safe_sublex o1 yo1); [exact HI1|]. intros inner yi HIi _.
        destruct (looks_at_next m Htab t Ht _ _ _ _ Hlc) as (cl1 & y1 & E3 & HIc & _). rewrite E3. cbn [lift].
        pose proof (IH a Ha inner yi c st HIi) as H0.
        destruct (run f a inner c st) as [[v l|e| |] st1]; cbn [safe] in H0 |- *; try exact H0.
        + exists y1. exact HIc.
        + destruct (send_error c e (log st1)) as [lg [e'|]]; [exact I|]. exists y1. exact HIc.
      - rewrite H. exact I. }
    (* the list combinators *)
    assert (Hlw : forall lo hi item0 dflt sep ab, hi_ok lo hi = true -> pre_ok item0 = true ->
              safe
                match hi with
                | Some 0 => (ROk (VList []) lx, st)
                | _ =>
                  if (match hi with Some h => h <? lo | None => false end) then (RPanic, st)
                  else
                    list_loop (run f) f hi ab dflt
                      (GStabilize (GRecoverWith dflt (list_rref sep ab) (GUpTo item0 (sep :: ab))))
                      (GStabilize (GMaybe (GUpTo item0 (sep :: ab))))
                      (GRecoverWith VUnit (list_rref sep ab) (GDiscard (GOne sep))) c [] lx st
                      (fun vals lx' st' =>
                         match (match c_rec lx with Some _ => None | None => c_rec lx' end) with
                         | Some _ => (RPanic, st')
                         | None =>
                           if length vals <? lo then
                             match send_error c (ECount (c_parse_span lx') (length vals) lo hi) (log st') with
                             | (_, Some e') => (RErr e', st')
                             | (l, None) => (ROk (VList vals) lx', st_log st' l)
                             end
                           else (ROk (VList vals) lx', st')
                         end)
                end).
    { intros lo hi item0 dflt sep ab Hh Hi.
      assert (Hloop : safe
                (list_loop (run f) f hi ab dflt
                      (GStabilize (GRecoverWith dflt (list_rref sep ab) (GUpTo item0 (sep :: ab))))
                      (GStabilize (GMaybe (GUpTo item0 (sep :: ab))))
                      (GRecoverWith VUnit (list_rref sep ab) (GDiscard (GOne sep))) c [] lx st
                      (fun vals lx' st' =>
                         match (match c_rec lx with Some _ => None | None => c_rec lx' end) with
                         | Some _ => (RPanic, st')
                         | None =>
                           if length vals <? lo then
                             match send_error c (ECount (c_parse_span lx') (length vals) lo hi) (log st') with
                             | (_, Some e') => (RErr e', st')
                             | (l, None) => (ROk (VList vals) lx', st_log st' l)
                             end
                           else (ROk (VList vals) lx', st')
                         end))).
      { apply (list_loop_safe f item0 sep ab dflt c (c_rec lx = None)) with (ys := ys).
        - intros l yl s0 Hl. apply (item_post f item0 sep ab dflt c) with (yl := yl); [|exact Hl]. intros f' Hf' l0 yl0 c' s1 Hl0.
          apply (IHall f' ltac:(lia) item0 Hi l0 yl0 c' s1 Hl0).
        - intros l yl s0 Hl. apply (IH (GStabilize (GMaybe (GUpTo item0 (sep :: ab)))) Hi l yl c s0 Hl).
        - exact HI.
        - intros H; exact H.
        - intros vs l yl s0 Hl Hrec. destruct (c_rec lx) as [r0|] eqn:Er.
          + destruct (length vs <? lo); [|exists yl; exact Hl].
            destruct (send_error c _ (log s0)) as [lg [e'|]]; [exact I|exists yl; exact Hl].
          + rewrite (Hrec eq_refl). destruct (length vs <? lo); [|exists yl; exact Hl].
            destruct (send_error c _ (log s0)) as [lg [e'|]]; [exact I|exists yl; exact Hl]. }
      unfold hi_ok in Hh. destruct hi as [[|h]|]; [exists ys; exact HI| |].
      - destruct (Nat.ltb_spec (S h) lo) as [Hlt|_]; [apply Nat.leb_le in Hh; lia|exact Hloop].
      - exact Hloop. }
    destruct g; cbn [pre_ok] in Hg; cbn [run];
      repeat match goal with H : _ && _ = true |- _ => apply andb_prop in H; destruct H end.
    - (* empty *) exact (safe_ok _ _ _ _ HI).
    - (* one *) apply (safe_next lx ys); [exact HI|]. intros o l yl Hl _.
      destruct o as [t0|]; [destruct (tok_eqb t0 (tk0 k)); [exact (safe_ok _ _ _ _ Hl)|exact I]|exact I].
    - (* any *) destruct ks as [|k0 ks]; [discriminate Hg|]. apply (safe_peek' lx ys); [exact HI|]. intros o l yl Hl _.
      destruct o as [t0|]; [|exact I]. destruct (position _ (k0 :: ks)); [|exact I].
      apply (safe_next l yl); [exact Hl|]. intros o2 l2 y2 Hl2 _. exact (safe_ok _ _ _ _ Hl2).
    - (* any_index *) destruct ks as [|k0 ks]; [discriminate Hg|]. apply (safe_peek' lx ys); [exact HI|]. intros o l yl Hl _.
      destruct o as [t0|]; [|exact I]. destruct (position _ (k0 :: ks)); [|exact I].
      apply (safe_next l yl); [exact Hl|]. intros o2 l2 y2 Hl2 _. exact (safe_ok _ _ _ _ Hl2).
    - (* seq *) apply (safe_seq_fix _ _ _ _ lx ys HI).
    - (* seq_count *) apply (safe_seqcount_fix _ _ _ _ lx ys HI).
    - (* pred *) apply (safe_next lx ys); [exact HI|]. intros o l yl Hl _.
      destruct o as [t0|]; [destruct (peval p t0); [exact (safe_ok _ _ _ _ Hl)|exact I]|exact I].
    - (* end_of_text *)
      assert (Hb : exists b, (if c_at_end lx then Ok true else only_filtered_remain lx) = Ok b).
      { destruct (c_at_end lx); [exists true; reflexivity|]. unfold only_filtered_remain.
        destruct (lexer_ops_total m Htab t Ht lx ys None HI) as ((o2 & l2 & y2 & E2 & _) & _). rewrite E2. cbn [bind]. eexists. reflexivity. }
      destruct Hb as [b Eb]. rewrite Eb. cbn [lift]. destruct b; [exact (safe_ok _ _ _ _ HI)|].
      apply (safe_peek' lx ys); [exact HI|]. intros o l yl Hl _. destruct o; exact I.
    - (* left *) apply safe_on_ok; [eapply IH; eassumption|]. intros v l s0 yl Hl. apply safe_map_val. eapply IH; eassumption.
    - (* right *) apply safe_on_ok; [eapply IH; eassumption|]. intros v l s0 yl Hl. eapply IH; eassumption.
    - (* both *) apply safe_on_ok; [eapply IH; eassumption|]. intros v l s0 yl Hl. apply safe_map_val. eapply IH; eassumption.
    - (* center *) apply safe_on_ok; [eapply IH; eassumption|]. intros v l s0 yl Hl.
      apply safe_on_ok; [eapply IH; eassumption|]. intros v2 l2 s2 yl2 Hl2. apply safe_map_val. eapply IH; eassumption.
    - (* map *) apply safe_map_val. eapply IH; eassumption.
    - (* discard *) apply safe_map_val. eapply IH; eassumption.
    - (* text *) apply (safe_peek' lx ys); [exact HI|]. intros o l1 y1 Hl1 _.
      apply safe_on_ok; [eapply IH; eassumption|]. intros v l s0 yl Hl. cbn zeta.
      rewrite (parse_span_end m Htab t l yl Hl).
      assert (Hin : byte (c_cur l) <= blen (c_text l)).
      { pose proof Hl as [[Et _] (pre & suf & [Esplit Hb]) _ _ _ _]. rewrite Et, Esplit, blen_app, Hb. lia. }
      apply Nat.leb_le in Hin. rewrite Hin.
      assert (Hmin : (Nat.min (match c_peek_token_span l1 with Some sp => byte (sstart sp) | None => byte (send (c_token_span l1)) end) (byte (c_cur l)) <=? byte (c_cur l)) = true)
        by (apply Nat.leb_le; lia).
      rewrite Hmin. cbn [andb]. exact (safe_ok _ _ _ _ Hl).
    - (* spanned *) apply (safe_peek' lx ys); [exact HI|]. intros o l1 y1 Hl1 _.
      apply safe_on_ok; [eapply IH; eassumption|]. intros v l s0 yl Hl. exact (safe_ok _ _ _ _ Hl).
    - (* sub *) apply (safe_sublex lx ys); [exact HI|]. intros l yl Hl _. eapply IH; eassumption.
    - (* either *) pose proof (IH g1 H lx ys c st HI) as H1. destruct (run f g1 lx c st) as [[v l|e| |] s1]; cbn [safe] in H1; try exact H1.
      eapply IH; eassumption.
    - (* maybe *) pose proof (IH g Hg lx ys (ctx_unrec c) st HI) as H1.
      destruct (run f g lx (ctx_unrec c) st) as [[v l|e| |] s1]; cbn [safe] in H1 |- *; try exact H1. exists ys. exact HI.
    - (* require_if *) destruct b; [apply safe_map_val; eapply IH; eassumption|]. eapply IH; [exact Hg|exact HI].
    - (* cond *) destruct b; [apply safe_map_val; eapply IH; eassumption|exact (safe_ok _ _ _ _ HI)].
    - (* implies *) apply safe_on_ok; [eapply IH; [exact H|exact HI]|]. intros v l s0 yl Hl.
      destruct v; try exact (safe_ok _ _ _ _ Hl). apply safe_map_val. eapply IH; eassumption.
    - (* antecedent *) apply safe_on_ok; [eapply IH; [exact H|exact HI]|]. intros v l s0 yl Hl.
      destruct v; try exact (safe_ok _ _ _ _ Hl). apply safe_map_val. eapply IH; eassumption.
    - (* consequent *) apply safe_on_ok; [eapply IH; [exact H|exact HI]|]. intros v l s0 yl Hl.
      destruct v; try exact (safe_ok _ _ _ _ Hl). apply safe_map_val. eapply IH; eassumption.
    - (* cond_implies *) apply safe_on_ok; [eapply IH; [exact H|exact HI]|]. intros v l s0 yl Hl.
      destruct v; try exact (safe_ok _ _ _ _ Hl). destruct (vpeval p v); [|exact (safe_ok _ _ _ _ Hl)]. apply safe_map_val. eapply IH; eassumption.
    - (* filter_with *) apply (safe_set_filter lx ys); [exact HI|]. intros old l1 y1 Hl1 _.
      apply safe_on_ok; [eapply IH; eassumption|]. intros v l s0 yl Hl.
      apply (safe_set_filter l yl); [exact Hl|]. intros o2 l2 y2 Hl2 _. exact (safe_ok _ _ _ _ Hl2).
    - (* unfiltered *) apply (safe_set_filter lx ys); [exact HI|]. intros old l1 y1 Hl1 _.
      apply safe_on_ok; [eapply IH; eassumption|]. intros v l s0 yl Hl.
      apply (safe_set_filter l yl); [exact Hl|]. intros o2 l2 y2 Hl2 _. exact (safe_ok _ _ _ _ Hl2).
    - (* raw *) eapply IH; eassumption.
    - (* unrecoverable *) eapply IH; eassumption.
    - (* recover *) apply (Hrw VNone r (fun l c' s => some_of (run f g l c' s))). apply safe_map_val. eapply IH; eassumption.
    - (* recover_default *) apply (Hrw VDflt r (fun l c' s => run f g l c' s)). eapply IH; eassumption.
    - (* recover delayed *) apply (Hrw VNone r (fun l c' s => some_of (run f g l c' s))). apply safe_map_val. eapply IH; eassumption.
    - (* recover_default delayed *) apply (Hrw VDflt r (fun l c' s => run f g l c' s)). eapply IH; eassumption.
    - (* stabilize *) apply (safe_stab (run f) g c) with (ys := ys); [|exact HI|eapply IH; eassumption].
      intros l yl c' s0 Hl. eapply IH; eassumption.
    - (* repeat *) apply (safe_intersperse (run f) f lo hi g GEmpty lx ys c st); [assumption|exact HI| |]; intros l yl s0 Hl; eapply IH; try eassumption; reflexivity.
    - apply safe_count_of. apply (safe_intersperse (run f) f lo hi g GEmpty lx ys c st); [assumption|exact HI| |]; intros l yl s0 Hl; eapply IH; try eassumption; reflexivity.
    - apply (safe_intersperse_until (run f) f lo hi g1 g2 GEmpty lx ys c st); [assumption|exact HI| | |]; intros l yl s0 Hl; eapply IH; try eassumption; reflexivity.
    - apply safe_count_of. apply (safe_intersperse_until (run f) f lo hi g1 g2 GEmpty lx ys c st); [assumption|exact HI| | |]; intros l yl s0 Hl; eapply IH; try eassumption; reflexivity.
    - apply (safe_intersperse (run f) f lo hi g1 g2 lx ys c st); [assumption|exact HI| |]; intros l yl s0 Hl; eapply IH; eassumption.
    - apply safe_count_of. apply (safe_intersperse (run f) f lo hi g1 g2 lx ys c st); [assumption|exact HI| |]; intros l yl s0 Hl; eapply IH; eassumption.
    - apply (safe_intersperse_until (run f) f lo hi g1 g2 g3 lx ys c st); [assumption|exact HI| | |]; intros l yl s0 Hl; eapply IH; eassumption.
    - apply safe_count_of. apply (safe_intersperse_until (run f) f lo hi g1 g2 g3 lx ys c st); [assumption|exact HI| | |]; intros l yl s0 Hl; eapply IH; eassumption.
    - apply (safe_intersperse (run f) f lo hi g (GOne k) lx ys c st); [assumption|exact HI| |]; intros l yl s0 Hl; eapply IH; try eassumption; reflexivity.
    - (* bracket *) apply Hbw; assumption.
    - apply Hbw; assumption.
    - apply Hbw; assumption.
    - apply Hbw; assumption.
    - (* up_to *) apply safe_on_ok; [eapply IH; eassumption|]. intros v l s0 yl Hl.
      apply (safe_peek' l yl); [exact Hl|]. intros o l2 y2 Hl2 _.
      destruct o as [t0|]; [|exact (safe_ok _ _ _ _ Hl2)]. destruct (in_kinds ab t0); [exact (safe_ok _ _ _ _ Hl2)|].
      apply (safe_advance_to l2 y2); [exact Hl2|]. intros b l3 y3 _ _. exact I.
    - (* list *) apply (Hlw 0 None (GSomeOf g) VNone sep ab); [reflexivity|exact Hg].
    - apply (Hlw lo hi (GSomeOf g) VNone sep ab); assumption.
    - apply (Hlw 0 None g VDflt sep ab); [reflexivity|exact Hg].
    - apply (Hlw lo hi g VDflt sep ab); assumption.
    - (* context push *) pose proof (IH g Hg lx ys (ctx_pushed c tag) st HI) as H1.
      destruct (run f g lx (ctx_pushed c tag) st) as [[v l|e| |] s1]; cbn [safe] in H1 |- *; exact H1.
    - (* user failure *) apply (safe_peek' lx ys); [exact HI|]. intros o l yl Hl _. exact I.
    - (* probe *) destruct (send_error c (EProbe n) (log st)) as [lg [e'|]]; exact (safe_ok _ _ _ _ HI).
    - (* some_of *) apply safe_map_val. eapply IH; eassumption.
    - (* recover_with *) apply (Hrw dflt r (fun l c' s => run f g l c' s)). eapply IH; eassumption.
  Qed.
End Safe.
