(** C08, whole grammars: for grammars whose recovering combinators stand only in committed
    positions, a parse that succeeds WITHOUT an error sink is reproduced exactly - same value,
    same returned lexer - WITH a sink, and the sink receives nothing (the store, which holds
    what the sink has received, is unchanged).

    Two notions: [rfree g] - no combinator in [g] ever consults the sink (no recover*, bracket*,
    list*, probe); [comm g] - such combinators occur, but never inside the left branch of an
    ordered choice, a repetition body or a stop parser (optional parsers run their sub-parser
    without a sink in both runs, so anything may stand there). *)
From Tephra Require Import CLexer Run RunScope.

(** * look-ahead and advance never touch the recover state *)

Lemma next_loop_rec : forall fuel behind lx o lx', next_loop fuel behind lx = Ok (o, lx') -> c_rec lx' = c_rec lx.
Proof.
  induction fuel as [|f IH]; intros behind lx o lx' H; cbn [next_loop] in H; [discriminate|].
  destruct (scan (c_sc lx) (c_met lx) (c_text lx) (c_cur lx)) as [[[[tk adv] sc']|]| |]; cbn [bind] in H; try discriminate.
  - destruct (filtered_out lx tk).
    + apply IH in H. destruct behind; exact H.
    + injection H as _ <-. reflexivity.
  - injection H as _ <-. reflexivity.
Qed.

Lemma c_next_rec lx o lx' : c_next lx = Ok (o, lx') -> c_rec lx' = c_rec lx.
Proof.
  unfold c_next. destruct (c_at_end lx); [intros H; injection H as _ <-; reflexivity|].
  destruct (c_buf lx) as [b|]; [intros H; injection H as _ <-; reflexivity|]. apply next_loop_rec.
Qed.

Lemma c_peek_rec lx o lx' : c_peek lx = Ok (o, lx') -> c_rec lx' = c_rec lx.
Proof.
  unfold c_peek. destruct (c_at_end lx); [intros H; injection H as _ <-; reflexivity|].
  destruct (c_buffer_next lx) as [l| |] eqn:E; cbn [bind]; try discriminate.
  intros H. injection H as _ <-. apply c_buffer_next_frame in E. tauto.
Qed.

Lemma c_start_sublex_rec lx lx' : c_start_sublex lx = Ok lx' -> c_rec lx' = c_rec lx.
Proof. unfold c_start_sublex. intros H. apply c_buffer_next_frame in H. cbn in H. tauto. Qed.

Lemma c_set_filter_rec lx f o lx' : c_set_filter lx f = Ok (o, lx') -> c_rec lx' = c_rec lx.
Proof. intros H. apply c_set_filter_frame in H. tauto. Qed.

Lemma c_advance_to_rec : forall fuel lx p b lx', c_advance_to fuel lx p = Ok (b, lx') -> c_rec lx' = c_rec lx.
Proof.
  induction fuel as [|f IH]; intros lx p b lx' H; cbn [c_advance_to] in H; [discriminate|].
  destruct (c_next lx) as [[o l1]| |] eqn:E; cbn [bind] in H; try discriminate.
  apply c_next_rec in E. destruct o as [tk|].
  - destruct (p tk); [injection H as _ <-; exact E|]. apply IH in H. congruence.
  - injection H as _ <-. exact E.
Qed.

(** * Contexts that differ at most in having a sink *)

Definition crel (c c' : ctx) : Prop := trail c = trail c' /\ locked c = locked c'.

Lemma crel_unrec c c' : crel c c' -> ctx_unrec c = ctx_unrec c'.
Proof. intros [A B]. unfold ctx_unrec. rewrite A, B. reflexivity. Qed.
Lemma crel_raw c c' : crel c c' -> crel (ctx_raw c) (ctx_raw c').
Proof. intros _. split; reflexivity. Qed.
Lemma crel_pushed c c' tag : crel c c' -> crel (ctx_pushed c tag) (ctx_pushed c' tag).
Proof.
  intros [A B]. unfold ctx_pushed, crel. destruct (locked c) eqn:E1, (locked c') eqn:E2; try congruence; cbn [trail locked]; split; congruence.
Qed.
Lemma crel_apply c c' e : crel c c' -> apply_context c e = apply_context c' e.
Proof. intros [A _]. unfold apply_context. rewrite A. reflexivity. Qed.
Lemma crel_refl c : crel c c.
Proof. split; reflexivity. Qed.

(** * Results of a run in which nothing was sent and no recovery happened *)

(** the store is as at entry; a returned lexer has no recover state; no recovery error *)
Definition good (st : store) (r : R) : Prop :=
  match r with
  | (ROk _ lx', st') => c_rec lx' = None /\ st' = st
  | (RErr e, st') => e <> ERecover /\ st' = st
  | (_, st') => st' = st
  end.

Lemma good_on_ok st r k : good st r -> (forall v l, c_rec l = None -> good st (k v l st)) -> good st (on_ok r k).
Proof. destruct r as [[v l|e| |] st']; cbn [good on_ok]; intros H Hk; try exact H. destruct H as [Hl ->]. exact (Hk v l Hl). Qed.

Lemma good_map_val st f r : good st r -> good st (map_val f r).
Proof. destruct r as [[v l|e| |] st']; cbn [good map_val]; intros H; exact H. Qed.

Lemma good_lift {A} st (x : res A) k : (forall a, x = Ok a -> good st (k a)) -> good st (lift x st k).
Proof. destruct x as [a| |]; cbn [lift good]; intros H; [exact (H a eq_refl)|reflexivity|reflexivity]. Qed.

Lemma good_ok st v l : c_rec l = None -> good st (ROk v l, st).
Proof. intros H. split; [exact H|reflexivity]. Qed.

Lemma good_err st e : e <> ERecover -> good st (RErr e, st).
Proof. intros H. split; [exact H|reflexivity]. Qed.

Lemma good_some_of st r : good st r -> good st (some_of r).
Proof. apply good_map_val. Qed.

Lemma good_count_of st r : good st r -> good st (count_of r).
Proof. unfold count_of. apply good_map_val. Qed.

(** loops preserve [good] when their steps do *)
Lemma good_mand : forall n lo stop step vals cur st k,
  c_rec cur = None ->
  (forall l, c_rec l = None -> good st (step l st)) ->
  (forall sp, stop = Some sp -> forall l, c_rec l = None -> good st (sp l st)) ->
  (forall vs l, c_rec l = None -> good st (k vs l st)) ->
  good st (mand_loop n lo stop step vals cur st k).
Proof.
  induction n as [|n IH]; intros lo stop step vals cur st k Hc Hstep Hstop Hk; cbn [mand_loop]; [reflexivity|].
  destruct (length vals <? lo); [|exact (Hk vals cur Hc)].
  assert (Hgo : good st match step cur st with
                        | (ROk v lx', st') => mand_loop n lo stop step (vals ++ [v]) lx' st' k
                        | r => r
                        end).
  { pose proof (Hstep cur Hc) as Hs. destruct (step cur st) as [[v l|e| |] st']; cbn [good] in Hs; try exact Hs.
    destruct Hs as [Hl ->]. apply IH; assumption. }
  destruct stop as [sp|]; [|exact Hgo].
  pose proof (Hstop sp eq_refl cur Hc) as Hs. destruct (sp cur st) as [[v l|e| |] st']; cbn [good] in Hs; try exact Hs.
  - destruct Hs as [_ ->]. apply good_ok. exact Hc.
  - destruct Hs as [_ ->]. exact Hgo.
Qed.

Lemma good_opt : forall n hi stop step vals cur st,
  c_rec cur = None ->
  (forall l, c_rec l = None -> good st (step l st)) ->
  (forall sp, stop = Some sp -> forall l, c_rec l = None -> good st (sp l st)) ->
  good st (opt_loop n hi stop step vals cur st).
Proof.
  induction n as [|n IH]; intros hi stop step vals cur st Hc Hstep Hstop; cbn [opt_loop]; [reflexivity|].
  destruct (lt_opt (length vals) hi); [|apply good_ok; exact Hc].
  assert (Hgo : good st match step cur st with
                        | (ROk v lx', st') =>
                          let vals' := vals ++ [v] in
                          if ge_opt (length vals') hi then (ROk (VList vals') lx', st')
                          else opt_loop n hi stop step vals' lx' st'
                        | (RErr _, st') => (ROk (VList vals) cur, st')
                        | r => r
                        end).
  { pose proof (Hstep cur Hc) as Hs. destruct (step cur st) as [[v l|e| |] st']; cbn [good] in Hs; try exact Hs.
    - destruct Hs as [Hl ->]. cbn zeta. destruct (ge_opt _ hi); [apply good_ok; exact Hl|apply IH; assumption].
    - destruct Hs as [_ ->]. apply good_ok. exact Hc. }
  destruct stop as [sp|]; [|exact Hgo].
  pose proof (Hstop sp eq_refl cur Hc) as Hs. destruct (sp cur st) as [[v l|e| |] st']; cbn [good] in Hs; try exact Hs.
  - destruct Hs as [_ ->]. apply good_ok. exact Hc.
  - destruct Hs as [_ ->]. exact Hgo.
Qed.

Lemma hi_check_good lo hi lx st r : c_rec lx = None -> hi_check lo hi lx st = Some r -> good st r.
Proof.
  intros Hc. unfold hi_check. destruct hi as [h|]; [|discriminate].
  destruct (h <? lo); [intros H; injection H as <-; reflexivity|].
  destruct (h =? 0); [intros H; injection H as <-; apply good_ok; exact Hc|discriminate].
Qed.

Lemma good_intersperse runf n lo hi a s lx c st :
  c_rec lx = None ->
  (forall l, c_rec l = None -> good st (runf a l c st)) ->
  (forall l, c_rec l = None -> good st (runf s l c st)) ->
  good st (run_intersperse runf n lo hi a s lx c st).
Proof.
  intros Hc Ha Hs. unfold run_intersperse.
  destruct (hi_check lo hi lx st) as [r|] eqn:Eh; [exact (hi_check_good _ _ _ _ _ Hc Eh)|].
  assert (Hstep : forall l, c_rec l = None -> good st (right_of runf s a c l st)).
  { intros l Hl. unfold right_of. apply good_on_ok; [exact (Hs l Hl)|]. intros _ l' Hl'. exact (Ha l' Hl'). }
  pose proof (Ha lx Hc) as H0. destruct (runf a lx c st) as [[v l|e| |] st']; cbn [good] in H0; try exact H0.
  - destruct H0 as [Hl ->]. apply good_mand; try assumption; [discriminate|].
    intros vs l' Hl'. apply good_opt; try assumption. discriminate.
  - destruct H0 as [He ->]. destruct (lo =? 0); [apply good_ok; exact Hc|apply good_err; exact He].
Qed.

Lemma good_intersperse_until runf n lo hi sg a s lx c st :
  c_rec lx = None ->
  (forall l, c_rec l = None -> good st (runf sg l c st)) ->
  (forall l, c_rec l = None -> good st (runf a l c st)) ->
  (forall l, c_rec l = None -> good st (runf s l c st)) ->
  good st (run_intersperse_until runf n lo hi sg a s lx c st).
Proof.
  intros Hc Hg Ha Hs. unfold run_intersperse_until.
  destruct (hi_check lo hi lx st) as [r|] eqn:Eh; [exact (hi_check_good _ _ _ _ _ Hc Eh)|].
  assert (Hstep : forall l, c_rec l = None -> good st (right_of runf s a c l st)).
  { intros l Hl. unfold right_of. apply good_on_ok; [exact (Hs l Hl)|]. intros _ l' Hl'. exact (Ha l' Hl'). }
  assert (Hstop : forall sp, Some (fun l st0 => runf sg l c st0) = Some sp -> forall l, c_rec l = None -> good st (sp l st)).
  { intros sp E l Hl. injection E as <-. exact (Hg l Hl). }
  pose proof (Hg lx Hc) as Hg0. destruct (runf sg lx c st) as [[v0 l0|e0| |] st0]; cbn [good] in Hg0; try exact Hg0.
  - destruct Hg0 as [_ ->]. apply good_ok. exact Hc.
  - destruct Hg0 as [_ ->].
    pose proof (Ha lx Hc) as H0. destruct (runf a lx c st) as [[v l|e| |] st']; cbn [good] in H0; try exact H0.
    + destruct H0 as [Hl ->]. apply good_mand; try assumption.
      intros vs l' Hl'. apply good_opt; try assumption.
    + destruct H0 as [He ->]. destruct (lo =? 0); [apply good_ok; exact Hc|apply good_err; exact He].
Qed.

(** stabilize on a lexer without recover state: one attempt, no retry *)
Lemma good_stab runf n att a c lx st res : c_rec lx = None -> good st res -> good st (stab_loop runf n att a c lx res).
Proof.
  intros Hc Hr. destruct n as [|n]; cbn [stab_loop]; [destruct res as [? ?]; cbn [snd]; destruct o; cbn [good] in Hr; tauto|].
  destruct res as [[v l|e| |] st']; cbn [good] in Hr; try exact Hr.
  - destruct Hr as [_ ->]. apply good_ok. reflexivity.
  - rewrite Hc. exact Hr.
Qed.

(** * Every grammar, run without a sink on a lexer without recover state: nothing is sent, no
      recovery happens (the harness probe, which reports what send_error answers, is excluded) *)

Fixpoint noprobe (g : G) : bool :=
  match g with
  | GProbe _ => false
  | GEmpty | GOne _ | GAny _ | GAnyIndex _ | GSeq _ | GSeqCount _ | GPred _ | GEot | GUserFail => true
  | GLeft a b | GRight a b | GBoth a b | GEither a b
  | GImplies a b | GAntecedent a b | GConsequent a b | GCondImplies a _ b
  | GRepeatUntil _ _ a b | GRepeatCountUntil _ _ a b | GIntersperse _ _ a b | GIntersperseCount _ _ a b => noprobe a && noprobe b
  | GCenter a b d | GIntersperseUntil _ _ a b d | GIntersperseCountUntil _ _ a b d => noprobe a && noprobe b && noprobe d
  | GMap _ a | GDiscard a | GText a | GSpanned a | GSub a | GMaybe a | GRequireIf _ a | GCond _ a
  | GFilterWith _ a | GUnfiltered a | GRaw a | GUnrec a | GStabilize a | GCtxPush _ a | GSomeOf a | GUpTo a _
  | GRepeat _ _ a | GRepeatCount _ _ a | GIntersperseDef _ _ a _
  | GRecover _ a | GRecoverDef _ a | GRecoverDelayed _ a | GRecoverDefDelayed _ a | GRecoverWith _ _ a
  | GBracket _ a _ _ | GBracketDef _ a _ _ | GBracketIdx _ a _ _ | GBracketDefIdx _ a _ _
  | GList a _ _ | GListB _ _ a _ _ | GListDef a _ _ | GListBDef _ _ a _ _ => noprobe a
  end.

Lemma apply_trail_not_recover tr : forall e, e <> ERecover -> apply_trail tr e <> ERecover.
Proof.
  unfold apply_trail. induction tr as [|t r IH]; intros e He; cbn [fold_left]; [exact He|]. apply IH. discriminate.
Qed.

(** the bracket scan hands back lexers with the recover state of the lexer it was given *)
Lemma bracket_loop_rec : forall fuel os cs ab start lx ol stack sps o cl idx,
  (match ol with Some l => c_rec l = c_rec lx | None => True end) ->
  bracket_loop fuel os cs ab start lx ol stack sps = BM o cl idx -> c_rec o = c_rec lx /\ c_rec cl = c_rec lx.
Proof.
  induction fuel as [|f IH]; intros os cs ab start lx ol stack sps o cl idx Hol H; cbn [bracket_loop] in H; [discriminate|].
  destruct (c_peek lx) as [[[tk|] lx1]| |] eqn:Ep; try discriminate.
  2:{ destruct ol as [l|]; [destruct (pts l)|]; discriminate. }
  pose proof (c_peek_rec _ _ _ Ep) as R1.
  assert (Hcont : forall ol' stack' sps',
            (match ol' with Some l => c_rec l = c_rec lx | None => True end) ->
            match c_next lx1 with
            | Ok (_, lx2) => bracket_loop f os cs ab start lx2 ol' stack' sps'
            | Panic => BPanic | Fuel => BFuel
            end = BM o cl idx -> c_rec o = c_rec lx /\ c_rec cl = c_rec lx).
  { intros ol' stack' sps' Hol' Hc. destruct (c_next lx1) as [[o2 lx2]| |] eqn:En; try discriminate.
    pose proof (c_next_rec _ _ _ En) as R2.
    assert (R : c_rec lx2 = c_rec lx) by congruence.
    destruct (IH os cs ab start lx2 ol' stack' sps' o cl idx) as [A B]; [destruct ol' as [l|]; [congruence|exact I]|exact Hc|].
    split; congruence. }
  destruct (position (fun k => tok_eqb (tk0 k) tk) cs) as [ci|].
  - destruct stack as [|[t n] rest]; [destruct (pts lx1); discriminate|].
    destruct (negb (t =? ci)); [destruct sps; [|destruct (pts lx1)]; discriminate|].
    destruct (1 <? n); [exact (Hcont _ _ _ Hol H)|].
    destruct rest as [|p rest'].
    + destruct ol as [l|]; [|discriminate]. injection H as <- <- _. split; [exact Hol|exact R1].
    + exact (Hcont _ _ _ Hol H).
  - destruct (position (fun k => tok_eqb (tk0 k) tk) os) as [oi|].
    + destruct (pts lx1); [|discriminate].
      assert (Hol' : match (match ol with None => Some lx1 | Some _ => ol end) with Some l => c_rec l = c_rec lx | None => True end).
      { destruct ol as [l|]; [exact Hol|exact R1]. }
      destruct stack as [|[t n] rest]; [exact (Hcont _ _ _ Hol' H)|].
      destruct (negb (t =? oi)); exact (Hcont _ _ _ Hol' H).
    + destruct (in_kinds ab tk && match ol with None => true | Some _ => false end).
      * destruct (pts lx1); discriminate.
      * exact (Hcont _ _ _ Hol H).
Qed.

(** the two token-sequence leaves *)
Lemma good_seq_fix es st : forall ks acc l, c_rec l = None ->
  good st
    ((fix go (ks : list kind) (acc : list val) (l : clexer) : R :=
        match ks with
        | [] => (ROk (VList acc) l, st)
        | k :: r =>
          lift (c_next l) st (fun '(o, l') =>
          match o with
          | Some t => if tok_eqb t (tk0 k) then go r (acc ++ [VTok t]) l'
                      else (RErr (EUnexpected es (c_token_span l') (ExTok (tk0 k)) (Some t)), st)
          | None => (RErr (EUnexpected es (c_token_span l') (ExTok (tk0 k)) None), st)
          end)
        end) ks acc l).
Proof.
  induction ks as [|k r IHk]; intros acc l Rl.
  - apply good_ok. exact Rl.
  - apply good_lift. intros [o l'] E. pose proof (c_next_rec _ _ _ E) as R. rewrite Rl in R.
    destruct o as [t|]; [destruct (tok_eqb t (tk0 k)); [apply IHk; exact R|]|]; apply good_err; discriminate.
Qed.

Lemma good_seqcount_fix es st : forall ks cnt l, c_rec l = None ->
  good st
    ((fix go (ks : list kind) (cnt : nat) (l : clexer) : R :=
        match ks with
        | [] => (ROk (VNat cnt) l, st)
        | k :: r =>
          if c_at_end l then (ROk (VNat cnt) l, st)
          else
            lift (c_peek l) st (fun '(o, l') =>
            match o with
            | Some t => if tok_eqb t (tk0 k)
                        then lift (c_next l') st (fun '(_, l'') => go r (S cnt) l'')
                        else (ROk (VNat cnt) l', st)
            | None =>
              lift (only_filtered_remain l') st (fun b =>
              if b then (ROk (VNat cnt) l', st) else (RErr (EUnrecognized es), st))
            end)
        end) ks cnt l).
Proof.
  induction ks as [|k r IHk]; intros cnt l Rl.
  - apply good_ok. exact Rl.
  - destruct (c_at_end l); [apply good_ok; exact Rl|].
    apply good_lift. intros [o l'] E. pose proof (c_peek_rec _ _ _ E) as R. rewrite Rl in R.
    destruct o as [t|].
    + destruct (tok_eqb t (tk0 k)); [|apply good_ok; exact R].
      apply good_lift. intros [o2 l2] E2. pose proof (c_next_rec _ _ _ E2) as R2. rewrite R in R2. apply IHk. exact R2.
    + apply good_lift. intros b _. destruct b; [apply good_ok; exact R|apply good_err; discriminate].
Qed.

Section NoSink.
  (** the interpreter at the next lower fuel is assumed good: the induction hypothesis *)
  Variable f : nat.
  Hypothesis IH : forall g, noprobe g = true -> forall lx c st, has_sink c = false -> c_rec lx = None -> good st (run f g lx c st).

  Lemma good_list_loop : forall n hi ab dflt item probe sepp c vals lx st k,
    noprobe item = true -> noprobe probe = true -> noprobe sepp = true ->
    has_sink c = false -> c_rec lx = None ->
    (forall vs l, c_rec l = None -> good st (k vs l st)) ->
    good st (list_loop (run f) n hi ab dflt item probe sepp c vals lx st k).
  Proof using IH.
    induction n as [|n IHn]; intros hi ab dflt item probe sepp c vals lx st k Hi Hp Hs Hc Hl Hk; cbn [list_loop]; [reflexivity|].
    apply good_lift. intros [o lx0] Ep. pose proof (c_peek_rec _ _ _ Ep) as R0. rewrite Hl in R0.
    assert (Hitems : good st
      match run f item lx0 c st with
      | (ROk v lx1, st1) =>
        let vals' := vals ++ [v] in
        if ge_opt (length vals') hi then k vals' lx1 st1
        else
          lift (c_peek lx1) st1 (fun '(o2, lx2) =>
          match o2 with
          | None => k vals' lx2 st1
          | Some t2 =>
            if in_kinds ab t2 then k vals' lx2 st1
            else if c_at_end lx2 then k vals' lx2 st1
            else
              match run f sepp lx2 c st1 with
              | (ROk _ lx3, st3) =>
                lift (c_start_sublex lx3) st3 (fun lx4 =>
                list_loop (run f) n hi ab dflt item probe sepp c vals' lx4 st3 k)
              | r => r
              end
          end)
      | (RErr ERecover, st1) =>
        lift (c_advance_to (fuel_of lx0) lx0 (fun _ => false)) st1 (fun '(_, lx1) =>
        k (vals ++ [dflt]) lx1 st1)
      | r => r
      end).
    { pose proof (IH item Hi lx0 c st Hc R0) as H0.
      destruct (run f item lx0 c st) as [[v lx1|e| |] st1]; cbn [good] in H0; try exact H0.
      - destruct H0 as [R1 ->]. cbn zeta. destruct (ge_opt _ hi); [exact (Hk _ _ R1)|].
        apply good_lift. intros [o2 lx2] Ep2. pose proof (c_peek_rec _ _ _ Ep2) as R2. rewrite R1 in R2.
        destruct o2 as [t2|]; [|exact (Hk _ _ R2)].
        destruct (in_kinds ab t2); [exact (Hk _ _ R2)|]. destruct (c_at_end lx2); [exact (Hk _ _ R2)|].
        pose proof (IH sepp Hs lx2 c st Hc R2) as H3.
        destruct (run f sepp lx2 c st) as [[v3 lx3|e3| |] st3]; cbn [good] in H3; try exact H3.
        destruct H3 as [R3 ->]. apply good_lift. intros lx4 E4. pose proof (c_start_sublex_rec _ _ E4) as R4. rewrite R3 in R4.
        apply IHn; assumption.
      - destruct H0 as [He ->]. destruct e; try (split; [exact He|reflexivity]). contradiction. }
    destruct o as [t|]; [|exact (Hk _ _ R0)].
    destruct (in_kinds ab t); [|exact Hitems].
    destruct vals as [|v0 vr]; [exact (Hk _ _ R0)|].
    pose proof (IH probe Hp lx0 c st Hc R0) as H0.
    destruct (run f probe lx0 c st) as [[pv pl|pe| |] st1]; cbn [good] in H0; try exact H0.
    destruct H0 as [_ ->]. destruct pv; exact (Hk _ _ R0).
  Qed.

  Theorem good_step : forall g, noprobe g = true -> forall lx c st, has_sink c = false -> c_rec lx = None ->
    good st (run (S f) g lx c st).
  Proof using IH.
    intros g Hg lx c st Hc Hl.
    assert (Hnr : forall es ts ex fd, EUnexpected es ts ex fd <> ERecover) by (intros; discriminate).
    (* the three families that consult the sink, for an arbitrary body *)
    assert (Hrw : forall dflt r (body : clexer -> ctx -> store -> R),
              good st (body lx c st) ->
              good st match body lx c st with
                      | (RErr e, st1) =>
                        match send_error c e (log st1) with
                        | (_, Some e') => (RErr e', st1)
                        | (l, None) =>
                          match advance_to_recover (set_rec lx (Some r)) (st_log st1 l) with
                          | (Ok (true, lx'), st3) => (ROk dflt lx', st3)
                          | (Ok (false, _), st3) => (RErr ERecover, st3)
                          | (Panic, st3) => (RPanic, st3)
                          | (Fuel, st3) => (RFuel, st3)
                          end
                        end
                      | r0 => r0
                      end).
    { intros dflt r body Hb. destruct (body lx c st) as [[v l|e| |] st1]; cbn [good] in Hb |- *; try exact Hb.
      unfold send_error. rewrite Hc. exact Hb. }
    assert (Hbw : forall os a cs ab okv dfl, noprobe a = true ->
              good st
                (if (match os with [] => true | _ => false end) || (match cs with [] => true | _ => false end)
                    || negb (length os =? length cs) || negb (disjoint_kinds os cs)
                 then (RPanic, st)
                 else
                   match match_nested_brackets lx os cs ab with
                   | BPanic => (RPanic, st) | BFuel => (RFuel, st)
                   | BErr e => (RErr e, st)
                   | BM o cl idx =>
                     lift (c_next o) st (fun '(_, o1) =>
                     lift (c_start_sublex o1) st (fun inner =>
                     lift (c_next cl) st (fun '(_, cl1) =>
                     match run f a inner c st with
                     | (ROk v _, st1) => (ROk (okv v idx) cl1, st1)
                     | (RErr e, st1) =>
                       match send_error c e (log st1) with
                       | (_, Some e') => (RErr e', st1)
                       | (l, None) => (ROk (dfl idx) cl1, st_log st1 l)
                       end
                     | r => r
                     end)))
                   end)).
    { intros os a cs ab okv dfl Ha. destruct (_ || _ || _ || _); [reflexivity|].
      destruct (match_nested_brackets lx os cs ab) as [o cl idx|e| |] eqn:Em; try reflexivity.
      2:{ (* bracket errors are never the recovery error *)
          split; [|reflexivity]. unfold match_nested_brackets in Em.
          assert (Hb : forall fuel start l ol stack sps e0, bracket_loop fuel os cs ab start l ol stack sps = BErr e0 -> e0 <> ERecover).
          { induction fuel as [|fu IHf]; intros start l ol stack sps e0 Hb; cbn [bracket_loop] in Hb; [discriminate|].
            destruct (c_peek l) as [[[tk|] l1]| |]; try discriminate.
            - assert (Hcont : forall ol' stack' sps', match c_next l1 with
                               | Ok (_, l2) => bracket_loop fu os cs ab start l2 ol' stack' sps'
                               | Panic => BPanic | Fuel => BFuel end = BErr e0 -> e0 <> ERecover).
              { intros ol' stack' sps' Hx. destruct (c_next l1) as [[o2 l2]| |]; try discriminate. exact (IHf _ _ _ _ _ _ Hx). }
              destruct (position (fun k => tok_eqb (tk0 k) tk) cs) as [ci|].
              + destruct stack as [|[t n] rest]; [destruct (pts l1); [injection Hb as <-|]; discriminate|].
                destruct (negb (t =? ci)); [destruct sps; [discriminate|destruct (pts l1); [injection Hb as <-|]; discriminate]|].
                destruct (1 <? n); [exact (Hcont _ _ _ Hb)|].
                destruct rest; [destruct ol; discriminate|exact (Hcont _ _ _ Hb)].
              + destruct (position (fun k => tok_eqb (tk0 k) tk) os) as [oi|].
                * destruct (pts l1); [|discriminate]. destruct stack as [|[t n] rest]; [exact (Hcont _ _ _ Hb)|].
                  destruct (negb (t =? oi)); exact (Hcont _ _ _ Hb).
                * destruct (in_kinds ab tk && _); [destruct (pts l1); [injection Hb as <-|]; discriminate|exact (Hcont _ _ _ Hb)].
            - destruct ol as [l0|]; [destruct (pts l0); [injection Hb as <-|]; discriminate|injection Hb as <-; discriminate]. }
          exact (Hb _ _ _ _ _ _ _ Em). }
      unfold match_nested_brackets in Em. apply bracket_loop_rec in Em; [|exact I]. destruct Em as [Ro Rcl]. rewrite Hl in Ro, Rcl.
      apply good_lift. intros [x o1] E1. pose proof (c_next_rec _ _ _ E1) as R1. rewrite Ro in R1.
      apply good_lift. intros inner E2. pose proof (c_start_sublex_rec _ _ E2) as R2. rewrite R1 in R2.
      apply good_lift. intros [y cl1] E3. pose proof (c_next_rec _ _ _ E3) as R3. rewrite Rcl in R3.
      pose proof (IH a Ha inner c st Hc R2) as H0.
      destruct (run f a inner c st) as [[v l|e| |] st1]; cbn [good] in H0 |- *; try exact H0.
      - destruct H0 as [_ ->]. split; [exact R3|reflexivity].
      - unfold send_error. rewrite Hc. exact H0. }
    assert (Hlw : forall lo hi item0 dflt sep ab, noprobe item0 = true ->
              good st
                match hi with
                | Some 0 => (ROk (VList []) lx, st)
                | _ =>
                  if (match hi with Some h => h <? lo | None => false end) then (RPanic, st)
                  else
                    list_loop (run f) f hi ab dflt
                      (GStabilize (GRecoverWith dflt (list_rref sep ab) (GUpTo item0 (sep :: ab))))
                      (GStabilize (GMaybe (GUpTo item0 (sep :: ab))))
                      (GRecoverWith VUnit (list_rref sep ab) (GDiscard (GOne sep))) c [] lx st
                      (fun vals lx' st' =>
                         match (match c_rec lx with Some _ => None | None => c_rec lx' end) with
                         | Some _ => (RPanic, st')
                         | None =>
                           if length vals <? lo then
                             match send_error c (ECount (c_parse_span lx') (length vals) lo hi) (log st') with
                             | (_, Some e') => (RErr e', st')
                             | (l, None) => (ROk (VList vals) lx', st_log st' l)
                             end
                           else (ROk (VList vals) lx', st')
                         end)
                end).
    { intros lo hi item0 dflt sep ab Hi.
      assert (Hloop : good st
                (list_loop (run f) f hi ab dflt
                      (GStabilize (GRecoverWith dflt (list_rref sep ab) (GUpTo item0 (sep :: ab))))
                      (GStabilize (GMaybe (GUpTo item0 (sep :: ab))))
                      (GRecoverWith VUnit (list_rref sep ab) (GDiscard (GOne sep))) c [] lx st
                      (fun vals lx' st' =>
                         match (match c_rec lx with Some _ => None | None => c_rec lx' end) with
                         | Some _ => (RPanic, st')
                         | None =>
                           if length vals <? lo then
                             match send_error c (ECount (c_parse_span lx') (length vals) lo hi) (log st') with
                             | (_, Some e') => (RErr e', st')
                             | (l, None) => (ROk (VList vals) lx', st_log st' l)
                             end
                           else (ROk (VList vals) lx', st')
                         end))).
      { apply good_list_loop; try assumption; try reflexivity; try (cbn [noprobe]; exact Hi).
        intros vs l Rl. rewrite Hl, Rl. destruct (length vs <? lo); [|apply good_ok; exact Rl].
        unfold send_error. rewrite Hc. apply good_err. discriminate. }
      destruct hi as [[|h]|]; [apply good_ok; exact Hl| |].
      - destruct (S h <? lo); [reflexivity|exact Hloop].
      - exact Hloop. }
    destruct g; cbn [noprobe] in Hg; try discriminate Hg; cbn [run];
      repeat match goal with H : _ && _ = true |- _ => apply andb_prop in H; destruct H end.
    - (* empty *) apply good_ok. exact Hl.
    - (* one *) apply good_lift. intros [o lx'] E. pose proof (c_next_rec _ _ _ E) as R. rewrite Hl in R.
      destruct o as [t|]; [destruct (tok_eqb t (tk0 k)); [apply good_ok; exact R|]|]; apply good_err; apply Hnr.
    - (* any *) destruct ks as [|k0 ks]; [reflexivity|]. apply good_lift. intros [o lx'] E. pose proof (c_peek_rec _ _ _ E) as R. rewrite Hl in R.
      destruct o as [t|]; [|apply good_err; apply Hnr].
      destruct (position _ (k0 :: ks)); [|apply good_err; apply Hnr].
      apply good_lift. intros [o2 lx2] E2. pose proof (c_next_rec _ _ _ E2) as R2. rewrite R in R2. apply good_ok. exact R2.
    - (* any_index *) destruct ks as [|k0 ks]; [reflexivity|]. apply good_lift. intros [o lx'] E. pose proof (c_peek_rec _ _ _ E) as R. rewrite Hl in R.
      destruct o as [t|]; [|apply good_err; apply Hnr].
      destruct (position _ (k0 :: ks)); [|apply good_err; apply Hnr].
      apply good_lift. intros [o2 lx2] E2. pose proof (c_next_rec _ _ _ E2) as R2. rewrite R in R2. apply good_ok. exact R2.
    - (* seq *) apply good_seq_fix. exact Hl.
    - (* seq_count *) apply good_seqcount_fix. exact Hl.
    - (* pred *) apply good_lift. intros [o lx'] E. pose proof (c_next_rec _ _ _ E) as R. rewrite Hl in R.
      destruct o as [t|]; [destruct (peval p t); [apply good_ok; exact R|]|]; apply good_err; apply Hnr.
    - (* end_of_text *) apply good_lift. intros b _. destruct b; [apply good_ok; exact Hl|].
      apply good_lift. intros [o lx'] E. destruct o; apply good_err; [apply Hnr|discriminate].
    - (* left *) apply good_on_ok; [apply IH; assumption|]. intros v l Rl. apply good_map_val. apply IH; assumption.
    - (* right *) apply good_on_ok; [apply IH; assumption|]. intros v l Rl. apply IH; assumption.
    - (* both *) apply good_on_ok; [apply IH; assumption|]. intros v l Rl. apply good_map_val. apply IH; assumption.
    - (* center *) apply good_on_ok; [apply IH; assumption|]. intros v l Rl.
      apply good_on_ok; [apply IH; assumption|]. intros v2 l2 Rl2. apply good_map_val. apply IH; assumption.
    - (* map *) apply good_map_val. apply IH; assumption.
    - (* discard *) apply good_map_val. apply IH; assumption.
    - (* text *) apply good_lift. intros [o lx1] E. pose proof (c_peek_rec _ _ _ E) as R. rewrite Hl in R.
      apply good_on_ok; [apply IH; assumption|]. intros v l Rl. cbn zeta.
      destruct (_ && _); [apply good_ok; exact Rl|reflexivity].
    - (* spanned *) apply good_lift. intros [o lx1] E. pose proof (c_peek_rec _ _ _ E) as R. rewrite Hl in R.
      apply good_on_ok; [apply IH; assumption|]. intros v l Rl. apply good_ok. exact Rl.
    - (* sub *) apply good_lift. intros lx' E. pose proof (c_start_sublex_rec _ _ E) as R. rewrite Hl in R. apply IH; assumption.
    - (* either *) pose proof (IH g1 H lx c st Hc Hl) as H1. destruct (run f g1 lx c st) as [[v l|e| |] st1]; cbn [good] in H1; try exact H1.
      destruct H1 as [_ ->]. apply IH; assumption.
    - (* maybe *) pose proof (IH g Hg lx (ctx_unrec c) st eq_refl Hl) as H1.
      destruct (run f g lx (ctx_unrec c) st) as [[v l|e| |] st1]; cbn [good] in H1; try exact H1.
      destruct H1 as [_ ->]. apply good_ok. exact Hl.
    - (* require_if *) destruct b; [apply good_some_of; apply IH; assumption|]. apply IH; [exact Hg|exact Hc|exact Hl].
    - (* cond *) destruct b; [apply good_some_of; apply IH; assumption|apply good_ok; exact Hl].
    - (* implies *) apply good_on_ok; [apply IH; [exact H|exact Hc|exact Hl]|]. intros v l Rl.
      destruct v; try (apply good_ok; exact Rl). apply good_map_val. apply IH; assumption.
    - (* antecedent *) apply good_on_ok; [apply IH; [exact H|exact Hc|exact Hl]|]. intros v l Rl.
      destruct v; try (apply good_ok; exact Rl). apply good_map_val. apply IH; assumption.
    - (* consequent *) apply good_on_ok; [apply IH; [exact H|exact Hc|exact Hl]|]. intros v l Rl.
      destruct v; try (apply good_ok; exact Rl). apply good_map_val. apply IH; assumption.
    - (* cond_implies *) apply good_on_ok; [apply IH; [exact H|exact Hc|exact Hl]|]. intros v l Rl.
      destruct v; try (apply good_ok; exact Rl). destruct (vpeval p v); [|apply good_ok; exact Rl]. apply good_map_val. apply IH; assumption.
    - (* filter_with *) apply good_lift. intros [old lx1] E. pose proof (c_set_filter_rec _ _ _ _ E) as R. rewrite Hl in R.
      apply good_on_ok; [apply IH; assumption|]. intros v l Rl.
      apply good_lift. intros [o2 l2] E2. pose proof (c_set_filter_rec _ _ _ _ E2) as R2. rewrite Rl in R2. apply good_ok. exact R2.
    - (* unfiltered *) apply good_lift. intros [old lx1] E. pose proof (c_set_filter_rec _ _ _ _ E) as R. rewrite Hl in R.
      apply good_on_ok; [apply IH; assumption|]. intros v l Rl.
      apply good_lift. intros [o2 l2] E2. pose proof (c_set_filter_rec _ _ _ _ E2) as R2. rewrite Rl in R2. apply good_ok. exact R2.
    - (* raw *) apply IH; [exact Hg|exact Hc|exact Hl].
    - (* unrecoverable *) apply IH; [exact Hg|reflexivity|exact Hl].
    - (* recover *) apply (Hrw VNone r (fun l c' s => some_of (run f g l c' s))). apply good_some_of. apply IH; assumption.
    - (* recover_default *) apply (Hrw VDflt r (fun l c' s => run f g l c' s)). apply IH; assumption.
    - (* recover delayed *) apply (Hrw VNone r (fun l c' s => some_of (run f g l c' s))). apply good_some_of. apply IH; assumption.
    - (* recover_default delayed *) apply (Hrw VDflt r (fun l c' s => run f g l c' s)). apply IH; assumption.
    - (* stabilize *) apply good_stab; [exact Hl|]. apply IH; assumption.
    - (* repeat *) apply good_intersperse; [exact Hl| |]; intros l Rl; apply IH; try assumption; reflexivity.
    - (* repeat_count *) apply good_count_of. apply good_intersperse; [exact Hl| |]; intros l Rl; apply IH; try assumption; reflexivity.
    - (* repeat_until *) apply good_intersperse_until; [exact Hl| | |]; intros l Rl; apply IH; try assumption; reflexivity.
    - (* repeat_count_until *) apply good_count_of. apply good_intersperse_until; [exact Hl| | |]; intros l Rl; apply IH; try assumption; reflexivity.
    - (* intersperse *) apply good_intersperse; [exact Hl| |]; intros l Rl; apply IH; assumption.
    - (* intersperse_count *) apply good_count_of. apply good_intersperse; [exact Hl| |]; intros l Rl; apply IH; assumption.
    - (* intersperse_until *) apply good_intersperse_until; [exact Hl| | |]; intros l Rl; apply IH; assumption.
    - (* intersperse_count_until *) apply good_count_of. apply good_intersperse_until; [exact Hl| | |]; intros l Rl; apply IH; assumption.
    - (* intersperse_default *) apply good_intersperse; [exact Hl| |]; intros l Rl; apply IH; try assumption; reflexivity.
    - (* bracket *) apply Hbw. exact Hg.
    - apply Hbw. exact Hg.
    - apply Hbw. exact Hg.
    - apply Hbw. exact Hg.
    - (* up_to *) apply good_on_ok; [apply IH; assumption|]. intros v l Rl.
      apply good_lift. intros [o lx2] E. pose proof (c_peek_rec _ _ _ E) as R. rewrite Rl in R.
      destruct o as [t|]; [|apply good_ok; exact R]. destruct (in_kinds ab t); [apply good_ok; exact R|].
      apply good_lift. intros [b lx3] _. apply good_err. discriminate.
    - (* list *) apply (Hlw 0 None (GSomeOf g) VNone sep ab). exact Hg.
    - apply (Hlw lo hi (GSomeOf g) VNone sep ab). exact Hg.
    - apply (Hlw 0 None g VDflt sep ab). exact Hg.
    - apply (Hlw lo hi g VDflt sep ab). exact Hg.
    - (* context push *)
      assert (Hc' : has_sink (ctx_pushed c tag) = false) by (unfold ctx_pushed; destruct (locked c); exact Hc).
      pose proof (IH g Hg lx (ctx_pushed c tag) st Hc' Hl) as H1.
      destruct (run f g lx (ctx_pushed c tag) st) as [[v l|e| |] st1]; cbn [good] in H1 |- *; try exact H1.
      destruct H1 as [He ->]. split; [|reflexivity]. apply apply_trail_not_recover. exact He.
    - (* user failure *) apply good_lift. intros x _. apply good_err. discriminate.
    - (* some_of *) apply good_some_of. apply IH; assumption.
    - (* recover_with *) apply (Hrw dflt r (fun l c' s => run f g l c' s)). apply IH; assumption.
  Qed.
End NoSink.

Theorem no_sink_good : forall fuel g, noprobe g = true -> forall lx c st, has_sink c = false -> c_rec lx = None ->
  good st (run fuel g lx c st).
Proof.
  induction fuel as [|f IH]; intros g Hg lx c st Hc Hl; [reflexivity|]. apply (good_step f IH); assumption.
Qed.

(** * Grammars that never consult the sink: the result does not depend on its presence *)

Fixpoint rfree (g : G) : bool :=
  match g with
  | GEmpty | GOne _ | GAny _ | GAnyIndex _ | GSeq _ | GSeqCount _ | GPred _ | GEot | GUserFail => true
  | GLeft a b | GRight a b | GBoth a b | GEither a b
  | GImplies a b | GAntecedent a b | GConsequent a b | GCondImplies a _ b
  | GRepeatUntil _ _ a b | GRepeatCountUntil _ _ a b | GIntersperse _ _ a b | GIntersperseCount _ _ a b => rfree a && rfree b
  | GCenter a b d | GIntersperseUntil _ _ a b d | GIntersperseCountUntil _ _ a b d => rfree a && rfree b && rfree d
  | GMap _ a | GDiscard a | GText a | GSpanned a | GSub a | GMaybe a | GRequireIf _ a | GCond _ a
  | GFilterWith _ a | GUnfiltered a | GRaw a | GUnrec a | GStabilize a | GCtxPush _ a | GSomeOf a | GUpTo a _
  | GRepeat _ _ a | GRepeatCount _ _ a | GIntersperseDef _ _ a _ => rfree a
  | _ => false
  end.

Lemma rfree_noprobe g : rfree g = true -> noprobe g = true.
Proof.
  induction g; cbn [rfree noprobe]; intros H; try discriminate H; try reflexivity;
    repeat match goal with Hc : _ && _ = true |- _ => apply andb_prop in Hc; destruct Hc end;
    repeat (apply andb_true_intro; split); auto.
Qed.

Lemma on_ok_ext r r' k k' : r = r' -> (forall v l s, k v l s = k' v l s) -> on_ok r k = on_ok r' k'.
Proof. intros -> H. destruct r' as [[v l|e| |] s]; cbn [on_ok]; [apply H|reflexivity..]. Qed.

Lemma lift_ext {A} (x : res A) st k k' : (forall a, k a = k' a) -> lift x st k = lift x st k'.
Proof. intros H. destruct x; cbn [lift]; [apply H|reflexivity..]. Qed.

Definition stop_eq (s s' : option (clexer -> store -> R)) : Prop :=
  match s, s' with
  | Some sp, Some sp' => forall l st, sp l st = sp' l st
  | None, None => True
  | _, _ => False
  end.

Lemma mand_loop_ext : forall n lo stop stop' step step' vals cur st k k',
  stop_eq stop stop' -> (forall l s, step l s = step' l s) -> (forall vs l s, k vs l s = k' vs l s) ->
  mand_loop n lo stop step vals cur st k = mand_loop n lo stop' step' vals cur st k'.
Proof.
  induction n as [|n IH]; intros lo stop stop' step step' vals cur st k k' Hs Hst Hk; cbn [mand_loop]; [reflexivity|].
  destruct (length vals <? lo); [|apply Hk].
  assert (Hgo : forall s0, match step cur s0 with
                           | (ROk v lx', st') => mand_loop n lo stop step (vals ++ [v]) lx' st' k
                           | r => r end
                         = match step' cur s0 with
                           | (ROk v lx', st') => mand_loop n lo stop' step' (vals ++ [v]) lx' st' k'
                           | r => r end).
  { intros s0. rewrite Hst. destruct (step' cur s0) as [[v l|e| |] s1]; try reflexivity. apply IH; assumption. }
  destruct stop as [sp|], stop' as [sp'|]; cbn [stop_eq] in Hs; try contradiction; [|apply Hgo].
  rewrite Hs. destruct (sp' cur st) as [[v l|e| |] s1]; try reflexivity. apply Hgo.
Qed.

Lemma opt_loop_ext : forall n hi stop stop' step step' vals cur st,
  stop_eq stop stop' -> (forall l s, step l s = step' l s) ->
  opt_loop n hi stop step vals cur st = opt_loop n hi stop' step' vals cur st.
Proof.
  induction n as [|n IH]; intros hi stop stop' step step' vals cur st Hs Hst; cbn [opt_loop]; [reflexivity|].
  destruct (lt_opt (length vals) hi); [|reflexivity].
  assert (Hgo : forall s0, match step cur s0 with
                           | (ROk v lx', st') =>
                             let vals' := vals ++ [v] in
                             if ge_opt (length vals') hi then (ROk (VList vals') lx', st')
                             else opt_loop n hi stop step vals' lx' st'
                           | (RErr _, st') => (ROk (VList vals) cur, st')
                           | r => r end
                         = match step' cur s0 with
                           | (ROk v lx', st') =>
                             let vals' := vals ++ [v] in
                             if ge_opt (length vals') hi then (ROk (VList vals') lx', st')
                             else opt_loop n hi stop' step' vals' lx' st'
                           | (RErr _, st') => (ROk (VList vals) cur, st')
                           | r => r end).
  { intros s0. rewrite Hst. destruct (step' cur s0) as [[v l|e| |] s1]; try reflexivity. cbn zeta.
    destruct (ge_opt _ hi); [reflexivity|]. apply IH; assumption. }
  destruct stop as [sp|], stop' as [sp'|]; cbn [stop_eq] in Hs; try contradiction; [|apply Hgo].
  rewrite Hs. destruct (sp' cur st) as [[v l|e| |] s1]; try reflexivity. apply Hgo.
Qed.

Lemma run_intersperse_ext runf n lo hi a s lx c c' st :
  (forall l s0, runf a l c s0 = runf a l c' s0) -> (forall l s0, runf s l c s0 = runf s l c' s0) ->
  run_intersperse runf n lo hi a s lx c st = run_intersperse runf n lo hi a s lx c' st.
Proof.
  intros Ha Hs. unfold run_intersperse. destruct (hi_check lo hi lx st); [reflexivity|].
  assert (Hstep : forall l s0, right_of runf s a c l s0 = right_of runf s a c' l s0).
  { intros l s0. unfold right_of. apply on_ok_ext; [apply Hs|]. intros v l' s'. apply Ha. }
  rewrite Ha. destruct (runf a lx c' st) as [[v l|e| |] s1]; try reflexivity.
  apply mand_loop_ext; [exact I|exact Hstep|]. intros vs l' s'. apply opt_loop_ext; [exact I|exact Hstep].
Qed.

Lemma run_intersperse_until_ext runf n lo hi sg a s lx c c' st :
  (forall l s0, runf sg l c s0 = runf sg l c' s0) ->
  (forall l s0, runf a l c s0 = runf a l c' s0) -> (forall l s0, runf s l c s0 = runf s l c' s0) ->
  run_intersperse_until runf n lo hi sg a s lx c st = run_intersperse_until runf n lo hi sg a s lx c' st.
Proof.
  intros Hg Ha Hs. unfold run_intersperse_until. destruct (hi_check lo hi lx st); [reflexivity|].
  assert (Hstep : forall l s0, right_of runf s a c l s0 = right_of runf s a c' l s0).
  { intros l s0. unfold right_of. apply on_ok_ext; [apply Hs|]. intros v l' s'. apply Ha. }
  assert (Hstop : stop_eq (Some (fun l st0 => runf sg l c st0)) (Some (fun l st0 => runf sg l c' st0))) by (intros l s0; apply Hg).
  rewrite Hg. destruct (runf sg lx c' st) as [[v0 l0|e0| |] s0]; try reflexivity.
  rewrite Ha. destruct (runf a lx c' s0) as [[v l|e| |] s1]; try reflexivity.
  apply mand_loop_ext; [exact Hstop|exact Hstep|]. intros vs l' s'. apply opt_loop_ext; [exact Hstop|exact Hstep].
Qed.

Lemma stab_loop_crel runf : forall n att a c c' lx res, crel c c' ->
  stab_loop runf n att a c lx res = stab_loop runf n att a c' lx res.
Proof.
  induction n as [|n IH]; intros att a c c' lx res Hr; cbn [stab_loop]; [reflexivity|].
  destruct res as [[v l|e| |] s]; try reflexivity.
  destruct (c_rec lx); [|reflexivity].
  destruct (advance_to_recover lx s) as [[[[|] l1]| |] s1]; try reflexivity.
  destruct (_ && _); [reflexivity|]. rewrite (crel_unrec c c' Hr). apply IH. exact Hr.
Qed.

Theorem rfree_indep : forall fuel g, rfree g = true -> forall lx c c' st, crel c c' ->
  run fuel g lx c st = run fuel g lx c' st.
Proof.
  induction fuel as [|f IH]; intros g Hg lx c c' st Hr; [reflexivity|].
  destruct g; cbn [rfree] in Hg; try discriminate Hg; cbn [run]; try reflexivity;
    repeat match goal with H : _ && _ = true |- _ => apply andb_prop in H; destruct H end.
  - (* left *) apply on_ok_ext; [apply IH; assumption|]. intros v l s. f_equal. apply IH; assumption.
  - (* right *) apply on_ok_ext; [apply IH; assumption|]. intros v l s. apply IH; assumption.
  - (* both *) apply on_ok_ext; [apply IH; assumption|]. intros v l s. f_equal. apply IH; assumption.
  - (* center *) apply on_ok_ext; [apply IH; assumption|]. intros v l s.
    apply on_ok_ext; [apply IH; assumption|]. intros v2 l2 s2. f_equal. apply IH; assumption.
  - (* map *) f_equal. apply IH; assumption.
  - (* discard *) f_equal. apply IH; assumption.
  - (* text *) apply lift_ext. intros [o lx1]. apply on_ok_ext; [apply IH; assumption|reflexivity].
  - (* spanned *) apply lift_ext. intros [o lx1]. apply on_ok_ext; [apply IH; assumption|reflexivity].
  - (* sub *) apply lift_ext. intros lx1. apply IH; assumption.
  - (* either *) rewrite (IH g1 H lx c c' st Hr). destruct (run f g1 lx c' st) as [[v l|e| |] s]; try reflexivity. apply IH; assumption.
  - (* maybe *) rewrite (crel_unrec c c' Hr). reflexivity.
  - (* require_if *) destruct b; [f_equal; apply IH; assumption|]. apply IH; [exact Hg|exact Hr].
  - (* cond *) destruct b; [f_equal; apply IH; assumption|reflexivity].
  - (* implies *) apply on_ok_ext; [apply IH; [exact H|exact Hr]|]. intros v l s. destruct v; try reflexivity. f_equal. apply IH; assumption.
  - (* antecedent *) apply on_ok_ext; [apply IH; [exact H|exact Hr]|]. intros v l s. destruct v; try reflexivity. f_equal. apply IH; assumption.
  - (* consequent *) apply on_ok_ext; [apply IH; [exact H|exact Hr]|]. intros v l s. destruct v; try reflexivity. f_equal. apply IH; assumption.
  - (* cond_implies *) apply on_ok_ext; [apply IH; [exact H|exact Hr]|]. intros v l s. destruct v; try reflexivity.
    destruct (vpeval p v); [|reflexivity]. f_equal. apply IH; assumption.
  - (* filter_with *) apply lift_ext. intros [old lx1]. apply on_ok_ext; [apply IH; assumption|reflexivity].
  - (* unfiltered *) apply lift_ext. intros [old lx1]. apply on_ok_ext; [apply IH; assumption|reflexivity].
  - (* raw *) apply IH; [exact Hg|apply crel_raw; exact Hr].
  - (* unrecoverable *) rewrite (crel_unrec c c' Hr). reflexivity.
  - (* stabilize *) rewrite (IH g Hg lx c c' st Hr). apply stab_loop_crel. exact Hr.
  - (* repeat *) apply run_intersperse_ext; intros l s0; apply IH; try assumption; reflexivity.
  - f_equal. apply run_intersperse_ext; intros l s0; apply IH; try assumption; reflexivity.
  - apply run_intersperse_until_ext; intros l s0; apply IH; try assumption; reflexivity.
  - f_equal. apply run_intersperse_until_ext; intros l s0; apply IH; try assumption; reflexivity.
  - apply run_intersperse_ext; intros l s0; apply IH; assumption.
  - f_equal. apply run_intersperse_ext; intros l s0; apply IH; assumption.
  - apply run_intersperse_until_ext; intros l s0; apply IH; assumption.
  - f_equal. apply run_intersperse_until_ext; intros l s0; apply IH; assumption.
  - apply run_intersperse_ext; intros l s0; apply IH; try assumption; reflexivity.
  - (* up_to *) apply on_ok_ext; [apply IH; assumption|reflexivity].
  - (* context push *) rewrite (IH g Hg lx _ _ st (crel_pushed c c' tag Hr)).
    destruct (run f g lx (ctx_pushed c' tag) st) as [[v l|e| |] s]; try reflexivity.
    rewrite (crel_apply _ _ e (crel_pushed c c' tag Hr)). reflexivity.
  - (* some_of *) f_equal. apply IH; assumption.
Qed.

(** * Committed grammars: a sink-less success is reproduced with a sink, and nothing is sent *)

Fixpoint comm (g : G) : bool :=
  match g with
  | GProbe _ => false
  | GEmpty | GOne _ | GAny _ | GAnyIndex _ | GSeq _ | GSeqCount _ | GPred _ | GEot | GUserFail => true
  | GLeft a b | GRight a b | GBoth a b => comm a && comm b
  | GCenter a b d => comm a && comm b && comm d
  | GMap _ a | GDiscard a | GText a | GSpanned a | GSub a | GCond _ a | GFilterWith _ a | GUnfiltered a
  | GRaw a | GStabilize a | GCtxPush _ a | GSomeOf a | GUpTo a _ => comm a
  (* optional parsers run their sub-parser without a sink in both runs *)
  | GMaybe a | GUnrec a => noprobe a
  | GRequireIf b a => if b then comm a else noprobe a
  (* the left branch of an ordered choice is speculative *)
  | GEither a b => rfree a && comm b
  | GImplies a b | GAntecedent a b | GConsequent a b | GCondImplies a _ b => noprobe a && comm b
  (* repetition bodies, separators and stop parsers are speculative *)
  | GRepeat _ _ a | GRepeatCount _ _ a | GIntersperseDef _ _ a _ => rfree a
  | GRepeatUntil _ _ a b | GRepeatCountUntil _ _ a b | GIntersperse _ _ a b | GIntersperseCount _ _ a b => rfree a && rfree b
  | GIntersperseUntil _ _ a b d | GIntersperseCountUntil _ _ a b d => rfree a && rfree b && rfree d
  (* the recovering combinators themselves, their wrapped parser committed *)
  | GRecover _ a | GRecoverDef _ a | GRecoverDelayed _ a | GRecoverDefDelayed _ a | GRecoverWith _ _ a
  | GBracket _ a _ _ | GBracketDef _ a _ _ | GBracketIdx _ a _ _ | GBracketDefIdx _ a _ _
  | GList a _ _ | GListB _ _ a _ _ | GListDef a _ _ | GListBDef _ _ a _ _ => comm a
  end.

Lemma comm_noprobe g : comm g = true -> noprobe g = true.
Proof.
  induction g; cbn [comm noprobe]; intros H; try discriminate H; try reflexivity; try exact H;
    repeat match goal with Hc : _ && _ = true |- _ => apply andb_prop in Hc; destruct Hc end;
    repeat (apply andb_true_intro; split); auto using rfree_noprobe.
  destruct b; auto.
Qed.

(** [r0]: the run without a sink, [r1]: the run with one *)
Definition sim (st : store) (r0 r1 : R) : Prop :=
  match r0 with
  | (ROk v l, st') => r1 = r0 /\ c_rec l = None /\ st' = st
  | (RErr e, _) => e <> ERecover
  | _ => True
  end.

Lemma sim_good st r : good st r -> sim st r r.
Proof. destruct r as [[v l|e| |] s]; cbn [good sim]; intros H; try exact I; [destruct H; repeat split; assumption|tauto]. Qed.

Lemma sim_on_ok st r0 r1 k0 k1 : sim st r0 r1 ->
  (forall v l, c_rec l = None -> sim st (k0 v l st) (k1 v l st)) -> sim st (on_ok r0 k0) (on_ok r1 k1).
Proof.
  destruct r0 as [[v l|e| |] s]; cbn [sim on_ok]; intros H Hk; try exact H.
  destruct H as (-> & Hl & ->). cbn [on_ok]. exact (Hk v l Hl).
Qed.

Lemma sim_map_val st f r0 r1 : sim st r0 r1 -> sim st (map_val f r0) (map_val f r1).
Proof.
  destruct r0 as [[v l|e| |] s]; cbn [sim map_val]; intros H; try exact H.
  destruct H as (-> & Hl & ->). cbn [map_val]. repeat split. exact Hl.
Qed.

Lemma sim_lift {A} st (x : res A) k0 k1 : (forall a, x = Ok a -> sim st (k0 a) (k1 a)) -> sim st (lift x st k0) (lift x st k1).
Proof. destruct x as [a| |]; cbn [lift sim]; intros H; [exact (H a eq_refl)|exact I|exact I]. Qed.

Lemma sim_ok st v l : c_rec l = None -> sim st (ROk v l, st) (ROk v l, st).
Proof. intros H. repeat split. exact H. Qed.

Section Committed.
  Variable f : nat.
  Variables c0 c1 : ctx.
  Hypothesis Hrel : crel c0 c1.
  Hypothesis Hns : has_sink c0 = false.

  (** the induction hypothesis: the interpreter at the next lower fuel, for every related pair of
      contexts of which the first has no sink *)
  Hypothesis IH : forall g, comm g = true -> forall lx d0 d1 st, crel d0 d1 -> has_sink d0 = false -> c_rec lx = None ->
    sim st (run f g lx d0 st) (run f g lx d1 st).

  Lemma sim_list_loop : forall n hi ab dflt item probe sepp vals lx st k0 k1,
    comm item = true -> comm probe = true -> comm sepp = true -> c_rec lx = None ->
    (forall vs l, c_rec l = None -> sim st (k0 vs l st) (k1 vs l st)) ->
    sim st (list_loop (run f) n hi ab dflt item probe sepp c0 vals lx st k0)
           (list_loop (run f) n hi ab dflt item probe sepp c1 vals lx st k1).
  Proof using IH Hrel Hns.
    induction n as [|n IHn]; intros hi ab dflt item probe sepp vals lx st k0 k1 Hi Hp Hs Hl Hk; cbn [list_loop]; [exact I|].
    apply sim_lift. intros [o lx0] Ep. pose proof (c_peek_rec _ _ _ Ep) as R0. rewrite Hl in R0.
    assert (Hitems : sim st
      match run f item lx0 c0 st with
      | (ROk v lx1, st1) =>
        let vals' := vals ++ [v] in
        if ge_opt (length vals') hi then k0 vals' lx1 st1
        else
          lift (c_peek lx1) st1 (fun '(o2, lx2) =>
          match o2 with
          | None => k0 vals' lx2 st1
          | Some t2 =>
            if in_kinds ab t2 then k0 vals' lx2 st1
            else if c_at_end lx2 then k0 vals' lx2 st1
            else
              match run f sepp lx2 c0 st1 with
              | (ROk _ lx3, st3) =>
                lift (c_start_sublex lx3) st3 (fun lx4 =>
                list_loop (run f) n hi ab dflt item probe sepp c0 vals' lx4 st3 k0)
              | r => r
              end
          end)
      | (RErr ERecover, st1) =>
        lift (c_advance_to (fuel_of lx0) lx0 (fun _ => false)) st1 (fun '(_, lx1) =>
        k0 (vals ++ [dflt]) lx1 st1)
      | r => r
      end
      match run f item lx0 c1 st with
      | (ROk v lx1, st1) =>
        let vals' := vals ++ [v] in
        if ge_opt (length vals') hi then k1 vals' lx1 st1
        else
          lift (c_peek lx1) st1 (fun '(o2, lx2) =>
          match o2 with
          | None => k1 vals' lx2 st1
          | Some t2 =>
            if in_kinds ab t2 then k1 vals' lx2 st1
            else if c_at_end lx2 then k1 vals' lx2 st1
            else
              match run f sepp lx2 c1 st1 with
              | (ROk _ lx3, st3) =>
                lift (c_start_sublex lx3) st3 (fun lx4 =>
                list_loop (run f) n hi ab dflt item probe sepp c1 vals' lx4 st3 k1)
              | r => r
              end
          end)
      | (RErr ERecover, st1) =>
        lift (c_advance_to (fuel_of lx0) lx0 (fun _ => false)) st1 (fun '(_, lx1) =>
        k1 (vals ++ [dflt]) lx1 st1)
      | r => r
      end).
    { pose proof (IH item Hi lx0 c0 c1 st Hrel Hns R0) as H0.
      destruct (run f item lx0 c0 st) as [[v lx1|e| |] st1]; cbn [sim] in H0; try exact I.
      - destruct H0 as (-> & R1 & ->). cbn zeta. destruct (ge_opt _ hi); [exact (Hk _ _ R1)|].
        apply sim_lift. intros [o2 lx2] Ep2. pose proof (c_peek_rec _ _ _ Ep2) as R2. rewrite R1 in R2.
        destruct o2 as [t2|]; [|exact (Hk _ _ R2)].
        destruct (in_kinds ab t2); [exact (Hk _ _ R2)|]. destruct (c_at_end lx2); [exact (Hk _ _ R2)|].
        pose proof (IH sepp Hs lx2 c0 c1 st Hrel Hns R2) as H3.
        destruct (run f sepp lx2 c0 st) as [[v3 lx3|e3| |] st3]; cbn [sim] in H3; try exact I; [|exact H3].
        destruct H3 as (-> & R3 & ->). apply sim_lift. intros lx4 E4. pose proof (c_start_sublex_rec _ _ E4) as R4. rewrite R3 in R4.
        apply IHn; assumption.
      - destruct e; try exact H0. contradiction. }
    destruct o as [t|]; [|exact (Hk _ _ R0)].
    destruct (in_kinds ab t); [|exact Hitems].
    destruct vals as [|v0 vr]; [exact (Hk _ _ R0)|].
    pose proof (IH probe Hp lx0 c0 c1 st Hrel Hns R0) as H0.
    destruct (run f probe lx0 c0 st) as [[pv pl|pe| |] st1]; cbn [sim] in H0; try exact I; [|exact H0].
    destruct H0 as (-> & _ & ->). destruct pv; exact (Hk _ _ R0).
  Qed.

  Theorem sim_step : forall g, comm g = true -> forall lx st, c_rec lx = None ->
    sim st (run (S f) g lx c0 st) (run (S f) g lx c1 st).
  Proof using IH Hrel Hns.
    intros g Hg lx st Hl.
    (* grammars that never consult the sink: the two runs are the same run *)
    destruct (rfree g) eqn:Hrf.
    { rewrite <- (rfree_indep (S f) g Hrf lx c0 c1 st Hrel). apply sim_good.
      apply no_sink_good; [apply rfree_noprobe; exact Hrf|exact Hns|exact Hl]. }
    assert (Hsub : forall a lx' st', noprobe a = true -> c_rec lx' = None ->
              sim st' (run f a lx' (ctx_unrec c0) st') (run f a lx' (ctx_unrec c1) st')).
    { intros a lx' st' Ha Hl'. rewrite <- (crel_unrec c0 c1 Hrel). apply sim_good. apply no_sink_good; [exact Ha|reflexivity|exact Hl']. }
    assert (Hmaybe : forall a lx' st', noprobe a = true -> c_rec lx' = None ->
              sim st' (run f (GMaybe a) lx' c0 st') (run f (GMaybe a) lx' c1 st')).
    { intros a lx' st' Ha Hl'. destruct f as [|f']; [exact I|]. cbn [run]. rewrite <- (crel_unrec c0 c1 Hrel).
      pose proof (no_sink_good f' a Ha lx' (ctx_unrec c0) st' eq_refl Hl') as H0.
      destruct (run f' a lx' (ctx_unrec c0) st') as [[v l|e| |] s]; cbn [good] in H0; try exact I.
      - destruct H0 as [Rl ->]. apply sim_ok. exact Rl.
      - destruct H0 as [_ ->]. apply sim_ok. exact Hl'. }
    (* recover_with: a failing body makes the sink-less run fail with the body's error *)
    assert (Hrw : forall dflt r (body : clexer -> ctx -> store -> R), sim st (body lx c0 st) (body lx c1 st) ->
              sim st
                match body lx c0 st with
                | (RErr e, st1) =>
                  match send_error c0 e (log st1) with
                  | (_, Some e') => (RErr e', st1)
                  | (l, None) =>
                    match advance_to_recover (set_rec lx (Some r)) (st_log st1 l) with
                    | (Ok (true, lx'), st3) => (ROk dflt lx', st3)
                    | (Ok (false, _), st3) => (RErr ERecover, st3)
                    | (Panic, st3) => (RPanic, st3)
                    | (Fuel, st3) => (RFuel, st3)
                    end
                  end
                | r0 => r0
                end
                match body lx c1 st with
                | (RErr e, st1) =>
                  match send_error c1 e (log st1) with
                  | (_, Some e') => (RErr e', st1)
                  | (l, None) =>
                    match advance_to_recover (set_rec lx (Some r)) (st_log st1 l) with
                    | (Ok (true, lx'), st3) => (ROk dflt lx', st3)
                    | (Ok (false, _), st3) => (RErr ERecover, st3)
                    | (Panic, st3) => (RPanic, st3)
                    | (Fuel, st3) => (RFuel, st3)
                    end
                  end
                | r0 => r0
                end).
    { intros dflt r body Hb. destruct (body lx c0 st) as [[v l|e| |] s]; cbn [sim] in Hb |- *; try exact I.
      - destruct Hb as (-> & Rl & ->). repeat split. exact Rl.
      - unfold send_error. rewrite Hns. exact Hb. }
    assert (Hbw : forall os a cs ab okv dfl, comm a = true ->
              sim st
                (if (match os with [] => true | _ => false end) || (match cs with [] => true | _ => false end)
                    || negb (length os =? length cs) || negb (disjoint_kinds os cs)
                 then (RPanic, st)
                 else
                   match match_nested_brackets lx os cs ab with
                   | BPanic => (RPanic, st) | BFuel => (RFuel, st)
                   | BErr e => (RErr e, st)
                   | BM o cl idx =>
                     lift (c_next o) st (fun '(_, o1) =>
                     lift (c_start_sublex o1) st (fun inner =>
                     lift (c_next cl) st (fun '(_, cl1) =>
                     match run f a inner c0 st with
                     | (ROk v _, st1) => (ROk (okv v idx) cl1, st1)
                     | (RErr e, st1) =>
                       match send_error c0 e (log st1) with
                       | (_, Some e') => (RErr e', st1)
                       | (l, None) => (ROk (dfl idx) cl1, st_log st1 l)
                       end
                     | r => r
                     end)))
                   end)
                (if (match os with [] => true | _ => false end) || (match cs with [] => true | _ => false end)
                    || negb (length os =? length cs) || negb (disjoint_kinds os cs)
                 then (RPanic, st)
                 else
                   match match_nested_brackets lx os cs ab with
                   | BPanic => (RPanic, st) | BFuel => (RFuel, st)
                   | BErr e => (RErr e, st)
                   | BM o cl idx =>
                     lift (c_next o) st (fun '(_, o1) =>
                     lift (c_start_sublex o1) st (fun inner =>
                     lift (c_next cl) st (fun '(_, cl1) =>
                     match run f a inner c1 st with
                     | (ROk v _, st1) => (ROk (okv v idx) cl1, st1)
                     | (RErr e, st1) =>
                       match send_error c1 e (log st1) with
                       | (_, Some e') => (RErr e', st1)
                       | (l, None) => (ROk (dfl idx) cl1, st_log st1 l)
                       end
                     | r => r
                     end)))
                   end)).
    { intros os a cs ab okv dfl Ha. destruct (_ || _ || _ || _); [exact I|].
      destruct (match_nested_brackets lx os cs ab) as [o cl idx|e| |] eqn:Em; try exact I.
      2:{ (* a bracket error is the same in both runs and never the recovery error: reuse the no-sink fact *)
          pose proof (no_sink_good (S f) (GBracketDef os GEmpty cs ab) eq_refl lx c0 st Hns Hl) as Hg0.
          cbn [run] in Hg0. destruct (_ || _ || _ || _) in Hg0.
          - (* preconditions violated: not this branch; but the scan result alone decides *) 
            clear Hg0. unfold match_nested_brackets in Em. cbn [sim].
            assert (Hb : forall fuel start l ol stack sps e0, bracket_loop fuel os cs ab start l ol stack sps = BErr e0 -> e0 <> ERecover).
            { induction fuel as [|fu IHf]; intros start l ol stack sps e0 Hb; cbn [bracket_loop] in Hb; [discriminate|].
              destruct (c_peek l) as [[[tk|] l1]| |]; try discriminate.
              - assert (Hcont : forall ol' stack' sps', match c_next l1 with
                                 | Ok (_, l2) => bracket_loop fu os cs ab start l2 ol' stack' sps'
                                 | Panic => BPanic | Fuel => BFuel end = BErr e0 -> e0 <> ERecover).
                { intros ol' stack' sps' Hx. destruct (c_next l1) as [[o2 l2]| |]; try discriminate. exact (IHf _ _ _ _ _ _ Hx). }
                destruct (position (fun k => tok_eqb (tk0 k) tk) cs) as [ci|].
                + destruct stack as [|[t n] rest]; [destruct (pts l1); [injection Hb as <-|]; discriminate|].
                  destruct (negb (t =? ci)); [destruct sps; [discriminate|destruct (pts l1); [injection Hb as <-|]; discriminate]|].
                  destruct (1 <? n); [exact (Hcont _ _ _ Hb)|].
                  destruct rest; [destruct ol; discriminate|exact (Hcont _ _ _ Hb)].
                + destruct (position (fun k => tok_eqb (tk0 k) tk) os) as [oi|].
                  * destruct (pts l1); [|discriminate]. destruct stack as [|[t n] rest]; [exact (Hcont _ _ _ Hb)|].
                    destruct (negb (t =? oi)); exact (Hcont _ _ _ Hb).
                  * destruct (in_kinds ab tk && _); [destruct (pts l1); [injection Hb as <-|]; discriminate|exact (Hcont _ _ _ Hb)].
              - destruct ol as [l0|]; [destruct (pts l0); [injection Hb as <-|]; discriminate|injection Hb as <-; discriminate]. }
            exact (Hb _ _ _ _ _ _ _ Em).
          - rewrite Em in Hg0. cbn [good] in Hg0. cbn [sim]. tauto. }
      unfold match_nested_brackets in Em. apply bracket_loop_rec in Em; [|exact I]. destruct Em as [Ro Rcl]. rewrite Hl in Ro, Rcl.
      apply sim_lift. intros [x o1] E1. pose proof (c_next_rec _ _ _ E1) as R1. rewrite Ro in R1.
      apply sim_lift. intros inner E2. pose proof (c_start_sublex_rec _ _ E2) as R2. rewrite R1 in R2.
      apply sim_lift. intros [y cl1] E3. pose proof (c_next_rec _ _ _ E3) as R3. rewrite Rcl in R3.
      pose proof (IH a Ha inner c0 c1 st Hrel Hns R2) as H0.
      destruct (run f a inner c0 st) as [[v l|e| |] st1]; cbn [sim] in H0 |- *; try exact I.
      - destruct H0 as (-> & _ & ->). repeat split. exact R3.
      - unfold send_error. rewrite Hns. exact H0. }
    assert (Hlw : forall lo hi item0 dflt sep ab, comm item0 = true ->
              let k := fun (c : ctx) vals lx' st' =>
                         match (match c_rec lx with Some _ => None | None => c_rec lx' end) with
                         | Some _ => (RPanic, st')
                         | None =>
                           if length vals <? lo then
                             match send_error c (ECount (c_parse_span lx') (length vals) lo hi) (log st') with
                             | (_, Some e') => (RErr e', st')
                             | (l, None) => (ROk (VList vals) lx', st_log st' l)
                             end
                           else (ROk (VList vals) lx', st')
                         end in
              let item := GStabilize (GRecoverWith dflt (list_rref sep ab) (GUpTo item0 (sep :: ab))) in
              let probe := GStabilize (GMaybe (GUpTo item0 (sep :: ab))) in
              let sepp := GRecoverWith VUnit (list_rref sep ab) (GDiscard (GOne sep)) in
              sim st
                match hi with
                | Some 0 => (ROk (VList []) lx, st)
                | _ => if (match hi with Some h => h <? lo | None => false end) then (RPanic, st)
                       else list_loop (run f) f hi ab dflt item probe sepp c0 [] lx st (k c0)
                end
                match hi with
                | Some 0 => (ROk (VList []) lx, st)
                | _ => if (match hi with Some h => h <? lo | None => false end) then (RPanic, st)
                       else list_loop (run f) f hi ab dflt item probe sepp c1 [] lx st (k c1)
                end).
    { intros lo hi item0 dflt sep ab Hi k item probe sepp.
      assert (Hloop : sim st (list_loop (run f) f hi ab dflt item probe sepp c0 [] lx st (k c0))
                             (list_loop (run f) f hi ab dflt item probe sepp c1 [] lx st (k c1))).
      { apply sim_list_loop; try exact Hl; try (cbn [comm]; exact Hi); try reflexivity.
        - cbn [comm noprobe]. apply comm_noprobe. exact Hi.
        - intros vs l Rl. unfold k. rewrite Hl, Rl. destruct (length vs <? lo); [|apply sim_ok; exact Rl].
          unfold send_error at 1. rewrite Hns. cbn [sim]. discriminate. }
      destruct hi as [[|h]|]; [apply sim_ok; exact Hl| |].
      - destruct (S h <? lo); [exact I|exact Hloop].
      - exact Hloop. }
    destruct g; cbn [rfree] in Hrf; cbn [comm] in Hg; try discriminate Hrf; try discriminate Hg; try congruence; cbn [run];
      repeat match goal with H : _ && _ = true |- _ => apply andb_prop in H; destruct H end.
    - (* left *) apply sim_on_ok; [apply IH; assumption|]. intros v l Rl. apply sim_map_val. apply IH; assumption.
    - (* right *) apply sim_on_ok; [apply IH; assumption|]. intros v l Rl. apply IH; assumption.
    - (* both *) apply sim_on_ok; [apply IH; assumption|]. intros v l Rl. apply sim_map_val. apply IH; assumption.
    - (* center *) apply sim_on_ok; [apply IH; assumption|]. intros v l Rl.
      apply sim_on_ok; [apply IH; assumption|]. intros v2 l2 Rl2. apply sim_map_val. apply IH; assumption.
    - (* map *) apply sim_map_val. apply IH; assumption.
    - (* discard *) apply sim_map_val. apply IH; assumption.
    - (* text *) apply sim_lift. intros [o lx1] E. pose proof (c_peek_rec _ _ _ E) as R. rewrite Hl in R.
      apply sim_on_ok; [apply IH; assumption|]. intros v l Rl. cbn zeta.
      destruct (_ && _); [apply sim_ok; exact Rl|exact I].
    - (* spanned *) apply sim_lift. intros [o lx1] E. pose proof (c_peek_rec _ _ _ E) as R. rewrite Hl in R.
      apply sim_on_ok; [apply IH; assumption|]. intros v l Rl. apply sim_ok. exact Rl.
    - (* sub *) apply sim_lift. intros lx' E. pose proof (c_start_sublex_rec _ _ E) as R. rewrite Hl in R. apply IH; assumption.
    - (* either: the left branch is sink-free *)
      rewrite <- (rfree_indep f g1 H lx c0 c1 st Hrel).
      pose proof (no_sink_good f g1 (rfree_noprobe g1 H) lx c0 st Hns Hl) as H1.
      destruct (run f g1 lx c0 st) as [[v l|e| |] s]; cbn [good] in H1; try exact I.
      + destruct H1 as [Rl ->]. apply sim_ok. exact Rl.
      + destruct H1 as [_ ->]. apply IH; assumption.
    - (* maybe *) rewrite <- (crel_unrec c0 c1 Hrel).
      pose proof (no_sink_good f g Hg lx (ctx_unrec c0) st eq_refl Hl) as H0.
      destruct (run f g lx (ctx_unrec c0) st) as [[v l|e| |] s]; cbn [good] in H0; try exact I.
      + destruct H0 as [Rl ->]. apply sim_ok. exact Rl.
      + destruct H0 as [_ ->]. apply sim_ok. exact Hl.
    - (* require_if *) destruct b; [apply sim_map_val; apply IH; assumption|]. apply (Hmaybe g lx st Hg Hl).
    - (* cond *) destruct b; [apply sim_map_val; apply IH; assumption|apply sim_ok; exact Hl].
    - (* implies *) apply sim_on_ok; [apply (Hmaybe g1 lx st H Hl)|]. intros v l Rl.
      destruct v; try (apply sim_ok; exact Rl). apply sim_map_val. apply IH; assumption.
    - (* antecedent *) apply sim_on_ok; [apply (Hmaybe g1 lx st H Hl)|]. intros v l Rl.
      destruct v; try (apply sim_ok; exact Rl). apply sim_map_val. apply IH; assumption.
    - (* consequent *) apply sim_on_ok; [apply (Hmaybe g1 lx st H Hl)|]. intros v l Rl.
      destruct v; try (apply sim_ok; exact Rl). apply sim_map_val. apply IH; assumption.
    - (* cond_implies *) apply sim_on_ok; [apply (Hmaybe g1 lx st H Hl)|]. intros v l Rl.
      destruct v; try (apply sim_ok; exact Rl). destruct (vpeval p v); [|apply sim_ok; exact Rl]. apply sim_map_val. apply IH; assumption.
    - (* filter_with *) apply sim_lift. intros [old lx1] E. pose proof (c_set_filter_rec _ _ _ _ E) as R. rewrite Hl in R.
      apply sim_on_ok; [apply IH; assumption|]. intros v l Rl.
      apply sim_lift. intros [o2 l2] E2. pose proof (c_set_filter_rec _ _ _ _ E2) as R2. rewrite Rl in R2. apply sim_ok. exact R2.
    - (* unfiltered *) apply sim_lift. intros [old lx1] E. pose proof (c_set_filter_rec _ _ _ _ E) as R. rewrite Hl in R.
      apply sim_on_ok; [apply IH; assumption|]. intros v l Rl.
      apply sim_lift. intros [o2 l2] E2. pose proof (c_set_filter_rec _ _ _ _ E2) as R2. rewrite Rl in R2. apply sim_ok. exact R2.
    - (* raw *) apply IH; [exact Hg|apply crel_raw; exact Hrel|exact Hns|exact Hl].
    - (* unrecoverable *) apply (Hsub g lx st Hg Hl).
    - (* recover *) apply (Hrw VNone r (fun l c' s => some_of (run f g l c' s))). apply sim_map_val. apply IH; assumption.
    - (* recover_default *) apply (Hrw VDflt r (fun l c' s => run f g l c' s)). apply IH; assumption.
    - (* recover delayed *) apply (Hrw VNone r (fun l c' s => some_of (run f g l c' s))). apply sim_map_val. apply IH; assumption.
    - (* recover_default delayed *) apply (Hrw VDflt r (fun l c' s => run f g l c' s)). apply IH; assumption.
    - (* stabilize: on a lexer without recover state there is one attempt *)
      pose proof (IH g Hg lx c0 c1 st Hrel Hns Hl) as H0. destruct f as [|f']; [exact I|]. cbn [stab_loop].
      destruct (run (S f') g lx c0 st) as [[v l|e| |] s]; cbn [sim] in H0 |- *; try exact I.
      + destruct H0 as (-> & _ & ->). repeat split.
      + rewrite Hl. exact H0.
    - (* bracket *) apply Hbw. exact Hg.
    - apply Hbw. exact Hg.
    - apply Hbw. exact Hg.
    - apply Hbw. exact Hg.
    - (* up_to *) apply sim_on_ok; [apply IH; assumption|]. intros v l Rl.
      apply sim_lift. intros [o lx2] E. pose proof (c_peek_rec _ _ _ E) as R. rewrite Rl in R.
      destruct o as [t|]; [|apply sim_ok; exact R]. destruct (in_kinds ab t); [apply sim_ok; exact R|].
      apply sim_lift. intros [b lx3] _. cbn [sim]. discriminate.
    - (* list *) apply (Hlw 0 None (GSomeOf g) VNone sep ab). exact Hg.
    - apply (Hlw lo hi (GSomeOf g) VNone sep ab). exact Hg.
    - apply (Hlw 0 None g VDflt sep ab). exact Hg.
    - apply (Hlw lo hi g VDflt sep ab). exact Hg.
    - (* context push *)
      assert (Hns' : has_sink (ctx_pushed c0 tag) = false) by (unfold ctx_pushed; destruct (locked c0); exact Hns).
      pose proof (IH g Hg lx _ _ st (crel_pushed c0 c1 tag Hrel) Hns' Hl) as H0.
      destruct (run f g lx (ctx_pushed c0 tag) st) as [[v l|e| |] s]; cbn [sim] in H0 |- *; try exact I.
      + destruct H0 as (-> & Rl & ->). repeat split. exact Rl.
      + apply apply_trail_not_recover. exact H0.
    - (* some_of *) apply sim_map_val. apply IH; assumption.
    - (* recover_with *) apply (Hrw dflt r (fun l c' s => run f g l c' s)). apply IH; assumption.
  Qed.
End Committed.

Theorem committed_sim : forall fuel g, comm g = true -> forall lx c0 c1 st,
  crel c0 c1 -> has_sink c0 = false -> c_rec lx = None ->
  sim st (run fuel g lx c0 st) (run fuel g lx c1 st).
Proof.
  induction fuel as [|f IH]; intros g Hg lx c0 c1 st Hrel Hns Hl; [exact I|].
  apply (sim_step f c0 c1 Hrel Hns); [|exact Hg|exact Hl].
  intros g' Hg' lx' d0 d1 st' Hrel' Hns' Hl'. apply IH; assumption.
Qed.

(** the statement of C08, first half: if the parse succeeds without a sink, the parse with a sink
    returns the same value and the same lexer, and the store - the record of what the sink has
    received - is what it was *)
Theorem sinkless_success_reproduced fuel g lx c0 c1 st v lx' st' :
  comm g = true -> crel c0 c1 -> has_sink c0 = false -> c_rec lx = None ->
  run fuel g lx c0 st = (ROk v lx', st') ->
  run fuel g lx c1 st = (ROk v lx', st) /\ st' = st.
Proof.
  intros Hg Hrel Hns Hl H. pose proof (committed_sim fuel g Hg lx c0 c1 st Hrel Hns Hl) as Hs.
  rewrite H in Hs. cbn [sim] in Hs. destruct Hs as (E & _ & ->). split; [exact E|reflexivity].
Qed.
