(** Model of tephra-span/src/metrics.rs (ColumnMetrics) and of Pos (position.rs).
    Each function cites the Rust lines it transcribes. Slices, unwraps and unchecked
    subtractions are explicit [Panic]s. *)
From Tephra Require Export Text.

Inductive le_kind := LE_Lf | LE_Cr | LE_CrLf.
Record metrics := { le : le_kind; tabw : nat }.
Record pos := mkpos { byte : nat; line : nat; col : nat }.

Definition pos_zero : pos := mkpos 0 0 0.

Definition pos_eqb (a b : pos) : bool :=
  (byte a =? byte b) && (line a =? line b) && (col a =? col b).

Lemma pos_eqb_spec a b : reflect (a = b) (pos_eqb a b).
Proof.
  destruct a as [b1 l1 c1], b as [b2 l2 c2]; unfold pos_eqb; cbn.
  destruct (Nat.eqb_spec b1 b2), (Nat.eqb_spec l1 l2), (Nat.eqb_spec c1 c2); cbn;
    constructor; congruence.
Qed.

(** [LineEnding::as_str] *)
Definition lb_text (m : metrics) : text :=
  match le m with LE_Lf => [Lf] | LE_Cr => [Cr] | LE_CrLf => [Cr; Lf] end.
Definition lb_len (m : metrics) : nat :=
  match le m with LE_Lf => 1 | LE_Cr => 1 | LE_CrLf => 2 end.

(** [s.starts_with(line_break)] on a suffix *)
Definition starts_lb (m : metrics) (suf : text) : bool :=
  match le m, suf with
  | LE_Lf, Lf :: _ => true
  | LE_Cr, Cr :: _ => true
  | LE_CrLf, Cr :: Lf :: _ => true
  | _, _ => false
  end.

(** [s.ends_with(line_break)] on a reversed prefix *)
Definition ends_lb (m : metrics) (rpre : text) : bool :=
  match le m, rpre with
  | LE_Lf, Lf :: _ => true
  | LE_Cr, Cr :: _ => true
  | LE_CrLf, Lf :: Cr :: _ => true
  | _, _ => false
  end.

(** The position after a line break (metrics.rs:118-124). *)
Definition nl_pos (m : metrics) (p : pos) : pos :=
  mkpos (byte p + lb_len m) (line p + 1) 0.

(** The position after one ordinary character (metrics.rs:126-145); [col % tab] with
    [tab = 0] is a division by zero. *)
Definition step_pure (m : metrics) (p : pos) (c : chr) : pos :=
  match c with
  | Tab => mkpos (byte p + 1) (line p) (col p + (tabw m - col p mod tabw m))
  | _ => mkpos (byte p + clen c) (line p) (col p + cwidth c)
  end.

Definition step (m : metrics) (p : pos) (c : chr) : res pos :=
  match c with
  | Tab => if tabw m =? 0 then Panic else Ok (step_pure m p c)
  | _ => Ok (step_pure m p c)
  end.

(** next_position on the suffix at the base: the new position and the remaining suffix. *)
Definition next_suf (m : metrics) (suf : text) (p : pos) : res (option (pos * text)) :=
  if starts_lb m suf then Ok (Some (nl_pos m p, skipn (lb_len m) suf))
  else match suf with
       | [] => Ok None
       | c :: rest => do q <- step m p c; Ok (Some (q, rest))
       end.

(** metrics.rs:113-149 *)
Definition next_position (m : metrics) (t : text) (base : pos) : res (option pos) :=
  match split_at t (byte base) with
  | None => Panic                                   (* text[base.byte..] *)
  | Some (_, suf) => do r <- next_suf m suf base; Ok (option_map fst r)
  end.

(** metrics.rs:204-208 *)
Definition is_line_break (m : metrics) (t : text) (b : nat) : res bool :=
  match split_at t b with
  | None => Panic
  | Some (_, suf) => Ok (starts_lb m suf)
  end.

(** metrics.rs:213-225: walk forward until a line break or the end of the text. The Rust
    loop calls next_position; each iteration moves over exactly one character because the
    line-break test comes first, so the loop is structural on the suffix. *)
Fixpoint le_scan (m : metrics) (suf : text) (p : pos) : res pos :=
  match suf with
  | [] => Ok p
  | c :: rest => if starts_lb m suf then Ok p else do q <- step m p c; le_scan m rest q
  end.

Definition line_end_position (m : metrics) (t : text) (base : pos) : res pos :=
  if blen t <=? byte base then Ok base
  else match split_at t (byte base) with
       | None => Panic                              (* is_line_break slices at end.byte *)
       | Some (_, suf) => le_scan m suf base
       end.

(** metrics.rs:230-246: the byte-wise backwards scan. [rpre] is the reversed list of the
    characters that start before the byte, [suf] what follows them. Stepping back over a
    multi-byte character never finds a line break (line-break characters are one byte), so
    the scan is character-wise. Returns the start byte. With the CRLF repair the byte after
    the *whole* line break is returned. *)
Fixpoint ls_scan (m : metrics) (rpre suf : text) : nat :=
  match rpre with
  | [] => 0
  | c :: r => if starts_lb m (c :: suf) then blen r + lb_len m else ls_scan m r (c :: suf)
  end.

Definition line_start_position (m : metrics) (t : text) (base : pos) : res pos :=
  let (pre, suf) := split_before t (byte base) in
  Ok (mkpos (ls_scan m (rev pre) suf) (line base) 0).

(** [while p.byte < target { p = next_position(p).expect(..) }] *)
Fixpoint walk_to (fuel : nat) (m : metrics) (t : text) (p : pos) (target : nat) : res pos :=
  match fuel with
  | 0 => Fuel
  | S f =>
    if target <=? byte p then Ok p
    else do o <- next_position m t p;
         match o with
         | None => Panic                            (* .expect("next position is guaranteed") *)
         | Some q => walk_to f m t q target
         end
  end.

(** [position_in_line] (metrics.rs, added by the repair): the position with the given byte
    and line, its column measured forward from the start of its line. *)
Definition position_in_line (m : metrics) (t : text) (p : pos) : res pos :=
  do ls <- line_start_position m t p;
  walk_to (S (length t)) m t ls (byte p).

(** metrics.rs previous_position. The column of the position before a tab or before a line
    break is measured forward from the start of its line. *)
Definition previous_position (m : metrics) (t : text) (base : pos) : res (option pos) :=
  match split_at t (byte base) with
  | None => Panic                                   (* text[..base.byte] *)
  | Some (pre, _) =>
    let rp := rev pre in
    if ends_lb m rp then
      do l <- sub_chk (line base) 1;
      do r <- position_in_line m t (mkpos (byte base - lb_len m) l 0);
      Ok (Some r)
    else match rp with
         | [] => Ok None
         | Tab :: _ =>
           do r <- position_in_line m t (mkpos (byte base - 1) (line base) 0);
           Ok (Some r)
         | c :: _ =>
           do cl <- sub_chk (col base) (cwidth c);
           Ok (Some (mkpos (byte base - clen c) (line base) cl))
         end
  end.

(** metrics.rs:251-257, 262-268 *)
Definition previous_line_end_position (m : metrics) (t : text) (base : pos) : res (option pos) :=
  do ls <- line_start_position m t base; previous_position m t ls.
Definition next_line_start_position (m : metrics) (t : text) (base : pos) : res (option pos) :=
  do e <- line_end_position m t base; next_position m t e.

(** metrics.rs:272-282 *)
Fixpoint start_loop (fuel : nat) (m : metrics) (t : text) (p : pos) : res pos :=
  match fuel with
  | 0 => Fuel
  | S f =>
    if byte p =? 0 then Ok p
    else do o <- previous_position m t p;
         match o with None => Ok p | Some q => start_loop f m t q end
  end.
Definition start_position (m : metrics) (t : text) (e : pos) : res pos :=
  start_loop (S (length t)) m t e.

(** metrics.rs:286-296: structural on the suffix; a CRLF break consumes two characters. *)
Fixpoint end_scan (m : metrics) (suf : text) (p : pos) : res pos :=
  match suf with
  | [] => Ok p
  | c :: rest =>
    if starts_lb m suf then
      match le m, rest with
      | LE_CrLf, _ :: rest' => end_scan m rest' (nl_pos m p)
      | _, _ => end_scan m rest (nl_pos m p)
      end
    else do q <- step m p c; end_scan m rest q
  end.

Definition end_position (m : metrics) (t : text) (start : pos) : res pos :=
  if blen t <=? byte start then Ok start
  else match split_at t (byte start) with
       | None => Panic
       | Some (_, suf) => end_scan m suf start
       end.

(** One unit (a line break or one character) off the front of a suffix. *)
Definition unit_of (m : metrics) (suf : text) : text :=
  if starts_lb m suf then firstn (lb_len m) suf else firstn 1 suf.

(** metrics.rs:301-321 (as repaired: an empty pattern matches; [pattern.get(..)] instead of
    a panicking slice). [pat] is what is left of the pattern; because the matched part is
    byte-equal to the text, the pattern offsets [end-start] are exactly its consumed bytes. *)
Fixpoint pas_scan (fuel : nat) (m : metrics) (suf pat : text) (p : pos) : res (option pos) :=
  match fuel with
  | 0 => Fuel
  | S f =>
    do r <- next_suf m suf p;
    match r with
    | None => Ok None
    | Some (q, rest) =>
      let u := unit_of m suf in
      match split_at pat (blen u) with
      | None => Ok None                             (* pattern.get(..) = None: break *)
      | Some (pu, pat') =>
        if text_eqb pu u then
          (if blen pat' =? 0 then Ok (Some q) else pas_scan f m rest pat' q)
        else Ok None
      end
    end
  end.

Definition position_after_str (m : metrics) (t : text) (start : pos) (pat : text)
  : res (option pos) :=
  if blen pat =? 0 then Ok (Some start)
  else match split_at t (byte start) with
       | None => Panic
       | Some (_, suf) => pas_scan (S (length suf)) m suf pat start
       end.

(** metrics.rs:325-343 *)
Fixpoint pacm_scan (fuel : nat) (m : metrics) (suf : text) (f : chr -> bool) (p : pos) : res pos :=
  match fuel with
  | 0 => Fuel
  | S fu =>
    do r <- next_suf m suf p;
    match r with
    | None => Ok p
    | Some (q, rest) =>
      if forallb f (unit_of m suf) then pacm_scan fu m rest f q else Ok p
    end
  end.

Definition position_after_chars_matching (m : metrics) (t : text) (start : pos) (f : chr -> bool)
  : res (option pos) :=
  match split_at t (byte start) with
  | None => Panic
  | Some (_, suf) =>
    do e <- pacm_scan (S (length suf)) m suf f start;
    Ok (if pos_eqb e start then None else Some e)
  end.

(** metrics.rs:347-361 *)
Definition next_position_after_chars_matching (m : metrics) (t : text) (start : pos)
  (f : chr -> bool) : res (option pos) :=
  match split_at t (byte start) with
  | None => Panic
  | Some (_, suf) =>
    do r <- next_suf m suf start;
    match r with
    | Some (q, _) => Ok (if forallb f (unit_of m suf) then Some q else None)
    | None => Ok None
    end
  end.
