(** Where the scan ends. Every lexer derived from a lexer (by next, peek, look-ahead buffering, a
    sub-lexer) stands further along the SAME sequential scan: the entries it has ahead are a suffix
    of the entries the original had ahead, and its cursor is the end of the last entry passed. So
    the position at which the scan stops - and whether that is the end of the text ("clean") or a
    character the scanner rejects - is the same for all of them. end_of_text and seq_count depend
    on exactly this bit. *)
From Tephra Require Import MetricsSpec MetricsFacts CLexer LexerFacts.

Definition fin_of (p : pos) (ys : list entry) : pos := last (map e_end ys) p.

Fixpoint st_after (st : smode) (pre : list entry) : smode :=
  match pre with [] => st | x :: r => st_after (e_state x) r end.

Lemma last_cons {A} (a : A) l d : last (a :: l) d = last l a.
Proof. revert a d; induction l as [|b l IH]; intros a d; [reflexivity|]. change (last (a :: b :: l) d) with (last (b :: l) d). rewrite (IH b d), (IH b a). reflexivity. Qed.

Lemma fin_of_cons p x r : fin_of p (x :: r) = fin_of (e_end x) r.
Proof. unfold fin_of. cbn [map]. apply last_cons. Qed.

Lemma fin_of_app p a b : fin_of p (a ++ b) = fin_of (fin_of p a) b.
Proof. revert p; induction a as [|x a IH]; intros p; [reflexivity|]. cbn [app]. rewrite !fin_of_cons. apply IH. Qed.

Lemma st_after_app st a b : st_after st (a ++ b) = st_after (st_after st a) b.
Proof. revert st; induction a as [|x a IH]; intros st; [reflexivity|]. cbn [app st_after]. apply IH. Qed.

(** [lx'] (with [ys'] ahead) stands further along the scan of [lx] (with [ys] ahead) *)
Definition reach (lx : clexer) (ys : list entry) (lx' : clexer) (ys' : list entry) : Prop :=
  exists pre, ys = pre ++ ys' /\ c_cur lx' = fin_of (c_cur lx) pre.

Lemma reach_refl lx ys : reach lx ys lx ys.
Proof. exists []. split; reflexivity. Qed.

Lemma reach_trans a ya b yb c yc : reach a ya b yb -> reach b yb c yc -> reach a ya c yc.
Proof.
  intros (p1 & -> & E1) (p2 & -> & E2). exists (p1 ++ p2). split; [rewrite app_assoc; reflexivity|].
  rewrite E2, E1, fin_of_app. reflexivity.
Qed.

Lemma reach_fin a ya b yb : reach a ya b yb -> fin_of (c_cur b) yb = fin_of (c_cur a) ya.
Proof. intros (p & -> & E). rewrite E, fin_of_app. reflexivity. Qed.

Lemma reach_same_cur a a' ya b yb : c_cur a' = c_cur a -> reach a' ya b yb -> reach a ya b yb.
Proof. intros E (p & -> & E1). exists p. split; [reflexivity|]. rewrite E1, E. reflexivity. Qed.

Section Fin.
  Variable m : metrics.
  Hypothesis Htab : 1 <= tabw m.
  Variable t : text.
  Hypothesis Ht : wf_text t.
  Local Notation Inv := (Inv m t).
  Local Notation stream := (stream m t).

  (** the scan stops at the end of the text *)
  Definition clean (lx : clexer) (ys : list entry) : bool := blen t <=? byte (fin_of (c_cur lx) ys).

  Lemma reach_clean a ya b yb : reach a ya b yb -> clean b yb = clean a ya.
  Proof. intros H. unfold clean. rewrite (reach_fin _ _ _ _ H). reflexivity. Qed.

  Lemma at_end_clean lx : Inv lx [] -> c_at_end lx = clean lx [].
  Proof. intros [[Et _] _ _ _ _ _]. unfold c_at_end, clean, fin_of. cbn [map last]. rewrite Et. reflexivity. Qed.

  Lemma stream_app st p pre zs : stream st p (pre ++ zs) -> stream (st_after st pre) (fin_of p pre) zs.
  Proof.
    revert st p; induction pre as [|x r IH]; intros st p H; [exact H|]. cbn [app] in H.
    destruct (stream_tail m t _ _ _ _ H) as [_ Hr]. rewrite fin_of_cons. cbn [st_after]. apply IH. exact Hr.
  Qed.

  (** a lexer whose scanner state and cursor are those reached after a prefix of the entries *)
  Lemma reach_of_point lx ys lx' ys' pre zs : Inv lx ys -> Inv lx' ys' -> ys = pre ++ zs ->
    c_sc lx' = st_after (c_sc lx) pre -> c_cur lx' = fin_of (c_cur lx) pre -> reach lx ys lx' ys'.
  Proof.
    intros HI HI' E Es Ec. pose proof (inv_stream _ _ _ _ HI) as Hs. pose proof (inv_stream _ _ _ _ HI') as Hs'.
    rewrite E in Hs. apply stream_app in Hs. rewrite <- Es, <- Ec in Hs.
    pose proof (stream_det m t _ _ _ _ Hs Hs') as <-. exists pre. split; [exact E|exact Ec].
  Qed.

  Lemma fold_skip_point skf (Hk : is_skip skf) sk : forall lx,
    c_sc (fold_left skf sk lx) = st_after (c_sc lx) sk /\ c_cur (fold_left skf sk lx) = fin_of (c_cur lx) sk.
  Proof.
    induction sk as [|y r IH]; intros lx; [split; reflexivity|]. cbn [fold_left st_after]. rewrite fin_of_cons.
    destruct (IH (skf lx y)) as [A B]. rewrite A, B.
    destruct Hk as [->| ->]; cbn [skip_all skip_cur c_sc c_cur]; split; reflexivity.
  Qed.

  Lemma set_buf_opt_point l o : c_sc (set_buf_opt l o) = c_sc l /\ c_cur (set_buf_opt l o) = c_cur l.
  Proof. destruct o; split; reflexivity. Qed.

  Lemma buffer_next_reach lx ys lx' ys' : Inv lx ys -> c_buffer_next lx = Ok lx' -> Inv lx' ys' -> reach lx ys lx' ys'.
  Proof using Htab Ht.
    intros HI E HI'. pose proof HI as [Hov Hb Hs _ _ _]. unfold c_buffer_next in E. destruct (c_buf lx).
    - injection E as <-. apply (reach_of_point lx ys lx ys' [] ys HI HI' eq_refl); reflexivity.
    - rewrite (buffer_loop_spec m Htab t ys (fuel_of lx) _ lx _ _ Hs (stream_fuel m Htab t Ht lx ys Hov Hb Hs) Hov) in E.
      destruct (first_kept (c_filter lx) ys) as [sk o] eqn:EF. injection E as <-.
      destruct (first_kept_split _ _ _ _ EF) as (Eys & _ & _).
      destruct (set_buf_opt_point (if pos_eqb (c_ps lx) (c_cur lx) then fold_left skip_all sk lx else lx)
                                  (option_map (fun xr => buf_of (fst xr)) o)) as [P1 P2].
      destruct (pos_eqb (c_ps lx) (c_cur lx)).
      + destruct (fold_skip_point skip_all (or_introl eq_refl) sk lx) as [A B].
        apply (reach_of_point lx ys _ ys' sk _ HI HI' Eys); [rewrite P1; exact A|rewrite P2; exact B].
      + apply (reach_of_point lx ys _ ys' [] ys HI HI' eq_refl); [rewrite P1; reflexivity|rewrite P2; reflexivity].
  Qed.

  Lemma peek_reach lx ys o lx' ys' : Inv lx ys -> c_peek lx = Ok (o, lx') -> Inv lx' ys' -> reach lx ys lx' ys'.
  Proof using Htab Ht.
    intros HI E HI'. unfold c_peek in E. destruct (c_at_end lx).
    - injection E as _ <-. apply (reach_of_point lx ys lx ys' [] ys HI HI' eq_refl); reflexivity.
    - destruct (c_buffer_next lx) as [l| |] eqn:Eb; cbn [bind] in E; try discriminate. injection E as _ <-.
      exact (buffer_next_reach lx ys l ys' HI Eb HI').
  Qed.

  Lemma next_reach lx ys o lx' ys' : Inv lx ys -> c_next lx = Ok (o, lx') -> Inv lx' ys' -> reach lx ys lx' ys'.
  Proof using Htab Ht.
    intros HI E HI'. pose proof HI as [Hov Hb Hs Hbuf _ _]. unfold c_next in E. destruct (c_at_end lx).
    - injection E as _ <-. apply (reach_of_point lx ys lx ys' [] ys HI HI' eq_refl); reflexivity.
    - destruct (c_buf lx) as [b|] eqn:Eb.
      + destruct Hbuf as (sk & x & rest & Hfk & ->). injection E as _ <-.
        destruct (first_kept_split _ _ _ _ Hfk) as (Eys & _ & _).
        apply (reach_of_point lx ys _ ys' (sk ++ [x]) rest HI HI').
        * rewrite <- app_assoc. exact Eys.
        * cbn [c_sc buf_of pk_sc]. rewrite st_after_app. reflexivity.
        * cbn [c_cur buf_of pk_cursor]. rewrite fin_of_app, fin_of_cons. reflexivity.
      + rewrite (next_loop_spec m Htab t ys (fuel_of lx) _ lx Hs (stream_fuel m Htab t Ht lx ys Hov Hb Hs) Hov) in E.
        destruct (first_kept (c_filter lx) ys) as [sk o'] eqn:EF.
        destruct (first_kept_split _ _ _ _ EF) as (Eys & _ & _).
        set (skf := if pos_eqb (c_ps lx) (c_cur lx) then skip_all else skip_cur) in *.
        assert (Hk : is_skip skf) by (unfold skf; destruct (pos_eqb (c_ps lx) (c_cur lx)); [left|right]; reflexivity).
        destruct (fold_skip_point skf Hk sk lx) as [A B].
        destruct o' as [[x rest]|]; injection E as _ <-.
        * apply (reach_of_point lx ys _ ys' (sk ++ [x]) rest HI HI').
          -- rewrite <- app_assoc. exact Eys.
          -- cbn [deliver c_sc]. rewrite st_after_app. reflexivity.
          -- cbn [deliver c_cur]. rewrite fin_of_app, fin_of_cons. reflexivity.
        * apply (reach_of_point lx ys _ ys' sk [] HI HI' Eys); [exact A|exact B].
  Qed.

  Lemma sublex_reach lx ys lx' ys' : Inv lx ys -> c_start_sublex lx = Ok lx' -> Inv lx' ys' -> reach lx ys lx' ys'.
  Proof using Htab Ht.
    intros HI E HI'. pose proof HI as [Hov Hb Hs Hbuf Hord Hbeh]. unfold c_start_sublex in E.
    set (l := mklex (c_text lx) (c_met lx) (c_sc lx) (c_filter lx) (c_rec lx) (c_buf lx) (c_cur lx) (c_cur lx) (c_cur lx)) in *.
    assert (HIl : Inv l ys).
    { apply Build_Inv; cbn [l c_text c_met c_sc c_cur c_buf c_ps c_ts c_filter]; try assumption; [split; lia|reflexivity]. }
    apply (reach_same_cur lx l); [reflexivity|]. exact (buffer_next_reach l ys lx' ys' HIl E HI').
  Qed.

  (** when nothing more is deliverable, [next] runs to where the scan stops *)
  Lemma next_none_at_end lx ys lx' : Inv lx ys -> c_next lx = Ok (None, lx') -> Inv lx' [] ->
    c_at_end lx' = clean lx ys.
  Proof using Htab Ht.
    intros HI E HI'. rewrite (at_end_clean lx' HI'). exact (reach_clean _ _ _ _ (next_reach lx ys None lx' [] HI E HI')).
  Qed.
End Fin.
