(** Facts about the lexer model (C03 lexer part, C04, C05).
    The concrete lexer refines the sequential scan of the text: the list of entries
    (token, start, end, scanner state after) obtained by scanning from position zero. *)
From Tephra Require Import MetricsSpec MetricsFacts CLexer.

(** * The scanner on character boundaries *)

Lemma end_scan_total m : 1 <= tabw m -> forall n chars p, length chars <= n ->
  exists e, end_scan m chars p = Ok e /\ byte e = byte p + blen chars.
Proof.
  intros Htab. induction n as [|n IH]; intros chars p Hlen.
  - destruct chars; [|cbn in Hlen; lia]. exists p. split; [reflexivity|cbn; lia].
  - destruct chars as [|c rest]; [exists p; split; [reflexivity|cbn; lia]|].
    cbn [end_scan]. cbn [length] in Hlen.
    destruct (starts_lb m (c :: rest)) eqn:E.
    + unfold starts_lb in E. destruct (le m) eqn:L.
      * destruct c; try discriminate.
        destruct (IH rest (nl_pos m p) ltac:(lia)) as (e & He & Hb). exists e. split; [exact He|].
        rewrite Hb. unfold nl_pos, lb_len. rewrite L. cbn [byte blen clen]. lia.
      * destruct c; try discriminate.
        destruct (IH rest (nl_pos m p) ltac:(lia)) as (e & He & Hb). exists e. split; [exact He|].
        rewrite Hb. unfold nl_pos, lb_len. rewrite L. cbn [byte blen clen]. lia.
      * destruct c; try discriminate. destruct rest as [|c' rest']; [discriminate|]. destruct c'; try discriminate.
        cbn [length] in Hlen.
        destruct (IH rest' (nl_pos m p) ltac:(lia)) as (e & He & Hb). exists e. split; [exact He|].
        rewrite Hb. unfold nl_pos, lb_len. rewrite L. cbn [byte blen clen]. lia.
    + unfold step. destruct c.
      * destruct (Nat.eqb_spec (tabw m) 0); [lia|]. cbn [bind].
        destruct (IH rest (step_pure m p Tab) ltac:(lia)) as (e & He & Hb). exists e. split; [exact He|].
        rewrite Hb. cbn [step_pure byte blen clen]. lia.
      * cbn [bind]. destruct (IH rest (step_pure m p Cr) ltac:(lia)) as (e & He & Hb). exists e. split; [exact He|].
        rewrite Hb. cbn [step_pure byte blen clen]. lia.
      * cbn [bind]. destruct (IH rest (step_pure m p Lf) ltac:(lia)) as (e & He & Hb). exists e. split; [exact He|].
        rewrite Hb. cbn [step_pure byte blen clen]. lia.
      * cbn [bind]. destruct (IH rest (step_pure m p (Ch len w id)) ltac:(lia)) as (e & He & Hb). exists e. split; [exact He|].
        rewrite Hb. cbn [step_pure byte blen clen]. lia.
Qed.

Lemma take_ws_prefix suf : exists rest, suf = take_ws suf ++ rest.
Proof.
  induction suf as [|c r IH]; [exists []; reflexivity|]. cbn [take_ws].
  destruct (is_ws c); [|exists (c :: r); reflexivity].
  destruct IH as (rest & E). exists rest. cbn [app]. rewrite <- E. reflexivity.
Qed.

Lemma take_ws_nonempty c r : is_ws c = true -> 1 <= length (take_ws (c :: r)).
Proof. intros H. cbn [take_ws]. rewrite H. cbn. lia. Qed.

Lemma blen_ge_length l : wf_text l -> length l <= blen l.
Proof.
  induction l as [|c r IH]; intros H; [cbn; lia|]. inversion H; subst. unfold wf_chr in *. cbn [length blen].
  specialize (IH H3). lia.
Qed.

Section Scan.
  Variable m : metrics.
  Hypothesis Htab : 1 <= tabw m.
  Variable t : text.
  Hypothesis Ht : wf_text t.

  (** position [p] is at the character boundary that splits [t] into [pre ++ suf] *)
  Definition at_split (p : pos) (pre suf : text) : Prop := t = pre ++ suf /\ byte p = blen pre.

  Lemma wf_pre pre suf : t = pre ++ suf -> wf_text pre.
  Proof. intros E. rewrite E in Ht. apply wf_text_app in Ht. tauto. Qed.

  Lemma wf_suf pre suf : t = pre ++ suf -> wf_text suf.
  Proof. intros E. rewrite E in Ht. apply wf_text_app in Ht. tauto. Qed.

  (** the scanner never panics on a character boundary; a token ends on a later boundary *)
  Lemma scan_at_split st p pre suf : at_split p pre suf ->
    (scan st m t p = Ok None) \/
    (exists tk e st' chars rest, scan st m t p = Ok (Some (tk, e, st')) /\ suf = chars ++ rest
       /\ 1 <= length chars /\ at_split e (pre ++ chars) rest /\ end_scan m chars p = Ok e).
  Proof.
    intros [E Hb]. unfold scan. rewrite Hb, E, (split_at_app pre suf (wf_pre pre suf E)).
    destruct suf as [|c r]; [left; reflexivity|].
    destruct (is_ws c) eqn:W.
    - right. destruct (take_ws_prefix (c :: r)) as (rest & Er).
      destruct (end_scan_total m Htab _ (take_ws (c :: r)) p (le_n _)) as (e & He & Hbe).
      rewrite He. cbn [bind]. destruct (scan_step st KWs) as [tk st'].
      exists tk, e, st', (take_ws (c :: r)), rest. repeat split.
      + exact Er.
      + apply take_ws_nonempty, W.
      + rewrite E, <- app_assoc, <- Er. reflexivity.
      + rewrite Hbe, blen_app. lia.
      + exact He.
    - destruct (kind_of_chr c) as [k|] eqn:K; [|left; reflexivity].
      right. destruct (end_scan_total m Htab _ [c] p (le_n _)) as (e & He & Hbe).
      rewrite He. cbn [bind]. destruct (scan_step st k) as [tk st'].
      exists tk, e, st', [c], r. repeat split.
      + cbn; lia.
      + rewrite E, <- app_assoc. reflexivity.
      + rewrite Hbe, blen_app. lia.
      + exact He.
  Qed.

  (** * The sequential scan *)
  (** entries: (token, start, end, scanner state after the token) *)
  Definition entry : Type := tok * pos * pos * smode.
  Definition e_tok (x : entry) : tok := fst (fst (fst x)).
  Definition e_start (x : entry) : pos := snd (fst (fst x)).
  Definition e_end (x : entry) : pos := snd (fst x).
  Definition e_state (x : entry) : smode := snd x.

  (** [stream st p xs]: scanning from state [st] at [p] yields exactly the entries [xs],
      then stops (end of text or a character the scanner rejects) *)
  Inductive stream : smode -> pos -> list entry -> Prop :=
  | stream_nil st p : scan st m t p = Ok None -> stream st p []
  | stream_cons st p tk e st' xs :
      scan st m t p = Ok (Some (tk, e, st')) -> stream st' e xs ->
      stream st p ((tk, p, e, st') :: xs).

  Lemma stream_exists n st p pre suf : length suf <= n -> at_split p pre suf ->
    exists xs, stream st p xs /\ length xs <= length suf.
  Proof.
    revert st p pre suf; induction n as [|n IH]; intros st p pre suf Hn Hs.
    - destruct suf; [|cbn in Hn; lia].
      destruct (scan_at_split st p pre [] Hs) as [H|(tk & e & st' & chars & rest & _ & Hc & Hl & _)].
      + exists []. split; [constructor; exact H|cbn; lia].
      + destruct chars; [cbn in Hl; lia|discriminate].
    - destruct (scan_at_split st p pre suf Hs) as [H|(tk & e & st' & chars & rest & Hscan & Hc & Hl & Hs' & _)].
      + exists []. split; [constructor; exact H|cbn; lia].
      + assert (Hr : length rest <= n). { rewrite Hc, app_length in Hn. lia. }
        destruct (IH st' e (pre ++ chars) rest Hr Hs') as (xs & Hx & Hlen).
        exists ((tk, p, e, st') :: xs). split; [econstructor; eassumption|].
        cbn [length]. rewrite Hc, app_length. lia.
  Qed.

  Lemma stream_det st p xs ys : stream st p xs -> stream st p ys -> xs = ys.
  Proof.
    intros H; revert ys; induction H as [st p Hn|st p tk e st' xs Hs _ IH]; intros ys Hy.
    - inversion Hy; subst; [reflexivity|congruence].
    - inversion Hy; subst; [congruence|].
      assert (E : Some (tk, e, st') = Some (tk0, e0, st'0)) by congruence. inversion E; subst.
      f_equal. apply IH. assumption.
  Qed.
End Scan.

(** * The lexer over the sequential stream *)

Definition dropped (f : option fspec) (tk : tok) : bool :=
  match f with None => false | Some fs => negb (fkeep fs tk) end.

Lemma filtered_out_dropped lx tk : filtered_out lx tk = dropped (c_filter lx) tk.
Proof. reflexivity. Qed.

(** the entries a filter skips at the front, then the first kept entry and what follows it *)
Fixpoint first_kept (f : option fspec) (xs : list entry) : list entry * option (entry * list entry) :=
  match xs with
  | [] => ([], None)
  | x :: r =>
    if dropped f (e_tok x) then let (sk, o) := first_kept f r in (x :: sk, o)
    else ([], Some (x, r))
  end.

Definition buf_of (x : entry) : sbuf := mkbuf (e_state x) (e_start x) (e_end x) (e_tok x).

(** the lexer after eagerly skipping an entry while "behind": scanner, cursor and both starts move *)
Definition skip_all (l : clexer) (y : entry) : clexer :=
  mklex (c_text l) (c_met l) (e_state y) (c_filter l) (c_rec l) (c_buf l) (e_end y) (e_end y) (e_end y).
(** ... while not behind (inside [next]): only scanner and cursor move *)
Definition skip_cur (l : clexer) (y : entry) : clexer :=
  mklex (c_text l) (c_met l) (e_state y) (c_filter l) (c_rec l) (c_buf l) (c_ps l) (c_ts l) (e_end y).

Definition set_buf_opt (l : clexer) (o : option sbuf) : clexer :=
  match o with None => l | Some b => set_buf l (Some b) end.

Section Lexer.
  Variable m : metrics.
  Hypothesis Htab : 1 <= tabw m.
  Variable t : text.
  Hypothesis Ht : wf_text t.
  Local Notation stream := (stream m t).

  Definition over (lx : clexer) : Prop := c_text lx = t /\ c_met lx = m.

  Lemma over_skip_all l y : over l -> over (skip_all l y).
  Proof. intros [A B]. split; assumption. Qed.
  Lemma over_skip_cur l y : over l -> over (skip_cur l y).
  Proof. intros [A B]. split; assumption. Qed.

  (** lexer.rs buffer_next: the loop. In the non-behind case the lexer is untouched and only the
      look-ahead is recorded; in the behind case the lexer itself moves past the skipped entries. *)
  Lemma buffer_loop_spec ys : forall fuel behind lx psc pcur,
    stream psc pcur ys -> length ys < fuel -> over lx ->
    buffer_loop fuel behind lx psc pcur =
    Ok (let (sk, o) := first_kept (c_filter lx) ys in
        set_buf_opt (if behind then fold_left skip_all sk lx else lx)
                    (option_map (fun xr => buf_of (fst xr)) o)).
  Proof.
    induction ys as [|x r IH]; intros fuel behind lx psc pcur Hs Hf Hov.
    - destruct fuel as [|f]; [cbn in Hf; lia|]. inversion Hs as [? ? Hnone|]; subst. cbn [buffer_loop].
      destruct Hov as [Et Em]. rewrite Et, Em, Hnone. cbn [bind first_kept set_buf_opt option_map fold_left].
      destruct behind; reflexivity.
    - destruct fuel as [|f]; [cbn in Hf; lia|]. inversion Hs as [|? ? tk e st' ? Hscan Hrest]; subst. cbn [buffer_loop].
      pose proof Hov as [Et Em]. rewrite Et, Em, Hscan. cbn [bind first_kept e_tok fst].
      rewrite filtered_out_dropped. destruct (dropped (c_filter lx) tk) eqn:D.
      + destruct behind.
        * rewrite <- Et, <- Em. change (mklex (c_text lx) (c_met lx) st' (c_filter lx) (c_rec lx) (c_buf lx) e e e)
            with (skip_all lx (tk, pcur, e, st')).
          rewrite (IH f true (skip_all lx (tk, pcur, e, st')) st' e Hrest ltac:(cbn in Hf; lia) (over_skip_all _ _ Hov)).
          cbn [skip_all c_filter]. destruct (first_kept (c_filter lx) r) as [sk o]. reflexivity.
        * rewrite (IH f false lx st' e Hrest ltac:(cbn in Hf; lia) Hov).
          destruct (first_kept (c_filter lx) r) as [sk o]. reflexivity.
      + cbn [set_buf_opt option_map fst fold_left buf_of e_state e_start e_end e_tok snd]. destruct behind; reflexivity.
  Qed.

  (** lexer.rs next_nonfiltered: the scanning loop (no look-ahead buffered) *)
  Definition deliver (l : clexer) (behind : bool) (x : entry) : clexer :=
    mklex (c_text l) (c_met l) (e_state x) (c_filter l) (c_rec l) (c_buf l)
          (if behind then c_ts l else c_ps l) (c_cur l) (e_end x).

  Lemma next_loop_spec ys : forall fuel behind lx,
    stream (c_sc lx) (c_cur lx) ys -> length ys < fuel -> over lx ->
    next_loop fuel behind lx =
    Ok (let (sk, o) := first_kept (c_filter lx) ys in
        let l := fold_left (if behind then skip_all else skip_cur) sk lx in
        match o with
        | None => (None, l)
        | Some (x, _) => (Some (e_tok x), deliver l behind x)
        end).
  Proof.
    induction ys as [|x r IH]; intros fuel behind lx Hs Hf Hov.
    - destruct fuel as [|f]; [cbn in Hf; lia|]. inversion Hs as [? ? Hnone|]; subst. cbn [next_loop].
      destruct Hov as [Et Em]. rewrite Et, Em, Hnone. reflexivity.
    - destruct fuel as [|f]; [cbn in Hf; lia|]. inversion Hs as [|? ? tk e st' ? Hscan Hrest]; subst. cbn [next_loop].
      pose proof Hov as [Et Em]. rewrite Et, Em, Hscan. cbn [bind first_kept e_tok fst].
      rewrite filtered_out_dropped. destruct (dropped (c_filter lx) tk) eqn:D.
      + rewrite <- Et, <- Em. destruct behind.
        * change (mklex (c_text lx) (c_met lx) st' (c_filter lx) (c_rec lx) (c_buf lx) e e e)
            with (skip_all lx (tk, c_cur lx, e, st')).
          rewrite (IH f true (skip_all lx (tk, c_cur lx, e, st')) Hrest ltac:(cbn in Hf; lia) (over_skip_all _ _ Hov)).
          cbn [skip_all c_filter]. destruct (first_kept (c_filter lx) r) as [sk o]. reflexivity.
        * change (mklex (c_text lx) (c_met lx) st' (c_filter lx) (c_rec lx) (c_buf lx) (c_ps lx) (c_ts lx) e)
            with (skip_cur lx (tk, c_cur lx, e, st')).
          rewrite (IH f false (skip_cur lx (tk, c_cur lx, e, st')) Hrest ltac:(cbn in Hf; lia) (over_skip_cur _ _ Hov)).
          cbn [skip_cur c_filter]. destruct (first_kept (c_filter lx) r) as [sk o]. reflexivity.
      + rewrite <- Et, <- Em. cbn [fold_left deliver e_state e_end e_tok fst snd]. reflexivity.
  Qed.
End Lexer.

(** * Operations on a lexer that stands at a point of the sequential scan *)

Lemma first_kept_split f ys sk o : first_kept f ys = (sk, o) ->
  ys = sk ++ match o with Some (x, rest) => x :: rest | None => [] end
  /\ Forall (fun y => dropped f (e_tok y) = true) sk
  /\ match o with Some (x, _) => dropped f (e_tok x) = false | None => True end.
Proof.
  revert sk o; induction ys as [|y r IH]; intros sk o H; cbn [first_kept] in H.
  - inversion H; subst. repeat split. constructor.
  - destruct (dropped f (e_tok y)) eqn:D.
    + destruct (first_kept f r) as [sk' o'] eqn:E. inversion H; subst.
      destruct (IH sk' o eq_refl) as (A & B & C). repeat split.
      * cbn [app]. f_equal. exact A.
      * constructor; assumption.
      * exact C.
    + inversion H; subst. repeat split; [constructor|exact D].
Qed.

Definition kept (f : option fspec) (ys : list entry) : list entry :=
  filter (fun y => negb (dropped f (e_tok y))) ys.

Lemma kept_first f ys sk o : first_kept f ys = (sk, o) ->
  kept f ys = match o with Some (x, rest) => x :: kept f rest | None => [] end.
Proof.
  intros H. destruct (first_kept_split f ys sk o H) as (E & Hsk & Ho). rewrite E. unfold kept.
  rewrite filter_app.
  assert (G : filter (fun y => negb (dropped f (e_tok y))) sk = []).
  { clear - Hsk. induction Hsk as [|y l Hy _ IHl]; [reflexivity|]. cbn [filter]. rewrite Hy. cbn. exact IHl. }
  rewrite G. cbn [app]. destruct o as [[x rest]|]; [|reflexivity]. cbn [filter]. rewrite Ho. reflexivity.
Qed.

Section Ops.
  Variable m : metrics.
  Hypothesis Htab : 1 <= tabw m.
  Variable t : text.
  Hypothesis Ht : wf_text t.
  Local Notation stream := (stream m t).
  Local Notation over := (over m t).

  (** the cursor is on a character boundary of the text *)
  Definition on_boundary (p : pos) : Prop := exists pre suf, at_split t p pre suf.

  Lemma stream_bound st p ys pre suf : at_split t p pre suf -> stream st p ys -> length ys <= length suf.
  Proof.
    intros Hs H. destruct (stream_exists m Htab t Ht (length suf) st p pre suf (le_n _) Hs) as (xs & Hx & Hl).
    rewrite (stream_det m t st p ys xs H Hx). exact Hl.
  Qed.

  Lemma split_length pre suf : t = pre ++ suf -> length suf <= length t.
  Proof. intros E. rewrite E, app_length. lia. Qed.

  Lemma stream_fuel lx ys : over lx -> on_boundary (c_cur lx) -> stream (c_sc lx) (c_cur lx) ys ->
    length ys < fuel_of lx.
  Proof.
    intros [Et _] (pre & suf & Hs) H. pose proof (stream_bound _ _ _ _ _ Hs H).
    destruct Hs as [E _]. pose proof (split_length _ _ E). unfold fuel_of. rewrite Et. lia.
  Qed.

  (** after a delivered / skipped entry the scan continues at its end, which is a boundary *)
  Lemma stream_tail st p x r : stream st p (x :: r) ->
    e_start x = p /\ stream (e_state x) (e_end x) r.
  Proof. intros H. inversion H; subst. split; [reflexivity|assumption]. Qed.

  Lemma stream_boundary st p x r : on_boundary p -> stream st p (x :: r) -> on_boundary (e_end x).
  Proof.
    intros (pre & suf & Hs) H. inversion H as [|? ? tk e st' ? Hscan Hrest]; subst.
    destruct (scan_at_split m Htab t Ht st p pre suf Hs) as [Hn|(tk' & e' & st'' & chars & rest & Hsc & _ & _ & Hs' & _)].
    - congruence.
    - assert (E : Some (tk, e, st') = Some (tk', e', st'')) by congruence. inversion E; subst.
      exists (pre ++ chars), rest. exact Hs'.
  Qed.

  Lemma entry_progress st p x r : on_boundary p -> stream st p (x :: r) -> byte (e_start x) < byte (e_end x).
  Proof.
    intros (pre & suf & Hs) H. inversion H as [|? ? tk e st' ? Hscan Hrest]; subst.
    destruct (scan_at_split m Htab t Ht st p pre suf Hs) as [Hn|(tk' & e' & st'' & chars & rest & Hsc & _ & Hl & Hs' & _)].
    - congruence.
    - assert (E : Some (tk, e, st') = Some (tk', e', st'')) by congruence. inversion E; subst.
      cbn [e_start e_end fst snd]. destruct Hs as [_ Hb]. destruct Hs' as [Et' Hb'].
      rewrite Hb, Hb', blen_app.
      assert (length chars <= blen chars).
      { apply blen_ge_length. rewrite Et' in Ht. apply wf_text_app in Ht. destruct Ht as [W _].
        apply wf_text_app in W. tauto. }
      lia.
  Qed.

  (** what skipping a run of entries does to a lexer, for either skipping mode *)
  Definition is_skip (skf : clexer -> entry -> clexer) : Prop := skf = skip_all \/ skf = skip_cur.

  Lemma fold_skip skf (Hk : is_skip skf) sk : forall lx zs,
    over lx -> on_boundary (c_cur lx) -> stream (c_sc lx) (c_cur lx) (sk ++ zs) ->
    let l := fold_left skf sk lx in
    over l /\ on_boundary (c_cur l) /\ stream (c_sc l) (c_cur l) zs
    /\ c_filter l = c_filter lx /\ c_rec l = c_rec lx /\ c_buf l = c_buf lx
    /\ byte (c_cur lx) <= byte (c_cur l).
  Proof.
    induction sk as [|y r IH]; intros lx zs Hov Hb Hs; cbn [fold_left app] in *.
    - repeat split; try assumption; try apply Hov. lia.
    - destruct (stream_tail _ _ _ _ Hs) as [Ey Hr].
      pose proof (stream_boundary _ _ _ _ Hb Hs) as Hb'.
      pose proof (entry_progress _ _ _ _ Hb Hs) as Hp. rewrite Ey in Hp.
      assert (Hl : over (skf lx y) /\ c_sc (skf lx y) = e_state y /\ c_cur (skf lx y) = e_end y
                   /\ c_filter (skf lx y) = c_filter lx /\ c_rec (skf lx y) = c_rec lx /\ c_buf (skf lx y) = c_buf lx).
      { destruct Hk as [->| ->]; cbn; repeat split; apply Hov. }
      destruct Hl as (L1 & L2 & L3 & L4 & L5 & L6).
      destruct (IH (skf lx y) zs L1) as (I1 & I2 & I3 & I4 & I5 & I6 & I7).
      + rewrite L3. exact Hb'.
      + rewrite L2, L3. exact Hr.
      + repeat split; try assumption; try apply I1; try congruence. rewrite L3 in I7. lia.
  Qed.

  Lemma fold_skip_all_pos sk lx : sk <> [] ->
    let l := fold_left skip_all sk lx in c_ps l = c_cur l /\ c_ts l = c_cur l.
  Proof.
    revert lx; induction sk as [|y r IH]; intros lx Hne; [congruence|]. cbn [fold_left].
    destruct r as [|y' r']; [cbn; split; reflexivity|]. apply IH. discriminate.
  Qed.

  Lemma fold_skip_cur_pos sk lx :
    let l := fold_left skip_cur sk lx in c_ps l = c_ps lx /\ c_ts l = c_ts lx.
  Proof.
    revert lx; induction sk as [|y r IH]; intros lx; [split; reflexivity|]. cbn [fold_left].
    destruct (IH (skip_cur lx y)) as [A B]. cbn [skip_cur c_ps c_ts] in *. split; assumption.
  Qed.

  (** The representation invariant: the lexer stands at a point of the scan whose remaining
      entries are [ys]; a look-ahead, if buffered, is the first entry the filter keeps; the
      three positions are ordered, and "behind" (parse start = cursor) implies token start = cursor. *)
  Record Inv (lx : clexer) (ys : list entry) : Prop := {
    inv_over : over lx;
    inv_bound : on_boundary (c_cur lx);
    inv_stream : stream (c_sc lx) (c_cur lx) ys;
    inv_buf : match c_buf lx with
              | None => True
              | Some b => exists sk x rest, first_kept (c_filter lx) ys = (sk, Some (x, rest)) /\ b = buf_of x
              end;
    inv_ord : byte (c_ps lx) <= byte (c_ts lx) /\ byte (c_ts lx) <= byte (c_cur lx);
    inv_behind : c_ps lx = c_cur lx -> c_ts lx = c_cur lx }.

  Lemma at_end_stream lx ys : Inv lx ys -> c_at_end lx = true -> ys = [].
  Proof.
    intros [[Et Em] (pre & suf & [E Hb]) Hs _ _ _] He. unfold c_at_end in He. rewrite Et in He.
    apply Nat.leb_le in He. rewrite E, blen_app in He.
    assert (suf = []).
    { destruct suf as [|c r]; [reflexivity|]. pose proof (wf_suf t Ht pre (c :: r) E) as W. inversion W as [|? ? Hc Hr].
      unfold wf_chr in Hc. cbn [blen] in He. lia. }
    subst suf. inversion Hs as [|? ? tk e st' ? Hscan _ E1 E2 E3]; [reflexivity|].
    destruct (scan_at_split m Htab t Ht (c_sc lx) (c_cur lx) pre [] (conj E Hb))
      as [Hn|(tk' & e' & st'' & chars & rest & _ & Hc & Hl & _)].
    - congruence.
    - destruct chars; [cbn in Hl; lia|discriminate].
  Qed.

  (** [next]: delivers the first entry the filter keeps; the scan continues after it *)
  Theorem c_next_spec lx ys : Inv lx ys ->
    let (sk, o) := first_kept (c_filter lx) ys in
    match o with
    | Some (x, rest) =>
      exists lx', c_next lx = Ok (Some (e_tok x), lx') /\ Inv lx' rest /\ c_buf lx' = None
        /\ c_filter lx' = c_filter lx /\ c_rec lx' = c_rec lx
        /\ c_ts lx' = e_start x /\ c_cur lx' = e_end x
        /\ c_ps lx' = (if pos_eqb (c_ps lx) (c_cur lx) then e_start x else c_ps lx)
        /\ byte (e_start x) < byte (e_end x)
    | None =>
      exists lx', c_next lx = Ok (None, lx') /\ Inv lx' [] /\ c_filter lx' = c_filter lx /\ c_rec lx' = c_rec lx
    end.
  Proof.
    intros HI. destruct (first_kept (c_filter lx) ys) as [sk o] eqn:EF.
    destruct (first_kept_split _ _ _ _ EF) as (Eys & Hsk & Ho).
    pose proof HI as [Hov Hb Hs Hbuf [Ho1 Ho2] Hbeh].
    unfold c_next. destruct (c_at_end lx) eqn:Eend.
    - pose proof (at_end_stream lx ys HI Eend) as ->. cbn in EF. inversion EF; subst.
      exists lx. split; [reflexivity|split; [exact HI|split; reflexivity]].
    - set (behind := pos_eqb (c_ps lx) (c_cur lx)).
      destruct (c_buf lx) as [b|] eqn:Eb.
      + destruct Hbuf as (sk' & x & rest & Hfk & ->). rewrite EF in Hfk. injection Hfk as E1 E2. subst sk' o.
        eexists. split; [reflexivity|].
        rewrite Eys in Hs.
        destruct (fold_skip skip_cur (or_intror eq_refl) sk lx (x :: rest) Hov Hb Hs) as (F1 & F2 & F3 & _ & _ & _ & F7).
        destruct (stream_tail _ _ _ _ F3) as [Ex Hsr].
        pose proof (stream_boundary _ _ _ _ F2 F3) as Hbe.
        pose proof (entry_progress _ _ _ _ F2 F3) as Hp. rewrite Ex in Hp.
        cbn [buf_of pk_sc pk_start pk_cursor pk_tok].
        split; [|cbn [c_buf c_filter c_rec c_ts c_cur c_ps]; repeat split; try reflexivity; rewrite Ex; exact Hp].
        constructor; cbn [c_text c_met c_sc c_cur c_buf c_ps c_ts]; try assumption; try exact I.
        * rewrite Ex. fold behind. destruct behind; split; lia.
        * rewrite Ex. fold behind. intros Heq. exfalso.
          destruct behind; [rewrite Heq in Hp; lia|]. rewrite <- Heq in Hp. lia.
      + rewrite (next_loop_spec m Htab t ys (fuel_of lx) _ lx Hs (stream_fuel lx ys Hov Hb Hs) Hov), EF.
        fold behind.
        set (skf := if behind then skip_all else skip_cur).
        assert (Hk : is_skip skf) by (unfold skf; destruct behind; [left|right]; reflexivity).
        rewrite Eys in Hs.
        destruct (fold_skip skf Hk sk lx _ Hov Hb Hs) as (F1 & F2 & F3 & F4 & F5 & F6 & F7).
        set (l := fold_left skf sk lx) in *.
        destruct o as [[x rest]|].
        * eexists. split; [reflexivity|].
          destruct (stream_tail _ _ _ _ F3) as [Ex Hsr].
          pose proof (stream_boundary _ _ _ _ F2 F3) as Hbe.
          pose proof (entry_progress _ _ _ _ F2 F3) as Hp. rewrite Ex in Hp.
          (* where the two starts are after the skipping *)
          assert (Hpos : (if behind then c_ts l else c_ps l) = (if behind then e_start x else c_ps lx)
                         /\ byte (if behind then c_ts l else c_ps l) <= byte (c_cur l)).
          { unfold l, skf. destruct behind eqn:Ebh.
            - destruct sk as [|y r].
              + cbn [fold_left] in *. unfold l, skf in Ex. cbn [fold_left] in Ex.
                assert (Hpc : c_ps lx = c_cur lx).
                { unfold behind in Ebh. destruct (pos_eqb_spec (c_ps lx) (c_cur lx)); congruence. }
                rewrite (Hbeh Hpc). split; [congruence|lia].
              + destruct (fold_skip_all_pos (y :: r) lx ltac:(discriminate)) as [_ B].
                rewrite B. unfold l, skf in Ex. split; [congruence|lia].
            - destruct (fold_skip_cur_pos sk lx) as [A _]. rewrite A. split; [reflexivity|].
              unfold l, skf in F7. lia. }
          destruct Hpos as [Hps Hpb].
          split; [|cbn [deliver c_buf c_filter c_rec c_ts c_cur c_ps]; repeat split; try assumption; try congruence; try (rewrite Ex; exact Hp)].
          constructor; cbn [deliver c_text c_met c_sc c_cur c_buf c_ps c_ts]; try assumption; try apply F1.
          -- rewrite F6, Eb. exact I.
          -- split; [exact Hpb|]. rewrite Ex in *. lia.
          -- intros Heq. exfalso. rewrite Heq in Hpb. rewrite Ex in *. lia.
        * eexists. split; [reflexivity|]. split; [|split; assumption].
          constructor; try assumption.
          -- rewrite F6, Eb. exact I.
          -- unfold l, skf. destruct behind.
             ++ destruct sk as [|y r]; [cbn [fold_left]; split; assumption|].
                destruct (fold_skip_all_pos (y :: r) lx ltac:(discriminate)) as [A B]. rewrite A, B. split; lia.
             ++ destruct (fold_skip_cur_pos sk lx) as [A B]. rewrite A, B. unfold l, skf in F7. split; lia.
          -- unfold l, skf. destruct behind eqn:Ebh.
             ++ destruct sk as [|y r]; [cbn [fold_left]; exact Hbeh|].
                destruct (fold_skip_all_pos (y :: r) lx ltac:(discriminate)) as [A B]. intros _. exact B.
             ++ destruct (fold_skip_cur_pos sk lx) as [A B]. rewrite A, B. intros Heq.
                destruct sk as [|y r]; [cbn [fold_left] in *; apply Hbeh; exact Heq|].
                exfalso. unfold behind in Ebh. destruct (pos_eqb_spec (c_ps lx) (c_cur lx)) as [|Hne]; [discriminate|].
                (* the cursor moved strictly forward while the parse start stayed *)
                cbn [app] in Hs. clear - Hs Hb Heq Ho1 Ho2 Htab Ht Hov.
                assert (G : byte (c_cur lx) < byte (c_cur (fold_left skip_cur (y :: r) lx))).
                { cbn [fold_left].
                  destruct (stream_tail _ _ _ _ Hs) as [Ey Hr].
                  pose proof (entry_progress _ _ _ _ Hb Hs) as Hp. rewrite Ey in Hp.
                  pose proof (stream_boundary _ _ _ _ Hb Hs) as Hb'.
                  destruct (fold_skip skip_cur (or_intror eq_refl) r (skip_cur lx y) [] (over_skip_cur m t _ _ Hov)) as (_ & _ & _ & _ & _ & _ & G7).
                  - exact Hb'.
                  - cbn [skip_cur c_sc c_cur]. exact Hr.
                  - cbn [skip_cur c_cur] in G7. lia. }
                rewrite <- Heq in G. lia.
  Qed.

  (** [buffer_next] (hence [peek]): records the first kept entry as look-ahead; when the lexer
      is "behind" it also moves past the entries the filter drops. What remains deliverable
      under the current filter is unchanged. *)
  Theorem c_buffer_next_spec lx ys : Inv lx ys ->
    exists lx' ys', c_buffer_next lx = Ok lx' /\ Inv lx' ys'
      /\ kept (c_filter lx') ys' = kept (c_filter lx) ys
      /\ c_filter lx' = c_filter lx /\ c_rec lx' = c_rec lx
      /\ c_buf lx' = option_map (fun xr => buf_of (fst xr)) (snd (first_kept (c_filter lx) ys)).
  Proof.
    intros HI. pose proof HI as [Hov Hb Hs Hbuf [Ho1 Ho2] Hbeh].
    unfold c_buffer_next. destruct (c_buf lx) as [b|] eqn:Eb.
    - exists lx, ys. destruct Hbuf as (sk & x & rest & Hfk & ->). rewrite Hfk. cbn [snd option_map fst].
      split; [reflexivity|]. split; [exact HI|]. repeat split; try reflexivity. exact Eb.
    - rewrite (buffer_loop_spec m Htab t ys (fuel_of lx) _ lx _ _ Hs (stream_fuel lx ys Hov Hb Hs) Hov).
      destruct (first_kept (c_filter lx) ys) as [sk o] eqn:EF.
      destruct (first_kept_split _ _ _ _ EF) as (Eys & Hsk & Ho).
      set (behind := pos_eqb (c_ps lx) (c_cur lx)).
      destruct behind eqn:Ebh.
      + (* behind: the lexer moves past the dropped entries *)
        rewrite Eys in Hs.
        destruct (fold_skip skip_all (or_introl eq_refl) sk lx _ Hov Hb Hs) as (F1 & F2 & F3 & F4 & F5 & F6 & F7).
        set (l := fold_left skip_all sk lx) in *.
        assert (Hlpos : byte (c_ps l) <= byte (c_ts l) /\ byte (c_ts l) <= byte (c_cur l) /\ (c_ps l = c_cur l -> c_ts l = c_cur l)).
        { unfold l. destruct sk as [|y r]; [cbn [fold_left]; repeat split; assumption|].
          destruct (fold_skip_all_pos (y :: r) lx ltac:(discriminate)) as [A B]. rewrite A, B. repeat split; lia. }
        destruct Hlpos as (P1 & P2 & P3).
        exists (set_buf_opt l (option_map (fun xr => buf_of (fst xr)) o)),
               (match o with Some (x, rest) => x :: rest | None => [] end).
        split; [reflexivity|].
        assert (Hk : kept (c_filter lx) (match o with Some (x, rest) => x :: rest | None => [] end) = kept (c_filter lx) ys).
        { rewrite (kept_first _ _ _ _ EF). destruct o as [[x rest]|]; [|reflexivity].
          unfold kept. cbn [filter]. rewrite Ho. reflexivity. }
        destruct o as [[x rest]|]; cbn [option_map set_buf_opt fst snd].
        * split; [|split; [|split; [|split]]].
          -- apply Build_Inv; [exact F1|exact F2|exact F3| |split; assumption|exact P3].
             exists [], x, rest. split; [|reflexivity].
             change (c_filter (set_buf l (Some (buf_of x)))) with (c_filter l). rewrite F4.
             cbn [first_kept]. rewrite Ho. reflexivity.
          -- change (c_filter (set_buf l (Some (buf_of x)))) with (c_filter l). rewrite F4. exact Hk.
          -- exact F4.
          -- exact F5.
          -- reflexivity.
        * split; [|split; [|split; [|split]]].
          -- apply Build_Inv; [exact F1|exact F2|exact F3| |split; assumption|exact P3].
             rewrite F6, Eb. exact I.
          -- rewrite F4. exact Hk.
          -- exact F4.
          -- exact F5.
          -- rewrite F6. exact Eb.
      + (* not behind: only the look-ahead is recorded *)
        exists (set_buf_opt lx (option_map (fun xr => buf_of (fst xr)) o)), ys.
        split; [reflexivity|].
        destruct o as [[x rest]|]; cbn [option_map set_buf_opt fst snd].
        * split; [|split; [|split; [|split]]]; try reflexivity.
          apply Build_Inv; [exact Hov|exact Hb|exact Hs| |split; assumption|exact Hbeh].
          exists sk, x, rest. split; [exact EF|reflexivity].
        * split; [exact HI|]. split; [reflexivity|]. split; [reflexivity|]. split; [reflexivity|exact Eb].
  Qed.

  Theorem c_peek_spec lx ys : Inv lx ys ->
    exists lx' ys', c_peek lx = Ok (option_map (fun xr => e_tok (fst xr)) (snd (first_kept (c_filter lx) ys)), lx')
      /\ Inv lx' ys' /\ kept (c_filter lx') ys' = kept (c_filter lx) ys
      /\ c_filter lx' = c_filter lx /\ c_rec lx' = c_rec lx.
  Proof.
    intros HI. unfold c_peek. destruct (c_at_end lx) eqn:Eend.
    - pose proof (at_end_stream lx ys HI Eend) as ->. exists lx, []. cbn [first_kept snd option_map].
      split; [reflexivity|]. split; [exact HI|]. repeat split; reflexivity.
    - destruct (c_buffer_next_spec lx ys HI) as (lx' & ys' & E & HI' & Hk & Hf & Hr & Hbf).
      exists lx', ys'. rewrite E. cbn [bind]. rewrite Hbf.
      destruct (snd (first_kept (c_filter lx) ys)) as [[x rest]|]; cbn [option_map fst buf_of pk_tok];
        (split; [reflexivity|]; split; [exact HI'|]; split; [exact Hk|]; split; [exact Hf|exact Hr]).
  Qed.

  (** draining: exactly the entries the filter keeps, in order, with the spans the scanner matched *)
  Definition out_of (x : entry) : tok * span := (e_tok x, enclosing (e_start x) (e_end x)).

  Theorem c_drain_spec : forall n lx ys fuel, length ys <= n -> Inv lx ys -> length ys < fuel ->
    exists lx', c_drain fuel lx = Ok (map out_of (kept (c_filter lx) ys), lx').
  Proof.
    induction n as [|n IH]; intros lx ys fuel Hn HI Hf.
    - destruct ys; [|cbn in Hn; lia]. destruct fuel as [|f]; [cbn in Hf; lia|].
      pose proof (c_next_spec lx [] HI) as H. cbn [first_kept] in H. destruct H as (lx' & E & _).
      exists lx'. cbn [c_drain]. rewrite E. reflexivity.
    - destruct fuel as [|f]; [lia|]. pose proof (c_next_spec lx ys HI) as H.
      destruct (first_kept (c_filter lx) ys) as [sk o] eqn:EF.
      destruct (first_kept_split _ _ _ _ EF) as (Eys & _ & _).
      rewrite (kept_first _ _ _ _ EF).
      destruct o as [[x rest]|].
      + destruct H as (lx1 & E & HI1 & _ & Hf1 & _ & Hts & Hcur & _).
        assert (Hlr : length rest <= n). { rewrite Eys, app_length in Hn. cbn [length] in Hn. lia. }
        destruct (IH lx1 rest f Hlr HI1) as (lx2 & E2).
        { rewrite Eys, app_length in Hf. cbn [length] in Hf. lia. }
        exists lx2. cbn [c_drain]. rewrite E. cbn [bind]. rewrite E2. cbn [bind fst snd map].
        unfold c_token_span. rewrite Hts, Hcur, Hf1. reflexivity.
      + destruct H as (lx1 & E & _). exists lx1. cbn [c_drain]. rewrite E. reflexivity.
  Qed.

  (** * A freshly built lexer *)
  Lemma Inv_new sc : c_met (c_new sc t) = m -> exists ys, Inv (c_new sc t) ys.
  Proof.
    intros Em.
    destruct (stream_exists m Htab t Ht (length t) sc pos_zero [] t (le_n _) (conj eq_refl eq_refl)) as (ys & Hs & _).
    exists ys. constructor; cbn; try (split; lia); try exact I; try reflexivity.
    - split; [reflexivity|exact Em].
    - exists [], t. split; reflexivity.
    - exact Hs.
  Qed.

  (** [set_filter]: the new filter applies to everything from the cursor on *)
  Theorem c_set_filter_spec lx ys f : Inv lx ys ->
    exists lx' ys', c_set_filter lx f = Ok (c_filter lx, lx') /\ Inv lx' ys'
      /\ c_filter lx' = f /\ kept f ys' = kept f ys /\ c_rec lx' = c_rec lx.
  Proof.
    intros [Hov Hb Hs _ Hord Hbeh]. unfold c_set_filter.
    assert (HI : Inv (set_buf (set_flt lx f) None) ys) by (apply Build_Inv; try assumption; exact I).
    destruct (c_buffer_next_spec _ ys HI) as (lx' & ys' & E & HI' & Hk & Hf & Hr & _).
    exists lx', ys'. rewrite E. cbn [bind].
    split; [reflexivity|]. split; [exact HI'|]. split; [exact Hf|]. split; [|exact Hr].
    rewrite Hf in Hk. exact Hk.
  Qed.

  Theorem c_with_filter_spec lx ys f : Inv lx ys ->
    exists lx' ys', c_with_filter lx f = Ok lx' /\ Inv lx' ys' /\ c_filter lx' = f /\ kept f ys' = kept f ys.
  Proof.
    intros HI. unfold c_with_filter.
    destruct (c_set_filter_spec lx ys f HI) as (l1 & y1 & E1 & HI1 & Hf1 & Hk1 & _).
    rewrite E1. cbn [bind snd].
    destruct (c_buffer_next_spec l1 y1 HI1) as (l2 & y2 & E2 & HI2 & Hk2 & Hf2 & _).
    exists l2, y2. rewrite E2.
    split; [reflexivity|]. split; [exact HI2|]. split; [congruence|].
    rewrite Hf2, Hf1 in Hk2. congruence.
  Qed.

  (** deliveries together with the token span and the parse span after each *)
  Fixpoint c_drain3 (fuel : nat) (lx : clexer) : res (list (tok * span * span)) :=
    match fuel with
    | 0 => Fuel
    | S f =>
      do r <- c_next lx;
      match r with
      | (None, _) => Ok []
      | (Some tk, lx') => do rest <- c_drain3 f lx'; Ok ((tk, c_token_span lx', c_parse_span lx') :: rest)
      end
    end.

  Lemma c_drain3_not_behind : forall n lx ys fuel, length ys <= n -> Inv lx ys -> length ys < fuel ->
    byte (c_ps lx) < byte (c_cur lx) ->
    c_drain3 fuel lx =
    Ok (map (fun x => (e_tok x, enclosing (e_start x) (e_end x), enclosing (c_ps lx) (e_end x))) (kept (c_filter lx) ys)).
  Proof.
    induction n as [|n IH]; intros lx ys fuel Hn HI Hf Hnb.
    - destruct ys; [|cbn in Hn; lia]. destruct fuel as [|f]; [cbn in Hf; lia|].
      pose proof (c_next_spec lx [] HI) as H. cbn [first_kept] in H. destruct H as (lx' & E & _).
      cbn [c_drain3]. rewrite E. reflexivity.
    - destruct fuel as [|f]; [lia|]. pose proof (c_next_spec lx ys HI) as H.
      destruct (first_kept (c_filter lx) ys) as [sk o] eqn:EF.
      destruct (first_kept_split _ _ _ _ EF) as (Eys & _ & _).
      rewrite (kept_first _ _ _ _ EF).
      destruct o as [[x rest]|].
      + destruct H as (lx1 & E & HI1 & _ & Hf1 & _ & Hts & Hcur & Hps & Hprog).
        assert (Hnb' : pos_eqb (c_ps lx) (c_cur lx) = false).
        { destruct (pos_eqb_spec (c_ps lx) (c_cur lx)) as [Heq|]; [rewrite Heq in Hnb; lia|reflexivity]. }
        rewrite Hnb' in Hps.
        assert (Hlr : length rest <= n). { rewrite Eys, app_length in Hn. cbn [length] in Hn. lia. }
        pose proof HI1 as [_ _ _ _ [O1 O2] _].
        cbn [c_drain3]. rewrite E. cbn [bind].
        rewrite (IH lx1 rest f Hlr HI1).
        * cbn [bind map].
          unfold c_token_span, c_parse_span. rewrite Hts, Hcur, Hf1, Hps. reflexivity.
        * rewrite Eys, app_length in Hf. cbn [length] in Hf. lia.
        * rewrite Hts, Hcur in *. lia.
      + destruct H as (lx1 & E & _). cbn [c_drain3]. rewrite E. reflexivity.
  Qed.

  (** from a lexer whose parse has not started (parse start = cursor): the parse span after each
      delivery runs from the start of the first delivered token to the end of the last one *)
  Theorem c_drain3_fresh lx ys fuel : Inv lx ys -> S (length ys) < fuel -> c_ps lx = c_cur lx ->
    c_drain3 fuel lx =
    Ok (match kept (c_filter lx) ys with
        | [] => []
        | x1 :: _ => map (fun x => (e_tok x, enclosing (e_start x) (e_end x), enclosing (e_start x1) (e_end x)))
                         (kept (c_filter lx) ys)
        end).
  Proof.
    intros HI Hf Hfresh. destruct fuel as [|f]; [lia|]. pose proof (c_next_spec lx ys HI) as H.
    destruct (first_kept (c_filter lx) ys) as [sk o] eqn:EF.
    destruct (first_kept_split _ _ _ _ EF) as (Eys & _ & _).
    rewrite (kept_first _ _ _ _ EF).
    destruct o as [[x rest]|].
    - destruct H as (lx1 & E & HI1 & _ & Hf1 & _ & Hts & Hcur & Hps & Hprog).
      assert (Hb : pos_eqb (c_ps lx) (c_cur lx) = true).
      { destruct (pos_eqb_spec (c_ps lx) (c_cur lx)); congruence. }
      rewrite Hb in Hps.
      cbn [c_drain3]. rewrite E. cbn [bind].
      rewrite (c_drain3_not_behind (length rest) lx1 rest f (le_n _) HI1).
      + cbn [bind map]. unfold c_token_span, c_parse_span. rewrite Hts, Hcur, Hps, Hf1. reflexivity.
      + rewrite Eys, app_length in Hf. cbn [length] in Hf. lia.
      + rewrite Hps, Hcur. exact Hprog.
    - destruct H as (lx1 & E & _). cbn [c_drain3]. rewrite E. reflexivity.
  Qed.

  (** the sequential stream tiles the text: it starts where the scan starts, each entry starts
      where the previous one ends, and every entry is what one scan step matched *)
  Lemma stream_tiles st p ys : stream st p ys ->
    match ys with
    | [] => scan st m t p = Ok None
    | x :: _ => e_start x = p
    end /\
    (forall i x y, nth_error ys i = Some x -> nth_error ys (S i) = Some y -> e_start y = e_end x) /\
    (forall i x, nth_error ys i = Some x ->
       exists st0, scan st0 m t (e_start x) = Ok (Some (e_tok x, e_end x, e_state x))).
  Proof.
    intros H. induction H as [st p Hn|st p tk e st' xs Hs Hr IH].
    - split; [exact Hn|]. split; intros i x; destruct i; discriminate.
    - destruct IH as (I1 & I2 & I3). split; [reflexivity|]. split.
      + intros [|i] x y Hx Hy; cbn [nth_error] in *.
        * injection Hx as <-. cbn [e_end snd fst]. destruct xs as [|z zs]; [discriminate|].
          cbn [nth_error] in Hy. injection Hy as <-. exact I1.
        * apply (I2 i x y Hx Hy).
      + intros [|i] x Hx; cbn [nth_error] in *.
        * injection Hx as <-. exists st. exact Hs.
        * apply (I3 i x Hx).
  Qed.

  (** [start_sublex] / [into_sublexer]: a mark; what remains deliverable is unchanged *)
  Theorem c_start_sublex_spec lx ys : Inv lx ys ->
    exists lx' ys', c_start_sublex lx = Ok lx' /\ Inv lx' ys'
      /\ kept (c_filter lx') ys' = kept (c_filter lx) ys /\ c_filter lx' = c_filter lx /\ c_rec lx' = c_rec lx.
  Proof.
    intros [Hov Hb Hs Hbuf Hord Hbeh]. unfold c_start_sublex.
    set (l := mklex (c_text lx) (c_met lx) (c_sc lx) (c_filter lx) (c_rec lx) (c_buf lx) (c_cur lx) (c_cur lx) (c_cur lx)).
    assert (HI : Inv l ys).
    { apply Build_Inv; cbn [l c_text c_met c_sc c_cur c_buf c_ps c_ts c_filter]; try assumption; [split; lia|reflexivity]. }
    destruct (c_buffer_next_spec l ys HI) as (lx' & ys' & E & HI' & Hk & Hf & Hr & _).
    exists lx', ys'. split; [exact E|]. split; [exact HI'|]. split; [exact Hk|]. split; [exact Hf|exact Hr].
  Qed.

  Lemma kept_none ys : kept None ys = ys.
  Proof. unfold kept. induction ys as [|y r IH]; [reflexivity|]. cbn [filter dropped negb]. f_equal. exact IH. Qed.
End Ops.
