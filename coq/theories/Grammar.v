(** Deep embedding of the public combinators of tephra-combinator (one constructor per
    combinator, as driven by harness/hparse), first-order values, and the store. *)
From Tephra Require Export CLexer Ctx.

Inductive val :=
| VUnit | VTok (t : tok) | VNat (n : nat) | VPair (a b : val) | VNone | VSome (v : val)
| VList (l : list val) | VTag (n : nat) (v : val) | VSpanned (s : span) (v : val)
| VText (s e : nat) | VDflt.

(** simple_predicates expressions over token kinds (pred) *)
Inductive pexpr := PIs (k : kind) | PNot (p : pexpr) | PAnd (a b : pexpr) | POr (a b : pexpr).
Fixpoint peval (p : pexpr) (t : tok) : bool :=
  match p with
  | PIs k => tok_eqb (mktok k 0) t
  | PNot q => negb (peval q t)
  | PAnd a b => peval a t && peval b t
  | POr a b => peval a t || peval b t
  end.

(** predicate of cond_implies on the antecedent's value *)
Inductive vpred := VPAlways | VPNever | VPIsTok (k : kind).
Definition vpeval (p : vpred) (v : val) : bool :=
  match p with
  | VPAlways => true
  | VPNever => false
  | VPIsTok k => match v with VTok t => kind_eqb (tkind t) k | _ => false end
  end.

Inductive G :=
| GEmpty | GOne (k : kind) | GAny (ks : list kind) | GAnyIndex (ks : list kind)
| GSeq (ks : list kind) | GSeqCount (ks : list kind) | GPred (p : pexpr) | GEot
| GLeft (a b : G) | GRight (a b : G) | GBoth (a b : G) | GCenter (a b c : G)
| GMap (tag : nat) (a : G) | GDiscard (a : G) | GText (a : G) | GSpanned (a : G) | GSub (a : G)
| GEither (a b : G) | GMaybe (a : G) | GRequireIf (b : bool) (a : G) | GCond (b : bool) (a : G)
| GImplies (a b : G) | GAntecedent (a b : G) | GConsequent (a b : G)
| GCondImplies (a : G) (p : vpred) (b : G)
| GFilterWith (f : fspec) (a : G) | GUnfiltered (a : G) | GRaw (a : G) | GUnrec (a : G)
| GRecover (r : rref) (a : G) | GRecoverDef (r : rref) (a : G)
| GRecoverDelayed (r : rref) (a : G) | GRecoverDefDelayed (r : rref) (a : G)
| GStabilize (a : G)
| GRepeat (lo : nat) (hi : option nat) (a : G)
| GRepeatCount (lo : nat) (hi : option nat) (a : G)
| GRepeatUntil (lo : nat) (hi : option nat) (stop a : G)
| GRepeatCountUntil (lo : nat) (hi : option nat) (stop a : G)
| GIntersperse (lo : nat) (hi : option nat) (a s : G)
| GIntersperseCount (lo : nat) (hi : option nat) (a s : G)
| GIntersperseUntil (lo : nat) (hi : option nat) (stop a s : G)
| GIntersperseCountUntil (lo : nat) (hi : option nat) (stop a s : G)
| GIntersperseDef (lo : nat) (hi : option nat) (a : G) (k : kind)
| GBracket (os : list kind) (a : G) (cs : list kind) (ab : list kind)
| GBracketDef (os : list kind) (a : G) (cs : list kind) (ab : list kind)
| GBracketIdx (os : list kind) (a : G) (cs : list kind) (ab : list kind)
| GBracketDefIdx (os : list kind) (a : G) (cs : list kind) (ab : list kind)
| GUpTo (a : G) (ab : list kind)
| GList (a : G) (sep : kind) (ab : list kind)
| GListB (lo : nat) (hi : option nat) (a : G) (sep : kind) (ab : list kind)
| GListDef (a : G) (sep : kind) (ab : list kind)
| GListBDef (lo : nat) (hi : option nat) (a : G) (sep : kind) (ab : list kind)
| GCtxPush (tag : nat) (a : G)
| GUserFail
| GProbe (n : nat)
(* internal forms used by the library's own compositions (not reachable from case files):
   a parser mapped with [Some], and recover_default with an explicit placeholder *)
| GSomeOf (a : G)
| GRecoverWith (dflt : val) (r : rref) (a : G).

(** The only mutable state shared between a parser's pieces: the flags of "after" recovery
    strategies (by Rc identity) and what the error sink has received so far. *)
Record store := mkstore { found : list nat; log : list err }.
Definition st_log (st : store) (l : list err) : store := mkstore (found st) l.
Definition is_found (st : store) (id : nat) : bool := existsb (Nat.eqb id) (found st).
Definition set_found (st : store) (id : nat) : store := mkstore (id :: found st) (log st).
Definition clear_found (st : store) (id : nat) : store :=
  mkstore (filter (fun x => negb (Nat.eqb id x)) (found st)) (log st).

Inductive out := ROk (v : val) (lx : clexer) | RErr (e : err) | RPanic | RFuel.

Definition tk0 (k : kind) : tok := mktok k 0.
Definition in_kinds (ks : list kind) (t : tok) : bool := existsb (fun k => tok_eqb (tk0 k) t) ks.

(** [Iterator::position] *)
Fixpoint position {A} (p : A -> bool) (l : list A) : option nat :=
  match l with
  | [] => None
  | x :: r => if p x then Some 0 else option_map S (position p r)
  end.

