(** Model of tephra-span/src/source.rs (SourceText with a start position), of
    position.rs [with_byte_offset], and of span.rs widen_to_line / SplitLines. *)
From Tephra Require Export Span.

Record source := mksource { stext : text; sname : option nat; smet : metrics; soff : pos }.

Definition src_new (t : text) (m : metrics) : source := mksource t None m pos_zero.
Definition src_len (s : source) : nat := blen (stext s).

(** position.rs:64-72: [self.byte -= offset] unchecked; the result's byte is shifted back. *)
Definition with_byte_offset (p : pos) (off : nat) (f : pos -> res (option pos)) : res (option pos) :=
  do b <- sub_chk (byte p) off;
  do r <- f (mkpos b (line p) (col p));
  Ok (option_map (fun q => mkpos (byte q + off) (line q) (col q)) r).

Definition unwrap {A} (r : res (option A)) : res A :=
  do o <- r; match o with Some a => Ok a | None => Panic end.

(** source.rs:129-133 (as repaired: measured from the start position's page so that tab stops
    and columns on the first line continue from the start column) *)
Definition src_end_position (s : source) : res pos :=
  do e <- end_position (smet s) (stext s) (mkpos 0 (line (soff s)) (col (soff s)));
  Ok (mkpos (byte e + byte (soff s)) (line e) (col e)).

Definition src_start_position (s : source) : pos := soff s.

(** source.rs:119-122 *)
Definition full_span (s : source) : res span :=
  do e <- src_end_position s; Ok (enclosing (soff s) e).

(** source.rs:137-141 *)
Definition src_next_position (s : source) (base : pos) : res (option pos) :=
  with_byte_offset base (byte (soff s)) (fun b => next_position (smet s) (stext s) b).

(** [first_line_position] (source.rs, added by the repair): a position on the first line of a
    text that starts at a nonzero column is re-measured forward from the start position. *)
Fixpoint src_walk (fuel : nat) (s : source) (p : pos) (target : nat) : res pos :=
  match fuel with
  | 0 => Fuel
  | S f =>
    if target <=? byte p then Ok p
    else do o <- src_next_position s p;
         match o with None => Ok p | Some q => src_walk f s q target end
  end.

Definition first_line_position (s : source) (p : pos) : res pos :=
  if negb (line p =? line (soff s)) || (col (soff s) =? 0) then Ok p
  else src_walk (S (length (stext s))) s (soff s) (byte p).

(** source.rs line_start_position *)
Definition src_line_start_position (s : source) (base : pos) : res pos :=
  do p <- unwrap (with_byte_offset base (byte (soff s))
             (fun b => rmap Some (line_start_position (smet s) (stext s) b)));
  first_line_position s p.

Definition src_line_end_position (s : source) (base : pos) : res pos :=
  unwrap (with_byte_offset base (byte (soff s))
            (fun b => rmap Some (line_end_position (smet s) (stext s) b))).

(** source.rs previous_position *)
Definition src_previous_position (s : source) (base : pos) : res (option pos) :=
  do r <- with_byte_offset base (byte (soff s))
            (fun b => previous_position (smet s) (stext s) b);
  match r with
  | None => Ok None
  | Some q => do q' <- first_line_position s q; Ok (Some q')
  end.

(** source.rs is_line_break: [debug_assert!(byte >= self.offset.byte)] then a subtraction. *)
Definition src_is_line_break (s : source) (b : nat) : res bool :=
  if byte (soff s) <=? b then is_line_break (smet s) (stext s) (b - byte (soff s)) else Panic.

Definition src_previous_line_end_position (s : source) (base : pos) : res (option pos) :=
  do ls <- src_line_start_position s base; src_previous_position s ls.

Definition src_next_line_start_position (s : source) (base : pos) : res (option pos) :=
  with_byte_offset base (byte (soff s))
    (fun b => next_line_start_position (smet s) (stext s) b).

Definition src_position_after_str (s : source) (start : pos) (pat : text) : res (option pos) :=
  with_byte_offset start (byte (soff s)) (fun b => position_after_str (smet s) (stext s) b pat).
Definition src_position_after_chars_matching (s : source) (start : pos) (f : chr -> bool) :=
  with_byte_offset start (byte (soff s))
    (fun b => position_after_chars_matching (smet s) (stext s) b f).
Definition src_next_position_after_chars_matching (s : source) (start : pos) (f : chr -> bool) :=
  with_byte_offset start (byte (soff s))
    (fun b => next_position_after_chars_matching (smet s) (stext s) b f).

(** source.rs:110-117: Page ordering is (line, column) lexicographic. *)
Definition page_leb (a b : pos) : bool :=
  (line a <? line b) || ((line a =? line b) && (col a <=? col b)).
Definition pos_in_bounds (s : source) (p : pos) : res bool :=
  do e <- src_end_position s;
  Ok ((byte (soff s) <=? byte p) && (byte p <=? byte e) && page_leb (soff s) p && page_leb p e).

(** source.rs:249-268: two debug assertions, two unchecked subtractions, one slice. *)
Definition clipped (s : source) (sp : span) : res source :=
  do b1 <- pos_in_bounds s (sstart sp);
  if negb b1 then Panic else
  do b2 <- pos_in_bounds s (send sp);
  if negb b2 then Panic else
  do a <- sub_chk (byte (sstart sp)) (byte (soff s));
  do e <- sub_chk (byte (send sp)) (byte (soff s));
  match split_at (stext s) a with
  | None => Panic
  | Some (_, rest) =>
    match sub_chk e a with
    | Ok n => match split_at rest n with
              | Some (mid, _) => Ok (mksource mid (sname s) (smet s) (sstart sp))
              | None => Panic
              end
    | _ => Panic                                    (* slice with begin > end *)
    end
  end.

(** span.rs:72-74, 121-129 *)
Definition is_full (sp : span) (s : source) : res bool :=
  do n <- span_len sp; Ok (n =? src_len s).

Definition widen_to_line (sp : span) (s : source) : res span :=
  do f <- is_full sp s;
  if f then Ok sp else
  do a <- src_line_start_position s (sstart sp);
  do b <- src_line_end_position s (send sp);
  Ok (enclosing a b).

(** span.rs:347-397: the SplitLines iterator. *)
Record split_lines := mksl { sl_src : source; sl_start : pos; sl_end : pos }.

Definition split_lines_of (sp : span) (s : source) : split_lines := mksl s (sstart sp) (send sp).

Definition sl_next (it : split_lines) : res (option span * split_lines) :=
  let st := sl_start it in let en := sl_end it in
  if line en <? line st then Ok (None, it)
  else if line st =? line en then
    Ok (Some (enclosing st en), mksl (sl_src it) (mkpos (byte st) (line st + 1) (col st)) en)
  else
    do e <- src_line_end_position (sl_src it) st;
    do n <- unwrap (src_next_position (sl_src it) e);   (* .expect("next line < end line") *)
    Ok (Some (enclosing st e), mksl (sl_src it) n en).

(** span.rs:393-397 (as repaired: the number of pieces still to come) *)
Definition sl_len (it : split_lines) : res nat :=
  if line (sl_end it) <? line (sl_start it) then Ok 0
  else Ok (line (sl_end it) - line (sl_start it) + 1).

Fixpoint sl_collect (fuel : nat) (it : split_lines) : res (list span) :=
  match fuel with
  | 0 => Fuel
  | S f =>
    do r <- sl_next it;
    match r with
    | (None, _) => Ok []
    | (Some sp, it') => do rest <- sl_collect f it'; Ok (sp :: rest)
    end
  end.

(** what a caller observes of [len()]: before every [next()] and once more after [None] *)
Fixpoint sl_lens (fuel : nat) (it : split_lines) : res (list nat) :=
  match fuel with
  | 0 => Fuel
  | S f =>
    do l <- sl_len it;
    do r <- sl_next it;
    match r with
    | (None, it') => do l' <- sl_len it'; Ok [l; l']
    | (Some _, it') => do rest <- sl_lens f it'; Ok (l :: rest)
    end
  end.
