(** C08, third sentence: for grammars whose recovering combinators stand in committed positions,
    whatever a sink-enabled run reports FIRST is the error the sink-less run fails with (up to the
    tags user transforms put around it). Put together with RunSilent: either the sink-enabled run
    reported nothing - then it IS the sink-less run - or the sink-less run failed, and its error
    is the first diagnostic. *)
From Tephra Require Import CLexer Run RunScope RunSink RunSilent.

(** an error without the tags of user transforms *)
Fixpoint strip (e : err) : err := match e with ETagged _ e' => strip e' | _ => e end.

Lemma strip_apply_trail tr : forall e, strip (apply_trail tr e) = strip e.
Proof. unfold apply_trail. induction tr as [|t tr IH]; intros e; [reflexivity|]. cbn [fold_left]. rewrite IH. reflexivity. Qed.

(** [r1]: the run with a sink, [r0]: the run without. The first thing [r1] logged beyond [st] is the
    error [r0] failed with *)
Definition fnew (st : store) (r1 r0 : R) : Prop :=
  exists e s0 e' more, r0 = (RErr e, s0) /\ log (snd r1) = log st ++ e' :: more /\ strip e' = strip e.

Definition er (st : store) (r1 r0 : R) : Prop := log (snd r1) = log st \/ fnew st r1 r0.

Lemma er_silent st r1 r0 : log (snd r1) = log st -> er st r1 r0.
Proof. intros H. left. exact H. Qed.

Lemma er_pure st o r0 : er st (o, st) r0.
Proof. left. reflexivity. Qed.

Lemma er_log_eq st st' r1 r0 : log st' = log st -> er st' r1 r0 -> er st r1 r0.
Proof.
  intros E [H|(e & s0 & e' & more & A & B & C)]; [left; congruence|].
  right. exists e, s0, e', more. split; [exact A|]. split; [rewrite <- E; exact B|exact C].
Qed.

(** any processing [F1]/[F0] of an intermediate result: while the sub-run is silent both sides
    continue from the same result; once it has reported, [F1] only adds to the log and [F0] hands
    the error on *)
Lemma er_fun st (F1 F0 : R -> R) r1 r0 : rel st r1 r0 -> er st r1 r0 ->
  (forall r, log (snd r) = log st -> r0 = r -> er (snd r) (F1 r) (F0 r)) ->
  (forall r, ext (snd r) (snd (F1 r))) ->
  (forall e s, r0 = (RErr e, s) -> exists e2 s2, F0 (RErr e, s) = (RErr e2, s2) /\ strip e2 = strip e) ->
  er st (F1 r1) (F0 r0).
Proof.
  intros [Hx Hs] [Hl|(e & s0 & e' & more & A & B & C)] Hsil Hgrow Hprop.
  - pose proof (Hs Hl) as E0. apply (er_log_eq st (snd r1)); [exact Hl|]. rewrite E0. apply Hsil; [exact Hl|exact E0].
  - right. subst r0. destruct (Hprop e s0 eq_refl) as (e2 & s2 & E2 & S2). destruct (Hgrow r1) as [more2 G].
    exists e2, s2, e', (more ++ more2). split; [exact E2|]. split; [rewrite G, B, <- app_assoc; reflexivity|congruence].
Qed.

(** the same when the sub-run is known to be silent (speculative positions) *)
Lemma er_fun_silent st (F1 F0 : R -> R) r1 r0 : rel st r1 r0 -> log (snd r1) = log st ->
  (forall r, log (snd r) = log st -> r0 = r -> er (snd r) (F1 r) (F0 r)) ->
  er st (F1 r1) (F0 r0).
Proof.
  intros [Hx Hs] Hl Hsil. pose proof (Hs Hl) as E0. apply (er_log_eq st (snd r1)); [exact Hl|]. rewrite E0.
  apply Hsil; [exact Hl|exact E0].
Qed.

Ltac er_on r1 r0 :=
  match goal with |- er ?st ?A ?B =>
    let PA := eval pattern r1 in A in
    let PB := eval pattern r0 in B in
    match PA with ?F1 _ => match PB with ?F0 _ =>
      change (er st (F1 r1) (F0 r0)); apply (er_fun st F1 F0 r1 r0) end end
  end.

Ltac er_on_silent r1 r0 :=
  match goal with |- er ?st ?A ?B =>
    let PA := eval pattern r1 in A in
    let PB := eval pattern r0 in B in
    match PA with ?F1 _ => match PB with ?F0 _ =>
      change (er st (F1 r1) (F0 r0)); apply (er_fun_silent st F1 F0 r1 r0) end end
  end.

Lemma snd_map_val f r : snd (map_val f r) = snd r.
Proof. destruct r as [[v l|e| |] s]; reflexivity. Qed.

Lemma er_map_val st f r1 r0 : er st r1 r0 -> er st (map_val f r1) (map_val f r0).
Proof.
  intros [H|(e & s0 & e' & more & A & B & C)]; [left; rewrite snd_map_val; exact H|].
  right. subst r0. exists e, s0, e', more. split; [reflexivity|]. split; [rewrite snd_map_val; exact B|exact C].
Qed.

Lemma er_lift {A} st (x : res A) k1 k0 : (forall a, x = Ok a -> er st (k1 a) (k0 a)) -> er st (lift x st k1) (lift x st k0).
Proof. destruct x as [a| |]; cbn [lift]; intros H; [exact (H a eq_refl)|apply er_pure|apply er_pure]. Qed.

Lemma er_on_ok st r1 r0 k1 k0 : rel st r1 r0 -> er st r1 r0 ->
  (forall v l s, log s = log st -> r0 = (ROk v l, s) -> er s (k1 v l s) (k0 v l s)) ->
  (forall v l s, ext s (snd (k1 v l s))) ->
  er st (on_ok r1 k1) (on_ok r0 k0).
Proof.
  intros Hr He Hk Hg. apply (er_fun st (fun r => on_ok r k1) (fun r => on_ok r k0) r1 r0 Hr He).
  - intros [[v l|e| |] s] Hl E0; cbn [on_ok snd] in *; try (apply er_pure). exact (Hk v l s Hl E0).
  - intros [[v l|e| |] s]; cbn [on_ok snd]; try apply ext_refl. apply Hg.
  - intros e s _. exists e, s. split; reflexivity.
Qed.

(** stabilize on a lexer without recover state does not retry *)
Lemma stab_no_rec runf n att a c lx r : n <> 0 -> c_rec lx = None ->
  stab_loop runf n att a c lx r = match r with (ROk v l', s) => (ROk v (set_rec l' None), s) | r0 => r0 end.
Proof.
  intros Hn Hl. destruct n as [|n]; [contradiction Hn; reflexivity|]. cbn [stab_loop].
  destruct r as [[v l|e| |] s]; try reflexivity. rewrite Hl. reflexivity.
Qed.

(** the whole-interpreter facts this file builds on, at one fuel *)
Section SinkErr.
  Variable f : nat.
  Hypothesis IH : forall g, comm g = true -> forall lx d1 d0 st, crel d1 d0 -> has_sink d0 = false -> c_rec lx = None ->
    er st (run f g lx d1 st) (run f g lx d0 st).

  Lemma Hrel g lx d1 d0 st : crel d1 d0 -> has_sink d0 = false -> rel st (run f g lx d1 st) (run f g lx d0 st).
  Proof. intros. apply rel_run; assumption. Qed.

  Lemma Hext g lx c st : ext st (snd (run f g lx c st)).
  Proof. apply log_only_grows. Qed.

  (** a sink-less sub-run that returned: its lexer has no recover state, its store is the entry store *)
  Lemma sinkless_ok g lx d0 st v l s : noprobe g = true -> has_sink d0 = false -> c_rec lx = None ->
    run f g lx d0 st = (ROk v l, s) -> c_rec l = None /\ s = st.
  Proof. intros Hg Hs Hl E. pose proof (no_sink_good f g Hg lx d0 st Hs Hl) as H. rewrite E in H. exact H. Qed.

  (** context-independent grammars: the two runs are the same run, and silent *)
  Lemma er_rfree F g lx d1 d0 st : rfree g = true -> crel d1 d0 -> has_sink d0 = false -> c_rec lx = None ->
    run F g lx d1 st = run F g lx d0 st /\ log (snd (run F g lx d1 st)) = log st.
  Proof.
    intros Hg Hc Hs Hl. pose proof (rfree_indep F g Hg lx d1 d0 st Hc) as E. split; [exact E|]. rewrite E.
    pose proof (no_sink_good F g (rfree_noprobe g Hg) lx d0 st Hs Hl) as H.
    destruct (run F g lx d0 st) as [[v l|e| |] s]; cbn [good snd] in *; [destruct H as [_ ->]|destruct H as [_ ->]|subst s|subst s]; reflexivity.
  Qed.


  Lemma list_loop_ext c n hi ab dflt item probe sepp vals lx st k :
    (forall vs l s, ext s (snd (k vs l s))) ->
    ext st (snd (list_loop (run f) n hi ab dflt item probe sepp c vals lx st k)).
  Proof.
    intros Hk.
    refine (proj1 (rel_list_loop f (fun g lx d1 d0 st => rel_run f g lx d1 d0 st) c (mkctx false (trail c) (locked c)) _ eq_refl
                     n hi ab dflt item probe sepp vals lx st k k _)).
    - split; reflexivity.
    - intros vs l s. apply rel_same. apply Hk.
  Qed.

  Lemma er_list_loop c1 c0 : crel c1 c0 -> has_sink c0 = false ->
    forall n hi ab dflt item probe sepp vals lx st k1 k0,
    comm item = true -> comm probe = true -> comm sepp = true -> c_rec lx = None ->
    (forall vs l s, c_rec l = None -> er s (k1 vs l s) (k0 vs l s)) ->
    (forall vs l s, ext s (snd (k1 vs l s))) ->
    er st (list_loop (run f) n hi ab dflt item probe sepp c1 vals lx st k1)
          (list_loop (run f) n hi ab dflt item probe sepp c0 vals lx st k0).
  Proof using IH.
    intros Hc Hs. induction n as [|n IHn]; intros hi ab dflt item probe sepp vals lx st k1 k0 Hi Hp Hsp Hl Hk Hkg;
      cbn [list_loop]; [apply er_pure|].
    apply er_lift. intros [o lx0] Ep. pose proof (c_peek_rec _ _ _ Ep) as R0. rewrite Hl in R0.
    destruct o as [t|]; [|apply Hk; exact R0].
    destruct (in_kinds ab t).
    - destruct vals as [|v0 vr]; [apply Hk; exact R0|].
      er_on (run f probe lx0 c1 st) (run f probe lx0 c0 st).
      + apply Hrel; assumption.
      + apply IH; assumption.
      + intros [[pv pl|pe| |] s] Hlog E0; cbn [snd]; try apply er_pure. destruct pv; apply Hk; exact R0.
      + intros [[pv pl|pe| |] s]; cbn [snd]; try apply ext_refl. destruct pv; apply Hkg.
      + intros e s _. exists e, s. split; reflexivity.
    - er_on (run f item lx0 c1 st) (run f item lx0 c0 st).
      + apply Hrel; assumption.
      + apply IH; assumption.
      + intros [[v lx1|e| |] s] Hlog E0; cbn [snd]; try apply er_pure.
        * destruct (sinkless_ok item lx0 c0 st v lx1 s (comm_noprobe item Hi) Hs R0 E0) as [R1 _].
          cbn zeta. destruct (ge_opt _ hi); [apply Hk; exact R1|].
          apply er_lift. intros [o2 lx2] Ep2. pose proof (c_peek_rec _ _ _ Ep2) as R2. rewrite R1 in R2.
          destruct o2 as [t2|]; [|apply Hk; exact R2].
          destruct (in_kinds ab t2); [apply Hk; exact R2|]. destruct (c_at_end lx2); [apply Hk; exact R2|].
          er_on (run f sepp lx2 c1 s) (run f sepp lx2 c0 s).
          -- apply Hrel; assumption.
          -- apply IH; assumption.
          -- intros [[v3 lx3|e3| |] s3] Hlog3 E3; cbn [snd]; try apply er_pure.
             destruct (sinkless_ok sepp lx2 c0 s v3 lx3 s3 (comm_noprobe sepp Hsp) Hs R2 E3) as [R3 _].
             apply er_lift. intros lx4 E4. pose proof (c_start_sublex_rec _ _ E4) as R4. rewrite R3 in R4.
             apply IHn; assumption.
          -- intros [[v3 lx3|e3| |] s3]; cbn [snd]; try apply ext_refl.
             destruct (c_start_sublex lx3) as [lx4| |]; cbn [lift snd]; try apply ext_refl. apply list_loop_ext. exact Hkg.
          -- intros e3 s3 _. exists e3, s3. split; reflexivity.
        * (* the sink-less run never returns the recovery error *)
          pose proof (no_sink_good f item (comm_noprobe item Hi) lx0 c0 st Hs R0) as Hg. rewrite E0 in Hg. destruct Hg as [Hne _].
          destruct e; try apply er_pure. contradiction Hne. reflexivity.
      + intros [[v lx1|e| |] s]; cbn [snd]; try apply ext_refl.
        * cbn zeta. destruct (ge_opt _ hi); [apply Hkg|].
          destruct (c_peek lx1) as [[o2 lx2]| |]; cbn [lift snd]; try apply ext_refl.
          destruct o2 as [t2|]; [|apply Hkg]. destruct (in_kinds ab t2); [apply Hkg|]. destruct (c_at_end lx2); [apply Hkg|].
          pose proof (Hext sepp lx2 c1 s) as Hx.
          destruct (run f sepp lx2 c1 s) as [[v3 lx3|e3| |] s3]; cbn [snd] in Hx |- *; try exact Hx.
          destruct (c_start_sublex lx3) as [lx4| |]; cbn [lift snd]; try exact Hx.
          apply (ext_trans _ s3); [exact Hx|]. apply list_loop_ext. exact Hkg.
        * destruct e; try apply ext_refl.
          destruct (c_advance_to (fuel_of lx0) lx0 (fun _ => false)) as [[b lx1]| |]; cbn [lift snd]; try apply ext_refl. apply Hkg.
      + intros e s E0. pose proof (no_sink_good f item (comm_noprobe item Hi) lx0 c0 st Hs R0) as Hg. rewrite E0 in Hg. destruct Hg as [Hne _].
        destruct e; try (eexists; eexists; split; reflexivity). contradiction Hne. reflexivity.
  Qed.

  Lemma snd_some_of r : snd (some_of r) = snd r.
  Proof. apply snd_map_val. Qed.

  Theorem er_step : forall g, comm g = true -> forall lx c1 c0 st, crel c1 c0 -> has_sink c0 = false -> c_rec lx = None ->
    er st (run (S f) g lx c1 st) (run (S f) g lx c0 st).
  Proof using IH.
    intros g Hg lx c1 c0 st Hc Hs Hl.
    (* context-independent grammars: one and the same silent run *)
    destruct (rfree g) eqn:Erf.
    { destruct (er_rfree (S f) g lx c1 c0 st Erf Hc Hs Hl) as [_ Hlog]. left. exact Hlog. }
    assert (Hunrec : ctx_unrec c1 = ctx_unrec c0) by (apply crel_unrec; exact Hc).
    assert (Hns_unrec : has_sink (ctx_unrec c0) = false) by reflexivity.
    (* recover_with *)
    assert (Hrw : forall dflt r (body : clexer -> ctx -> store -> R),
              rel st (body lx c1 st) (body lx c0 st) -> er st (body lx c1 st) (body lx c0 st) ->
              er st
                match body lx c1 st with
                | (RErr e, st1) =>
                  match send_error c1 e (log st1) with
                  | (_, Some e') => (RErr e', st1)
                  | (l, None) =>
                    match advance_to_recover (set_rec lx (Some r)) (st_log st1 l) with
                    | (Ok (true, lx'), st3) => (ROk dflt lx', st3)
                    | (Ok (false, _), st3) => (RErr ERecover, st3)
                    | (Panic, st3) => (RPanic, st3)
                    | (Fuel, st3) => (RFuel, st3)
                    end
                  end
                | r0 => r0
                end
                match body lx c0 st with
                | (RErr e, st1) =>
                  match send_error c0 e (log st1) with
                  | (_, Some e') => (RErr e', st1)
                  | (l, None) =>
                    match advance_to_recover (set_rec lx (Some r)) (st_log st1 l) with
                    | (Ok (true, lx'), st3) => (ROk dflt lx', st3)
                    | (Ok (false, _), st3) => (RErr ERecover, st3)
                    | (Panic, st3) => (RPanic, st3)
                    | (Fuel, st3) => (RFuel, st3)
                    end
                  end
                | r0 => r0
                end).
    { intros dflt r body Hbr Hbe. er_on (body lx c1 st) (body lx c0 st); [exact Hbr|exact Hbe| | |].
      - intros [[v l|e| |] s1] Hlog E0; cbn [snd]; try apply er_pure.
        unfold send_error. rewrite Hs. destruct (has_sink c1); [|apply er_pure].
        pose proof (advance_to_recover_log (set_rec lx (Some r)) (st_log s1 (log s1 ++ [apply_trail (trail c1) e]))) as Hal.
        cbn [st_log log] in Hal.
        right. exists e, s1, (apply_trail (trail c1) e), []. split; [reflexivity|]. split; [|apply strip_apply_trail].
        destruct (advance_to_recover (set_rec lx (Some r)) (st_log s1 (log s1 ++ [apply_trail (trail c1) e]))) as [[[b lx']| |] st3];
          cbn [snd] in Hal |- *; try exact Hal. destruct b; exact Hal.
      - intros [[v l|e| |] s1]; cbn [snd]; try apply ext_refl.
        unfold send_error. destruct (has_sink c1); [|apply ext_refl].
        pose proof (advance_to_recover_log (set_rec lx (Some r)) (st_log s1 (log s1 ++ [apply_trail (trail c1) e]))) as Hal.
        cbn [st_log log] in Hal. exists [apply_trail (trail c1) e].
        destruct (advance_to_recover (set_rec lx (Some r)) (st_log s1 (log s1 ++ [apply_trail (trail c1) e]))) as [[[b lx']| |] st3];
          cbn [snd] in Hal |- *; try exact Hal. destruct b; exact Hal.
      - intros e s _. unfold send_error. rewrite Hs. exists e, s. split; reflexivity. }
    (* bracket *)
    assert (Hbw : forall os a cs ab okv dfl, comm a = true ->
              er st
                (if (match os with [] => true | _ => false end) || (match cs with [] => true | _ => false end)
                    || negb (length os =? length cs) || negb (disjoint_kinds os cs)
                 then (RPanic, st)
                 else
                   match match_nested_brackets lx os cs ab with
                   | BPanic => (RPanic, st) | BFuel => (RFuel, st)
                   | BErr e => (RErr e, st)
                   | BM o cl idx =>
                     lift (c_next o) st (fun '(_, o1) =>
                     lift (c_start_sublex o1) st (fun inner =>
                     lift (c_next cl) st (fun '(_, cl1) =>
                     match run f a inner c1 st with
                     | (ROk v _, st1) => (ROk (okv v idx) cl1, st1)
                     | (RErr e, st1) =>
                       match send_error c1 e (log st1) with
                       | (_, Some e') => (RErr e', st1)
                       | (l, None) => (ROk (dfl idx) cl1, st_log st1 l)
                       end
                     | r => r
                     end)))
                   end)
                (if (match os with [] => true | _ => false end) || (match cs with [] => true | _ => false end)
                    || negb (length os =? length cs) || negb (disjoint_kinds os cs)
                 then (RPanic, st)
                 else
                   match match_nested_brackets lx os cs ab with
                   | BPanic => (RPanic, st) | BFuel => (RFuel, st)
                   | BErr e => (RErr e, st)
                   | BM o cl idx =>
                     lift (c_next o) st (fun '(_, o1) =>
                     lift (c_start_sublex o1) st (fun inner =>
                     lift (c_next cl) st (fun '(_, cl1) =>
                     match run f a inner c0 st with
                     | (ROk v _, st1) => (ROk (okv v idx) cl1, st1)
                     | (RErr e, st1) =>
                       match send_error c0 e (log st1) with
                       | (_, Some e') => (RErr e', st1)
                       | (l, None) => (ROk (dfl idx) cl1, st_log st1 l)
                       end
                     | r => r
                     end)))
                   end)).
    { intros os a cs ab okv dfl Ha. destruct (_ || _ || _ || _); [apply er_pure|].
      destruct (match_nested_brackets lx os cs ab) as [o cl idx|e| |] eqn:Em; try apply er_pure.
      unfold match_nested_brackets in Em. pose proof (bracket_loop_rec _ _ _ _ _ _ None _ _ _ _ _ I Em) as [Ro _].
      apply er_lift. intros [x o1] E1. apply er_lift. intros inner E2. apply er_lift. intros [y cl1] E3.
      assert (Rin : c_rec inner = None).
      { rewrite (c_start_sublex_rec _ _ E2), (c_next_rec _ _ _ E1). rewrite Ro. exact Hl. }
      er_on (run f a inner c1 st) (run f a inner c0 st); [apply Hrel; assumption|apply IH; assumption| | |].
      - intros [[v l|e| |] s1] Hlog E0; cbn [snd]; try apply er_pure.
        unfold send_error. rewrite Hs. destruct (has_sink c1); [|apply er_pure].
        right. exists e, s1, (apply_trail (trail c1) e), []. split; [reflexivity|]. split; [reflexivity|apply strip_apply_trail].
      - intros [[v l|e| |] s1]; cbn [snd]; try apply ext_refl.
        unfold send_error. destruct (has_sink c1); [|apply ext_refl]. eexists. reflexivity.
      - intros e s _. unfold send_error. rewrite Hs. exists e, s. split; reflexivity. }
    (* list *)
    assert (Hlw : forall lo hi item0 dflt sep ab, comm item0 = true ->
              let k := fun (c : ctx) vals lx' st' =>
                         match (match c_rec lx with Some _ => None | None => c_rec lx' end) with
                         | Some _ => (RPanic, st')
                         | None =>
                           if length vals <? lo then
                             match send_error c (ECount (c_parse_span lx') (length vals) lo hi) (log st') with
                             | (_, Some e') => (RErr e', st')
                             | (l, None) => (ROk (VList vals) lx', st_log st' l)
                             end
                           else (ROk (VList vals) lx', st')
                         end in
              let item := GStabilize (GRecoverWith dflt (list_rref sep ab) (GUpTo item0 (sep :: ab))) in
              let probe := GStabilize (GMaybe (GUpTo item0 (sep :: ab))) in
              let sepp := GRecoverWith VUnit (list_rref sep ab) (GDiscard (GOne sep)) in
              er st
                match hi with
                | Some 0 => (ROk (VList []) lx, st)
                | _ => if (match hi with Some h => h <? lo | None => false end) then (RPanic, st)
                       else list_loop (run f) f hi ab dflt item probe sepp c1 [] lx st (k c1)
                end
                match hi with
                | Some 0 => (ROk (VList []) lx, st)
                | _ => if (match hi with Some h => h <? lo | None => false end) then (RPanic, st)
                       else list_loop (run f) f hi ab dflt item probe sepp c0 [] lx st (k c0)
                end).
    { intros lo hi item0 dflt sep ab Hi0 k item probe sepp.
      assert (Hloop : er st (list_loop (run f) f hi ab dflt item probe sepp c1 [] lx st (k c1))
                            (list_loop (run f) f hi ab dflt item probe sepp c0 [] lx st (k c0))).
      { apply er_list_loop; try assumption; try (cbn [comm noprobe]; try exact Hi0; try (exact (comm_noprobe _ Hi0)); reflexivity).
        - intros vs l s Rl. unfold k.
          destruct (match c_rec lx with Some _ => None | None => c_rec l end); [apply er_pure|].
          destruct (length vs <? lo); [|apply er_pure].
          unfold send_error. rewrite Hs. destruct (has_sink c1); [|apply er_pure].
          right. eexists _, s, _, []. split; [reflexivity|]. split; [reflexivity|apply strip_apply_trail].
        - intros vs l s. unfold k.
          destruct (match c_rec lx with Some _ => None | None => c_rec l end); [apply ext_refl|].
          destruct (length vs <? lo); [|apply ext_refl].
          unfold send_error. destruct (has_sink c1); [|apply ext_refl]. eexists. reflexivity. }
      destruct hi as [[|h]|]; [apply er_pure| |].
      - destruct (S h <? lo); [apply er_pure|exact Hloop].
      - exact Hloop. }
    destruct g; cbn [comm] in Hg; try discriminate Hg; cbn [rfree] in Erf; try discriminate Erf; cbn [run];
      repeat match goal with H : _ && _ = true |- _ => apply andb_prop in H; destruct H end.
    all: try (exfalso; repeat match goal with H : rfree _ = true |- _ => rewrite H in Erf end; cbn [andb] in Erf; congruence).
    - (* left *) apply er_on_ok; [apply Hrel; assumption|apply IH; assumption| |].
      + intros v l s Hlog E0. destruct (sinkless_ok g1 lx c0 st v l s (comm_noprobe g1 H) Hs Hl E0) as [Rl _].
        apply er_map_val. apply IH; assumption.
      + intros v l s. rewrite snd_map_val. apply Hext.
    - (* right *) apply er_on_ok; [apply Hrel; assumption|apply IH; assumption| |].
      + intros v l s Hlog E0. destruct (sinkless_ok g1 lx c0 st v l s (comm_noprobe g1 H) Hs Hl E0) as [Rl _].
        apply IH; assumption.
      + intros v l s. apply Hext.
    - (* both *) apply er_on_ok; [apply Hrel; assumption|apply IH; assumption| |].
      + intros v l s Hlog E0. destruct (sinkless_ok g1 lx c0 st v l s (comm_noprobe g1 H) Hs Hl E0) as [Rl _].
        apply er_map_val. apply IH; assumption.
      + intros v l s. rewrite snd_map_val. apply Hext.
    - (* center *) apply er_on_ok; [apply Hrel; assumption|apply IH; assumption| |].
      + intros v l s Hlog E0. destruct (sinkless_ok g1 lx c0 st v l s (comm_noprobe g1 H) Hs Hl E0) as [Rl _].
        apply er_on_ok; [apply Hrel; assumption|apply IH; assumption| |].
        * intros v2 l2 s2 Hlog2 E2. destruct (sinkless_ok g2 l c0 s v2 l2 s2 (comm_noprobe g2 H1) Hs Rl E2) as [Rl2 _].
          apply er_map_val. apply IH; assumption.
        * intros v2 l2 s2. rewrite snd_map_val. apply Hext.
      + intros v l s.
        pose proof (Hext g2 l c1 s) as Hx. destruct (run f g2 l c1 s) as [[v2 l2|e2| |] s2]; cbn [on_ok snd] in *; try exact Hx.
        rewrite snd_map_val. apply (ext_trans _ s2); [exact Hx|apply Hext].
    - (* map *) apply er_map_val. apply IH; assumption.
    - (* discard *) apply er_map_val. apply IH; assumption.
    - (* text *) apply er_lift. intros [o lx1] Ep. pose proof (c_peek_rec _ _ _ Ep) as R1. rewrite Hl in R1.
      apply er_on_ok; [apply Hrel; assumption|apply IH; assumption| |].
      + intros v l s Hlog E0. cbn zeta. destruct (_ && _); apply er_pure.
      + intros v l s. cbn zeta. destruct (_ && _); apply ext_refl.
    - (* spanned *) apply er_lift. intros [o lx1] Ep. pose proof (c_peek_rec _ _ _ Ep) as R1. rewrite Hl in R1.
      apply er_on_ok; [apply Hrel; assumption|apply IH; assumption| |].
      + intros v l s Hlog E0. apply er_pure.
      + intros v l s. apply ext_refl.
    - (* sub *) apply er_lift. intros lx' E. pose proof (c_start_sublex_rec _ _ E) as R1. rewrite Hl in R1. apply IH; assumption.
    - (* either: the left branch is context-independent *)
      destruct (er_rfree f g1 lx c1 c0 st H Hc Hs Hl) as [E1 Hlog1].
      er_on_silent (run f g1 lx c1 st) (run f g1 lx c0 st); [apply Hrel; assumption|exact Hlog1|].
      intros [[v l|e| |] s] Hlog E0; cbn [snd]; try apply er_pure.
      pose proof (no_sink_good f g1 (rfree_noprobe g1 H) lx c0 st Hs Hl) as Hg1. rewrite E0 in Hg1. destruct Hg1 as [_ ->].
      apply IH; assumption.
    - (* maybe: the optional parser runs without a sink in both runs *)
      rewrite Hunrec. left.
      pose proof (no_sink_good f g Hg lx (ctx_unrec c0) st Hns_unrec Hl) as Hg0.
      destruct (run f g lx (ctx_unrec c0) st) as [[v l|e| |] s]; cbn [good snd] in *; [destruct Hg0 as [_ ->]|destruct Hg0 as [_ ->]|subst s|subst s]; reflexivity.
    - (* require_if *) destruct b; [apply er_map_val; apply IH; assumption|]. apply IH; assumption.
    - (* cond *) destruct b; [apply er_map_val; apply IH; assumption|apply er_pure].
    - (* implies *) apply er_on_ok; [apply Hrel; assumption|apply IH; assumption| |].
      + intros v l s Hlog E0. destruct (sinkless_ok (GMaybe g1) lx c0 st v l s H Hs Hl E0) as [Rl _].
        destruct v; try apply er_pure. apply er_map_val. apply IH; assumption.
      + intros v l s. destruct v; try apply ext_refl. rewrite snd_map_val. apply Hext.
    - (* antecedent *) apply er_on_ok; [apply Hrel; assumption|apply IH; assumption| |].
      + intros v l s Hlog E0. destruct (sinkless_ok (GMaybe g1) lx c0 st v l s H Hs Hl E0) as [Rl _].
        destruct v; try apply er_pure. apply er_map_val. apply IH; assumption.
      + intros v l s. destruct v; try apply ext_refl. rewrite snd_map_val. apply Hext.
    - (* consequent *) apply er_on_ok; [apply Hrel; assumption|apply IH; assumption| |].
      + intros v l s Hlog E0. destruct (sinkless_ok (GMaybe g1) lx c0 st v l s H Hs Hl E0) as [Rl _].
        destruct v; try apply er_pure. apply er_map_val. apply IH; assumption.
      + intros v l s. destruct v; try apply ext_refl. rewrite snd_map_val. apply Hext.
    - (* cond_implies *) apply er_on_ok; [apply Hrel; assumption|apply IH; assumption| |].
      + intros v l s Hlog E0. destruct (sinkless_ok (GMaybe g1) lx c0 st v l s H Hs Hl E0) as [Rl _].
        destruct v; try apply er_pure. destruct (vpeval p v); [|apply er_pure]. apply er_map_val. apply IH; assumption.
      + intros v l s. destruct v; try apply ext_refl. destruct (vpeval p v); [|apply ext_refl]. rewrite snd_map_val. apply Hext.
    - (* filter_with *) apply er_lift. intros [old lx1] E. pose proof (c_set_filter_rec _ _ _ _ E) as R1. rewrite Hl in R1.
      apply er_on_ok; [apply Hrel; assumption|apply IH; assumption| |].
      + intros v l s Hlog E0. apply er_lift. intros [o2 l2] E2. apply er_pure.
      + intros v l s. destruct (c_set_filter l old) as [[o2 l2]| |]; apply ext_refl.
    - (* unfiltered *) apply er_lift. intros [old lx1] E. pose proof (c_set_filter_rec _ _ _ _ E) as R1. rewrite Hl in R1.
      apply er_on_ok; [apply Hrel; assumption|apply IH; assumption| |].
      + intros v l s Hlog E0. apply er_lift. intros [o2 l2] E2. apply er_pure.
      + intros v l s. destruct (c_set_filter l old) as [[o2 l2]| |]; apply ext_refl.
    - (* raw *) apply IH; [exact Hg|apply crel_raw; exact Hc|exact Hs|exact Hl].
    - (* unrecoverable *) rewrite Hunrec. left.
      pose proof (no_sink_good f g Hg lx (ctx_unrec c0) st Hns_unrec Hl) as Hg0.
      destruct (run f g lx (ctx_unrec c0) st) as [[v l|e| |] s]; cbn [good snd] in *; [destruct Hg0 as [_ ->]|destruct Hg0 as [_ ->]|subst s|subst s]; reflexivity.
    - (* recover *) apply (Hrw VNone r (fun l c' s => some_of (run f g l c' s))); [apply rel_map_val; apply Hrel; assumption|].
      apply er_map_val. apply IH; assumption.
    - (* recover_default *) apply (Hrw VDflt r (fun l c' s => run f g l c' s)); [apply Hrel; assumption|apply IH; assumption].
    - (* recover delayed *) apply (Hrw VNone r (fun l c' s => some_of (run f g l c' s))); [apply rel_map_val; apply Hrel; assumption|].
      apply er_map_val. apply IH; assumption.
    - (* recover_default delayed *) apply (Hrw VDflt r (fun l c' s => run f g l c' s)); [apply Hrel; assumption|apply IH; assumption].
    - (* stabilize: the lexer has no recover state, so there is no retry *)
      rewrite (stab_loop_crel (run f) f 0 g c1 c0 lx (run f g lx c1 st) Hc).
      destruct (Nat.eq_dec f 0) as [E0|Hne]; [rewrite E0; cbn [stab_loop run snd]; apply er_pure|].
      rewrite !(stab_no_rec (run f) f 0 g c0 lx _ Hne Hl).
      er_on (run f g lx c1 st) (run f g lx c0 st); [apply Hrel; assumption|apply IH; assumption| | |].
      + intros [[v l|e| |] s] Hlog E0; cbn [snd]; apply er_pure.
      + intros [[v l|e| |] s]; cbn [snd]; apply ext_refl.
      + intros e s _. exists e, s. split; reflexivity.
    - (* bracket *) apply Hbw; exact Hg.
    - apply Hbw; exact Hg.
    - apply Hbw; exact Hg.
    - apply Hbw; exact Hg.
    - (* up_to *) apply er_on_ok; [apply Hrel; assumption|apply IH; assumption| |].
      + intros v l s Hlog E0. left.
        destruct (c_peek l) as [[o lx2]| |]; cbn [lift snd]; try reflexivity.
        destruct o as [t|]; [|reflexivity]. destruct (in_kinds ab t); [reflexivity|].
        destruct (c_advance_to (fuel_of lx2) lx2 (in_kinds ab)) as [[b lx3]| |]; reflexivity.
      + intros v l s.
        destruct (c_peek l) as [[o lx2]| |]; cbn [lift snd]; try apply ext_refl.
        destruct o as [t|]; [|apply ext_refl]. destruct (in_kinds ab t); [apply ext_refl|].
        destruct (c_advance_to (fuel_of lx2) lx2 (in_kinds ab)) as [[b lx3]| |]; apply ext_refl.
    - (* list *) apply (Hlw 0 None (GSomeOf g) VNone sep ab). exact Hg.
    - apply (Hlw lo hi (GSomeOf g) VNone sep ab). exact Hg.
    - apply (Hlw 0 None g VDflt sep ab). exact Hg.
    - apply (Hlw lo hi g VDflt sep ab). exact Hg.
    - (* context push *)
      assert (Hns' : has_sink (ctx_pushed c0 tag) = false) by (unfold ctx_pushed; destruct (locked c0); exact Hs).
      er_on (run f g lx (ctx_pushed c1 tag) st) (run f g lx (ctx_pushed c0 tag) st);
        [apply Hrel; [apply crel_pushed; exact Hc|exact Hns']|apply IH; [exact Hg|apply crel_pushed; exact Hc|exact Hns'|exact Hl]| | |].
      + intros [[v l|e| |] s] Hlog E0; cbn [snd]; apply er_pure.
      + intros [[v l|e| |] s]; cbn [snd]; apply ext_refl.
      + intros e s _. eexists _, s. split; [reflexivity|]. unfold apply_context. apply strip_apply_trail.
    - (* some_of *) apply er_map_val. apply IH; assumption.
    - (* recover_with *) apply (Hrw dflt r (fun l c' s => run f g l c' s)); [apply Hrel; assumption|apply IH; assumption].
  Qed.
End SinkErr.

Theorem er_run : forall fuel g, comm g = true -> forall lx c1 c0 st, crel c1 c0 -> has_sink c0 = false -> c_rec lx = None ->
  er st (run fuel g lx c1 st) (run fuel g lx c0 st).
Proof.
  induction fuel as [|f IH]; intros g Hg lx c1 c0 st Hc Hs Hl; [apply er_pure|].
  apply (er_step f); assumption.
Qed.

(** C08, third sentence: when the sink-less parse fails with an error, the sink-enabled parse either
    fails with that same error (and reported nothing), or reports it as its first diagnostic *)
Theorem sinkless_error_is_first_diagnostic fuel g lx c1 c0 st e st0 :
  comm g = true -> crel c1 c0 -> has_sink c0 = false -> c_rec lx = None ->
  run fuel g lx c0 st = (RErr e, st0) ->
  (run fuel g lx c1 st = (RErr e, st0) /\ log st0 = log st)
  \/ (exists e' more, log (snd (run fuel g lx c1 st)) = log st ++ e' :: more /\ strip e' = strip e).
Proof.
  intros Hg Hc Hs Hl E0. destruct (er_run fuel g Hg lx c1 c0 st Hc Hs Hl) as [Hlog|(e2 & s2 & e' & more & A & B & C)].
  - left. destruct (rel_run fuel g lx c1 c0 st Hc Hs) as [_ Heq]. rewrite <- (Heq Hlog), E0. split; [reflexivity|].
    rewrite <- (Heq Hlog), E0 in Hlog. exact Hlog.
  - right. rewrite E0 in A. injection A as <- _. exists e', more. split; [exact B|exact C].
Qed.

(** the dichotomy: a sink-enabled run either reported nothing and IS the sink-less run, or the
    sink-less run failed and its error is what was reported first *)
Theorem sink_run_dichotomy fuel g lx c1 c0 st :
  comm g = true -> crel c1 c0 -> has_sink c0 = false -> c_rec lx = None ->
  (log (snd (run fuel g lx c1 st)) = log st /\ run fuel g lx c0 st = run fuel g lx c1 st)
  \/ (exists e s0 e' more, run fuel g lx c0 st = (RErr e, s0)
        /\ log (snd (run fuel g lx c1 st)) = log st ++ e' :: more /\ strip e' = strip e).
Proof.
  intros Hg Hc Hs Hl. destruct (er_run fuel g Hg lx c1 c0 st Hc Hs Hl) as [Hlog|H].
  - left. split; [exact Hlog|]. destruct (rel_run fuel g lx c1 c0 st Hc Hs) as [_ Heq]. exact (Heq Hlog).
  - right. exact H.
Qed.
