(** Declarative specification of canonical positions.

    A text is read as a list of *units*: a unit is one configured line ending or one other
    character (greedy, left to right: under CRLF a CR immediately followed by LF is always
    a line ending). The canonical position after a list of units has
      byte   = their total byte length,
      line   = the number of line-ending units,
      column = the display width of the characters since the last line ending, a tab
               advancing to the next multiple of the tab width.
    The canonical positions of a text are those after each prefix of its unit list. *)
From Tephra Require Export Metrics.

Inductive unit := ULb | UCh (c : chr).

Definition utext (m : metrics) (u : unit) : text :=
  match u with ULb => lb_text m | UCh c => [c] end.
Definition ctext (m : metrics) (us : list unit) : text := flat_map (utext m) us.
Definition ubytes (m : metrics) (us : list unit) : nat := blen (ctext m us).

(** Greedy reading of a text as units (same recursion shape as the text itself). *)
Fixpoint units (m : metrics) (t : text) : list unit :=
  match t with
  | [] => []
  | c :: r =>
    if starts_lb m t then
      ULb :: match le m, r with
             | LE_CrLf, _ :: r' => units m r'
             | _, _ => units m r
             end
    else UCh c :: units m r
  end.

(** A unit list is well formed when it is what the greedy reading produces: no character
    unit sits where a line ending would have been read. *)
Fixpoint wf_units (m : metrics) (us : list unit) : Prop :=
  match us with
  | [] => True
  | ULb :: r => wf_units m r
  | UCh c :: r => wf_chr c /\ starts_lb m (c :: ctext m r) = false /\ wf_units m r
  end.

Definition is_lb (u : unit) : bool := match u with ULb => true | UCh _ => false end.

(** line: the number of line endings *)
Definition breaks (us : list unit) : nat := length (filter is_lb us).

(** the characters since the last line ending *)
Definition last_line (us : list unit) : text :=
  fold_left (fun acc u => match u with ULb => [] | UCh c => acc ++ [c] end) us [].

(** display width with tab stops *)
Definition width_step (tw : nat) (c0 : nat) (c : chr) : nat :=
  match c with Tab => c0 + (tw - c0 mod tw) | _ => c0 + cwidth c end.
Definition width_from (tw : nat) (c0 : nat) (l : text) : nat := fold_left (width_step tw) l c0.
Definition width (tw : nat) (l : text) : nat := width_from tw 0 l.

Definition canon_u (m : metrics) (us : list unit) : pos :=
  mkpos (ubytes m us) (breaks us) (width (tabw m) (last_line us)).

(** The k-th canonical position of a unit list. *)
Definition P (m : metrics) (us : list unit) (k : nat) : pos := canon_u m (firstn k us).

(** Measurement continued from a start position [p0] (a text that is a window onto a larger
    document starts at the window's position): bytes and lines add up; on the first line the
    column continues from the start column. [canon_u] is the case [p0 = pos_zero]. *)
Definition canon_from (m : metrics) (p0 : pos) (us : list unit) : pos :=
  mkpos (byte p0 + ubytes m us) (line p0 + breaks us)
        (width_from (tabw m) (if breaks us =? 0 then col p0 else 0) (last_line us)).
Definition Pf (m : metrics) (p0 : pos) (us : list unit) (k : nat) : pos :=
  canon_from m p0 (firstn k us).

(** Text-level view. *)
Definition Canon (m : metrics) (t : text) (p : pos) : Prop :=
  exists k, k <= length (units m t) /\ p = P m (units m t) k.

(** Line structure on unit lists. *)
(** number of leading character units (distance to the end of the current line) *)
Fixpoint run_len (us : list unit) : nat :=
  match us with UCh _ :: r => S (run_len r) | _ => 0 end.
(** index just after the last line ending (start of the last line) *)
Definition lsk (us : list unit) : nat := length us - run_len (rev us).

Definition line_end_k (us : list unit) (k : nat) : nat := k + run_len (skipn k us).
Definition line_start_k (us : list unit) (k : nat) : nat := lsk (firstn k us).
