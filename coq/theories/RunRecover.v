(** C12: where recovery resumes. [advance_to_recover] on a lexer standing anywhere in the scan,
    for the recover-before and recover-after strategies, in terms of the deliverable tokens; and
    the recovering combinators built on it. *)
From Tephra Require Import MetricsSpec MetricsFacts CLexer LexerFacts Run Peg RunCore.

(** the first deliverable token whose kind is in [ks]: what precedes it, it, what follows *)
Fixpoint find_first (ks : list kind) (s : list entry) : option (list entry * entry * list entry) :=
  match s with
  | [] => None
  | x :: r =>
    if in_kinds ks (e_tok x) then Some ([], x, r)
    else match find_first ks r with
         | Some (p, y, q) => Some (x :: p, y, q)
         | None => None
         end
  end.

Lemma find_first_spec ks s : match find_first ks s with
  | Some (p, x, q) => s = p ++ x :: q /\ Forall (fun y => in_kinds ks (e_tok y) = false) p /\ in_kinds ks (e_tok x) = true
  | None => Forall (fun y => in_kinds ks (e_tok y) = false) s
  end.
Proof.
  induction s as [|x r IH]; cbn [find_first]; [constructor|].
  destruct (in_kinds ks (e_tok x)) eqn:E.
  - split; [reflexivity|]. split; [constructor|exact E].
  - destruct (find_first ks r) as [[[p y] q]|].
    + destruct IH as (-> & Hp & Hy). split; [reflexivity|]. split; [constructor; assumption|exact Hy].
    + constructor; assumption.
Qed.

Lemma clear_set_found st id : is_found st id = false -> clear_found (set_found st id) id = st.
Proof.
  destruct st as [fd lg]. unfold is_found, clear_found, set_found. cbn [found log]. intros H.
  cbn [filter]. rewrite Nat.eqb_refl. cbn [negb]. f_equal.
  induction fd as [|y r IH]; [reflexivity|]. cbn [existsb] in H. apply orb_false_elim in H. destruct H as [H1 H2].
  cbn [filter]. rewrite H1. cbn [negb]. f_equal. exact (IH H2).
Qed.

Section Recover.
  Variable m : metrics.
  Hypothesis Htab : 1 <= tabw m.
  Variable t : text.
  Hypothesis Ht : wf_text t.
  Local Notation Inv := (Inv m t).

  (** recover-before: stop in front of the first token of the set; the store is untouched *)
  Theorem recover_before_spec id ks : forall s fuel lx ys st, Inv lx ys -> kept (c_filter lx) ys = s -> length s < fuel ->
    match find_first ks s with
    | Some (_, x, rest) =>
      exists lx' ys', recover_loop fuel (id, RBefore ks) lx st = (Ok (true, lx'), st) /\ Inv lx' ys'
        /\ c_filter lx' = c_filter lx /\ c_rec lx' = c_rec lx /\ kept (c_filter lx) ys' = x :: rest
    | None => exists lx', recover_loop fuel (id, RBefore ks) lx st = (Ok (false, lx'), st)
    end.
  Proof using Htab Ht.
    induction s as [|x r IH]; intros fuel lx ys st HI Hk Hf; (destruct fuel as [|f]; [cbn in Hf; lia|]); cbn [recover_loop find_first].
    - destruct (peek_nil m Htab t Ht lx ys HI Hk) as (lx' & ys' & E & _). rewrite E. exists lx'. reflexivity.
    - destruct (peek_cons m Htab t Ht lx ys x r HI Hk) as (lx1 & ys1 & E & HI1 & Hf1 & Hr1 & Hk1). rewrite E.
      cbn [rec_call snd]. destruct (in_kinds ks (e_tok x)) eqn:Ein.
      + exists lx1, ys1. repeat (split; [first [reflexivity|assumption]|]). assumption.
      + pose proof Hk1 as Hk1'. rewrite <- Hf1 in Hk1'.
        destruct (next_cons m Htab t Ht lx1 ys1 x r HI1 Hk1') as (lx2 & ys2 & E2 & HI2 & Hf2 & Hr2 & Hk2 & _).
        rewrite E2. cbn [length] in Hf.
        assert (Hk2' : kept (c_filter lx2) ys2 = r) by (rewrite Hf2; exact Hk2).
        specialize (IH f lx2 ys2 st HI2 Hk2' ltac:(lia)).
        destruct (find_first ks r) as [[[p y] q]|].
        * destruct IH as (lx' & ys' & E' & HI' & Hf' & Hr' & Hk'). exists lx', ys'.
          split; [exact E'|]. split; [exact HI'|]. split; [congruence|]. split; [congruence|].
          rewrite <- Hf1, <- Hf2. exact Hk'.
        * exact IH.
  Qed.

  (** recover-after, the flag not set at entry: stop in front of the token FOLLOWING the first
      token of the set; the flag is set and cleared again, the store ends as it started. If the
      first token of the set is the last deliverable token the search fails and the flag stays
      set (the recorded finding C12-recover-after-stale-flag starts here). *)
  Theorem recover_after_spec id ks : forall s fuel lx ys st, Inv lx ys -> kept (c_filter lx) ys = s -> length s < fuel ->
    is_found st id = false ->
    match find_first ks s with
    | Some (_, x, y :: rest) =>
      exists lx' ys', recover_loop fuel (id, RAfter ks) lx st = (Ok (true, lx'), st) /\ Inv lx' ys'
        /\ c_filter lx' = c_filter lx /\ c_rec lx' = c_rec lx /\ kept (c_filter lx) ys' = y :: rest
    | Some (_, x, []) => exists lx', recover_loop fuel (id, RAfter ks) lx st = (Ok (false, lx'), set_found st id)
    | None => exists lx', recover_loop fuel (id, RAfter ks) lx st = (Ok (false, lx'), st)
    end.
  Proof using Htab Ht.
    induction s as [|x r IH]; intros fuel lx ys st HI Hk Hf Hnf; (destruct fuel as [|f]; [cbn in Hf; lia|]); cbn [recover_loop find_first].
    - destruct (peek_nil m Htab t Ht lx ys HI Hk) as (lx' & ys' & E & _). rewrite E. exists lx'. reflexivity.
    - destruct (peek_cons m Htab t Ht lx ys x r HI Hk) as (lx1 & ys1 & E & HI1 & Hf1 & Hr1 & Hk1). rewrite E.
      cbn [rec_call snd fst]. rewrite Hnf.
      pose proof Hk1 as Hk1'. rewrite <- Hf1 in Hk1'.
      destruct (next_cons m Htab t Ht lx1 ys1 x r HI1 Hk1') as (lx2 & ys2 & E2 & HI2 & Hf2 & Hr2 & Hk2 & _).
      rewrite E2. cbn [length] in Hf.
      assert (Hk2' : kept (c_filter lx2) ys2 = r) by (rewrite Hf2; exact Hk2).
      destruct (in_kinds ks (e_tok x)) eqn:Ein.
      + (* the flag is now set: the very next look-ahead ends the search *)
        destruct r as [|y rest].
        * destruct f as [|f']; [cbn in Hf; lia|]. cbn [recover_loop].
          destruct (peek_nil m Htab t Ht lx2 ys2 HI2 Hk2') as (lx3 & ys3 & E3 & _). rewrite E3. exists lx3. reflexivity.
        * destruct f as [|f']; [cbn in Hf; lia|]. cbn [recover_loop].
          destruct (peek_cons m Htab t Ht lx2 ys2 y rest HI2 Hk2') as (lx3 & ys3 & E3 & HI3 & Hf3 & Hr3 & Hk3). rewrite E3.
          cbn [rec_call snd fst].
          assert (Hset : is_found (set_found st id) id = true).
          { unfold is_found, set_found. cbn [found existsb]. rewrite Nat.eqb_refl. reflexivity. }
          rewrite Hset. rewrite (clear_set_found st id Hnf).
          exists lx3, ys3. split; [reflexivity|]. split; [exact HI3|]. split; [congruence|]. split; [congruence|].
          rewrite <- Hf1, <- Hf2. exact Hk3.
      + specialize (IH f lx2 ys2 st HI2 Hk2' ltac:(lia) Hnf).
        destruct (find_first ks r) as [[[p y] q]|].
        * destruct q as [|z rest].
          -- exact IH.
          -- destruct IH as (lx' & ys' & E' & HI' & Hf' & Hr' & Hk'). exists lx', ys'.
             split; [exact E'|]. split; [exact HI'|]. split; [congruence|]. split; [congruence|].
             rewrite <- Hf1, <- Hf2. exact Hk'.
        * exact IH.
  Qed.

  (** the lexer the recovering combinators search from: the entry lexer with the strategy installed *)
  Lemma Inv_set_rec lx ys r : Inv lx ys -> Inv (set_rec lx r) ys.
  Proof. intros [A B C D E F]. apply Build_Inv; assumption. Qed.

  Lemma kept_length_fuel lx ys : Inv lx ys -> length (kept (c_filter lx) ys) < fuel_of lx.
  Proof using Htab Ht.
    intros HI. pose proof HI as [Hov Hb Hs _ _ _]. pose proof (stream_fuel m Htab t Ht lx ys Hov Hb Hs) as H.
    assert (Hle : forall (p : entry -> bool) l, length (filter p l) <= length l).
    { intros p l. induction l as [|y l IHl]; [cbn; lia|]. cbn [filter]. destruct (p y); cbn [length]; lia. }
    unfold kept. pose proof (Hle (fun y => negb (dropped (c_filter lx) (e_tok y))) ys). lia.
  Qed.

  (** recover_default / recover (and the delayed variants, which the library implements the same
      way), strategy recover-before, sink installed: when the wrapped parser fails, exactly one
      error (the parser's, transformed by the context) is appended to what the sink has received,
      the value is the placeholder, and the returned lexer's next token is the first token of the
      set at or beyond the point where the failed parser started - whatever that parser consumed
      or looked at, and whatever happened in earlier invocations; if there is no such token the
      result is the recovery error *)
  Theorem recover_default_before f id ks a lx ys c st e st1 : Inv lx ys ->
    run f a lx c st = (RErr e, st1) -> has_sink c = true ->
    let st2 := st_log st1 (log st1 ++ [apply_trail (trail c) e]) in
    match find_first ks (kept (c_filter lx) ys) with
    | Some (_, x, rest) =>
      exists lx' ys', run (S f) (GRecoverDef (id, RBefore ks) a) lx c st = (ROk VDflt lx', st2)
        /\ Inv lx' ys' /\ c_filter lx' = c_filter lx /\ c_rec lx' = Some (id, RBefore ks)
        /\ kept (c_filter lx) ys' = x :: rest
    | None => run (S f) (GRecoverDef (id, RBefore ks) a) lx c st = (RErr ERecover, st2)
    end.
  Proof using Htab Ht.
    intros HI Ha Hs st2. cbn [run]. rewrite Ha. unfold send_error. rewrite Hs.
    unfold advance_to_recover. cbn [set_rec c_rec].
    pose proof (Inv_set_rec lx ys (Some (id, RBefore ks)) HI) as HI0.
    pose proof (recover_before_spec id ks (kept (c_filter lx) ys) (fuel_of (set_rec lx (Some (id, RBefore ks))))
                  (set_rec lx (Some (id, RBefore ks))) ys st2 HI0 eq_refl (kept_length_fuel lx ys HI)) as H.
    fold st2. unfold rref in *. cbn [set_rec c_filter c_rec] in H. destruct (find_first ks (kept (c_filter lx) ys)) as [[[p x] rest]|].
    - destruct H as (lx' & ys' & E & HI' & Hf & Hr & Hk). rewrite E. exists lx', ys'.
      split; [reflexivity|]. split; [exact HI'|]. split; [exact Hf|]. split; [exact Hr|exact Hk].
    - destruct H as (lx' & E). rewrite E. reflexivity.
  Qed.

  (** the same with a recover-after strategy whose flag is clear when the scan starts: the lexer
      resumes in front of the token FOLLOWING the first token of the set, and the flag is clear
      again afterwards *)
  Theorem recover_default_after f id ks a lx ys c st e st1 : Inv lx ys ->
    run f a lx c st = (RErr e, st1) -> has_sink c = true -> is_found st1 id = false ->
    let st2 := st_log st1 (log st1 ++ [apply_trail (trail c) e]) in
    match find_first ks (kept (c_filter lx) ys) with
    | Some (_, x, y :: rest) =>
      exists lx' ys', run (S f) (GRecoverDef (id, RAfter ks) a) lx c st = (ROk VDflt lx', st2)
        /\ Inv lx' ys' /\ c_filter lx' = c_filter lx /\ kept (c_filter lx) ys' = y :: rest
    | Some (_, x, []) => run (S f) (GRecoverDef (id, RAfter ks) a) lx c st = (RErr ERecover, set_found st2 id)
    | None => run (S f) (GRecoverDef (id, RAfter ks) a) lx c st = (RErr ERecover, st2)
    end.
  Proof using Htab Ht.
    intros HI Ha Hs Hnf st2. cbn [run]. rewrite Ha. unfold send_error. rewrite Hs.
    unfold advance_to_recover. cbn [set_rec c_rec].
    pose proof (Inv_set_rec lx ys (Some (id, RAfter ks)) HI) as HI0.
    assert (Hnf2 : is_found st2 id = false) by exact Hnf.
    pose proof (recover_after_spec id ks (kept (c_filter lx) ys) (fuel_of (set_rec lx (Some (id, RAfter ks))))
                  (set_rec lx (Some (id, RAfter ks))) ys st2 HI0 eq_refl (kept_length_fuel lx ys HI) Hnf2) as H.
    fold st2. unfold rref in *. cbn [set_rec c_filter c_rec] in H.
    destruct (find_first ks (kept (c_filter lx) ys)) as [[[p x] [|y rest]]|].
    - destruct H as (lx' & E). rewrite E. reflexivity.
    - destruct H as (lx' & ys' & E & HI' & Hf & _ & Hk). rewrite E. exists lx', ys'.
      split; [reflexivity|]. split; [exact HI'|]. split; [exact Hf|exact Hk].
    - destruct H as (lx' & E). rewrite E. reflexivity.
  Qed.

  (** without a sink the parser's own error comes back and nothing else happens *)
  Theorem recover_default_no_sink f r a lx c st e st1 :
    run f a lx c st = (RErr e, st1) -> has_sink c = false ->
    run (S f) (GRecoverDef r a) lx c st = (RErr e, st1) /\ run (S f) (GRecover r a) lx c st = (RErr e, st1).
  Proof.
    intros Ha Hs. split; cbn [run]; rewrite Ha; cbn [some_of map_val]; unfold send_error; rewrite Hs; reflexivity.
  Qed.

  (** a success passes through untouched *)
  Theorem recover_default_ok f r a lx c st v lx' st1 :
    run f a lx c st = (ROk v lx', st1) ->
    run (S f) (GRecoverDef r a) lx c st = (ROk v lx', st1) /\ run (S f) (GRecover r a) lx c st = (ROk (VSome v) lx', st1).
  Proof. intros Ha. split; cbn [run]; rewrite Ha; reflexivity. Qed.

  (** the delayed variants are the same function *)
  Theorem delayed_same f r a lx c st :
    run (S f) (GRecoverDefDelayed r a) lx c st = run (S f) (GRecoverDef r a) lx c st
    /\ run (S f) (GRecoverDelayed r a) lx c st = run (S f) (GRecover r a) lx c st.
  Proof. split; reflexivity. Qed.
End Recover.
