(** Base: result type with explicit panics and fuel exhaustion, checked arithmetic,
    list helpers that Coq 8.16's standard library lacks. *)
From Coq Require Export List Arith Bool Lia.
Export ListNotations.

Inductive res (A : Type) : Type :=
| Ok (a : A)
| Panic          (* the Rust code panics: unwrap/expect/slice/overflow/assert *)
| Fuel.          (* the model ran out of fuel: never a normal answer *)
Arguments Ok {A} a.
Arguments Panic {A}.
Arguments Fuel {A}.

Definition bind {A B} (r : res A) (f : A -> res B) : res B :=
  match r with Ok a => f a | Panic => Panic | Fuel => Fuel end.

Notation "'do' x <- r ; k" := (bind r (fun x => k))
  (at level 200, x pattern, r at level 100, k at level 200, right associativity).

Definition rmap {A B} (f : A -> B) (r : res A) : res B :=
  match r with Ok a => Ok (f a) | Panic => Panic | Fuel => Fuel end.

(** Rust [a - b] on usize with overflow-checks = true (both profiles of the repo). *)
Definition sub_chk (a b : nat) : res nat :=
  if b <=? a then Ok (a - b) else Panic.

Lemma sub_chk_ok a b : b <= a -> sub_chk a b = Ok (a - b).
Proof. intros H. unfold sub_chk. destruct (Nat.leb_spec b a); [reflexivity|lia]. Qed.

Lemma sub_chk_panic a b : a < b -> sub_chk a b = Panic.
Proof. intros H. unfold sub_chk. destruct (Nat.leb_spec b a); [lia|reflexivity]. Qed.

Lemma skipn_skipn {A} (a b : nat) (l : list A) : skipn a (skipn b l) = skipn (b + a) l.
Proof.
  revert l; induction b as [|b IH]; intros l; cbn [skipn Nat.add]; [reflexivity|].
  destruct l as [|x l]; [destruct a; reflexivity|]. apply IH.
Qed.

Lemma nth_error_skipn {A} (i k : nat) (l : list A) :
  nth_error (skipn i l) k = nth_error l (i + k).
Proof.
  revert l; induction i as [|i IH]; intros l; cbn [skipn Nat.add]; [reflexivity|].
  destruct l as [|x l]; [destruct k; reflexivity|]. cbn [nth_error]. apply IH.
Qed.

Lemma firstn_snoc_nth {A} (k : nat) (l : list A) (x : A) :
  nth_error l k = Some x -> firstn (S k) l = firstn k l ++ [x].
Proof.
  revert l; induction k as [|k IH]; intros [|y l] H; cbn in H; try discriminate.
  - inversion H; reflexivity.
  - cbn [firstn app]. f_equal. apply (IH l H).
Qed.

Lemma skipn_cons_nth {A} (k : nat) (l : list A) (x : A) :
  nth_error l k = Some x -> skipn k l = x :: skipn (S k) l.
Proof.
  revert l; induction k as [|k IH]; intros [|y l] H; cbn in H; try discriminate.
  - inversion H; reflexivity.
  - cbn [skipn]. apply (IH l H).
Qed.
