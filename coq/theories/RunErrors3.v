(** C13, the two remaining leaves: end_of_text and seq_count.
    end_of_text names the first deliverable token with exactly its span, reports "unrecognised"
    exactly when nothing is deliverable and the scan stops at a rejected character, and succeeds
    exactly when nothing is deliverable and the scan ends cleanly. seq_count never names a token:
    its only error is "unrecognised", and only on a scan that does not end cleanly. *)
From Tephra Require Import MetricsSpec MetricsFacts CLexer LexerFacts LexerFin Run Peg PegRep RunCore RunErrors RunPeg.

Section Errors3.
  Variable m : metrics.
  Hypothesis Htab : 1 <= tabw m.
  Variable t : text.
  Hypothesis Ht : wf_text t.
  Local Notation Inv := (Inv m t).
  Local Notation clean := (clean t).

  Theorem eot_error f lx ys c st x s : Inv lx ys -> kept (c_filter lx) ys = x :: s ->
    run (S f) GEot lx c st =
      (RErr (EUnexpected (c_parse_span lx) (mkspan (e_start x) (e_end x)) ExEot (Some (e_tok x))), st)
    /\ byte (send (c_parse_span lx)) <= byte (e_start x).
  Proof using Htab Ht.
    intros HI Hk.
    destruct (peek_cons_buf m Htab t Ht lx ys x s HI Hk) as (lx' & ys' & E & HI' & Hb & Hf & Hk').
    rewrite <- Hf in Hk'.
    destruct (next_cons m Htab t Ht lx' ys' x s HI' Hk') as (_ & _ & _ & _ & _ & _ & _ & _ & _ & _ & _ & C).
    split; [|apply (parse_span_before m Htab t Ht lx ys x HI); rewrite Hk; left; reflexivity].
    cbn [run]. rewrite (not_at_end2 m Htab t Ht lx ys x s HI Hk), (only_filtered_spec m Htab t Ht lx ys HI), Hk. cbn [lift].
    rewrite E. cbn [lift]. rewrite (peeked_span_of m Htab lx' x Hb C). reflexivity.
  Qed.

  Theorem eot_at_end f lx ys c st : Inv lx ys -> kept (c_filter lx) ys = [] ->
    run (S f) GEot lx c st = if clean lx ys then (ROk VUnit lx, st) else (RErr (EUnrecognized (c_parse_span lx)), st).
  Proof using Htab Ht.
    intros HI Hk. cbn [run]. destruct (c_at_end lx) eqn:Eend.
    - destruct (at_end_nothing m Htab t Ht lx ys HI Eend) as [_ ->]. reflexivity.
    - rewrite (only_filtered_spec m Htab t Ht lx ys HI), Hk. cbn [lift]. destruct (clean lx ys); [reflexivity|].
      destruct (peek_nil m Htab t Ht lx ys HI Hk) as (l1 & ys1 & E & _). rewrite E. reflexivity.
  Qed.

  (** whatever the lexer: an error of seq_count is "unrecognised" with the parse span at entry *)
  Lemma seqc_error_shape es st : forall ks cnt l e st',
    (fix go (ks : list kind) (cnt : nat) (l : clexer) : R :=
       match ks with
       | [] => (ROk (VNat cnt) l, st)
       | k :: r =>
         if c_at_end l then (ROk (VNat cnt) l, st)
         else
           lift (c_peek l) st (fun '(o, l') =>
           match o with
           | Some t => if tok_eqb t (tk0 k)
                       then lift (c_next l') st (fun '(_, l'') => go r (S cnt) l'')
                       else (ROk (VNat cnt) l', st)
           | None =>
             lift (only_filtered_remain l') st (fun b =>
             if b then (ROk (VNat cnt) l', st) else (RErr (EUnrecognized es), st))
           end)
       end) ks cnt l = (RErr e, st') -> e = EUnrecognized es.
  Proof.
    induction ks as [|k r IH]; intros cnt l e st' H; [discriminate H|].
    destruct (c_at_end l); [discriminate H|].
    destruct (c_peek l) as [[[tk|] l']| |]; cbn [lift] in H; try discriminate H.
    - destruct (tok_eqb tk (tk0 k)); [|discriminate H].
      destruct (c_next l') as [[o l'']| |]; cbn [lift] in H; try discriminate H. exact (IH _ _ _ _ H).
    - destruct (only_filtered_remain l') as [b| |]; cbn [lift] in H; try discriminate H.
      destruct b; [discriminate H|]. injection H as <- _. reflexivity.
  Qed.

  Lemma pseqc_fail cl : forall ks cnt s, pseqc cl ks cnt s = PFail -> cl = false.
  Proof.
    induction ks as [|k r IH]; intros cnt s H; cbn [pseqc] in H; [discriminate H|].
    destruct s as [|x s0].
    - destruct cl; [discriminate H|reflexivity].
    - destruct (tok_eqb (e_tok x) (tk0 k)); [exact (IH _ _ H)|discriminate H].
  Qed.

  Theorem seq_count_error f ks lx ys c st e st' : Inv lx ys ->
    run (S f) (GSeqCount ks) lx c st = (RErr e, st') ->
    e = EUnrecognized (c_parse_span lx) /\ clean lx ys = false /\ st' = st.
  Proof using Htab Ht.
    intros HI H. split; [cbn [run] in H; exact (seqc_error_shape _ _ _ _ _ _ _ H)|].
    destruct (run_peg2 m Htab t Ht (S f) (GSeqCount ks) c (clean lx ys) lx ys st _ HI eq_refl eq_refl) as [H1|H1].
    - rewrite H in H1. discriminate H1.
    - destruct (pseqc (clean lx ys) ks 0 (kept (c_filter lx) ys)) as [v s'|] eqn:Ep.
      + destruct H1 as (lx' & ys' & E & _). rewrite H in E. discriminate E.
      + destruct H1 as (e0 & E). rewrite H in E. injection E as _ ->. split; [exact (pseqc_fail _ _ _ _ Ep)|reflexivity].
  Qed.
End Errors3.
