(** The specification the combinators are measured against (C06): ordered choice, sequence,
    option and the primitives, read as a PEG over the list of tokens the lexer will deliver
    (the entries of the sequential scan that its filter keeps).

    This file is the spec: it mentions no lexer, no look-ahead buffer, no context, no store and
    no fuel. [peg g s] is [None] for combinators outside the fragment it covers. *)
From Tephra Require Import LexerFacts Grammar.

Inductive pres := POk (v : val) (s : list entry) | PFail.

(** consume one deliverable token if [p] accepts it *)
Definition p_tok (p : tok -> option val) (s : list entry) : pres :=
  match s with
  | x :: r => match p (e_tok x) with Some v => POk v r | None => PFail end
  | [] => PFail
  end.

Definition pbind (r : option pres) (k : val -> list entry -> option pres) : option pres :=
  match r with
  | Some (POk v s) => k v s
  | Some PFail => Some PFail
  | None => None
  end.

Definition pmap (f : val -> val) (r : option pres) : option pres :=
  pbind r (fun v s => Some (POk (f v) s)).

(** [e?]: never fails, consumes nothing when [e] fails *)
Definition pmaybe (r : option pres) (s : list entry) : option pres :=
  match r with
  | Some (POk v s') => Some (POk (VSome v) s')
  | Some PFail => Some (POk VNone s)
  | None => None
  end.

Definition any_of (ks : list kind) (mk : nat -> val) (t : tok) : option val :=
  option_map mk (position (fun k => tok_eqb t (tk0 k)) ks).

(** sequence of single tokens, collected *)
Fixpoint pseq (ks : list kind) (acc : list val) (s : list entry) : pres :=
  match ks with
  | [] => POk (VList acc) s
  | k :: r =>
    match s with
    | x :: s' => if tok_eqb (e_tok x) (tk0 k) then pseq r (acc ++ [VTok (e_tok x)]) s' else PFail
    | [] => PFail
    end
  end.

Fixpoint peg (g : G) (s : list entry) : option pres :=
  match g with
  | GEmpty => Some (POk VUnit s)
  | GOne k => Some (p_tok (fun t => if tok_eqb t (tk0 k) then Some (VTok t) else None) s)
  | GAny (k :: ks) => Some (p_tok (any_of (k :: ks) (fun i => VTok (tk0 (nth i (k :: ks) KA)))) s)
  | GAnyIndex (k :: ks) => Some (p_tok (any_of (k :: ks) VNat) s)
  | GPred p => Some (p_tok (fun t => if peval p t then Some (VTok t) else None) s)
  | GSeq ks => Some (pseq ks [] s)
  | GUserFail => Some PFail
  (* sequence *)
  | GBoth a b => pbind (peg a s) (fun l s1 => pmap (fun r => VPair l r) (peg b s1))
  | GLeft a b => pbind (peg a s) (fun l s1 => pmap (fun _ => l) (peg b s1))
  | GRight a b => pbind (peg a s) (fun _ s1 => peg b s1)
  | GCenter a b d => pbind (peg a s) (fun _ s1 => pbind (peg b s1) (fun v s2 => pmap (fun _ => v) (peg d s2)))
  (* value adapters and wrappers that do not change what is recognised *)
  | GMap tag a => pmap (VTag tag) (peg a s)
  | GDiscard a => pmap (fun _ => VUnit) (peg a s)
  | GSomeOf a => pmap VSome (peg a s)
  | GSub a | GRaw a | GUnrec a | GCtxPush _ a => peg a s
  (* ordered choice and option *)
  | GEither a b =>
    match peg a s with
    | Some PFail => peg b s
    | r => r
    end
  | GMaybe a => pmaybe (peg a s) s
  | GRequireIf true a => pmap VSome (peg a s)
  | GRequireIf false a => pmaybe (peg a s) s
  | GCond true a => pmap VSome (peg a s)
  | GCond false a => Some (POk VNone s)
  | GImplies a b =>
    pbind (pmaybe (peg a s) s) (fun ante s1 =>
    match ante with
    | VSome l => pmap (fun r => VSome (VPair l r)) (peg b s1)
    | _ => Some (POk VNone s1)
    end)
  | GAntecedent a b =>
    pbind (pmaybe (peg a s) s) (fun ante s1 =>
    match ante with
    | VSome l => pmap (fun _ => VSome l) (peg b s1)
    | _ => Some (POk VNone s1)
    end)
  | GConsequent a b =>
    pbind (pmaybe (peg a s) s) (fun ante s1 =>
    match ante with
    | VSome _ => pmap VSome (peg b s1)
    | _ => Some (POk VNone s1)
    end)
  | GCondImplies a p b =>
    pbind (pmaybe (peg a s) s) (fun ante s1 =>
    match ante with
    | VSome l =>
      if vpeval p l then pmap (fun r => VSome (VPair l (VSome r))) (peg b s1)
      else Some (POk (VSome (VPair l VNone)) s1)
    | _ => Some (POk VNone s1)
    end)
  | _ => None
  end.

(** how much fuel the interpreter needs on a grammar of the fragment: its nesting depth *)
Fixpoint gdepth (g : G) : nat :=
  match g with
  | GBoth a b | GLeft a b | GRight a b | GEither a b => S (Nat.max (gdepth a) (gdepth b))
  | GCenter a b d => S (Nat.max (gdepth a) (Nat.max (gdepth b) (gdepth d)))
  | GMap _ a | GDiscard a | GSomeOf a | GSub a | GRaw a | GUnrec a | GCtxPush _ a | GMaybe a | GCond _ a => S (gdepth a)
  | GRequireIf _ a => S (S (gdepth a))
  | GImplies a b | GAntecedent a b | GConsequent a b | GCondImplies a _ b => S (Nat.max (S (gdepth a)) (gdepth b))
  | _ => 0
  end.
