(** C02: repetitions of non-nullable bodies terminate. The loops of repeat.rs are run on a fuel
    [n]; they answer RFuel only when it runs out. If every successful step strictly decreases a
    measure of the lexer, fuel above the measure suffices - for ARBITRARY steps. For items of the
    C06 core fragment that consume at least one token whenever they succeed the measure is the
    number of deliverable tokens, so fuel above the nesting depth and the number of deliverable
    tokens suffices. *)
From Tephra Require Import MetricsSpec MetricsFacts CLexer LexerFacts Run Peg RunCore RunLoops RunLoopsPeg.

Section Measure.
  (** [P l j]: the lexer [l] has measure at most [j] *)
  Variable P : clexer -> nat -> Prop.
  Variable step : clexer -> store -> R.
  Hypothesis P_mono : forall l j j', P l j -> j <= j' -> P l j'.
  (** a successful step strictly decreases the measure; a step never runs out of fuel *)
  Hypothesis step_dec : forall l j s, P l j ->
    match step l s with
    | (ROk _ l', _) => exists j', j = S j' /\ P l' j'
    | (RFuel, _) => False
    | _ => True
    end.

  Lemma opt_loop_fuel : forall n hi vals cur st k, P cur k -> k < n ->
    fst (opt_loop n hi None step vals cur st) <> RFuel.
  Proof using P_mono step_dec.
    induction n as [|n IH]; intros hi vals cur st k HP Hk; [lia|]. cbn [opt_loop].
    destruct (lt_opt (length vals) hi); [|discriminate].
    pose proof (step_dec cur k st HP) as Hs. destruct (step cur st) as [[v l'|e| |] st']; try discriminate; [|contradiction].
    destruct Hs as (j' & -> & HP'). cbn zeta. destruct (ge_opt _ hi); [discriminate|]. apply (IH hi _ l' st' j' HP'). lia.
  Qed.

  Lemma mand_loop_fuel : forall n lo vals cur st k (kont : list val -> clexer -> store -> R), P cur k -> k < n ->
    (forall vs l s j, P l j -> j <= k -> fst (kont vs l s) <> RFuel) ->
    fst (mand_loop n lo None step vals cur st kont) <> RFuel.
  Proof using P_mono step_dec.
    induction n as [|n IH]; intros lo vals cur st k kont HP Hk Hkont; [lia|]. cbn [mand_loop].
    destruct (length vals <? lo); [|exact (Hkont vals cur st k HP (le_n _))].
    pose proof (step_dec cur k st HP) as Hs. destruct (step cur st) as [[v l'|e| |] st']; try discriminate; [|contradiction].
    destruct Hs as (j' & -> & HP'). apply (IH lo _ l' st' j' kont HP'); [lia|].
    intros vs l s j Hj Hle. apply (Hkont vs l s j Hj). lia.
  Qed.
End Measure.

(** a successful PEG match never lengthens what remains *)
Lemma pseq_len : forall ks acc s v s', pseq ks acc s = POk v s' -> length s' <= length s.
Proof.
  induction ks as [|k r IH]; intros acc s v s' H; cbn [pseq] in H; [injection H as _ <-; lia|].
  destruct s as [|x s0]; [discriminate|]. destruct (tok_eqb (e_tok x) (tk0 k)); [|discriminate].
  apply IH in H. cbn [length]. lia.
Qed.

Lemma p_tok_len p s v s' : p_tok p s = POk v s' -> length s' < length s.
Proof. unfold p_tok. destruct s as [|x r]; [discriminate|]. destruct (p (e_tok x)); [|discriminate]. intros H. injection H as _ <-. cbn. lia. Qed.

Lemma peg_len : forall g s v s', peg g s = Some (POk v s') -> length s' <= length s.
Proof.
  induction g; intros s v s' H; cbn [peg] in H; try discriminate H.
  - (* empty *) injection H as _ <-. lia.
  - (* one *) injection H as H. apply p_tok_len in H. lia.
  - (* any *) destruct ks as [|k0 ks]; [discriminate|]. injection H as H. apply p_tok_len in H. lia.
  - (* any_index *) destruct ks as [|k0 ks]; [discriminate|]. injection H as H. apply p_tok_len in H. lia.
  - (* seq *) injection H as H. apply pseq_len in H. exact H.
  - (* pred *) injection H as H. apply p_tok_len in H. lia.
  - (* left *) destruct (peg g1 s) as [[l s1|]|] eqn:E1; cbn [pbind] in H; try discriminate.
    unfold pmap in H. destruct (peg g2 s1) as [[r s2|]|] eqn:E2; cbn [pbind] in H; try discriminate. injection H as _ <-.
    apply IHg1 in E1. apply IHg2 in E2. lia.
  - (* right *) destruct (peg g1 s) as [[l s1|]|] eqn:E1; cbn [pbind] in H; try discriminate.
    apply IHg1 in E1. apply IHg2 in H. lia.
  - (* both *) destruct (peg g1 s) as [[l s1|]|] eqn:E1; cbn [pbind] in H; try discriminate.
    unfold pmap in H. destruct (peg g2 s1) as [[r s2|]|] eqn:E2; cbn [pbind] in H; try discriminate. injection H as _ <-.
    apply IHg1 in E1. apply IHg2 in E2. lia.
  - (* center *) destruct (peg g1 s) as [[l s1|]|] eqn:E1; cbn [pbind] in H; try discriminate.
    destruct (peg g2 s1) as [[r s2|]|] eqn:E2; cbn [pbind] in H; try discriminate.
    unfold pmap in H. destruct (peg g3 s2) as [[d s3|]|] eqn:E3; cbn [pbind] in H; try discriminate. injection H as _ <-.
    apply IHg1 in E1. apply IHg2 in E2. apply IHg3 in E3. lia.
  - (* map *) unfold pmap in H. destruct (peg g s) as [[r s1|]|] eqn:E; cbn [pbind] in H; try discriminate. injection H as _ <-. exact (IHg _ _ _ E).
  - (* discard *) unfold pmap in H. destruct (peg g s) as [[r s1|]|] eqn:E; cbn [pbind] in H; try discriminate. injection H as _ <-. exact (IHg _ _ _ E).
  - (* sub *) exact (IHg _ _ _ H).
  - (* either *) destruct (peg g1 s) as [[l s1|]|] eqn:E1; try discriminate.
    + injection H as _ <-. exact (IHg1 _ _ _ E1).
    + exact (IHg2 _ _ _ H).
  - (* maybe *) unfold pmaybe in H. destruct (peg g s) as [[r s1|]|] eqn:E; try discriminate; injection H as _ <-; [exact (IHg _ _ _ E)|lia].
  - (* require_if *) destruct b.
    + unfold pmap in H. destruct (peg g s) as [[r s1|]|] eqn:E; cbn [pbind] in H; try discriminate. injection H as _ <-. exact (IHg _ _ _ E).
    + unfold pmaybe in H. destruct (peg g s) as [[r s1|]|] eqn:E; try discriminate; injection H as _ <-; [exact (IHg _ _ _ E)|lia].
  - (* cond *) destruct b.
    + unfold pmap in H. destruct (peg g s) as [[r s1|]|] eqn:E; cbn [pbind] in H; try discriminate. injection H as _ <-. exact (IHg _ _ _ E).
    + injection H as _ <-. lia.
  - (* implies *) unfold pmaybe in H. destruct (peg g1 s) as [[l s1|]|] eqn:E1; cbn [pbind] in H; try discriminate.
    + unfold pmap in H. destruct (peg g2 s1) as [[r s2|]|] eqn:E2; cbn [pbind] in H; try discriminate. injection H as _ <-.
      apply IHg1 in E1. apply IHg2 in E2. lia.
    + injection H as _ <-. lia.
  - (* antecedent *) unfold pmaybe in H. destruct (peg g1 s) as [[l s1|]|] eqn:E1; cbn [pbind] in H; try discriminate.
    + unfold pmap in H. destruct (peg g2 s1) as [[r s2|]|] eqn:E2; cbn [pbind] in H; try discriminate. injection H as _ <-.
      apply IHg1 in E1. apply IHg2 in E2. lia.
    + injection H as _ <-. lia.
  - (* consequent *) unfold pmaybe in H. destruct (peg g1 s) as [[l s1|]|] eqn:E1; cbn [pbind] in H; try discriminate.
    + unfold pmap in H. destruct (peg g2 s1) as [[r s2|]|] eqn:E2; cbn [pbind] in H; try discriminate. injection H as _ <-.
      apply IHg1 in E1. apply IHg2 in E2. lia.
    + injection H as _ <-. lia.
  - (* cond_implies *) unfold pmaybe in H. destruct (peg g1 s) as [[l s1|]|] eqn:E1; cbn [pbind] in H; try discriminate.
    + apply IHg1 in E1. destruct (vpeval p l).
      * unfold pmap in H. destruct (peg g2 s1) as [[r s2|]|] eqn:E2; cbn [pbind] in H; try discriminate. injection H as _ <-.
        apply IHg2 in E2. lia.
      * injection H as _ <-. lia.
    + injection H as _ <-. lia.
  - (* raw *) exact (IHg _ _ _ H).
  - (* unrecoverable *) exact (IHg _ _ _ H).
  - (* context push *) exact (IHg _ _ _ H).
  - (* some_of *) unfold pmap in H. destruct (peg g s) as [[r s1|]|] eqn:E; cbn [pbind] in H; try discriminate. injection H as _ <-. exact (IHg _ _ _ E).
Qed.

(** an item parser that consumes at least one token whenever it succeeds *)
Definition nonnull (a : G) : Prop := forall s v s', peg a s = Some (POk v s') -> length s' < length s.

Section Fuel.
  Variable m : metrics.
  Hypothesis Htab : 1 <= tabw m.
  Variable t : text.
  Hypothesis Ht : wf_text t.
  Local Notation Inv := (Inv m t).

  (** the measure: at most [j] deliverable tokens under filter [fl] *)
  Definition at_most (fl : option fspec) (l : clexer) (j : nat) : Prop :=
    exists ys, Inv l ys /\ c_filter l = fl /\ length (kept fl ys) <= j.

  Theorem intersperse_terminates f lo hi a s lx ys c st :
    in_core a = true -> in_core s = true -> nonnull a -> gdepth a < f -> gdepth s < f -> Inv lx ys ->
    length (kept (c_filter lx) ys) <= f ->
    fst (run (S f) (GIntersperse lo hi a s) lx c st) <> RFuel.
  Proof using Htab Ht.
    intros Ha Hs Hnn Hda Hds HI Hlen.
    assert (Hd : gdepth (GRight s a) < S f) by (cbn [gdepth]; lia).
    assert (Hc : in_core (GRight s a) = true) by (cbn [in_core]; rewrite Hs, Ha; reflexivity).
    set (fl := c_filter lx).
    assert (Hstep : forall l j s0, at_most fl l j ->
              match right_of (run f) s a c l s0 with
              | (ROk _ l', _) => exists j', j = S j' /\ at_most fl l' j'
              | (RFuel, _) => False
              | _ => True
              end).
    { intros l j s0 (yl & HIl & Hfl & Hj). rewrite right_of_is_right.
      destruct (core_total m Htab t Ht (S f) (GRight s a) Hc Hd l yl c s0 HIl) as [(v & l' & E)|(e & E)]; rewrite E; [|exact I].
      destruct (run_ok_peg m Htab t Ht (S f) (GRight s a) l yl c s0 v l' s0 Hc Hd HIl E) as (yl' & Hp & HIl' & Hfl' & _).
      cbn [peg] in Hp. destruct (peg s (kept (c_filter l) yl)) as [[v1 s1|]|] eqn:Es; cbn [pbind] in Hp; try discriminate.
      pose proof (peg_len s _ _ _ Es) as L1. pose proof (Hnn _ _ _ Hp) as L2. rewrite Hfl in *.
      destruct j as [|j']; [lia|]. exists j'. split; [reflexivity|]. exists yl'. split; [exact HIl'|]. split; [congruence|]. lia. }
    assert (Hmono : forall l j j', at_most fl l j -> j <= j' -> at_most fl l j').
    { intros l j j' (yl & A & B & C) Hle. exists yl. split; [exact A|]. split; [exact B|lia]. }
    cbn [run]. unfold run_intersperse. destruct (hi_check lo hi lx st) as [r|] eqn:Eh.
    { unfold hi_check in Eh. destruct hi as [h|]; [|discriminate]. destruct (h <? lo); [injection Eh as <-; discriminate|].
      destruct (h =? 0); [injection Eh as <-; discriminate|discriminate]. }
    destruct (core_total m Htab t Ht f a Ha Hda lx ys c st HI) as [(v1 & lx1 & E)|(e & E)]; rewrite E.
    2:{ destruct (lo =? 0); discriminate. }
    destruct (run_ok_peg m Htab t Ht f a lx ys c st v1 lx1 st Ha Hda HI E) as (ys1 & Hp & HI1 & Hf1 & _).
    pose proof (Hnn _ _ _ Hp) as L.
    assert (HP1 : at_most fl lx1 (length (kept fl ys1))) by (exists ys1; split; [exact HI1|]; split; [exact Hf1|lia]).
    apply (mand_loop_fuel (at_most fl) (right_of (run f) s a c) Hmono Hstep f lo [v1] lx1 st (length (kept fl ys1))); [exact HP1|unfold fl in *; lia|].
    intros vs l s0 j Hj Hle. apply (opt_loop_fuel (at_most fl) (right_of (run f) s a c) Hmono Hstep f hi vs l s0 j Hj). unfold fl in *. lia.
  Qed.
End Fuel.

(** [nonnull] is satisfiable: token leaves, and sequences that start with a non-nullable parser *)
Lemma nonnull_one k : nonnull (GOne k).
Proof. intros s v s' H. cbn [peg] in H. injection H as H. exact (p_tok_len _ _ _ _ H). Qed.

Lemma nonnull_both a b : nonnull a -> nonnull (GBoth a b).
Proof.
  intros Ha s v s' H. cbn [peg] in H. destruct (peg a s) as [[l s1|]|] eqn:E1; cbn [pbind] in H; try discriminate.
  unfold pmap in H. destruct (peg b s1) as [[r s2|]|] eqn:E2; cbn [pbind] in H; try discriminate. injection H as _ <-.
  pose proof (Ha _ _ _ E1). pose proof (peg_len b _ _ _ E2). lia.
Qed.
