(** Model of the plain (colour-less) rendering of tephra-error: display.rs CodeDisplay::write,
    SpanDisplay::new / write, MultiSplitLines, write_gutter; highlight.rs riser state machine
    and message rows; message.rs; Display of Span/PageSpan/ByteSpan (span.rs, position.rs).
    Output is a list of cells; the driver turns them into bytes. The coloured rendering is
    not modelled: the harness checks that it equals the plain one once escapes are stripped. *)
From Coq Require Export String.
From Tephra Require Export Source.
Open Scope string_scope.
Open Scope nat_scope.
Open Scope list_scope.

Inductive mtype := MInfo | MError | MWarning | MNote | MHelp.

Inductive ocell :=
| OS (s : string)            (* literal ASCII *)
| ONat (n : nat)             (* decimal number *)
| ONatR (w n : nat)          (* decimal number right-aligned in width w: {:>w$} *)
| ORep (s : string) (n : nat)(* s repeated n times *)
| OSrc (t : text)            (* source characters, verbatim *)
| OMsg (n : nat)             (* the display's message "msg<n>" *)
| OHl (n : nat)              (* a highlight's message "m<n>" *)
| ONl.

(** highlight.rs: start_message is always None, end_message always Some through the public API *)
Record highlight := mkhl { h_span : span; h_msg : nat; h_ty : mtype }.
Record span_display := mksd { sd_named : bool; sd_span : span; sd_hls : list highlight; sd_gw : nat }.
Record code_display := mkcd { cd_msg : nat; cd_ty : mtype; cd_code : bool; cd_sds : list span_display }.

(** message.rs *)
Definition mtype_name (t : mtype) : string :=
  match t with MInfo => "info" | MError => "error" | MWarning => "warning" | MNote => "note" | MHelp => "help" end.
Definition underline_of (t : mtype) : string :=
  match t with MError | MWarning => "^" | MInfo | MNote => "-" | MHelp => "~" end.

(** position.rs / span.rs Display *)
Definition page_cells (p : pos) : list ocell := [ONat (line p); OS ":"; ONat (col p)].
Definition span_cells (s : span) : list ocell :=
  let a := sstart s in let b := send s in
  (if (line a =? line b) && (col a =? col b) then page_cells a
   else page_cells a ++ [OS "-"] ++ page_cells b)
  ++ (if byte a =? byte b then [OS ", byte "; ONat (byte a)]
      else [OS ", bytes "; ONat (byte a); OS "-"; ONat (byte b)]).

(** display.rs SpanDisplay::new: the number of decimal digits of the end line, at least 1 *)
Fixpoint pow10 (k : nat) : nat := match k with 0 => 1 | S k' => 10 * pow10 k' end.
Fixpoint digits_aux (fuel k n : nat) : nat :=
  match fuel with
  | 0 => k
  | S f => if n <? pow10 k then k else digits_aux f (S k) n
  end.
(** [n.to_string().len()] *)
Definition digits (n : nat) : nat := if n =? 0 then 1 else digits_aux 20 1 n.
Definition gutter_width (end_line : nat) : nat := Nat.max (digits end_line) 1.

Definition sd_new (src : source) (sp : span) (named : bool) (hls : list highlight) : res span_display :=
  do w <- widen_to_line sp src;
  Ok (mksd named w hls (gutter_width (line (send sp)))).

(** display.rs write_gutter (plain): [{:>width$} | ] *)
Definition gutter_num (w n : nat) : list ocell := [ONatR w n; OS " | "].
Definition gutter_empty (w : nat) : list ocell := [ORep " " w; OS " | "].

(** highlight.rs *)
Definition is_multiline (h : highlight) : bool :=
  negb (line (sstart (h_span h)) =? line (send (h_span h))).
Definition has_message_for_line (h : highlight) (l : nat) : bool :=
  ((line (sstart (h_span h)) =? l) && negb (col (sstart (h_span h)) =? 0))
  || (line (send (h_span h)) =? l).

Inductive rstate := RUnused | RWaiting | RStarted | REnded.

(** highlight.rs write_riser_for_line *)
Definition riser (h : highlight) (l : nat) (st : rstate) (active : bool) : list ocell * rstate :=
  let ls := line (sstart (h_span h)) in let le_ := line (send (h_span h)) in
  match st with
  | RUnused => ([], RUnused)
  | REnded => ([OS " "], REnded)
  | RWaiting =>
    if l <? ls then ([OS " "], RWaiting)
    else if negb active && (col (sstart (h_span h)) =? 0) then ([OS "/"], RStarted)
    else ([OS " "], if active then RStarted else RWaiting)
  | RStarted => ([OS "|"], if active && (le_ <=? l) then REnded else RStarted)
  end.

(** all highlights' risers on one row; [act] is the index of the active one, if any *)
Fixpoint risers (hls : list highlight) (sts : list rstate) (l : nat) (act : option nat) (idx : nat)
  : list ocell * list rstate :=
  match hls, sts with
  | h :: hr, s :: sr =>
    let (c, s') := riser h l s (match act with Some a => a =? idx | None => false end) in
    let (cr, sr') := risers hr sr l act (S idx) in
    (c ++ cr, s' :: sr')
  | _, _ => ([], sts)
  end.

(** highlight.rs write_message_for_line *)
Definition message_row (h : highlight) (l : nat) (extra : bool) : list ocell :=
  let a := sstart (h_span h) in let b := send (h_span h) in
  if (line a =? l) && (line b =? l) then
    (if extra then [OS " "] else [])
    ++ [ORep " " (col a)]
    ++ (if byte a =? byte b then [OS "\"]
        else [ORep (underline_of (h_ty h)) (Nat.max (col b - col a) 1)])
    ++ [OS " "; OHl (h_msg h); ONl]
  else if line a =? l then
    (if extra then [OS "_"] else [])
    ++ [ORep "_" (col a)]
    ++ [OS "^"; ONl]
  else if line b =? l then
    (if extra then [OS "_"] else [])
    ++ (if 0 <? col b then [ORep "_" (col b - 1)] else [])
    ++ [OS "^"; OS " "; OHl (h_msg h); ONl]
  else [].

(** the message rows below one source line *)
Fixpoint message_rows (hls all : list highlight) (sts : list rstate) (l gw : nat) (extra : bool) (idx : nat)
  : list ocell * list rstate :=
  match hls with
  | [] => ([], sts)
  | h :: hr =>
    if has_message_for_line h l then
      let (rc, sts') := risers all sts l (Some idx) 0 in
      let (rest, sts'') := message_rows hr all sts' l gw extra (S idx) in
      (gutter_empty gw ++ rc ++ message_row h l extra ++ rest, sts'')
    else message_rows hr all sts l gw extra (S idx)
  end.

(** display.rs MultiSplitLines::write: one source row per line piece, then its message rows *)
Fixpoint line_rows (src : source) (pieces : list span) (hls : list highlight) (sts : list rstate) (gw : nat)
  : res (list ocell) :=
  match pieces with
  | [] => Ok []
  | sp :: rest =>
    let l := line (sstart sp) in
    let (rc, sts1) := risers hls sts l None 0 in
    let multi := existsb is_multiline hls in
    do w <- clipped src sp;
    let (mr, sts2) := message_rows hls hls sts1 l gw multi 0 in
    do more <- line_rows src rest hls sts2 gw;
    Ok (gutter_num gw l ++ rc ++ (if multi then [OS " "] else []) ++ [OSrc (stext w); ONl] ++ mr ++ more)
  end.

(** display.rs SpanDisplay::write (plain) *)
Definition sd_render (src : source) (sd : span_display) : res (list ocell) :=
  do pieces <- sl_collect (S (S (length (stext src)))) (split_lines_of (sd_span sd) src);
  do body <- line_rows src pieces (sd_hls sd)
               (map (fun h => if is_multiline h then RWaiting else RUnused) (sd_hls sd)) (sd_gw sd);
  Ok ([ORep " " (sd_gw sd); OS "--> "]
      ++ (if sd_named sd then [OS "src.txt:"] else [])
      ++ [OS "("] ++ span_cells (sd_span sd) ++ [OS ")"; ONl]
      ++ gutter_empty (sd_gw sd) ++ [ONl] ++ body).

(** display.rs CodeDisplay::write (plain) *)
Fixpoint sds_render (src : source) (sds : list span_display) : res (list ocell) :=
  match sds with
  | [] => Ok []
  | sd :: r => do a <- sd_render src sd; do b <- sds_render src r; Ok (a ++ b)
  end.

Definition cd_render (src : source) (cd : code_display) : res (list ocell) :=
  do body <- sds_render src (cd_sds cd);
  Ok ([OS (mtype_name (cd_ty cd))] ++ (if cd_code cd then [OS "[E01]"] else []) ++ [OS ": "; OMsg (cd_msg cd); ONl] ++ body).
