(** Model of tephra/src/lexer.rs: the concrete lexer — scanner state, one-token look-ahead
    buffer (with the scanner state after it), parse/token/cursor positions, filter.
    [filter_eager] is always true (no public setter). Loops run on fuel = characters left + 1
    (every scan consumes at least one character). *)
From Tephra Require Export Scanner.

Record sbuf := mkbuf { pk_sc : smode; pk_start : pos; pk_cursor : pos; pk_tok : tok }.

Record clexer := mklex {
  c_text : text; c_met : metrics; c_sc : smode;
  c_filter : option fspec; c_rec : option rref; c_buf : option sbuf;
  c_ps : pos; c_ts : pos; c_cur : pos }.

Definition c_new (sc : smode) (t : text) : clexer :=
  mklex t (Build_metrics LE_Lf 4) sc None None None pos_zero pos_zero pos_zero.

Definition set_met (lx : clexer) (m : metrics) : clexer :=
  mklex (c_text lx) m (c_sc lx) (c_filter lx) (c_rec lx) (c_buf lx) (c_ps lx) (c_ts lx) (c_cur lx).
Definition set_buf (lx : clexer) (b : option sbuf) : clexer :=
  mklex (c_text lx) (c_met lx) (c_sc lx) (c_filter lx) (c_rec lx) b (c_ps lx) (c_ts lx) (c_cur lx).
Definition set_flt (lx : clexer) (f : option fspec) : clexer :=
  mklex (c_text lx) (c_met lx) (c_sc lx) f (c_rec lx) (c_buf lx) (c_ps lx) (c_ts lx) (c_cur lx).
Definition set_rec (lx : clexer) (r : option rref) : clexer :=
  mklex (c_text lx) (c_met lx) (c_sc lx) (c_filter lx) r (c_buf lx) (c_ps lx) (c_ts lx) (c_cur lx).

(** lexer.rs remeasure_positions (added by the repair): every position the lexer holds is
    recomputed from its byte offset, [metrics.end_position(&text[..byte], Pos::ZERO)] *)
Definition remeasure (m : metrics) (t : text) (p : pos) : res pos :=
  match split_at t (byte p) with
  | None => Panic
  | Some (pre, _) => end_position m pre pos_zero
  end.

Definition set_met_remeasure (lx : clexer) (m : metrics) : res clexer :=
  let t := c_text lx in
  do ps <- remeasure m t (c_ps lx);
  do ts <- remeasure m t (c_ts lx);
  do cur <- remeasure m t (c_cur lx);
  do b <- match c_buf lx with
          | None => Ok None
          | Some b => do s <- remeasure m t (pk_start b);
                      do e <- remeasure m t (pk_cursor b);
                      Ok (Some (mkbuf (pk_sc b) s e (pk_tok b)))
          end;
  Ok (mklex t m (c_sc lx) (c_filter lx) (c_rec lx) b ps ts cur).

(** lexer.rs with_column_metrics / with_line_ending / with_tab_width *)
Definition c_with_metrics (lx : clexer) (m : metrics) : res clexer := set_met_remeasure lx m.
Definition c_with_le (lx : clexer) (l : le_kind) : res clexer :=
  set_met_remeasure lx (Build_metrics l (tabw (c_met lx))).
Definition c_with_tab (lx : clexer) (n : nat) : res clexer :=
  set_met_remeasure lx (Build_metrics (le (c_met lx)) n).

Definition filtered_out (lx : clexer) (tk : tok) : bool :=
  match c_filter lx with None => false | Some f => negb (fkeep f tk) end.

Definition fuel_of (lx : clexer) : nat := S (length (c_text lx)).

(** lexer.rs:239-268 buffer_next: the loop; [psc]/[pcur] are the local peek scanner/cursor *)
Fixpoint buffer_loop (fuel : nat) (behind : bool) (lx : clexer) (psc : smode) (pcur : pos) : res clexer :=
  match fuel with
  | 0 => Fuel
  | S f =>
    do r <- scan psc (c_met lx) (c_text lx) pcur;
    match r with
    | None => Ok lx
    | Some (tk, adv, psc') =>
      if filtered_out lx tk then
        let lx' := if behind
                   then mklex (c_text lx) (c_met lx) psc' (c_filter lx) (c_rec lx) (c_buf lx) adv adv adv
                   else lx in
        buffer_loop f behind lx' psc' adv
      else Ok (set_buf lx (Some (mkbuf psc' pcur adv tk)))
    end
  end.

Definition c_buffer_next (lx : clexer) : res clexer :=
  match c_buf lx with
  | Some _ => Ok lx
  | None => buffer_loop (fuel_of lx) (pos_eqb (c_ps lx) (c_cur lx)) lx (c_sc lx) (c_cur lx)
  end.

Definition c_at_end (lx : clexer) : bool := blen (c_text lx) <=? byte (c_cur lx).

(** lexer.rs:270-278 *)
Definition c_peek (lx : clexer) : res (option tok * clexer) :=
  if c_at_end lx then Ok (None, lx)
  else do lx' <- c_buffer_next lx; Ok (option_map pk_tok (c_buf lx'), lx').

(** lexer.rs:292-331 next_nonfiltered: the scanning loop (no buffer) *)
Fixpoint next_loop (fuel : nat) (behind : bool) (lx : clexer) : res (option tok * clexer) :=
  match fuel with
  | 0 => Fuel
  | S f =>
    do r <- scan (c_sc lx) (c_met lx) (c_text lx) (c_cur lx);
    match r with
    | None => Ok (None, lx)
    | Some (tk, adv, sc') =>
      if filtered_out lx tk then
        let lx' := if behind
                   then mklex (c_text lx) (c_met lx) sc' (c_filter lx) (c_rec lx) (c_buf lx) adv adv adv
                   else mklex (c_text lx) (c_met lx) sc' (c_filter lx) (c_rec lx) (c_buf lx) (c_ps lx) (c_ts lx) adv in
        next_loop f behind lx'
      else
        let ps' := if behind then c_ts lx else c_ps lx in
        Ok (Some tk, mklex (c_text lx) (c_met lx) sc' (c_filter lx) (c_rec lx) (c_buf lx) ps' (c_cur lx) adv)
    end
  end.

Definition c_next (lx : clexer) : res (option tok * clexer) :=
  if c_at_end lx then Ok (None, lx)
  else match c_buf lx with
       | Some b =>
         let ps' := if pos_eqb (c_ps lx) (c_cur lx) then pk_start b else c_ps lx in
         Ok (Some (pk_tok b),
             mklex (c_text lx) (c_met lx) (pk_sc b) (c_filter lx) (c_rec lx) None ps' (pk_start b) (pk_cursor b))
       | None => next_loop (fuel_of lx) (pos_eqb (c_ps lx) (c_cur lx)) lx
       end.

(** lexer.rs:280-290 *)
Definition c_next_if (lx : clexer) (p : tok -> bool) : res (option tok * clexer) :=
  do r <- c_peek lx;
  match r with
  | (Some tk, lx') => if p tk then c_next lx' else Ok (None, lx')
  | (None, lx') => Ok (None, lx')
  end.
Definition c_next_if_eq (lx : clexer) (e : tok) : res (option tok * clexer) := c_next_if lx (tok_eqb e).

(** lexer.rs:159-176 set_filter; 105-113 with_filter *)
Definition c_set_filter (lx : clexer) (f : option fspec) : res (option fspec * clexer) :=
  do lx' <- c_buffer_next (set_buf (set_flt lx f) None);
  Ok (c_filter lx, lx').
Definition c_with_filter (lx : clexer) (f : option fspec) : res clexer :=
  do r <- c_set_filter lx f; c_buffer_next (snd r).

(** lexer.rs:178-190 *)
Definition c_start_sublex (lx : clexer) : res clexer :=
  c_buffer_next (mklex (c_text lx) (c_met lx) (c_sc lx) (c_filter lx) (c_rec lx) (c_buf lx)
                       (c_cur lx) (c_cur lx) (c_cur lx)).

(** lexer.rs:192-222 *)
Definition c_token_span (lx : clexer) : span := enclosing (c_ts lx) (c_cur lx).
Definition c_parse_span (lx : clexer) : span := enclosing (c_ps lx) (c_cur lx).
Definition c_cursor_pos (lx : clexer) : pos := c_cur lx.
Definition c_peek_token_span (lx : clexer) : option span :=
  match c_buf lx with
  | Some b => if pos_eqb (pk_start b) (pk_cursor b) then None else Some (enclosing (pk_start b) (pk_cursor b))
  | None => None
  end.

(** lexer.rs peek_parse_span / peek_cursor_pos: the parse span and cursor as they would be after the
    looked-at token (when no filtered token lies before it), read off the buffer *)
Definition c_peek_parse_span (lx : clexer) : option span :=
  match c_buf lx with
  | Some b => Some (if pos_eqb (pk_start b) (c_cur lx) then enclosing (c_ps lx) (pk_cursor b)
                    else enclosing (c_ps lx) (c_cur lx))
  | None => None
  end.
Definition c_peek_cursor_pos (lx : clexer) : option pos := option_map pk_cursor (c_buf lx).

(** lexer.rs is_empty_with_filter: buffers a look-ahead (skipping filtered tokens at a parse start),
    then compares the cursor with the end of the text *)
Definition c_is_empty_with_filter (lx : clexer) : res (bool * clexer) :=
  do lx' <- c_buffer_next lx; Ok (c_at_end lx', lx').

(** lexer.rs:373-381 advance_up_to; 383-391 advance_to *)
Fixpoint c_advance_up_to (fuel : nat) (lx : clexer) (p : tok -> bool) : res (bool * clexer) :=
  match fuel with
  | 0 => Fuel
  | S f =>
    do r <- c_peek lx;
    match r with
    | (None, lx') => Ok (false, lx')
    | (Some tk, lx') =>
      if p tk then Ok (true, lx') else do r2 <- c_next lx'; c_advance_up_to f (snd r2) p
    end
  end.

Fixpoint c_advance_to (fuel : nat) (lx : clexer) (p : tok -> bool) : res (bool * clexer) :=
  match fuel with
  | 0 => Fuel
  | S f =>
    do r <- c_next lx;
    match r with
    | (None, lx') => Ok (false, lx')
    | (Some tk, lx') => if p tk then Ok (true, lx') else c_advance_to f lx' p
    end
  end.

(** iter_with_spans to exhaustion: delivered (token, token_span) pairs *)
Fixpoint c_drain (fuel : nat) (lx : clexer) : res (list (tok * span) * clexer) :=
  match fuel with
  | 0 => Fuel
  | S f =>
    do r <- c_next lx;
    match r with
    | (None, lx') => Ok ([], lx')
    | (Some tk, lx') => do rest <- c_drain f lx'; Ok ((tk, c_token_span lx') :: fst rest, snd rest)
    end
  end.
