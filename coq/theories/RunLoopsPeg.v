(** C07 in terms of tokens: for item and separator parsers of the C06 core fragment, the
    repetition combinators compute the greedy PEG repetition  a (s a)*  on the deliverable tokens:
    the items are exactly the successive PEG matches, and the repetition stops because the upper
    bound is reached or because "separator then item" does not match what follows - in which case
    nothing of a dangling separator is consumed. *)
From Tephra Require Import MetricsSpec MetricsFacts CLexer LexerFacts Run Peg RunCore RunLoops.

(** successive matches of "separator then item" *)
Inductive piter (a s : G) : list entry -> list val -> list entry -> Prop :=
| piter_nil st : piter a s st [] st
| piter_cons st v st1 vs st2 :
    peg (GRight s a) st = Some (POk v st1) -> piter a s st1 vs st2 -> piter a s st (v :: vs) st2.

Section LoopsPeg.
  Variable m : metrics.
  Hypothesis Htab : 1 <= tabw m.
  Variable t : text.
  Hypothesis Ht : wf_text t.
  Local Notation Inv := (Inv m t).

  (** the interpreter decides the PEG: a success is the PEG's success, a failure its failure *)
  Lemma run_ok_peg fuel g lx ys c st v lx' st' : in_core g = true -> gdepth g < fuel -> Inv lx ys ->
    run fuel g lx c st = (ROk v lx', st') ->
    exists ys', peg g (kept (c_filter lx) ys) = Some (POk v (kept (c_filter lx) ys')) /\ Inv lx' ys'
      /\ c_filter lx' = c_filter lx /\ st' = st.
  Proof using Htab Ht.
    intros Hc Hd HI Hrun. destruct (peg_total g Hc (kept (c_filter lx) ys)) as [r Hr].
    pose proof (run_core m Htab t Ht fuel g Hd _ r Hr lx ys c st HI eq_refl) as H. destruct r as [v0 s'|].
    - destruct H as (l & ys' & E & HI' & Hf & _ & Hk). rewrite E in Hrun. injection Hrun as <- <- <-.
      exists ys'. rewrite Hk. split; [exact Hr|]. split; [exact HI'|]. split; [exact Hf|reflexivity].
    - destruct H as (e & E). rewrite E in Hrun. discriminate Hrun.
  Qed.

  Lemma run_err_peg fuel g lx ys c st e st' : in_core g = true -> gdepth g < fuel -> Inv lx ys ->
    run fuel g lx c st = (RErr e, st') -> peg g (kept (c_filter lx) ys) = Some PFail /\ st' = st.
  Proof using Htab Ht.
    intros Hc Hd HI Hrun. destruct (peg_total g Hc (kept (c_filter lx) ys)) as [r Hr].
    pose proof (run_core m Htab t Ht fuel g Hd _ r Hr lx ys c st HI eq_refl) as H. destruct r as [v0 s'|].
    - destruct H as (l & ys' & E & _). rewrite E in Hrun. discriminate Hrun.
    - destruct H as (e0 & E). rewrite E in Hrun. injection Hrun as _ <-. split; [exact Hr|reflexivity].
  Qed.

  Lemma right_of_is_right f s a c lx st : right_of (run f) s a c lx st = run (S f) (GRight s a) lx c st.
  Proof. reflexivity. Qed.

  Lemma iter_piter f a s c : in_core a = true -> in_core s = true -> gdepth (GRight s a) < S f ->
    forall vals lx1 st1 l lxf stl, iter None (right_of (run f) s a c) vals lx1 st1 l lxf stl ->
    forall ys1, Inv lx1 ys1 ->
    exists more ysf, l = vals ++ more /\ piter a s (kept (c_filter lx1) ys1) more (kept (c_filter lx1) ysf)
      /\ Inv lxf ysf /\ c_filter lxf = c_filter lx1 /\ stl = st1.
  Proof using Htab Ht.
    intros Ha Hs Hd vals lx1 st1 l lxf stl Hit.
    induction Hit as [vals cur st0|vals cur st0 st0' v lx' st' vals2 cur2 st2 Hsf Hstep _ IH]; intros ys1 HI1.
    - exists [], ys1. rewrite app_nil_r. split; [reflexivity|]. split; [constructor|]. split; [exact HI1|]. split; reflexivity.
    - cbn [stop_fails] in Hsf. subst st0'. rewrite right_of_is_right in Hstep.
      assert (Hc : in_core (GRight s a) = true) by (cbn [in_core]; rewrite Hs, Ha; reflexivity).
      destruct (run_ok_peg (S f) (GRight s a) cur ys1 c st0 v lx' st' Hc Hd HI1 Hstep) as (ys' & Hp & HI' & Hf' & ->).
      destruct (IH ys' HI') as (more & ysf & -> & Hpi & HIf & Hff & ->).
      exists (v :: more), ysf. split; [rewrite <- app_assoc; reflexivity|]. rewrite Hf' in Hpi.
      split; [econstructor; [exact Hp|exact Hpi]|]. split; [exact HIf|]. split; [congruence|reflexivity].
  Qed.

  (** intersperse / repeat / intersperse_default over core items: the greedy PEG repetition *)
  Theorem intersperse_tokens f lo hi a s lx ys c st v lxf stf :
    in_core a = true -> in_core s = true -> gdepth a < f -> gdepth s < f -> Inv lx ys ->
    run (S f) (GIntersperse lo hi a s) lx c st = (ROk v lxf, stf) ->
    exists l ysf, v = VList l /\ lo <= length l /\ (forall h, hi = Some h -> length l <= h) /\ stf = st
      /\ Inv lxf ysf /\ c_filter lxf = c_filter lx
      /\ ((l = [] /\ lxf = lx /\ (hi = Some 0 \/ lo = 0 /\ peg a (kept (c_filter lx) ys) = Some PFail))
          \/ (exists v1 more s1, l = v1 :: more /\ peg a (kept (c_filter lx) ys) = Some (POk v1 s1)
                /\ piter a s s1 more (kept (c_filter lx) ysf)
                /\ (ge_opt (length l) hi = true \/ peg (GRight s a) (kept (c_filter lx) ysf) = Some PFail))).
  Proof using Htab Ht.
    intros Ha Hs Hda Hds HI Hrun.
    assert (Hd : gdepth (GRight s a) < S f) by (cbn [gdepth]; lia).
    assert (Hc : in_core (GRight s a) = true) by (cbn [in_core]; rewrite Hs, Ha; reflexivity).
    cbn [run] in Hrun. apply run_intersperse_ok in Hrun.
    destruct Hrun as (l & -> & Hlo & Hhi & [(-> & -> & Hwhy)|(v1 & lx1 & st1 & stl & Hrun1 & Hit & Hend)]).
    - (* no item *)
      destruct Hwhy as [[Eh ->]|(-> & e & He)].
      + exists [], ys. repeat (split; [first [reflexivity|assumption]|]). left. split; [reflexivity|]. split; [reflexivity|]. left. exact Eh.
      + destruct (run_err_peg f a lx ys c st e stf Ha Hda HI He) as [Hp ->].
        exists [], ys. repeat (split; [first [reflexivity|assumption]|]). left. split; [reflexivity|]. split; [reflexivity|]. right. split; [reflexivity|exact Hp].
    - destruct (run_ok_peg f a lx ys c st v1 lx1 st1 Ha Hda HI Hrun1) as (ys1 & Hp1 & HI1 & Hf1 & ->).
      destruct (iter_piter f a s c Ha Hs Hd [v1] lx1 st l lxf stl Hit ys1 HI1) as (more & ysf & -> & Hpi & HIf & Hff & ->).
      rewrite Hf1 in Hpi.
      assert (Hstf : stf = st /\ (ge_opt (length ([v1] ++ more)) hi = true \/ peg (GRight s a) (kept (c_filter lx) ysf) = Some PFail)).
      { destruct Hend as [[Hge ->]|(e & He)]; [split; [reflexivity|left; exact Hge]|].
        rewrite right_of_is_right in He.
        destruct (run_err_peg (S f) (GRight s a) lxf ysf c st e stf Hc Hd HIf He) as [Hp ->].
        split; [reflexivity|]. right. rewrite Hff, Hf1 in Hp. exact Hp. }
      destruct Hstf as [-> Hwhy].
      exists ([v1] ++ more), ysf. split; [reflexivity|]. split; [exact Hlo|]. split; [exact Hhi|]. split; [reflexivity|].
      split; [exact HIf|]. split; [congruence|]. right. exists v1, more, (kept (c_filter lx) ys1).
      split; [reflexivity|]. split; [exact Hp1|]. split; [exact Hpi|exact Hwhy].
  Qed.
End LoopsPeg.
