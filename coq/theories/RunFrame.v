(** C09 for the WHOLE COMBINATOR MODEL: whatever a grammar does - change the filter for a wrapped parser,
    recover, scan brackets, loop - the lexer a SUCCESSFUL run returns has the filter of the lexer
    the run was given. For every grammar, lexer (no invariant needed), context, store and fuel. *)
From Tephra Require Import CLexer Run RunScope.

(** * lexer scans never touch the filter *)

Lemma next_loop_flt : forall fuel behind lx o lx', next_loop fuel behind lx = Ok (o, lx') -> c_filter lx' = c_filter lx.
Proof.
  induction fuel as [|f IH]; intros behind lx o lx' H; cbn [next_loop] in H; [discriminate|].
  destruct (scan (c_sc lx) (c_met lx) (c_text lx) (c_cur lx)) as [[[[tk adv] sc']|]| |]; cbn [bind] in H; try discriminate.
  - destruct (filtered_out lx tk).
    + apply IH in H. destruct behind; exact H.
    + injection H as _ <-. reflexivity.
  - injection H as _ <-. reflexivity.
Qed.

Lemma c_next_flt lx o lx' : c_next lx = Ok (o, lx') -> c_filter lx' = c_filter lx.
Proof.
  unfold c_next. destruct (c_at_end lx); [intros H; injection H as _ <-; reflexivity|].
  destruct (c_buf lx) as [b|]; [intros H; injection H as _ <-; reflexivity|]. apply next_loop_flt.
Qed.

Lemma c_peek_flt lx o lx' : c_peek lx = Ok (o, lx') -> c_filter lx' = c_filter lx.
Proof.
  unfold c_peek. destruct (c_at_end lx); [intros H; injection H as _ <-; reflexivity|].
  destruct (c_buffer_next lx) as [l| |] eqn:E; cbn [bind]; try discriminate.
  intros H. injection H as _ <-. apply c_buffer_next_frame in E. tauto.
Qed.

Lemma c_start_sublex_flt lx lx' : c_start_sublex lx = Ok lx' -> c_filter lx' = c_filter lx.
Proof. unfold c_start_sublex. intros H. apply c_buffer_next_frame in H. cbn in H. tauto. Qed.



Lemma c_advance_to_flt : forall fuel lx p b lx', c_advance_to fuel lx p = Ok (b, lx') -> c_filter lx' = c_filter lx.
Proof.
  induction fuel as [|f IH]; intros lx p b lx' H; cbn [c_advance_to] in H; [discriminate|].
  destruct (c_next lx) as [[o l1]| |] eqn:E; cbn [bind] in H; try discriminate.
  apply c_next_flt in E. destruct o as [tk|].
  - destruct (p tk); [injection H as _ <-; exact E|]. apply IH in H. congruence.
  - injection H as _ <-. exact E.
Qed.


Lemma recover_loop_flt r : forall fuel lx st b lx' st', recover_loop fuel r lx st = (Ok (b, lx'), st') -> c_filter lx' = c_filter lx.
Proof.
  induction fuel as [|f IH]; intros lx st b lx' st' E; [discriminate E|]. cbn [recover_loop] in E.
  destruct (c_peek lx) as [[[tk|] l1]| |] eqn:Ep; try discriminate E.
  - pose proof (c_peek_flt _ _ _ Ep) as R1.
    destruct (rec_call st r tk) as [s1 bb]. destruct bb; [injection E as _ <- _; exact R1|].
    destruct (c_next l1) as [[o l2]| |] eqn:En; try discriminate E.
    pose proof (c_next_flt _ _ _ En) as R2. apply IH in E. congruence.
  - injection E as _ <- _. exact (c_peek_flt _ _ _ Ep).
Qed.

Lemma advance_to_recover_flt lx st b lx' st' : advance_to_recover lx st = (Ok (b, lx'), st') -> c_filter lx' = c_filter lx.
Proof.
  unfold advance_to_recover. destruct (c_rec lx) as [r|]; [apply recover_loop_flt|]. intros E. injection E as _ <- _. reflexivity.
Qed.

Lemma bracket_loop_flt : forall fuel os cs ab start lx ol stack sps o cl idx,
  (match ol with Some l => c_filter l = c_filter lx | None => True end) ->
  bracket_loop fuel os cs ab start lx ol stack sps = BM o cl idx -> c_filter o = c_filter lx /\ c_filter cl = c_filter lx.
Proof.
  induction fuel as [|f IH]; intros os cs ab start lx ol stack sps o cl idx Hol H; cbn [bracket_loop] in H; [discriminate|].
  destruct (c_peek lx) as [[[tk|] lx1]| |] eqn:Ep; try discriminate.
  2:{ destruct ol as [l|]; [destruct (pts l)|]; discriminate. }
  pose proof (c_peek_flt _ _ _ Ep) as R1.
  assert (Hcont : forall ol' stack' sps',
            (match ol' with Some l => c_filter l = c_filter lx | None => True end) ->
            match c_next lx1 with
            | Ok (_, lx2) => bracket_loop f os cs ab start lx2 ol' stack' sps'
            | Panic => BPanic | Fuel => BFuel
            end = BM o cl idx -> c_filter o = c_filter lx /\ c_filter cl = c_filter lx).
  { intros ol' stack' sps' Hol' Hc. destruct (c_next lx1) as [[o2 lx2]| |] eqn:En; try discriminate.
    pose proof (c_next_flt _ _ _ En) as R2.
    assert (R : c_filter lx2 = c_filter lx) by congruence.
    destruct (IH os cs ab start lx2 ol' stack' sps' o cl idx) as [A B]; [destruct ol' as [l|]; [congruence|exact I]|exact Hc|].
    split; congruence. }
  destruct (position (fun k => tok_eqb (tk0 k) tk) cs) as [ci|].
  - destruct stack as [|[t n] rest]; [destruct (pts lx1); discriminate|].
    destruct (negb (t =? ci)); [destruct sps; [|destruct (pts lx1)]; discriminate|].
    destruct (1 <? n); [exact (Hcont _ _ _ Hol H)|].
    destruct rest as [|p rest'].
    + destruct ol as [l|]; [|discriminate]. injection H as <- <- _. split; [exact Hol|exact R1].
    + exact (Hcont _ _ _ Hol H).
  - destruct (position (fun k => tok_eqb (tk0 k) tk) os) as [oi|].
    + destruct (pts lx1); [|discriminate].
      assert (Hol' : match (match ol with None => Some lx1 | Some _ => ol end) with Some l => c_filter l = c_filter lx | None => True end).
      { destruct ol as [l|]; [exact Hol|exact R1]. }
      destruct stack as [|[t n] rest]; [exact (Hcont _ _ _ Hol' H)|].
      destruct (negb (t =? oi)); exact (Hcont _ _ _ Hol' H).
    + destruct (in_kinds ab tk && match ol with None => true | Some _ => false end).
      * destruct (pts lx1); discriminate.
      * exact (Hcont _ _ _ Hol H).
Qed.

(** * Results whose lexer has the filter [F] *)

Definition ff (F : option fspec) (r : R) : Prop :=
  match r with (ROk _ l, _) => c_filter l = F | _ => True end.

Lemma ff_on_ok F r k : ff F r -> (forall v l s, c_filter l = F -> ff F (k v l s)) -> ff F (on_ok r k).
Proof. destruct r as [[v l|e| |] s]; cbn [ff on_ok]; intros H Hk; try exact I. exact (Hk v l s H). Qed.

Lemma ff_map_val F f r : ff F r -> ff F (map_val f r).
Proof. destruct r as [[v l|e| |] s]; cbn [ff map_val]; intros H; exact H. Qed.

Lemma ff_lift {A} F (x : res A) st k : (forall a, x = Ok a -> ff F (k a)) -> ff F (lift x st k).
Proof. destruct x as [a| |]; cbn [lift ff]; intros H; [exact (H a eq_refl)|exact I|exact I]. Qed.

Definition ffun F (P : clexer -> store -> R) : Prop := forall l s, c_filter l = F -> ff F (P l s).
Definition fstop F (stop : option (clexer -> store -> R)) : Prop := match stop with Some sp => ffun F sp | None => True end.
Definition fcont F (k : list val -> clexer -> store -> R) : Prop := forall vs l s, c_filter l = F -> ff F (k vs l s).

Lemma ff_mand F : forall n lo stop step vals cur st k, ffun F step -> fcont F k -> c_filter cur = F ->
  ff F (mand_loop n lo stop step vals cur st k).
Proof.
  induction n as [|n IH]; intros lo stop step vals cur st k Hst Hk Hc; cbn [mand_loop]; [exact I|].
  destruct (length vals <? lo); [|apply Hk; exact Hc].
  assert (Hgo : forall s0, ff F match step cur s0 with
                                | (ROk v lx', st') => mand_loop n lo stop step (vals ++ [v]) lx' st' k
                                | r => r
                                end).
  { intros s0. pose proof (Hst cur s0 Hc) as H. destruct (step cur s0) as [[v l|e| |] s1]; try exact I. apply IH; assumption. }
  destruct stop as [sp|]; [|apply Hgo].
  destruct (sp cur st) as [[v l|e| |] s1]; try exact I; [exact Hc|apply Hgo].
Qed.

Lemma ff_opt F : forall n hi stop step vals cur st, ffun F step -> c_filter cur = F ->
  ff F (opt_loop n hi stop step vals cur st).
Proof.
  induction n as [|n IH]; intros hi stop step vals cur st Hst Hc; cbn [opt_loop]; [exact I|].
  destruct (lt_opt (length vals) hi); [|exact Hc].
  assert (Hgo : forall s0, ff F match step cur s0 with
                                | (ROk v lx', st') =>
                                  let vals' := vals ++ [v] in
                                  if ge_opt (length vals') hi then (ROk (VList vals') lx', st')
                                  else opt_loop n hi stop step vals' lx' st'
                                | (RErr _, st') => (ROk (VList vals) cur, st')
                                | r => r
                                end).
  { intros s0. pose proof (Hst cur s0 Hc) as H. destruct (step cur s0) as [[v l|e| |] s1]; try exact I; [|exact Hc].
    cbn zeta. destruct (ge_opt _ hi); [exact H|apply IH; assumption]. }
  destruct stop as [sp|]; [|apply Hgo].
  destruct (sp cur st) as [[v l|e| |] s1]; try exact I; [exact Hc|apply Hgo].
Qed.

Section WithRunf.
  Variable runf : G -> clexer -> ctx -> store -> R.
  Hypothesis Hrun : forall g l c s, ff (c_filter l) (runf g l c s).

  Lemma Hrun' F g l c s : c_filter l = F -> ff F (runf g l c s).
  Proof. intros <-. apply Hrun. Qed.

  Lemma right_of_ffun F s a c : ffun F (right_of runf s a c).
  Proof. intros l st Hl. unfold right_of. apply ff_on_ok; [apply Hrun'; exact Hl|]. intros v l1 s1 H1. apply Hrun'; exact H1. Qed.

  Lemma ff_intersperse n lo hi a s lx c st : ff (c_filter lx) (run_intersperse runf n lo hi a s lx c st).
  Proof.
    unfold run_intersperse, hi_check.
    assert (Hb : ff (c_filter lx) match runf a lx c st with
                    | (ROk v lx1, st1) =>
                      mand_loop n lo None (right_of runf s a c) [v] lx1 st1
                        (fun vals cur st2 => opt_loop n hi None (right_of runf s a c) vals cur st2)
                    | (RErr e, st1) => if lo =? 0 then (ROk (VList []) lx, st1) else (RErr e, st1)
                    | r => r
                    end).
    { pose proof (Hrun a lx c st) as H. destruct (runf a lx c st) as [[v l|e| |] s1]; try exact I.
      - apply ff_mand; [apply right_of_ffun| |exact H]. intros vs l2 s2 H2. apply ff_opt; [apply right_of_ffun|exact H2].
      - destruct (lo =? 0); [reflexivity|exact I]. }
    destruct hi as [h|]; [|exact Hb]. destruct (h <? lo); [exact I|]. destruct (h =? 0); [reflexivity|exact Hb].
  Qed.

  Lemma ff_intersperse_until n lo hi sg a s lx c st : ff (c_filter lx) (run_intersperse_until runf n lo hi sg a s lx c st).
  Proof.
    unfold run_intersperse_until, hi_check.
    assert (Hb : ff (c_filter lx) match runf sg lx c st with
                    | (ROk _ _, st0) => (ROk (VList []) lx, st0)
                    | (RErr _, st0) =>
                      match runf a lx c st0 with
                      | (ROk v lx1, st1) =>
                        mand_loop n lo (Some (fun l st => runf sg l c st)) (right_of runf s a c) [v] lx1 st1
                          (fun vals cur st2 => opt_loop n hi (Some (fun l st => runf sg l c st)) (right_of runf s a c) vals cur st2)
                      | (RErr e, st1) => if lo =? 0 then (ROk (VList []) lx, st1) else (RErr e, st1)
                      | r => r
                      end
                    | r => r
                    end).
    { destruct (runf sg lx c st) as [[v0 l0|e0| |] s0]; try exact I; [reflexivity|].
      pose proof (Hrun a lx c s0) as H. destruct (runf a lx c s0) as [[v l|e| |] s1]; try exact I.
      - apply ff_mand; [apply right_of_ffun| |exact H]. intros vs l2 s2 H2. apply ff_opt; [apply right_of_ffun|exact H2].
      - destruct (lo =? 0); [reflexivity|exact I]. }
    destruct hi as [h|]; [|exact Hb]. destruct (h <? lo); [exact I|]. destruct (h =? 0); [reflexivity|exact Hb].
  Qed.

  Lemma ff_stab : forall n att a c lx res, ff (c_filter lx) res -> ff (c_filter lx) (stab_loop runf n att a c lx res).
  Proof using Hrun.
    induction n as [|n IH]; intros att a c lx res Hr; cbn [stab_loop]; [exact I|].
    destruct res as [[v l|e| |] s]; try exact I.
    - cbn [ff] in *. exact Hr.
    - destruct (c_rec lx) as [r|]; [|exact I].
      destruct (advance_to_recover lx s) as [[[b lx1]| |] s1] eqn:Ea; try exact I.
      destruct b; [|exact I]. destruct (_ && _); [exact I|].
      pose proof (advance_to_recover_flt _ _ _ _ _ Ea) as H1. rewrite <- H1. apply IH. apply Hrun.
  Qed.

  Lemma ff_list_loop F : forall n hi ab dflt item probe sepp c vals lx st k, fcont F k -> c_filter lx = F ->
    ff F (list_loop runf n hi ab dflt item probe sepp c vals lx st k).
  Proof using Hrun.
    induction n as [|n IH]; intros hi ab dflt item probe sepp c vals lx st k Hk Hl; cbn [list_loop]; [exact I|].
    apply ff_lift. intros [o lx0] Ep. pose proof (c_peek_flt _ _ _ Ep) as H0. rewrite Hl in H0.
    destruct o as [tk|]; [|apply Hk; exact H0].
    destruct (in_kinds ab tk).
    - destruct vals as [|v0 vr]; [apply Hk; exact H0|].
      destruct (runf probe lx0 c st) as [[pv pl|pe| |] s1]; try exact I. destruct pv; apply Hk; exact H0.
    - pose proof (Hrun' F item lx0 c st H0) as H. destruct (runf item lx0 c st) as [[v lx1|e| |] s1]; try exact I.
      + cbn zeta. destruct (ge_opt _ hi); [apply Hk; exact H|].
        apply ff_lift. intros [o2 lx2] Ep2. pose proof (c_peek_flt _ _ _ Ep2) as H2. cbn [ff] in H. rewrite H in H2.
        destruct o2 as [t2|]; [|apply Hk; exact H2].
        destruct (in_kinds ab t2); [apply Hk; exact H2|]. destruct (c_at_end lx2); [apply Hk; exact H2|].
        pose proof (Hrun' F sepp lx2 c s1 H2) as H3. destruct (runf sepp lx2 c s1) as [[v3 lx3|e3| |] s3]; try exact I.
        apply ff_lift. intros lx4 E4. apply IH; [exact Hk|]. rewrite (c_start_sublex_flt _ _ E4). exact H3.
      + destruct e; try exact I. apply ff_lift. intros [b lx1] Ea. apply Hk. rewrite (c_advance_to_flt _ _ _ _ _ Ea). exact H0.
  Qed.
End WithRunf.

Section Step.
  Variable f : nat.
  Hypothesis IH : forall g l c s, ff (c_filter l) (run f g l c s).

  Lemma IH' F g l c s : c_filter l = F -> ff F (run f g l c s).
  Proof. intros <-. apply IH. Qed.

  Theorem frame_step g lx c st : ff (c_filter lx) (run (S f) g lx c st).
  Proof using IH.
    set (F := c_filter lx).
    assert (HF : c_filter lx = F) by reflexivity. clearbody F.
    (* recover_with *)
    assert (Hrw : forall dflt r (body : clexer -> ctx -> store -> R), ff F (body lx c st) ->
              ff F match body lx c st with
                   | (RErr e, st1) =>
                     match send_error c e (log st1) with
                     | (_, Some e') => (RErr e', st1)
                     | (l, None) =>
                       match advance_to_recover (set_rec lx (Some r)) (st_log st1 l) with
                       | (Ok (true, lx'), st3) => (ROk dflt lx', st3)
                       | (Ok (false, _), st3) => (RErr ERecover, st3)
                       | (Panic, st3) => (RPanic, st3)
                       | (Fuel, st3) => (RFuel, st3)
                       end
                     end
                   | r0 => r0
                   end).
    { intros dflt r body Hb. destruct (body lx c st) as [[v l|e| |] s1]; try exact I; [exact Hb|].
      destruct (send_error c e (log s1)) as [l [e'|]]; [exact I|].
      destruct (advance_to_recover (set_rec lx (Some r)) (st_log s1 l)) as [[[b lx']| |] s3] eqn:Ea; try exact I.
      destruct b; [|exact I]. cbn [ff]. rewrite (advance_to_recover_flt _ _ _ _ _ Ea). exact HF. }
    (* bracket *)
    assert (Hbw : forall os a cs ab (okv : val -> nat -> val) (dfl : nat -> val),
              ff F (if (match os with [] => true | _ => false end) || (match cs with [] => true | _ => false end)
                       || negb (length os =? length cs) || negb (disjoint_kinds os cs)
                    then (RPanic, st)
                    else
                      match match_nested_brackets lx os cs ab with
                      | BPanic => (RPanic, st) | BFuel => (RFuel, st)
                      | BErr e => (RErr e, st)
                      | BM o cl idx =>
                        lift (c_next o) st (fun '(_, o1) =>
                        lift (c_start_sublex o1) st (fun inner =>
                        lift (c_next cl) st (fun '(_, cl1) =>
                        match run f a inner c st with
                        | (ROk v _, st1) => (ROk (okv v idx) cl1, st1)
                        | (RErr e, st1) =>
                          match send_error c e (log st1) with
                          | (_, Some e') => (RErr e', st1)
                          | (l, None) => (ROk (dfl idx) cl1, st_log st1 l)
                          end
                        | r => r
                        end)))
                      end)).
    { intros os a cs ab okv dfl. destruct (_ || _ || _ || _); [exact I|].
      destruct (match_nested_brackets lx os cs ab) as [o cl idx|e| |] eqn:Em; try exact I.
      unfold match_nested_brackets in Em. pose proof (bracket_loop_flt _ _ _ _ _ _ None _ _ _ _ _ I Em) as [_ Rcl].
      apply ff_lift. intros [x o1] E1. apply ff_lift. intros inner E2. apply ff_lift. intros [y cl1] E3.
      pose proof (c_next_flt _ _ _ E3) as R3.
      destruct (run f a inner c st) as [[v l|e| |] s1]; try exact I; cbn [ff]; [congruence|].
      destruct (send_error c e (log s1)) as [l [e'|]]; [exact I|]. cbn [ff]. congruence. }
    (* list *)
    assert (Hlw : forall lo hi item0 dflt sep ab,
              ff F match hi with
                   | Some 0 => (ROk (VList []) lx, st)
                   | _ =>
                     if (match hi with Some h => h <? lo | None => false end) then (RPanic, st)
                     else
                       list_loop (run f) f hi ab dflt
                         (GStabilize (GRecoverWith dflt (list_rref sep ab) (GUpTo item0 (sep :: ab))))
                         (GStabilize (GMaybe (GUpTo item0 (sep :: ab))))
                         (GRecoverWith VUnit (list_rref sep ab) (GDiscard (GOne sep))) c [] lx st
                         (fun vals lx' st' =>
                            match (match c_rec lx with Some _ => None | None => c_rec lx' end) with
                            | Some _ => (RPanic, st')
                            | None =>
                              if length vals <? lo then
                                match send_error c (ECount (c_parse_span lx') (length vals) lo hi) (log st') with
                                | (_, Some e') => (RErr e', st')
                                | (l, None) => (ROk (VList vals) lx', st_log st' l)
                                end
                              else (ROk (VList vals) lx', st')
                            end)
                   end).
    { intros lo hi item0 dflt sep ab.
      assert (Hloop : forall k0, fcont F k0 ->
                ff F (list_loop (run f) f hi ab dflt
                         (GStabilize (GRecoverWith dflt (list_rref sep ab) (GUpTo item0 (sep :: ab))))
                         (GStabilize (GMaybe (GUpTo item0 (sep :: ab))))
                         (GRecoverWith VUnit (list_rref sep ab) (GDiscard (GOne sep))) c [] lx st k0))
        by (intros k0 Hk0; apply (ff_list_loop (run f) IH); assumption).
      assert (Hk : fcont F (fun vals lx' st' =>
                            match (match c_rec lx with Some _ => None | None => c_rec lx' end) with
                            | Some _ => (RPanic, st')
                            | None =>
                              if length vals <? lo then
                                match send_error c (ECount (c_parse_span lx') (length vals) lo hi) (log st') with
                                | (_, Some e') => (RErr e', st')
                                | (l, None) => (ROk (VList vals) lx', st_log st' l)
                                end
                              else (ROk (VList vals) lx', st')
                            end)).
      { intros vs l s Hl. destruct (match c_rec lx with Some _ => None | None => c_rec l end); [exact I|].
        destruct (length vs <? lo); [|exact Hl]. destruct (send_error c _ (log s)) as [l0 [e'|]]; [exact I|exact Hl]. }
      destruct hi as [[|h]|]; [exact HF| |].
      - destruct (S h <? lo); [exact I|apply Hloop; exact Hk].
      - apply Hloop; exact Hk. }
    destruct g; cbn [run].
    - (* empty *) exact HF.
    - (* one *) apply ff_lift. intros [o lx'] En. pose proof (c_next_flt _ _ _ En) as H1.
      destruct o as [tk|]; [|exact I]. destruct (tok_eqb tk (tk0 k)); [cbn [ff]; congruence|exact I].
    - (* any *) destruct ks as [|k0 ks]; [exact I|].
      apply ff_lift. intros [o lx'] Ep. pose proof (c_peek_flt _ _ _ Ep) as H1.
      destruct o as [tk|]; [|exact I]. destruct (position _ (k0 :: ks)); [|exact I].
      apply ff_lift. intros [o2 l2] En. cbn [ff]. rewrite (c_next_flt _ _ _ En). congruence.
    - (* any_index *) destruct ks as [|k0 ks]; [exact I|].
      apply ff_lift. intros [o lx'] Ep. pose proof (c_peek_flt _ _ _ Ep) as H1.
      destruct o as [tk|]; [|exact I]. destruct (position _ (k0 :: ks)); [|exact I].
      apply ff_lift. intros [o2 l2] En. cbn [ff]. rewrite (c_next_flt _ _ _ En). congruence.
    - (* seq *)
      assert (Hs : forall ks0 acc l, c_filter l = F ->
                ff F ((fix go (ks : list kind) (acc : list val) (l : clexer) : R :=
                         match ks with
                         | [] => (ROk (VList acc) l, st)
                         | k :: r =>
                           lift (c_next l) st (fun '(o, l') =>
                           match o with
                           | Some t => if tok_eqb t (tk0 k) then go r (acc ++ [VTok t]) l'
                                       else (RErr (EUnexpected (c_parse_span lx) (c_token_span l') (ExTok (tk0 k)) (Some t)), st)
                           | None => (RErr (EUnexpected (c_parse_span lx) (c_token_span l') (ExTok (tk0 k)) None), st)
                           end)
                         end) ks0 acc l)).
      { induction ks0 as [|k r IHk]; intros acc l Hl; [exact Hl|].
        apply ff_lift. intros [o l'] En. destruct o as [tk|]; [|exact I]. destruct (tok_eqb tk (tk0 k)); [|exact I].
        apply IHk. rewrite (c_next_flt _ _ _ En). exact Hl. }
      apply Hs. exact HF.
    - (* seq_count *)
      assert (Hs : forall ks0 cnt l, c_filter l = F ->
                ff F ((fix go (ks : list kind) (cnt : nat) (l : clexer) : R :=
                         match ks with
                         | [] => (ROk (VNat cnt) l, st)
                         | k :: r =>
                           if c_at_end l then (ROk (VNat cnt) l, st)
                           else
                             lift (c_peek l) st (fun '(o, l') =>
                             match o with
                             | Some t => if tok_eqb t (tk0 k)
                                         then lift (c_next l') st (fun '(_, l'') => go r (S cnt) l'')
                                         else (ROk (VNat cnt) l', st)
                             | None =>
                               lift (only_filtered_remain l') st (fun b =>
                               if b then (ROk (VNat cnt) l', st) else (RErr (EUnrecognized (c_parse_span lx)), st))
                             end)
                         end) ks0 cnt l)).
      { induction ks0 as [|k r IHk]; intros cnt l Hl; [exact Hl|].
        destruct (c_at_end l); [exact Hl|].
        apply ff_lift. intros [o l'] Ep. pose proof (c_peek_flt _ _ _ Ep) as H1. rewrite Hl in H1.
        destruct o as [tk|].
        - destruct (tok_eqb tk (tk0 k)); [|exact H1]. apply ff_lift. intros [o2 l2] En. apply IHk. rewrite (c_next_flt _ _ _ En). exact H1.
        - apply ff_lift. intros b _. destruct b; [exact H1|exact I]. }
      apply Hs. exact HF.
    - (* pred *) apply ff_lift. intros [o lx'] En. pose proof (c_next_flt _ _ _ En) as H1.
      destruct o as [tk|]; [|exact I]. destruct (peval p tk); [cbn [ff]; congruence|exact I].
    - (* end_of_text *) apply ff_lift. intros b _. destruct b; [exact HF|].
      apply ff_lift. intros [o lx'] _. destruct o; exact I.
    - (* left *) apply ff_on_ok; [apply IH'; exact HF|]. intros v l s Hl. apply ff_map_val. apply IH'; exact Hl.
    - (* right *) apply ff_on_ok; [apply IH'; exact HF|]. intros v l s Hl. apply IH'; exact Hl.
    - (* both *) apply ff_on_ok; [apply IH'; exact HF|]. intros v l s Hl. apply ff_map_val. apply IH'; exact Hl.
    - (* center *) apply ff_on_ok; [apply IH'; exact HF|]. intros v l s Hl.
      apply ff_on_ok; [apply IH'; exact Hl|]. intros v2 l2 s2 Hl2. apply ff_map_val. apply IH'; exact Hl2.
    - (* map *) apply ff_map_val. apply IH'; exact HF.
    - (* discard *) apply ff_map_val. apply IH'; exact HF.
    - (* text *) apply ff_lift. intros [o lx1] Ep. pose proof (c_peek_flt _ _ _ Ep) as H1. rewrite HF in H1.
      apply ff_on_ok; [apply IH'; exact H1|]. intros v l s Hl. cbn zeta. destruct (_ && _); [exact Hl|exact I].
    - (* spanned *) apply ff_lift. intros [o lx1] Ep. pose proof (c_peek_flt _ _ _ Ep) as H1. rewrite HF in H1.
      apply ff_on_ok; [apply IH'; exact H1|]. intros v l s Hl. exact Hl.
    - (* sub *) apply ff_lift. intros lx' E. apply IH'. rewrite (c_start_sublex_flt _ _ E). exact HF.
    - (* either *) pose proof (IH' F g1 lx c st HF) as H. destruct (run f g1 lx c st) as [[v l|e| |] s1]; try exact I; [exact H|].
      apply IH'; exact HF.
    - (* maybe *) pose proof (IH' F g lx (ctx_unrec c) st HF) as H. destruct (run f g lx (ctx_unrec c) st) as [[v l|e| |] s1]; try exact I; [exact H|exact HF].
    - (* require_if *) destruct b; [apply ff_map_val; apply IH'; exact HF|apply IH'; exact HF].
    - (* cond *) destruct b; [apply ff_map_val; apply IH'; exact HF|exact HF].
    - (* implies *) apply ff_on_ok; [apply IH'; exact HF|]. intros v l s Hl. destruct v; try exact Hl. apply ff_map_val. apply IH'; exact Hl.
    - (* antecedent *) apply ff_on_ok; [apply IH'; exact HF|]. intros v l s Hl. destruct v; try exact Hl. apply ff_map_val. apply IH'; exact Hl.
    - (* consequent *) apply ff_on_ok; [apply IH'; exact HF|]. intros v l s Hl. destruct v; try exact Hl. apply ff_map_val. apply IH'; exact Hl.
    - (* cond_implies *) apply ff_on_ok; [apply IH'; exact HF|]. intros v l s Hl. destruct v; try exact Hl.
      destruct (vpeval p v); [|exact Hl]. apply ff_map_val. apply IH'; exact Hl.
    - (* filter_with: the wrapped parser runs under the new filter; the old one is put back *)
      apply ff_lift. intros [old lx1] E. destruct (c_set_filter_frame _ _ _ _ E) as (Eold & _ & _).
      pose proof (IH g lx1 c st) as H. destruct (run f g lx1 c st) as [[v l|e| |] s1]; cbn [on_ok]; try exact I.
      apply ff_lift. intros [o2 l2] E2. destruct (c_set_filter_frame _ _ _ _ E2) as (_ & E2f & _). cbn [ff]. congruence.
    - (* unfiltered *)
      apply ff_lift. intros [old lx1] E. destruct (c_set_filter_frame _ _ _ _ E) as (Eold & _ & _).
      pose proof (IH g lx1 c st) as H. destruct (run f g lx1 c st) as [[v l|e| |] s1]; cbn [on_ok]; try exact I.
      apply ff_lift. intros [o2 l2] E2. destruct (c_set_filter_frame _ _ _ _ E2) as (_ & E2f & _). cbn [ff]. congruence.
    - (* raw *) apply IH'; exact HF.
    - (* unrecoverable *) apply IH'; exact HF.
    - (* recover *) apply (Hrw VNone r (fun l c' s => some_of (run f g l c' s))). apply ff_map_val. apply IH'; exact HF.
    - (* recover_default *) apply (Hrw VDflt r (fun l c' s => run f g l c' s)). apply IH'; exact HF.
    - (* recover delayed *) apply (Hrw VNone r (fun l c' s => some_of (run f g l c' s))). apply ff_map_val. apply IH'; exact HF.
    - (* recover_default delayed *) apply (Hrw VDflt r (fun l c' s => run f g l c' s)). apply IH'; exact HF.
    - (* stabilize *) rewrite <- HF. apply (ff_stab (run f) IH). apply IH.
    - (* repeat *) rewrite <- HF. apply (ff_intersperse (run f) IH).
    - rewrite <- HF. apply ff_map_val. apply (ff_intersperse (run f) IH).
    - rewrite <- HF. apply (ff_intersperse_until (run f) IH).
    - rewrite <- HF. apply ff_map_val. apply (ff_intersperse_until (run f) IH).
    - rewrite <- HF. apply (ff_intersperse (run f) IH).
    - rewrite <- HF. apply ff_map_val. apply (ff_intersperse (run f) IH).
    - rewrite <- HF. apply (ff_intersperse_until (run f) IH).
    - rewrite <- HF. apply ff_map_val. apply (ff_intersperse_until (run f) IH).
    - rewrite <- HF. apply (ff_intersperse (run f) IH).
    - (* bracket *) apply Hbw.
    - apply Hbw.
    - apply Hbw.
    - apply Hbw.
    - (* up_to *) apply ff_on_ok; [apply IH'; exact HF|]. intros v l s Hl.
      apply ff_lift. intros [o lx2] Ep. pose proof (c_peek_flt _ _ _ Ep) as H2. rewrite Hl in H2.
      destruct o as [tk|]; [|exact H2]. destruct (in_kinds ab tk); [exact H2|].
      apply ff_lift. intros [b lx3] _. exact I.
    - (* list *) apply (Hlw 0 None (GSomeOf g) VNone sep ab).
    - apply (Hlw lo hi (GSomeOf g) VNone sep ab).
    - apply (Hlw 0 None g VDflt sep ab).
    - apply (Hlw lo hi g VDflt sep ab).
    - (* context push *) pose proof (IH' F g lx (ctx_pushed c tag) st HF) as H.
      destruct (run f g lx (ctx_pushed c tag) st) as [[v l|e| |] s1]; try exact I. exact H.
    - (* user failure *) apply ff_lift. intros x _. exact I.
    - (* probe *) destruct (send_error c (EProbe n) (log st)) as [l [e'|]]; exact HF.
    - (* some_of *) apply ff_map_val. apply IH'; exact HF.
    - (* recover_with *) apply (Hrw dflt r (fun l c' s => run f g l c' s)). apply IH'; exact HF.
  Qed.
End Step.

(** every successful run returns a lexer with the filter it was given *)
Theorem run_filter_frame : forall fuel g lx c st, ff (c_filter lx) (run fuel g lx c st).
Proof. induction fuel as [|f IH]; intros g lx c st; [exact I|]. apply (frame_step f IH). Qed.

Corollary filter_after_success fuel g lx c st v lx' st' : run fuel g lx c st = (ROk v lx', st') -> c_filter lx' = c_filter lx.
Proof. intros E. pose proof (run_filter_frame fuel g lx c st) as H. rewrite E in H. exact H. Qed.
