(** Scanner interface and the harness scanners (harness/FORMAT-parse.md) as Gallina functions.
    A scanner is user code; the library only requires [scan(&mut self, source, base)]. The
    three concrete scanners below are implemented identically in harness/hparse. *)
From Tephra Require Export Source.

Inductive kind :=
| KA | KB | KC | KD | KX | KU | KWs | KComma | KSemi | KHash | KLP | KRP | KLK | KRK | KLC | KRC.

Definition kind_eqb (a b : kind) : bool :=
  match a, b with
  | KA, KA | KB, KB | KC, KC | KD, KD | KX, KX | KU, KU | KWs, KWs | KComma, KComma | KSemi, KSemi
  | KHash, KHash | KLP, KLP | KRP, KRP | KLK, KLK | KRK, KRK | KLC, KLC | KRC, KRC => true
  | _, _ => false
  end.

Lemma kind_eqb_spec a b : reflect (a = b) (kind_eqb a b).
Proof. destruct a, b; cbn; constructor; congruence. Qed.

Record tok := mktok { tkind : kind; tn : nat }.
Definition tok_eqb (a b : tok) : bool := kind_eqb (tkind a) (tkind b) && (tn a =? tn b).

Lemma tok_eqb_spec a b : reflect (a = b) (tok_eqb a b).
Proof.
  destruct a as [k n], b as [k' n']; unfold tok_eqb; cbn.
  destruct (kind_eqb_spec k k'), (Nat.eqb_spec n n'); cbn; constructor; congruence.
Qed.

(** scanner state: the three harness scanners in one type *)
Inductive smode := Plain | Counting (c : nat) | Modal (swapped : bool).

(** Character identities are small indices (the driver's alphabet table, ocaml/common.ml):
    a=1 b=2 c=3 d=4 x=5 sp=6 é=7 世=8 ZWSP=9 😀=10 U+0301=11 !=12 ,=13 ;=14 #=15 (=16 )=17 [=18 ]=19 {=20 }=21 *)
Definition is_ws (c : chr) : bool :=
  match c with
  | Tab | Cr | Lf => true
  | Ch _ _ 6 => true
  | _ => false
  end.

(** anything not listed ('!') is unrecognised *)
Definition kind_of_chr (c : chr) : option kind :=
  match c with
  | Ch _ _ 1 => Some KA | Ch _ _ 2 => Some KB | Ch _ _ 3 => Some KC | Ch _ _ 4 => Some KD
  | Ch _ _ 5 => Some KX
  | Ch _ _ 7 => Some KU | Ch _ _ 8 => Some KU | Ch _ _ 9 => Some KU
  | Ch _ _ 10 => Some KU | Ch _ _ 11 => Some KU
  | Ch _ _ 13 => Some KComma | Ch _ _ 14 => Some KSemi | Ch _ _ 15 => Some KHash
  | Ch _ _ 16 => Some KLP | Ch _ _ 17 => Some KRP | Ch _ _ 18 => Some KLK | Ch _ _ 19 => Some KRK
  | Ch _ _ 20 => Some KLC | Ch _ _ 21 => Some KRC
  | _ => None
  end.

Fixpoint take_ws (suf : text) : text :=
  match suf with
  | c :: r => if is_ws c then c :: take_ws r else []
  | [] => []
  end.

(** state update and the kind/count actually delivered *)
Definition scan_step (st : smode) (k : kind) : tok * smode :=
  match st with
  | Plain => (mktok k 0, Plain)
  | Counting c => (mktok k (S c), Counting (S c))
  | Modal sw =>
    let k' := if sw then match k with KA => KB | KB => KA | _ => k end else k in
    let sw' := match k with KLP => true | KRP => false | _ => sw end in
    (mktok k' 0, Modal sw')
  end.

(** [scan]: slices the source at [base.byte] (a panic when that is no character boundary),
    recognises one token, and measures its end with
    [metrics.end_position(&src[..end], base)], i.e. [end_scan] over the token's characters. *)
Definition scan (st : smode) (m : metrics) (t : text) (base : pos)
  : res (option (tok * pos * smode)) :=
  match split_at t (byte base) with
  | None => Panic
  | Some (_, suf) =>
    match suf with
    | [] => Ok None
    | c :: _ =>
      if is_ws c then
        do e <- end_scan m (take_ws suf) base;
        let (tk, st') := scan_step st KWs in Ok (Some (tk, e, st'))
      else
        match kind_of_chr c with
        | None => Ok None
        | Some k =>
          do e <- end_scan m [c] base;
          let (tk, st') := scan_step st k in Ok (Some (tk, e, st'))
        end
    end
  end.

(** token filters of the harness: a filter returns [true] for tokens to keep *)
Inductive fspec := FDrop (ks : list kind) | FKeep (ks : list kind).
Definition kind_in (k : kind) (ks : list kind) : bool := existsb (kind_eqb k) ks.
Definition fkeep (f : fspec) (tk : tok) : bool :=
  match f with
  | FDrop ks => negb (kind_in (tkind tk) ks)
  | FKeep ks => kind_in (tkind tk) ks
  end.

(** recovery strategies (tephra-error/src/recover.rs): stop before / after one of the kinds.
    [recover_before]/[recover_before_any] and [recover_after]/[recover_after_any] differ only in
    taking one token or a collection. A lexer refers to a Recover object by the identity of its
    [Rc] (the flag of an "after" strategy is shared state) and carries its strategy. *)
Inductive rspec := RBefore (ks : list kind) | RAfter (ks : list kind).
Definition rref : Type := nat * rspec.
