(** C07: the repetition loops of repeat.rs, characterised for arbitrary item / separator / stop
    parsers (they are parameters: any function from lexer and store to a result).

    [iter] is the declarative reading: items are taken one after the other, each from the lexer
    the previous one returned. The loops return exactly a maximal such iteration - maximal
    because the upper bound is reached, because the stop parser succeeds, or because the next
    step (separator then item, as one unit) fails - and the lexer they return is the one the
    last accepted step returned. *)
From Tephra Require Import CLexer Run.

Section Loops.
  Variable stop : option (clexer -> store -> R).
  Variable step : clexer -> store -> R.

  (** the stop parser (if any) was tried at this item boundary and failed, leaving store [st0] *)
  Definition stop_fails (cur : clexer) (st st0 : store) : Prop :=
    match stop with
    | None => st0 = st
    | Some sp => exists e, sp cur st = (RErr e, st0)
    end.
  Definition stop_hits (cur : clexer) (st st0 : store) : Prop :=
    match stop with
    | None => False
    | Some sp => exists v l, sp cur st = (ROk v l, st0)
    end.

  Inductive iter : list val -> clexer -> store -> list val -> clexer -> store -> Prop :=
  | iter_nil vals cur st : iter vals cur st vals cur st
  | iter_cons vals cur st st0 v lx' st' vals2 cur2 st2 :
      stop_fails cur st st0 -> step cur st0 = (ROk v lx', st') ->
      iter (vals ++ [v]) lx' st' vals2 cur2 st2 -> iter vals cur st vals2 cur2 st2.

  Lemma iter_length vals cur st l lxf stl : iter vals cur st l lxf stl -> length vals <= length l.
  Proof. induction 1 as [|? ? ? ? ? ? ? ? ? ? _ _ _ IH]; [lia|]. rewrite app_length in IH. cbn in IH. lia. Qed.

  Lemma iter_prefix vals cur st l lxf stl : iter vals cur st l lxf stl -> exists more, l = vals ++ more.
  Proof.
    induction 1 as [vals|? ? ? ? v ? ? ? ? ? _ _ _ [more ->]]; [exists []; rewrite app_nil_r; reflexivity|].
    exists (v :: more). rewrite <- app_assoc. reflexivity.
  Qed.

  (** why the optional phase ended *)
  Definition ends (hi : option nat) (l : list val) (lxf : clexer) (stl stf : store) : Prop :=
    (ge_opt (length l) hi = true /\ stf = stl)
    \/ stop_hits lxf stl stf
    \/ (exists st0 e, stop_fails lxf stl st0 /\ step lxf st0 = (RErr e, stf)).

  Lemma lt_ge_opt n hi : lt_opt n hi = negb (ge_opt n hi).
  Proof. unfold lt_opt, ge_opt. destruct hi as [h|]; [|reflexivity]. destruct (Nat.ltb_spec n h), (Nat.leb_spec h n); cbn [negb]; try reflexivity; lia. Qed.

  Lemma opt_loop_spec : forall n hi vals cur st v lxf stf,
    opt_loop n hi stop step vals cur st = (ROk v lxf, stf) ->
    exists l stl, v = VList l /\ iter vals cur st l lxf stl /\ ends hi l lxf stl stf.
  Proof.
    induction n as [|n IH]; intros hi vals cur st v lxf stf H; cbn [opt_loop] in H; [discriminate|].
    rewrite lt_ge_opt in H. destruct (ge_opt (length vals) hi) eqn:Ege; cbn [negb] in H.
    { injection H as <- <- <-. exists vals, st. split; [reflexivity|]. split; [constructor|]. left. split; [exact Ege|reflexivity]. }
    assert (Hgo : forall st0, stop_fails cur st st0 ->
              match step cur st0 with
              | (ROk v0 lx', st') =>
                let vals' := vals ++ [v0] in
                if ge_opt (length vals') hi then (ROk (VList vals') lx', st')
                else opt_loop n hi stop step vals' lx' st'
              | (RErr _, st') => (ROk (VList vals) cur, st')
              | r => r
              end = (ROk v lxf, stf) ->
              exists l stl, v = VList l /\ iter vals cur st l lxf stl /\ ends hi l lxf stl stf).
    { intros st0 Hsf Hm. destruct (step cur st0) as [[v0 lx'|e| |] st'] eqn:Es; try discriminate Hm.
      - cbn zeta in Hm. destruct (ge_opt (length (vals ++ [v0])) hi) eqn:Ege'.
        + injection Hm as <- <- <-. exists (vals ++ [v0]), st'. split; [reflexivity|].
          split; [econstructor; [exact Hsf|exact Es|constructor]|]. left. split; [exact Ege'|reflexivity].
        + destruct (IH hi _ lx' st' v lxf stf Hm) as (l & stl & -> & Hit & Hend).
          exists l, stl. split; [reflexivity|]. split; [econstructor; eassumption|exact Hend].
      - injection Hm as <- <- <-. exists vals, st. split; [reflexivity|]. split; [constructor|].
        right; right. exists st0, e. split; [exact Hsf|exact Es]. }
    destruct stop as [sp|] eqn:Estop.
    - destruct (sp cur st) as [[v0 l0|e| |] st'] eqn:Esp; try discriminate H.
      + injection H as <- <- <-. exists vals, st. split; [reflexivity|]. split; [constructor|].
        right; left. unfold stop_hits. rewrite Estop. exists v0, l0. exact Esp.
      + apply (Hgo st'); [|exact H]. unfold stop_fails. rewrite Estop. exists e. exact Esp.
    - apply (Hgo st); [|exact H]. unfold stop_fails. rewrite Estop. reflexivity.
  Qed.

  (** the optional phase never exceeds the upper bound *)
  Lemma opt_loop_upper : forall n h vals cur st l lxf stf,
    opt_loop n (Some h) stop step vals cur st = (ROk (VList l) lxf, stf) -> length vals <= h -> length l <= h.
  Proof.
    induction n as [|n IH]; intros h vals cur st l lxf stf H Hle; cbn [opt_loop] in H; [discriminate|].
    cbn [lt_opt] in H. destruct (Nat.ltb_spec (length vals) h) as [Hlt|Hge].
    2:{ injection H as <- _ _. exact Hle. }
    assert (Hgo : forall st0,
              match step cur st0 with
              | (ROk v0 lx', st') =>
                let vals' := vals ++ [v0] in
                if ge_opt (length vals') (Some h) then (ROk (VList vals') lx', st')
                else opt_loop n (Some h) stop step vals' lx' st'
              | (RErr _, st') => (ROk (VList vals) cur, st')
              | r => r
              end = (ROk (VList l) lxf, stf) -> length l <= h).
    { intros st0 Hm. destruct (step cur st0) as [[v0 lx'|e| |] st'] eqn:Es; try discriminate Hm.
      - cbn zeta in Hm. assert (Hl : length (vals ++ [v0]) <= h) by (rewrite app_length; cbn; lia).
        destruct (ge_opt (length (vals ++ [v0])) (Some h)).
        + injection Hm as <- _ _. exact Hl.
        + exact (IH h _ lx' st' l lxf stf Hm Hl).
      - injection Hm as <- _ _. exact Hle. }
    destruct stop as [sp|].
    - destruct (sp cur st) as [[v0 l0|e| |] st'] eqn:Esp; try discriminate H.
      + injection H as <- _ _. exact Hle.
      + exact (Hgo st' H).
    - exact (Hgo st H).
  Qed.

  (** the mandatory phase: either it hands at least [lo] items to the continuation, or the stop
      parser ended it early *)
  Lemma mand_loop_ok : forall n lo vals cur st k v lxf stf,
    mand_loop n lo stop step vals cur st k = (ROk v lxf, stf) ->
    (exists l lxm stl, iter vals cur st l lxm stl /\ lo <= length l /\ length l <= Nat.max lo (length vals)
                       /\ k l lxm stl = (ROk v lxf, stf))
    \/ (exists l stl, v = VList l /\ iter vals cur st l lxf stl /\ length l < lo /\ stop_hits lxf stl stf).
  Proof.
    induction n as [|n IH]; intros lo vals cur st k v lxf stf H; cbn [mand_loop] in H; [discriminate|].
    destruct (Nat.ltb_spec (length vals) lo) as [Hlt|Hge].
    2:{ left. exists vals, cur, st. split; [constructor|]. split; [exact Hge|]. split; [lia|exact H]. }
    assert (Hgo : forall st0, stop_fails cur st st0 ->
              match step cur st0 with
              | (ROk v0 lx', st') => mand_loop n lo stop step (vals ++ [v0]) lx' st' k
              | r => r
              end = (ROk v lxf, stf) ->
              (exists l lxm stl, iter vals cur st l lxm stl /\ lo <= length l /\ length l <= Nat.max lo (length vals)
                                 /\ k l lxm stl = (ROk v lxf, stf))
              \/ (exists l stl, v = VList l /\ iter vals cur st l lxf stl /\ length l < lo /\ stop_hits lxf stl stf)).
    { intros st0 Hsf Hm. destruct (step cur st0) as [[v0 lx'|e| |] st'] eqn:Es; try discriminate Hm.
      destruct (IH lo _ lx' st' k v lxf stf Hm) as [(l & lxm & stl & Hit & Hlen & Hmax & Hk)|(l & stl & -> & Hit & Hlen & Hh)].
      - left. exists l, lxm, stl. split; [econstructor; eassumption|]. split; [exact Hlen|]. split; [|exact Hk].
        rewrite app_length in Hmax. cbn [length] in Hmax. lia.
      - right. exists l, stl. split; [reflexivity|]. split; [econstructor; eassumption|]. split; assumption. }
    destruct stop as [sp|] eqn:Estop.
    - destruct (sp cur st) as [[v0 l0|e| |] st'] eqn:Esp; try discriminate H.
      + injection H as <- <- <-. right. exists vals, st. split; [reflexivity|]. split; [constructor|].
        split; [exact Hlt|]. unfold stop_hits. rewrite Estop. exists v0, l0. exact Esp.
      + apply (Hgo st'); [|exact H]. unfold stop_fails. rewrite Estop. exists e. exact Esp.
    - apply (Hgo st); [|exact H]. unfold stop_fails. rewrite Estop. reflexivity.
  Qed.

  (** ... and it fails exactly when a step fails with fewer than [lo] items taken (or the
      continuation fails) *)
  Lemma mand_loop_err : forall n lo vals cur st k e stf,
    mand_loop n lo stop step vals cur st k = (RErr e, stf) ->
    (exists l lxm stl, iter vals cur st l lxm stl /\ lo <= length l /\ k l lxm stl = (RErr e, stf))
    \/ (exists l lxm stl st0, iter vals cur st l lxm stl /\ length l < lo /\ stop_fails lxm stl st0
                              /\ step lxm st0 = (RErr e, stf)).
  Proof.
    induction n as [|n IH]; intros lo vals cur st k e stf H; cbn [mand_loop] in H; [discriminate|].
    destruct (Nat.ltb_spec (length vals) lo) as [Hlt|Hge].
    2:{ left. exists vals, cur, st. split; [constructor|]. split; [exact Hge|exact H]. }
    assert (Hgo : forall st0, stop_fails cur st st0 ->
              match step cur st0 with
              | (ROk v0 lx', st') => mand_loop n lo stop step (vals ++ [v0]) lx' st' k
              | r => r
              end = (RErr e, stf) ->
              (exists l lxm stl, iter vals cur st l lxm stl /\ lo <= length l /\ k l lxm stl = (RErr e, stf))
              \/ (exists l lxm stl st1, iter vals cur st l lxm stl /\ length l < lo /\ stop_fails lxm stl st1
                                        /\ step lxm st1 = (RErr e, stf))).
    { intros st0 Hsf Hm. destruct (step cur st0) as [[v0 lx'|e0| |] st'] eqn:Es; try discriminate Hm.
      - destruct (IH lo _ lx' st' k e stf Hm) as [(l & lxm & stl & Hit & Hlen & Hk)|(l & lxm & stl & st1 & Hit & Hlen & Hsf1 & Hs1)].
        + left. exists l, lxm, stl. split; [econstructor; eassumption|]. split; assumption.
        + right. exists l, lxm, stl, st1. split; [econstructor; eassumption|]. repeat (split; [assumption|]). assumption.
      - injection Hm as <- <-. right. exists vals, cur, st, st0. split; [constructor|]. split; [exact Hlt|]. split; [exact Hsf|exact Es]. }
    destruct stop as [sp|] eqn:Estop.
    - destruct (sp cur st) as [[v0 l0|e0| |] st'] eqn:Esp; try discriminate H.
      apply (Hgo st'); [|exact H]. unfold stop_fails. rewrite Estop. exists e0. exact Esp.
    - apply (Hgo st); [|exact H]. unfold stop_fails. rewrite Estop. reflexivity.
  Qed.
End Loops.

(** * intersperse / repeat (no stop parser) *)

Section Intersperse.
  Variable runf : G -> clexer -> ctx -> store -> R.

  Lemma hi_check_none lo hi lx st : hi_check lo hi lx st = None ->
    match hi with Some h => lo <= h /\ 0 < h | None => True end.
  Proof.
    unfold hi_check. destruct hi as [h|]; [|tauto].
    destruct (Nat.ltb_spec h lo); [discriminate|]. destruct (Nat.eqb_spec h 0); [discriminate|]. intros _. lia.
  Qed.

  Lemma iter_trans stop step v1 c1 s1 v2 c2 s2 v3 c3 s3 :
    iter stop step v1 c1 s1 v2 c2 s2 -> iter stop step v2 c2 s2 v3 c3 s3 -> iter stop step v1 c1 s1 v3 c3 s3.
  Proof. induction 1 as [|? ? ? ? ? ? ? ? ? ? Hsf Hs _ IH]; intros H2; [exact H2|]. econstructor; [exact Hsf|exact Hs|exact (IH H2)]. Qed.

  (** success of [intersperse(parser, inter, low, high)] (hence of repeat, intersperse_default
      and, through [count_of], of the counting variants): the value is the list of a maximal
      iteration of "separator then item" after a first item, between [lo] and [hi] long, and the
      returned lexer is the one the last accepted step returned *)
  Theorem run_intersperse_ok n lo hi a s lx c st v lxf stf :
    run_intersperse runf n lo hi a s lx c st = (ROk v lxf, stf) ->
    exists l, v = VList l /\ lo <= length l /\ (forall h, hi = Some h -> length l <= h) /\
      ((l = [] /\ lxf = lx /\
         (hi = Some 0 /\ stf = st \/ lo = 0 /\ exists e, runf a lx c st = (RErr e, stf)))
       \/ (exists v1 lx1 st1 stl, runf a lx c st = (ROk v1 lx1, st1)
             /\ iter None (right_of runf s a c) [v1] lx1 st1 l lxf stl
             /\ (ge_opt (length l) hi = true /\ stf = stl
                 \/ exists e, right_of runf s a c lxf stl = (RErr e, stf)))).
  Proof.
    unfold run_intersperse. destruct (hi_check lo hi lx st) as [r|] eqn:Ehc.
    - (* high = 0 *)
      unfold hi_check in Ehc. destruct hi as [h|]; [|discriminate].
      destruct (Nat.ltb_spec h lo) as [Hlt|Hge]; [injection Ehc as <-; intros Hx; discriminate Hx|].
      destruct (Nat.eqb_spec h 0) as [->|]; [|discriminate]. injection Ehc as <-. intros H. injection H as <- <- <-.
      exists []. split; [reflexivity|]. split; [cbn; lia|]. split; [intros h' E; cbn; lia|].
      left. split; [reflexivity|]. split; [reflexivity|]. left. split; reflexivity.
    - pose proof (hi_check_none _ _ _ _ Ehc) as Hb.
      destruct (runf a lx c st) as [[v1 lx1|e| |] st1] eqn:Ea; try discriminate.
      + intros H. apply mand_loop_ok in H.
        destruct H as [(l & lxm & stl & Hit & Hlen & Hmax & Hk)|(l & stl & _ & _ & _ & [])].
        pose proof Hk as Hk'. apply opt_loop_spec in Hk. destruct Hk as (l2 & stl2 & -> & Hit2 & Hend).
        exists l2. split; [reflexivity|].
        pose proof (iter_length _ _ _ _ _ _ _ _ Hit2) as Hl2.
        split; [lia|]. split.
        { intros h ->. destruct Hb as [Hb1 Hb2]. apply (opt_loop_upper _ _ _ _ _ _ _ _ _ _ Hk'). cbn [length] in Hmax. lia. }
        right. exists v1, lx1, st1, stl2. split; [reflexivity|]. split; [exact (iter_trans _ _ _ _ _ _ _ _ _ _ _ Hit Hit2)|].
        destruct Hend as [Hge|[[]|(st0 & e & -> & Hs)]]; [left; exact Hge|right; exists e; exact Hs].
      + destruct (Nat.eqb_spec lo 0) as [->|]; [|discriminate]. intros H. injection H as <- <- <-.
        exists []. split; [reflexivity|]. split; [cbn; lia|]. split; [intros h' E; cbn; lia|].
        left. split; [reflexivity|]. split; [reflexivity|]. right. split; [reflexivity|]. exists e. reflexivity.
  Qed.

  (** failure: exactly when fewer than [lo] items could be taken; the error is that of the step
      (first item, or separator-then-item) that failed *)
  Theorem run_intersperse_err n lo hi a s lx c st e stf :
    run_intersperse runf n lo hi a s lx c st = (RErr e, stf) ->
    (0 < lo /\ runf a lx c st = (RErr e, stf))
    \/ (exists v1 lx1 st1 l lxm stl, runf a lx c st = (ROk v1 lx1, st1)
          /\ iter None (right_of runf s a c) [v1] lx1 st1 l lxm stl /\ length l < lo
          /\ right_of runf s a c lxm stl = (RErr e, stf)).
  Proof.
    unfold run_intersperse. destruct (hi_check lo hi lx st) as [r|] eqn:Ehc.
    - unfold hi_check in Ehc. destruct hi as [h|]; [|discriminate].
      destruct (Nat.ltb_spec h lo) as [Hlt|Hge]; [injection Ehc as <-; intros Hx; discriminate Hx|].
      destruct (Nat.eqb_spec h 0) as [->|]; [|discriminate]. injection Ehc as <-. intros Hx; discriminate Hx.
    - destruct (runf a lx c st) as [[v1 lx1|e1| |] st1] eqn:Ea; try discriminate.
      + intros H. apply mand_loop_err in H.
        destruct H as [(l & lxm & stl & Hit & Hlen & Hk)|(l & lxm & stl & st0 & Hit & Hlen & Hsf & Hs)].
        * (* the optional phase never fails *)
          exfalso. clear - Hk. revert l lxm stl Hk. induction n as [|n IH]; intros l lxm stl Hk; cbn [opt_loop] in Hk; [discriminate|].
          destruct (lt_opt (length l) hi); [|discriminate].
          destruct (right_of runf s a c lxm stl) as [[v0 lx'|e0| |] st'] eqn:Es; try discriminate.
          cbn zeta in Hk. destruct (ge_opt (length (l ++ [v0])) hi); [discriminate|]. exact (IH _ _ _ Hk).
        * right. cbn [stop_fails] in Hsf. subst st0. exists v1, lx1, st1, l, lxm, stl. repeat (split; [first [assumption|reflexivity]|]). assumption.
      + destruct (Nat.eqb_spec lo 0) as [->|Hne]; [discriminate|]. intros H. injection H as <- <-.
        left. split; [lia|reflexivity].
  Qed.

  (** the until-variants: the same, except that the stop parser is tried (on a clone: its lexer is
      discarded) at every item boundary, and its success ends the repetition there, without
      failing, whatever the lower bound *)
  Theorem run_intersperse_until_ok n lo hi stopg a s lx c st v lxf stf :
    run_intersperse_until runf n lo hi stopg a s lx c st = (ROk v lxf, stf) ->
    let stopf := fun l st => runf stopg l c st in
    exists l, v = VList l /\ (forall h, hi = Some h -> length l <= h) /\
      ((l = [] /\ lxf = lx /\
         (hi = Some 0 /\ stf = st
          \/ (exists v0 l0, stopf lx st = (ROk v0 l0, stf))
          \/ lo = 0 /\ exists e0 st0 e, stopf lx st = (RErr e0, st0) /\ runf a lx c st0 = (RErr e, stf)))
       \/ (exists e0 st0 v1 lx1 st1 stl, stopf lx st = (RErr e0, st0) /\ runf a lx c st0 = (ROk v1 lx1, st1)
             /\ iter (Some stopf) (right_of runf s a c) [v1] lx1 st1 l lxf stl
             /\ (ge_opt (length l) hi = true /\ lo <= length l /\ stf = stl
                 \/ (exists v0 l0, stopf lxf stl = (ROk v0 l0, stf))
                 \/ lo <= length l /\ exists e1 st2 e, stopf lxf stl = (RErr e1, st2)
                                                     /\ right_of runf s a c lxf st2 = (RErr e, stf)))).
  Proof.
    cbv zeta beta. unfold run_intersperse_until. destruct (hi_check lo hi lx st) as [r|] eqn:Ehc.
    - unfold hi_check in Ehc. destruct hi as [h|]; [|discriminate].
      destruct (Nat.ltb_spec h lo) as [Hlt|Hge]; [injection Ehc as <-; intros Hx; discriminate Hx|].
      destruct (Nat.eqb_spec h 0) as [->|]; [|discriminate]. injection Ehc as <-. intros H. injection H as <- <- <-.
      exists []. split; [reflexivity|]. split; [intros h' E; cbn; lia|].
      left. split; [reflexivity|]. split; [reflexivity|]. left. split; reflexivity.
    - pose proof (hi_check_none _ _ _ _ Ehc) as Hb.
      destruct (runf stopg lx c st) as [[v0 l0|e0| |] st0] eqn:Est; try (intros Hx; discriminate Hx).
      + intros H. injection H as <- <- <-. exists []. split; [reflexivity|]. split; [intros h' E; cbn; lia|].
        left. split; [reflexivity|]. split; [reflexivity|]. right; left. exists v0, l0. reflexivity.
      + destruct (runf a lx c st0) as [[v1 lx1|e| |] st1] eqn:Ea; try (intros Hx; discriminate Hx).
        * intros H. apply mand_loop_ok in H.
          destruct H as [(l & lxm & stl & Hit & Hlen & Hmax & Hk)|(l & stl & -> & Hit & Hlen & (v0 & l0 & Hh))].
          -- pose proof Hk as Hk'. apply opt_loop_spec in Hk. destruct Hk as (l2 & stl2 & -> & Hit2 & Hend).
             exists l2. split; [reflexivity|].
             pose proof (iter_length _ _ _ _ _ _ _ _ Hit2) as Hl2. split.
             { intros h ->. destruct Hb as [Hb1 Hb2]. apply (opt_loop_upper _ _ _ _ _ _ _ _ _ _ Hk'). cbn [length] in Hmax. lia. }
             right. exists e0, st0, v1, lx1, st1, stl2. split; [reflexivity|]. split; [exact Ea|].
             split; [exact (iter_trans _ _ _ _ _ _ _ _ _ _ _ Hit Hit2)|].
             destruct Hend as [[Hge ->]|[(v0 & l0 & Hh)|(st2 & e & (e1 & Hsf) & Hs)]].
             ++ left. split; [exact Hge|]. split; [lia|reflexivity].
             ++ right; left. exists v0, l0. exact Hh.
             ++ right; right. split; [lia|]. exists e1, st2, e. split; [exact Hsf|exact Hs].
          -- exists l. split; [reflexivity|]. split.
             { intros h ->. destruct Hb as [Hb1 Hb2]. lia. }
             right. exists e0, st0, v1, lx1, st1, stl. split; [reflexivity|]. split; [exact Ea|].
             split; [exact Hit|]. right; left. exists v0, l0. exact Hh.
        * destruct (Nat.eqb_spec lo 0) as [->|Hne]; [|intros Hx; discriminate Hx]. intros H. injection H as <- <- <-.
          exists []. split; [reflexivity|]. split; [intros h' E; cbn; lia|].
          left. split; [reflexivity|]. split; [reflexivity|]. right; right. split; [reflexivity|].
          exists e0, st0, e. split; [reflexivity|exact Ea].
  Qed.

  (** the counting variants report exactly the length of what the collecting variants return,
      at the same lexer and store *)
  Theorem count_of_spec r :
    count_of r = match r with
                 | (ROk (VList l) lx, st) => (ROk (VNat (length l)) lx, st)
                 | _ => r
                 end.
  Proof. destruct r as [[v lx|e| |] st]; cbn; try reflexivity. destruct v; reflexivity. Qed.
End Intersperse.
