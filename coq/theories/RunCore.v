(** C06 (core fragment), and what C01, C02, C08 and C13 get from it: the interpreter, run on a
    lexer that stands anywhere in the sequential scan, computes exactly the PEG reading of
    the grammar on the tokens the lexer will deliver - for every text, scanner state, filter,
    look-ahead state, context and store. *)
From Tephra Require Import MetricsSpec MetricsFacts CLexer LexerFacts Run Peg.

(** membership in the fragment [peg] covers *)
Fixpoint in_core (g : G) : bool :=
  match g with
  | GEmpty | GOne _ | GPred _ | GSeq _ | GUserFail => true
  | GAny ks | GAnyIndex ks => match ks with [] => false | _ => true end
  | GBoth a b | GLeft a b | GRight a b | GEither a b
  | GImplies a b | GAntecedent a b | GConsequent a b | GCondImplies a _ b => in_core a && in_core b
  | GCenter a b d => in_core a && in_core b && in_core d
  | GMap _ a | GDiscard a | GSomeOf a | GSub a | GRaw a | GUnrec a | GCtxPush _ a
  | GMaybe a | GCond _ a | GRequireIf _ a => in_core a
  | _ => false
  end.

Lemma peg_total g : in_core g = true -> forall s, exists r, peg g s = Some r.
Proof.
  induction g; cbn [in_core]; intros H s; try discriminate H; cbn [peg];
    repeat match goal with Hc : _ && _ = true |- _ => apply andb_prop in Hc; destruct Hc end;
    repeat match goal with IH : in_core ?a = true -> _, Hc : in_core ?a = true |- _ => specialize (IH Hc) end;
    try (destruct ks; [discriminate H|]); try (destruct b);
    repeat match goal with
           | IH : forall s, exists r, peg ?a s = Some r |- context [peg ?a ?s0] =>
             let E := fresh "E" in destruct (IH s0) as [[? ?|] E]; rewrite E; cbn [pbind pmap pmaybe]
           | |- context [if ?b then _ else _] => destruct b
           end; eauto.
Qed.

Section Core.
  Variable m : metrics.
  Hypothesis Htab : 1 <= tabw m.
  Variable t : text.
  Hypothesis Ht : wf_text t.
  Local Notation Inv := (Inv m t).

  (** * The lexer interface on the deliverable stream *)

  Lemma next_cons lx ys x s : Inv lx ys -> kept (c_filter lx) ys = x :: s ->
    exists lx' ys', c_next lx = Ok (Some (e_tok x), lx') /\ Inv lx' ys'
      /\ c_filter lx' = c_filter lx /\ c_rec lx' = c_rec lx /\ kept (c_filter lx) ys' = s
      /\ c_ts lx' = e_start x /\ c_cur lx' = e_end x /\ c_buf lx' = None
      /\ c_ps lx' = (if pos_eqb (c_ps lx) (c_cur lx) then e_start x else c_ps lx)
      /\ byte (e_start x) < byte (e_end x).
  Proof using Htab Ht.
    intros HI Hk. pose proof (c_next_spec m Htab t Ht lx ys HI) as H.
    destruct (first_kept (c_filter lx) ys) as [sk o] eqn:EF.
    rewrite (kept_first _ _ _ _ EF) in Hk.
    destruct o as [[x' rest]|]; [|discriminate]. injection Hk as -> <-.
    destruct H as (lx' & E & HI' & Hb & Hf & Hr & A & B & C & D).
    exists lx', rest. repeat (split; [first [assumption|reflexivity]|]). assumption.
  Qed.

  Lemma next_nil lx ys : Inv lx ys -> kept (c_filter lx) ys = [] ->
    exists lx', c_next lx = Ok (None, lx') /\ Inv lx' [] /\ c_filter lx' = c_filter lx /\ c_rec lx' = c_rec lx.
  Proof using Htab Ht.
    intros HI Hk. pose proof (c_next_spec m Htab t Ht lx ys HI) as H.
    destruct (first_kept (c_filter lx) ys) as [sk o] eqn:EF.
    rewrite (kept_first _ _ _ _ EF) in Hk.
    destruct o as [[x' rest]|]; [discriminate|]. exact H.
  Qed.

  Lemma peek_cons lx ys x s : Inv lx ys -> kept (c_filter lx) ys = x :: s ->
    exists lx' ys', c_peek lx = Ok (Some (e_tok x), lx') /\ Inv lx' ys'
      /\ c_filter lx' = c_filter lx /\ c_rec lx' = c_rec lx /\ kept (c_filter lx) ys' = x :: s.
  Proof using Htab Ht.
    intros HI Hk. destruct (c_peek_spec m Htab t Ht lx ys HI) as (lx' & ys' & E & HI' & Hk' & Hf & Hr).
    destruct (first_kept (c_filter lx) ys) as [sk o] eqn:EF.
    rewrite (kept_first _ _ _ _ EF) in Hk.
    destruct o as [[x' rest]|]; [|discriminate]. injection Hk as -> <-.
    exists lx', ys'. cbn [snd option_map fst] in E. split; [exact E|]. split; [exact HI'|].
    split; [exact Hf|]. split; [exact Hr|]. rewrite Hf in Hk'. rewrite Hk'.
    exact (kept_first _ _ _ _ EF).
  Qed.

  Lemma peek_nil lx ys : Inv lx ys -> kept (c_filter lx) ys = [] ->
    exists lx' ys', c_peek lx = Ok (None, lx') /\ Inv lx' ys'
      /\ c_filter lx' = c_filter lx /\ c_rec lx' = c_rec lx /\ kept (c_filter lx) ys' = [].
  Proof using Htab Ht.
    intros HI Hk. destruct (c_peek_spec m Htab t Ht lx ys HI) as (lx' & ys' & E & HI' & Hk' & Hf & Hr).
    destruct (first_kept (c_filter lx) ys) as [sk o] eqn:EF.
    rewrite (kept_first _ _ _ _ EF) in Hk.
    destruct o as [[x' rest]|]; [discriminate|].
    exists lx', ys'. cbn [snd option_map] in E. split; [exact E|]. split; [exact HI'|].
    split; [exact Hf|]. split; [exact Hr|]. rewrite Hf in Hk'. rewrite Hk'.
    exact (kept_first _ _ _ _ EF).
  Qed.

  (** * Agreement of an interpreter result with a PEG result *)

  (** success: same value, the lexer stands where the PEG says, filter and recover state as at
      entry, the store untouched (nothing was sent to the sink, no recovery flag moved);
      failure: an error value, the store untouched *)
  Definition agrees (r : pres) (lx : clexer) (o : R) (st : store) : Prop :=
    match r with
    | POk v s' => exists lx' ys', o = (ROk v lx', st) /\ Inv lx' ys'
                    /\ c_filter lx' = c_filter lx /\ c_rec lx' = c_rec lx /\ kept (c_filter lx) ys' = s'
    | PFail => exists e, o = (RErr e, st)
    end.

  Definition sound (fuel : nat) (g : G) : Prop :=
    forall s r, peg g s = Some r ->
    forall lx ys c st, Inv lx ys -> kept (c_filter lx) ys = s -> agrees r lx (run fuel g lx c st) st.

  (** moving the entry lexer along: agreement from a later lexer with the same filter/recover *)
  Lemma agrees_from r lx lx1 o st : c_filter lx1 = c_filter lx -> c_rec lx1 = c_rec lx ->
    agrees r lx1 o st -> agrees r lx o st.
  Proof.
    intros Hf Hr H. destruct r as [v s'|]; [|exact H].
    destruct H as (lx' & ys' & E & HI & A & B & C). exists lx', ys'.
    split; [exact E|]. split; [exact HI|]. split; [congruence|]. split; [congruence|].
    rewrite <- Hf. exact C.
  Qed.

  Lemma agrees_map f r lx o st : agrees r lx o st ->
    agrees (match r with POk v s => POk (f v) s | PFail => PFail end) lx (map_val f o) st.
  Proof.
    destruct r as [v s'|]; intros H.
    - destruct H as (lx' & ys' & -> & H). exists lx', ys'. split; [reflexivity|exact H].
    - destruct H as (e & ->). exists e. reflexivity.
  Qed.

  (** the single-token primitives *)
  Lemma tok_prim (p : tok -> option val) mkerr lx ys (c : ctx) st s : Inv lx ys -> kept (c_filter lx) ys = s ->
    agrees (p_tok p s) lx
      (lift (c_next lx) st (fun '(o, lx') =>
         match o with
         | Some tk => match p tk with Some v => (ROk v lx', st) | None => (RErr (mkerr lx' (Some tk)), st) end
         | None => (RErr (mkerr lx' None), st)
         end)) st.
  Proof using Htab Ht.
    intros HI Hk. destruct s as [|x s'].
    - destruct (next_nil lx ys HI Hk) as (lx' & E & _). rewrite E. cbn [lift p_tok agrees]. eexists. reflexivity.
    - destruct (next_cons lx ys x s' HI Hk) as (lx' & ys' & E & HI' & Hf & Hr & Hk' & _). rewrite E.
      cbn [lift p_tok]. destruct (p (e_tok x)) as [v|]; cbn [agrees].
      + exists lx', ys'. repeat (split; [first [reflexivity|assumption]|]). assumption.
      + eexists. reflexivity.
  Qed.

  (** [any]/[any_index]: peek, decide, then consume *)
  Lemma any_prim (p : tok -> option val) mkerr1 mkerr2 lx ys (c : ctx) st s : Inv lx ys -> kept (c_filter lx) ys = s ->
    agrees (p_tok p s) lx
      (lift (c_peek lx) st (fun '(o, lx') =>
         match o with
         | Some tk => match p tk with
                      | Some v => lift (c_next lx') st (fun '(_, lx'') => (ROk v lx'', st))
                      | None => (RErr (mkerr1 lx' tk), st)
                      end
         | None => (RErr (mkerr2 lx'), st)
         end)) st.
  Proof using Htab Ht.
    intros HI Hk. destruct s as [|x s'].
    - destruct (peek_nil lx ys HI Hk) as (lx' & ys' & E & _). rewrite E. cbn [lift p_tok agrees]. eexists. reflexivity.
    - destruct (peek_cons lx ys x s' HI Hk) as (lx' & ys' & E & HI' & Hf & Hr & Hk'). rewrite E.
      cbn [lift p_tok]. destruct (p (e_tok x)) as [v|]; cbn [agrees]; [|eexists; reflexivity].
      rewrite <- Hf in Hk'.
      destruct (next_cons lx' ys' x s' HI' Hk') as (lx2 & ys2 & E2 & HI2 & Hf2 & Hr2 & Hk2 & _). rewrite E2. cbn [lift].
      exists lx2, ys2. split; [reflexivity|]. split; [exact HI2|]. split; [congruence|]. split; [congruence|].
      rewrite <- Hf. exact Hk2.
  Qed.

  Lemma seq_prim es st : forall ks acc lx ys s, Inv lx ys -> kept (c_filter lx) ys = s ->
    agrees (pseq ks acc s) lx
      ((fix go (ks : list kind) (acc : list val) (l : clexer) : R :=
         match ks with
         | [] => (ROk (VList acc) l, st)
         | k :: r =>
           lift (c_next l) st (fun '(o, l') =>
           match o with
           | Some t => if tok_eqb t (tk0 k) then go r (acc ++ [VTok t]) l'
                       else (RErr (EUnexpected es (c_token_span l') (ExTok (tk0 k)) (Some t)), st)
           | None => (RErr (EUnexpected es (c_token_span l') (ExTok (tk0 k)) None), st)
           end)
         end) ks acc lx) st.
  Proof using Htab Ht.
    induction ks as [|k r IH]; intros acc lx ys s HI Hk.
    - cbn [pseq agrees]. exists lx, ys. repeat (split; [first [reflexivity|assumption]|]). assumption.
    - cbn [pseq]. destruct s as [|x s'].
      + destruct (next_nil lx ys HI Hk) as (lx' & E & _). rewrite E. cbn [lift agrees]. eexists. reflexivity.
      + destruct (next_cons lx ys x s' HI Hk) as (lx' & ys' & E & HI' & Hf & Hr & Hk' & _). rewrite E. cbn [lift].
        destruct (tok_eqb (e_tok x) (tk0 k)); [|eexists; reflexivity].
        apply (agrees_from _ lx lx'); [exact Hf|exact Hr|].
        apply (IH _ lx' ys' s' HI'). rewrite Hf. exact Hk'.
  Qed.

  (** running a sub-grammar whose soundness is known, from a lexer related to the entry lexer *)
  Lemma sound_at fuel g (Hs : sound fuel g) s r lx0 lx ys c st :
    peg g s = Some r -> Inv lx ys -> c_filter lx = c_filter lx0 -> c_rec lx = c_rec lx0 ->
    kept (c_filter lx0) ys = s -> agrees r lx0 (run fuel g lx c st) st.
  Proof.
    intros Hp HI Hf Hr Hk. apply (agrees_from _ lx0 lx); [exact Hf|exact Hr|].
    apply (Hs s r Hp lx ys c st HI). rewrite Hf. exact Hk.
  Qed.

  Ltac inv_some H := first [discriminate H | injection H as H; rewrite <- H].

  (** [maybe] at the interpreter level *)
  Lemma maybe_sound f a : sound f a -> sound (S f) (GMaybe a).
  Proof.
    intros Ha s r Hp lx ys c st HI Hk. cbn [peg] in Hp. cbn [run].
    destruct (peg a s) as [[v s1|]|] eqn:Ea; cbn [pmaybe] in Hp; inv_some Hp.
    - destruct (Ha s _ Ea lx ys (ctx_unrec c) st HI Hk) as (lx' & ys' & E & H). rewrite E.
      exists lx', ys'. split; [reflexivity|exact H].
    - destruct (Ha s _ Ea lx ys (ctx_unrec c) st HI Hk) as (e & E). rewrite E.
      exists lx, ys. repeat (split; [first [reflexivity|assumption]|]). assumption.
  Qed.

  (** the shape shared by implies / antecedent / consequent / cond_implies *)
  Lemma ante_sound f a (kp : val -> list entry -> option pres) (kr : val -> clexer -> store -> R) :
    sound f (GMaybe a) ->
    (forall l s1 r lx0 lx1 ys1 st, kp l s1 = Some r -> Inv lx1 ys1 -> c_filter lx1 = c_filter lx0 ->
       c_rec lx1 = c_rec lx0 -> kept (c_filter lx0) ys1 = s1 -> agrees r lx0 (kr l lx1 st) st) ->
    forall s r lx ys c st, pbind (pmaybe (peg a s) s) kp = Some r -> Inv lx ys -> kept (c_filter lx) ys = s ->
      agrees r lx (on_ok (run f (GMaybe a) lx c st) kr) st.
  Proof.
    intros Hm Hk s r lx ys c st Hp HI Hkk.
    destruct (pmaybe (peg a s) s) as [[v s1|]|] eqn:Em; cbn [pbind] in Hp; try discriminate.
    - destruct (Hm s _ Em lx ys c st HI Hkk) as (lx1 & ys1 & E & HI1 & Hf & Hr & Hk1). rewrite E. cbn [on_ok].
      apply (Hk v s1 r lx lx1 ys1 st Hp HI1 Hf Hr Hk1).
    - (* maybe never fails *)
      exfalso. destruct (peg a s) as [[? ?|]|]; cbn [pmaybe] in Em; discriminate.
  Qed.

  Theorem run_core : forall fuel g, gdepth g < fuel -> sound fuel g.
  Proof using Htab Ht.
    induction fuel as [fuel IH0] using lt_wf_ind. intros g Hd. destruct fuel as [|f]; [lia|].
    assert (IH : forall g, gdepth g < f -> sound f g) by (intros g' Hg'; apply IH0; lia).
    assert (IHm : forall a, S (gdepth a) < f -> sound f (GMaybe a)).
    { intros a Ha. destruct f as [|f']; [lia|]. apply maybe_sound. apply IH0; lia. }
    intros s r Hp lx ys c st HI Hk.
    destruct g; cbn [gdepth] in Hd; cbn [peg] in Hp; try discriminate Hp.
    - (* empty *) inv_some Hp. cbn [run]. exists lx, ys. repeat (split; [first [reflexivity|assumption]|]). assumption.
    - (* one *) inv_some Hp. cbn [run].
      pose proof (tok_prim (fun t0 => if tok_eqb t0 (tk0 k) then Some (VTok t0) else None)
                    (fun l o => EUnexpected (c_parse_span lx) (c_token_span l) (ExTok (tk0 k)) o) lx ys c st s HI Hk) as H.
      cbn beta in H.
      match goal with |- agrees ?r _ ?o _ => match type of H with agrees ?r' _ ?o' _ =>
        replace o with o'; [exact H|] end end.
      destruct (c_next lx) as [[[tk|] l']| |]; cbn [lift]; try reflexivity. destruct (tok_eqb tk (tk0 k)); reflexivity.
    - (* any *) destruct ks as [|k0 ks]; [discriminate|]. inv_some Hp. cbn [run].
      pose proof (any_prim (any_of (k0 :: ks) (fun i => VTok (tk0 (nth i (k0 :: ks) KA))))
                    (fun l tk => EUnexpected (c_parse_span lx) (peeked_span l) (ExAny (map tk0 (k0 :: ks))) (Some tk))
                    (fun l => EUnexpected (c_parse_span lx) (c_token_span l) (ExAny (map tk0 (k0 :: ks))) None)
                    lx ys c st s HI Hk) as H.
      cbn beta in H.
      match goal with |- agrees ?r _ ?o _ => match type of H with agrees ?r' _ ?o' _ =>
        replace o with o'; [exact H|] end end.
      destruct (c_peek lx) as [[[tk|] l']| |]; cbn [lift]; try reflexivity. unfold any_of.
      destruct (position (fun k => tok_eqb tk (tk0 k)) (k0 :: ks)); reflexivity.
    - (* any_index *) destruct ks as [|k0 ks]; [discriminate|]. inv_some Hp. cbn [run].
      pose proof (any_prim (any_of (k0 :: ks) VNat)
                    (fun l tk => EUnexpected (c_parse_span lx) (peeked_span l) (ExAny (map tk0 (k0 :: ks))) (Some tk))
                    (fun l => EUnexpected (c_parse_span lx) (c_token_span l) (ExAny (map tk0 (k0 :: ks))) None)
                    lx ys c st s HI Hk) as H.
      cbn beta in H.
      match goal with |- agrees ?r _ ?o _ => match type of H with agrees ?r' _ ?o' _ =>
        replace o with o'; [exact H|] end end.
      destruct (c_peek lx) as [[[tk|] l']| |]; cbn [lift]; try reflexivity. unfold any_of.
      destruct (position (fun k => tok_eqb tk (tk0 k)) (k0 :: ks)); reflexivity.
    - (* seq *) inv_some Hp. cbn [run]. apply (seq_prim (c_parse_span lx) st ks [] lx ys s HI Hk).
    - (* pred *) inv_some Hp. cbn [run].
      pose proof (tok_prim (fun t0 => if peval p t0 then Some (VTok t0) else None)
                    (fun l o => EUnexpected (c_parse_span lx) (c_token_span l) ExOther o) lx ys c st s HI Hk) as H.
      cbn beta in H.
      match goal with |- agrees ?r _ ?o _ => match type of H with agrees ?r' _ ?o' _ =>
        replace o with o'; [exact H|] end end.
      destruct (c_next lx) as [[[tk|] l']| |]; cbn [lift]; try reflexivity. destruct (peval p tk); reflexivity.
    - (* left *) cbn [run].
      assert (Ha : sound f g1) by (apply IH; lia). assert (Hb : sound f g2) by (apply IH; lia).
      destruct (peg g1 s) as [[l s1|]|] eqn:Ea; cbn [pbind] in Hp; try discriminate.
      + destruct (Ha s _ Ea lx ys c st HI Hk) as (lx1 & ys1 & E & HI1 & Hf & Hr & Hk1). rewrite E. cbn [on_ok].
        destruct (peg g2 s1) as [rb|] eqn:Eb; [|discriminate].
        pose proof (sound_at f g2 Hb s1 rb lx lx1 ys1 c st Eb HI1 Hf Hr Hk1) as H.
        apply (agrees_map (fun _ => l)) in H. destruct rb; cbn [pmap pbind] in Hp; inv_some Hp; exact H.
      + inv_some Hp. destruct (Ha s _ Ea lx ys c st HI Hk) as (e & E). rewrite E. exists e. reflexivity.
    - (* right *) cbn [run].
      assert (Ha : sound f g1) by (apply IH; lia). assert (Hb : sound f g2) by (apply IH; lia).
      destruct (peg g1 s) as [[l s1|]|] eqn:Ea; cbn [pbind] in Hp; try discriminate.
      + destruct (Ha s _ Ea lx ys c st HI Hk) as (lx1 & ys1 & E & HI1 & Hf & Hr & Hk1). rewrite E. cbn [on_ok].
        exact (sound_at f g2 Hb s1 r lx lx1 ys1 c st Hp HI1 Hf Hr Hk1).
      + inv_some Hp. destruct (Ha s _ Ea lx ys c st HI Hk) as (e & E). rewrite E. exists e. reflexivity.
    - (* both *) cbn [run].
      assert (Ha : sound f g1) by (apply IH; lia). assert (Hb : sound f g2) by (apply IH; lia).
      destruct (peg g1 s) as [[l s1|]|] eqn:Ea; cbn [pbind] in Hp; try discriminate.
      + destruct (Ha s _ Ea lx ys c st HI Hk) as (lx1 & ys1 & E & HI1 & Hf & Hr & Hk1). rewrite E. cbn [on_ok].
        destruct (peg g2 s1) as [rb|] eqn:Eb; [|discriminate].
        pose proof (sound_at f g2 Hb s1 rb lx lx1 ys1 c st Eb HI1 Hf Hr Hk1) as H.
        apply (agrees_map (fun r0 => VPair l r0)) in H. destruct rb; cbn [pmap pbind] in Hp; inv_some Hp; exact H.
      + inv_some Hp. destruct (Ha s _ Ea lx ys c st HI Hk) as (e & E). rewrite E. exists e. reflexivity.
    - (* center *) cbn [run].
      assert (Ha : sound f g1) by (apply IH; lia). assert (Hb : sound f g2) by (apply IH; lia).
      assert (Hc : sound f g3) by (apply IH; lia).
      destruct (peg g1 s) as [[l s1|]|] eqn:Ea; cbn [pbind] in Hp; try discriminate.
      + destruct (Ha s _ Ea lx ys c st HI Hk) as (lx1 & ys1 & E & HI1 & Hf & Hr & Hk1). rewrite E. cbn [on_ok].
        destruct (peg g2 s1) as [[v s2|]|] eqn:Eb; cbn [pbind] in Hp; try discriminate.
        * destruct (sound_at f g2 Hb s1 _ lx lx1 ys1 c st Eb HI1 Hf Hr Hk1) as (lx2 & ys2 & E2 & HI2 & Hf2 & Hr2 & Hk2).
          rewrite E2. cbn [on_ok].
          destruct (peg g3 s2) as [rc|] eqn:Ec; [|discriminate].
          pose proof (sound_at f g3 Hc s2 rc lx lx2 ys2 c st Ec HI2 Hf2 Hr2 Hk2) as H.
          apply (agrees_map (fun _ => v)) in H. destruct rc; cbn [pmap pbind] in Hp; inv_some Hp; exact H.
        * inv_some Hp. destruct (sound_at f g2 Hb s1 _ lx lx1 ys1 c st Eb HI1 Hf Hr Hk1) as (e & E2).
          rewrite E2. exists e. reflexivity.
      + inv_some Hp. destruct (Ha s _ Ea lx ys c st HI Hk) as (e & E). rewrite E. exists e. reflexivity.
    - (* map *) cbn [run]. assert (Ha : sound f g) by (apply IH; lia).
      destruct (peg g s) as [ra|] eqn:Ea; [|discriminate].
      pose proof (Ha s ra Ea lx ys c st HI Hk) as H. apply (agrees_map (VTag tag)) in H.
      destruct ra; cbn [pmap pbind] in Hp; inv_some Hp; exact H.
    - (* discard *) cbn [run]. assert (Ha : sound f g) by (apply IH; lia).
      destruct (peg g s) as [ra|] eqn:Ea; [|discriminate].
      pose proof (Ha s ra Ea lx ys c st HI Hk) as H. apply (agrees_map (fun _ => VUnit)) in H.
      destruct ra; cbn [pmap pbind] in Hp; inv_some Hp; exact H.
    - (* sub *) cbn [run]. assert (Ha : sound f g) by (apply IH; lia).
      destruct (c_start_sublex_spec m Htab t Ht lx ys HI) as (lx1 & ys1 & E & HI1 & Hk1 & Hf & Hr).
      rewrite E. cbn [lift]. rewrite Hf in Hk1.
      apply (sound_at f g Ha s r lx lx1 ys1 c st Hp HI1 Hf Hr). rewrite Hk1. exact Hk.
    - (* either *) cbn [run].
      assert (Ha : sound f g1) by (apply IH; lia). assert (Hb : sound f g2) by (apply IH; lia).
      destruct (peg g1 s) as [[v s1|]|] eqn:Ea; try discriminate.
      + inv_some Hp. destruct (Ha s _ Ea lx ys c st HI Hk) as (lx1 & ys1 & E & H). rewrite E.
        exists lx1, ys1. split; [reflexivity|exact H].
      + destruct (Ha s _ Ea lx ys c st HI Hk) as (e & E). rewrite E. exact (Hb s r Hp lx ys c st HI Hk).
    - (* maybe *) exact (maybe_sound f g (IH g ltac:(lia)) s r Hp lx ys c st HI Hk).
    - (* require_if *) cbn [run]. destruct b.
      + assert (Ha : sound f g) by (apply IH; lia).
        destruct (peg g s) as [ra|] eqn:Ea; [|discriminate].
        pose proof (Ha s ra Ea lx ys c st HI Hk) as H. apply (agrees_map VSome) in H.
        destruct ra; cbn [pmap pbind] in Hp; inv_some Hp; exact H.
      + apply (IHm g ltac:(lia) s r Hp lx ys c st HI Hk).
    - (* cond *) cbn [run]. destruct b.
      + assert (Ha : sound f g) by (apply IH; lia).
        destruct (peg g s) as [ra|] eqn:Ea; [|discriminate].
        pose proof (Ha s ra Ea lx ys c st HI Hk) as H. apply (agrees_map VSome) in H.
        destruct ra; cbn [pmap pbind] in Hp; inv_some Hp; exact H.
      + inv_some Hp. exists lx, ys. repeat (split; [first [reflexivity|assumption]|]). assumption.
    - (* implies *) cbn [run]. assert (Hb : sound f g2) by (apply IH; lia).
      refine (ante_sound f g1 _ _ (IHm g1 ltac:(lia)) _ s r lx ys c st Hp HI Hk).
      intros l s1 r1 lx0 lx1 ys1 st1 Hr1 HI1 Hf Hr Hk1. destruct l; try (inv_some Hr1; exists lx1, ys1; repeat (split; [first [reflexivity|assumption]|]); assumption).
      destruct (peg g2 s1) as [rb|] eqn:Eb; [|discriminate].
      pose proof (sound_at f g2 Hb s1 rb lx0 lx1 ys1 c st1 Eb HI1 Hf Hr Hk1) as H.
      apply (agrees_map (fun r0 => VSome (VPair l r0))) in H. destruct rb; cbn [pmap pbind] in Hr1; inv_some Hr1; exact H.
    - (* antecedent *) cbn [run]. assert (Hb : sound f g2) by (apply IH; lia).
      refine (ante_sound f g1 _ _ (IHm g1 ltac:(lia)) _ s r lx ys c st Hp HI Hk).
      intros l s1 r1 lx0 lx1 ys1 st1 Hr1 HI1 Hf Hr Hk1. destruct l; try (inv_some Hr1; exists lx1, ys1; repeat (split; [first [reflexivity|assumption]|]); assumption).
      destruct (peg g2 s1) as [rb|] eqn:Eb; [|discriminate].
      pose proof (sound_at f g2 Hb s1 rb lx0 lx1 ys1 c st1 Eb HI1 Hf Hr Hk1) as H.
      apply (agrees_map (fun _ => VSome l)) in H. destruct rb; cbn [pmap pbind] in Hr1; inv_some Hr1; exact H.
    - (* consequent *) cbn [run]. assert (Hb : sound f g2) by (apply IH; lia).
      refine (ante_sound f g1 _ _ (IHm g1 ltac:(lia)) _ s r lx ys c st Hp HI Hk).
      intros l s1 r1 lx0 lx1 ys1 st1 Hr1 HI1 Hf Hr Hk1. destruct l; try (inv_some Hr1; exists lx1, ys1; repeat (split; [first [reflexivity|assumption]|]); assumption).
      destruct (peg g2 s1) as [rb|] eqn:Eb; [|discriminate].
      pose proof (sound_at f g2 Hb s1 rb lx0 lx1 ys1 c st1 Eb HI1 Hf Hr Hk1) as H.
      apply (agrees_map VSome) in H. destruct rb; cbn [pmap pbind] in Hr1; inv_some Hr1; exact H.
    - (* cond_implies *) cbn [run]. assert (Hb : sound f g2) by (apply IH; lia).
      refine (ante_sound f g1 _ _ (IHm g1 ltac:(lia)) _ s r lx ys c st Hp HI Hk).
      intros l s1 r1 lx0 lx1 ys1 st1 Hr1 HI1 Hf Hr Hk1. destruct l; try (inv_some Hr1; exists lx1, ys1; repeat (split; [first [reflexivity|assumption]|]); assumption).
      destruct (vpeval p l).
      + destruct (peg g2 s1) as [rb|] eqn:Eb; [|discriminate].
        pose proof (sound_at f g2 Hb s1 rb lx0 lx1 ys1 c st1 Eb HI1 Hf Hr Hk1) as H.
        apply (agrees_map (fun r0 => VSome (VPair l (VSome r0)))) in H. destruct rb; cbn [pmap pbind] in Hr1; inv_some Hr1; exact H.
      + inv_some Hr1. exists lx1, ys1. repeat (split; [first [reflexivity|assumption]|]). assumption.
    - (* raw *) cbn [run]. apply (IH g ltac:(lia) s r Hp lx ys (ctx_raw c) st HI Hk).
    - (* unrecoverable *) cbn [run]. apply (IH g ltac:(lia) s r Hp lx ys (ctx_unrec c) st HI Hk).
    - (* context push: only the error changes *) cbn [run].
      pose proof (IH g ltac:(lia) s r Hp lx ys (ctx_pushed c tag) st HI Hk) as H.
      destruct r as [v s'|].
      + destruct H as (lx' & ys' & E & H). rewrite E. exists lx', ys'. split; [reflexivity|exact H].
      + destruct H as (e & E). rewrite E. eexists. reflexivity.
    - (* user failure *) inv_some Hp. cbn [run].
      destruct (c_peek_spec m Htab t Ht lx ys HI) as (lx' & ys' & E & _). rewrite E. cbn [lift]. eexists. reflexivity.
    - (* some_of *) cbn [run]. assert (Ha : sound f g) by (apply IH; lia).
      destruct (peg g s) as [ra|] eqn:Ea; [|discriminate].
      pose proof (Ha s ra Ea lx ys c st HI Hk) as H. apply (agrees_map VSome) in H.
      destruct ra; cbn [pmap pbind] in Hp; inv_some Hp; exact H.
  Qed.

  (** * Consequences *)

  (** on the fragment the interpreter neither panics nor runs out of fuel (fuel above the
      nesting depth), and leaves the store alone *)
  Theorem core_total fuel g : in_core g = true -> gdepth g < fuel ->
    forall lx ys c st, Inv lx ys ->
    (exists v lx', run fuel g lx c st = (ROk v lx', st)) \/ (exists e, run fuel g lx c st = (RErr e, st)).
  Proof using Htab Ht.
    intros Hc Hd lx ys c st HI. destruct (peg_total g Hc (kept (c_filter lx) ys)) as [r Hr].
    pose proof (run_core fuel g Hd _ r Hr lx ys c st HI eq_refl) as H. destruct r as [v s'|].
    - destruct H as (lx' & ys' & E & _). left. exists v, lx'. exact E.
    - destruct H as (e & E). right. exists e. exact E.
  Qed.

  (** what the context is (sink or none, trail, locked) and what the store holds changes neither
      the verdict nor the value nor what remains deliverable; nothing is sent anywhere *)
  Theorem core_ctx_irrelevant fuel g : in_core g = true -> gdepth g < fuel ->
    forall lx ys c c' st st', Inv lx ys ->
    match run fuel g lx c st, run fuel g lx c' st' with
    | (ROk v l1, s1), (ROk v' l2, s2) =>
      v = v' /\ s1 = st /\ s2 = st' /\
      exists ys1 ys2, Inv l1 ys1 /\ Inv l2 ys2 /\ kept (c_filter lx) ys1 = kept (c_filter lx) ys2
    | (RErr _, s1), (RErr _, s2) => s1 = st /\ s2 = st'
    | _, _ => False
    end.
  Proof using Htab Ht.
    intros Hc Hd lx ys c c' st st' HI. destruct (peg_total g Hc (kept (c_filter lx) ys)) as [r Hr].
    pose proof (run_core fuel g Hd _ r Hr lx ys c st HI eq_refl) as H1.
    pose proof (run_core fuel g Hd _ r Hr lx ys c' st' HI eq_refl) as H2. destruct r as [v s'|].
    - destruct H1 as (l1 & y1 & E1 & I1 & _ & _ & K1). destruct H2 as (l2 & y2 & E2 & I2 & _ & _ & K2).
      rewrite E1, E2. split; [reflexivity|]. split; [reflexivity|]. split; [reflexivity|].
      exists y1, y2. split; [exact I1|]. split; [exact I2|]. congruence.
    - destruct H1 as (e1 & E1). destruct H2 as (e2 & E2). rewrite E1, E2. split; reflexivity.
  Qed.

  (** from the start of a text: the deliverable tokens are the kept entries of the whole scan *)
  Theorem core_whole_text sc f lx0 : c_met (c_new sc t) = m -> c_with_filter (c_new sc t) f = Ok lx0 ->
    exists ys, stream m t sc pos_zero ys /\
      forall g fuel r, gdepth g < fuel -> peg g (kept f ys) = Some r ->
      forall c st, agrees r lx0 (run fuel g lx0 c st) st.
  Proof using Htab Ht.
    intros Hm Hw. destruct (Inv_new m Htab t Ht sc Hm) as [ys HI]. exists ys.
    split; [exact (inv_stream _ _ _ _ HI)|].
    destruct (c_with_filter_spec m Htab t Ht _ ys f HI) as (l1 & y1 & E1 & HI1 & Hf1 & Hk1).
    rewrite Hw in E1. injection E1 as <-.
    intros g fuel r Hd Hp c st. apply (run_core fuel g Hd _ r Hp lx0 y1 c st HI1). rewrite Hf1. exact Hk1.
  Qed.
End Core.
