(** C15: error-context transforms apply innermost-first, exactly once.
    The declarative side is [active]: walking the path from the root to the point where the
    error is raised, a push contributes its tag unless the context it is pushed onto is
    locked; [locked b] sets the lock; [raw] strips every transform and locks; clones/forks and
    [unrecoverable] change nothing. *)
From Tephra Require Import Ctx.

Inductive cstep := SPush (tag : nat) | SLocked (b : bool) | SFork | SRaw | SUnrec.

(** transforms active at the end of a path, innermost first, and the lock flag there *)
Fixpoint active (lk : bool) (acc : list nat) (p : list cstep) : list nat * bool :=
  match p with
  | [] => (acc, lk)
  | SPush t :: r => if lk then active lk acc r else active false (t :: acc) r
  | SLocked b :: r => active b acc r
  | SFork :: r => active lk acc r
  | SRaw :: r => active true [] r
  | SUnrec :: r => active lk acc r
  end.

Definition sink_after (snk : bool) (p : list cstep) : bool :=
  snk && negb (existsb (fun s => match s with SUnrec => true | _ => false end) p).

(** the context a sub-tree receives after following a path *)
Fixpoint ctx_after (c : ctx) (p : list cstep) : ctx :=
  match p with
  | [] => c
  | SPush t :: r => ctx_after (ctx_pushed c t) r
  | SLocked b :: r => ctx_after (ctx_locked c b) r
  | SFork :: r => ctx_after c r
  | SRaw :: r => ctx_after (ctx_raw c) r
  | SUnrec :: r => ctx_after (ctx_unrec c) r
  end.

Lemma ctx_after_active c p :
  trail (ctx_after c p) = fst (active (locked c) (trail c) p) /\
  locked (ctx_after c p) = snd (active (locked c) (trail c) p) /\
  has_sink (ctx_after c p) = sink_after (has_sink c) p.
Proof.
  revert c; induction p as [|s r IH]; intros c; cbn [ctx_after active].
  - unfold sink_after. cbn. rewrite andb_true_r. repeat split.
  - destruct s as [t|b| | |]; cbn [ctx_after active].
    + unfold ctx_pushed. destruct (locked c) eqn:L.
      * specialize (IH c). rewrite L in IH. unfold sink_after in *. cbn [existsb orb]. exact IH.
      * specialize (IH (mkctx (has_sink c) (t :: trail c) false)). cbn [trail locked has_sink] in IH.
        unfold sink_after in *. cbn [existsb orb]. exact IH.
    + specialize (IH (ctx_locked c b)). cbn [ctx_locked trail locked has_sink] in IH.
      unfold sink_after in *. cbn [existsb orb]. exact IH.
    + specialize (IH c). unfold sink_after in *. cbn [existsb orb]. exact IH.
    + specialize (IH (ctx_raw c)). cbn [ctx_raw trail locked has_sink] in IH.
      unfold sink_after in *. cbn [existsb orb]. exact IH.
    + specialize (IH (ctx_unrec c)). cbn [ctx_unrec trail locked has_sink] in IH.
      unfold sink_after in *. cbn [existsb orb negb]. rewrite andb_false_r.
      destruct IH as (I1 & I2 & I3). repeat split; [exact I1|exact I2|].
      rewrite I3. cbn. reflexivity.
Qed.

(** what a [send]/[apply] at the end of path [p] from context [c] produces *)
Theorem send_after c p n :
  run_tree (ctx_after c p) (TSend n) =
  let tr := fst (active (locked c) (trail c) p) in
  if sink_after (has_sink c) p then [EvSink n (apply_trail tr (EProbe n))] else [EvRet n (EProbe n)].
Proof.
  destruct (ctx_after_active c p) as (E1 & _ & E3). cbn [run_tree]. unfold send_error.
  rewrite E3, E1. cbn zeta. destruct (sink_after (has_sink c) p); reflexivity.
Qed.

Theorem apply_after c p n :
  run_tree (ctx_after c p) (TApply n) =
  [EvApply n (apply_trail (fst (active (locked c) (trail c) p)) (EProbe n))].
Proof.
  destruct (ctx_after_active c p) as (E1 & _ & _). cbn [run_tree]. unfold apply_context. rewrite E1. reflexivity.
Qed.

(** each transform is applied exactly once, innermost first: the tags, read from the inside
    of the error outwards, are exactly the active list *)
Fixpoint tags_of (e : err) : list nat :=
  match e with ETagged t e' => tags_of e' ++ [t] | _ => [] end.

Lemma tags_apply_trail tr e : tags_of (apply_trail tr e) = tags_of e ++ tr.
Proof.
  revert e; induction tr as [|t r IH]; intros e; cbn [apply_trail fold_left].
  - rewrite app_nil_r. reflexivity.
  - change (fold_left (fun e t => ETagged t e) r (ETagged t e)) with (apply_trail r (ETagged t e)).
    rewrite IH. cbn [tags_of]. rewrite <- app_assoc. reflexivity.
Qed.

Theorem trail_exactly_once tr n : tags_of (apply_trail tr (EProbe n)) = tr.
Proof. rewrite tags_apply_trail. reflexivity. Qed.

(** siblings: what one child does never changes what the next child sees *)
Theorem fork_isolation c t1 t2 :
  run_tree c (TFork [t1; t2]) = run_tree c t1 ++ run_tree c t2.
Proof. cbn [run_tree]. rewrite app_nil_r. reflexivity. Qed.

(** pushes onto a locked context are ignored *)
Theorem locked_push_ignored c tag t :
  run_tree (ctx_locked c true) (TPush tag [t]) = run_tree (ctx_locked c true) t.
Proof. cbn [run_tree ctx_pushed ctx_locked locked]. rewrite app_nil_r. reflexivity. Qed.

Example active_example :
  active false [] [SPush 1; SLocked true; SPush 2; SLocked false; SPush 3; SUnrec; SFork] = ([3; 1], false)
  /\ active false [] [SPush 1; SRaw; SPush 2] = ([], true).
Proof. split; reflexivity. Qed.

(** * Every tree: the events are those of its leaves, each in the context its path gives *)

Fixpoint leaves (t : ctree) : list (list cstep * ctree) :=
  let fix leaves_list (ts : list ctree) : list (list cstep * ctree) :=
    match ts with [] => [] | t :: r => leaves t ++ leaves_list r end in
  let under (s : cstep) (ts : list ctree) :=
    map (fun pl => (s :: fst pl, snd pl)) (leaves_list ts) in
  match t with
  | TPush tag ts => under (SPush tag) ts
  | TPushMut tag ts => under (SPush tag) ts
  | TLocked b ts => under (SLocked b) ts
  | TFork ts => under SFork ts
  | TRaw ts => under SRaw ts
  | TUnrec ts => under SUnrec ts
  | TSend n => [([], TSend n)]
  | TApply n => [([], TApply n)]
  end.

Definition leaf_events (c : ctx) (pl : list cstep * ctree) : list cevent :=
  run_tree (ctx_after c (fst pl)) (snd pl).

Section TreeInd.
  Variable P : ctree -> Prop.
  Hypothesis Hpush : forall tag ts, Forall P ts -> P (TPush tag ts).
  Hypothesis Hpushmut : forall tag ts, Forall P ts -> P (TPushMut tag ts).
  Hypothesis Hlocked : forall b ts, Forall P ts -> P (TLocked b ts).
  Hypothesis Hfork : forall ts, Forall P ts -> P (TFork ts).
  Hypothesis Hraw : forall ts, Forall P ts -> P (TRaw ts).
  Hypothesis Hunrec : forall ts, Forall P ts -> P (TUnrec ts).
  Hypothesis Hsend : forall n, P (TSend n).
  Hypothesis Happly : forall n, P (TApply n).

  Fixpoint ctree_ind2 (t : ctree) : P t :=
    let fix all (ts : list ctree) : Forall P ts :=
      match ts with
      | [] => Forall_nil P
      | t :: r => Forall_cons t (ctree_ind2 t) (all r)
      end in
    match t with
    | TPush tag ts => Hpush tag ts (all ts)
    | TPushMut tag ts => Hpushmut tag ts (all ts)
    | TLocked b ts => Hlocked b ts (all ts)
    | TFork ts => Hfork ts (all ts)
    | TRaw ts => Hraw ts (all ts)
    | TUnrec ts => Hunrec ts (all ts)
    | TSend n => Hsend n
    | TApply n => Happly n
    end.
End TreeInd.

Definition run_list (c : ctx) (ts : list ctree) : list cevent := flat_map (run_tree c) ts.
Definition leaves_list (ts : list ctree) : list (list cstep * ctree) := flat_map leaves ts.

Lemma run_tree_children c t :
  run_tree c t =
  match t with
  | TPush tag ts | TPushMut tag ts => run_list (ctx_pushed c tag) ts
  | TLocked b ts => run_list (ctx_locked c b) ts
  | TFork ts => run_list c ts
  | TRaw ts => run_list (ctx_raw c) ts
  | TUnrec ts => run_list (ctx_unrec c) ts
  | _ => run_tree c t
  end.
Proof.
  assert (G : forall c ts,
    (fix run_list (c : ctx) (ts : list ctree) : list cevent :=
       match ts with [] => [] | t :: r => run_tree c t ++ run_list c r end) c ts = run_list c ts).
  { intros c0 ts. induction ts as [|x r IH]; [reflexivity|].
    unfold run_list in *. cbn [flat_map]. rewrite <- IH. reflexivity. }
  destruct t; cbn [run_tree]; rewrite ?G; reflexivity.
Qed.

Lemma leaves_children t :
  leaves t =
  let under s ts := map (fun pl => (s :: fst pl, snd pl)) (leaves_list ts) in
  match t with
  | TPush tag ts | TPushMut tag ts => under (SPush tag) ts
  | TLocked b ts => under (SLocked b) ts
  | TFork ts => under SFork ts
  | TRaw ts => under SRaw ts
  | TUnrec ts => under SUnrec ts
  | _ => leaves t
  end.
Proof.
  assert (G : forall ts,
    (fix leaves_list (ts : list ctree) : list (list cstep * ctree) :=
       match ts with [] => [] | t :: r => leaves t ++ leaves_list r end) ts = leaves_list ts).
  { intros ts. induction ts as [|x r IH]; [reflexivity|].
    unfold leaves_list in *. cbn [flat_map]. rewrite <- IH. reflexivity. }
  destruct t; cbn [leaves]; rewrite ?G; reflexivity.
Qed.

Lemma under_events c s ts (c' : ctx) :
  (forall p, ctx_after c (s :: p) = ctx_after c' p) ->
  Forall (fun t => forall c, run_tree c t = flat_map (leaf_events c) (leaves t)) ts ->
  run_list c' ts =
  flat_map (leaf_events c) (map (fun pl => (s :: fst pl, snd pl)) (leaves_list ts)).
Proof.
  intros Hc Hall. induction Hall as [|t r Ht Hr IH]; [reflexivity|].
  cbn [run_list leaves_list flat_map]. rewrite map_app, flat_map_app. f_equal; [|exact IH].
  rewrite (Ht c'). clear - Hc. induction (leaves t) as [|pl l IHl]; [reflexivity|].
  cbn [flat_map map]. f_equal; [|exact IHl]. unfold leaf_events. cbn [fst snd]. rewrite Hc. reflexivity.
Qed.

Theorem run_tree_leaves t : forall c, run_tree c t = flat_map (leaf_events c) (leaves t).
Proof.
  induction t using ctree_ind2; intros c;
    try (rewrite run_tree_children, leaves_children; cbn zeta;
         apply under_events; [intros p; reflexivity|assumption]).
  - cbn. rewrite app_nil_r. reflexivity.
  - cbn. reflexivity.
Qed.
