(** C13, further errors: the [seq] leaf (after a matched prefix the error names the first token
    that does not match, with its own span); the boundary error of up_to (it quotes the position
    reached by advancing to the abort token); both for every text / scanner state / filter /
    look-ahead state. *)
From Tephra Require Import MetricsSpec MetricsFacts CLexer LexerFacts LexerOps Run Peg RunCore RunErrors RunRecover.

Section Errors2.
  Variable m : metrics.
  Hypothesis Htab : 1 <= tabw m.
  Variable t : text.
  Hypothesis Ht : wf_text t.
  Local Notation Inv := (Inv m t).

  (** [pre] matches the first kinds of [ks]; what is left of [ks] *)
  Fixpoint matches (ks : list kind) (pre : list entry) {struct pre} : option (list kind) :=
    match pre with
    | [] => Some ks
    | x :: r => match ks with
                | k :: kr => if tok_eqb (e_tok x) (tk0 k) then matches kr r else None
                | [] => None
                end
    end.

  Lemma seq_error_fix es st : forall pre ks acc lx ys x s k kr,
    Inv lx ys -> kept (c_filter lx) ys = pre ++ x :: s -> matches ks pre = Some (k :: kr) ->
    tok_eqb (e_tok x) (tk0 k) = false ->
    (fix go (ks : list kind) (acc : list val) (l : clexer) : R :=
       match ks with
       | [] => (ROk (VList acc) l, st)
       | k :: r =>
         lift (c_next l) st (fun '(o, l') =>
         match o with
         | Some t0 => if tok_eqb t0 (tk0 k) then go r (acc ++ [VTok t0]) l'
                      else (RErr (EUnexpected es (c_token_span l') (ExTok (tk0 k)) (Some t0)), st)
         | None => (RErr (EUnexpected es (c_token_span l') (ExTok (tk0 k)) None), st)
         end)
       end) ks acc lx
    = (RErr (EUnexpected es (mkspan (e_start x) (e_end x)) (ExTok (tk0 k)) (Some (e_tok x))), st).
  Proof using Htab Ht.
    induction pre as [|y pre IH]; intros ks acc lx ys x s k kr HI Hk Hm Hne.
    - cbn [matches] in Hm. injection Hm as ->. cbn [app] in Hk.
      destruct (next_cons m Htab t Ht lx ys x s HI Hk) as (lx' & ys' & E & _ & _ & _ & _ & A & B & _ & _ & C).
      rewrite E. cbn [lift]. rewrite Hne, (token_span_of m Htab lx' x A B C). reflexivity.
    - cbn [matches] in Hm. destruct ks as [|k0 ks0]; [discriminate|].
      destruct (tok_eqb (e_tok y) (tk0 k0)) eqn:Ey; [|discriminate]. cbn [app] in Hk.
      destruct (next_cons m Htab t Ht lx ys y (pre ++ x :: s) HI Hk) as (lx' & ys' & E & HI' & Hf & _ & Hk' & _).
      rewrite E. cbn [lift]. rewrite Ey. apply (IH ks0 _ lx' ys' x s k kr HI'); [rewrite Hf; exact Hk'|exact Hm|exact Hne].
  Qed.

  Theorem seq_error f ks lx ys c st pre x s k kr :
    Inv lx ys -> kept (c_filter lx) ys = pre ++ x :: s -> matches ks pre = Some (k :: kr) ->
    tok_eqb (e_tok x) (tk0 k) = false ->
    run (S f) (GSeq ks) lx c st
    = (RErr (EUnexpected (c_parse_span lx) (mkspan (e_start x) (e_end x)) (ExTok (tk0 k)) (Some (e_tok x))), st).
  Proof using Htab Ht. intros HI Hk Hm Hne. cbn [run]. exact (seq_error_fix _ st pre ks [] lx ys x s k kr HI Hk Hm Hne). Qed.

  (** advancing to the first token that satisfies [p]: where the cursor ends up *)
  Lemma advance_to_cursor p : forall s fuel lx ys, Inv lx ys -> kept (c_filter lx) ys = s -> length s < fuel ->
    match split_first p s with
    | Some (_, y, rest) =>
      exists lx' ys', c_advance_to fuel lx p = Ok (true, lx') /\ Inv lx' ys' /\ c_cur lx' = e_end y
        /\ kept (c_filter lx) ys' = rest
    | None => exists lx' ys', c_advance_to fuel lx p = Ok (false, lx') /\ Inv lx' ys' /\ kept (c_filter lx) ys' = []
    end.
  Proof using Htab Ht.
    induction s as [|x r IH]; intros fuel lx ys HI Hk Hf; (destruct fuel as [|fu]; [cbn in Hf; lia|]); cbn [c_advance_to split_first].
    - destruct (next_nil m Htab t Ht lx ys HI Hk) as (lx' & E & HI' & _). rewrite E. cbn [bind].
      exists lx', []. split; [reflexivity|]. split; [exact HI'|reflexivity].
    - destruct (next_cons m Htab t Ht lx ys x r HI Hk) as (lx1 & ys1 & E & HI1 & Hf1 & _ & Hk1 & _ & Hc1 & _). rewrite E. cbn [bind].
      destruct (p (e_tok x)).
      + exists lx1, ys1. split; [reflexivity|]. split; [exact HI1|]. split; [exact Hc1|exact Hk1].
      + cbn [length] in Hf. assert (Hk1' : kept (c_filter lx1) ys1 = r) by (rewrite Hf1; exact Hk1).
        specialize (IH fu lx1 ys1 HI1 Hk1' ltac:(lia)).
        destruct (split_first p r) as [[[pre y] q]|].
        * destruct IH as (lx' & ys' & E' & HI' & Hc' & Hk'). exists lx', ys'. split; [exact E'|]. split; [exact HI'|]. split; [exact Hc'|].
          rewrite <- Hf1. exact Hk'.
        * destruct IH as (lx' & ys' & E' & HI' & Hk'). exists lx', ys'. split; [exact E'|]. split; [exact HI'|]. rewrite <- Hf1. exact Hk'.
  Qed.

  (** up_to: the wrapped parser stopped in front of a token that is neither a separator nor an abort
      token; the boundary error quotes the parse span and the end of the first abort token ahead *)
  Theorem up_to_boundary_error f a ab lx c st v lx1 ys1 st1 x s pre y rest :
    run f a lx c st = (ROk v lx1, st1) -> Inv lx1 ys1 -> kept (c_filter lx1) ys1 = x :: s ->
    in_kinds ab (e_tok x) = false ->
    split_first (in_kinds ab) (x :: s) = Some (pre, y, rest) ->
    exists es, run (S f) (GUpTo a ab) lx c st = (RErr (EBoundary es (e_end y)), st1)
      /\ byte (send es) <= byte (e_start x).
  Proof using Htab Ht.
    intros Ha HI1 Hk1 Hnab Hsp. cbn [run]. rewrite Ha. cbn [on_ok].
    destruct (peek_cons m Htab t Ht lx1 ys1 x s HI1 Hk1) as (lx2 & ys2 & E & HI2 & Hf2 & _ & Hk2). rewrite E. cbn [lift]. rewrite Hnab.
    pose proof Hk2 as Hk2'. rewrite <- Hf2 in Hk2'.
    pose proof (advance_to_cursor (in_kinds ab) (x :: s) (fuel_of lx2) lx2 ys2 HI2 Hk2'
                  ltac:(rewrite <- Hk2'; exact (kept_length_fuel m Htab t Ht lx2 ys2 HI2))) as H.
    rewrite Hsp in H. destruct H as (lx3 & ys3 & E3 & _ & Hc3 & _). rewrite E3. cbn [lift].
    exists (c_parse_span lx2). unfold c_cursor_pos. rewrite Hc3. split; [reflexivity|].
    apply (parse_span_before m Htab t Ht lx2 ys2 x HI2). rewrite Hk2'. left. reflexivity.
  Qed.
End Errors2.
