(** C09: scoped combinators leave the surrounding configuration intact.
    In the model a context is an immutable value, so "the enclosing context is what it was" holds
    by construction; what has content is (i) that the interpreter hands the SAME context value to
    every later sibling whatever an earlier sibling was wrapped in, (ii) that the filter is the
    one the lexer had before, for ARBITRARY wrapped parsers, without any invariant on the lexer,
    and (iii) that a failed optional parse returns the very lexer it was given. That the Rust
    contexts behave like values (the repaired raw / unrecoverable no longer reach into the shared
    cells) is what the correspondence run checks with probes before and after each wrapper. *)
From Tephra Require Import CLexer Run.

(** * look-ahead buffering never touches filter, recover state, text or metrics *)

Lemma buffer_loop_frame : forall fuel behind lx psc pcur lx',
  buffer_loop fuel behind lx psc pcur = Ok lx' ->
  c_filter lx' = c_filter lx /\ c_rec lx' = c_rec lx /\ c_text lx' = c_text lx /\ c_met lx' = c_met lx.
Proof.
  induction fuel as [|f IH]; intros behind lx psc pcur lx' H; cbn [buffer_loop] in H; [discriminate|].
  destruct (scan psc (c_met lx) (c_text lx) pcur) as [[[[tk adv] psc']|]| |]; cbn [bind] in H; try discriminate.
  - destruct (filtered_out lx tk) eqn:Ef.
    + apply IH in H. destruct behind; exact H.
    + injection H as <-. repeat split.
  - injection H as <-. repeat split.
Qed.

Lemma c_buffer_next_frame lx lx' : c_buffer_next lx = Ok lx' ->
  c_filter lx' = c_filter lx /\ c_rec lx' = c_rec lx /\ c_text lx' = c_text lx /\ c_met lx' = c_met lx.
Proof.
  unfold c_buffer_next. destruct (c_buf lx); [intros H; injection H as <-; repeat split|].
  apply buffer_loop_frame.
Qed.

Lemma c_set_filter_frame lx f old lx' : c_set_filter lx f = Ok (old, lx') ->
  old = c_filter lx /\ c_filter lx' = f /\ c_rec lx' = c_rec lx.
Proof.
  unfold c_set_filter. destruct (c_buffer_next (set_buf (set_flt lx f) None)) as [l| |] eqn:E; cbn [bind]; try discriminate.
  intros H. injection H as <- <-. apply c_buffer_next_frame in E. destruct E as (A & B & _). cbn in A, B.
  split; [reflexivity|]. split; assumption.
Qed.

(** * filter_with / unfiltered restore the filter on success, for every wrapped parser *)

Theorem filter_with_restores f fs a lx c st v lx' st' :
  run (S f) (GFilterWith fs a) lx c st = (ROk v lx', st') -> c_filter lx' = c_filter lx.
Proof.
  cbn [run]. destruct (c_set_filter lx (Some fs)) as [[old l1]| |] eqn:E1; cbn [lift]; try discriminate.
  destruct (run f a l1 c st) as [[v1 l2|e| |] st1]; cbn [on_ok]; try discriminate.
  destruct (c_set_filter l2 old) as [[o2 l3]| |] eqn:E2; cbn [lift]; try discriminate.
  intros H. injection H as _ <- _. apply c_set_filter_frame in E1. apply c_set_filter_frame in E2.
  destruct E1 as (-> & _). destruct E2 as (_ & E2 & _). exact E2.
Qed.

Theorem unfiltered_restores f a lx c st v lx' st' :
  run (S f) (GUnfiltered a) lx c st = (ROk v lx', st') -> c_filter lx' = c_filter lx.
Proof.
  cbn [run]. destruct (c_set_filter lx None) as [[old l1]| |] eqn:E1; cbn [lift]; try discriminate.
  destruct (run f a l1 c st) as [[v1 l2|e| |] st1]; cbn [on_ok]; try discriminate.
  destruct (c_set_filter l2 old) as [[o2 l3]| |] eqn:E2; cbn [lift]; try discriminate.
  intros H. injection H as _ <- _. apply c_set_filter_frame in E1. apply c_set_filter_frame in E2.
  destruct E1 as (-> & _). destruct E2 as (_ & E2 & _). exact E2.
Qed.

(** ... and the wrapped parser did run under the requested filter *)
Theorem filter_with_installs f fs a lx c st v lx' st' :
  run (S f) (GFilterWith fs a) lx c st = (ROk v lx', st') ->
  exists l1 l2, c_filter l1 = Some fs /\ c_rec l1 = c_rec lx /\ run f a l1 c st = (ROk v l2, st').
Proof.
  cbn [run]. destruct (c_set_filter lx (Some fs)) as [[old l1]| |] eqn:E1; cbn [lift]; try discriminate.
  destruct (run f a l1 c st) as [[v1 l2|e| |] st1] eqn:Ea; cbn [on_ok]; try discriminate.
  destruct (c_set_filter l2 old) as [[o2 l3]| |] eqn:E2; cbn [lift]; try discriminate.
  intros H. injection H as <- _ <-. apply c_set_filter_frame in E1. destruct E1 as (_ & A & B).
  exists l1, l2. split; [exact A|]. split; [exact B|exact Ea].
Qed.

(** * a failed optional parse gives back the very lexer it was given *)

Theorem maybe_fail_restores f a lx c st e st' :
  run f a lx (ctx_unrec c) st = (RErr e, st') -> run (S f) (GMaybe a) lx c st = (ROk VNone lx, st').
Proof. intros H. cbn [run]. rewrite H. reflexivity. Qed.

Theorem either_backtracks f a b lx c st e st' :
  run f a lx c st = (RErr e, st') -> run (S f) (GEither a b) lx c st = run f b lx c st'.
Proof. intros H. cbn [run]. rewrite H. reflexivity. Qed.

(** * later siblings run under the same context value *)

(** [wrap] ranges over the scoped wrappers; whatever it is and whatever the wrapped parser did, the
    sibling [p] is run with the context [c] the sequence was given *)
Inductive wrapper : (G -> G) -> Prop :=
| w_maybe : wrapper GMaybe
| w_unrec : wrapper GUnrec
| w_raw : wrapper GRaw
| w_require_if b : wrapper (GRequireIf b)
| w_filter fs : wrapper (GFilterWith fs)
| w_unfiltered : wrapper GUnfiltered
| w_stabilize : wrapper GStabilize
| w_id : wrapper (fun g => g).

Theorem sibling_context f (wrap : G -> G) q p lx c st :
  run (S f) (GRight (wrap q) p) lx c st =
  match run f (wrap q) lx c st with
  | (ROk _ lx', st') => run f p lx' c st'
  | r => r
  end.
Proof. cbn [run on_ok]. destruct (run f (wrap q) lx c st) as [[v l|e| |] st']; reflexivity. Qed.

(** the contexts the wrappers derive: only the wrapped parser sees them *)
Theorem wrapper_contexts f a lx c st :
  run (S f) (GRaw a) lx c st = run f a lx (ctx_raw c) st
  /\ run (S f) (GUnrec a) lx c st = run f a lx (ctx_unrec c) st
  /\ (forall v lx' st', run f a lx (ctx_unrec c) st = (ROk v lx', st') ->
        run (S f) (GMaybe a) lx c st = (ROk (VSome v) lx', st')).
Proof. split; [reflexivity|]. split; [reflexivity|]. intros v lx' st' H. cbn [run]. rewrite H. reflexivity. Qed.

(** stabilize returns the lexer without recover state on success *)
Theorem stabilize_ok_clears f a lx c st v lx' st' :
  run f a lx c st = (ROk v lx', st') -> f <> 0 ->
  run (S f) (GStabilize a) lx c st = (ROk v (set_rec lx' None), st').
Proof. intros H Hf. cbn [run]. rewrite H. destruct f; [contradiction|reflexivity]. Qed.

(** every success of the retry loop, on whichever attempt, returns a lexer without recover
    state: the clearing is on the loop's Ok arm, not on the first call *)
Lemma stab_loop_ok_stable runf n : forall att a c lx res v lx' st',
  stab_loop runf n att a c lx res = (ROk v lx', st') -> c_rec lx' = None.
Proof.
  induction n as [|n IH]; intros att a c lx res v lx' st' H; cbn [stab_loop] in H; [discriminate|].
  destruct res as [[v0 l0|e| |] st0].
  - injection H as _ Hl _. subst lx'. reflexivity.
  - destruct (c_rec lx) as [r|]; [|discriminate].
    destruct (advance_to_recover lx st0) as [[[[|] lx1]| |] st1]; try discriminate.
    destruct ((0 <? att) && pos_eqb (c_cursor_pos lx1) (c_cursor_pos lx)); [discriminate|].
    exact (IH _ _ _ _ _ _ _ _ H).
  - discriminate.
  - discriminate.
Qed.

Theorem stabilize_success_stable f a lx c st v lx' st' :
  run f (GStabilize a) lx c st = (ROk v lx', st') -> c_rec lx' = None.
Proof.
  destruct f as [|f]; cbn [run]; [discriminate|]. apply stab_loop_ok_stable.
Qed.

(** the retried success: the stabilised parser fails, the recovery is resumed at [lx1], and the
    parser (run unrecoverably) succeeds there: stabilize succeeds with a stable lexer *)
Theorem stabilize_retry_ok_clears f a lx c st e st1 r lx1 st2 v lx' st' :
  run (S (S f)) a lx c st = (RErr e, st1) -> c_rec lx = Some r ->
  advance_to_recover lx st1 = (Ok (true, lx1), st2) ->
  run (S (S f)) a lx1 (ctx_unrec c) st2 = (ROk v lx', st') ->
  run (S (S (S f))) (GStabilize a) lx c st = (ROk v (set_rec lx' None), st').
Proof.
  intros H Hr Ha H2.
  change (run (S (S (S f))) (GStabilize a) lx c st)
    with (stab_loop (run (S (S f))) (S (S f)) 0 a c lx (run (S (S f)) a lx c st)).
  rewrite H. cbn [stab_loop]. rewrite Hr, Ha. cbn [Nat.ltb Nat.leb andb]. rewrite H2. reflexivity.
Qed.
