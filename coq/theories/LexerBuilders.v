(** C03, builder order: with_column_metrics / with_line_ending / with_tab_width re-measure every
    position the lexer holds from its byte offset under the NEW metrics; wherever that offset is a
    character boundary that does not split a line ending of the new metrics, the new position is
    the canonical one. (The defect repaired by "metrics builders re-measure positions" was a lexer
    that kept positions measured under the old metrics after an eager scan.) *)
From Tephra Require Import MetricsSpec MetricsFacts CLexer LexerFacts LexerCanon.

Section Builders.
  Variable m : metrics.            (* the NEW metrics *)
  Hypothesis Htab : 1 <= tabw m.
  Variable t : text.
  Hypothesis Ht : wf_text t.

  (** [p]'s byte offset is a boundary of [t] that is good for [m] *)
  Definition good_offset (p : pos) : Prop :=
    exists pre suf, t = pre ++ suf /\ byte p = blen pre /\ bad_split m pre suf = false.

  Theorem remeasure_canonical p : good_offset p -> exists q, remeasure m t p = Ok q /\ Canonical m t q /\ byte q = byte p.
  Proof using Htab Ht.
    intros (pre & suf & E & Hb & Hbad).
    assert (Hwp : wf_text pre) by (rewrite E in Ht; apply wf_text_app in Ht; tauto).
    unfold remeasure. rewrite Hb, E, (split_at_app pre suf Hwp).
    pose proof (t_start_end m pre Htab Hwp 0 (Nat.le_0_l _)) as [_ He].
    assert (Ez : cpos m pre 0 = pos_zero) by (unfold cpos; apply Pf_0).
    rewrite Ez in He. rewrite He.
    assert (Eu : units m (pre ++ suf) = units m pre ++ units m suf) by (apply (units_app m (length pre)); [lia|exact Hbad]).
    assert (Ec : cpos m pre (nunits m pre) = cpos m (pre ++ suf) (nunits m pre)).
    { rewrite !cpos_decl, Eu. unfold nunits. rewrite firstn_app, Nat.sub_diag, firstn_all, firstn_O, app_nil_r. reflexivity. }
    exists (cpos m pre (nunits m pre)). split; [reflexivity|]. split.
    - exists (nunits m pre). split; [unfold nunits; rewrite Eu, app_length; lia|exact Ec].
    - unfold cpos. rewrite Pf_byte. cbn [byte pos_zero]. unfold nunits. rewrite firstn_all.
      unfold ubytes. rewrite (ctext_units m pre). reflexivity.
  Qed.

  (** the metrics builders: every held position whose offset is good becomes canonical *)
  Theorem set_met_remeasure_posok lx : c_text lx = t ->
    good_offset (c_ps lx) -> good_offset (c_ts lx) -> good_offset (c_cur lx) ->
    (match c_buf lx with None => True | Some b => good_offset (pk_start b) /\ good_offset (pk_cursor b) end) ->
    exists lx', set_met_remeasure lx m = Ok lx' /\ PosOK m t lx'
      /\ c_filter lx' = c_filter lx /\ c_sc lx' = c_sc lx /\ c_rec lx' = c_rec lx
      /\ byte (c_ps lx') = byte (c_ps lx) /\ byte (c_ts lx') = byte (c_ts lx) /\ byte (c_cur lx') = byte (c_cur lx).
  Proof using Htab Ht.
    intros Et Hps Hts Hcur Hbuf. unfold set_met_remeasure. rewrite Et.
    destruct (remeasure_canonical _ Hps) as (q1 & E1 & C1 & B1). rewrite E1. cbn [bind].
    destruct (remeasure_canonical _ Hts) as (q2 & E2 & C2 & B2). rewrite E2. cbn [bind].
    destruct (remeasure_canonical _ Hcur) as (q3 & E3 & C3 & B3). rewrite E3. cbn [bind].
    destruct (c_buf lx) as [b|].
    - destruct Hbuf as [H4 H5].
      destruct (remeasure_canonical _ H4) as (q4 & E4 & C4 & B4). rewrite E4. cbn [bind].
      destruct (remeasure_canonical _ H5) as (q5 & E5 & C5 & B5). rewrite E5. cbn [bind].
      eexists. split; [reflexivity|]. split; [apply Build_PosOK; cbn; try reflexivity; try assumption; split; assumption|].
      cbn. repeat split; assumption.
    - cbn [bind]. eexists. split; [reflexivity|]. split; [apply Build_PosOK; cbn; try reflexivity; try assumption; exact I|].
      cbn. repeat split; assumption.
  Qed.
End Builders.

(** every boundary is good for LF and CR metrics; for CRLF those that do not split a CR LF *)
Lemma good_offset_lf_cr m t p pre suf : le m <> LE_CrLf -> t = pre ++ suf -> byte p = blen pre -> good_offset m t p.
Proof.
  intros Hle E Hb. exists pre, suf. split; [exact E|]. split; [exact Hb|]. unfold bad_split. destruct (le m); try reflexivity. contradiction.
Qed.
