(** C03 (lexer part): every position a lexer holds or reports is a canonical position of the
    text under the lexer's metrics. The scanner measures a token's end with
    [ColumnMetrics::end_position] from the token's start, so it maps canonical starts to
    canonical ends provided a token never ends between the CR and LF of a CRLF line ending —
    which the harness scanners guarantee (CR and LF are both whitespace, runs are maximal). *)
From Tephra Require Import MetricsSpec MetricsFacts CLexer LexerFacts.

(** the split [a | b] falls inside a CRLF line ending *)
Definition bad_split (m : metrics) (a b : text) : bool :=
  match le m, rev a, b with
  | LE_CrLf, Cr :: _, Lf :: _ => true
  | _, _, _ => false
  end.

Lemma bad_split_nil_l m b : bad_split m [] b = false.
Proof. unfold bad_split. destruct (le m); reflexivity. Qed.

Lemma bad_split_cons m c a b : a <> [] -> bad_split m (c :: a) b = bad_split m a b.
Proof.
  intros Ha. unfold bad_split. cbn [rev].
  destruct (rev a) as [|x r] eqn:E.
  - exfalso. apply Ha. apply (f_equal (@rev chr)) in E. rewrite rev_involutive in E. exact E.
  - reflexivity.
Qed.

(** greedy reading distributes over a split that is not inside a CRLF *)
Lemma units_app m : forall n a b, length a <= n -> bad_split m a b = false ->
  units m (a ++ b) = units m a ++ units m b.
Proof.
  induction n as [|n IH]; intros a b Hn Hb.
  - destruct a; [reflexivity|cbn in Hn; lia].
  - destruct a as [|c a']; [reflexivity|]. cbn [length] in Hn.
    cbn [app units].
    destruct (le m) eqn:L.
    + (* LF *)
      assert (Hb' : bad_split m a' b = false) by (unfold bad_split; rewrite L; reflexivity).
      unfold starts_lb. rewrite !L.
      destruct c; cbn [app]; f_equal; (apply IH; [lia|exact Hb']).
    + (* CR *)
      assert (Hb' : bad_split m a' b = false) by (unfold bad_split; rewrite L; reflexivity).
      unfold starts_lb. rewrite !L.
      destruct c; cbn [app]; f_equal; (apply IH; [lia|exact Hb']).
    + (* CRLF *)
      destruct a' as [|c' a''].
      * (* a = [c] *)
        cbn [app]. unfold bad_split in Hb. rewrite L in Hb. cbn [rev app] in Hb.
        unfold starts_lb. rewrite !L.
        destruct c; try reflexivity. destruct b as [|[] b']; try reflexivity. discriminate.
      * cbn [app]. cbn [length] in Hn. unfold starts_lb at 1 2. rewrite !L.
        assert (Hb' : bad_split m (c' :: a'') b = false) by (rewrite <- (bad_split_cons m c (c' :: a'') b); [exact Hb|discriminate]).
        destruct c.
        -- cbn [app]. f_equal. apply (IH (c' :: a'') b); [cbn; lia|exact Hb'].
        -- destruct c'.
           ++ cbn [app]. f_equal. apply (IH (Tab :: a'') b); [cbn; lia|exact Hb'].
           ++ cbn [app]. f_equal. apply (IH (Cr :: a'') b); [cbn; lia|exact Hb'].
           ++ (* CR LF: one line-ending unit *)
              cbn [app]. f_equal.
              apply (IH a'' b); [lia|].
              destruct a'' as [|x r]; [apply bad_split_nil_l|].
              rewrite <- (bad_split_cons m Lf (x :: r) b); [exact Hb'|discriminate].
           ++ cbn [app]. f_equal. apply (IH (Ch len w id :: a'') b); [cbn; lia|exact Hb'].
        -- cbn [app]. f_equal. apply (IH (c' :: a'') b); [cbn; lia|exact Hb'].
        -- cbn [app]. f_equal. apply (IH (c' :: a'') b); [cbn; lia|exact Hb'].
Qed.

Lemma take_ws_rest suf rest : suf = take_ws suf ++ rest ->
  match rest with c :: _ => is_ws c = false | [] => True end.
Proof.
  revert rest; induction suf as [|c r IH]; intros rest E; cbn [take_ws] in E.
  - cbn in E. subst rest. exact I.
  - destruct (is_ws c) eqn:W.
    + cbn [app] in E. injection E as E. apply IH. exact E.
    + cbn [app] in E. subst rest. exact W.
Qed.

Lemma rev_app_head {A} (a b : list A) x r : rev b = x :: r -> rev (a ++ b) = x :: r ++ rev a.
Proof. intros E. rewrite rev_app_distr, E. reflexivity. Qed.

Section Canon.
  Variable m : metrics.
  Hypothesis Htab : 1 <= tabw m.
  Variable t : text.
  Hypothesis Ht : wf_text t.
  Local Notation us := (units m t).
  Local Notation n := (nunits m t).

  Definition Canonical (p : pos) : Prop := exists k, k <= n /\ p = cpos m t k.

  Lemma canonical_zero : Canonical pos_zero.
  Proof. exists 0. split; [lia|]. symmetry. apply (Pf_0 m pos_zero us). Qed.

  (** a token never ends inside a CRLF: the harness scanners' tokens *)
  Lemma token_split_ok pre chars rest c r :
    chars ++ rest = c :: r ->
    (is_ws c = true /\ chars = take_ws (c :: r)) \/ (is_ws c = false /\ kind_of_chr c <> None /\ chars = [c]) ->
    bad_split m (pre ++ chars) rest = false.
  Proof.
    intros E [[W Ec]|[W [K Ec]]].
    - pose proof (take_ws_rest (c :: r) rest) as Hr. rewrite <- Ec in Hr. specialize (Hr (eq_sym E)).
      unfold bad_split. destruct (le m); try reflexivity.
      destruct (rev (pre ++ chars)) as [|[] ?]; try reflexivity.
      destruct rest as [|[] ?]; try reflexivity. cbn in Hr. discriminate.
    - subst chars. unfold bad_split. destruct (le m); try reflexivity.
      rewrite rev_app_distr. cbn [rev app]. destruct c; try reflexivity. cbn in K. congruence.
  Qed.

  (** the scanner maps a canonical start to a canonical end *)
  Theorem scan_canonical st p tk e st' : Canonical p ->
    scan st m t p = Ok (Some (tk, e, st')) -> Canonical e /\ byte p < byte e.
  Proof.
    intros (k & Hk & ->) Hscan.
    pose proof (wf_units_units m t Ht) as Hwf.
    remember (ctext m (firstn k us)) as pre eqn:Epre. remember (ctext m (skipn k us)) as suf eqn:Esuf0.
    assert (Et : t = pre ++ suf).
    { subst pre suf. rewrite <- ctext_app, firstn_skipn. symmetry. apply ctext_units. }
    assert (Hb : byte (cpos m t k) = blen pre).
    { subst pre. unfold cpos. rewrite Pf_byte. reflexivity. }
    assert (Hwpre : wf_text pre) by (apply (wf_pre t Ht pre suf Et)).
    unfold scan in Hscan. rewrite Hb in Hscan. rewrite Et in Hscan at 1. rewrite (split_at_app pre suf Hwpre) in Hscan.
    destruct suf as [|c r] eqn:Esuf; [discriminate|].
    assert (Hchars : exists chars rest, c :: r = chars ++ rest /\ 1 <= length chars /\ wf_text chars
               /\ end_scan m chars (cpos m t k) = Ok e /\ bad_split m (pre ++ chars) rest = false).
    { destruct (is_ws c) eqn:W.
      - destruct (take_ws_prefix (c :: r)) as (rest & Er).
        destruct (end_scan m (take_ws (c :: r)) (cpos m t k)) as [e0| |] eqn:Ee; cbn [bind] in Hscan; try discriminate.
        destruct (scan_step st KWs) as [tk0 st0]. injection Hscan as _ He _. subst e0.
        exists (take_ws (c :: r)), rest. split; [exact Er|]. split; [apply take_ws_nonempty, W|].
        split.
        + pose proof (wf_suf t Ht pre (c :: r) Et) as Ws. rewrite Er in Ws. apply wf_text_app in Ws. tauto.
        + split; [exact Ee|]. apply (token_split_ok pre _ rest c r (eq_sym Er)). left. split; [exact W|reflexivity].
      - destruct (kind_of_chr c) as [kd|] eqn:K; [|discriminate].
        destruct (end_scan m [c] (cpos m t k)) as [e0| |] eqn:Ee; cbn [bind] in Hscan; try discriminate.
        destruct (scan_step st kd) as [tk0 st0]. injection Hscan as _ He _. subst e0.
        exists [c], r. split; [reflexivity|]. split; [cbn; lia|]. split.
        + pose proof (wf_suf t Ht pre (c :: r) Et) as Ws. inversion Ws; subst. constructor; [assumption|constructor].
        + split; [exact Ee|]. apply (token_split_ok pre [c] r c r eq_refl). right. split; [exact W|]. split; [congruence|reflexivity]. }
    destruct Hchars as (chars & rest & Ecr & Hl & Wc & Ee & Hbs).
    (* the token's characters are whole units *)
    assert (Hbs2 : bad_split m chars rest = false).
    { unfold bad_split in *. destruct (le m); try reflexivity.
      destruct (rev chars) as [|x xr] eqn:Er.
      - apply (f_equal (@rev chr)) in Er. rewrite rev_involutive in Er. subst chars. cbn in Hl. lia.
      - rewrite (rev_app_head pre chars x xr Er) in Hbs. exact Hbs. }
    assert (Eu : skipn k us = units m chars ++ units m rest).
    { rewrite <- (units_ctext m (skipn k us) (wf_units_skipn m k us Hwf)). rewrite <- Esuf0, Ecr.
      apply (units_app m (length chars)); [lia|exact Hbs2]. }
    set (j := length (units m chars)).
    assert (Ej : firstn j (skipn k us) = units m chars).
    { rewrite Eu. unfold j. rewrite firstn_app, Nat.sub_diag, firstn_all. cbn [firstn]. apply app_nil_r. }
    assert (Hjpos : 1 <= j).
    { unfold j. destruct chars as [|c0 cs]; [cbn in Hl; lia|]. cbn [units].
      destruct (starts_lb m (c0 :: cs)); cbn [length]; lia. }
    assert (Hkj : k + j <= n).
    { unfold nunits. rewrite <- (firstn_skipn k us) at 1. rewrite app_length, firstn_length, Eu, app_length.
      fold j. rewrite Nat.min_l by exact Hk. lia. }
    assert (Ee2 : e = cpos m t (k + j)).
    { rewrite <- (ctext_units m chars) in Ee.
      rewrite (end_scan_units m Htab (units m chars) _ (wf_units_units m chars Wc)) in Ee.
      injection Ee as <-. unfold cpos, Pf. rewrite canon_from_fold, <- Ej, firstn_add. reflexivity. }
    split.
    - exists (k + j). split; [exact Hkj|exact Ee2].
    - rewrite Ee2. unfold cpos. apply (Pf_byte_mono m pos_zero us k (k + j) Hwf); [lia|exact Hkj].
  Qed.
End Canon.

(** * Every position a lexer holds is canonical *)
Section LexPos.
  Variable m : metrics.
  Hypothesis Htab : 1 <= tabw m.
  Variable t : text.
  Hypothesis Ht : wf_text t.
  Local Notation Canonical := (Canonical m t).

  Definition buf_ok (b : option sbuf) : Prop :=
    match b with None => True | Some b => Canonical (pk_start b) /\ Canonical (pk_cursor b) end.

  Record PosOK (lx : clexer) : Prop := {
    po_text : c_text lx = t; po_met : c_met lx = m;
    po_ps : Canonical (c_ps lx); po_ts : Canonical (c_ts lx); po_cur : Canonical (c_cur lx);
    po_buf : buf_ok (c_buf lx) }.

  Lemma buffer_loop_pos : forall fuel behind lx psc pcur lx',
    PosOK lx -> Canonical pcur -> buffer_loop fuel behind lx psc pcur = Ok lx' -> PosOK lx'.
  Proof.
    induction fuel as [|f IH]; intros behind lx psc pcur lx' HP Hc H; [discriminate|].
    cbn [buffer_loop] in H. pose proof HP as [Et Em P1 P2 P3 P4]. rewrite Et, Em in H.
    destruct (scan psc m t pcur) as [[[[tk adv] psc']|]| |] eqn:Es; cbn [bind] in H; try discriminate.
    - destruct (scan_canonical m Htab t Ht _ _ _ _ _ Hc Es) as [Ha _].
      destruct (filtered_out lx tk).
      + destruct behind.
        * refine (IH true _ psc' adv lx' _ Ha H).
          constructor; cbn [c_text c_met c_ps c_ts c_cur c_buf]; try assumption; congruence.
        * apply (IH false lx psc' adv lx' HP Ha H).
      + injection H as <-. constructor; cbn [set_buf c_text c_met c_ps c_ts c_cur c_buf buf_ok pk_start pk_cursor]; try assumption.
        split; assumption.
    - injection H as <-. exact HP.
  Qed.

  Lemma next_loop_pos : forall fuel behind lx o lx',
    PosOK lx -> next_loop fuel behind lx = Ok (o, lx') -> PosOK lx'.
  Proof.
    induction fuel as [|f IH]; intros behind lx o lx' HP H; [discriminate|].
    cbn [next_loop] in H. pose proof HP as [Et Em P1 P2 P3 P4]. rewrite Et, Em in H.
    destruct (scan (c_sc lx) m t (c_cur lx)) as [[[[tk adv] sc']|]| |] eqn:Es; cbn [bind] in H; try discriminate.
    - destruct (scan_canonical m Htab t Ht _ _ _ _ _ P3 Es) as [Ha _].
      destruct (filtered_out lx tk).
      + destruct behind; refine (IH _ _ o lx' _ H);
          constructor; cbn [c_text c_met c_ps c_ts c_cur c_buf]; try assumption; congruence.
      + injection H as _ <-. constructor; cbn [c_text c_met c_ps c_ts c_cur c_buf]; try assumption; try congruence.
        destruct behind; assumption.
    - injection H as _ <-. exact HP.
  Qed.

  Theorem c_buffer_next_pos lx lx' : PosOK lx -> c_buffer_next lx = Ok lx' -> PosOK lx'.
  Proof.
    intros HP H. unfold c_buffer_next in H. destruct (c_buf lx); [injection H as <-; exact HP|].
    apply (buffer_loop_pos _ _ _ _ _ _ HP (po_cur lx HP) H).
  Qed.

  Theorem c_next_pos lx o lx' : PosOK lx -> c_next lx = Ok (o, lx') -> PosOK lx'.
  Proof.
    intros HP H. unfold c_next in H. destruct (c_at_end lx); [injection H as _ <-; exact HP|].
    pose proof HP as [Et Em P1 P2 P3 P4].
    destruct (c_buf lx) as [b|] eqn:Eb.
    - injection H as _ <-. destruct P4 as [B1 B2].
      constructor; cbn [c_text c_met c_ps c_ts c_cur c_buf buf_ok]; try assumption; try exact I.
      destruct (pos_eqb (c_ps lx) (c_cur lx)); assumption.
    - apply (next_loop_pos _ _ _ _ _ HP H).
  Qed.

  Theorem c_peek_pos lx o lx' : PosOK lx -> c_peek lx = Ok (o, lx') -> PosOK lx'.
  Proof.
    intros HP H. unfold c_peek in H. destruct (c_at_end lx); [injection H as _ <-; exact HP|].
    destruct (c_buffer_next lx) as [l1| |] eqn:E; cbn [bind] in H; try discriminate.
    injection H as _ <-. apply (c_buffer_next_pos lx l1 HP E).
  Qed.

  Theorem c_set_filter_pos lx f old lx' : PosOK lx -> c_set_filter lx f = Ok (old, lx') -> PosOK lx'.
  Proof.
    intros HP H. unfold c_set_filter in H.
    destruct (c_buffer_next (set_buf (set_flt lx f) None)) as [l1| |] eqn:E; cbn [bind] in H; try discriminate.
    injection H as _ <-. apply (c_buffer_next_pos _ l1) in E; [exact E|].
    destruct HP as [Et Em P1 P2 P3 P4]. constructor; cbn; try assumption. exact I.
  Qed.

  Theorem c_start_sublex_pos lx lx' : PosOK lx -> c_start_sublex lx = Ok lx' -> PosOK lx'.
  Proof.
    intros HP H. unfold c_start_sublex in H. apply (c_buffer_next_pos _ lx') in H; [exact H|].
    destruct HP as [Et Em P1 P2 P3 P4]. constructor; cbn; assumption.
  Qed.

  Theorem c_new_pos sc : c_met (c_new sc t) = m -> PosOK (c_new sc t).
  Proof.
    intros Em. pose proof (canonical_zero m Htab t) as Z.
    apply Build_PosOK; [reflexivity|exact Em|exact Z|exact Z|exact Z|exact I].
  Qed.

  (** the remaining observers read canonical positions too *)
  Theorem peek_parse_span_pos lx sp : PosOK lx -> c_peek_parse_span lx = Some sp -> Canonical (sstart sp) /\ Canonical (send sp).
  Proof.
    intros H E. unfold c_peek_parse_span in E. pose proof (po_buf _ H) as Hb.
    destruct (c_buf lx) as [b|]; [|discriminate E]. destruct Hb as [A B]. injection E as <-.
    destruct (pos_eqb (pk_start b) (c_cur lx)); unfold enclosing;
      match goal with |- context [if ?c then _ else _] => destruct c end; cbn [sstart send]; split;
      first [exact B|apply H].
  Qed.

  Theorem peek_cursor_pos_pos lx p : PosOK lx -> c_peek_cursor_pos lx = Some p -> Canonical p.
  Proof.
    intros H E. unfold c_peek_cursor_pos in E. pose proof (po_buf _ H) as Hb.
    destruct (c_buf lx) as [b|]; [|discriminate E]. injection E as <-. exact (proj2 Hb).
  Qed.

  Theorem c_is_empty_with_filter_pos lx b lx' : PosOK lx -> c_is_empty_with_filter lx = Ok (b, lx') -> PosOK lx'.
  Proof.
    intros H E. unfold c_is_empty_with_filter in E. destruct (c_buffer_next lx) as [l| |] eqn:Eb; cbn [bind] in E; try discriminate E.
    injection E as _ <-. exact (c_buffer_next_pos lx l H Eb).
  Qed.

End LexPos.
