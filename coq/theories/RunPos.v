(** C03 for the WHOLE COMBINATOR MODEL: started on a lexer whose positions are canonical (the
    position at byte b is "line = number of line endings before b, column = display width since the
    last one, tabs to the next stop"), every combinator returns a lexer whose positions are
    canonical, and every position inside every returned value (spanned), every returned error
    (parse span, token span, boundary position, bracket spans, count span) and every error sent to
    the sink is canonical - for every grammar, context, store and fuel. Only the position invariant
    of the lexer operations (LexerCanon) is used: no span is ever computed, they are all read off
    lexers of the scan. *)
From Tephra Require Import MetricsSpec MetricsFacts CLexer LexerFacts LexerCanon Run.

Section Pos.
  Variable m : metrics.
  Hypothesis Htab : 1 <= tabw m.
  Variable t : text.
  Hypothesis Ht : wf_text t.
  Local Notation Canonical := (Canonical m t).
  Local Notation PosOK := (PosOK m t).

  (** both ends canonical (hence inside the text, on unit boundaries), and in order *)
  Definition sp_ok (s : span) : Prop := (Canonical (sstart s) /\ Canonical (send s)) /\ byte (sstart s) <= byte (send s).

  Fixpoint val_ok (v : val) : Prop :=
    match v with
    | VSpanned s v' => sp_ok s /\ val_ok v'
    | VPair a b => val_ok a /\ val_ok b
    | VSome v' | VTag _ v' => val_ok v'
    | VList l => (fix all (l : list val) : Prop := match l with [] => True | x :: r => val_ok x /\ all r end) l
    | _ => True
    end.

  Definition vals_ok (l : list val) : Prop := val_ok (VList l).

  Lemma vals_ok_app a b : vals_ok a -> vals_ok b -> vals_ok (a ++ b).
  Proof. unfold vals_ok. induction a as [|x a IH]; cbn; [tauto|]. intros [Hx Ha] Hb. split; [exact Hx|exact (IH Ha Hb)]. Qed.

  Lemma vals_ok_one v : val_ok v -> vals_ok [v].
  Proof. intros H. cbn. tauto. Qed.

  Fixpoint err_ok (e : err) : Prop :=
    match e with
    | EUnexpected es ts _ _ => sp_ok es /\ sp_ok ts
    | EUnrecognized es => sp_ok es
    | EBoundary es p => sp_ok es /\ Canonical p
    | EBracket _ s1 s2 => sp_ok s1 /\ match s2 with Some s => sp_ok s | None => True end
    | ECount es _ _ _ => sp_ok es
    | ETagged _ e' => err_ok e'
    | _ => True
    end.

  Definition log_ok (st : store) : Prop := Forall err_ok (log st).

  (** what a result may contain *)
  Definition cn (r : R) : Prop :=
    log_ok (snd r) /\
    match fst r with
    | ROk v lx' => PosOK lx' /\ val_ok v
    | RErr e => err_ok e
    | _ => True
    end.

  Lemma cn_ok v lx st : PosOK lx -> val_ok v -> log_ok st -> cn (ROk v lx, st).
  Proof. intros. split; [assumption|split; assumption]. Qed.
  Lemma cn_err e st : err_ok e -> log_ok st -> cn (RErr e, st).
  Proof. intros. split; assumption. Qed.
  Lemma cn_panic st : log_ok st -> cn (RPanic, st).
  Proof. intros. split; [assumption|exact I]. Qed.
  Lemma cn_fuel st : log_ok st -> cn (RFuel, st).
  Proof. intros. split; [assumption|exact I]. Qed.

  Lemma cn_log r : cn r -> log_ok (snd r).
  Proof. intros [H _]. exact H. Qed.

  Lemma enclosing_ok a b : Canonical a -> Canonical b -> sp_ok (enclosing a b).
  Proof. intros Ha Hb. unfold enclosing, sp_ok. destruct (Nat.ltb_spec (byte b) (byte a)); cbn [sstart send]; (split; [split; assumption|lia]). Qed.

  Lemma parse_span_ok lx : PosOK lx -> sp_ok (c_parse_span lx).
  Proof. intros H. apply enclosing_ok; apply H. Qed.
  Lemma token_span_ok lx : PosOK lx -> sp_ok (c_token_span lx).
  Proof. intros H. apply enclosing_ok; apply H. Qed.
  Lemma peek_token_span_ok lx sp : PosOK lx -> c_peek_token_span lx = Some sp -> sp_ok sp.
  Proof.
    intros H E. unfold c_peek_token_span in E. pose proof (po_buf _ _ _ H) as Hb.
    destruct (c_buf lx) as [b|]; [|discriminate E]. destruct (pos_eqb (pk_start b) (pk_cursor b)); [discriminate E|].
    injection E as <-. destruct Hb as [A B]. apply enclosing_ok; assumption.
  Qed.
  Lemma peeked_span_ok lx : PosOK lx -> sp_ok (peeked_span lx).
  Proof.
    intros H. unfold peeked_span. destruct (c_peek_token_span lx) as [sp|] eqn:E; [exact (peek_token_span_ok lx sp H E)|exact (token_span_ok lx H)].
  Qed.
  Lemma span_at_ok lx : PosOK lx -> sp_ok (span_at (c_cursor_pos lx)).
  Proof. intros H. unfold span_at, sp_ok. cbn [sstart send]. split; [split; apply H|lia]. Qed.

  Lemma set_rec_pos lx r : PosOK lx -> PosOK (set_rec lx r).
  Proof. intros [A B C D E F]. constructor; assumption. Qed.

  Lemma log_ok_app st e : log_ok st -> err_ok e -> log_ok (st_log st (log st ++ [e])).
  Proof. intros H He. unfold log_ok. cbn [st_log log]. apply Forall_app. split; [exact H|constructor; [exact He|constructor]]. Qed.

  Lemma err_ok_trail tr : forall e, err_ok e -> err_ok (apply_trail tr e).
  Proof. unfold apply_trail. induction tr as [|x tr IH]; intros e He; [exact He|]. cbn [fold_left]. apply IH. exact He. Qed.

  (** sending an error: the log stays well-formed, a handed-back error is the one given *)
  Lemma send_error_ok c e st : log_ok st -> err_ok e ->
    match send_error c e (log st) with
    | (l, Some e') => l = log st /\ e' = e
    | (l, None) => log_ok (st_log st l)
    end.
  Proof.
    intros H He. unfold send_error. destruct (has_sink c); [|split; reflexivity].
    apply log_ok_app; [exact H|]. apply err_ok_trail. exact He.
  Qed.

  (** * Sequencing *)

  Lemma cn_on_ok r k : cn r -> (forall v l s, PosOK l -> val_ok v -> log_ok s -> cn (k v l s)) -> cn (on_ok r k).
  Proof. destruct r as [[v l|e| |] s]; cbn [on_ok]; intros [Hl H] Hk; cbn [fst snd] in *; [destruct H; apply Hk; assumption|split; assumption..]. Qed.

  Lemma cn_map_val f r : (forall v, val_ok v -> val_ok (f v)) -> cn r -> cn (map_val f r).
  Proof. intros Hf. destruct r as [[v l|e| |] s]; cbn [map_val]; intros [Hl H]; cbn [fst snd] in *; split; try assumption. destruct H. split; [assumption|apply Hf; assumption]. Qed.

  Lemma cn_lift {A} (x : res A) st k : log_ok st -> (forall a, x = Ok a -> cn (k a)) -> cn (lift x st k).
  Proof. intros Hl H. destruct x as [a| |]; cbn [lift]; [exact (H a eq_refl)|apply cn_panic; exact Hl|apply cn_fuel; exact Hl]. Qed.

  (** * Lexer scans *)

  Lemma advance_to_pos : forall fuel lx p b lx', PosOK lx -> c_advance_to fuel lx p = Ok (b, lx') -> PosOK lx'.
  Proof using Htab Ht.
    induction fuel as [|f IH]; intros lx p b lx' H E; [discriminate E|]. cbn [c_advance_to] in E.
    destruct (c_next lx) as [[o l1]| |] eqn:En; cbn [bind] in E; try discriminate E.
    pose proof (c_next_pos m Htab t Ht lx o l1 H En) as H1.
    destruct o as [tk|]; [|injection E as _ <-; exact H1].
    destruct (p tk); [injection E as _ <-; exact H1|exact (IH _ _ _ _ H1 E)].
  Qed.

  Lemma recover_loop_pos r : forall fuel lx st b lx' st', PosOK lx -> recover_loop fuel r lx st = (Ok (b, lx'), st') -> PosOK lx'.
  Proof using Htab Ht.
    induction fuel as [|f IH]; intros lx st b lx' st' H E; [discriminate E|]. cbn [recover_loop] in E.
    destruct (c_peek lx) as [[[tk|] l1]| |] eqn:Ep; try discriminate E.
    - pose proof (c_peek_pos m Htab t Ht lx _ l1 H Ep) as H1.
      destruct (rec_call st r tk) as [s1 bb]. destruct bb; [injection E as _ <- _; exact H1|].
      destruct (c_next l1) as [[o l2]| |] eqn:En; try discriminate E.
      exact (IH _ _ _ _ _ (c_next_pos m Htab t Ht l1 o l2 H1 En) E).
    - injection E as _ <- _. exact (c_peek_pos m Htab t Ht lx _ l1 H Ep).
  Qed.

  Lemma recover_loop_log r : forall fuel lx st, log (snd (recover_loop fuel r lx st)) = log st.
  Proof.
    induction fuel as [|f IH]; intros lx st; [reflexivity|]. cbn [recover_loop].
    destruct (c_peek lx) as [[[tk|] l1]| |]; try reflexivity.
    assert (Hrc : log (fst (rec_call st r tk)) = log st).
    { unfold rec_call. destruct (snd r); [reflexivity|]. destruct (is_found st (fst r)); [reflexivity|]. destruct (in_kinds ks tk); reflexivity. }
    destruct (rec_call st r tk) as [s1 bb]. cbn [fst] in Hrc. destruct bb; [exact Hrc|].
    destruct (c_next l1) as [[o l2]| |]; try exact Hrc. rewrite IH. exact Hrc.
  Qed.

  Lemma advance_to_recover_pos lx st b lx' st' : PosOK lx -> advance_to_recover lx st = (Ok (b, lx'), st') -> PosOK lx'.
  Proof using Htab Ht.
    intros H E. unfold advance_to_recover in E. destruct (c_rec lx) as [r|]; [exact (recover_loop_pos r _ _ _ _ _ _ H E)|].
    injection E as _ <- _. exact H.
  Qed.

  Lemma advance_to_recover_log_ok lx st : log_ok st -> log_ok (snd (advance_to_recover lx st)).
  Proof.
    intros H. unfold log_ok, advance_to_recover. destruct (c_rec lx) as [r|]; [rewrite recover_loop_log; exact H|exact H].
  Qed.

  (** the bracket scan: the two lexers it returns and the spans of its errors *)
  Lemma bracket_loop_pos : forall fuel os cs ab start lx ol stack sps,
    PosOK lx -> sp_ok start -> (match ol with Some o => PosOK o | None => True end) -> Forall sp_ok sps ->
    match bracket_loop fuel os cs ab start lx ol stack sps with
    | BM o cl _ => PosOK o /\ PosOK cl
    | BErr e => err_ok e
    | _ => True
    end.
  Proof using Htab Ht.
    induction fuel as [|f IH]; intros os cs ab start lx ol stack sps H Hst Hol Hsps; [exact I|]. cbn [bracket_loop].
    destruct (c_peek lx) as [[[tk|] lx1]| |] eqn:Ep; try exact I.
    2:{ destruct ol as [o|]; [|split; [exact Hst|exact I]]. unfold pts. destruct (c_peek_token_span o) as [sp|] eqn:Eo; [|exact I].
        split; [exact (peek_token_span_ok o sp Hol Eo)|exact I]. }
    pose proof (c_peek_pos m Htab t Ht lx _ lx1 H Ep) as H1.
    assert (Hcont : forall ol' stack' sps', (match ol' with Some o => PosOK o | None => True end) -> Forall sp_ok sps' ->
              match match c_next lx1 with
                    | Ok (_, lx2) => bracket_loop f os cs ab start lx2 ol' stack' sps'
                    | Panic => BPanic | Fuel => BFuel
                    end with
              | BM o cl _ => PosOK o /\ PosOK cl
              | BErr e => err_ok e
              | _ => True
              end).
    { intros ol' stack' sps' Hol' Hsps'. destruct (c_next lx1) as [[o2 lx2]| |] eqn:En; try exact I.
      apply IH; try assumption. exact (c_next_pos m Htab t Ht lx1 o2 lx2 H1 En). }
    assert (Htl : Forall sp_ok (tl sps)) by (destruct sps; [constructor|inversion Hsps; assumption]).
    destruct (position (fun k => tok_eqb (tk0 k) tk) cs) as [idx|].
    - destruct stack as [|[t0 n0] rest].
      + unfold pts. destruct (c_peek_token_span lx1) as [sp|] eqn:E1; [|exact I]. split; [exact (peek_token_span_ok lx1 sp H1 E1)|exact I].
      + destruct (negb (t0 =? idx)).
        * destruct sps as [|s1 sr]; [exact I|]. unfold pts. destruct (c_peek_token_span lx1) as [s2|] eqn:E1; [|exact I].
          inversion Hsps; subst. split; [assumption|exact (peek_token_span_ok lx1 s2 H1 E1)].
        * destruct (1 <? n0); [apply Hcont; assumption|].
          destruct rest as [|p0 rest']; [|apply Hcont; assumption].
          destruct ol as [o|]; [split; assumption|exact I].
    - destruct (position (fun k => tok_eqb (tk0 k) tk) os) as [idx|].
      + unfold pts. destruct (c_peek_token_span lx1) as [osp|] eqn:E1; [|exact I].
        pose proof (peek_token_span_ok lx1 osp H1 E1) as Hosp.
        assert (Hol' : match (match ol with None => Some lx1 | Some _ => ol end) with Some o => PosOK o | None => True end)
          by (destruct ol; assumption).
        destruct stack as [|[t0 n0] rest]; [apply Hcont; [exact Hol'|constructor; assumption]|].
        destruct (negb (t0 =? idx)); apply Hcont; try exact Hol'; constructor; assumption.
      + destruct (in_kinds ab tk && match ol with None => true | Some _ => false end).
        * unfold pts. destruct (c_peek_token_span lx1) as [sp|] eqn:E1; [|exact I]. split; [exact (peek_token_span_ok lx1 sp H1 E1)|exact I].
        * apply Hcont; assumption.
  Qed.

  (** * Loops *)

  Definition pfun (P : clexer -> store -> R) : Prop := forall l s, PosOK l -> log_ok s -> cn (P l s).
  Definition pstop (stop : option (clexer -> store -> R)) : Prop := match stop with Some sp => pfun sp | None => True end.
  Definition pcont (k : list val -> clexer -> store -> R) : Prop :=
    forall vs l s, vals_ok vs -> PosOK l -> log_ok s -> cn (k vs l s).

  Lemma cn_mand : forall n lo stop step vals cur st k, pstop stop -> pfun step -> pcont k ->
    vals_ok vals -> PosOK cur -> log_ok st -> cn (mand_loop n lo stop step vals cur st k).
  Proof.
    induction n as [|n IH]; intros lo stop step vals cur st k Hsp Hst Hk Hv Hc Hl; cbn [mand_loop]; [apply cn_fuel; exact Hl|].
    destruct (length vals <? lo); [|apply Hk; assumption].
    assert (Hgo : forall s0, log_ok s0 ->
              cn match step cur s0 with
                 | (ROk v lx', st') => mand_loop n lo stop step (vals ++ [v]) lx' st' k
                 | r => r
                 end).
    { intros s0 Hs0. pose proof (Hst cur s0 Hc Hs0) as H. destruct (step cur s0) as [[v l|e| |] s1]; try exact H.
      destruct H as [Hl1 [Hp Hvv]]. cbn [fst snd] in *. apply IH; try assumption. apply vals_ok_app; [exact Hv|apply vals_ok_one; exact Hvv]. }
    destruct stop as [sp|]; [|apply Hgo; exact Hl].
    pose proof (Hsp cur st Hc Hl) as H. destruct (sp cur st) as [[v l|e| |] s1]; destruct H as [Hl1 H]; cbn [fst snd] in *.
    - apply cn_ok; assumption.
    - apply Hgo; exact Hl1.
    - apply cn_panic; exact Hl1.
    - apply cn_fuel; exact Hl1.
  Qed.

  Lemma cn_opt : forall n hi stop step vals cur st, pstop stop -> pfun step ->
    vals_ok vals -> PosOK cur -> log_ok st -> cn (opt_loop n hi stop step vals cur st).
  Proof.
    induction n as [|n IH]; intros hi stop step vals cur st Hsp Hst Hv Hc Hl; cbn [opt_loop]; [apply cn_fuel; exact Hl|].
    destruct (lt_opt (length vals) hi); [|apply cn_ok; assumption].
    assert (Hgo : forall s0, log_ok s0 ->
              cn match step cur s0 with
                 | (ROk v lx', st') =>
                   let vals' := vals ++ [v] in
                   if ge_opt (length vals') hi then (ROk (VList vals') lx', st')
                   else opt_loop n hi stop step vals' lx' st'
                 | (RErr _, st') => (ROk (VList vals) cur, st')
                 | r => r
                 end).
    { intros s0 Hs0. pose proof (Hst cur s0 Hc Hs0) as H. destruct (step cur s0) as [[v l|e| |] s1]; destruct H as [Hl1 H]; cbn [fst snd] in *.
      - destruct H as [Hp Hvv]. cbn zeta. assert (Hv' : vals_ok (vals ++ [v])) by (apply vals_ok_app; [exact Hv|apply vals_ok_one; exact Hvv]).
        destruct (ge_opt _ hi); [apply cn_ok; assumption|apply IH; assumption].
      - apply cn_ok; assumption.
      - apply cn_panic; exact Hl1.
      - apply cn_fuel; exact Hl1. }
    destruct stop as [sp|]; [|apply Hgo; exact Hl].
    pose proof (Hsp cur st Hc Hl) as H. destruct (sp cur st) as [[v l|e| |] s1]; destruct H as [Hl1 H]; cbn [fst snd] in *.
    - apply cn_ok; assumption.
    - apply Hgo; exact Hl1.
    - apply cn_panic; exact Hl1.
    - apply cn_fuel; exact Hl1.
  Qed.

  Section WithRunf.
    Variable runf : G -> clexer -> ctx -> store -> R.
    Variable ok : G -> Prop.
    Hypothesis Hrun : forall g l c s, ok g -> PosOK l -> log_ok s -> cn (runf g l c s).

    Lemma right_of_pfun s a c : ok s -> ok a -> pfun (right_of runf s a c).
    Proof. intros Hos Hoa l st Hl Hs. unfold right_of. apply cn_on_ok; [apply Hrun; assumption|]. intros v l1 s1 H1 _ Hs1. apply Hrun; assumption. Qed.

    Lemma cn_intersperse n lo hi a s lx c st : ok a -> ok s -> PosOK lx -> log_ok st -> cn (run_intersperse runf n lo hi a s lx c st).
    Proof.
      intros Hoa Hos Hl Hs. unfold run_intersperse, hi_check.
      assert (Hb : cn match runf a lx c st with
                      | (ROk v lx1, st1) =>
                        mand_loop n lo None (right_of runf s a c) [v] lx1 st1
                          (fun vals cur st2 => opt_loop n hi None (right_of runf s a c) vals cur st2)
                      | (RErr e, st1) => if lo =? 0 then (ROk (VList []) lx, st1) else (RErr e, st1)
                      | r => r
                      end).
      { pose proof (Hrun a lx c st Hoa Hl Hs) as H. destruct (runf a lx c st) as [[v l|e| |] s1]; try exact H; destruct H as [Hl1 H]; cbn [fst snd] in *.
        - destruct H as [Hp Hv]. apply cn_mand; try assumption; try exact I; try (apply right_of_pfun; assumption); [|apply vals_ok_one; exact Hv].
          intros vs l2 s2 Hvs Hl2 Hs2. apply cn_opt; try assumption; try exact I. apply right_of_pfun; assumption.
        - destruct (lo =? 0); [apply cn_ok; [assumption|exact I|assumption]|apply cn_err; assumption]. }
      destruct hi as [h|]; [|exact Hb]. destruct (h <? lo); [apply cn_panic; exact Hs|].
      destruct (h =? 0); [apply cn_ok; [assumption|exact I|assumption]|exact Hb].
    Qed.

    Lemma cn_intersperse_until n lo hi sg a s lx c st : ok sg -> ok a -> ok s -> PosOK lx -> log_ok st -> cn (run_intersperse_until runf n lo hi sg a s lx c st).
    Proof.
      intros Hog Hoa Hos Hl Hs. unfold run_intersperse_until, hi_check.
      assert (Hstop : pstop (Some (fun l st0 => runf sg l c st0))) by (intros l s0 H1 H2; apply Hrun; assumption).
      assert (Hb : cn match runf sg lx c st with
                      | (ROk _ _, st0) => (ROk (VList []) lx, st0)
                      | (RErr _, st0) =>
                        match runf a lx c st0 with
                        | (ROk v lx1, st1) =>
                          mand_loop n lo (Some (fun l st => runf sg l c st)) (right_of runf s a c) [v] lx1 st1
                            (fun vals cur st2 => opt_loop n hi (Some (fun l st => runf sg l c st)) (right_of runf s a c) vals cur st2)
                        | (RErr e, st1) => if lo =? 0 then (ROk (VList []) lx, st1) else (RErr e, st1)
                        | r => r
                        end
                      | r => r
                      end).
      { pose proof (Hrun sg lx c st Hog Hl Hs) as H0. destruct (runf sg lx c st) as [[v0 l0|e0| |] s0]; destruct H0 as [Hl0 H0]; cbn [fst snd] in *.
        - apply cn_ok; [assumption|exact I|assumption].
        - pose proof (Hrun a lx c s0 Hoa Hl Hl0) as H. destruct (runf a lx c s0) as [[v l|e| |] s1]; try exact H; destruct H as [Hl1 H]; cbn [fst snd] in *.
          + destruct H as [Hp Hv]. apply cn_mand; try assumption; try (apply right_of_pfun; assumption); [|apply vals_ok_one; exact Hv].
            intros vs l2 s2 Hvs Hl2 Hs2. apply cn_opt; try assumption. apply right_of_pfun; assumption.
          + destruct (lo =? 0); [apply cn_ok; [assumption|exact I|assumption]|apply cn_err; assumption].
        - apply cn_panic; exact Hl0.
        - apply cn_fuel; exact Hl0. }
      destruct hi as [h|]; [|exact Hb]. destruct (h <? lo); [apply cn_panic; exact Hs|].
      destruct (h =? 0); [apply cn_ok; [assumption|exact I|assumption]|exact Hb].
    Qed.

    Lemma cn_count_of r : cn r -> cn (count_of r).
    Proof. unfold count_of. apply cn_map_val. intros v Hv. destruct v; try exact Hv. exact I. Qed.

    Lemma cn_stab : forall n att a c lx res, ok a -> PosOK lx -> cn res -> cn (stab_loop runf n att a c lx res).
    Proof using Htab Ht Hrun.
      induction n as [|n IH]; intros att a c lx res Hoa Hl Hr; cbn [stab_loop]; [apply cn_fuel; exact (cn_log _ Hr)|].
      destruct res as [[v l|e| |] s]; try exact Hr; destruct Hr as [Hs H]; cbn [fst snd] in *.
      - destruct H as [Hp Hv]. apply cn_ok; [apply set_rec_pos; exact Hp|exact Hv|exact Hs].
      - destruct (c_rec lx) as [r|]; [|apply cn_err; assumption].
        pose proof (advance_to_recover_log_ok lx s Hs) as Hlog.
        destruct (advance_to_recover lx s) as [[[b lx1]| |] s1] eqn:Ea; cbn [snd] in Hlog.
        + destruct b; [|apply cn_err; [exact I|exact Hlog]].
          destruct (_ && _); [apply cn_err; assumption|].
          pose proof (advance_to_recover_pos lx s true lx1 s1 Hl Ea) as H1.
          apply IH; [exact Hoa|exact H1|]. apply Hrun; assumption.
        + apply cn_panic; exact Hlog.
        + apply cn_fuel; exact Hlog.
    Qed.

    Lemma cn_list_loop : forall n hi ab dflt item probe sepp c vals lx st k, ok item -> ok probe -> ok sepp -> pcont k -> val_ok dflt ->
      vals_ok vals -> PosOK lx -> log_ok st -> cn (list_loop runf n hi ab dflt item probe sepp c vals lx st k).
    Proof using Htab Ht Hrun.
      induction n as [|n IH]; intros hi ab dflt item probe sepp c vals lx st k Hoi Hop Hos Hk Hd Hv Hl Hs; cbn [list_loop]; [apply cn_fuel; exact Hs|].
      apply cn_lift; [exact Hs|]. intros [o lx0] Ep. pose proof (c_peek_pos m Htab t Ht lx o lx0 Hl Ep) as H0.
      destruct o as [tk|]; [|apply Hk; assumption].
      destruct (in_kinds ab tk).
      - destruct vals as [|v0 vr]; [apply Hk; assumption|].
        pose proof (Hrun probe lx0 c st Hop H0 Hs) as H. destruct (runf probe lx0 c st) as [[pv pl|pe| |] s1]; try exact H; destruct H as [Hl1 H]; cbn [fst snd] in *.
        destruct H as [Hp Hpv]. destruct pv; try (apply Hk; assumption).
        apply Hk; try assumption. apply vals_ok_app; [exact Hv|apply vals_ok_one; exact Hpv].
      - pose proof (Hrun item lx0 c st Hoi H0 Hs) as H. destruct (runf item lx0 c st) as [[v lx1|e| |] s1]; destruct H as [Hl1 H]; cbn [fst snd] in *.
        + destruct H as [H1 Hvv]. cbn zeta.
          assert (Hv' : vals_ok (vals ++ [v])) by (apply vals_ok_app; [exact Hv|apply vals_ok_one; exact Hvv]).
          destruct (ge_opt _ hi); [apply Hk; assumption|].
          apply cn_lift; [exact Hl1|]. intros [o2 lx2] Ep2. pose proof (c_peek_pos m Htab t Ht lx1 o2 lx2 H1 Ep2) as H2.
          destruct o2 as [t2|]; [|apply Hk; assumption].
          destruct (in_kinds ab t2); [apply Hk; assumption|]. destruct (c_at_end lx2); [apply Hk; assumption|].
          pose proof (Hrun sepp lx2 c s1 Hos H2 Hl1) as H3. destruct (runf sepp lx2 c s1) as [[v3 lx3|e3| |] s3]; try exact H3; destruct H3 as [Hl3 H3]; cbn [fst snd] in *.
          destruct H3 as [H3 _]. apply cn_lift; [exact Hl3|]. intros lx4 E4.
          apply IH; try assumption. exact (c_start_sublex_pos m Htab t Ht lx3 lx4 H3 E4).
        + destruct e; try (apply cn_err; assumption).
          apply cn_lift; [exact Hl1|]. intros [b lx1] Ea. apply Hk; try assumption.
          * apply vals_ok_app; [exact Hv|apply vals_ok_one; exact Hd].
          * exact (advance_to_pos _ _ _ _ _ H0 Ea).
        + apply cn_panic; exact Hl1.
        + apply cn_fuel; exact Hl1.
    Qed.

    (** * One step of the interpreter *)

    Lemma cn_seq_fix es st : sp_ok es -> log_ok st -> forall ks acc l, vals_ok acc -> PosOK l ->
      cn ((fix go (ks : list kind) (acc : list val) (l : clexer) : R :=
             match ks with
             | [] => (ROk (VList acc) l, st)
             | k :: r =>
               lift (c_next l) st (fun '(o, l') =>
               match o with
               | Some t => if tok_eqb t (tk0 k) then go r (acc ++ [VTok t]) l'
                           else (RErr (EUnexpected es (c_token_span l') (ExTok (tk0 k)) (Some t)), st)
               | None => (RErr (EUnexpected es (c_token_span l') (ExTok (tk0 k)) None), st)
               end)
             end) ks acc l).
    Proof using Htab Ht.
      intros Hes Hs. induction ks as [|k r IH]; intros acc l Ha Hl; [apply cn_ok; assumption|].
      apply cn_lift; [exact Hs|]. intros [o l'] En. pose proof (c_next_pos m Htab t Ht l o l' Hl En) as H1.
      destruct o as [tk|]; [|apply cn_err; [split; [exact Hes|apply token_span_ok; exact H1]|exact Hs]].
      destruct (tok_eqb tk (tk0 k)); [|apply cn_err; [split; [exact Hes|apply token_span_ok; exact H1]|exact Hs]].
      apply IH; [|exact H1]. apply vals_ok_app; [exact Ha|apply vals_ok_one; exact I].
    Qed.

    Lemma cn_seqcount_fix es st : sp_ok es -> log_ok st -> forall ks cnt l, PosOK l ->
      cn ((fix go (ks : list kind) (cnt : nat) (l : clexer) : R :=
             match ks with
             | [] => (ROk (VNat cnt) l, st)
             | k :: r =>
               if c_at_end l then (ROk (VNat cnt) l, st)
               else
                 lift (c_peek l) st (fun '(o, l') =>
                 match o with
                 | Some t => if tok_eqb t (tk0 k)
                             then lift (c_next l') st (fun '(_, l'') => go r (S cnt) l'')
                             else (ROk (VNat cnt) l', st)
                 | None =>
                   lift (only_filtered_remain l') st (fun b =>
                   if b then (ROk (VNat cnt) l', st) else (RErr (EUnrecognized es), st))
                 end)
             end) ks cnt l).
    Proof using Htab Ht.
      intros Hes Hs. induction ks as [|k r IH]; intros cnt l Hl; [apply cn_ok; [assumption|exact I|assumption]|].
      destruct (c_at_end l); [apply cn_ok; [assumption|exact I|assumption]|].
      apply cn_lift; [exact Hs|]. intros [o l'] Ep. pose proof (c_peek_pos m Htab t Ht l o l' Hl Ep) as H1.
      destruct o as [tk|].
      - destruct (tok_eqb tk (tk0 k)); [|apply cn_ok; [assumption|exact I|assumption]].
        apply cn_lift; [exact Hs|]. intros [o2 l2] En. apply IH. exact (c_next_pos m Htab t Ht l' o2 l2 H1 En).
      - apply cn_lift; [exact Hs|]. intros b _. destruct b; [apply cn_ok; [assumption|exact I|assumption]|apply cn_err; assumption].
    Qed.

  End WithRunf.

  (** the placeholders of the internal form [GRecoverWith] carry no foreign spans (the library's own
      placeholders are unit / none / default) *)
  Fixpoint gok (g : G) : Prop :=
    match g with
    | GRecoverWith d _ a => val_ok d /\ gok a
    | GLeft a b | GRight a b | GBoth a b | GEither a b
    | GImplies a b | GAntecedent a b | GConsequent a b | GCondImplies a _ b
    | GRepeatUntil _ _ a b | GRepeatCountUntil _ _ a b | GIntersperse _ _ a b | GIntersperseCount _ _ a b => gok a /\ gok b
    | GCenter a b d | GIntersperseUntil _ _ a b d | GIntersperseCountUntil _ _ a b d => gok a /\ gok b /\ gok d
    | GMap _ a | GDiscard a | GText a | GSpanned a | GSub a | GMaybe a | GRequireIf _ a | GCond _ a
    | GFilterWith _ a | GUnfiltered a | GRaw a | GUnrec a | GStabilize a | GCtxPush _ a | GSomeOf a | GUpTo a _
    | GRecover _ a | GRecoverDef _ a | GRecoverDelayed _ a | GRecoverDefDelayed _ a
    | GRepeat _ _ a | GRepeatCount _ _ a | GIntersperseDef _ _ a _
    | GBracket _ a _ _ | GBracketDef _ a _ _ | GBracketIdx _ a _ _ | GBracketDefIdx _ a _ _
    | GList a _ _ | GListB _ _ a _ _ | GListDef a _ _ | GListBDef _ _ a _ _ => gok a
    | _ => True
    end.

  (** grammars built from the public combinators only (no internal [GRecoverWith]) satisfy it *)
  Fixpoint public_g (g : G) : bool :=
    match g with
    | GRecoverWith _ _ _ => false
    | GLeft a b | GRight a b | GBoth a b | GEither a b
    | GImplies a b | GAntecedent a b | GConsequent a b | GCondImplies a _ b
    | GRepeatUntil _ _ a b | GRepeatCountUntil _ _ a b | GIntersperse _ _ a b | GIntersperseCount _ _ a b => public_g a && public_g b
    | GCenter a b d | GIntersperseUntil _ _ a b d | GIntersperseCountUntil _ _ a b d => public_g a && public_g b && public_g d
    | GMap _ a | GDiscard a | GText a | GSpanned a | GSub a | GMaybe a | GRequireIf _ a | GCond _ a
    | GFilterWith _ a | GUnfiltered a | GRaw a | GUnrec a | GStabilize a | GCtxPush _ a | GSomeOf a | GUpTo a _
    | GRecover _ a | GRecoverDef _ a | GRecoverDelayed _ a | GRecoverDefDelayed _ a
    | GRepeat _ _ a | GRepeatCount _ _ a | GIntersperseDef _ _ a _
    | GBracket _ a _ _ | GBracketDef _ a _ _ | GBracketIdx _ a _ _ | GBracketDefIdx _ a _ _
    | GList a _ _ | GListB _ _ a _ _ | GListDef a _ _ | GListBDef _ _ a _ _ => public_g a
    | _ => true
    end.

  Lemma public_gok g : public_g g = true -> gok g.
  Proof.
    induction g; cbn [public_g gok]; intros H; try discriminate H; try exact I;
      repeat match goal with Hc : _ && _ = true |- _ => apply andb_prop in Hc; destruct Hc end;
      repeat split; auto.
  Qed.

  Section Step.
    Variable f : nat.
    Hypothesis IH : forall g l c s, gok g -> PosOK l -> log_ok s -> cn (run f g l c s).

    Theorem pos_step g lx c st : gok g -> PosOK lx -> log_ok st -> cn (run (S f) g lx c st).
    Proof using Htab Ht IH.
      intros Hg Hl Hs.
      pose proof (parse_span_ok lx Hl) as Hes.
      (* recover_with *)
      assert (Hrw : forall dflt r (body : clexer -> ctx -> store -> R), val_ok dflt -> cn (body lx c st) ->
                cn match body lx c st with
                   | (RErr e, st1) =>
                     match send_error c e (log st1) with
                     | (_, Some e') => (RErr e', st1)
                     | (l, None) =>
                       match advance_to_recover (set_rec lx (Some r)) (st_log st1 l) with
                       | (Ok (true, lx'), st3) => (ROk dflt lx', st3)
                       | (Ok (false, _), st3) => (RErr ERecover, st3)
                       | (Panic, st3) => (RPanic, st3)
                       | (Fuel, st3) => (RFuel, st3)
                       end
                     end
                   | r0 => r0
                   end).
      { intros dflt r body Hd Hb. destruct (body lx c st) as [[v l|e| |] s1]; try exact Hb. destruct Hb as [Hl1 He]; cbn [fst snd] in *.
        pose proof (send_error_ok c e s1 Hl1 He) as Hse. destruct (send_error c e (log s1)) as [l [e'|]].
        - destruct Hse as [_ ->]. apply cn_err; assumption.
        - pose proof (advance_to_recover_log_ok (set_rec lx (Some r)) _ Hse) as Hlog.
          destruct (advance_to_recover (set_rec lx (Some r)) (st_log s1 l)) as [[[b lx']| |] s3] eqn:Ea; cbn [snd] in Hlog.
          + destruct b; [|apply cn_err; [exact I|exact Hlog]].
            apply cn_ok; [|exact Hd|exact Hlog]. exact (advance_to_recover_pos _ _ _ _ _ (set_rec_pos lx _ Hl) Ea).
          + apply cn_panic; exact Hlog.
          + apply cn_fuel; exact Hlog. }
      (* bracket *)
      assert (Hbw : forall os a cs ab (okv : val -> nat -> val) (dfl : nat -> val), gok a ->
                (forall v i, val_ok v -> val_ok (okv v i)) -> (forall i, val_ok (dfl i)) ->
                cn (if (match os with [] => true | _ => false end) || (match cs with [] => true | _ => false end)
                       || negb (length os =? length cs) || negb (disjoint_kinds os cs)
                    then (RPanic, st)
                    else
                      match match_nested_brackets lx os cs ab with
                      | BPanic => (RPanic, st) | BFuel => (RFuel, st)
                      | BErr e => (RErr e, st)
                      | BM o cl idx =>
                        lift (c_next o) st (fun '(_, o1) =>
                        lift (c_start_sublex o1) st (fun inner =>
                        lift (c_next cl) st (fun '(_, cl1) =>
                        match run f a inner c st with
                        | (ROk v _, st1) => (ROk (okv v idx) cl1, st1)
                        | (RErr e, st1) =>
                          match send_error c e (log st1) with
                          | (_, Some e') => (RErr e', st1)
                          | (l, None) => (ROk (dfl idx) cl1, st_log st1 l)
                          end
                        | r => r
                        end)))
                      end)).
      { intros os a cs ab okv dfl Hga Hokv Hdfl. destruct (_ || _ || _ || _); [apply cn_panic; exact Hs|].
        unfold match_nested_brackets.
        pose proof (bracket_loop_pos (fuel_of lx) os cs ab (span_at (c_cursor_pos lx)) lx None [] [] Hl (span_at_ok lx Hl) I (Forall_nil _)) as Hb.
        destruct (bracket_loop (fuel_of lx) os cs ab (span_at (c_cursor_pos lx)) lx None [] []) as [o cl idx|e| |].
        - destruct Hb as [Ho Hcl].
          apply cn_lift; [exact Hs|]. intros [x o1] E1. pose proof (c_next_pos m Htab t Ht o x o1 Ho E1) as Ho1.
          apply cn_lift; [exact Hs|]. intros inner E2. pose proof (c_start_sublex_pos m Htab t Ht o1 inner Ho1 E2) as Hin.
          apply cn_lift; [exact Hs|]. intros [y cl1] E3. pose proof (c_next_pos m Htab t Ht cl y cl1 Hcl E3) as Hcl1.
          pose proof (IH a inner c st Hga Hin Hs) as H. destruct (run f a inner c st) as [[v l|e| |] s1]; try exact H; destruct H as [Hl1 H]; cbn [fst snd] in *.
          + destruct H as [_ Hv]. apply cn_ok; [exact Hcl1|apply Hokv; exact Hv|exact Hl1].
          + pose proof (send_error_ok c e s1 Hl1 H) as Hse. destruct (send_error c e (log s1)) as [l [e'|]].
            * destruct Hse as [_ ->]. apply cn_err; assumption.
            * apply cn_ok; [exact Hcl1|apply Hdfl|exact Hse].
        - apply cn_err; assumption.
        - apply cn_panic; exact Hs.
        - apply cn_fuel; exact Hs. }
      (* list *)
      assert (Hlw : forall lo hi item0 dflt sep ab, gok item0 -> val_ok dflt ->
                cn match hi with
                   | Some 0 => (ROk (VList []) lx, st)
                   | _ =>
                     if (match hi with Some h => h <? lo | None => false end) then (RPanic, st)
                     else
                       list_loop (run f) f hi ab dflt
                         (GStabilize (GRecoverWith dflt (list_rref sep ab) (GUpTo item0 (sep :: ab))))
                         (GStabilize (GMaybe (GUpTo item0 (sep :: ab))))
                         (GRecoverWith VUnit (list_rref sep ab) (GDiscard (GOne sep))) c [] lx st
                         (fun vals lx' st' =>
                            match (match c_rec lx with Some _ => None | None => c_rec lx' end) with
                            | Some _ => (RPanic, st')
                            | None =>
                              if length vals <? lo then
                                match send_error c (ECount (c_parse_span lx') (length vals) lo hi) (log st') with
                                | (_, Some e') => (RErr e', st')
                                | (l, None) => (ROk (VList vals) lx', st_log st' l)
                                end
                              else (ROk (VList vals) lx', st')
                            end)
                   end).
      { intros lo hi item0 dflt sep ab Hgi Hd.
        assert (Hloop : forall k0, k0 = (fun vals lx' st' =>
                            match (match c_rec lx with Some _ => None | None => c_rec lx' end) with
                            | Some _ => (RPanic, st')
                            | None =>
                              if length vals <? lo then
                                match send_error c (ECount (c_parse_span lx') (length vals) lo hi) (log st') with
                                | (_, Some e') => (RErr e', st')
                                | (l, None) => (ROk (VList vals) lx', st_log st' l)
                                end
                              else (ROk (VList vals) lx', st')
                            end) ->
                  cn (list_loop (run f) f hi ab dflt
                         (GStabilize (GRecoverWith dflt (list_rref sep ab) (GUpTo item0 (sep :: ab))))
                         (GStabilize (GMaybe (GUpTo item0 (sep :: ab))))
                         (GRecoverWith VUnit (list_rref sep ab) (GDiscard (GOne sep))) c [] lx st k0)).
        { intros k0 ->. apply (cn_list_loop (run f) gok IH); try assumption; try exact I;
            try (cbn [gok val_ok]; repeat split; assumption).
          intros vs l s Hvs Hpl Hsl. destruct (match c_rec lx with Some _ => None | None => c_rec l end); [apply cn_panic; exact Hsl|].
          destruct (length vs <? lo); [|apply cn_ok; assumption].
          pose proof (send_error_ok c (ECount (c_parse_span l) (length vs) lo hi) s Hsl (parse_span_ok l Hpl)) as Hse.
          destruct (send_error c _ (log s)) as [l0 [e'|]].
          - destruct Hse as [_ ->]. apply cn_err; [exact (parse_span_ok l Hpl)|exact Hsl].
          - apply cn_ok; assumption. }
        destruct hi as [[|h]|]; [apply cn_ok; [assumption|exact I|assumption]| |].
        - destruct (S h <? lo); [apply cn_panic; exact Hs|apply Hloop; reflexivity].
        - apply Hloop; reflexivity. }
      destruct g; cbn [run]; cbn [gok] in Hg; try (destruct Hg as [Hg1 Hg2]); try (destruct Hg2 as [Hg2 Hg3]).
      - (* empty *) apply cn_ok; [assumption|exact I|assumption].
      - (* one *) apply cn_lift; [exact Hs|]. intros [o lx'] En. pose proof (c_next_pos m Htab t Ht lx o lx' Hl En) as H1.
        destruct o as [tk|]; [|apply cn_err; [split; [exact Hes|apply token_span_ok; exact H1]|exact Hs]].
        destruct (tok_eqb tk (tk0 k)); [apply cn_ok; [assumption|exact I|assumption]|apply cn_err; [split; [exact Hes|apply token_span_ok; exact H1]|exact Hs]].
      - (* any *) destruct ks as [|k0 ks]; [apply cn_panic; exact Hs|].
        apply cn_lift; [exact Hs|]. intros [o lx'] Ep. pose proof (c_peek_pos m Htab t Ht lx o lx' Hl Ep) as H1.
        destruct o as [tk|]; [|apply cn_err; [split; [exact Hes|apply token_span_ok; exact H1]|exact Hs]].
        destruct (position _ (k0 :: ks)); [|apply cn_err; [split; [exact Hes|apply peeked_span_ok; exact H1]|exact Hs]].
        apply cn_lift; [exact Hs|]. intros [o2 l2] En. apply cn_ok; [exact (c_next_pos m Htab t Ht lx' o2 l2 H1 En)|exact I|exact Hs].
      - (* any_index *) destruct ks as [|k0 ks]; [apply cn_panic; exact Hs|].
        apply cn_lift; [exact Hs|]. intros [o lx'] Ep. pose proof (c_peek_pos m Htab t Ht lx o lx' Hl Ep) as H1.
        destruct o as [tk|]; [|apply cn_err; [split; [exact Hes|apply token_span_ok; exact H1]|exact Hs]].
        destruct (position _ (k0 :: ks)); [|apply cn_err; [split; [exact Hes|apply peeked_span_ok; exact H1]|exact Hs]].
        apply cn_lift; [exact Hs|]. intros [o2 l2] En. apply cn_ok; [exact (c_next_pos m Htab t Ht lx' o2 l2 H1 En)|exact I|exact Hs].
      - (* seq *) apply cn_seq_fix; try assumption. exact I.
      - (* seq_count *) apply cn_seqcount_fix; assumption.
      - (* pred *) apply cn_lift; [exact Hs|]. intros [o lx'] En. pose proof (c_next_pos m Htab t Ht lx o lx' Hl En) as H1.
        destruct o as [tk|]; [|apply cn_err; [split; [exact Hes|apply token_span_ok; exact H1]|exact Hs]].
        destruct (peval p tk); [apply cn_ok; [assumption|exact I|assumption]|apply cn_err; [split; [exact Hes|apply token_span_ok; exact H1]|exact Hs]].
      - (* end_of_text *) apply cn_lift; [exact Hs|]. intros b _. destruct b; [apply cn_ok; [assumption|exact I|assumption]|].
        apply cn_lift; [exact Hs|]. intros [o lx'] Ep. pose proof (c_peek_pos m Htab t Ht lx o lx' Hl Ep) as H1.
        destruct o; apply cn_err; try exact Hs; [split; [exact Hes|apply peeked_span_ok; exact H1]|exact Hes].
      - (* left *) apply cn_on_ok; [apply IH; assumption|]. intros v l s Hpl Hv Hsl. apply cn_map_val; [intros _ _; exact Hv|apply IH; assumption].
      - (* right *) apply cn_on_ok; [apply IH; assumption|]. intros v l s Hpl Hv Hsl. apply IH; assumption.
      - (* both *) apply cn_on_ok; [apply IH; assumption|]. intros v l s Hpl Hv Hsl.
        apply cn_map_val; [intros r Hr; split; assumption|apply IH; assumption].
      - (* center *) apply cn_on_ok; [apply IH; assumption|]. intros v l s Hpl Hv Hsl.
        apply cn_on_ok; [apply IH; assumption|]. intros v2 l2 s2 Hpl2 Hv2 Hsl2. apply cn_map_val; [intros _ _; exact Hv2|apply IH; assumption].
      - (* map *) apply cn_map_val; [intros v Hv; exact Hv|apply IH; assumption].
      - (* discard *) apply cn_map_val; [intros v Hv; exact I|apply IH; assumption].
      - (* text *) apply cn_lift; [exact Hs|]. intros [o lx1] Ep. pose proof (c_peek_pos m Htab t Ht lx o lx1 Hl Ep) as H1.
        apply cn_on_ok; [apply IH; assumption|]. intros v l s Hpl Hv Hsl. cbn zeta.
        destruct (_ && _); [apply cn_ok; [assumption|exact I|assumption]|apply cn_panic; exact Hsl].
      - (* spanned *) apply cn_lift; [exact Hs|]. intros [o lx1] Ep. pose proof (c_peek_pos m Htab t Ht lx o lx1 Hl Ep) as H1.
        apply cn_on_ok; [apply IH; assumption|]. intros v l s Hpl Hv Hsl. cbn zeta.
        apply cn_ok; [assumption| |assumption]. split; [|exact Hv].
        assert (Hst : Canonical match c_peek_token_span lx1 with Some sp => sstart sp | None => send (c_token_span lx1) end).
        { destruct (c_peek_token_span lx1) as [sp|] eqn:E; [exact (proj1 (proj1 (peek_token_span_ok lx1 sp H1 E)))|exact (proj2 (proj1 (token_span_ok lx1 H1)))]. }
        pose proof (proj2 (proj1 (parse_span_ok l Hpl))) as He.
        apply enclosing_ok; [|exact He]. destruct (_ <? _); assumption.
      - (* sub *) apply cn_lift; [exact Hs|]. intros lx' E. apply IH; [exact Hg|exact (c_start_sublex_pos m Htab t Ht lx lx' Hl E)|exact Hs].
      - (* either *) pose proof (IH g1 lx c st Hg1 Hl Hs) as H. destruct (run f g1 lx c st) as [[v l|e| |] s1]; try exact H.
        apply IH; [exact Hg2|exact Hl|exact (cn_log _ H)].
      - (* maybe *) pose proof (IH g lx (ctx_unrec c) st Hg Hl Hs) as H. destruct (run f g lx (ctx_unrec c) st) as [[v l|e| |] s1]; destruct H as [Hl1 H]; cbn [fst snd] in *.
        + destruct H. apply cn_ok; assumption.
        + apply cn_ok; [assumption|exact I|assumption].
        + apply cn_panic; exact Hl1.
        + apply cn_fuel; exact Hl1.
      - (* require_if *) destruct b; [apply cn_map_val; [intros v Hv; exact Hv|apply IH; assumption]|apply IH; assumption].
      - (* cond *) destruct b; [apply cn_map_val; [intros v Hv; exact Hv|apply IH; assumption]|apply cn_ok; [assumption|exact I|assumption]].
      - (* implies *) apply cn_on_ok; [apply IH; assumption|]. intros v l s Hpl Hv Hsl. destruct v; try (apply cn_ok; [assumption|exact I|assumption]).
        apply cn_map_val; [intros r Hr; split; assumption|apply IH; assumption].
      - (* antecedent *) apply cn_on_ok; [apply IH; assumption|]. intros v l s Hpl Hv Hsl. destruct v; try (apply cn_ok; [assumption|exact I|assumption]).
        apply cn_map_val; [intros _ _; exact Hv|apply IH; assumption].
      - (* consequent *) apply cn_on_ok; [apply IH; assumption|]. intros v l s Hpl Hv Hsl. destruct v; try (apply cn_ok; [assumption|exact I|assumption]).
        apply cn_map_val; [intros r Hr; exact Hr|apply IH; assumption].
      - (* cond_implies *) apply cn_on_ok; [apply IH; assumption|]. intros v l s Hpl Hv Hsl. destruct v; try (apply cn_ok; [assumption|exact I|assumption]).
        destruct (vpeval p v); [|apply cn_ok; [assumption|split; [exact Hv|exact I]|assumption]].
        apply cn_map_val; [intros r Hr; split; assumption|apply IH; assumption].
      - (* filter_with *) apply cn_lift; [exact Hs|]. intros [old lx1] E. pose proof (c_set_filter_pos m Htab t Ht lx _ old lx1 Hl E) as H1.
        apply cn_on_ok; [apply IH; assumption|]. intros v l s Hpl Hv Hsl.
        apply cn_lift; [exact Hsl|]. intros [o2 l2] E2. apply cn_ok; [exact (c_set_filter_pos m Htab t Ht l _ o2 l2 Hpl E2)|exact Hv|exact Hsl].
      - (* unfiltered *) apply cn_lift; [exact Hs|]. intros [old lx1] E. pose proof (c_set_filter_pos m Htab t Ht lx _ old lx1 Hl E) as H1.
        apply cn_on_ok; [apply IH; assumption|]. intros v l s Hpl Hv Hsl.
        apply cn_lift; [exact Hsl|]. intros [o2 l2] E2. apply cn_ok; [exact (c_set_filter_pos m Htab t Ht l _ o2 l2 Hpl E2)|exact Hv|exact Hsl].
      - (* raw *) apply IH; assumption.
      - (* unrecoverable *) apply IH; assumption.
      - (* recover *) apply (Hrw VNone r (fun l c' s => some_of (run f g l c' s))); [exact I|].
        apply cn_map_val; [intros v Hv; exact Hv|apply IH; assumption].
      - (* recover_default *) apply (Hrw VDflt r (fun l c' s => run f g l c' s)); [exact I|apply IH; assumption].
      - (* recover delayed *) apply (Hrw VNone r (fun l c' s => some_of (run f g l c' s))); [exact I|].
        apply cn_map_val; [intros v Hv; exact Hv|apply IH; assumption].
      - (* recover_default delayed *) apply (Hrw VDflt r (fun l c' s => run f g l c' s)); [exact I|apply IH; assumption].
      - (* stabilize *) apply (cn_stab (run f) gok IH); [exact Hg|exact Hl|apply IH; assumption].
      - (* repeat *) apply (cn_intersperse (run f) gok IH); try assumption; exact I.
      - apply cn_count_of. apply (cn_intersperse (run f) gok IH); try assumption; exact I.
      - apply (cn_intersperse_until (run f) gok IH); try assumption; exact I.
      - apply cn_count_of. apply (cn_intersperse_until (run f) gok IH); try assumption; exact I.
      - apply (cn_intersperse (run f) gok IH); try assumption; exact I.
      - apply cn_count_of. apply (cn_intersperse (run f) gok IH); try assumption; exact I.
      - apply (cn_intersperse_until (run f) gok IH); try assumption; exact I.
      - apply cn_count_of. apply (cn_intersperse_until (run f) gok IH); try assumption; exact I.
      - apply (cn_intersperse (run f) gok IH); try assumption; exact I.
      - (* bracket *) apply Hbw; [exact Hg|intros v i Hv; exact Hv|intros i; exact I].
      - apply Hbw; [exact Hg|intros v i Hv; exact Hv|intros i; exact I].
      - apply Hbw; [exact Hg|intros v i Hv; split; [exact Hv|exact I]|intros i; split; exact I].
      - apply Hbw; [exact Hg|intros v i Hv; split; [exact Hv|exact I]|intros i; split; exact I].
      - (* up_to *) apply cn_on_ok; [apply IH; assumption|]. intros v l s Hpl Hv Hsl.
        apply cn_lift; [exact Hsl|]. intros [o lx2] Ep. pose proof (c_peek_pos m Htab t Ht l o lx2 Hpl Ep) as H2.
        destruct o as [tk|]; [|apply cn_ok; assumption]. destruct (in_kinds ab tk); [apply cn_ok; assumption|].
        apply cn_lift; [exact Hsl|]. intros [b lx3] Ea. pose proof (advance_to_pos _ _ _ _ _ H2 Ea) as H3.
        apply cn_err; [|exact Hsl]. split; [exact (parse_span_ok lx2 H2)|apply H3].
      - (* list *) apply (Hlw 0 None (GSomeOf g) VNone sep ab); [exact Hg|exact I].
      - apply (Hlw lo hi (GSomeOf g) VNone sep ab); [exact Hg|exact I].
      - apply (Hlw 0 None g VDflt sep ab); [exact Hg|exact I].
      - apply (Hlw lo hi g VDflt sep ab); [exact Hg|exact I].
      - (* context push *) pose proof (IH g lx (ctx_pushed c tag) st Hg Hl Hs) as H.
        destruct (run f g lx (ctx_pushed c tag) st) as [[v l|e| |] s1]; try exact H. destruct H as [Hl1 He]; cbn [fst snd] in *.
        apply cn_err; [|exact Hl1]. unfold apply_context. apply err_ok_trail. exact He.
      - (* user failure *) apply cn_lift; [exact Hs|]. intros x _. apply cn_err; [exact I|exact Hs].
      - (* probe *) unfold send_error. destruct (has_sink c).
        + apply cn_ok; [assumption|exact I|]. unfold log_ok. cbn [st_log log]. apply Forall_app. split; [exact Hs|].
          constructor; [apply err_ok_trail; exact I|constructor].
        + apply cn_ok; [assumption|exact I|]. unfold log_ok. cbn [st_log log]. apply Forall_app. split; [exact Hs|].
          constructor; [exact I|constructor].
      - (* some_of *) apply cn_map_val; [intros v Hv; exact Hv|apply IH; assumption].
      - (* recover_with *) apply (Hrw dflt r (fun l c' s => run f g l c' s)); [exact Hg1|apply IH; assumption].
    Qed.
  End Step.

  (** C03, whole model *)
  Theorem run_pos : forall fuel g lx c st, gok g -> PosOK lx -> log_ok st -> cn (run fuel g lx c st).
  Proof using Htab Ht.
    induction fuel as [|f IH]; intros g lx c st Hg Hl Hs; [apply cn_fuel; exact Hs|]. apply (pos_step f IH); assumption.
  Qed.

  (** spelled out, from an empty sink log *)
  Corollary run_positions_canonical fuel g lx c v lx' st' : gok g -> PosOK lx ->
    run fuel g lx c (mkstore [] []) = (ROk v lx', st') -> PosOK lx' /\ val_ok v /\ Forall err_ok (log st').
  Proof using Htab Ht.
    intros Hg Hl E. pose proof (run_pos fuel g lx c (mkstore [] []) Hg Hl (Forall_nil _)) as H. rewrite E in H.
    destruct H as [Hlog [Hp Hv]]. split; [exact Hp|]. split; [exact Hv|exact Hlog].
  Qed.

  (** for grammars of the public combinators the side condition is discharged *)
  Corollary run_pos_public fuel g lx c st : public_g g = true -> PosOK lx -> log_ok st -> cn (run fuel g lx c st).
  Proof using Htab Ht. intros Hg. apply run_pos. apply public_gok. exact Hg. Qed.

  Corollary run_error_positions_canonical fuel g lx c e st' : gok g -> PosOK lx ->
    run fuel g lx c (mkstore [] []) = (RErr e, st') -> err_ok e /\ Forall err_ok (log st').
  Proof using Htab Ht.
    intros Hg Hl E. pose proof (run_pos fuel g lx c (mkstore [] []) Hg Hl (Forall_nil _)) as H. rewrite E in H.
    destruct H as [Hlog He]. split; [exact He|exact Hlog].
  Qed.
End Pos.
