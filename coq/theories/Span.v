(** Model of tephra-span/src/span.rs: Span over positions, interval operations, Few. *)
From Tephra Require Export Metrics.

(** Rust's derived [Ord] on [Pos { byte, page: Page { line, column } }]: lexicographic. *)
Definition pos_ltb (a b : pos) : bool :=
  (byte a <? byte b) ||
  ((byte a =? byte b) && ((line a <? line b) || ((line a =? line b) && (col a <? col b)))).
Definition pos_leb (a b : pos) : bool := pos_ltb a b || pos_eqb a b.

(** A [Span] stores a byte range and a page range; [start()]/[end()] rebuild positions. *)
Record span := mkspan { sstart : pos; send : pos }.

Definition span_eqb (a b : span) : bool := pos_eqb (sstart a) (sstart b) && pos_eqb (send a) (send b).

(** span.rs:56-62 *)
Definition enclosing (a b : pos) : span :=
  if byte b <? byte a then mkspan b a else mkspan a b.

Definition span_at (p : pos) : span := mkspan p p.
Definition span_is_empty (s : span) : bool := byte (sstart s) =? byte (send s).
(** span.rs:107-109 / 281-283: [end - start] unchecked *)
Definition span_len (s : span) : res nat := sub_chk (byte (send s)) (byte (sstart s)).

(** span.rs:115-117 *)
Definition contains (s : span) (p : pos) : bool := pos_leb (sstart s) p && pos_leb p (send s).

(** span.rs:134-142 *)
Definition intersects (a b : span) : bool :=
  contains a (sstart b) || contains a (send b) || contains b (sstart a) || contains b (send a).

(** span.rs:146-151 *)
Definition adjacent (a b : span) : bool :=
  pos_eqb (sstart a) (send b) || pos_eqb (send a) (sstart b).

(** span.rs:155-166 *)
Definition enclose (a b : span) : span :=
  let st := if pos_ltb (sstart a) (sstart b) then sstart a else sstart b in
  let en := if pos_ltb (send b) (send a) then send a else send b in
  enclosing st en.

Inductive few (A : Type) := Zero | One (a : A) | Two (a b : A).
Arguments Zero {A}. Arguments One {A} a. Arguments Two {A} a b.

Definition few_of_opts {A} (l r : option A) : few A :=
  match l, r with
  | None, None => Zero
  | Some a, None => One a
  | None, Some b => One b
  | Some a, Some b => Two a b
  end.

(** span.rs:170-179 *)
Definition union (a b : span) : few span :=
  if intersects a b then One (enclose a b) else Two a b.

(** span.rs:184-208 *)
Definition intersect (a b : span) : option span :=
  let st :=
    match contains a (sstart b), contains b (sstart a) with
    | true, true => Some (sstart a)
    | true, false => Some (sstart b)
    | false, true => Some (sstart a)
    | false, false => None
    end in
  let en :=
    match contains a (send b), contains b (send a) with
    | true, true => Some (send a)
    | true, false => Some (send b)
    | false, true => Some (send a)
    | false, false => None
    end in
  match st, en with
  | Some s, Some e => Some (enclosing s e)
  | _, _ => None
  end.

(** span.rs:215-234 (as repaired: the pieces are clamped to the first span, the right piece
    exists when the first span extends past the second) *)
Definition minus (a b : span) : few span :=
  let a0 := sstart a in let a1 := send a in let b0 := sstart b in let b1 := send b in
  let l := if pos_ltb a0 b0 then Some (enclosing a0 (if pos_ltb a1 b0 then a1 else b0)) else None in
  let r := if pos_ltb b1 a1 then Some (enclosing (if pos_ltb b1 a0 then a0 else b1) a1) else None in
  few_of_opts l r.
