(** C10: the bracket scan of bracket.rs against a reference stack matcher over the deliverable
    tokens. The model keeps the opened brackets run-length encoded, a parallel stack of open
    spans and the lexer at the first open bracket; the reference keeps a plain stack of opened
    brackets. *)
From Tephra Require Import MetricsSpec MetricsFacts CLexer LexerFacts Run Peg RunCore RunErrors RunCapture.

Definition esp (x : entry) : span := mkspan (e_start x) (e_end x).

Inductive rres :=
| RMatch (o : entry) (after_o : list entry) (cl : entry) (after_cl : list entry) (idx : nat)
| RErrB (e : err).

(** [opens]: the opened, not yet closed brackets (kind index, token), innermost first;
    [first]: the first open bracket seen and the deliverable tokens after it *)
Fixpoint ref_match (os cs ab : list kind) (start : span) (s : list entry)
         (first : option (entry * list entry)) (opens : list (nat * entry)) : rres :=
  match s with
  | [] => match first with
          | None => RErrB (EBracket BNone start None)
          | Some (o, _) => RErrB (EBracket BUnclosed (esp o) None)
          end
  | x :: r =>
    match position (fun k => tok_eqb (tk0 k) (e_tok x)) cs with
    | Some ci =>
      match opens with
      | [] => RErrB (EBracket BUnopened (esp x) None)
      | (oi, oe) :: rest =>
        if negb (oi =? ci) then RErrB (EBracket BMismatch (esp oe) (Some (esp x)))
        else match rest, first with
             | [], Some (o, ao) => RMatch o ao x r ci
             | _, _ => ref_match os cs ab start r first rest
             end
      end
    | None =>
      match position (fun k => tok_eqb (tk0 k) (e_tok x)) os with
      | Some oi =>
        ref_match os cs ab start r (match first with None => Some (x, r) | Some _ => first end) ((oi, x) :: opens)
      | None =>
        if in_kinds ab (e_tok x) && (match first with None => true | Some _ => false end)
        then RErrB (EBracket BNone (esp x) None)
        else ref_match os cs ab start r first opens
      end
    end
  end.

(** run-length decoding of the model's stack *)
Fixpoint expand (st : list (nat * nat)) : list nat :=
  match st with
  | [] => []
  | (t, n) :: r => repeat t n ++ expand r
  end.

Definition rle_ok (st : list (nat * nat)) : Prop := Forall (fun tn => 1 <= snd tn) st.

Lemma expand_nonempty st : rle_ok st -> st <> [] -> expand st <> [].
Proof.
  intros H Hne. destruct st as [|[t n] r]; [contradiction|]. pose proof (Forall_inv H) as Hn. cbn [snd] in Hn.
  cbn [expand]. destruct n; [lia|]. cbn. discriminate.
Qed.

Section Bracket.
  Variable m : metrics.
  Hypothesis Htab : 1 <= tabw m.
  Variable t : text.
  Hypothesis Ht : wf_text t.
  Local Notation Inv := (Inv m t).

  (** a lexer that has looked at entry [x]: it is buffered, and what remains deliverable starts with it *)
  Definition looks_at (f : option fspec) (l : clexer) (x : entry) (after : list entry) : Prop :=
    exists yl, Inv l yl /\ c_filter l = f /\ c_buf l = Some (buf_of x) /\ kept f yl = x :: after.

  Lemma looks_at_progress f l x after : looks_at f l x after -> byte (e_start x) < byte (e_end x).
  Proof using Htab Ht.
    intros (yl & HI & Hf & _ & Hk). rewrite <- Hf in Hk.
    destruct (next_cons m Htab t Ht l yl x after HI Hk) as (_ & _ & _ & _ & _ & _ & _ & _ & _ & _ & _ & Hp). exact Hp.
  Qed.

  Lemma looks_at_pts f l x after : looks_at f l x after -> pts l = Some (esp x).
  Proof using Htab Ht.
    intros H. pose proof (looks_at_progress _ _ _ _ H) as Hp. destruct H as (yl & _ & _ & Hb & _).
    exact (peek_token_span_of m Htab l x Hb Hp).
  Qed.

  (** the model's state against the reference's *)
  Definition related (f : option fspec) (ol : option clexer) (stack : list (nat * nat)) (sps : list span)
             (first : option (entry * list entry)) (opens : list (nat * entry)) : Prop :=
    rle_ok stack /\ expand stack = map fst opens /\ sps = map (fun oe => esp (snd oe)) opens
    /\ match ol, first with
       | None, None => opens = []
       | Some o, Some (fo, afo) => looks_at f o fo afo
       | _, _ => False
       end.

  Theorem bracket_loop_spec os cs ab start : forall s fuel lx ys ol stack sps first opens,
    Inv lx ys -> kept (c_filter lx) ys = s -> length s < fuel ->
    related (c_filter lx) ol stack sps first opens ->
    match ref_match os cs ab start s first opens with
    | RMatch o ao x r ci =>
      exists lo lc, bracket_loop fuel os cs ab start lx ol stack sps = BM lo lc ci
        /\ looks_at (c_filter lx) lo o ao /\ looks_at (c_filter lx) lc x r
    | RErrB e => bracket_loop fuel os cs ab start lx ol stack sps = BErr e
    end.
  Proof using Htab Ht.
    induction s as [|x r IH]; intros fuel lx ys ol stack sps first opens HI Hk Hf Hrel;
      (destruct fuel as [|fu]; [cbn in Hf; lia|]); cbn [bracket_loop ref_match].
    - (* nothing left *)
      destruct (peek_nil m Htab t Ht lx ys HI Hk) as (lx' & ys' & E & _). rewrite E.
      destruct Hrel as (_ & _ & _ & Hol). destruct ol as [o|], first as [[fo afo]|]; try contradiction; [|reflexivity].
      rewrite (looks_at_pts _ _ _ _ Hol). reflexivity.
    - destruct (peek_cons_buf m Htab t Ht lx ys x r HI Hk) as (lx1 & ys1 & E & HI1 & Hb1 & Hf1 & Hk1). rewrite E.
      assert (Hla : looks_at (c_filter lx) lx1 x r) by (exists ys1; repeat (split; [assumption|]); assumption).
      pose proof (looks_at_pts _ _ _ _ Hla) as Hpts.
      pose proof Hk1 as Hk1'. rewrite <- Hf1 in Hk1'.
      destruct (next_cons m Htab t Ht lx1 ys1 x r HI1 Hk1') as (lx2 & ys2 & E2 & HI2 & Hf2 & _ & Hk2 & _).
      assert (Hf2' : c_filter lx2 = c_filter lx) by congruence.
      assert (Hk2' : kept (c_filter lx2) ys2 = r) by (rewrite Hf2; exact Hk2).
      cbn [length] in Hf.
      (* one more round of the loop, from the lexer after [x] *)
      assert (Hnext : forall ol' stack' sps' first' opens',
                related (c_filter lx) ol' stack' sps' first' opens' ->
                match ref_match os cs ab start r first' opens' with
                | RMatch o ao x0 r0 ci =>
                  exists lo lc, bracket_loop fu os cs ab start lx2 ol' stack' sps' = BM lo lc ci
                    /\ looks_at (c_filter lx) lo o ao /\ looks_at (c_filter lx) lc x0 r0
                | RErrB e => bracket_loop fu os cs ab start lx2 ol' stack' sps' = BErr e
                end).
      { intros ol' stack' sps' first' opens' Hrel'. rewrite <- Hf2'.
        apply (IH fu lx2 ys2 ol' stack' sps' first' opens' HI2 Hk2' ltac:(lia)). rewrite Hf2'. exact Hrel'. }
      destruct Hrel as (Hrle & Hexp & Hsps & Hol).
      destruct (position (fun k => tok_eqb (tk0 k) (e_tok x)) cs) as [ci|] eqn:Ecs.
      + (* a close bracket *)
        destruct opens as [|[oi oe] rest].
        * destruct stack as [|[t0 n0] srest]; [rewrite Hpts; reflexivity|].
          exfalso. cbn [map] in Hexp. apply (expand_nonempty _ Hrle); [discriminate|exact Hexp].
        * destruct stack as [|[t0 n0] srest]; [discriminate Hexp|].
          pose proof (Forall_inv Hrle) as Hn0; pose proof (Forall_inv_tail Hrle) as Hrle'. cbn [snd] in Hn0.
          cbn [expand map fst] in Hexp. destruct n0 as [|n0]; [lia|]. cbn [repeat app] in Hexp. injection Hexp as Et Hexp.
          subst t0. cbn [map snd] in Hsps. subst sps.
          destruct (negb (oi =? ci)) eqn:Emis.
          -- rewrite Hpts. reflexivity.
          -- destruct n0 as [|n0].
             ++ (* the run is exhausted: pop the entry *)
                cbn [Nat.ltb Nat.leb]. cbn [repeat app] in Hexp.
                destruct rest as [|[oi2 oe2] rest2].
                ** (* the outermost pair closes *)
                   destruct srest as [|[t1 n1] srest2].
                   --- destruct ol as [o|], first as [[fo afo]|]; try contradiction; [|discriminate Hol].
                       exists o, lx1. split; [reflexivity|]. split; [exact Hol|exact Hla].
                   --- exfalso. apply (expand_nonempty _ Hrle'); [discriminate|exact Hexp].
                ** destruct srest as [|[t1 n1] srest2]; [discriminate Hexp|].
                   rewrite E2. cbn [tl].
                   assert (Hrel' : related (c_filter lx) ol ((t1, n1) :: srest2) (map (fun oe0 => esp (snd oe0)) ((oi2, oe2) :: rest2)) first ((oi2, oe2) :: rest2)).
                   { split; [exact Hrle'|]. split; [exact Hexp|]. split; [reflexivity|].
                     destruct ol as [o|], first as [[fo afo]|]; try contradiction; [exact Hol|discriminate Hol]. }
                   specialize (Hnext ol _ _ first _ Hrel').
                   destruct first as [[fo afo]|]; exact Hnext.
             ++ (* more of the same kind remain open *)
                cbn [Nat.ltb Nat.leb]. rewrite E2. cbn [tl].
                assert (Hrel' : related (c_filter lx) ol ((oi, S n0) :: srest) (map (fun oe0 => esp (snd oe0)) rest) first rest).
                { split; [constructor; [cbn; lia|exact Hrle']|]. split; [cbn [expand repeat app]; replace (S (S n0) - 1) with (S n0) by lia; exact Hexp|].
                  split; [reflexivity|]. destruct ol as [o|], first as [[fo afo]|]; try contradiction; [exact Hol|discriminate Hol]. }
                replace (S (S n0) - 1) with (S n0) by lia.
                specialize (Hnext ol _ _ first _ Hrel').
                destruct rest as [|[oi2 oe2] rest2].
                ** exfalso. cbn [map] in Hexp. cbn [repeat app] in Hexp. discriminate Hexp.
                ** destruct first as [[fo afo]|]; exact Hnext.
      + destruct (position (fun k => tok_eqb (tk0 k) (e_tok x)) os) as [oi|] eqn:Eos.
        * (* an open bracket *)
          rewrite Hpts.
          set (ol' := match ol with None => Some lx1 | Some _ => ol end).
          set (first' := match first with None => Some (x, r) | Some _ => first end).
          assert (Hol' : match ol', first' with
                         | None, None => (oi, x) :: opens = []
                         | Some o, Some (fo, afo) => looks_at (c_filter lx) o fo afo
                         | _, _ => False
                         end).
          { unfold ol', first'. destruct ol as [o|], first as [[fo afo]|]; try contradiction; [exact Hol|exact Hla]. }
          destruct stack as [|[t0 n0] srest].
          -- rewrite E2.
             assert (Hrel' : related (c_filter lx) ol' [(oi, 1)] (esp x :: sps) first' ((oi, x) :: opens)).
             { split; [constructor; [cbn; lia|constructor]|]. destruct opens as [|? ?]; [|discriminate Hexp].
               split; [reflexivity|]. split; [subst sps; reflexivity|exact Hol']. }
             exact (Hnext _ _ _ _ _ Hrel').
          -- destruct (negb (t0 =? oi)) eqn:Ene; rewrite E2.
             ++ assert (Hrel' : related (c_filter lx) ol' ((oi, 1) :: (t0, n0) :: srest) (esp x :: sps) first' ((oi, x) :: opens)).
                { split; [constructor; [cbn; lia|exact Hrle]|]. split; [cbn [expand repeat app map fst]; f_equal; exact Hexp|].
                  split; [subst sps; reflexivity|exact Hol']. }
                exact (Hnext _ _ _ _ _ Hrel').
             ++ apply negb_false_iff, Nat.eqb_eq in Ene. subst t0.
                assert (Hrel' : related (c_filter lx) ol' ((oi, n0 + 1) :: srest) (esp x :: sps) first' ((oi, x) :: opens)).
                { pose proof (Forall_inv Hrle) as Hn0; pose proof (Forall_inv_tail Hrle) as Hrle'. cbn [snd] in Hn0.
                  split; [constructor; [cbn; lia|exact Hrle']|].
                  split; [cbn [expand map fst]; replace (n0 + 1) with (S n0) by lia; cbn [repeat app]; f_equal; exact Hexp|].
                  split; [subst sps; reflexivity|exact Hol']. }
                exact (Hnext _ _ _ _ _ Hrel').
        * (* any other token *)
          destruct (in_kinds ab (e_tok x)) eqn:Eab.
          -- destruct ol as [o|], first as [[fo afo]|]; try contradiction; cbn [andb].
             ++ rewrite E2. apply Hnext. split; [exact Hrle|]. split; [exact Hexp|]. split; [exact Hsps|exact Hol].
             ++ rewrite Hpts. reflexivity.
          -- cbn [andb]. rewrite E2. apply Hnext. split; [exact Hrle|]. split; [exact Hexp|]. split; [exact Hsps|exact Hol].
  Qed.

  (** from the entry of a bracket combinator *)
  Theorem match_nested_brackets_spec os cs ab lx ys : Inv lx ys ->
    match ref_match os cs ab (span_at (c_cursor_pos lx)) (kept (c_filter lx) ys) None [] with
    | RMatch o ao x r ci =>
      exists lo lc, match_nested_brackets lx os cs ab = BM lo lc ci
        /\ looks_at (c_filter lx) lo o ao /\ looks_at (c_filter lx) lc x r
    | RErrB e => match_nested_brackets lx os cs ab = BErr e
    end.
  Proof using Htab Ht.
    intros HI. unfold match_nested_brackets.
    apply (bracket_loop_spec os cs ab _ _ (fuel_of lx) lx ys None [] [] None [] HI eq_refl).
    - (* fuel *)
      pose proof HI as [Hov Hb Hs _ _ _]. pose proof (stream_fuel m Htab t Ht lx ys Hov Hb Hs) as H.
      assert (Hle : forall (p : entry -> bool) l, length (filter p l) <= length l).
      { intros p l. induction l as [|y l IHl]; [cbn; lia|]. cbn [filter]. destruct (p y); cbn [length]; lia. }
      unfold kept. pose proof (Hle (fun y => negb (dropped (c_filter lx) (e_tok y))) ys). lia.
    - split; [constructor|]. split; [reflexivity|]. split; reflexivity.
  Qed.

  (** stepping over a looked-at token *)
  Lemma looks_at_next f l x after : looks_at f l x after ->
    exists l' y', c_next l = Ok (Some (e_tok x), l') /\ Inv l' y' /\ c_filter l' = f /\ kept f y' = after.
  Proof using Htab Ht.
    intros (yl & HI & Hf & _ & Hk). rewrite <- Hf in Hk.
    destruct (next_cons m Htab t Ht l yl x after HI Hk) as (l' & y' & E & HI' & Hf' & _ & Hk' & _).
    exists l', y'. split; [exact E|]. split; [exact HI'|]. split; [congruence|]. rewrite <- Hf. exact Hk'.
  Qed.

  (** the four bracket combinators: on a match the inner parser is started on the tokens after the
      open bracket and the returned lexer delivers the tokens after its partner - whatever the inner
      parser consumed; with no match the reference's classification is the error *)
  Definition bracket_pre (os cs : list kind) : bool :=
    negb ((match os with [] => true | _ => false end) || (match cs with [] => true | _ => false end)
          || negb (length os =? length cs) || negb (disjoint_kinds os cs)).

  Ltac bracket_tac m Htab t Ht HI Hpre H :=
    unfold bracket_pre in Hpre; apply negb_true_iff in Hpre; cbn [run]; rewrite Hpre;
    match type of H with
    | match ?rm with _ => _ end =>
      destruct rm as [o ao x r ci|e];
      [ let lo := fresh "lo" in let lc := fresh "lc" in let E := fresh "E" in
        let Hlo := fresh "Hlo" in let Hlc := fresh "Hlc" in
        destruct H as (lo & lc & E & Hlo & Hlc); rewrite E;
        let o1 := fresh "o1" in let yo1 := fresh "yo1" in let E1 := fresh "E1" in
        let HI1 := fresh "HI1" in let Hf1 := fresh "Hf1" in let Hk1 := fresh "Hk1" in
        destruct (looks_at_next _ _ _ _ Hlo) as (o1 & yo1 & E1 & HI1 & Hf1 & Hk1); rewrite E1; cbn [lift];
        let inner := fresh "inner" in let yi := fresh "yi" in let E2 := fresh "E2" in
        let HIi := fresh "HIi" in let Hki := fresh "Hki" in let Hfi := fresh "Hfi" in
        destruct (c_start_sublex_spec m Htab t Ht o1 yo1 HI1) as (inner & yi & E2 & HIi & Hki & Hfi & _); rewrite E2; cbn [lift];
        let cl1 := fresh "cl1" in let y1 := fresh "y1" in let E3 := fresh "E3" in
        let HIc := fresh "HIc" in let Hfc := fresh "Hfc" in let Hkc := fresh "Hkc" in
        destruct (looks_at_next _ _ _ _ Hlc) as (cl1 & y1 & E3 & HIc & Hfc & Hkc); rewrite E3; cbn [lift];
        exists inner, yi, cl1, y1; split; [exact HIi|]; split; [congruence|];
        split; [rewrite Hfi, Hf1 in Hki; congruence|];
        split; [exact HIc|]; split; [exact Hfc|]; split; [exact Hkc|]; reflexivity
      | rewrite H; reflexivity ]
    end.

  (** the shape of a bracket combinator's result given how it wraps the inner value *)
  Definition bracket_result (okv : val -> nat -> val) (dfl : nat -> val) (f : nat) (a : G) (c : ctx) (st : store)
             (inner cl1 : clexer) (ci : nat) : R :=
    match run f a inner c st with
    | (ROk v _, st1) => (ROk (okv v ci) cl1, st1)
    | (RErr e, st1) =>
      match send_error c e (log st1) with
      | (_, Some e') => (RErr e', st1)
      | (l, None) => (ROk (dfl ci) cl1, st_log st1 l)
      end
    | r0 => r0
    end.

  Definition bracket_claim (g : G) (okv : val -> nat -> val) (dfl : nat -> val) f os a cs ab lx ys c st : Prop :=
    match ref_match os cs ab (span_at (c_cursor_pos lx)) (kept (c_filter lx) ys) None [] with
    | RMatch o ao x r ci =>
      exists inner yi cl1 y1, Inv inner yi /\ c_filter inner = c_filter lx /\ kept (c_filter lx) yi = ao
        /\ Inv cl1 y1 /\ c_filter cl1 = c_filter lx /\ kept (c_filter lx) y1 = r
        /\ run (S f) g lx c st = bracket_result okv dfl f a c st inner cl1 ci
    | RErrB e => run (S f) g lx c st = (RErr e, st)
    end.

  Theorem bracket_default_index_spec f os a cs ab lx ys c st : Inv lx ys -> bracket_pre os cs = true ->
    bracket_claim (GBracketDefIdx os a cs ab) (fun v i => VPair v (VNat i)) (fun i => VPair VDflt (VNat i)) f os a cs ab lx ys c st.
  Proof using Htab Ht.
    intros HI Hpre. pose proof (match_nested_brackets_spec os cs ab lx ys HI) as H. unfold bracket_claim, bracket_result.
    bracket_tac m Htab t Ht HI Hpre H.
  Qed.

  Theorem bracket_index_spec f os a cs ab lx ys c st : Inv lx ys -> bracket_pre os cs = true ->
    bracket_claim (GBracketIdx os a cs ab) (fun v i => VPair (VSome v) (VNat i)) (fun i => VPair VNone (VNat i)) f os a cs ab lx ys c st.
  Proof using Htab Ht.
    intros HI Hpre. pose proof (match_nested_brackets_spec os cs ab lx ys HI) as H. unfold bracket_claim, bracket_result.
    bracket_tac m Htab t Ht HI Hpre H.
  Qed.

  Theorem bracket_default_spec f os a cs ab lx ys c st : Inv lx ys -> bracket_pre os cs = true ->
    bracket_claim (GBracketDef os a cs ab) (fun v _ => v) (fun _ => VDflt) f os a cs ab lx ys c st.
  Proof using Htab Ht.
    intros HI Hpre. pose proof (match_nested_brackets_spec os cs ab lx ys HI) as H. unfold bracket_claim, bracket_result.
    bracket_tac m Htab t Ht HI Hpre H.
  Qed.

  Theorem bracket_spec f os a cs ab lx ys c st : Inv lx ys -> bracket_pre os cs = true ->
    bracket_claim (GBracket os a cs ab) (fun v _ => VSome v) (fun _ => VNone) f os a cs ab lx ys c st.
  Proof using Htab Ht.
    intros HI Hpre. pose proof (match_nested_brackets_spec os cs ab lx ys HI) as H. unfold bracket_claim, bracket_result.
    bracket_tac m Htab t Ht HI Hpre H.
  Qed.
End Bracket.
