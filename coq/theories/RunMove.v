(** Where a successful parse leaves the lexer (C14, second half; also used for C13's parse-so-far
    spans): for the sub-free core fragment, the tokens consumed are a prefix of the deliverable
    stream, the cursor stands at the end of the LAST consumed token, and the parse span starts at
    the FIRST consumed token when the lexer was at a parse start. *)
From Tephra Require Import MetricsSpec MetricsFacts CLexer LexerFacts Run Peg RunCore RunErrors RunCapture.

Section Move.
  Variable m : metrics.
  Hypothesis Htab : 1 <= tabw m.
  Variable t : text.
  Hypothesis Ht : wf_text t.
  Local Notation Inv := (Inv m t).

  (** how a lexer moved while [consumed] was delivered from it *)
  Definition moved (lx lx' : clexer) (consumed : list entry) : Prop :=
    match consumed with
    | [] =>
      (c_ps lx = c_cur lx -> c_ps lx' = c_cur lx' /\ byte (c_cur lx) <= byte (c_cur lx'))
      /\ (c_ps lx <> c_cur lx -> c_cur lx' = c_cur lx /\ c_ps lx' = c_ps lx)
    | x :: _ =>
      c_cur lx' = e_end (last consumed x) /\ byte (c_ps lx') < byte (c_cur lx')
      /\ c_ps lx' = (if pos_eqb (c_ps lx) (c_cur lx) then e_start x else c_ps lx)
    end.

  Lemma moved_refl lx : moved lx lx [].
  Proof. split; intros H; [split; [exact H|lia]|split; reflexivity]. Qed.

  Lemma neq_of_byte_lt (p q : pos) : byte p < byte q -> p <> q.
  Proof. intros H E. rewrite E in H. lia. Qed.

  Lemma last_default {A} (l : list A) y d d' : last (y :: l) d = last (y :: l) d'.
  Proof. revert y; induction l as [|z r IH]; intros y; [reflexivity|]. exact (IH z). Qed.

  Lemma last_app_cons {A} (l : list A) y r d d' : last (l ++ y :: r) d = last (y :: r) d'.
  Proof.
    induction l as [|z l IH]; [apply last_default|]. cbn [app].
    destruct (l ++ y :: r) as [|a l0] eqn:E; [destruct l; discriminate E|].
    change (last (z :: a :: l0) d) with (last (a :: l0) d). exact IH.
  Qed.

  Lemma moved_trans lx lx1 lx2 ca cb : moved lx lx1 ca -> moved lx1 lx2 cb -> moved lx lx2 (ca ++ cb).
  Proof.
    destruct ca as [|x ra], cb as [|y rb]; cbn [app moved].
    - intros [A1 A2] [B1 B2]. split.
      + intros H. destruct (A1 H) as [E1 L1]. destruct (B1 E1) as [E2 L2]. split; [exact E2|lia].
      + intros H. destruct (A2 H) as [E1 P1]. assert (H1 : c_ps lx1 <> c_cur lx1) by congruence.
        destruct (B2 H1) as [E2 P2]. split; congruence.
    - intros [A1 A2] (B1 & B2 & B3). split; [exact B1|]. split; [exact B2|]. rewrite B3.
      destruct (pos_eqb_spec (c_ps lx) (c_cur lx)) as [E|NE].
      + destruct (A1 E) as [E1 _]. destruct (pos_eqb_spec (c_ps lx1) (c_cur lx1)); [reflexivity|contradiction].
      + destruct (A2 NE) as [E1 P1]. destruct (pos_eqb_spec (c_ps lx1) (c_cur lx1)) as [E'|_]; [congruence|exact P1].
    - intros (A1 & A2 & A3) [_ B2]. rewrite app_nil_r. cbn [moved].
      destruct (B2 (neq_of_byte_lt _ _ A2)) as [E P]. split; [congruence|]. split; [rewrite E, P; exact A2|congruence].
    - intros (A1 & A2 & A3) (B1 & B2 & B3). cbn [moved].
      split; [rewrite B1; f_equal; symmetry; exact (last_app_cons (x :: ra) y rb x y)|].
      split; [exact B2|]. rewrite B3.
      destruct (pos_eqb_spec (c_ps lx1) (c_cur lx1)) as [E|_]; [exfalso; exact (neq_of_byte_lt _ _ A2 E)|exact A3].
  Qed.

  (** look-ahead: moves the lexer only when it is at a parse start, and then keeps it there *)
  Lemma set_buf_opt_pos l o : c_ps (set_buf_opt l o) = c_ps l /\ c_ts (set_buf_opt l o) = c_ts l /\ c_cur (set_buf_opt l o) = c_cur l.
  Proof. destruct o; repeat split. Qed.

  Lemma buffer_next_moved lx ys lx' : Inv lx ys -> c_buffer_next lx = Ok lx' -> moved lx lx' [].
  Proof using Htab Ht.
    intros HI. pose proof HI as [Hov Hb Hs _ _ _]. unfold c_buffer_next. destruct (c_buf lx).
    - intros H. injection H as <-. apply moved_refl.
    - rewrite (buffer_loop_spec m Htab t ys (fuel_of lx) _ lx _ _ Hs (stream_fuel m Htab t Ht lx ys Hov Hb Hs) Hov).
      destruct (first_kept (c_filter lx) ys) as [sk o] eqn:EF. intros H. injection H as <-.
      destruct (first_kept_split _ _ _ _ EF) as (Eys & _ & _).
      destruct (set_buf_opt_pos (if pos_eqb (c_ps lx) (c_cur lx) then fold_left skip_all sk lx else lx)
                                (option_map (fun xr => buf_of (fst xr)) o)) as (P1 & P2 & P3).
      cbn [moved]. rewrite P1, P3.
      destruct (pos_eqb_spec (c_ps lx) (c_cur lx)) as [E|NE].
      + split; [|intros NE; contradiction]. intros _.
        destruct sk as [|y r]; [cbn [fold_left]; split; [exact E|lia]|].
        destruct (fold_skip_all_pos (y :: r) lx ltac:(discriminate)) as [A _]. split; [exact A|].
        rewrite Eys in Hs.
        destruct (fold_skip m Htab t Ht skip_all (or_introl eq_refl) (y :: r) lx _ Hov Hb Hs) as (_ & _ & _ & _ & _ & _ & F7).
        exact F7.
      + split; [intros E; contradiction|]. intros _. split; reflexivity.
  Qed.

  Lemma peek_moved lx ys o lx' : Inv lx ys -> c_peek lx = Ok (o, lx') -> moved lx lx' [].
  Proof using Htab Ht.
    intros HI. unfold c_peek. destruct (c_at_end lx); [intros H; injection H as _ <-; apply moved_refl|].
    destruct (c_buffer_next lx) as [l| |] eqn:E; cbn [bind]; try discriminate.
    intros H. injection H as _ <-. exact (buffer_next_moved lx ys l HI E).
  Qed.

  (** entries of a scan make progress and are ordered *)
  Lemma stream_progress_in st p zs : on_boundary t p -> stream m t st p zs ->
    forall z, In z zs -> byte (e_start z) < byte (e_end z).
  Proof using Htab Ht.
    intros Hbp Hsp. induction Hsp as [? ? ?|st1 p1 tk e st2 xs Hsc Hrest IHs]; intros z Hz; [destruct Hz|].
    assert (Hfull : stream m t st1 p1 ((tk, p1, e, st2) :: xs)) by (econstructor; eassumption).
    destruct Hz as [<-|Hz]; [exact (entry_progress m Htab t Ht _ _ _ _ Hbp Hfull)|].
    apply IHs; [exact (stream_boundary m Htab t Ht _ _ _ _ Hbp Hfull)|exact Hz].
  Qed.

  Lemma kept_sorted f st p ys x s : on_boundary t p -> stream m t st p ys -> kept f ys = x :: s ->
    forall z, In z s -> byte (e_end x) <= byte (e_start z).
  Proof using Htab Ht.
    intros Hbp Hsp. revert x s. induction Hsp as [? ? ?|st1 p1 tk e st2 xs Hsc Hrest IHs]; intros x s Hk z Hz; [discriminate Hk|].
    assert (Hfull : stream m t st1 p1 ((tk, p1, e, st2) :: xs)) by (econstructor; eassumption).
    pose proof (stream_boundary m Htab t Ht _ _ _ _ Hbp Hfull) as Hb'. cbn [e_end fst snd] in Hb'.
    unfold kept in Hk. cbn [filter] in Hk. destruct (negb (dropped f (e_tok (tk, p1, e, st2)))).
    - injection Hk as <- <-. cbn [e_end fst snd].
      apply (stream_start_ge m Htab t Ht _ _ _ Hb' Hrest). apply (kept_In f). exact Hz.
    - exact (IHs Hb' x s Hk z Hz).
  Qed.

  (** a delivery: one token consumed *)
  Lemma next_moved lx ys x s : Inv lx ys -> kept (c_filter lx) ys = x :: s ->
    forall lx', c_next lx = Ok (Some (e_tok x), lx') -> moved lx lx' [x].
  Proof using Htab Ht.
    intros HI Hk lx' E.
    destruct (next_cons m Htab t Ht lx ys x s HI Hk) as (l & ys' & E' & _ & _ & _ & _ & _ & Hc & _ & Hp & Hprog).
    rewrite E in E'. injection E' as <-. cbn [moved last]. split; [exact Hc|]. split; [|exact Hp].
    rewrite Hc, Hp. destruct (pos_eqb (c_ps lx) (c_cur lx)); [exact Hprog|].
    pose proof HI as [_ Hb Hs _ [Ho1 Ho2] _].
    assert (Hin : In x ys) by (apply (kept_In (c_filter lx)); rewrite Hk; left; reflexivity).
    pose proof (stream_start_ge m Htab t Ht _ _ _ Hb Hs x Hin). lia.
  Qed.

  (** * The sub-free core fragment *)
  Fixpoint core0 (g : G) : bool :=
    match g with
    | GSub _ => false
    | GEmpty | GOne _ | GPred _ | GSeq _ | GUserFail => true
    | GAny ks | GAnyIndex ks => match ks with [] => false | _ => true end
    | GBoth a b | GLeft a b | GRight a b | GEither a b
    | GImplies a b | GAntecedent a b | GConsequent a b | GCondImplies a _ b => core0 a && core0 b
    | GCenter a b d => core0 a && core0 b && core0 d
    | GMap _ a | GDiscard a | GSomeOf a | GRaw a | GUnrec a | GCtxPush _ a
    | GMaybe a | GCond _ a | GRequireIf _ a => core0 a
    | _ => false
    end.

  (** what a successful run did to the lexer *)
  Definition tracked (lx : clexer) (ys : list entry) (r : R) : Prop :=
    match r with
    | (ROk _ lx', _) =>
      exists ys' consumed, Inv lx' ys' /\ c_filter lx' = c_filter lx
        /\ kept (c_filter lx) ys = consumed ++ kept (c_filter lx) ys' /\ moved lx lx' consumed
    | _ => True
    end.

  Lemma tracked_from lx ys lx1 ys1 c1 r : Inv lx1 ys1 -> c_filter lx1 = c_filter lx ->
    kept (c_filter lx) ys = c1 ++ kept (c_filter lx) ys1 -> moved lx lx1 c1 ->
    tracked lx1 ys1 r -> tracked lx ys r.
  Proof.
    intros HI1 Hf Hk Hm. destruct r as [[v lx'|e| |] st]; cbn [tracked]; try (intros; exact I).
    intros (ys' & c2 & HI' & Hf' & Hk' & Hm'). exists ys', (c1 ++ c2). split; [exact HI'|]. split; [congruence|].
    split; [|exact (moved_trans _ _ _ _ _ Hm Hm')]. rewrite Hk. rewrite Hf in Hk'. rewrite Hk', app_assoc. reflexivity.
  Qed.

  Lemma tracked_map f lx ys r : tracked lx ys r -> tracked lx ys (map_val f r).
  Proof. destruct r as [[v lx'|e| |] st]; cbn [tracked map_val]; intros H; exact H. Qed.

  Lemma tracked_self lx ys v st : Inv lx ys -> tracked lx ys (ROk v lx, st).
  Proof. intros HI. exists ys, []. split; [exact HI|]. split; [reflexivity|]. split; [reflexivity|apply moved_refl]. Qed.

  (** sequencing: the second parser starts where the first one ended *)
  Lemma tracked_on_ok lx ys r k : tracked lx ys r ->
    (forall v lx1 st1 ys1, Inv lx1 ys1 -> tracked lx1 ys1 (k v lx1 st1)) ->
    tracked lx ys (on_ok r k).
  Proof.
    destruct r as [[v lx1|e| |] st1]; cbn [on_ok tracked]; intros H Hk; try exact I.
    destruct H as (ys1 & c1 & HI1 & Hf1 & Hk1 & Hm1).
    exact (tracked_from lx ys lx1 ys1 c1 _ HI1 Hf1 Hk1 Hm1 (Hk v lx1 st1 ys1 HI1)).
  Qed.

  (** one token through [next] *)
  Lemma tracked_next lx ys st (k : option tok * clexer -> R) :
    Inv lx ys ->
    (forall tk lx', k (Some tk, lx') = k (Some tk, lx')) ->
    (forall x s lx' ys', kept (c_filter lx) ys = x :: s -> Inv lx' ys' -> c_filter lx' = c_filter lx ->
        kept (c_filter lx) ys' = s -> moved lx lx' [x] -> tracked lx ys (k (Some (e_tok x), lx'))) ->
    (forall lx', tracked lx ys (k (None, lx'))) ->
    tracked lx ys (lift (c_next lx) st k).
  Proof using Htab Ht.
    intros HI _ Hs Hn. destruct (kept (c_filter lx) ys) as [|x s] eqn:Hk.
    - destruct (next_nil m Htab t Ht lx ys HI Hk) as (lx' & E & _). rewrite E. cbn [lift]. apply Hn.
    - destruct (next_cons m Htab t Ht lx ys x s HI Hk) as (lx' & ys' & E & HI' & Hf & _ & Hk' & _).
      rewrite E. cbn [lift]. apply (Hs x s lx' ys' eq_refl HI' Hf Hk'). exact (next_moved lx ys x s HI Hk lx' E).
  Qed.

  Theorem core0_tracked : forall fuel g, core0 g = true -> forall lx ys c st, Inv lx ys ->
    tracked lx ys (run fuel g lx c st).
  Proof using Htab Ht.
    induction fuel as [|f IH]; intros g Hg lx ys c st HI; [exact I|].
    (* a consumed token, then the rest *)
    assert (Hone : forall x s lx' ys' v st', kept (c_filter lx) ys = x :: s -> Inv lx' ys' -> c_filter lx' = c_filter lx ->
              kept (c_filter lx) ys' = s -> moved lx lx' [x] -> tracked lx ys (ROk v lx', st')).
    { intros x s lx' ys' v st' Hk HI' Hf Hk' Hm. exists ys', [x]. split; [exact HI'|]. split; [exact Hf|].
      split; [rewrite Hk, Hk'; reflexivity|exact Hm]. }
    assert (Hmaybe : forall a lx0 ys0 c0 st0, core0 a = true -> Inv lx0 ys0 -> tracked lx0 ys0 (run f (GMaybe a) lx0 c0 st0)).
    { intros a lx0 ys0 c0 st0 Ha HI0. apply IH; assumption. }
    assert (Hante : forall a (kr : val -> clexer -> store -> R), core0 a = true ->
              (forall v lx1 st1 ys1, Inv lx1 ys1 -> tracked lx1 ys1 (kr v lx1 st1)) ->
              tracked lx ys (on_ok (run f (GMaybe a) lx c st) kr)).
    { intros a kr Ha Hkr. apply tracked_on_ok; [apply Hmaybe; assumption|exact Hkr]. }
    destruct g; cbn [core0] in Hg; try discriminate Hg; cbn [run];
      repeat match goal with H : _ && _ = true |- _ => apply andb_prop in H; destruct H end.
    - (* empty *) apply tracked_self. exact HI.
    - (* one *) apply tracked_next; [exact HI|reflexivity| |intros; exact I].
      intros x s lx' ys' Hk HI' Hf Hk' Hm. destruct (tok_eqb (e_tok x) (tk0 k)); [|exact I]. exact (Hone x s lx' ys' _ _ Hk HI' Hf Hk' Hm).
    - (* any *) destruct ks as [|k0 ks]; [discriminate Hg|].
      destruct (kept (c_filter lx) ys) as [|x s] eqn:Hk.
      + destruct (peek_nil m Htab t Ht lx ys HI Hk) as (lx1 & ys1 & E & _). rewrite E. exact I.
      + destruct (peek_cons m Htab t Ht lx ys x s HI Hk) as (lx1 & ys1 & E & HI1 & Hf1 & _ & Hk1). rewrite E. cbn [lift].
        destruct (position _ (k0 :: ks)); [|exact I].
        pose proof (peek_moved lx ys _ lx1 HI E) as Hm1.
        pose proof Hk1 as Hk1'. rewrite <- Hf1 in Hk1'.
        destruct (next_cons m Htab t Ht lx1 ys1 x s HI1 Hk1') as (lx2 & ys2 & E2 & HI2 & Hf2 & _ & Hk2 & _). rewrite E2. cbn [lift].
        pose proof (next_moved lx1 ys1 x s HI1 Hk1' lx2 E2) as Hm2.
        exists ys2, [x]. split; [exact HI2|]. split; [congruence|]. split; [rewrite Hk; rewrite <- Hf1; rewrite Hk2; reflexivity|].
        exact (moved_trans _ _ _ [] [x] Hm1 Hm2).
    - (* any_index *) destruct ks as [|k0 ks]; [discriminate Hg|].
      destruct (kept (c_filter lx) ys) as [|x s] eqn:Hk.
      + destruct (peek_nil m Htab t Ht lx ys HI Hk) as (lx1 & ys1 & E & _). rewrite E. exact I.
      + destruct (peek_cons m Htab t Ht lx ys x s HI Hk) as (lx1 & ys1 & E & HI1 & Hf1 & _ & Hk1). rewrite E. cbn [lift].
        destruct (position _ (k0 :: ks)); [|exact I].
        pose proof (peek_moved lx ys _ lx1 HI E) as Hm1.
        pose proof Hk1 as Hk1'. rewrite <- Hf1 in Hk1'.
        destruct (next_cons m Htab t Ht lx1 ys1 x s HI1 Hk1') as (lx2 & ys2 & E2 & HI2 & Hf2 & _ & Hk2 & _). rewrite E2. cbn [lift].
        pose proof (next_moved lx1 ys1 x s HI1 Hk1' lx2 E2) as Hm2.
        exists ys2, [x]. split; [exact HI2|]. split; [congruence|]. split; [rewrite Hk; rewrite <- Hf1; rewrite Hk2; reflexivity|].
        exact (moved_trans _ _ _ [] [x] Hm1 Hm2).
    - (* seq *)
      assert (Hseq : forall ks0 acc l yl, Inv l yl ->
                tracked l yl
                  ((fix go (ks : list kind) (acc : list val) (l : clexer) : R :=
                      match ks with
                      | [] => (ROk (VList acc) l, st)
                      | k :: r =>
                        lift (c_next l) st (fun '(o, l') =>
                        match o with
                        | Some t0 => if tok_eqb t0 (tk0 k) then go r (acc ++ [VTok t0]) l'
                                     else (RErr (EUnexpected (c_parse_span lx) (c_token_span l') (ExTok (tk0 k)) (Some t0)), st)
                        | None => (RErr (EUnexpected (c_parse_span lx) (c_token_span l') (ExTok (tk0 k)) None), st)
                        end)
                      end) ks0 acc l)).
      { induction ks0 as [|k r IHk]; intros acc l yl HIl.
        - apply tracked_self. exact HIl.
        - destruct (kept (c_filter l) yl) as [|x s] eqn:Hk.
          + destruct (next_nil m Htab t Ht l yl HIl Hk) as (l' & E & _). rewrite E. exact I.
          + destruct (next_cons m Htab t Ht l yl x s HIl Hk) as (l' & yl' & E & HI' & Hf & _ & Hk' & _). rewrite E. cbn [lift].
            destruct (tok_eqb (e_tok x) (tk0 k)); [|exact I].
            apply (tracked_from l yl l' yl' [x]); [exact HI'|exact Hf|rewrite Hk, Hk'; reflexivity|exact (next_moved l yl x s HIl Hk l' E)|].
            apply IHk. exact HI'. }
      apply Hseq. exact HI.
    - (* pred *) apply tracked_next; [exact HI|reflexivity| |intros; exact I].
      intros x s lx' ys' Hk HI' Hf Hk' Hm. destruct (peval p (e_tok x)); [|exact I]. exact (Hone x s lx' ys' _ _ Hk HI' Hf Hk' Hm).
    - (* left *) apply tracked_on_ok; [apply IH; assumption|]. intros v l s0 yl HIl. apply tracked_map. apply IH; assumption.
    - (* right *) apply tracked_on_ok; [apply IH; assumption|]. intros v l s0 yl HIl. apply IH; assumption.
    - (* both *) apply tracked_on_ok; [apply IH; assumption|]. intros v l s0 yl HIl. apply tracked_map. apply IH; assumption.
    - (* center *) apply tracked_on_ok; [apply IH; assumption|]. intros v l s0 yl HIl.
      apply tracked_on_ok; [apply IH; assumption|]. intros v2 l2 s2 yl2 HIl2. apply tracked_map. apply IH; assumption.
    - (* map *) apply tracked_map. apply IH; assumption.
    - (* discard *) apply tracked_map. apply IH; assumption.
    - (* either *) pose proof (IH g1 H lx ys c st HI) as H1.
      destruct (run f g1 lx c st) as [[v l|e| |] s1]; try exact H1; try exact I. apply IH; assumption.
    - (* maybe *) pose proof (IH g Hg lx ys (ctx_unrec c) st HI) as H1.
      destruct (run f g lx (ctx_unrec c) st) as [[v l|e| |] s1]; try exact I; [exact H1|]. apply tracked_self. exact HI.
    - (* require_if *) destruct b; [apply tracked_map; apply IH; assumption|]. apply Hmaybe; assumption.
    - (* cond *) destruct b; [apply tracked_map; apply IH; assumption|apply tracked_self; exact HI].
    - (* implies *) apply Hante; [exact H|]. intros v l s0 yl HIl.
      destruct v; try (apply tracked_self; exact HIl). apply tracked_map. apply IH; assumption.
    - (* antecedent *) apply Hante; [exact H|]. intros v l s0 yl HIl.
      destruct v; try (apply tracked_self; exact HIl). apply tracked_map. apply IH; assumption.
    - (* consequent *) apply Hante; [exact H|]. intros v l s0 yl HIl.
      destruct v; try (apply tracked_self; exact HIl). apply tracked_map. apply IH; assumption.
    - (* cond_implies *) apply Hante; [exact H|]. intros v l s0 yl HIl.
      destruct v; try (apply tracked_self; exact HIl). destruct (vpeval p v); [|apply tracked_self; exact HIl]. apply tracked_map. apply IH; assumption.
    - (* raw *) apply IH; assumption.
    - (* unrecoverable *) apply IH; assumption.
    - (* context push *) pose proof (IH g Hg lx ys (ctx_pushed c tag) st HI) as H1.
      destruct (run f g lx (ctx_pushed c tag) st) as [[v l|e| |] s1]; try exact I. exact H1.
    - (* user failure *) destruct (c_peek lx) as [[o l]| |]; exact I.
    - (* some_of *) apply tracked_map. apply IH; assumption.
  Qed.

  (** * spanned and text around a sub-free core parser: exactly the tokens consumed *)

  Theorem spanned_exact_of f a lx ys c st x s sp v lx' st' : Inv lx ys -> kept (c_filter lx) ys = x :: s ->
    (forall lx1 ys1, Inv lx1 ys1 -> tracked lx1 ys1 (run f a lx1 c st)) ->
    run (S f) (GSpanned a) lx c st = (ROk (VSpanned sp v) lx', st') ->
    exists ys' consumed, Inv lx' ys' /\ x :: s = consumed ++ kept (c_filter lx) ys'
      /\ match consumed with
         | [] => byte (sstart sp) = byte (send sp)
         | y :: _ => sp = mkspan (e_start y) (e_end (last consumed y)) /\ y = x
         end.
  Proof using Htab Ht.
    intros HI Hk Htr Hrun.
    destruct (spanned_shape m Htab t Ht f a lx ys c st x s _ st' HI Hk Hrun) as (lx1 & ys1 & HI1 & Hk1 & Hf1 & Hm).
    pose proof (Htr lx1 ys1 HI1) as Ht1.
    destruct (run f a lx1 c st) as [[v1 l1|e| |] s1]; cbn [tracked] in Ht1; try (destruct Hm as [Hx _]; discriminate Hx).
    destruct Hm as [Hx ->]. injection Hx as -> -> ->.
    destruct Ht1 as (ys' & consumed & HI' & Hf' & Hk' & Hmv).
    exists ys', consumed. split; [exact HI'|]. rewrite Hf1 in Hk'. rewrite Hk1 in Hk'. split; [exact Hk'|].
    rewrite (parse_span_end m Htab t l1 ys' HI').
    destruct consumed as [|y rc].
    - (* nothing consumed: the cursor is at or before the first deliverable token *)
      cbn [app] in Hk'.
      assert (Hle : byte (c_cur l1) <= byte (e_start x)).
      { pose proof HI' as [_ Hb Hs _ _ _]. apply (stream_start_ge m Htab t Ht _ _ _ Hb Hs).
        apply (kept_In (c_filter lx)). rewrite <- Hk'. left. reflexivity. }
      unfold clamp_span. destruct (Nat.ltb_spec (byte (c_cur l1)) (byte (e_start x))); cbn [sstart send]; lia.
    - cbn [app] in Hk'. assert (Eyx : y = x) by (injection Hk' as E _; congruence). subst y. cbn [moved] in Hmv. destruct Hmv as (Hc & _ & _).
      split; [|reflexivity]. rewrite Hc. unfold clamp_span.
      (* the last consumed token ends after the first one starts *)
      assert (Hge : byte (e_start x) <= byte (e_end (last (x :: rc) x))).
      { pose proof HI1 as [_ Hb1 Hs1 _ _ _].
        assert (Hpx : byte (e_start x) < byte (e_end x)).
        { apply (stream_progress_in _ _ _ Hb1 Hs1). apply (kept_In (c_filter lx)). rewrite Hk1. left. reflexivity. }
        destruct rc as [|z rz]; [cbn [last]; lia|].
        assert (Hin : In (last (x :: z :: rz) x) (z :: rz)).
        { change (last (x :: z :: rz) x) with (last (z :: rz) x). clear. revert z. induction rz as [|w r IHr]; intros z; [left; reflexivity|]. right. apply (IHr w). }
        assert (Hins : In (last (x :: z :: rz) x) s).
        { injection Hk' as Hs'. rewrite Hs'. change (z :: rz ++ kept (c_filter lx) ys') with ((z :: rz) ++ kept (c_filter lx) ys'). apply in_or_app. left. exact Hin. }
        pose proof (kept_sorted (c_filter lx) _ _ _ x s Hb1 Hs1 Hk1 _ Hins) as H1.
        assert (Hpl : byte (e_start (last (x :: z :: rz) x)) < byte (e_end (last (x :: z :: rz) x))).
        { apply (stream_progress_in _ _ _ Hb1 Hs1). apply (kept_In (c_filter lx)). rewrite Hk1. right. exact Hins. }
        lia. }
      destruct (Nat.ltb_spec (byte (e_end (last (x :: rc) x))) (byte (e_start x))); [lia|reflexivity].
  Qed.

  Theorem spanned_exact f a lx ys c st x s sp v lx' st' : Inv lx ys -> kept (c_filter lx) ys = x :: s ->
    core0 a = true ->
    run (S f) (GSpanned a) lx c st = (ROk (VSpanned sp v) lx', st') ->
    exists ys' consumed, Inv lx' ys' /\ x :: s = consumed ++ kept (c_filter lx) ys'
      /\ match consumed with
         | [] => byte (sstart sp) = byte (send sp)
         | y :: _ => sp = mkspan (e_start y) (e_end (last consumed y)) /\ y = x
         end.
  Proof using Htab Ht.
    intros HI Hk Ha. apply (spanned_exact_of f a lx ys c st x s sp v lx' st' HI Hk). intros lx1 ys1 HI1. apply core0_tracked; assumption.
  Qed.

  Theorem text_exact_of f a lx ys c st x s b e lx' st' : Inv lx ys -> kept (c_filter lx) ys = x :: s ->
    (forall lx1 ys1, Inv lx1 ys1 -> tracked lx1 ys1 (run f a lx1 c st)) ->
    run (S f) (GText a) lx c st = (ROk (VText b e) lx', st') ->
    exists ys' consumed, Inv lx' ys' /\ x :: s = consumed ++ kept (c_filter lx) ys'
      /\ match consumed with
         | [] => b = e
         | y :: _ => b = byte (e_start y) /\ e = byte (e_end (last consumed y)) /\ y = x
         end.
  Proof using Htab Ht.
    intros HI Hk Htr Hrun.
    destruct (text_shape m Htab t Ht f a lx ys c st x s _ st' HI Hk Hrun) as (lx1 & ys1 & HI1 & Hk1 & Hf1 & Hm).
    pose proof (Htr lx1 ys1 HI1) as Ht1.
    destruct (run f a lx1 c st) as [[v1 l1|e0| |] s1]; cbn [tracked] in Ht1; try (destruct Hm as [Hx _]; discriminate Hx).
    cbn zeta in Hm. destruct Hm as [-> Hm].
    destruct Ht1 as (ys' & consumed & HI' & Hf' & Hk' & Hmv).
    rewrite (parse_span_end m Htab t l1 ys' HI') in Hm.
    destruct (byte (c_cur l1) <=? blen (c_text l1)); [|discriminate Hm]. injection Hm as -> -> ->.
    exists ys', consumed. split; [exact HI'|]. rewrite Hf1 in Hk'. rewrite Hk1 in Hk'. split; [exact Hk'|].
    destruct consumed as [|y rc].
    - cbn [app] in Hk'.
      assert (Hle : byte (c_cur l1) <= byte (e_start x)).
      { pose proof HI' as [_ Hb Hs _ _ _]. apply (stream_start_ge m Htab t Ht _ _ _ Hb Hs).
        apply (kept_In (c_filter lx)). rewrite <- Hk'. left. reflexivity. }
      lia.
    - cbn [app] in Hk'. assert (Eyx : y = x) by (injection Hk' as E _; congruence). subst y. cbn [moved] in Hmv. destruct Hmv as (Hc & _ & _).
      rewrite Hc.
      assert (Hge : byte (e_start x) <= byte (e_end (last (x :: rc) x))).
      { pose proof HI1 as [_ Hb1 Hs1 _ _ _].
        assert (Hpx : byte (e_start x) < byte (e_end x)).
        { apply (stream_progress_in _ _ _ Hb1 Hs1). apply (kept_In (c_filter lx)). rewrite Hk1. left. reflexivity. }
        destruct rc as [|z rz]; [cbn [last]; lia|].
        assert (Hin : In (last (x :: z :: rz) x) (z :: rz)).
        { change (last (x :: z :: rz) x) with (last (z :: rz) x). clear. revert z. induction rz as [|w r IHr]; intros z; [left; reflexivity|]. right. apply (IHr w). }
        assert (Hins : In (last (x :: z :: rz) x) s).
        { injection Hk' as Hs'. rewrite Hs'. change (z :: rz ++ kept (c_filter lx) ys') with ((z :: rz) ++ kept (c_filter lx) ys'). apply in_or_app. left. exact Hin. }
        pose proof (kept_sorted (c_filter lx) _ _ _ x s Hb1 Hs1 Hk1 _ Hins) as H1.
        assert (Hpl : byte (e_start (last (x :: z :: rz) x)) < byte (e_end (last (x :: z :: rz) x))).
        { apply (stream_progress_in _ _ _ Hb1 Hs1). apply (kept_In (c_filter lx)). rewrite Hk1. right. exact Hins. }
        lia. }
      split; [lia|]. split; reflexivity.
  Qed.

  Theorem text_exact f a lx ys c st x s b e lx' st' : Inv lx ys -> kept (c_filter lx) ys = x :: s ->
    core0 a = true ->
    run (S f) (GText a) lx c st = (ROk (VText b e) lx', st') ->
    exists ys' consumed, Inv lx' ys' /\ x :: s = consumed ++ kept (c_filter lx) ys'
      /\ match consumed with
         | [] => b = e
         | y :: _ => b = byte (e_start y) /\ e = byte (e_end (last consumed y)) /\ y = x
         end.
  Proof using Htab Ht.
    intros HI Hk Ha. apply (text_exact_of f a lx ys c st x s b e lx' st' HI Hk). intros lx1 ys1 HI1. apply core0_tracked; assumption.
  Qed.
End Move.
