(** C03 for what the combinators report: every entry of the sequential scan from a canonical
    position has canonical start and end positions; hence the spans named by the errors of the
    token leaves, the spans captured by spanned, and the spans of bracket errors are canonical
    (the true line and column of their byte offsets under the lexer's metrics). *)
From Tephra Require Import MetricsSpec MetricsFacts CLexer LexerFacts LexerCanon Run Peg RunCore RunErrors RunCapture RunMove RunBracket.

Lemma last_In {A} (l : list A) : forall x d, In (last (x :: l) d) (x :: l).
Proof.
  induction l as [|z r IH]; intros x d; [left; reflexivity|]. right.
  change (last (x :: z :: r) d) with (last (z :: r) d). apply IH.
Qed.

Section Canon.
  Variable m : metrics.
  Hypothesis Htab : 1 <= tabw m.
  Variable t : text.
  Hypothesis Ht : wf_text t.
  Local Notation Inv := (Inv m t).
  Local Notation Canonical := (Canonical m t).
  Local Notation PosOK := (PosOK m t).

  Lemma stream_canonical st p ys : Canonical p -> stream m t st p ys ->
    forall x, In x ys -> Canonical (e_start x) /\ Canonical (e_end x).
  Proof using Htab Ht.
    intros Hp H. induction H as [? ? ?|st1 p1 tk e st2 xs Hsc _ IH]; intros x Hx; [destruct Hx|].
    destruct (scan_canonical m Htab t Ht st1 p1 tk e st2 Hp Hsc) as [He _].
    destruct Hx as [<-|Hx]; [split; assumption|]. exact (IH He x Hx).
  Qed.

  (** every token a lexer with canonical positions will deliver has canonical start and end *)
  Theorem deliverable_canonical lx ys x : Inv lx ys -> PosOK lx -> In x (kept (c_filter lx) ys) ->
    Canonical (e_start x) /\ Canonical (e_end x).
  Proof using Htab Ht.
    intros [_ _ Hs _ _ _] [_ _ _ _ Hc _] Hx.
    apply (stream_canonical _ _ _ Hc Hs). exact (kept_In _ _ _ Hx).
  Qed.

  Definition span_canonical (sp : span) : Prop := Canonical (sstart sp) /\ Canonical (send sp).

  (** the span named by the errors of one / pred / any / any_index *)
  Theorem leaf_error_span_canonical lx ys x s : Inv lx ys -> PosOK lx -> kept (c_filter lx) ys = x :: s ->
    span_canonical (mkspan (e_start x) (e_end x)) /\ span_canonical (c_parse_span lx).
  Proof using Htab Ht.
    intros HI HP Hk. split.
    - apply (deliverable_canonical lx ys x HI HP). rewrite Hk. left. reflexivity.
    - destruct HP as [_ _ Hps _ Hc _]. unfold c_parse_span, enclosing, span_canonical.
      destruct (byte (c_cur lx) <? byte (c_ps lx)); cbn [sstart send]; split; assumption.
  Qed.

  (** the span captured by spanned around a sub-free core parser *)
  Theorem spanned_span_canonical f a lx ys c st x s sp v lx' st' : Inv lx ys -> PosOK lx ->
    kept (c_filter lx) ys = x :: s -> core0 a = true ->
    run (S f) (GSpanned a) lx c st = (ROk (VSpanned sp v) lx', st') ->
    (byte (sstart sp) = byte (send sp)) \/ span_canonical sp.
  Proof using Htab Ht.
    intros HI HP Hk Ha Hrun.
    destruct (spanned_exact m Htab t Ht f a lx ys c st x s sp v lx' st' HI Hk Ha Hrun) as (ys' & consumed & _ & Hsplit & Hc).
    destruct consumed as [|y rc]; [left; exact Hc|]. right. destruct Hc as [-> ->].
    assert (Hin : forall z, In z (x :: rc) -> In z (kept (c_filter lx) ys)).
    { intros z Hz. rewrite Hk, Hsplit. apply in_or_app. left. exact Hz. }
    split; cbn [sstart send].
    - apply (deliverable_canonical lx ys x HI HP). apply Hin. left. reflexivity.
    - apply (deliverable_canonical lx ys _ HI HP). apply Hin.
      apply last_In.
  Qed.

  (** the spans of a bracket error: those of tokens of the scan, or the empty span at the cursor *)
  Definition err_spans (e : err) : list span :=
    match e with
    | EBracket _ s1 (Some s2) => [s1; s2]
    | EBracket _ s1 None => [s1]
    | _ => []
    end.

  Lemma ref_match_err_spans os cs ab start : forall s first opens e,
    ref_match os cs ab start s first opens = RErrB e ->
    forall sp, In sp (err_spans e) ->
    sp = start \/ (exists x, sp = esp x /\ (In x s \/ In x (map snd opens) \/ exists af, first = Some (x, af))).
  Proof.
    induction s as [|x r IH]; intros first opens e H sp Hsp; cbn [ref_match] in H.
    - destruct first as [[o ao]|]; injection H as <-; cbn [err_spans In] in Hsp; destruct Hsp as [<-|[]].
      + right. exists o. split; [reflexivity|]. right; right. exists ao. reflexivity.
      + left. reflexivity.
    - assert (Hlift : forall first' opens', (forall y, In y (map snd opens') -> y = x \/ In y (map snd opens)) ->
                (forall y af, first' = Some (y, af) -> y = x \/ exists af', first = Some (y, af')) ->
                ref_match os cs ab start r first' opens' = RErrB e ->
                sp = start \/ (exists x0, sp = esp x0 /\ (In x0 (x :: r) \/ In x0 (map snd opens) \/ exists af, first = Some (x0, af)))).
      { intros first' opens' Ho Hf Hr. destruct (IH first' opens' e Hr sp Hsp) as [->|(z & -> & [Hz|[Hz|(af & Hz)]])]; [left; reflexivity| | |].
        - right. exists z. split; [reflexivity|]. left. right. exact Hz.
        - right. exists z. split; [reflexivity|]. destruct (Ho z Hz) as [->|Hz']; [left; left; reflexivity|right; left; exact Hz'].
        - right. exists z. split; [reflexivity|]. destruct (Hf z af Hz) as [->|(af' & Hz')]; [left; left; reflexivity|right; right; exists af'; exact Hz']. }
      destruct (position (fun k => tok_eqb (tk0 k) (e_tok x)) cs) as [ci|].
      + destruct opens as [|[oi oe] rest].
        * injection H as <-. cbn [err_spans In] in Hsp. destruct Hsp as [<-|[]]. right. exists x. split; [reflexivity|]. left; left; reflexivity.
        * destruct (negb (oi =? ci)).
          -- injection H as <-. cbn [err_spans In] in Hsp. destruct Hsp as [<-|[<-|[]]]; right.
             ++ exists oe. split; [reflexivity|]. right; left. left. reflexivity.
             ++ exists x. split; [reflexivity|]. left; left; reflexivity.
          -- destruct rest as [|p rest'].
             ++ destruct first as [[o ao]|]; [discriminate H|].
                apply (Hlift None []); [intros y []|intros y af Hy; discriminate Hy|exact H].
             ++ apply (Hlift first (p :: rest')); [intros y Hy; right; right; exact Hy|intros y af Hy; right; exists af; exact Hy|].
                destruct first as [[o ao]|]; exact H.
      + destruct (position (fun k => tok_eqb (tk0 k) (e_tok x)) os) as [oi|].
        * apply (Hlift (match first with None => Some (x, r) | Some _ => first end) ((oi, x) :: opens)); [| |exact H].
          -- intros y [<-|Hy]; [left; reflexivity|right; exact Hy].
          -- intros y af Hy. destruct first as [[o ao]|]; [right; exists ao; injection Hy as -> _; reflexivity|left; injection Hy as -> _; reflexivity].
        * destruct (in_kinds ab (e_tok x) && _).
          -- injection H as <-. cbn [err_spans In] in Hsp. destruct Hsp as [<-|[]]. right. exists x. split; [reflexivity|]. left; left; reflexivity.
          -- apply (Hlift first opens); [intros y Hy; right; exact Hy|intros y af Hy; right; exists af; exact Hy|exact H].
  Qed.

  Theorem bracket_error_spans_canonical os cs ab lx ys e : Inv lx ys -> PosOK lx ->
    match_nested_brackets lx os cs ab = BErr e ->
    forall sp, In sp (err_spans e) -> span_canonical sp.
  Proof using Htab Ht.
    intros HI HP Hm sp Hsp. pose proof (match_nested_brackets_spec m Htab t Ht os cs ab lx ys HI) as H.
    destruct (ref_match os cs ab (span_at (c_cursor_pos lx)) (kept (c_filter lx) ys) None []) as [o ao x r ci|e0] eqn:Er.
    - destruct H as (lo & lc & E & _). rewrite E in Hm. discriminate Hm.
    - rewrite H in Hm. injection Hm as <-.
      destruct (ref_match_err_spans os cs ab _ _ None [] e0 Er sp Hsp) as [->|(z & -> & [Hz|[[]|(af & Hz)]])].
      + destruct HP as [_ _ _ _ Hc _]. split; exact Hc.
      + exact (deliverable_canonical lx ys z HI HP Hz).
      + discriminate Hz.
  Qed.
End Canon.
