(** C17: the span operations are byte-interval algebra on any set of positions in which the
    byte determines the position (a "chain": the canonical positions of one text are one). *)
From Tephra Require Import Span.

Definition Chain (S : pos -> Prop) : Prop :=
  forall p q, S p -> S q -> byte p = byte q -> p = q.

Definition few_list {A} (f : few A) : list A :=
  match f with Zero => [] | One a => [a] | Two a b => [a; b] end.

Section Algebra.
  Variable S : pos -> Prop.
  Hypothesis HS : Chain S.

  Lemma pos_eqb_chain p q : S p -> S q -> pos_eqb p q = (byte p =? byte q).
  Proof.
    intros Hp Hq. destruct (Nat.eqb_spec (byte p) (byte q)) as [E|E].
    - rewrite (HS p q Hp Hq E). destruct (pos_eqb_spec q q); congruence.
    - destruct (pos_eqb_spec p q); congruence.
  Qed.

  Lemma pos_ltb_chain p q : S p -> S q -> pos_ltb p q = (byte p <? byte q).
  Proof.
    intros Hp Hq. unfold pos_ltb.
    destruct (Nat.ltb_spec (byte p) (byte q)) as [L|L]; [reflexivity|]. cbn [orb].
    destruct (Nat.eqb_spec (byte p) (byte q)) as [E|E]; [|reflexivity]. cbn [andb].
    rewrite (HS p q Hp Hq E). rewrite !Nat.ltb_irrefl, Nat.eqb_refl. reflexivity.
  Qed.

  Lemma pos_leb_chain p q : S p -> S q -> pos_leb p q = (byte p <=? byte q).
  Proof.
    intros Hp Hq. unfold pos_leb. rewrite pos_ltb_chain, pos_eqb_chain by assumption.
    destruct (Nat.ltb_spec (byte p) (byte q)), (Nat.eqb_spec (byte p) (byte q)),
      (Nat.leb_spec (byte p) (byte q)); cbn; try reflexivity; lia.
  Qed.

  Variables a0 a1 b0 b1 : pos.
  Hypothesis Ha0 : S a0. Hypothesis Ha1 : S a1. Hypothesis Hb0 : S b0. Hypothesis Hb1 : S b1.
  Hypothesis HA : byte a0 <= byte a1.
  Hypothesis HB : byte b0 <= byte b1.
  Let A := mkspan a0 a1.
  Let B := mkspan b0 b1.

  Definition Operand (p : pos) : Prop := p = a0 \/ p = a1 \/ p = b0 \/ p = b1.
  Definition span_ok (s : span) : Prop :=
    Operand (sstart s) /\ Operand (send s) /\ byte (sstart s) <= byte (send s).

  Ltac norm :=
    unfold union, intersect, minus, intersects, adjacent, enclose, enclosing, contains, A, B;
    cbn [sstart send];
    rewrite ?pos_ltb_chain, ?pos_leb_chain, ?pos_eqb_chain by assumption.

  Ltac operand :=
    first [left; reflexivity | right; left; reflexivity | right; right; left; reflexivity
          | right; right; right; reflexivity].

  Ltac cases :=
    repeat (match goal with
            | |- context [?x <? ?y] => destruct (Nat.ltb_spec x y)
            | |- context [?x <=? ?y] => destruct (Nat.leb_spec x y)
            | |- context [?x =? ?y] => destruct (Nat.eqb_spec x y)
            end; cbn [andb orb negb sstart send few_list few_of_opts]).

  Lemma contains_bytes p : S p -> contains A p = (byte a0 <=? byte p) && (byte p <=? byte a1).
  Proof. intros Hp. norm. reflexivity. Qed.

  Lemma intersects_bytes :
    intersects A B = (Nat.max (byte a0) (byte b0) <=? Nat.min (byte a1) (byte b1)).
  Proof. norm. cases; try reflexivity; lia. Qed.

  Lemma adjacent_bytes :
    adjacent A B = (byte a0 =? byte b1) || (byte a1 =? byte b0).
  Proof. norm. reflexivity. Qed.

  Lemma enclose_spec :
    let r := enclose A B in
    span_ok r /\ byte (sstart r) = Nat.min (byte a0) (byte b0)
    /\ byte (send r) = Nat.max (byte a1) (byte b1).
  Proof.
    unfold span_ok, Operand. norm.
    cases; cbn [sstart send]; repeat split; try lia; operand.
  Qed.

  Lemma intersect_spec :
    match intersect A B with
    | Some r => Nat.max (byte a0) (byte b0) <= Nat.min (byte a1) (byte b1) /\ span_ok r
                /\ byte (sstart r) = Nat.max (byte a0) (byte b0)
                /\ byte (send r) = Nat.min (byte a1) (byte b1)
    | None => Nat.min (byte a1) (byte b1) < Nat.max (byte a0) (byte b0)
    end.
  Proof.
    unfold span_ok, Operand. norm.
    cases; cbn [sstart send]; try lia; repeat split; try lia; operand.
  Qed.

  Lemma union_spec :
    if Nat.max (byte a0) (byte b0) <=? Nat.min (byte a1) (byte b1)
    then union A B = One (enclose A B) else union A B = Two A B.
  Proof.
    unfold union. rewrite intersects_bytes.
    destruct (Nat.max (byte a0) (byte b0) <=? Nat.min (byte a1) (byte b1)); reflexivity.
  Qed.

  Lemma minus_pieces p : In p (few_list (minus A B)) ->
    span_ok p /\ byte a0 <= byte (sstart p) /\ byte (send p) <= byte a1
    /\ ~ (Nat.max (byte (sstart p)) (byte b0) < Nat.min (byte (send p)) (byte b1)).
  Proof.
    unfold span_ok, Operand. norm.
    cases; cbn [In]; intros Hin;
      repeat (destruct Hin as [Hin|Hin]; [subst p; cbn [sstart send]|]);
      try contradiction; repeat split; try lia; operand.
  Qed.

  Lemma minus_covers x y :
    byte a0 <= x -> x <= y -> y <= byte a1 ->
    (y <= byte b0 \/ byte b1 <= x) -> (x < y \/ y < byte b0 \/ byte b1 < x) ->
    exists p, In p (few_list (minus A B)) /\ byte (sstart p) <= x /\ y <= byte (send p).
  Proof.
    intros H1 H2 H3 H4 H5. norm.
    destruct H4 as [H4|H4]; cases; cbn [In];
      try (eexists; split; [left; reflexivity|cbn [sstart send]; lia]);
      try (eexists; split; [right; left; reflexivity|cbn [sstart send]; lia]); lia.
  Qed.
End Algebra.

Lemma predicates_spec :
  forall S, Chain S -> forall a0 a1 b0 b1, S a0 -> S a1 -> S b0 -> S b1 ->
  byte a0 <= byte a1 -> byte b0 <= byte b1 ->
  (forall p, S p -> contains (mkspan a0 a1) p = (byte a0 <=? byte p) && (byte p <=? byte a1))
  /\ intersects (mkspan a0 a1) (mkspan b0 b1)
     = (Nat.max (byte a0) (byte b0) <=? Nat.min (byte a1) (byte b1))
  /\ adjacent (mkspan a0 a1) (mkspan b0 b1) = (byte a0 =? byte b1) || (byte a1 =? byte b0).
Proof.
  intros S HS a0 a1 b0 b1 Ha0 Ha1 Hb0 Hb1 HA HB. repeat split.
  - intros p Hp. apply (contains_bytes S HS a0 a1 Ha0 Ha1 p Hp).
  - apply (intersects_bytes S HS a0 a1 b0 b1); assumption.
  - apply (adjacent_bytes S HS a0 a1 b0 b1); assumption.
Qed.

Lemma chain_example :
  exists S a0 a1 b0 b1, Chain S /\ S a0 /\ S a1 /\ S b0 /\ S b1
    /\ byte a0 <= byte a1 /\ byte b0 <= byte b1
    /\ few_list (minus (mkspan a0 a1) (mkspan b0 b1)) = [mkspan a0 b0; mkspan b1 a1].
Proof.
  exists (fun p => line p = 0 /\ col p = byte p).
  exists (mkpos 0 0 0), (mkpos 10 0 10), (mkpos 3 0 3), (mkpos 5 0 5).
  split.
  - intros [b l c] [b' l' c']; cbn; intros [? ?] [? ?] ?; subst; reflexivity.
  - cbn. repeat split; lia.
Qed.

(** [Span::enclosing] orders its two arguments by byte itself: the result does not depend on the order in which
    the positions are handed over, runs forwards, and its endpoints are the two arguments *)
Lemma enclosing_spec (S : pos -> Prop) : Chain S -> forall a b, S a -> S b ->
  let r := enclosing a b in
  byte (sstart r) <= byte (send r)
  /\ ((sstart r = a /\ send r = b) \/ (sstart r = b /\ send r = a))
  /\ enclosing b a = r.
Proof.
  intros HC a b Ha Hb. unfold enclosing.
  destruct (Nat.ltb_spec (byte b) (byte a)) as [H1|H1], (Nat.ltb_spec (byte a) (byte b)) as [H2|H2]; cbn [sstart send]; try lia.
  - split; [lia|]. split; [right; split; reflexivity|reflexivity].
  - split; [lia|]. split; [left; split; reflexivity|reflexivity].
  - assert (E : a = b) by (apply HC; [exact Ha|exact Hb|lia]). subst b.
    split; [lia|]. split; [left; split; reflexivity|reflexivity].
Qed.
