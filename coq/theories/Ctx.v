(** Model of tephra/src/context.rs and result.rs [apply_context], and of the error values.

    A Rust [Context] is two [Rc<RwLock<..>>] cells (shared sink, chain of local transform
    nodes) and a lock flag. After the repair of [raw]/[unrecoverable] (which used to empty the
    cells shared with the caller) no library code mutates a cell once it is created: [pushed]
    allocates a new node pointing at its parent, [unrecoverable] a new sink-less shared cell,
    [raw] a new empty node. Sharing is then unobservable and a context is the *value*
    (sink present?, transforms innermost first, locked?). That clones really are independent
    is what the correspondence runs for C09/C15 exercise. [take_*]/[replace_*] remain public
    API for user code and are outside the model. *)
From Tephra Require Export Scanner.

Inductive expected :=
| ExTok (t : tok) | ExAny (ts : list tok) | ExEot | ExOther | ExAnyToken.

Inductive bkind := BNone | BUnclosed | BUnopened | BMismatch.

Inductive err :=
| EUnexpected (es ts : span) (ex : expected) (found : option tok)
| EUnrecognized (es : span)
| EBoundary (es : span) (e : pos)
| EBracket (k : bkind) (s1 : span) (s2 : option span)
| ECount (es : span) (found lo : nat) (hi : option nat)
| ERecover
| ETagged (tag : nat) (e : err)        (* a user transform: tags the error it sees *)
| EProbe (n : nat)                      (* harness probe error *)
| EUser                                 (* a user parser's own error *)
| EProbeRet (n : nat).                  (* log marker: a probe's send_error handed the error back *)

Record ctx := mkctx { has_sink : bool; trail : list nat; locked : bool }.

(** context.rs:70-100 *)
Definition ctx_new (sink : bool) : ctx := mkctx sink [] false.
(** context.rs:102-106 *)
Definition ctx_locked (c : ctx) (b : bool) : ctx := mkctx (has_sink c) (trail c) b.
(** context.rs:110-137: [pushed] and [push] have the same effect on the receiver *)
Definition ctx_pushed (c : ctx) (tag : nat) : ctx :=
  if locked c then c else mkctx (has_sink c) (tag :: trail c) false.
(** control.rs raw / unrecoverable (as repaired) *)
Definition ctx_raw (c : ctx) : ctx := mkctx (has_sink c) [] true.
Definition ctx_unrec (c : ctx) : ctx := mkctx false (trail c) (locked c).

(** context.rs:32-57, 157-167: the node's own transform first, then its parent's, to the root *)
Definition apply_trail (tr : list nat) (e : err) : err :=
  fold_left (fun e t => ETagged t e) tr e.

(** context.rs:177-196: with a sink the transformed error is delivered (appended to the log);
    without one the error is handed back untransformed *)
Definition send_error (c : ctx) (e : err) (log : list err) : list err * option err :=
  if has_sink c then (log ++ [apply_trail (trail c) e], None) else (log, Some e).

(** result.rs:72-77 *)
Definition apply_context (c : ctx) (e : err) : err := apply_trail (trail c) e.

(** * Operation trees (C15) *)
Inductive ctree :=
| TPush (tag : nat) (ts : list ctree)
| TPushMut (tag : nat) (ts : list ctree)
| TLocked (b : bool) (ts : list ctree)
| TFork (ts : list ctree)
| TRaw (ts : list ctree)
| TUnrec (ts : list ctree)
| TSend (n : nat)
| TApply (n : nat).

Inductive cevent :=
| EvSink (n : nat) (e : err)        (* send_error delivered e to the sink *)
| EvRet (n : nat) (e : err)         (* send_error handed e back *)
| EvApply (n : nat) (e : err).      (* apply_context returned e *)

Fixpoint run_tree (c : ctx) (t : ctree) : list cevent :=
  let fix run_list (c : ctx) (ts : list ctree) : list cevent :=
    match ts with [] => [] | t :: r => run_tree c t ++ run_list c r end in
  match t with
  | TPush tag ts => run_list (ctx_pushed c tag) ts
  | TPushMut tag ts => run_list (ctx_pushed c tag) ts
  | TLocked b ts => run_list (ctx_locked c b) ts
  | TFork ts => run_list c ts
  | TRaw ts => run_list (ctx_raw c) ts
  | TUnrec ts => run_list (ctx_unrec c) ts
  | TSend n =>
    match send_error c (EProbe n) [] with
    | (_, Some e) => [EvRet n e]
    | (l, None) => map (EvSink n) l
    end
  | TApply n => [EvApply n (apply_context c (EProbe n))]
  end.

Definition run_trees (c : ctx) (ts : list ctree) : list cevent := flat_map (run_tree c) ts.
