(** Fuel is only a bound: an answer other than RFuel does not depend on how much fuel was given.
    [refines r r']: [r] ran out of fuel, or [r'] is [r]. Every combinator, with one more unit of
    fuel, refines itself - hence with any larger amount. Together with termination (RunTerm) the
    result of a parse is a well-defined function of grammar, lexer, context and store. *)
From Tephra Require Import CLexer Run.

Definition refines (r r' : R) : Prop := fst r = RFuel \/ r' = r.

Lemma refines_refl r : refines r r.
Proof. right. reflexivity. Qed.

Lemma refines_fuel st r' : refines (RFuel, st) r'.
Proof. left. reflexivity. Qed.

Lemma refines_trans a b c : refines a b -> refines b c -> refines a c.
Proof. intros [Ha|Eb]; [left; exact Ha|]. subst b. intros H. exact H. Qed.

(** any strict processing of an intermediate result *)
Lemma refines_fun (F F' : R -> R) r r' : refines r r' ->
  (forall x, refines (F x) (F' x)) -> (forall s, fst (F (RFuel, s)) = RFuel) -> refines (F r) (F' r').
Proof.
  intros [Hf|Er] HF Hs; [|subst r'].
  - left. destruct r as [o s]. cbn [fst] in Hf. subst o. apply Hs.
  - apply HF.
Qed.

Ltac ref_on r r' :=
  match goal with |- refines ?A ?B =>
    let PA := eval pattern r in A in
    let PB := eval pattern r' in B in
    match PA with ?F1 _ => match PB with ?F0 _ =>
      change (refines (F1 r) (F0 r')); apply (refines_fun F1 F0 r r') end end
  end.

Lemma refines_on_ok r r' k k' : refines r r' -> (forall v l s, refines (k v l s) (k' v l s)) -> refines (on_ok r k) (on_ok r' k').
Proof.
  intros Hr Hk. apply (refines_fun (fun x => on_ok x k) (fun x => on_ok x k') r r' Hr); [|reflexivity].
  intros [[v l|e| |] s]; cbn [on_ok]; [apply Hk|apply refines_refl..].
Qed.

Lemma refines_map_val f r r' : refines r r' -> refines (map_val f r) (map_val f r').
Proof.
  intros Hr. apply (refines_fun (map_val f) (map_val f) r r' Hr); [intros x; apply refines_refl|reflexivity].
Qed.

Lemma refines_lift {A} (x : res A) st k k' : (forall a, refines (k a) (k' a)) -> refines (lift x st k) (lift x st k').
Proof. intros H. destruct x as [a| |]; cbn [lift]; [apply H|apply refines_refl|apply refines_refl]. Qed.

Definition stop_ref (s s' : option (clexer -> store -> R)) : Prop :=
  match s, s' with
  | Some sp, Some sp' => forall l st, refines (sp l st) (sp' l st)
  | None, None => True
  | _, _ => False
  end.

Lemma refines_mand : forall n lo stop stop' step step' vals cur st k k',
  stop_ref stop stop' -> (forall l s, refines (step l s) (step' l s)) -> (forall vs l s, refines (k vs l s) (k' vs l s)) ->
  refines (mand_loop n lo stop step vals cur st k) (mand_loop (S n) lo stop' step' vals cur st k').
Proof.
  induction n as [|n IH]; intros lo stop stop' step step' vals cur st k k' Hs Hst Hk; [apply refines_fuel|].
  cbn [mand_loop]. destruct (length vals <? lo); [|apply Hk].
  assert (Hgo : forall s0, refines
            match step cur s0 with
            | (ROk v lx', st') => mand_loop n lo stop step (vals ++ [v]) lx' st' k
            | r => r
            end
            match step' cur s0 with
            | (ROk v lx', st') => mand_loop (S n) lo stop' step' (vals ++ [v]) lx' st' k'
            | r => r
            end).
  { intros s0. ref_on (step cur s0) (step' cur s0); [apply Hst| |reflexivity].
    intros [[v l|e| |] s]; try apply refines_refl. apply IH; assumption. }
  destruct stop as [sp|], stop' as [sp'|]; cbn [stop_ref] in Hs; try contradiction; [|apply Hgo].
  ref_on (sp cur st) (sp' cur st); [apply Hs| |reflexivity].
  intros [[v l|e| |] s]; try apply refines_refl. apply Hgo.
Qed.

Lemma refines_opt : forall n hi stop stop' step step' vals cur st,
  stop_ref stop stop' -> (forall l s, refines (step l s) (step' l s)) ->
  refines (opt_loop n hi stop step vals cur st) (opt_loop (S n) hi stop' step' vals cur st).
Proof.
  induction n as [|n IH]; intros hi stop stop' step step' vals cur st Hs Hst; [apply refines_fuel|].
  cbn [opt_loop]. destruct (lt_opt (length vals) hi); [|apply refines_refl].
  assert (Hgo : forall s0, refines
            match step cur s0 with
            | (ROk v lx', st') =>
              let vals' := vals ++ [v] in
              if ge_opt (length vals') hi then (ROk (VList vals') lx', st') else opt_loop n hi stop step vals' lx' st'
            | (RErr _, st') => (ROk (VList vals) cur, st')
            | r => r
            end
            match step' cur s0 with
            | (ROk v lx', st') =>
              let vals' := vals ++ [v] in
              if ge_opt (length vals') hi then (ROk (VList vals') lx', st') else opt_loop (S n) hi stop' step' vals' lx' st'
            | (RErr _, st') => (ROk (VList vals) cur, st')
            | r => r
            end).
  { intros s0. ref_on (step cur s0) (step' cur s0); [apply Hst| |reflexivity].
    intros [[v l|e| |] s]; try apply refines_refl. cbn zeta. destruct (ge_opt _ hi); [apply refines_refl|apply IH; assumption]. }
  destruct stop as [sp|], stop' as [sp'|]; cbn [stop_ref] in Hs; try contradiction; [|apply Hgo].
  ref_on (sp cur st) (sp' cur st); [apply Hs| |reflexivity].
  intros [[v l|e| |] s]; try apply refines_refl. apply Hgo.
Qed.

Lemma refines_right_of runf runf' a s c :
  (forall l st, refines (runf a l c st) (runf' a l c st)) -> (forall l st, refines (runf s l c st) (runf' s l c st)) ->
  forall l st, refines (right_of runf s a c l st) (right_of runf' s a c l st).
Proof. intros Ha Hs l st. unfold right_of. apply refines_on_ok; [apply Hs|]. intros v l' s'. apply Ha. Qed.

Lemma refines_intersperse runf runf' n lo hi a s lx c st :
  (forall l st0, refines (runf a l c st0) (runf' a l c st0)) -> (forall l st0, refines (runf s l c st0) (runf' s l c st0)) ->
  refines (run_intersperse runf n lo hi a s lx c st) (run_intersperse runf' (S n) lo hi a s lx c st).
Proof.
  intros Ha Hs. unfold run_intersperse. destruct (hi_check lo hi lx st); [apply refines_refl|].
  pose proof (refines_right_of runf runf' a s c Ha Hs) as Hstep.
  ref_on (runf a lx c st) (runf' a lx c st); [apply Ha| |reflexivity].
  intros [[v l|e| |] s0]; try apply refines_refl.
  apply refines_mand; [exact I|exact Hstep|]. intros vs l' s'. apply refines_opt; [exact I|exact Hstep].
Qed.

Lemma refines_intersperse_until runf runf' n lo hi sg a s lx c st :
  (forall l st0, refines (runf sg l c st0) (runf' sg l c st0)) ->
  (forall l st0, refines (runf a l c st0) (runf' a l c st0)) -> (forall l st0, refines (runf s l c st0) (runf' s l c st0)) ->
  refines (run_intersperse_until runf n lo hi sg a s lx c st) (run_intersperse_until runf' (S n) lo hi sg a s lx c st).
Proof.
  intros Hg Ha Hs. unfold run_intersperse_until. destruct (hi_check lo hi lx st); [apply refines_refl|].
  pose proof (refines_right_of runf runf' a s c Ha Hs) as Hstep.
  assert (Hstop : stop_ref (Some (fun l st0 => runf sg l c st0)) (Some (fun l st0 => runf' sg l c st0))) by (intros l s0; apply Hg).
  ref_on (runf sg lx c st) (runf' sg lx c st); [apply Hg| |reflexivity].
  intros [[v0 l0|e0| |] s0]; try apply refines_refl.
  ref_on (runf a lx c s0) (runf' a lx c s0); [apply Ha| |reflexivity].
  intros [[v l|e| |] s1]; try apply refines_refl.
  apply refines_mand; [exact Hstop|exact Hstep|]. intros vs l' s'. apply refines_opt; [exact Hstop|exact Hstep].
Qed.

Lemma refines_count_of r r' : refines r r' -> refines (count_of r) (count_of r').
Proof. unfold count_of. apply refines_map_val. Qed.

Lemma refines_stab runf runf' a c : (forall l c' st, refines (runf a l c' st) (runf' a l c' st)) ->
  forall n att lx res res', refines res res' ->
  refines (stab_loop runf n att a c lx res) (stab_loop runf' (S n) att a c lx res').
Proof.
  intros Ha. induction n as [|n IH]; intros att lx res res' Hr.
  - left. reflexivity.
  - destruct Hr as [Hf|Er]; [|subst res'].
    + left. destruct res as [o s]. cbn [fst] in Hf. subst o. reflexivity.
    + cbn [stab_loop]. destruct res as [[v l|e| |] st]; try apply refines_refl.
      destruct (c_rec lx); [|apply refines_refl].
      destruct (advance_to_recover lx st) as [[[b lx1]| |] st1]; try apply refines_refl.
      destruct b; [|apply refines_refl]. destruct (_ && _); [apply refines_refl|]. apply IH. apply Ha.
Qed.

Lemma refines_list_loop runf runf' : (forall g l c st, refines (runf g l c st) (runf' g l c st)) ->
  forall n hi ab dflt item probe sepp c vals lx st k k',
  (forall vs l s, refines (k vs l s) (k' vs l s)) ->
  refines (list_loop runf n hi ab dflt item probe sepp c vals lx st k)
          (list_loop runf' (S n) hi ab dflt item probe sepp c vals lx st k').
Proof.
  intros Hr. induction n as [|n IHn]; intros hi ab dflt item probe sepp c vals lx st k k' Hk; [apply refines_fuel|].
  cbn [list_loop]. apply refines_lift. intros [o lx0].
  destruct o as [t|]; [|apply Hk].
  destruct (in_kinds ab t).
  - destruct vals as [|v0 vr]; [apply Hk|].
    ref_on (runf probe lx0 c st) (runf' probe lx0 c st); [apply Hr| |reflexivity].
    intros [[pv pl|pe| |] s]; try apply refines_refl. destruct pv; apply Hk.
  - ref_on (runf item lx0 c st) (runf' item lx0 c st); [apply Hr| |reflexivity].
    intros [[v lx1|e| |] s]; try apply refines_refl.
    + cbn zeta. destruct (ge_opt _ hi); [apply Hk|].
      apply refines_lift. intros [o2 lx2]. destruct o2 as [t2|]; [|apply Hk].
      destruct (in_kinds ab t2); [apply Hk|]. destruct (c_at_end lx2); [apply Hk|].
      ref_on (runf sepp lx2 c s) (runf' sepp lx2 c s); [apply Hr| |reflexivity].
      intros [[v3 lx3|e3| |] s3]; try apply refines_refl.
      apply refines_lift. intros lx4. apply IHn. exact Hk.
    + destruct e; try apply refines_refl. apply refines_lift. intros [b lx1]. apply Hk.
Qed.


(** the same with the larger counter named *)
Lemma refines_intersperse' runf runf' n n' lo hi a s lx c st : n' = S n ->
  (forall l st0, refines (runf a l c st0) (runf' a l c st0)) -> (forall l st0, refines (runf s l c st0) (runf' s l c st0)) ->
  refines (run_intersperse runf n lo hi a s lx c st) (run_intersperse runf' n' lo hi a s lx c st).
Proof. intros E. subst n'. apply refines_intersperse. Qed.

Lemma refines_intersperse_until' runf runf' n n' lo hi sg a s lx c st : n' = S n ->
  (forall l st0, refines (runf sg l c st0) (runf' sg l c st0)) ->
  (forall l st0, refines (runf a l c st0) (runf' a l c st0)) -> (forall l st0, refines (runf s l c st0) (runf' s l c st0)) ->
  refines (run_intersperse_until runf n lo hi sg a s lx c st) (run_intersperse_until runf' n' lo hi sg a s lx c st).
Proof. intros E. subst n'. apply refines_intersperse_until. Qed.

Lemma refines_stab' runf runf' a c n n' att lx res res' : n' = S n ->
  (forall l c' st, refines (runf a l c' st) (runf' a l c' st)) -> refines res res' ->
  refines (stab_loop runf n att a c lx res) (stab_loop runf' n' att a c lx res').
Proof. intros E Ha Hr. subst n'. apply refines_stab; assumption. Qed.

Lemma refines_list_loop' runf runf' n n' hi ab dflt item probe sepp c vals lx st k k' : n' = S n ->
  (forall g l c st, refines (runf g l c st) (runf' g l c st)) ->
  (forall vs l s, refines (k vs l s) (k' vs l s)) ->
  refines (list_loop runf n hi ab dflt item probe sepp c vals lx st k)
          (list_loop runf' n' hi ab dflt item probe sepp c vals lx st k').
Proof. intros E Hr Hk. subst n'. apply refines_list_loop; assumption. Qed.

Theorem run_refines_gen : forall f f', f' = S f -> forall g lx c st, refines (run f g lx c st) (run f' g lx c st).
Proof.
  induction f as [|f IH0]; intros f' E g lx c st; [apply refines_fuel|].
  destruct f' as [|F]; [discriminate E|]. assert (EF : F = S f) by lia. clear E.
  assert (IH : forall g0 l c0 s0, refines (run f g0 l c0 s0) (run F g0 l c0 s0)) by (intros; apply IH0; exact EF).
  assert (Hrw : forall dflt r (body body' : clexer -> ctx -> store -> R), refines (body lx c st) (body' lx c st) ->
            refines
              match body lx c st with
              | (RErr e, st1) =>
                match send_error c e (log st1) with
                | (_, Some e') => (RErr e', st1)
                | (l, None) =>
                  match advance_to_recover (set_rec lx (Some r)) (st_log st1 l) with
                  | (Ok (true, lx'), st3) => (ROk dflt lx', st3)
                  | (Ok (false, _), st3) => (RErr ERecover, st3)
                  | (Panic, st3) => (RPanic, st3)
                  | (Fuel, st3) => (RFuel, st3)
                  end
                end
              | r0 => r0
              end
              match body' lx c st with
              | (RErr e, st1) =>
                match send_error c e (log st1) with
                | (_, Some e') => (RErr e', st1)
                | (l, None) =>
                  match advance_to_recover (set_rec lx (Some r)) (st_log st1 l) with
                  | (Ok (true, lx'), st3) => (ROk dflt lx', st3)
                  | (Ok (false, _), st3) => (RErr ERecover, st3)
                  | (Panic, st3) => (RPanic, st3)
                  | (Fuel, st3) => (RFuel, st3)
                  end
                end
              | r0 => r0
              end).
  { intros dflt r body body' Hb. ref_on (body lx c st) (body' lx c st); [exact Hb|intros x; apply refines_refl|reflexivity]. }
  assert (Hbw : forall os a cs ab okv dfl,
            refines
              (if (match os with [] => true | _ => false end) || (match cs with [] => true | _ => false end)
                  || negb (length os =? length cs) || negb (disjoint_kinds os cs)
               then (RPanic, st)
               else
                 match match_nested_brackets lx os cs ab with
                 | BPanic => (RPanic, st) | BFuel => (RFuel, st)
                 | BErr e => (RErr e, st)
                 | BM o cl idx =>
                   lift (c_next o) st (fun '(_, o1) =>
                   lift (c_start_sublex o1) st (fun inner =>
                   lift (c_next cl) st (fun '(_, cl1) =>
                   match run f a inner c st with
                   | (ROk v _, st1) => (ROk (okv v idx) cl1, st1)
                   | (RErr e, st1) =>
                     match send_error c e (log st1) with
                     | (_, Some e') => (RErr e', st1)
                     | (l, None) => (ROk (dfl idx) cl1, st_log st1 l)
                     end
                   | r => r
                   end)))
                 end)
              (if (match os with [] => true | _ => false end) || (match cs with [] => true | _ => false end)
                  || negb (length os =? length cs) || negb (disjoint_kinds os cs)
               then (RPanic, st)
               else
                 match match_nested_brackets lx os cs ab with
                 | BPanic => (RPanic, st) | BFuel => (RFuel, st)
                 | BErr e => (RErr e, st)
                 | BM o cl idx =>
                   lift (c_next o) st (fun '(_, o1) =>
                   lift (c_start_sublex o1) st (fun inner =>
                   lift (c_next cl) st (fun '(_, cl1) =>
                   match run F a inner c st with
                   | (ROk v _, st1) => (ROk (okv v idx) cl1, st1)
                   | (RErr e, st1) =>
                     match send_error c e (log st1) with
                     | (_, Some e') => (RErr e', st1)
                     | (l, None) => (ROk (dfl idx) cl1, st_log st1 l)
                     end
                   | r => r
                   end)))
                 end)).
  { intros os a cs ab okv dfl. destruct (_ || _ || _ || _); [apply refines_refl|].
    destruct (match_nested_brackets lx os cs ab) as [o cl idx|e| |]; try apply refines_refl.
    apply refines_lift. intros [x o1]. apply refines_lift. intros inner. apply refines_lift. intros [y cl1].
    ref_on (run f a inner c st) (run F a inner c st); [apply IH|intros x0; apply refines_refl|reflexivity]. }
  assert (Hlw : forall lo hi item0 dflt sep ab (k : list val -> clexer -> store -> R),
            refines
              match hi with
              | Some 0 => (ROk (VList []) lx, st)
              | _ => if (match hi with Some h => h <? lo | None => false end) then (RPanic, st)
                     else list_loop (run f) f hi ab dflt
                            (GStabilize (GRecoverWith dflt (list_rref sep ab) (GUpTo item0 (sep :: ab))))
                            (GStabilize (GMaybe (GUpTo item0 (sep :: ab))))
                            (GRecoverWith VUnit (list_rref sep ab) (GDiscard (GOne sep))) c [] lx st k
              end
              match hi with
              | Some 0 => (ROk (VList []) lx, st)
              | _ => if (match hi with Some h => h <? lo | None => false end) then (RPanic, st)
                     else list_loop (run F) F hi ab dflt
                            (GStabilize (GRecoverWith dflt (list_rref sep ab) (GUpTo item0 (sep :: ab))))
                            (GStabilize (GMaybe (GUpTo item0 (sep :: ab))))
                            (GRecoverWith VUnit (list_rref sep ab) (GDiscard (GOne sep))) c [] lx st k
              end).
  { intros lo hi item0 dflt sep ab k.
    assert (Hloop : refines
              (list_loop (run f) f hi ab dflt
                 (GStabilize (GRecoverWith dflt (list_rref sep ab) (GUpTo item0 (sep :: ab))))
                 (GStabilize (GMaybe (GUpTo item0 (sep :: ab))))
                 (GRecoverWith VUnit (list_rref sep ab) (GDiscard (GOne sep))) c [] lx st k)
              (list_loop (run F) F hi ab dflt
                 (GStabilize (GRecoverWith dflt (list_rref sep ab) (GUpTo item0 (sep :: ab))))
                 (GStabilize (GMaybe (GUpTo item0 (sep :: ab))))
                 (GRecoverWith VUnit (list_rref sep ab) (GDiscard (GOne sep))) c [] lx st k)).
    { apply refines_list_loop'; [exact EF|intros g0 l c0 s0; apply IH|]. intros vs l s0. apply refines_refl. }
    destruct hi as [[|h]|]; [apply refines_refl| |].
    - destruct (S h <? lo); [apply refines_refl|exact Hloop].
    - exact Hloop. }
  destruct g; cbn [run]; try apply refines_refl.
  - (* left *) apply refines_on_ok; [apply IH|]. intros v l s. apply refines_map_val. apply IH.
  - (* right *) apply refines_on_ok; [apply IH|]. intros v l s. apply IH.
  - (* both *) apply refines_on_ok; [apply IH|]. intros v l s. apply refines_map_val. apply IH.
  - (* center *) apply refines_on_ok; [apply IH|]. intros v l s. apply refines_on_ok; [apply IH|]. intros v2 l2 s2. apply refines_map_val. apply IH.
  - (* map *) apply refines_map_val. apply IH.
  - (* discard *) apply refines_map_val. apply IH.
  - (* text *) apply refines_lift. intros [o lx1]. apply refines_on_ok; [apply IH|]. intros v l s. apply refines_refl.
  - (* spanned *) apply refines_lift. intros [o lx1]. apply refines_on_ok; [apply IH|]. intros v l s. apply refines_refl.
  - (* sub *) apply refines_lift. intros lx'. apply IH.
  - (* either *) ref_on (run f g1 lx c st) (run F g1 lx c st); [apply IH| |reflexivity].
    intros [[v l|e| |] s]; try apply refines_refl. apply IH.
  - (* maybe *) ref_on (run f g lx (ctx_unrec c) st) (run F g lx (ctx_unrec c) st); [apply IH|intros x; apply refines_refl|reflexivity].
  - (* require_if *) destruct b; [apply refines_map_val; apply IH|apply IH].
  - (* cond *) destruct b; [apply refines_map_val; apply IH|apply refines_refl].
  - (* implies *) apply refines_on_ok; [apply IH|]. intros v l s. destruct v; try apply refines_refl. apply refines_map_val. apply IH.
  - (* antecedent *) apply refines_on_ok; [apply IH|]. intros v l s. destruct v; try apply refines_refl. apply refines_map_val. apply IH.
  - (* consequent *) apply refines_on_ok; [apply IH|]. intros v l s. destruct v; try apply refines_refl. apply refines_map_val. apply IH.
  - (* cond_implies *) apply refines_on_ok; [apply IH|]. intros v l s. destruct v; try apply refines_refl.
    destruct (vpeval p v); [|apply refines_refl]. apply refines_map_val. apply IH.
  - (* filter_with *) apply refines_lift. intros [old lx1]. apply refines_on_ok; [apply IH|]. intros v l s. apply refines_refl.
  - (* unfiltered *) apply refines_lift. intros [old lx1]. apply refines_on_ok; [apply IH|]. intros v l s. apply refines_refl.
  - (* raw *) apply IH.
  - (* unrecoverable *) apply IH.
  - (* recover *) apply (Hrw VNone r (fun l c' s => some_of (run f g l c' s)) (fun l c' s => some_of (run F g l c' s))). apply refines_map_val. apply IH.
  - (* recover_default *) apply (Hrw VDflt r (fun l c' s => run f g l c' s) (fun l c' s => run F g l c' s)). apply IH.
  - (* recover delayed *) apply (Hrw VNone r (fun l c' s => some_of (run f g l c' s)) (fun l c' s => some_of (run F g l c' s))). apply refines_map_val. apply IH.
  - (* recover_default delayed *) apply (Hrw VDflt r (fun l c' s => run f g l c' s) (fun l c' s => run F g l c' s)). apply IH.
  - (* stabilize *) apply refines_stab'; [exact EF|intros l c' s0; apply IH|apply IH].
  - (* repeat *) apply refines_intersperse'; [exact EF| |]; intros l s0; apply IH.
  - apply refines_count_of. apply refines_intersperse'; [exact EF| |]; intros l s0; apply IH.
  - apply refines_intersperse_until'; [exact EF| | |]; intros l s0; apply IH.
  - apply refines_count_of. apply refines_intersperse_until'; [exact EF| | |]; intros l s0; apply IH.
  - apply refines_intersperse'; [exact EF| |]; intros l s0; apply IH.
  - apply refines_count_of. apply refines_intersperse'; [exact EF| |]; intros l s0; apply IH.
  - apply refines_intersperse_until'; [exact EF| | |]; intros l s0; apply IH.
  - apply refines_count_of. apply refines_intersperse_until'; [exact EF| | |]; intros l s0; apply IH.
  - apply refines_intersperse'; [exact EF| |]; intros l s0; apply IH.
  - (* bracket *) apply Hbw.
  - apply Hbw.
  - apply Hbw.
  - apply Hbw.
  - (* up_to *) apply refines_on_ok; [apply IH|]. intros v l s. apply refines_refl.
  - (* list *) apply (Hlw 0 None (GSomeOf g) VNone sep ab).
  - apply (Hlw lo hi (GSomeOf g) VNone sep ab).
  - apply (Hlw 0 None g VDflt sep ab).
  - apply (Hlw lo hi g VDflt sep ab).
  - (* context push *) ref_on (run f g lx (ctx_pushed c tag) st) (run F g lx (ctx_pushed c tag) st); [apply IH|intros x; apply refines_refl|reflexivity].
  - (* some_of *) apply refines_map_val. apply IH.
  - (* recover_with *) apply (Hrw dflt r (fun l c' s => run f g l c' s) (fun l c' s => run F g l c' s)). apply IH.
Qed.

Theorem run_refines f g lx c st : refines (run f g lx c st) (run (S f) g lx c st).
Proof. apply run_refines_gen. reflexivity. Qed.

(** an answer other than RFuel is the answer at every larger fuel *)
Theorem fuel_monotone f d g lx c st : fst (run f g lx c st) <> RFuel -> run (f + d) g lx c st = run f g lx c st.
Proof.
  intros Hn. induction d as [|d IHd]; [rewrite Nat.add_0_r; reflexivity|].
  rewrite Nat.add_succ_r. destruct (run_refines (f + d) g lx c st) as [Hf|E]; [rewrite IHd in Hf; contradiction|].
  rewrite E. exact IHd.
Qed.

(** two fuels that both give an answer give the same answer *)
Theorem answer_unique f f' g lx c st :
  fst (run f g lx c st) <> RFuel -> fst (run f' g lx c st) <> RFuel -> run f g lx c st = run f' g lx c st.
Proof.
  intros H1 H2. destruct (Nat.le_ge_cases f f') as [L|L].
  - replace f' with (f + (f' - f)) by lia. symmetry. apply fuel_monotone. exact H1.
  - replace f with (f' + (f - f')) by lia. apply fuel_monotone. exact H2.
Qed.
