(** Facts about the SourceText model: a source whose text reads as the unit list [us] and
    that starts at position [off] (any byte, line, column) reports, for the i-th unit boundary,
    the position [gpos i] measured *from [off]* — so a window clipped out of a parent document
    reports the parent's positions (C20), and line widening/splitting follow the line
    structure of the unit list (C18). *)
From Tephra Require Import MetricsSpec MetricsFacts Source.

Set Default Proof Using "All".

Definition shiftb (d : nat) (p : pos) : pos := mkpos (byte p + d) (line p) (col p).

Lemma adv_shiftb m d p u : adv m (shiftb d p) u = shiftb d (adv m p u).
Proof.
  destruct u as [|c]; cbn [adv]; unfold nl_pos, step_pure, shiftb; cbn [byte line col].
  - f_equal; lia.
  - destruct c; cbn [byte line col]; f_equal; lia.
Qed.

Lemma fold_adv_shiftb m d x p :
  fold_left (adv m) x (shiftb d p) = shiftb d (fold_left (adv m) x p).
Proof. revert p; induction x as [|u r IH]; intros p; cbn [fold_left]; [reflexivity|]. rewrite adv_shiftb. apply IH. Qed.

Lemma shiftb_shiftb a b p : shiftb a (shiftb b p) = shiftb (b + a) p.
Proof. unfold shiftb; cbn [byte line col]. f_equal; lia. Qed.

(** the start page of a source, at local byte 0 *)
Definition local0 (off : pos) : pos := mkpos 0 (line off) (col off).

(** the position the source reports for its i-th unit boundary *)
Definition gpos (m : metrics) (us : list unit) (off : pos) (i : nat) : pos :=
  shiftb (byte off) (Pf m (local0 off) us i).

Lemma gpos_0 m us off : gpos m us off 0 = off.
Proof. unfold gpos. rewrite Pf_0. unfold shiftb, local0; cbn [byte line col]. apply pos_eta. Qed.

Lemma page_leb_refl p : page_leb p p = true.
Proof. unfold page_leb. rewrite Nat.eqb_refl, Nat.leb_refl, orb_true_r. reflexivity. Qed.

Lemma page_leb_trans p q r : page_leb p q = true -> page_leb q r = true -> page_leb p r = true.
Proof.
  unfold page_leb. intros H1 H2.
  destruct (Nat.ltb_spec (line p) (line q)), (Nat.ltb_spec (line q) (line r)), (Nat.ltb_spec (line p) (line r));
    cbn [orb] in *; try reflexivity; try lia;
  destruct (Nat.eqb_spec (line p) (line q)), (Nat.eqb_spec (line q) (line r)), (Nat.eqb_spec (line p) (line r));
    cbn [andb] in *; try discriminate; try lia.
  apply Nat.leb_le in H1, H2. apply Nat.leb_le. lia.
Qed.

Lemma page_leb_intro p q :
  line p < line q \/ (line p = line q /\ col p <= col q) -> page_leb p q = true.
Proof.
  unfold page_leb. intros [H|[H1 H2]].
  - destruct (Nat.ltb_spec (line p) (line q)); [reflexivity|lia].
  - rewrite H1, Nat.eqb_refl. destruct (Nat.leb_spec (col p) (col q)); [|lia].
    rewrite orb_true_r. reflexivity.
Qed.

Lemma page_leb_adv m p u : page_leb p (adv m p u) = true.
Proof.
  apply page_leb_intro. destruct u as [|c]; cbn [adv]; unfold nl_pos, step_pure.
  - left. cbn [line]. lia.
  - right. destruct c; cbn [line col]; split; lia.
Qed.

Section Src.
  Variable m : metrics.
  Hypothesis Htab : 1 <= tabw m.
  Variable us : list unit.
  Hypothesis Hwf : wf_units m us.
  Variable off : pos.
  Variable name : option nat.
  Local Notation p0 := (local0 off).
  Local Notation s := (mksource (ctext m us) name m off).
  Local Notation n := (length us).
  Local Notation Q := (Pf m p0 us).
  Local Notation G := (gpos m us off).
  Let Hp0 : byte p0 = 0 := eq_refl.

  Lemma G_byte i : byte (G i) = byte (Q i) + byte off.
  Proof. reflexivity. Qed.
  Lemma G_line i : line (G i) = line (Q i).
  Proof. reflexivity. Qed.

  Lemma G_byte_mono i j : i < j -> j <= n -> byte (G i) < byte (G j).
  Proof. intros H1 H2. rewrite !G_byte. pose proof (Pf_byte_mono m p0 us i j Hwf H1 H2). lia. Qed.

  Lemma G_byte_le i j : i <= j -> j <= n -> byte (G i) <= byte (G j).
  Proof.
    intros H1 H2. destruct (Nat.eq_dec i j) as [->|]; [lia|].
    pose proof (G_byte_mono i j ltac:(lia) H2). lia.
  Qed.

  Lemma G_inj i j : i <= n -> j <= n -> byte (G i) = byte (G j) -> i = j.
  Proof.
    intros Hi Hj E. destruct (Nat.lt_trichotomy i j) as [H|[H|H]]; [|exact H|].
    - pose proof (G_byte_mono i j H Hj). lia.
    - pose proof (G_byte_mono j i H Hi). lia.
  Qed.

  Lemma wbo i (f : pos -> res (option pos)) r : f (Q i) = Ok r ->
    with_byte_offset (G i) (byte off) (fun b => f b) = Ok (option_map (shiftb (byte off)) r).
  Proof.
    intros H. unfold with_byte_offset. rewrite G_byte, sub_chk_ok by lia. cbn [bind].
    replace (byte (Q i) + byte off - byte off) with (byte (Q i)) by lia.
    change (line (G i)) with (line (Q i)). change (col (G i)) with (col (Q i)).
    rewrite pos_eta, H. reflexivity.
  Qed.

  Theorem src_next_G i : i <= n ->
    src_next_position s (G i) = Ok (if i <? n then Some (G (S i)) else None).
  Proof.
    intros Hi. unfold src_next_position. cbn [smet stext soff].
    rewrite (wbo i _ _ (next_position_P m Htab us Hwf p0 Hp0 i Hi)).
    destruct (i <? n); reflexivity.
  Qed.

  (** the pattern- and predicate-based advances through the SourceText wrappers of a source with a start position:
      the metrics-level answers, translated by the offset *)
  Theorem src_position_after_chars_matching_G i f : i <= n ->
    src_position_after_chars_matching s (G i) f =
    Ok (match class_run m f (skipn i us) with 0 => None | j => Some (G (i + j)) end).
  Proof.
    intros Hi. unfold src_position_after_chars_matching. cbn [smet stext soff].
    rewrite (wbo i _ _ (position_after_chars_matching_P m Htab us Hwf p0 Hp0 i f Hi)).
    destruct (class_run m f (skipn i us)); reflexivity.
  Qed.

  Theorem src_next_position_after_chars_matching_G i f : i <= n ->
    src_next_position_after_chars_matching s (G i) f =
    Ok (match skipn i us with
        | u :: _ => if forallb f (utext m u) then Some (G (S i)) else None
        | [] => None
        end).
  Proof.
    intros Hi. unfold src_next_position_after_chars_matching. cbn [smet stext soff].
    rewrite (wbo i _ _ (next_position_after_chars_matching_P m Htab us Hwf p0 Hp0 i f Hi)).
    destruct (skipn i us) as [|u r]; [reflexivity|]. destruct (forallb f (utext m u)); reflexivity.
  Qed.

  Theorem src_position_after_str_G i pat : i <= n -> wf_text pat ->
    exists r, src_position_after_str s (G i) pat = Ok r /\
      (forall q, r = Some q -> exists j, i + j <= n /\ ctext m (firstn j (skipn i us)) = pat /\ q = G (i + j)) /\
      (forall j, i + j <= n -> ctext m (firstn j (skipn i us)) = pat -> r = Some (G (i + j))).
  Proof.
    intros Hi Hp.
    destruct (position_after_str_P m Htab us Hwf p0 Hp0 i pat Hi Hp) as (r & E & H1 & H2).
    exists (option_map (shiftb (byte off)) r). unfold src_position_after_str. cbn [smet stext soff].
    split; [exact (wbo i _ _ E)|]. split.
    - intros q Hq. destruct r as [q0|]; [|discriminate Hq]. injection Hq as <-.
      destruct (H1 q0 eq_refl) as (j & Hj & Ej & ->). exists j. split; [exact Hj|]. split; [exact Ej|reflexivity].
    - intros j Hj Ej. rewrite (H2 j Hj Ej). reflexivity.
  Qed.

  Theorem src_is_line_break_G i : i <= n ->
    src_is_line_break s (byte (G i)) =
    Ok (match nth_error us i with Some u => is_lb u | None => false end).
  Proof.
    intros Hi. unfold src_is_line_break. cbn [smet stext soff]. rewrite G_byte.
    destruct (Nat.leb_spec (byte off) (byte (Q i) + byte off)); [|lia].
    replace (byte (Q i) + byte off - byte off) with (byte (Q i)) by lia.
    apply (is_line_break_P m Htab us Hwf p0 Hp0 i Hi).
  Qed.

  Theorem src_line_end_G i : i <= n ->
    src_line_end_position s (G i) = Ok (G (line_end_k us i)).
  Proof.
    intros Hi. unfold src_line_end_position, unwrap. cbn [smet stext soff].
    rewrite (wbo i _ (Some (Q (line_end_k us i)))).
    - reflexivity.
    - rewrite (line_end_position_P m Htab us Hwf p0 Hp0 i Hi). reflexivity.
  Qed.

  Theorem src_end_position_G : src_end_position s = Ok (G n).
  Proof.
    unfold src_end_position. cbn [smet stext soff].
    change (mkpos 0 (line off) (col off)) with p0. rewrite <- (Pf_0 m p0 us) at 1.
    rewrite (end_position_P m Htab us Hwf p0 Hp0 0 ltac:(lia)). reflexivity.
  Qed.

  Theorem full_span_G : full_span s = Ok (mkspan off (G n)).
  Proof.
    unfold full_span. rewrite src_end_position_G. cbn [bind soff]. unfold enclosing.
    pose proof (G_byte_le 0 n ltac:(lia) ltac:(lia)) as H. rewrite gpos_0 in H.
    destruct (Nat.ltb_spec (byte (G n)) (byte off)); [lia|reflexivity].
  Qed.

  Lemma src_walk_G fuel i k : i <= k -> k <= n -> k - i < fuel ->
    src_walk fuel s (G i) (byte (G k)) = Ok (G k).
  Proof.
    revert i; induction fuel as [|f IH]; intros i Hik Hk Hf; [lia|].
    cbn [src_walk]. destruct (Nat.leb_spec (byte (G k)) (byte (G i))) as [Hle|Hlt].
    - destruct (Nat.eq_dec i k) as [->|Hne]; [reflexivity|].
      pose proof (G_byte_mono i k ltac:(lia) Hk). lia.
    - assert (i < k). { destruct (Nat.eq_dec i k) as [->|]; lia. }
      rewrite (src_next_G i ltac:(lia)). destruct (Nat.ltb_spec i n); [|lia].
      cbn [bind]. apply IH; lia.
  Qed.

  Lemma breaks_zero_lsk l : breaks l = 0 -> lsk l = 0.
  Proof.
    intros H. unfold lsk.
    assert (G0 : forall l : list unit, breaks l = 0 -> run_len (rev l) = length l).
    { induction l0 as [|u l0 IH] using rev_ind; [reflexivity|].
      rewrite breaks_app, rev_app_distr, app_length. cbn [rev app length].
      destruct u as [|c]; cbn [breaks filter is_lb length run_len]; [lia|].
      intros Hb. rewrite IH by (unfold breaks in *; lia). lia. }
    rewrite (G0 l H). lia.
  Qed.

  Lemma breaks_pos_lsk l : 0 < breaks l -> 0 < lsk l.
  Proof.
    induction l as [|u l IH] using rev_ind; [cbn; lia|].
    destruct u as [|c].
    - rewrite lsk_snoc_lb. lia.
    - rewrite lsk_snoc_ch, breaks_app. cbn [breaks filter is_lb length]. intros H. apply IH. unfold breaks in *. lia.
  Qed.

  (** a re-measured position on the first line becomes the canonical one *)
  Lemma first_line_position_G k (z : pos) : k <= n ->
    byte z = byte (Q k) -> line z = line (Q k) ->
    (col off = 0 \/ 0 < breaks (firstn k us) -> z = Q k) ->
    first_line_position s (shiftb (byte off) z) = Ok (G k).
  Proof.
    intros Hk Hb Hl Hz. unfold first_line_position. cbn [soff stext line col shiftb].
    rewrite Hl, Pf_line. cbn [line local0].
    destruct (Nat.eqb_spec (line off + breaks (firstn k us)) (line off)) as [E|E]; cbn [negb orb].
    - destruct (Nat.eqb_spec (col off) 0) as [E0|E0].
      + rewrite (Hz (or_introl E0)). reflexivity.
      + pose proof (src_walk_G (S (length (ctext m us))) 0 k ltac:(lia) Hk
                      ltac:(pose proof (units_length_le m us); lia)) as W.
        rewrite gpos_0 in W.
        replace (byte (shiftb (byte off) z)) with (byte (G k)) by (rewrite G_byte; cbn [shiftb byte]; lia). exact W.
    - assert (Hpos : 0 < breaks (firstn k us)) by lia.
      rewrite (Hz (or_intror Hpos)). reflexivity.
  Qed.

  Theorem src_line_start_G i : i <= n ->
    src_line_start_position s (G i) = Ok (G (line_start_k us i)).
  Proof.
    intros Hi. unfold src_line_start_position, unwrap. cbn [smet stext soff].
    pose proof (line_start_k_le us i) as Hle.
    rewrite (wbo i _ (Some (mkpos (byte (Q (line_start_k us i))) (line (Q i)) 0))).
    2:{ rewrite (line_start_position_gen m Htab us Hwf p0 Hp0 i _ Hi eq_refl eq_refl). reflexivity. }
    cbn [bind option_map].
    destruct (Nat.eq_dec (breaks (firstn i us)) 0) as [Ez|Enz].
    - (* no line break before i: the line starts at the start of the text *)
      assert (Ej : line_start_k us i = 0) by (apply breaks_zero_lsk, Ez).
      apply first_line_position_G; [lia|reflexivity| |].
      + cbn [line]. rewrite !Pf_line, Ej, Ez. reflexivity.
      + intros [H0|H0].
        * apply (line_start_canon m Htab us Hwf p0 Hp0 i Hi (or_introl H0)).
        * rewrite Ej in H0. cbn in H0. lia.
    - assert (Hj : 0 < line_start_k us i) by (apply breaks_pos_lsk; lia).
      assert (Ec : mkpos (byte (Q (line_start_k us i))) (line (Q i)) 0 = Q (line_start_k us i))
        by (apply (line_start_canon m Htab us Hwf p0 Hp0 i Hi); right; exact Hj).
      rewrite Ec. apply first_line_position_G; [lia|reflexivity|reflexivity|reflexivity].
  Qed.

  Theorem src_previous_G i : i <= n ->
    src_previous_position s (G i) = Ok (match i with 0 => None | S j => Some (G j) end).
  Proof.
    intros Hi. unfold src_previous_position. cbn [smet stext soff].
    rewrite (wbo i _ _ (previous_position_gen m Htab us Hwf p0 Hp0 i Hi)). cbn [bind].
    destruct i as [|j]; [reflexivity|]. cbn [option_map].
    rewrite (first_line_position_G j); [reflexivity|lia| | |].
    - destruct (nth_error us j) as [u|]; [destruct (remeasured u)|]; reflexivity.
    - destruct (nth_error us j) as [u|]; [destruct (remeasured u)|]; reflexivity.
    - intros H. destruct (nth_error us j) as [u|]; [destruct (remeasured u)|]; try reflexivity.
      apply (Pf_zero_col_eq m p0 us j H).
  Qed.

  Theorem src_previous_line_end_G i : i <= n ->
    src_previous_line_end_position s (G i) =
    Ok (match line_start_k us i with 0 => None | S j => Some (G j) end).
  Proof.
    intros Hi. unfold src_previous_line_end_position. rewrite (src_line_start_G i Hi). cbn [bind].
    apply src_previous_G. pose proof (line_start_k_le us i). lia.
  Qed.

  Theorem src_next_line_start_G i : i <= n ->
    src_next_line_start_position s (G i) =
    Ok (if line_end_k us i <? n then Some (G (S (line_end_k us i))) else None).
  Proof.
    intros Hi. unfold src_next_line_start_position. cbn [smet stext soff].
    rewrite (wbo i _ _ (next_line_start_position_P m Htab us Hwf p0 Hp0 i Hi)).
    destruct (line_end_k us i <? n); reflexivity.
  Qed.

  Lemma page_leb_Q i j : i <= j -> j <= n -> page_leb (Q i) (Q j) = true.
  Proof.
    intros Hij Hj. induction j as [|j IH].
    - replace i with 0 by lia. apply page_leb_refl.
    - destruct (Nat.eq_dec i (S j)) as [->|Hne]; [apply page_leb_refl|].
      destruct (nth_error us j) as [u|] eqn:E.
      + rewrite (Pf_S m p0 us j u E). eapply page_leb_trans; [apply IH; lia|apply page_leb_adv].
      + apply nth_error_None in E. lia.
  Qed.

  Lemma firstn_skipn_slice a b : a <= b -> b <= n ->
    skipn a us = firstn (b - a) (skipn a us) ++ skipn b us.
  Proof.
    intros Hab Hb. rewrite <- (firstn_skipn (b - a) (skipn a us)) at 1. f_equal.
    rewrite skipn_skipn. f_equal. lia.
  Qed.

  (** clipping a canonical span yields the window source: the units a..b, starting at G a *)
  Theorem clipped_G a b : a <= b -> b <= n ->
    clipped s (mkspan (G a) (G b)) =
    Ok (mksource (ctext m (firstn (b - a) (skipn a us))) name m (G a)).
  Proof.
    intros Hab Hb. unfold clipped, pos_in_bounds. rewrite src_end_position_G. cbn [bind sstart send soff stext sname smet].
    assert (B : forall i, i <= n ->
              (byte off <=? byte (G i)) && (byte (G i) <=? byte (G n)) && page_leb off (G i) && page_leb (G i) (G n) = true).
    { intros i Hi. rewrite G_byte.
      destruct (Nat.leb_spec (byte off) (byte (Q i) + byte off)); [|lia].
      pose proof (G_byte_le i n Hi ltac:(lia)) as Hle. rewrite !G_byte in Hle.
      rewrite G_byte. destruct (Nat.leb_spec (byte (Q i) + byte off) (byte (Q n) + byte off)); [|lia].
      cbn [andb].
      assert (E1 : page_leb off (G i) = page_leb (Q 0) (Q i)) by (rewrite Pf_0; reflexivity).
      assert (E2 : page_leb (G i) (G n) = page_leb (Q i) (Q n)) by reflexivity.
      rewrite E1, E2, !page_leb_Q by lia. reflexivity. }
    rewrite (B a ltac:(lia)), (B b Hb). cbn [negb].
    rewrite !G_byte, !sub_chk_ok by lia. cbn [bind].
    replace (byte (Q a) + byte off - byte off) with (byte (Q a)) by lia.
    replace (byte (Q b) + byte off - byte off) with (byte (Q b)) by lia.
    rewrite (split_P m Htab us Hwf p0 Hp0 a ltac:(lia)).
    pose proof (Pf_byte_mono m p0 us) as Hm.
    assert (Hle : byte (Q a) <= byte (Q b)).
    { destruct (Nat.eq_dec a b) as [->|]; [lia|]. pose proof (Hm a b Hwf ltac:(lia) Hb). lia. }
    rewrite sub_chk_ok by exact Hle.
    rewrite (firstn_skipn_slice a b Hab Hb) at 1. rewrite ctext_app.
    assert (Eb : byte (Q b) - byte (Q a) = blen (ctext m (firstn (b - a) (skipn a us)))).
    { rewrite !Pf_byte. cbn [byte local0].
      assert (Ef : firstn b us = firstn a us ++ firstn (b - a) (skipn a us))
        by (rewrite firstn_add; f_equal; lia).
      rewrite Ef, ubytes_app. unfold ubytes. lia. }
    rewrite Eb, split_at_app; [reflexivity|].
    apply wf_units_wf_text, wf_units_firstn, wf_units_skipn, Hwf.
  Qed.
End Src.

(** The window's positions are the parent's positions. *)
Lemma gpos_window m us off a d i : i <= d ->
  gpos m (firstn d (skipn a us)) (gpos m us off a) i = gpos m us off (a + i).
Proof using.
  intros Hi.
  set (qa := Pf m (local0 off) us a).
  set (GA := gpos m us off a).
  set (x := firstn i (skipn a us)).
  assert (E1 : Pf m (local0 GA) (firstn d (skipn a us)) i = fold_left (adv m) x (local0 GA)).
  { unfold Pf. rewrite firstn_firstn, Nat.min_l by lia. fold x.
    rewrite <- (app_nil_l x) at 1. rewrite <- canon_from_fold.
    change (canon_from m (local0 GA) []) with (Pf m (local0 GA) us 0). rewrite Pf_0. reflexivity. }
  assert (E2 : Pf m (local0 off) us (a + i) = fold_left (adv m) x qa).
  { unfold Pf, qa, x. rewrite <- firstn_add, <- canon_from_fold. reflexivity. }
  assert (E3 : shiftb (byte qa) (local0 GA) = qa).
  { unfold local0, GA, gpos, shiftb. fold qa. cbn [byte line col Nat.add]. apply pos_eta. }
  change (gpos m (firstn d (skipn a us)) GA i)
    with (shiftb (byte GA) (Pf m (local0 GA) (firstn d (skipn a us)) i)).
  change (gpos m us off (a + i)) with (shiftb (byte off) (Pf m (local0 off) us (a + i))).
  rewrite E1, E2, <- E3 at 1. rewrite fold_adv_shiftb, shiftb_shiftb. reflexivity.
Qed.

(** * Lines: widening and splitting (C18; with a start offset, C20) *)

Lemma breaks_cons u l : breaks (u :: l) = (if is_lb u then 1 else 0) + breaks l.
Proof using. unfold breaks. cbn [filter]. destruct (is_lb u); reflexivity. Qed.

Lemma breaks_firstn_run l d : d <= length l -> (breaks (firstn d l) = 0 <-> d <= run_len l).
Proof using.
  revert d; induction l as [|[|c] r IH]; intros d Hd; cbn [length] in Hd.
  - replace d with 0 by lia. cbn. split; lia.
  - destruct d as [|d']; cbn [firstn run_len]; [cbn; split; lia|]. rewrite breaks_cons. cbn [is_lb]. split; lia.
  - destruct d as [|d']; cbn [firstn run_len]; [cbn; split; lia|]. rewrite breaks_cons. cbn [is_lb Nat.add].
    rewrite (IH d' ltac:(lia)). split; lia.
Qed.

Lemma breaks_firstn_S_run l : run_len l < length l -> breaks (firstn (S (run_len l)) l) = 1.
Proof using.
  induction l as [|[|c] r IH]; cbn [length run_len]; intros H; [lia| |].
  - cbn [firstn]. rewrite breaks_cons. reflexivity.
  - change (firstn (S (S (run_len r))) (UCh c :: r)) with (UCh c :: firstn (S (run_len r)) r).
    rewrite breaks_cons. cbn [is_lb Nat.add]. apply IH. lia.
Qed.

Lemma firstn_split {A} (i j : nat) (l : list A) : i <= j ->
  firstn j l = firstn i l ++ firstn (j - i) (skipn i l).
Proof using. intros H. rewrite firstn_add. f_equal. lia. Qed.

Lemma breaks_firstn_mono l i j : i <= j -> breaks (firstn i l) <= breaks (firstn j l).
Proof using. intros H. rewrite (firstn_split i j l H), breaks_app. lia. Qed.

Definition slice (us : list unit) (x y : nat) : list unit := firstn (y - x) (skipn x us).

(** the pieces [split_lines] must yield for units a..j, as index pairs *)
Fixpoint pieces (fuel : nat) (us : list unit) (a j : nat) : list (nat * nat) :=
  match fuel with
  | 0 => []
  | S f => let e := line_end_k us a in
           if j <=? e then [(a, j)] else (a, e) :: pieces f us (S e) j
  end.

Fixpoint join (sep : text) (l : list text) : text :=
  match l with
  | [] => []
  | [x] => x
  | x :: r => x ++ sep ++ join sep r
  end.

  (** every piece lies within one line and holds no line terminator *)
  Theorem pieces_within_line us f a j x y : a <= j -> j <= length us -> In (x, y) (pieces f us a j) ->
    a <= x /\ x <= y /\ y <= j /\ forall i, x <= i < y -> exists c, nth_error us i = Some (UCh c).
  Proof using.
    revert a; induction f as [|f IH]; intros a Ha Hj Hin; [contradiction|].
    cbn [pieces] in Hin.
    destruct (line_end_k_spec us a ltac:(lia)) as (S1 & S2 & S3).
    destruct (Nat.leb_spec j (line_end_k us a)) as [Hje|Hje].
    - destruct Hin as [E|[]]. inversion E; subst x y. repeat split; try lia.
      intros i Hi. apply S2. lia.
    - destruct Hin as [E|Hin].
      + inversion E; subst x y. repeat split; try lia. intros i Hi. apply S2. lia.
      + destruct (IH (S (line_end_k us a)) ltac:(lia) Hj Hin) as (I1 & I2 & I3 & I4).
        repeat split; try lia. exact I4.
  Qed.

  (** re-joining the pieces' texts with the line ending gives back the span's text *)
  Theorem pieces_join m us f a j : a <= j -> j <= length us -> j - a < f ->
    ctext m (slice us a j) =
    join (lb_text m) (map (fun xy => ctext m (slice us (fst xy) (snd xy))) (pieces f us a j)).
  Proof using.
    revert a; induction f as [|f IH]; intros a Ha Hj Hf; [lia|].
    cbn [pieces].
    destruct (line_end_k_spec us a ltac:(lia)) as (S1 & S2 & S3).
    destruct (Nat.leb_spec j (line_end_k us a)) as [Hje|Hje]; cbn [map join fst snd]; [reflexivity|].
    set (e := line_end_k us a) in *.
    assert (He : nth_error us e = Some ULb) by (apply S3; lia).
    assert (Esl : slice us a j = slice us a e ++ ULb :: slice us (S e) j).
    { unfold slice.
      rewrite (firstn_split (e - a) (j - a) (skipn a us) ltac:(lia)). f_equal.
      rewrite skipn_skipn. replace (a + (e - a)) with e by lia.
      rewrite (skipn_cons_nth e us ULb He).
      replace (j - a - (e - a)) with (S (j - S e)) by lia. reflexivity. }
    rewrite Esl, ctext_app, ctext_cons. cbn [utext].
    rewrite (IH (S e) ltac:(lia) Hj ltac:(lia)).
    destruct (pieces f us (S e) j) as [|pq rest] eqn:Ep.
    - exfalso. destruct f; [lia|]. cbn [pieces] in Ep. destruct (j <=? line_end_k us (S e)); discriminate.
    - reflexivity.
  Qed.


Lemma sl_collect_S f it :
  sl_collect (S f) it =
  (do r <- sl_next it;
   match r with
   | (None, _) => Ok []
   | (Some sp, it') => do rest <- sl_collect f it'; Ok (sp :: rest)
   end).
Proof using. reflexivity. Qed.

Lemma sl_lens_S f it :
  sl_lens (S f) it =
  (do l <- sl_len it;
   do r <- sl_next it;
   match r with
   | (None, it') => do l' <- sl_len it'; Ok [l; l']
   | (Some _, it') => do rest <- sl_lens f it'; Ok (l :: rest)
   end).
Proof using. reflexivity. Qed.

Section Lines.
  Variable m : metrics.
  Hypothesis Htab : 1 <= tabw m.
  Variable us : list unit.
  Hypothesis Hwf : wf_units m us.
  Variable off : pos.
  Variable name : option nat.
  Local Notation s := (mksource (ctext m us) name m off).
  Local Notation n := (length us).
  Local Notation G := (gpos m us off).

  Lemma G_line_breaks i : line (G i) = line off + breaks (firstn i us).
  Proof. reflexivity. Qed.

  Lemma line_eq_iff a j : a <= j -> j <= n -> (line (G a) = line (G j) <-> j <= line_end_k us a).
  Proof.
    intros Ha Hj. rewrite !G_line_breaks. unfold line_end_k.
    rewrite (firstn_split a j us Ha), breaks_app.
    pose proof (breaks_firstn_run (skipn a us) (j - a) ltac:(rewrite skipn_length; lia)) as H.
    split; intros E.
    - assert (breaks (firstn (j - a) (skipn a us)) = 0) by lia. apply H in H0. lia.
    - assert (j - a <= run_len (skipn a us)) by lia. apply H in H0. lia.
  Qed.

  Lemma line_le a j : a <= j -> line (G a) <= line (G j).
  Proof. intros H. rewrite !G_line_breaks. pose proof (breaks_firstn_mono us a j H). lia. Qed.

  Lemma line_end_ge a : a <= line_end_k us a.
  Proof. unfold line_end_k. lia. Qed.

  Theorem widen_G i j : i <= j -> j <= n ->
    widen_to_line (mkspan (G i) (G j)) s = Ok (mkspan (G (line_start_k us i)) (G (line_end_k us j))).
  Proof.
    intros Hij Hj. unfold widen_to_line, is_full, span_len, src_len. cbn [sstart send stext].
    pose proof (G_byte_le m Htab us Hwf off name i j Hij Hj) as Hle.
    rewrite sub_chk_ok by exact Hle. cbn [bind].
    pose proof (line_start_k_le us i) as Hls.
    pose proof (line_end_ge j) as Hlej.
    pose proof (line_end_k_le m Htab us Hwf (local0 off) eq_refl j Hj) as Hlen.
    destruct (Nat.eqb_spec (byte (G j) - byte (G i)) (blen (ctext m us))) as [E|E].
    - (* the span covers the whole text *)
      assert (Hn : byte (G n) = blen (ctext m us) + byte off).
      { rewrite (G_byte m Htab us Hwf off name). rewrite (Q_n_byte m Htab us Hwf (local0 off) eq_refl). reflexivity. }
      assert (H0 : byte (G 0) = byte off) by (rewrite gpos_0; reflexivity).
      pose proof (G_byte_le m Htab us Hwf off name 0 i ltac:(lia) ltac:(lia)).
      pose proof (G_byte_le m Htab us Hwf off name j n Hj ltac:(lia)).
      assert (i = 0) by (apply (G_inj m Htab us Hwf off name i 0); lia).
      assert (j = n) by (apply (G_inj m Htab us Hwf off name j n); lia).
      subst i j.
      replace (line_start_k us 0) with 0 by lia. replace (line_end_k us n) with n by lia.
      reflexivity.
    - rewrite (src_line_start_G m Htab us Hwf off name i ltac:(lia)). cbn [bind].
      rewrite (src_line_end_G m Htab us Hwf off name j Hj). cbn [bind]. f_equal.
      unfold enclosing.
      pose proof (G_byte_le m Htab us Hwf off name (line_start_k us i) (line_end_k us j) ltac:(lia) Hlen).
      destruct (Nat.ltb_spec (byte (G (line_end_k us j))) (byte (G (line_start_k us i)))); [lia|reflexivity].
  Qed.

  Definition done_pos (a : nat) : pos := mkpos (byte (G a)) (line (G a) + 1) (col (G a)).

  Lemma enclosing_G a b : a <= b -> b <= n -> enclosing (G a) (G b) = mkspan (G a) (G b).
  Proof.
    intros H1 H2. unfold enclosing. pose proof (G_byte_le m Htab us Hwf off name a b H1 H2).
    destruct (Nat.ltb_spec (byte (G b)) (byte (G a))); [lia|reflexivity].
  Qed.

  Lemma sl_next_active a j : a <= j -> j <= n ->
    sl_next (mksl s (G a) (G j)) =
    Ok (if j <=? line_end_k us a
        then (Some (mkspan (G a) (G j)), mksl s (done_pos a) (G j))
        else (Some (mkspan (G a) (G (line_end_k us a))), mksl s (G (S (line_end_k us a))) (G j))).
  Proof.
    intros Ha Hj. unfold sl_next. cbn [sl_start sl_end sl_src].
    pose proof (line_le a j Ha) as Hl.
    destruct (Nat.ltb_spec (line (G j)) (line (G a))); [lia|].
    pose proof (line_eq_iff a j Ha Hj) as Hiff.
    destruct (Nat.leb_spec j (line_end_k us a)) as [Hje|Hje].
    - assert (E : line (G a) = line (G j)) by (apply Hiff; exact Hje).
      rewrite E, Nat.eqb_refl. rewrite enclosing_G by assumption. unfold done_pos. rewrite E. reflexivity.
    - assert (E : line (G a) <> line (G j)) by (intros E; apply Hiff in E; lia).
      destruct (Nat.eqb_spec (line (G a)) (line (G j))) as [Eq|Ne]; [contradiction|].
      rewrite (src_line_end_G m Htab us Hwf off name a ltac:(lia)). cbn [bind].
      rewrite (src_next_G m Htab us Hwf off name (line_end_k us a) ltac:(lia)).
      destruct (Nat.ltb_spec (line_end_k us a) n) as [Hlt|Hge]; [|lia]. cbn [unwrap bind].
      rewrite enclosing_G by (pose proof (line_end_ge a); lia). reflexivity.
  Qed.

  Lemma sl_next_done st j : line (G j) < line st ->
    sl_next (mksl s st (G j)) = Ok (None, mksl s st (G j)).
  Proof.
    intros H. unfold sl_next. cbn [sl_start sl_end].
    destruct (Nat.ltb_spec (line (G j)) (line st)); [reflexivity|lia].
  Qed.

  Definition span_of (xy : nat * nat) : span := mkspan (G (fst xy)) (G (snd xy)).

  Theorem sl_collect_G f a j : a <= j -> j <= n -> j - a < f ->
    sl_collect (S f) (mksl s (G a) (G j)) = Ok (map span_of (pieces f us a j)).
  Proof.
    revert a; induction f as [|f IH]; intros a Ha Hj Hf; [lia|].
    rewrite sl_collect_S, (sl_next_active a j Ha Hj). cbn [pieces].
    destruct (Nat.leb_spec j (line_end_k us a)) as [Hje|Hje]; cbn [bind].
    - rewrite sl_collect_S, sl_next_done by (unfold done_pos; cbn [line]; pose proof (line_le a j Ha);
          pose proof (proj2 (line_eq_iff a j Ha Hj) Hje); lia).
      cbn [bind map span_of fst snd]. reflexivity.
    - pose proof (line_end_ge a).
      rewrite (IH (S (line_end_k us a)) ltac:(lia) Hj ltac:(lia)). reflexivity.
  Qed.

  Lemma pieces_length f a j : a <= j -> j <= n -> j - a < f ->
    length (pieces f us a j) = breaks (firstn j us) - breaks (firstn a us) + 1.
  Proof.
    revert a; induction f as [|f IH]; intros a Ha Hj Hf; [lia|].
    cbn [pieces].
    pose proof (line_eq_iff a j Ha Hj) as Hiff. rewrite !G_line_breaks in Hiff.
    destruct (Nat.leb_spec j (line_end_k us a)) as [Hje|Hje]; cbn [length].
    - apply Hiff in Hje. lia.
    - pose proof (line_end_ge a).
      rewrite (IH (S (line_end_k us a)) ltac:(lia) Hj ltac:(lia)).
      assert (E : breaks (firstn (S (line_end_k us a)) us) = breaks (firstn a us) + 1).
      { unfold line_end_k.
        rewrite (firstn_split a (S (a + run_len (skipn a us))) us ltac:(lia)), breaks_app.
        replace (S (a + run_len (skipn a us)) - a) with (S (run_len (skipn a us))) by lia.
        rewrite breaks_firstn_S_run; [reflexivity|].
        rewrite skipn_length. unfold line_end_k in Hje. lia. }
      pose proof (breaks_firstn_mono us (S (line_end_k us a)) j ltac:(lia)). lia.
  Qed.

  Lemma sl_len_active a j : a <= j -> j <= n ->
    sl_len (mksl s (G a) (G j)) = Ok (breaks (firstn j us) - breaks (firstn a us) + 1).
  Proof.
    intros Ha Hj. unfold sl_len. cbn [sl_start sl_end]. pose proof (line_le a j Ha).
    destruct (Nat.ltb_spec (line (G j)) (line (G a))); [lia|]. rewrite !G_line_breaks. f_equal. lia.
  Qed.

  Lemma sl_len_done st j : line (G j) < line st -> sl_len (mksl s st (G j)) = Ok 0.
  Proof.
    intros H. unfold sl_len. cbn [sl_start sl_end].
    destruct (Nat.ltb_spec (line (G j)) (line st)); [reflexivity|lia].
  Qed.

  (** the len() reported before every next(), and after exhaustion: L, L-1, ..., 1, 0, 0 *)
  Theorem sl_lens_G f a j : a <= j -> j <= n -> j - a < f ->
    sl_lens (S f) (mksl s (G a) (G j)) =
    Ok (rev (seq 1 (length (pieces f us a j))) ++ [0; 0]).
  Proof.
    revert a; induction f as [|f IH]; intros a Ha Hj Hf; [lia|].
    rewrite sl_lens_S, (sl_len_active a j Ha Hj). cbn [bind].
    rewrite (sl_next_active a j Ha Hj).
    rewrite <- (pieces_length (S f) a j Ha Hj Hf).
    cbn [pieces].
    destruct (Nat.leb_spec j (line_end_k us a)) as [Hje|Hje]; cbn [bind length].
    - assert (Hd : line (G j) < line (done_pos a)).
      { unfold done_pos; cbn [line]. pose proof (proj2 (line_eq_iff a j Ha Hj) Hje). lia. }
      rewrite sl_lens_S, (sl_len_done _ _ Hd). cbn [bind]. rewrite (sl_next_done _ _ Hd). cbn [bind].
      rewrite (sl_len_done _ _ Hd). reflexivity.
    - pose proof (line_end_ge a).
      rewrite (IH (S (line_end_k us a)) ltac:(lia) Hj ltac:(lia)). cbn [bind].
      set (L := length (pieces f us (S (line_end_k us a)) j)).
      rewrite seq_S, rev_app_distr. reflexivity.
  Qed.
End Lines.

(** * Readings used by the property files *)

Lemma gpos_zero m us i : gpos m us pos_zero i = Pf m pos_zero us i.
Proof using.
  unfold gpos, shiftb. change (local0 pos_zero) with pos_zero. cbn [byte pos_zero].
  rewrite Nat.add_0_r. apply pos_eta.
Qed.

Lemma gpos_cpos m t k : gpos m (units m t) pos_zero k = cpos m t k.
Proof using. apply gpos_zero. Qed.

Lemma src_new_units m t : src_new t m = mksource (ctext m (units m t)) None m pos_zero.
Proof using. unfold src_new. rewrite ctext_units. reflexivity. Qed.

Lemma nth_error_firstn_lt {A} (l : list A) k i : i < k -> nth_error (firstn k l) i = nth_error l i.
Proof using.
  revert k i; induction l as [|x l IH]; intros k i H.
  - rewrite firstn_nil. reflexivity.
  - destruct k as [|k]; [lia|]. destruct i as [|i]; [reflexivity|]. cbn [firstn nth_error]. apply IH. lia.
Qed.

Lemma lsk_spec l :
  lsk l <= length l /\ (forall i, lsk l <= i < length l -> exists c, nth_error l i = Some (UCh c))
  /\ (0 < lsk l -> nth_error l (lsk l - 1) = Some ULb).
Proof using.
  induction l as [|u l IH] using rev_ind.
  - cbn. repeat split; intros; lia.
  - destruct IH as (I1 & I2 & I3). destruct u as [|c].
    + rewrite lsk_snoc_lb, app_length. cbn [length]. split; [lia|split].
      * intros i Hi. lia.
      * intros _. replace (length l + 1 - 1) with (length l) by lia.
        rewrite nth_error_app2, Nat.sub_diag by lia. reflexivity.
    + rewrite lsk_snoc_ch, app_length. cbn [length]. split; [lia|split].
      * intros i Hi. destruct (Nat.eq_dec i (length l)) as [->|Hne].
        -- exists c. rewrite nth_error_app2, Nat.sub_diag by lia. reflexivity.
        -- rewrite nth_error_app1 by lia. apply I2. lia.
      * intros Hp. rewrite nth_error_app1 by lia. apply I3, Hp.
Qed.

(** the line start is the nearest position at or before k that is the start of the text or
    follows a line ending; everything between it and k is ordinary characters *)
Lemma line_start_k_spec us k : k <= length us ->
  let b := line_start_k us k in
  b <= k /\ (forall i, b <= i < k -> exists c, nth_error us i = Some (UCh c))
  /\ (0 < b -> nth_error us (b - 1) = Some ULb).
Proof using.
  intros Hk. unfold line_start_k. destruct (lsk_spec (firstn k us)) as (I1 & I2 & I3).
  rewrite firstn_length, Nat.min_l in * by lia. cbn zeta. split; [lia|split].
  - intros i Hi. destruct (I2 i Hi) as (c & Hc). exists c. rewrite nth_error_firstn_lt in Hc by lia. exact Hc.
  - intros Hp. specialize (I3 Hp). rewrite nth_error_firstn_lt in I3 by lia. exact I3.
Qed.

(** * A window's line bounds are the parent's, clamped *)

Lemma run_len_firstn l d : run_len (firstn d l) = Nat.min d (run_len l).
Proof using.
  revert d; induction l as [|[|c] r IH]; intros d.
  - rewrite firstn_nil. cbn. lia.
  - destruct d; cbn; lia.
  - destruct d as [|d]; [reflexivity|]. cbn [firstn run_len]. rewrite IH. lia.
Qed.

Lemma line_end_k_window us a d i : i <= d -> a + d <= length us ->
  a + line_end_k (firstn d (skipn a us)) i = Nat.min (line_end_k us (a + i)) (a + d).
Proof using.
  intros Hi Hd. unfold line_end_k.
  rewrite skipn_firstn_comm, run_len_firstn, skipn_skipn. lia.
Qed.

Lemma run_len_app x y :
  run_len (x ++ y) = if run_len x =? length x then length x + run_len y else run_len x.
Proof using.
  induction x as [|[|c] x IH]; cbn [app run_len length]; [reflexivity|reflexivity|].
  rewrite IH. destruct (Nat.eqb_spec (run_len x) (length x)) as [E|E].
  - destruct (Nat.eqb_spec (S (run_len x)) (S (length x))); lia.
  - destruct (Nat.eqb_spec (S (run_len x)) (S (length x))); [lia|reflexivity].
Qed.

Lemma run_len_rev_app l1 l2 :
  run_len (rev (l1 ++ l2)) = if run_len (rev l2) =? length l2 then length l2 + run_len (rev l1) else run_len (rev l2).
Proof using. rewrite rev_app_distr, run_len_app, rev_length. reflexivity. Qed.

Lemma run_len_le l : run_len l <= length l.
Proof using. induction l as [|[|c] l IH]; cbn; lia. Qed.

Lemma line_start_k_window us a d i : i <= d -> a + d <= length us ->
  a + line_start_k (firstn d (skipn a us)) i = Nat.max (line_start_k us (a + i)) a.
Proof using.
  intros Hi Hd. unfold line_start_k, lsk.
  rewrite firstn_firstn, Nat.min_l by lia.
  rewrite (firstn_split a (a + i) us ltac:(lia)). replace (a + i - a) with i by lia.
  rewrite run_len_rev_app, app_length, !firstn_length, skipn_length.
  rewrite !Nat.min_l by lia.
  pose proof (run_len_le (rev (firstn i (skipn a us)))) as H1. rewrite rev_length, firstn_length, skipn_length, Nat.min_l in H1 by lia.
  pose proof (run_len_le (rev (firstn a us))) as H2. rewrite rev_length, firstn_length, Nat.min_l in H2 by lia.
  destruct (Nat.eqb_spec (run_len (rev (firstn i (skipn a us)))) i); lia.
Qed.
