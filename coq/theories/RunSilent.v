(** C08, the converse: a run WITH an error sink that reported nothing is, step for step, the run
    WITHOUT a sink - same verdict, value, returned lexer and store - for every grammar, lexer,
    store and fuel (no restriction to committed positions). Together: what the sink has received
    only ever grows; a run that ends with the log it started with never called the sink. *)
From Tephra Require Import CLexer Run RunScope RunSink.

(** the sink's log only grows *)
Definition ext (st st' : store) : Prop := exists more, log st' = log st ++ more.

Lemma ext_refl st : ext st st.
Proof. exists []. rewrite app_nil_r. reflexivity. Qed.

Lemma ext_trans a b c : ext a b -> ext b c -> ext a c.
Proof. intros [m1 E1] [m2 E2]. exists (m1 ++ m2). rewrite E2, E1, app_assoc. reflexivity. Qed.

Lemma ext_same_log a b : log a = log b -> ext a b.
Proof. intros E. exists []. rewrite app_nil_r. symmetry. exact E. Qed.

(** squeezed between equal logs *)
Lemma ext_squeeze a b c : ext a b -> ext b c -> log c = log a -> log b = log a.
Proof.
  intros [m1 E1] [m2 E2] E. rewrite E2, E1 in E.
  assert (H : length ((log a ++ m1) ++ m2) = length (log a)) by (rewrite E; reflexivity).
  rewrite !app_length in H. destruct m1; [rewrite E1, app_nil_r; reflexivity|cbn in H; lia].
Qed.

Lemma ext_grew a b e c : ext a b -> ext (st_log b (log b ++ [e])) c -> log c <> log a.
Proof.
  intros [m1 E1] [m2 E2] E. cbn [st_log log] in E2. rewrite E2, E1 in E.
  assert (H : length (((log a ++ m1) ++ [e]) ++ m2) = length (log a)) by (rewrite E; reflexivity).
  rewrite !app_length in H. cbn in H. lia.
Qed.

(** [r1]: a run under a context that may have a sink; [r0]: the same run under the sink-less
    context. [r1] only extends the log, and if it ends with the log it started with, [r0] is [r1]. *)
Definition rel (st : store) (r1 r0 : R) : Prop :=
  ext st (snd r1) /\ (log (snd r1) = log st -> r0 = r1).

Lemma rel_same st r : ext st (snd r) -> rel st r r.
Proof. intros H. split; [exact H|reflexivity]. Qed.

Lemma rel_pure st o : rel st (o, st) (o, st).
Proof. apply rel_same. apply ext_refl. Qed.

(** sequencing through any continuation of the result *)
Definition rbind (r : R) (K : val -> clexer -> store -> R) (E : err -> store -> R) : R :=
  match r with
  | (ROk v l, s) => K v l s
  | (RErr e, s) => E e s
  | (RPanic, s) => (RPanic, s)
  | (RFuel, s) => (RFuel, s)
  end.

Lemma rel_rbind st r1 r0 K1 K0 E1 E0 : rel st r1 r0 ->
  (forall v l s, rel s (K1 v l s) (K0 v l s)) -> (forall e s, rel s (E1 e s) (E0 e s)) ->
  rel st (rbind r1 K1 E1) (rbind r0 K0 E0).
Proof.
  intros [Hx Hs] HK HE. destruct r1 as [[v l|e| |] s1]; cbn [rbind snd] in *.
  - destruct (HK v l s1) as [Kx Ks]. split; [exact (ext_trans _ _ _ Hx Kx)|].
    intros Elog. pose proof (ext_squeeze _ _ _ Hx Kx Elog) as E1s. rewrite (Hs E1s). cbn [rbind]. apply Ks. congruence.
  - destruct (HE e s1) as [Kx Ks]. split; [exact (ext_trans _ _ _ Hx Kx)|].
    intros Elog. pose proof (ext_squeeze _ _ _ Hx Kx Elog) as E1s. rewrite (Hs E1s). cbn [rbind]. apply Ks. congruence.
  - split; [exact Hx|]. intros Elog. rewrite (Hs Elog). reflexivity.
  - split; [exact Hx|]. intros Elog. rewrite (Hs Elog). reflexivity.
Qed.

Lemma on_ok_rbind r k : on_ok r k = rbind r k (fun e s => (RErr e, s)).
Proof. destruct r as [[v l|e| |] s]; reflexivity. Qed.

Lemma rel_on_ok st r1 r0 k1 k0 : rel st r1 r0 -> (forall v l s, rel s (k1 v l s) (k0 v l s)) ->
  rel st (on_ok r1 k1) (on_ok r0 k0).
Proof. intros Hr Hk. rewrite !on_ok_rbind. apply rel_rbind; [exact Hr|exact Hk|]. intros e s. apply rel_pure. Qed.

Lemma rel_map_val st f r1 r0 : rel st r1 r0 -> rel st (map_val f r1) (map_val f r0).
Proof.
  intros [Hx Hs]. split; [destruct r1 as [[v l|e| |] s]; exact Hx|].
  intros E. assert (E' : log (snd r1) = log st) by (destruct r1 as [[v l|e| |] s]; exact E). rewrite (Hs E'). reflexivity.
Qed.

Lemma rel_lift {A} st (x : res A) k1 k0 : (forall a, rel st (k1 a) (k0 a)) -> rel st (lift x st k1) (lift x st k0).
Proof. intros H. destruct x as [a| |]; cbn [lift]; [apply H|apply rel_pure|apply rel_pure]. Qed.

(** the recovery scan never touches the log *)
Lemma recover_loop_log r : forall fuel lx st, log (snd (recover_loop fuel r lx st)) = log st.
Proof.
  induction fuel as [|fu IH]; intros lx st; cbn [recover_loop]; [reflexivity|].
  destruct (c_peek lx) as [[[tk|] l1]| |]; try reflexivity.
  assert (Hrc : log (fst (rec_call st r tk)) = log st).
  { unfold rec_call. destruct (snd r); [reflexivity|]. destruct (is_found st (fst r)); [reflexivity|]. destruct (in_kinds ks tk); reflexivity. }
  destruct (rec_call st r tk) as [st1 b]. cbn [fst] in Hrc. destruct b; [exact Hrc|].
  destruct (c_next l1) as [[o l2]| |]; try exact Hrc. rewrite IH. exact Hrc.
Qed.

Lemma advance_to_recover_log lx st : log (snd (advance_to_recover lx st)) = log st.
Proof. unfold advance_to_recover. destruct (c_rec lx); [apply recover_loop_log|reflexivity]. Qed.

(** * The loops *)

Lemma rel_mand : forall n lo stop1 stop0 step1 step0 vals cur st k1 k0,
  (forall l s, rel s (step1 l s) (step0 l s)) ->
  (match stop1, stop0 with
   | Some s1, Some s0 => forall l s, rel s (s1 l s) (s0 l s)
   | None, None => True
   | _, _ => False
   end) ->
  (forall vs l s, rel s (k1 vs l s) (k0 vs l s)) ->
  rel st (mand_loop n lo stop1 step1 vals cur st k1) (mand_loop n lo stop0 step0 vals cur st k0).
Proof.
  induction n as [|n IH]; intros lo stop1 stop0 step1 step0 vals cur st k1 k0 Hstep Hstop Hk; cbn [mand_loop]; [apply rel_pure|].
  destruct (length vals <? lo); [|apply Hk].
  assert (Hgo : forall s0, rel s0
            match step1 cur s0 with
            | (ROk v lx', st') => mand_loop n lo stop1 step1 (vals ++ [v]) lx' st' k1
            | r => r
            end
            match step0 cur s0 with
            | (ROk v lx', st') => mand_loop n lo stop0 step0 (vals ++ [v]) lx' st' k0
            | r => r
            end).
  { intros s0.
    change (rel s0 (rbind (step1 cur s0) (fun v lx' st' => mand_loop n lo stop1 step1 (vals ++ [v]) lx' st' k1) (fun e s => (RErr e, s)))
                   (rbind (step0 cur s0) (fun v lx' st' => mand_loop n lo stop0 step0 (vals ++ [v]) lx' st' k0) (fun e s => (RErr e, s)))).
    apply rel_rbind; [apply Hstep| |intros e s; apply rel_pure]. intros v l s. apply IH; assumption. }
  destruct stop1 as [s1|], stop0 as [s0|]; try contradiction; [|apply Hgo].
  change (rel st (rbind (s1 cur st) (fun _ _ st' => (ROk (VList vals) cur, st'))
                    (fun _ st' => match step1 cur st' with
                                  | (ROk v lx', st'') => mand_loop n lo (Some s1) step1 (vals ++ [v]) lx' st'' k1
                                  | r => r end))
                 (rbind (s0 cur st) (fun _ _ st' => (ROk (VList vals) cur, st'))
                    (fun _ st' => match step0 cur st' with
                                  | (ROk v lx', st'') => mand_loop n lo (Some s0) step0 (vals ++ [v]) lx' st'' k0
                                  | r => r end))).
  apply rel_rbind; [apply Hstop|intros v l s; apply rel_pure|intros e s; apply Hgo].
Qed.

Lemma rel_opt : forall n hi stop1 stop0 step1 step0 vals cur st,
  (forall l s, rel s (step1 l s) (step0 l s)) ->
  (match stop1, stop0 with
   | Some s1, Some s0 => forall l s, rel s (s1 l s) (s0 l s)
   | None, None => True
   | _, _ => False
   end) ->
  rel st (opt_loop n hi stop1 step1 vals cur st) (opt_loop n hi stop0 step0 vals cur st).
Proof.
  induction n as [|n IH]; intros hi stop1 stop0 step1 step0 vals cur st Hstep Hstop; cbn [opt_loop]; [apply rel_pure|].
  destruct (lt_opt (length vals) hi); [|apply rel_pure].
  assert (Hgo : forall s0, rel s0
            match step1 cur s0 with
            | (ROk v lx', st') =>
              let vals' := vals ++ [v] in
              if ge_opt (length vals') hi then (ROk (VList vals') lx', st') else opt_loop n hi stop1 step1 vals' lx' st'
            | (RErr _, st') => (ROk (VList vals) cur, st')
            | r => r
            end
            match step0 cur s0 with
            | (ROk v lx', st') =>
              let vals' := vals ++ [v] in
              if ge_opt (length vals') hi then (ROk (VList vals') lx', st') else opt_loop n hi stop0 step0 vals' lx' st'
            | (RErr _, st') => (ROk (VList vals) cur, st')
            | r => r
            end).
  { intros s0.
    change (rel s0 (rbind (step1 cur s0)
                      (fun v lx' st' => if ge_opt (length (vals ++ [v])) hi then (ROk (VList (vals ++ [v])) lx', st') else opt_loop n hi stop1 step1 (vals ++ [v]) lx' st')
                      (fun _ st' => (ROk (VList vals) cur, st')))
                   (rbind (step0 cur s0)
                      (fun v lx' st' => if ge_opt (length (vals ++ [v])) hi then (ROk (VList (vals ++ [v])) lx', st') else opt_loop n hi stop0 step0 (vals ++ [v]) lx' st')
                      (fun _ st' => (ROk (VList vals) cur, st')))).
    apply rel_rbind; [apply Hstep| |intros e s; apply rel_pure].
    intros v l s. destruct (ge_opt _ hi); [apply rel_pure|apply IH; assumption]. }
  destruct stop1 as [s1|], stop0 as [s0|]; try contradiction; [|apply Hgo].
  change (rel st (rbind (s1 cur st) (fun _ _ st' => (ROk (VList vals) cur, st'))
                    (fun _ st' => match step1 cur st' with
                                  | (ROk v lx', st'') =>
                                    let vals' := vals ++ [v] in
                                    if ge_opt (length vals') hi then (ROk (VList vals') lx', st'') else opt_loop n hi (Some s1) step1 vals' lx' st''
                                  | (RErr _, st'') => (ROk (VList vals) cur, st'')
                                  | r => r end))
                 (rbind (s0 cur st) (fun _ _ st' => (ROk (VList vals) cur, st'))
                    (fun _ st' => match step0 cur st' with
                                  | (ROk v lx', st'') =>
                                    let vals' := vals ++ [v] in
                                    if ge_opt (length vals') hi then (ROk (VList vals') lx', st'') else opt_loop n hi (Some s0) step0 vals' lx' st''
                                  | (RErr _, st'') => (ROk (VList vals) cur, st'')
                                  | r => r end))).
  apply rel_rbind; [apply Hstop|intros v l s; apply rel_pure|intros e s; apply Hgo].
Qed.

Lemma rel_right_of runf a s c1 c0 :
  (forall l st, rel st (runf a l c1 st) (runf a l c0 st)) -> (forall l st, rel st (runf s l c1 st) (runf s l c0 st)) ->
  forall l st, rel st (right_of runf s a c1 l st) (right_of runf s a c0 l st).
Proof. intros Ha Hs l st. unfold right_of. apply rel_on_ok; [apply Hs|]. intros v l' s'. apply Ha. Qed.

Lemma rel_intersperse runf n lo hi a s lx c1 c0 st :
  (forall l st0, rel st0 (runf a l c1 st0) (runf a l c0 st0)) -> (forall l st0, rel st0 (runf s l c1 st0) (runf s l c0 st0)) ->
  rel st (run_intersperse runf n lo hi a s lx c1 st) (run_intersperse runf n lo hi a s lx c0 st).
Proof.
  intros Ha Hs. unfold run_intersperse. destruct (hi_check lo hi lx st) as [r|] eqn:Eh.
  - apply rel_same. unfold hi_check in Eh. destruct hi as [h|]; [|discriminate].
    destruct (h <? lo); [injection Eh as <-; apply ext_refl|]. destruct (h =? 0); [injection Eh as <-; apply ext_refl|discriminate].
  - pose proof (rel_right_of runf a s c1 c0 Ha Hs) as Hstep.
    change (rel st (rbind (runf a lx c1 st)
                      (fun v lx1 st1 => mand_loop n lo None (right_of runf s a c1) [v] lx1 st1 (fun vals cur st2 => opt_loop n hi None (right_of runf s a c1) vals cur st2))
                      (fun e st1 => if lo =? 0 then (ROk (VList []) lx, st1) else (RErr e, st1)))
                   (rbind (runf a lx c0 st)
                      (fun v lx1 st1 => mand_loop n lo None (right_of runf s a c0) [v] lx1 st1 (fun vals cur st2 => opt_loop n hi None (right_of runf s a c0) vals cur st2))
                      (fun e st1 => if lo =? 0 then (ROk (VList []) lx, st1) else (RErr e, st1)))).
    apply rel_rbind; [apply Ha| |intros e s0; destruct (lo =? 0); apply rel_pure].
    intros v l s0. apply rel_mand; [exact Hstep|exact I|]. intros vs l' s'. apply rel_opt; [exact Hstep|exact I].
Qed.

Lemma rel_intersperse_until runf n lo hi sg a s lx c1 c0 st :
  (forall l st0, rel st0 (runf sg l c1 st0) (runf sg l c0 st0)) ->
  (forall l st0, rel st0 (runf a l c1 st0) (runf a l c0 st0)) -> (forall l st0, rel st0 (runf s l c1 st0) (runf s l c0 st0)) ->
  rel st (run_intersperse_until runf n lo hi sg a s lx c1 st) (run_intersperse_until runf n lo hi sg a s lx c0 st).
Proof.
  intros Hg Ha Hs. unfold run_intersperse_until. destruct (hi_check lo hi lx st) as [r|] eqn:Eh.
  - apply rel_same. unfold hi_check in Eh. destruct hi as [h|]; [|discriminate].
    destruct (h <? lo); [injection Eh as <-; apply ext_refl|]. destruct (h =? 0); [injection Eh as <-; apply ext_refl|discriminate].
  - pose proof (rel_right_of runf a s c1 c0 Ha Hs) as Hstep.
    change (rel st (rbind (runf sg lx c1 st) (fun _ _ st0 => (ROk (VList []) lx, st0))
                      (fun _ st0 =>
                         match runf a lx c1 st0 with
                         | (ROk v lx1, st1) =>
                           mand_loop n lo (Some (fun l st => runf sg l c1 st)) (right_of runf s a c1) [v] lx1 st1
                             (fun vals cur st2 => opt_loop n hi (Some (fun l st => runf sg l c1 st)) (right_of runf s a c1) vals cur st2)
                         | (RErr e, st1) => if lo =? 0 then (ROk (VList []) lx, st1) else (RErr e, st1)
                         | r => r
                         end))
                   (rbind (runf sg lx c0 st) (fun _ _ st0 => (ROk (VList []) lx, st0))
                      (fun _ st0 =>
                         match runf a lx c0 st0 with
                         | (ROk v lx1, st1) =>
                           mand_loop n lo (Some (fun l st => runf sg l c0 st)) (right_of runf s a c0) [v] lx1 st1
                             (fun vals cur st2 => opt_loop n hi (Some (fun l st => runf sg l c0 st)) (right_of runf s a c0) vals cur st2)
                         | (RErr e, st1) => if lo =? 0 then (ROk (VList []) lx, st1) else (RErr e, st1)
                         | r => r
                         end))).
    apply rel_rbind; [apply Hg|intros v l s0; apply rel_pure|]. intros e0 s0.
    change (rel s0 (rbind (runf a lx c1 s0)
                      (fun v lx1 st1 => mand_loop n lo (Some (fun l st => runf sg l c1 st)) (right_of runf s a c1) [v] lx1 st1
                             (fun vals cur st2 => opt_loop n hi (Some (fun l st => runf sg l c1 st)) (right_of runf s a c1) vals cur st2))
                      (fun e st1 => if lo =? 0 then (ROk (VList []) lx, st1) else (RErr e, st1)))
                   (rbind (runf a lx c0 s0)
                      (fun v lx1 st1 => mand_loop n lo (Some (fun l st => runf sg l c0 st)) (right_of runf s a c0) [v] lx1 st1
                             (fun vals cur st2 => opt_loop n hi (Some (fun l st => runf sg l c0 st)) (right_of runf s a c0) vals cur st2))
                      (fun e st1 => if lo =? 0 then (ROk (VList []) lx, st1) else (RErr e, st1)))).
    apply rel_rbind; [apply Ha| |intros e s1; destruct (lo =? 0); apply rel_pure].
    intros v l s1. apply rel_mand; [exact Hstep|exact Hg|]. intros vs l' s'. apply rel_opt; [exact Hstep|exact Hg].
Qed.

Lemma rel_count_of st r1 r0 : rel st r1 r0 -> rel st (count_of r1) (count_of r0).
Proof. unfold count_of. apply rel_map_val. Qed.

(** any further processing of the result that only extends the log *)
Lemma rel_apply st (F : R -> R) r1 r0 : (forall r, ext (snd r) (snd (F r))) -> rel st r1 r0 -> rel st (F r1) (F r0).
Proof.
  intros HF [Hx Hs]. split; [exact (ext_trans _ _ _ Hx (HF r1))|].
  intros E. rewrite (Hs (ext_squeeze _ _ _ Hx (HF r1) E)). reflexivity.
Qed.

(** stabilize: the retries run without a sink in both runs; they only extend the log *)
Lemma stab_ext runf a c : (forall l c' st, ext st (snd (runf a l c' st))) ->
  forall n att lx res, ext (snd res) (snd (stab_loop runf n att a c lx res)).
Proof.
  intros Hx. induction n as [|n IH]; intros att lx res; cbn [stab_loop]; [apply ext_refl|].
  destruct res as [[v l|e| |] s1]; cbn [snd]; try apply ext_refl.
  destruct (c_rec lx); [|apply ext_refl].
  pose proof (advance_to_recover_log lx s1) as Hl.
  destruct (advance_to_recover lx s1) as [[[b lx1]| |] st1]; cbn [snd] in Hl; try (apply ext_same_log; symmetry; exact Hl).
  destruct b; [|apply ext_same_log; symmetry; exact Hl].
  destruct (_ && _); [apply ext_same_log; symmetry; exact Hl|].
  apply (ext_trans _ st1); [apply ext_same_log; symmetry; exact Hl|].
  apply (ext_trans _ (snd (runf a lx1 (ctx_unrec c) st1))); [apply Hx|apply IH].
Qed.

Lemma rel_stab runf a c1 c0 n att lx st res1 res0 : crel c1 c0 ->
  (forall l c' st0, ext st0 (snd (runf a l c' st0))) -> rel st res1 res0 ->
  rel st (stab_loop runf n att a c1 lx res1) (stab_loop runf n att a c0 lx res0).
Proof.
  intros Hc Hx Hr. rewrite (stab_loop_crel runf n att a c1 c0 lx res1 Hc).
  apply (rel_apply st (fun r => stab_loop runf n att a c0 lx r)); [|exact Hr].
  intros r. apply stab_ext. exact Hx.
Qed.

(** the general form: any processing [F] of an intermediate result *)
Lemma rel_fun st (F1 F0 : R -> R) r1 r0 : rel st r1 r0 -> (forall r, rel (snd r) (F1 r) (F0 r)) -> rel st (F1 r1) (F0 r0).
Proof.
  intros [Hx Hs] HF. destruct (HF r1) as [Fx Fs]. split; [exact (ext_trans _ _ _ Hx Fx)|].
  intros E. pose proof (ext_squeeze _ _ _ Hx Fx E) as E1. rewrite (Hs E1). apply Fs. congruence.
Qed.

Ltac rel_on r1 r0 :=
  match goal with |- rel ?st ?A ?B =>
    let PA := eval pattern r1 in A in
    let PB := eval pattern r0 in B in
    match PA with ?F1 _ => match PB with ?F0 _ =>
      change (rel st (F1 r1) (F0 r0)); apply (rel_fun st F1 F0 r1 r0) end end
  end.

(** results that do not involve the context and leave the store alone *)
Ltac leaf :=
  apply rel_same;
  repeat match goal with
         | |- ext _ (snd (lift ?x _ _)) => destruct x as [[? ?]| |]; cbn [lift]
         | |- ext _ (snd (match ?x with _ => _ end)) => destruct x
         | |- ext _ (snd (if ?b then _ else _)) => destruct b
         end;
  apply ext_refl.

Lemma ext_seq_fix es st : forall ks acc l,
  ext st (snd
    ((fix go (ks : list kind) (acc : list val) (l : clexer) : R :=
        match ks with
        | [] => (ROk (VList acc) l, st)
        | k :: r =>
          lift (c_next l) st (fun '(o, l') =>
          match o with
          | Some t => if tok_eqb t (tk0 k) then go r (acc ++ [VTok t]) l'
                      else (RErr (EUnexpected es (c_token_span l') (ExTok (tk0 k)) (Some t)), st)
          | None => (RErr (EUnexpected es (c_token_span l') (ExTok (tk0 k)) None), st)
          end)
        end) ks acc l)).
Proof.
  induction ks as [|k r IHk]; intros acc l; [apply ext_refl|].
  destruct (c_next l) as [[o l']| |]; cbn [lift]; try apply ext_refl.
  destruct o as [t|]; [destruct (tok_eqb t (tk0 k)); [apply IHk|apply ext_refl]|apply ext_refl].
Qed.

Lemma ext_seqcount_fix es st : forall ks cnt l,
  ext st (snd
    ((fix go (ks : list kind) (cnt : nat) (l : clexer) : R :=
        match ks with
        | [] => (ROk (VNat cnt) l, st)
        | k :: r =>
          if c_at_end l then (ROk (VNat cnt) l, st)
          else
            lift (c_peek l) st (fun '(o, l') =>
            match o with
            | Some t => if tok_eqb t (tk0 k)
                        then lift (c_next l') st (fun '(_, l'') => go r (S cnt) l'')
                        else (ROk (VNat cnt) l', st)
            | None =>
              lift (only_filtered_remain l') st (fun b =>
              if b then (ROk (VNat cnt) l', st) else (RErr (EUnrecognized es), st))
            end)
        end) ks cnt l)).
Proof.
  induction ks as [|k r IHk]; intros cnt l; [apply ext_refl|].
  destruct (c_at_end l); [apply ext_refl|].
  destruct (c_peek l) as [[o l']| |]; cbn [lift]; try apply ext_refl.
  destruct o as [t|].
  - destruct (tok_eqb t (tk0 k)); [|apply ext_refl]. destruct (c_next l') as [[o2 l2]| |]; cbn [lift]; try apply ext_refl. apply IHk.
  - destruct (only_filtered_remain l') as [b| |]; cbn [lift]; try apply ext_refl. destruct b; apply ext_refl.
Qed.

Section Silent.
  Variable f : nat.
  (** the induction hypothesis: at the next lower fuel, for every pair of contexts that differ at
      most in the sink, the second without one *)
  Hypothesis IH : forall g lx d1 d0 st, crel d1 d0 -> has_sink d0 = false -> rel st (run f g lx d1 st) (run f g lx d0 st).

  Lemma IH_ext g lx c st : ext st (snd (run f g lx c st)).
  Proof using IH.
    (* a context and its sink-less version *)
    destruct (IH g lx c (mkctx false (trail c) (locked c)) st) as [H _]; [split; reflexivity|reflexivity|exact H].
  Qed.

  Lemma rel_list_loop c1 c0 : crel c1 c0 -> has_sink c0 = false ->
    forall n hi ab dflt item probe sepp vals lx st k1 k0,
    (forall vs l s, rel s (k1 vs l s) (k0 vs l s)) ->
    rel st (list_loop (run f) n hi ab dflt item probe sepp c1 vals lx st k1)
           (list_loop (run f) n hi ab dflt item probe sepp c0 vals lx st k0).
  Proof using IH.
    intros Hc Hs. induction n as [|n IHn]; intros hi ab dflt item probe sepp vals lx st k1 k0 Hk; cbn [list_loop]; [apply rel_pure|].
    apply rel_lift. intros [o lx0].
    destruct o as [t|]; [|apply Hk].
    destruct (in_kinds ab t).
    - destruct vals as [|v0 vr]; [apply Hk|].
      rel_on (run f probe lx0 c1 st) (run f probe lx0 c0 st); [apply IH; assumption|].
      intros [[pv pl|pe| |] s]; cbn [snd]; try apply rel_pure. destruct pv; apply Hk.
    - rel_on (run f item lx0 c1 st) (run f item lx0 c0 st); [apply IH; assumption|].
      intros [[v lx1|e| |] s]; cbn [snd]; try apply rel_pure.
      + cbn zeta. destruct (ge_opt _ hi); [apply Hk|].
        apply rel_lift. intros [o2 lx2]. destruct o2 as [t2|]; [|apply Hk].
        destruct (in_kinds ab t2); [apply Hk|]. destruct (c_at_end lx2); [apply Hk|].
        rel_on (run f sepp lx2 c1 s) (run f sepp lx2 c0 s); [apply IH; assumption|].
        intros [[v3 lx3|e3| |] s3]; cbn [snd]; try apply rel_pure.
        apply rel_lift. intros lx4. apply IHn. exact Hk.
      + destruct e; try apply rel_pure. apply rel_lift. intros [b lx1]. apply Hk.
  Qed.

  Theorem rel_step : forall g lx c1 c0 st, crel c1 c0 -> has_sink c0 = false ->
    rel st (run (S f) g lx c1 st) (run (S f) g lx c0 st).
  Proof using IH.
    intros g lx c1 c0 st Hc Hs.
    assert (Hunrec : ctx_unrec c1 = ctx_unrec c0) by (apply crel_unrec; exact Hc).
    (* recover_with *)
    assert (Hrw : forall dflt r (body : clexer -> ctx -> store -> R), rel st (body lx c1 st) (body lx c0 st) ->
              rel st
                match body lx c1 st with
                | (RErr e, st1) =>
                  match send_error c1 e (log st1) with
                  | (_, Some e') => (RErr e', st1)
                  | (l, None) =>
                    match advance_to_recover (set_rec lx (Some r)) (st_log st1 l) with
                    | (Ok (true, lx'), st3) => (ROk dflt lx', st3)
                    | (Ok (false, _), st3) => (RErr ERecover, st3)
                    | (Panic, st3) => (RPanic, st3)
                    | (Fuel, st3) => (RFuel, st3)
                    end
                  end
                | r0 => r0
                end
                match body lx c0 st with
                | (RErr e, st1) =>
                  match send_error c0 e (log st1) with
                  | (_, Some e') => (RErr e', st1)
                  | (l, None) =>
                    match advance_to_recover (set_rec lx (Some r)) (st_log st1 l) with
                    | (Ok (true, lx'), st3) => (ROk dflt lx', st3)
                    | (Ok (false, _), st3) => (RErr ERecover, st3)
                    | (Panic, st3) => (RPanic, st3)
                    | (Fuel, st3) => (RFuel, st3)
                    end
                  end
                | r0 => r0
                end).
    { intros dflt r body Hb. rel_on (body lx c1 st) (body lx c0 st); [exact Hb|].
      intros [[v l|e| |] s1]; cbn [snd]; try apply rel_pure.
      unfold send_error. rewrite Hs. destruct (has_sink c1); [|apply rel_pure].
      (* the sink received the error: the log grew, the rest does not touch it *)
      pose proof (advance_to_recover_log (set_rec lx (Some r)) (st_log s1 (log s1 ++ [apply_trail (trail c1) e]))) as Hl.
      cbn [st_log log] in Hl.
      match goal with |- rel _ ?X _ => assert (HX : log (snd X) = log s1 ++ [apply_trail (trail c1) e]) end.
      { destruct (advance_to_recover (set_rec lx (Some r)) (st_log s1 (log s1 ++ [apply_trail (trail c1) e]))) as [[[b lx']| |] st3];
          cbn [snd] in Hl |- *; try exact Hl. destruct b; exact Hl. }
      split; [exists [apply_trail (trail c1) e]; exact HX|].
      intros E. exfalso. rewrite HX in E.
      assert (Hlen : length (log s1 ++ [apply_trail (trail c1) e]) = length (log s1)) by (rewrite E; reflexivity).
      rewrite app_length in Hlen. cbn in Hlen. lia. }
    (* bracket *)
    assert (Hbw : forall os a cs ab okv dfl,
              rel st
                (if (match os with [] => true | _ => false end) || (match cs with [] => true | _ => false end)
                    || negb (length os =? length cs) || negb (disjoint_kinds os cs)
                 then (RPanic, st)
                 else
                   match match_nested_brackets lx os cs ab with
                   | BPanic => (RPanic, st) | BFuel => (RFuel, st)
                   | BErr e => (RErr e, st)
                   | BM o cl idx =>
                     lift (c_next o) st (fun '(_, o1) =>
                     lift (c_start_sublex o1) st (fun inner =>
                     lift (c_next cl) st (fun '(_, cl1) =>
                     match run f a inner c1 st with
                     | (ROk v _, st1) => (ROk (okv v idx) cl1, st1)
                     | (RErr e, st1) =>
                       match send_error c1 e (log st1) with
                       | (_, Some e') => (RErr e', st1)
                       | (l, None) => (ROk (dfl idx) cl1, st_log st1 l)
                       end
                     | r => r
                     end)))
                   end)
                (if (match os with [] => true | _ => false end) || (match cs with [] => true | _ => false end)
                    || negb (length os =? length cs) || negb (disjoint_kinds os cs)
                 then (RPanic, st)
                 else
                   match match_nested_brackets lx os cs ab with
                   | BPanic => (RPanic, st) | BFuel => (RFuel, st)
                   | BErr e => (RErr e, st)
                   | BM o cl idx =>
                     lift (c_next o) st (fun '(_, o1) =>
                     lift (c_start_sublex o1) st (fun inner =>
                     lift (c_next cl) st (fun '(_, cl1) =>
                     match run f a inner c0 st with
                     | (ROk v _, st1) => (ROk (okv v idx) cl1, st1)
                     | (RErr e, st1) =>
                       match send_error c0 e (log st1) with
                       | (_, Some e') => (RErr e', st1)
                       | (l, None) => (ROk (dfl idx) cl1, st_log st1 l)
                       end
                     | r => r
                     end)))
                   end)).
    { intros os a cs ab okv dfl. destruct (_ || _ || _ || _); [apply rel_pure|].
      destruct (match_nested_brackets lx os cs ab) as [o cl idx|e| |]; try apply rel_pure.
      apply rel_lift. intros [x o1]. apply rel_lift. intros inner. apply rel_lift. intros [y cl1].
      rel_on (run f a inner c1 st) (run f a inner c0 st); [apply IH; assumption|].
      intros [[v l|e| |] s1]; cbn [snd]; try apply rel_pure.
      unfold send_error. rewrite Hs. destruct (has_sink c1); [|apply rel_pure].
      split; [exists [apply_trail (trail c1) e]; reflexivity|].
      cbn [snd st_log log]. intros E. exfalso.
      assert (Hlen : length (log s1 ++ [apply_trail (trail c1) e]) = length (log s1)) by (rewrite E; reflexivity).
      rewrite app_length in Hlen. cbn in Hlen. lia. }
    (* list *)
    assert (Hlw : forall lo hi item0 dflt sep ab,
              let k := fun (c : ctx) vals lx' st' =>
                         match (match c_rec lx with Some _ => None | None => c_rec lx' end) with
                         | Some _ => (RPanic, st')
                         | None =>
                           if length vals <? lo then
                             match send_error c (ECount (c_parse_span lx') (length vals) lo hi) (log st') with
                             | (_, Some e') => (RErr e', st')
                             | (l, None) => (ROk (VList vals) lx', st_log st' l)
                             end
                           else (ROk (VList vals) lx', st')
                         end in
              let item := GStabilize (GRecoverWith dflt (list_rref sep ab) (GUpTo item0 (sep :: ab))) in
              let probe := GStabilize (GMaybe (GUpTo item0 (sep :: ab))) in
              let sepp := GRecoverWith VUnit (list_rref sep ab) (GDiscard (GOne sep)) in
              rel st
                match hi with
                | Some 0 => (ROk (VList []) lx, st)
                | _ => if (match hi with Some h => h <? lo | None => false end) then (RPanic, st)
                       else list_loop (run f) f hi ab dflt item probe sepp c1 [] lx st (k c1)
                end
                match hi with
                | Some 0 => (ROk (VList []) lx, st)
                | _ => if (match hi with Some h => h <? lo | None => false end) then (RPanic, st)
                       else list_loop (run f) f hi ab dflt item probe sepp c0 [] lx st (k c0)
                end).
    { intros lo hi item0 dflt sep ab k item probe sepp.
      assert (Hloop : rel st (list_loop (run f) f hi ab dflt item probe sepp c1 [] lx st (k c1))
                             (list_loop (run f) f hi ab dflt item probe sepp c0 [] lx st (k c0))).
      { apply rel_list_loop; [exact Hc|exact Hs|]. intros vs l s. unfold k.
        destruct (match c_rec lx with Some _ => None | None => c_rec l end); [apply rel_pure|].
        destruct (length vs <? lo); [|apply rel_pure].
        unfold send_error. rewrite Hs. destruct (has_sink c1); [|apply rel_pure].
        split; [eexists; reflexivity|]. cbn [snd st_log log]. intros E. exfalso.
        match type of E with ?a ++ [?x] = _ => assert (Hlen : length (a ++ [x]) = length a) by (rewrite E; reflexivity) end.
        rewrite app_length in Hlen. cbn in Hlen. lia. }
      destruct hi as [[|h]|]; [apply rel_pure| |].
      - destruct (S h <? lo); [apply rel_pure|exact Hloop].
      - exact Hloop. }
    destruct g; cbn [run]; try apply rel_pure.
    - (* one *) leaf.
    - (* any *) destruct ks; [apply rel_pure|]. leaf.
    - (* any_index *) destruct ks; [apply rel_pure|]. leaf.
    - (* seq *) apply rel_same. apply ext_seq_fix.
    - (* seq_count *) apply rel_same. apply ext_seqcount_fix.
    - (* pred *) leaf.
    - (* end_of_text *) apply rel_same. destruct (if c_at_end lx then Ok true else only_filtered_remain lx) as [b| |]; cbn [lift]; try apply ext_refl.
      destruct b; [apply ext_refl|]. destruct (c_peek lx) as [[o l']| |]; cbn [lift]; try apply ext_refl. destruct o; apply ext_refl.
    - (* left *) apply rel_on_ok; [apply IH; assumption|]. intros v l s. apply rel_map_val. apply IH; assumption.
    - (* right *) apply rel_on_ok; [apply IH; assumption|]. intros v l s. apply IH; assumption.
    - (* both *) apply rel_on_ok; [apply IH; assumption|]. intros v l s. apply rel_map_val. apply IH; assumption.
    - (* center *) apply rel_on_ok; [apply IH; assumption|]. intros v l s.
      apply rel_on_ok; [apply IH; assumption|]. intros v2 l2 s2. apply rel_map_val. apply IH; assumption.
    - (* map *) apply rel_map_val. apply IH; assumption.
    - (* discard *) apply rel_map_val. apply IH; assumption.
    - (* text *) apply rel_lift. intros [o lx1]. apply rel_on_ok; [apply IH; assumption|]. intros v l s. cbn zeta.
      destruct (_ && _); apply rel_pure.
    - (* spanned *) apply rel_lift. intros [o lx1]. apply rel_on_ok; [apply IH; assumption|]. intros v l s. apply rel_pure.
    - (* sub *) apply rel_lift. intros lx'. apply IH; assumption.
    - (* either *) rel_on (run f g1 lx c1 st) (run f g1 lx c0 st); [apply IH; assumption|].
      intros [[v l|e| |] s]; cbn [snd]; try apply rel_pure. apply IH; assumption.
    - (* maybe *) rewrite Hunrec. apply rel_same.
      pose proof (IH_ext g lx (ctx_unrec c0) st) as Hx. destruct (run f g lx (ctx_unrec c0) st) as [[v l|e| |] s]; exact Hx.
    - (* require_if *) destruct b; [apply rel_map_val; apply IH; assumption|]. apply IH; assumption.
    - (* cond *) destruct b; [apply rel_map_val; apply IH; assumption|apply rel_pure].
    - (* implies *) apply rel_on_ok; [apply IH; assumption|]. intros v l s. destruct v; try apply rel_pure. apply rel_map_val. apply IH; assumption.
    - (* antecedent *) apply rel_on_ok; [apply IH; assumption|]. intros v l s. destruct v; try apply rel_pure. apply rel_map_val. apply IH; assumption.
    - (* consequent *) apply rel_on_ok; [apply IH; assumption|]. intros v l s. destruct v; try apply rel_pure. apply rel_map_val. apply IH; assumption.
    - (* cond_implies *) apply rel_on_ok; [apply IH; assumption|]. intros v l s. destruct v; try apply rel_pure.
      destruct (vpeval p v); [|apply rel_pure]. apply rel_map_val. apply IH; assumption.
    - (* filter_with *) apply rel_lift. intros [old lx1]. apply rel_on_ok; [apply IH; assumption|]. intros v l s.
      apply rel_lift. intros [o2 l2]. apply rel_pure.
    - (* unfiltered *) apply rel_lift. intros [old lx1]. apply rel_on_ok; [apply IH; assumption|]. intros v l s.
      apply rel_lift. intros [o2 l2]. apply rel_pure.
    - (* raw *) apply IH; [apply crel_raw; exact Hc|exact Hs].
    - (* unrecoverable *) rewrite Hunrec. apply rel_same. apply IH_ext.
    - (* recover *) apply (Hrw VNone r (fun l c' s => some_of (run f g l c' s))). apply rel_map_val. apply IH; assumption.
    - (* recover_default *) apply (Hrw VDflt r (fun l c' s => run f g l c' s)). apply IH; assumption.
    - (* recover delayed *) apply (Hrw VNone r (fun l c' s => some_of (run f g l c' s))). apply rel_map_val. apply IH; assumption.
    - (* recover_default delayed *) apply (Hrw VDflt r (fun l c' s => run f g l c' s)). apply IH; assumption.
    - (* stabilize *) apply rel_stab; [exact Hc| |apply IH; assumption]. intros l c' st0. apply IH_ext.
    - (* repeat *) apply rel_intersperse; intros l s0; apply IH; assumption.
    - apply rel_count_of. apply rel_intersperse; intros l s0; apply IH; assumption.
    - apply rel_intersperse_until; intros l s0; apply IH; assumption.
    - apply rel_count_of. apply rel_intersperse_until; intros l s0; apply IH; assumption.
    - apply rel_intersperse; intros l s0; apply IH; assumption.
    - apply rel_count_of. apply rel_intersperse; intros l s0; apply IH; assumption.
    - apply rel_intersperse_until; intros l s0; apply IH; assumption.
    - apply rel_count_of. apply rel_intersperse_until; intros l s0; apply IH; assumption.
    - apply rel_intersperse; intros l s0; apply IH; assumption.
    - (* bracket *) apply Hbw.
    - apply Hbw.
    - apply Hbw.
    - apply Hbw.
    - (* up_to *) apply rel_on_ok; [apply IH; assumption|]. intros v l s. apply rel_lift. intros [o lx2].
      destruct o as [t|]; [|apply rel_pure]. destruct (in_kinds ab t); [apply rel_pure|]. apply rel_lift. intros [b lx3]. apply rel_pure.
    - (* list *) apply (Hlw 0 None (GSomeOf g) VNone sep ab).
    - apply (Hlw lo hi (GSomeOf g) VNone sep ab).
    - apply (Hlw 0 None g VDflt sep ab).
    - apply (Hlw lo hi g VDflt sep ab).
    - (* context push *)
      assert (Hns' : has_sink (ctx_pushed c0 tag) = false) by (unfold ctx_pushed; destruct (locked c0); exact Hs).
      rel_on (run f g lx (ctx_pushed c1 tag) st) (run f g lx (ctx_pushed c0 tag) st); [apply IH; [apply crel_pushed; exact Hc|exact Hns']|].
      intros [[v l|e| |] s]; cbn [snd]; try apply rel_pure.
      rewrite (crel_apply _ _ e (crel_pushed c1 c0 tag Hc)). apply rel_pure.
    - (* user failure *) apply rel_lift. intros x. apply rel_pure.
    - (* probe: both runs append a marker; a run that appended is not silent *)
      unfold send_error. rewrite Hs. destruct (has_sink c1).
      + split; [eexists; reflexivity|]. cbn [snd st_log log]. intros E. exfalso.
        match type of E with ?a ++ [?x] = _ => assert (Hlen : length (a ++ [x]) = length a) by (rewrite E; reflexivity) end.
        rewrite app_length in Hlen. cbn in Hlen. lia.
      + apply rel_same. eexists. reflexivity.
    - (* some_of *) apply rel_map_val. apply IH; assumption.
    - (* recover_with *) apply (Hrw dflt r (fun l c' s => run f g l c' s)). apply IH; assumption.
  Qed.
End Silent.

Theorem rel_run : forall fuel g lx c1 c0 st, crel c1 c0 -> has_sink c0 = false ->
  rel st (run fuel g lx c1 st) (run fuel g lx c0 st).
Proof.
  induction fuel as [|f IH]; intros g lx c1 c0 st Hc Hs; [apply rel_pure|]. apply (rel_step f IH); assumption.
Qed.

(** what the sink has received only ever grows, whatever the parser *)
Theorem log_only_grows fuel g lx c st : ext st (snd (run fuel g lx c st)).
Proof. destruct (rel_run fuel g lx c (mkctx false (trail c) (locked c)) st) as [H _]; [split; reflexivity|reflexivity|exact H]. Qed.

(** a sink-enabled run that reported nothing is the sink-less run *)
Theorem silent_run_is_sinkless fuel g lx c1 c0 st r :
  crel c1 c0 -> has_sink c0 = false -> run fuel g lx c1 st = r -> log (snd r) = log st ->
  run fuel g lx c0 st = r.
Proof. intros Hc Hs <- E. destruct (rel_run fuel g lx c1 c0 st Hc Hs) as [_ H]. exact (H E). Qed.
