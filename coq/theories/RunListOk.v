(** C11 on well-formed input: for an item parser of the C06 core fragment, a text whose deliverable
    tokens read  item (sep item)* [sep]  up to an abort token (or the end) is parsed by the list
    combinators into exactly the item values, the returned lexer delivers the abort token next (or
    nothing), and nothing is reported - whatever the context (sink or none). The stabilize /
    recover_default / up_to wrappers the list puts around its item and separator parsers are
    transparent on this path. *)
From Tephra Require Import MetricsSpec MetricsFacts CLexer LexerFacts Run Peg RunCore RunErrors RunRecover RunScope RunSink RunLoopsPeg.

Lemma tok_eqb_sym a b : tok_eqb a b = tok_eqb b a.
Proof. destruct (tok_eqb_spec a b) as [E|N]; destruct (tok_eqb_spec b a) as [E'|N']; try reflexivity; congruence. Qed.

(** the deliverable tokens of a well-formed list, the item values, what is left *)
Inductive wf_list (a : G) (sep : kind) (ab : list kind) : list entry -> list val -> list entry -> Prop :=
| wl_end_nil : wf_list a sep ab [] [] []
| wl_end_abort x r : in_kinds ab (e_tok x) = true -> wf_list a sep ab (x :: r) [] (x :: r)
| wl_item x r v s1 vs s2 :
    in_kinds ab (e_tok x) = false ->
    peg a (x :: r) = Some (POk v s1) -> wf_after a sep ab s1 vs s2 -> wf_list a sep ab (x :: r) (v :: vs) s2
with wf_after (a : G) (sep : kind) (ab : list kind) : list entry -> list val -> list entry -> Prop :=
| wa_nil : wf_after a sep ab [] [] []
| wa_abort x r : in_kinds ab (e_tok x) = true -> wf_after a sep ab (x :: r) [] (x :: r)
| wa_sep x r vs s2 :
    in_kinds ab (e_tok x) = false -> tok_eqb (tk0 sep) (e_tok x) = true ->
    (* after a separator: another item, or (trailing separator) the abort token / the end *)
    wf_list a sep ab r vs s2 ->
    (* items do not start with an abort token: the trailing-item probe finds nothing there *)
    (forall y q, r = y :: q -> in_kinds ab (e_tok y) = true -> peg a r = Some PFail) ->
    wf_after a sep ab (x :: r) vs s2.

Scheme wf_list_ind2 := Induction for wf_list Sort Prop
  with wf_after_ind2 := Induction for wf_after Sort Prop.

Section ListOk.
  Variable m : metrics.
  Hypothesis Htab : 1 <= tabw m.
  Variable t : text.
  Hypothesis Ht : wf_text t.
  Local Notation Inv := (Inv m t).

  Lemma not_at_end lx ys x s : Inv lx ys -> kept (c_filter lx) ys = x :: s -> c_at_end lx = false.
  Proof using Htab Ht.
    intros HI Hk. destruct (c_at_end lx) eqn:E; [|reflexivity].
    rewrite (at_end_stream m Htab t Ht lx ys HI E) in Hk. discriminate Hk.
  Qed.

  Lemma Inv_set_rec' lx ys r : Inv lx ys -> Inv (set_rec lx r) ys.
  Proof. exact (Inv_set_rec m t lx ys r). Qed.

  Variable a : G.
  Variable sep : kind.
  Variable ab : list kind.
  Hypothesis Ha : in_core a = true.
  Variable f0 : nat.
  Hypothesis Hd : gdepth a < f0.
  Variable c : ctx.
  Variable dflt : val.

  Local Notation soa := (sep :: ab).
  Local Notation rr := (list_rref sep ab).
  Local Notation item := (GStabilize (GRecoverWith dflt rr (GUpTo a soa))).
  Local Notation probe := (GStabilize (GMaybe (GUpTo a soa))).
  Local Notation sepp := (GRecoverWith VUnit rr (GDiscard (GOne sep))).
  Local Notation f := (S (S (S f0))).

  (** the item wrapper on a segment the item parser accepts wholly *)
  Lemma item_ok lx ys st v s1 : Inv lx ys -> c_rec lx = None ->
    peg a (kept (c_filter lx) ys) = Some (POk v s1) ->
    (match s1 with [] => True | y :: _ => in_kinds soa (e_tok y) = true end) ->
    exists lx' ys', run f item lx c st = (ROk v lx', st) /\ Inv lx' ys' /\ c_filter lx' = c_filter lx
      /\ c_rec lx' = None /\ kept (c_filter lx) ys' = s1.
  Proof using Htab Ht Ha Hd.
    intros HI Hl Hp Hnext.
    destruct (run_core m Htab t Ht f0 a Hd _ _ Hp lx ys c st HI eq_refl) as (lx1 & ys1 & E1 & HI1 & Hf1 & Hr1 & Hk1).
    assert (Hup : exists lx2 ys2, run (S f0) (GUpTo a soa) lx c st = (ROk v lx2, st) /\ Inv lx2 ys2
                    /\ c_filter lx2 = c_filter lx /\ c_rec lx2 = c_rec lx /\ kept (c_filter lx) ys2 = s1).
    { cbn [run]. rewrite E1. cbn [on_ok]. destruct s1 as [|y s1'].
      - rewrite <- Hf1 in Hk1. destruct (peek_nil m Htab t Ht lx1 ys1 HI1 Hk1) as (lx2 & ys2 & E2 & HI2 & Hf2 & Hr2 & Hk2).
        rewrite E2. cbn [lift]. exists lx2, ys2. split; [reflexivity|]. split; [exact HI2|]. split; [congruence|]. split; [congruence|].
        rewrite <- Hf1. exact Hk2.
      - rewrite <- Hf1 in Hk1. destruct (peek_cons m Htab t Ht lx1 ys1 y s1' HI1 Hk1) as (lx2 & ys2 & E2 & HI2 & Hf2 & Hr2 & Hk2).
        rewrite E2. cbn [lift]. rewrite Hnext. exists lx2, ys2. split; [reflexivity|]. split; [exact HI2|]. split; [congruence|]. split; [congruence|].
        rewrite <- Hf1. exact Hk2. }
    destruct Hup as (lx2 & ys2 & E2 & HI2 & Hf2 & Hr2 & Hk2).
    exists (set_rec lx2 None), ys2.
    split; [|split; [apply Inv_set_rec'; exact HI2|split; [exact Hf2|split; [reflexivity|exact Hk2]]]].
    change (run f item lx c st) with (stab_loop (run (S (S f0))) (S (S f0)) 0 (GRecoverWith dflt rr (GUpTo a soa)) c lx (run (S (S f0)) (GRecoverWith dflt rr (GUpTo a soa)) lx c st)).
    assert (Erw : run (S (S f0)) (GRecoverWith dflt rr (GUpTo a soa)) lx c st = (ROk v lx2, st)).
    { cbn [run]. cbn [run] in E2. rewrite E2. reflexivity. }
    rewrite Erw. reflexivity.
  Qed.

  (** the separator wrapper on a separator token *)
  Lemma sepp_ok lx ys st x r : Inv lx ys -> kept (c_filter lx) ys = x :: r -> tok_eqb (tk0 sep) (e_tok x) = true ->
    exists lx' ys', run f sepp lx c st = (ROk VUnit lx', st) /\ Inv lx' ys' /\ c_filter lx' = c_filter lx
      /\ c_rec lx' = c_rec lx /\ kept (c_filter lx) ys' = r.
  Proof using Htab Ht.
    intros HI Hk Hs. destruct (next_cons m Htab t Ht lx ys x r HI Hk) as (lx1 & ys1 & E1 & HI1 & Hf1 & Hr1 & Hk1 & _).
    exists lx1, ys1. split; [|split; [exact HI1|split; [exact Hf1|split; [exact Hr1|exact Hk1]]]].
    cbn [run]. rewrite E1. cbn [lift]. rewrite tok_eqb_sym, Hs. reflexivity.
  Qed.

  (** the trailing-item probe at an abort token finds no item *)
  Lemma probe_none lx ys st : Inv lx ys -> c_rec lx = None -> peg a (kept (c_filter lx) ys) = Some PFail ->
    exists lp, run f probe lx c st = (ROk VNone lp, st).
  Proof using Htab Ht Ha Hd.
    intros HI Hl Hp.
    destruct (run_core m Htab t Ht f0 a Hd _ _ Hp lx ys (ctx_unrec c) st HI eq_refl) as (e & E).
    exists (set_rec lx None).
    change (run f probe lx c st) with (stab_loop (run (S (S f0))) (S (S f0)) 0 (GMaybe (GUpTo a soa)) c lx (run (S (S f0)) (GMaybe (GUpTo a soa)) lx c st)).
    assert (Em : run (S (S f0)) (GMaybe (GUpTo a soa)) lx c st = (ROk VNone lx, st)).
    { cbn [run]. rewrite E. reflexivity. }
    rewrite Em. reflexivity.
  Qed.

  (** the loop on a well-formed list *)
  Lemma list_loop_ok (k : list val -> clexer -> store -> R) :
    forall s vs s2, wf_list a sep ab s vs s2 ->
    forall n lx ys st vals, Inv lx ys -> c_rec lx = None -> kept (c_filter lx) ys = s -> length vs < n ->
    (vs = [] -> forall y q, s = y :: q -> vals <> [] -> peg a s = Some PFail) ->
    exists lx' ys', Inv lx' ys' /\ c_filter lx' = c_filter lx /\ c_rec lx' = None /\ kept (c_filter lx) ys' = s2
      /\ list_loop (run f) n None ab dflt item probe sepp c vals lx st k = k (vals ++ vs) lx' st.
  Proof using Htab Ht Ha Hd.
    intros s vs s2 Hwf.
    induction Hwf as [ |x r Hab|x r v s1 vs s2 Hnab Hp Haf IHaf| |x r Hab|x r vs s2 Hnab Hsep Hwl IHwl Hprobe]
      using wf_list_ind2
      with (P0 := fun s1 vs s2 _ =>
        forall n lx1 ys1 st vals', Inv lx1 ys1 -> c_rec lx1 = None -> kept (c_filter lx1) ys1 = s1 -> length vs < n -> vals' <> [] ->
        exists lx' ys', Inv lx' ys' /\ c_filter lx' = c_filter lx1 /\ c_rec lx' = None /\ kept (c_filter lx1) ys' = s2
          /\ lift (c_peek lx1) st (fun '(o2, lx2) =>
               match o2 with
               | None => k vals' lx2 st
               | Some t2 =>
                 if in_kinds ab t2 then k vals' lx2 st
                 else if c_at_end lx2 then k vals' lx2 st
                 else
                   match run f sepp lx2 c st with
                   | (ROk _ lx3, st3) =>
                     lift (c_start_sublex lx3) st3 (fun lx4 =>
                     list_loop (run f) n None ab dflt item probe sepp c vals' lx4 st3 k)
                   | r0 => r0
                   end
               end) = k (vals' ++ vs) lx' st).
    - (* nothing left *)
      intros n lx ys st vals HI Hl Hk Hn _. destruct n as [|n]; [cbn in Hn; lia|]. cbn [list_loop].
      destruct (peek_nil m Htab t Ht lx ys HI Hk) as (lx0 & ys0 & E & HI0 & Hf0 & Hr0 & Hk0). rewrite E. cbn [lift].
      exists lx0, ys0. rewrite app_nil_r. repeat (split; [first [assumption|congruence]|]). reflexivity.
    - (* an abort token: the list ends in front of it *)
      intros n lx ys st vals HI Hl Hk Hn Hpr. destruct n as [|n]; [cbn in Hn; lia|]. cbn [list_loop].
      destruct (peek_cons m Htab t Ht lx ys x r HI Hk) as (lx0 & ys0 & E & HI0 & Hf0 & Hr0 & Hk0). rewrite E. cbn [lift]. rewrite Hab.
      destruct vals as [|v0 vr].
      + exists lx0, ys0. repeat (split; [first [assumption|congruence]|]). reflexivity.
      + (* after a trailing separator: the probe finds no item *)
        assert (Hpf : peg a (kept (c_filter lx0) ys0) = Some PFail).
        { rewrite Hf0, Hk0. apply (Hpr eq_refl x r); [reflexivity|discriminate]. }
        destruct (probe_none lx0 ys0 st HI0 ltac:(congruence) Hpf) as (lp & Ep). rewrite Ep.
        exists lx0, ys0. rewrite app_nil_r. repeat (split; [first [assumption|congruence]|]). reflexivity.
    - (* an item *)
      intros n lx ys st vals HI Hl Hk Hn _. destruct n as [|n]; [cbn in Hn; lia|]. cbn [list_loop].
      destruct (peek_cons m Htab t Ht lx ys x r HI Hk) as (lx0 & ys0 & E & HI0 & Hf0 & Hr0 & Hk0). rewrite E. cbn [lift]. rewrite Hnab.
      assert (Hp0 : peg a (kept (c_filter lx0) ys0) = Some (POk v s1)) by (rewrite Hf0, Hk0; exact Hp).
      assert (Hnext : match s1 with [] => True | y :: _ => in_kinds soa (e_tok y) = true end).
      { destruct Haf as [ |y q Hy|y q vs' s2' Hny Hys _ _]; [exact I| |]; unfold in_kinds in *; cbn [existsb].
        - rewrite Hy. apply orb_true_r.
        - rewrite Hys. reflexivity. }
      destruct (item_ok lx0 ys0 st v s1 HI0 ltac:(congruence) Hp0 Hnext) as (lx1 & ys1 & E1 & HI1 & Hf1 & Hr1 & Hk1).
      rewrite E1. cbn zeta. cbn [ge_opt].
      cbn [length] in Hn.
      destruct (IHaf n lx1 ys1 st (vals ++ [v]) HI1 Hr1 ltac:(rewrite Hf1, Hf0 in *; rewrite <- Hf0; rewrite <- Hf0 in Hk1; exact Hk1) ltac:(lia)
                  ltac:(destruct vals; discriminate)) as (lx' & ys' & HI' & Hf' & Hr' & Hk' & Eq).
      exists lx', ys'. split; [exact HI'|]. split; [congruence|]. split; [exact Hr'|]. split; [rewrite <- Hf0, <- Hf1; exact Hk'|].
      rewrite Eq. rewrite <- app_assoc. reflexivity.
    - (* after an item: nothing left *)
      intros n lx1 ys1 st vals' HI1 Hl1 Hk1 Hn Hne.
      destruct (peek_nil m Htab t Ht lx1 ys1 HI1 Hk1) as (lx2 & ys2 & E & HI2 & Hf2 & Hr2 & Hk2). rewrite E. cbn [lift].
      exists lx2, ys2. rewrite app_nil_r. repeat (split; [first [assumption|congruence]|]). reflexivity.
    - (* after an item: the abort token *)
      intros n lx1 ys1 st vals' HI1 Hl1 Hk1 Hn Hne.
      destruct (peek_cons m Htab t Ht lx1 ys1 x r HI1 Hk1) as (lx2 & ys2 & E & HI2 & Hf2 & Hr2 & Hk2). rewrite E. cbn [lift]. rewrite Hab.
      exists lx2, ys2. rewrite app_nil_r. repeat (split; [first [assumption|congruence]|]). reflexivity.
    - (* after an item: a separator, then the rest *)
      intros n lx1 ys1 st vals' HI1 Hl1 Hk1 Hn Hne.
      destruct (peek_cons m Htab t Ht lx1 ys1 x r HI1 Hk1) as (lx2 & ys2 & E & HI2 & Hf2 & Hr2 & Hk2). rewrite E. cbn [lift]. rewrite Hnab.
      pose proof Hk2 as Hk2'. rewrite <- Hf2 in Hk2'.
      rewrite (not_at_end lx2 ys2 x r HI2 Hk2').
      destruct (sepp_ok lx2 ys2 st x r HI2 Hk2' Hsep) as (lx3 & ys3 & E3 & HI3 & Hf3 & Hr3 & Hk3). rewrite E3.
      destruct (c_start_sublex_spec m Htab t Ht lx3 ys3 HI3) as (lx4 & ys4 & E4 & HI4 & Hk4 & Hf4 & Hr4). rewrite E4. cbn [lift].
      assert (Hk4' : kept (c_filter lx4) ys4 = r) by (rewrite Hk4, Hf3; exact Hk3).
      destruct (IHwl n lx4 ys4 st vals' HI4 ltac:(congruence) Hk4' Hn) as (lx' & ys' & HI' & Hf' & Hr' & Hk' & Eq).
      { intros Evs y q Er _. exact (Hprobe y q Er (match Hwl in wf_list _ _ _ s0 vs0 _ return (vs0 = [] -> s0 = y :: q -> in_kinds ab (e_tok y) = true) with
                                              | wl_end_nil _ _ _ => fun _ E0 => ltac:(discriminate E0)
                                              | wl_end_abort _ _ _ x0 r0 H0 => fun _ E0 => ltac:(injection E0 as -> _; exact H0)
                                              | wl_item _ _ _ _ _ _ _ _ _ _ _ _ => fun E0 _ => ltac:(discriminate E0)
                                              end Evs Er)). }
      exists lx', ys'. split; [exact HI'|]. split; [congruence|]. split; [exact Hr'|].
      split; [rewrite <- Hf2, <- Hf3, <- Hf4; exact Hk'|exact Eq].
  Qed.

  (** list_default / list_bounded_default(0, None) on a well-formed list *)
  Theorem list_default_ok lx ys st vs s2 : Inv lx ys -> c_rec lx = None ->
    wf_list a sep ab (kept (c_filter lx) ys) vs s2 -> length vs < f ->
    exists lx' ys', list_loop (run f) f None ab dflt item probe sepp c [] lx st
                      (fun vals lx' st' =>
                         match (match c_rec lx with Some _ => None | None => c_rec lx' end) with
                         | Some _ => (RPanic, st')
                         | None =>
                           if length vals <? 0 then
                             match send_error c (ECount (c_parse_span lx') (length vals) 0 None) (log st') with
                             | (_, Some e') => (RErr e', st')
                             | (l, None) => (ROk (VList vals) lx', st_log st' l)
                             end
                           else (ROk (VList vals) lx', st')
                         end) = (ROk (VList vs) lx', st)
      /\ Inv lx' ys' /\ c_filter lx' = c_filter lx /\ kept (c_filter lx) ys' = s2.
  Proof using Htab Ht Ha Hd.
    intros HI Hl Hwf Hn.
    match goal with |- context [list_loop _ _ _ _ _ _ _ _ _ _ _ _ ?kk] =>
      destruct (list_loop_ok kk _ vs s2 Hwf f lx ys st [] HI Hl eq_refl Hn) as (lx' & ys' & HI' & Hf' & Hr' & Hk' & Eq)
    end.
    { intros _ y q _ Hne. contradiction Hne. reflexivity. }
    exists lx', ys'. rewrite Eq, Hl, Hr'. cbn [app]. split; [reflexivity|]. split; [exact HI'|]. split; [exact Hf'|exact Hk'].
  Qed.
End ListOk.

(** the two public unbounded list combinators (the fuel is named [F] so that no step of the proof
    asks the kernel to unfold the interpreter) *)
Theorem list_def_ok m (Htab : 1 <= tabw m) t (Ht : wf_text t) a sep ab f0 F c lx ys st vs s2 :
  F = S (S (S f0)) ->
  in_core a = true -> gdepth a < f0 -> Inv m t lx ys -> c_rec lx = None ->
  wf_list a sep ab (kept (c_filter lx) ys) vs s2 -> length vs < F ->
  exists lx' ys', run (S F) (GListDef a sep ab) lx c st = (ROk (VList vs) lx', st)
    /\ Inv m t lx' ys' /\ c_filter lx' = c_filter lx /\ kept (c_filter lx) ys' = s2.
Proof.
  intros HF Ha Hd HI Hl Hwf Hn. rewrite HF in Hn.
  destruct (list_default_ok m Htab t Ht a sep ab Ha f0 Hd c VDflt lx ys st vs s2 HI Hl Hwf Hn) as (lx' & ys' & E & H).
  exists lx', ys'. split; [|exact H]. rewrite <- HF in E. cbn [run]. exact E.
Qed.

Theorem list_ok m (Htab : 1 <= tabw m) t (Ht : wf_text t) a sep ab f0 F c lx ys st vs s2 :
  F = S (S (S f0)) ->
  in_core a = true -> S (gdepth a) < f0 -> Inv m t lx ys -> c_rec lx = None ->
  wf_list (GSomeOf a) sep ab (kept (c_filter lx) ys) vs s2 -> length vs < F ->
  exists lx' ys', run (S F) (GList a sep ab) lx c st = (ROk (VList vs) lx', st)
    /\ Inv m t lx' ys' /\ c_filter lx' = c_filter lx /\ kept (c_filter lx) ys' = s2.
Proof.
  intros HF Ha Hd HI Hl Hwf Hn. rewrite HF in Hn.
  destruct (list_default_ok m Htab t Ht (GSomeOf a) sep ab Ha f0 Hd c VNone lx ys st vs s2 HI Hl Hwf Hn) as (lx' & ys' & E & H).
  exists lx', ys'. split; [|exact H]. rewrite <- HF in E. cbn [run]. exact E.
Qed.
